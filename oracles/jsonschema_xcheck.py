#!/usr/bin/env python3-vt
"""Second, independent JSON-Schema oracle (python jsonschema, Draft 4 + OpenAPI 3.0 `nullable` rewrite).

stdin: JSON lines {"id":..., "root": <document with components.schemas>, "schema": <schema object>, "instance_text": "<json text>"}
stdout: JSON lines {"id":..., "valid": true|false|null, "error": "..."}   (null = the oracle cannot decide)
"""
import json, sys, decimal
import jsonschema
from jsonschema import Draft4Validator, RefResolver


def rewrite(s):
    """OpenAPI 3.0 → Draft 4: nullable:true admits null in addition to the schema."""
    if isinstance(s, list):
        return [rewrite(x) for x in s]
    if not isinstance(s, dict):
        return s
    if "$ref" in s:
        return {"$ref": s["$ref"]}  # siblings of $ref are ignored (Draft 4 and ogen)
    out = {}
    for k, v in s.items():
        if k == "nullable":
            continue
        if k in ("properties", "patternProperties"):
            out[k] = {pk: rewrite(pv) for pk, pv in v.items()}
        elif k in ("items", "additionalProperties", "not"):
            out[k] = rewrite(v) if isinstance(v, (dict, list)) else v
        elif k in ("allOf", "anyOf", "oneOf"):
            out[k] = [rewrite(x) for x in v]
        elif k == "discriminator":
            continue
        else:
            out[k] = v
    if s.get("nullable") is True:
        return {"anyOf": [{"type": "null"}, out]}
    return out


def main():
    cache = {}
    for line in sys.stdin:
        line = line.strip()
        if not line:
            continue
        req = json.loads(line)
        rid = req["id"]
        try:
            key = json.dumps(req["root"], sort_keys=True)
            root = cache.get(key)
            if root is None:
                root = dict(req["root"])
                comps = root.get("components", {}).get("schemas", {})
                root["components"] = {"schemas": {k: rewrite(v) for k, v in comps.items()}}
                cache.clear()
                cache[key] = root
            schema = rewrite(req["schema"])
            inst = json.loads(req["instance_text"])
            resolver = RefResolver("", root)
            v = Draft4Validator(schema, resolver=resolver)
            errs = list(v.iter_errors(inst))
            print(json.dumps({"id": rid, "valid": not errs, "error": errs[0].message[:200] if errs else ""}))
        except RecursionError:
            print(json.dumps({"id": rid, "valid": None, "error": "recursion"}))
        except Exception as ex:  # the oracle abstains
            print(json.dumps({"id": rid, "valid": None, "error": "%s: %s" % (type(ex).__name__, str(ex)[:200])}))
        sys.stdout.flush()


if __name__ == "__main__":
    main()
