#!/usr/bin/env python3
"""prints the markdown table rows of seeded changes: tools/seed_table.py <name>..."""
import json,sys,re,os
for name in sys.argv[1:]:
    d=os.path.join(os.path.dirname(os.path.abspath(__file__)),'..','seeded',name)
    m=json.load(open(os.path.join(d,'meta.json')))
    log=open(os.path.join(d,'confirm.log')).read().splitlines()
    hits=[l for l in log if 'against the patched tree: rc=1' in l]
    by='(not reported)'
    if hits:
        l=hits[-1]
        chk=re.search(r'check (C\d+)',l).group(1)
        cls=re.findall(r'unit=(\S+) classifier=([^:]+):',l)
        by='%s: %s'%(chk,'; '.join('%s / %s'%(u,c) for u,c in cls[:2]))
    first=[l for l in log if l.startswith('check ')]
    stood='as it stood' if first and 'rc=1' in first[0] else 'after extension'
    print('| `%s` | %s | %s (%s) |'%(name,m.get('title','')[:140].replace('|','/'),by,stood))
