#!/bin/bash
# Runs one check against an already confirmed seeded change again (after the checks were extended) and
# records the result in seeded/<name>/meta.json and confirm.log.
# usage: tools/seed_recheck.sh <name> <check-id> [tier]
NAME=$1; CHK=$2; TIER=${3:-quick}
cd "$(dirname "$0")/.." || exit 1
export GOFLAGS=-mod=mod GOPROXY=off GOSUMDB=off GOTOOLCHAIN=local
WT=$(mktemp -d /tmp/sr-XXXXXX); rmdir "$WT"
git -C /repo worktree add -q "$WT" HEAD || exit 2
(cd "$WT" && git apply "$OLDPWD/seeded/$NAME/patch.diff") || { echo "PATCH DOES NOT APPLY"; git -C /repo worktree remove --force "$WT"; exit 3; }
VERIF_REPO="$WT" ./vcheck $CHK --tier $TIER > /tmp/sr.check.$$ 2>&1; C=$?
LINE="after extension: check $CHK ($TIER) against the patched tree: rc=$C $(grep -a -A1 '^VIOLATION' /tmp/sr.check.$$ | grep -a classifier | head -2 | cut -c1-220 | tr '\n' ' ')"
echo "$LINE" | tee -a seeded/$NAME/confirm.log
git -C /repo worktree remove --force "$WT"; git -C /repo worktree prune
python3 - seeded/$NAME/meta.json "$CHK" "$C" "$TIER" <<'PY'
import json,sys
p,chk,c,tier=sys.argv[1:]
m=json.load(open(p))
cb=m.setdefault("confirmed_by_builder",{})
cb["first_check_run"]={"check_run":cb.get("check_run"),"check_exit_code":cb.get("check_exit_code"),"caught":cb.get("caught")}
cb["check_run"]="VERIF_REPO=<scratch worktree with patch> ./vcheck %s --tier %s (after the extension described in DESIGN.md Appendix B, round 5)"%(chk,tier)
cb["check_exit_code"]=int(c); cb["caught"]= c=="1"
json.dump(m,open(p,"w"),indent=1)
PY
rm -f /tmp/sr.check.$$
