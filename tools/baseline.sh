#!/bin/sh
# Runs ogen's pinned test suite (module "." of /repo, guard OFF) and compares with BASELINE.json.
# usage: tools/baseline.sh [repo-dir]
REPO=${1:-/repo}
export GOFLAGS=-mod=mod GOPROXY=off GOSUMDB=off GOTOOLCHAIN=local
OUT=$(mktemp)
(cd "$REPO" && go test -json -vet=off -count=1 -timeout 25m ./... > "$OUT" 2>/dev/null)
python3 - "$OUT" <<'PY'
import json,sys
res={}
for line in open(sys.argv[1]):
    try: e=json.loads(line)
    except Exception: continue
    if e.get("Test") and e.get("Action") in ("pass","fail","skip"):
        res[e["Package"]+"::"+e["Test"]]=e["Action"]
base=json.load(open("/root/.vp/BASELINE.json"))
stable=base["stable_pass"]
bad=[t for t in stable if res.get(t)!="pass"]
print("baseline: %d stable tests, %d pass now, %d not passing" % (len(stable), len(stable)-len(bad), len(bad)))
for t in bad[:40]: print("  NOT PASSING:", t, res.get(t))
sys.exit(1 if bad else 0)
PY
RC=$?
rm -f "$OUT"
exit $RC
