#!/bin/sh
# Runs the quick (or given) tier of every check listed in checks.d/READY (or given ids) one after another.
# usage: tools/runall.sh [tier] [ids...]
cd "$(dirname "$0")/.." || exit 1
TIER=${1:-quick}; shift 2>/dev/null
IDS=${*:-$(cat checks.d/READY)}
for id in $IDS; do
  s=$(date +%s)
  ./vcheck $id --tier $TIER > /tmp/runall.$id.out 2>&1; rc=$?
  e=$(date +%s)
  echo "$id rc=$rc $((e-s))s $(grep -c '^KNOWN-FINDING' /tmp/runall.$id.out) known $(grep '^VIOLATION' /tmp/runall.$id.out | head -2 | tr '\n' ' ' | cut -c1-200)"
done
