#!/usr/bin/env python3
"""Writes /verif/MANIFEST.json from checks.d/*.json and the per-property texts below."""
import json, os, glob
ROOT = os.path.dirname(os.path.dirname(os.path.abspath(__file__)))
props = [json.loads(l) for l in open(os.path.join(ROOT, "properties.jsonl"))]
checks = {}
for fn in sorted(glob.glob(os.path.join(ROOT, "checks.d", "*.json"))):
    checks.update(json.load(open(fn)))

TEXT = {
 "C01": ("exploration", "client->server->client exchanges through code REGENERATED from /repo (compile boundary crossed per batch): exchange-profile documents x all operations x reflect-built core/hostile values, recorder + middleware vs sent values, response variants/status/headers/body", "rapid property-based testing over regenerated code, round-trip oracle (sent vs received)"),
 "C02": ("exploration", "corpus x 22 feature configurations and rapid hostile-name documents are generated and the written package is built (go build + go test -run ^$) in a scratch module against /repo; go-format/template/panic outcomes are violations", "generated-input search with the Go type checker as oracle"),
 "C03": ("exploration", "schema-directed valid instances, every single-keyword boundary mutant and random JSON are posted to regenerated servers; verdicts from two independent JSON-Schema oracles (Go reference validator + python jsonschema) used only where they agree", "rapid PBT, differential oracle (two reference validators vs generated decode+validate)"),
 "C04": ("exploration", "instance-directed and value-directed JSON round trips on regenerated types: well-formed, valid against the source schema (reference validator), decode==value, re-encode equal", "rapid PBT, round-trip + reference-model oracle"),
 "C05": ("exploration", "bounded-exhaustive small route sets + rapid random route sets regenerated into servers and probed with instances, near misses, exhaustive short paths, 9 methods, prefix; reference template matcher on the template strings (clauses S,P,C,N,A,F)", "bounded-exhaustive enumeration + rapid PBT against a reference model"),
 "C06": ("exploration", "the admitted style matrix is re-derived by running the real parser+generator; encoders/decoders are driven with the callback shapes generated code uses over bounded-exhaustive and random values against a reference serializer written from the OpenAPI style table, round trip, refusal of active delimiters, cookie escaping inverse, no panic; admission of a parameter is independent of other parameters that refer to the same component schema (all pairs)", "bounded-exhaustive enumeration + rapid PBT, reference serializer and round-trip oracles"),
 "C07": ("exploration", "random reference graphs over all component kinds (shared targets under different names, cross-file chains, escaped pointers, cycles, over-deep chains) with an own inliner: parse(spec) ~ parse(inlined), generator class/operation signature equal, cycle and depth diagnostics, Expand round trip; every case in a worker subprocess with watchdog", "rapid PBT, metamorphic oracle (referencing == inlining)"),
 "C08": ("exploration", "bounded-exhaustive + random ECMA-262 pattern ASTs x subject strings; ogenregex vs two independent oracles (regexp2 ECMAScript mode and a reference matcher validated against V8 offline and frozen), engine choice for the fall-back family, String()==source", "bounded-exhaustive enumeration + rapid PBT, differential oracle"),
 "C09": ("exploration", "requirement structures exhaustive for <=2/<=3 schemes and sampled to 20 schemes, regenerated client+server, all verdict vectors (absent/accept/reject/skip) against a boolean model; SecuritySource -> SecurityHandler credential equality incl. OAuth2 scopes; alternatives skipped for an unimplemented scheme kind", "exhaustive enumeration + rapid PBT against a boolean reference model"),
 "C10": ("exploration", "rapid state machine over generation histories (sequential, concurrent pairs, GOMAXPROCS changes, GC) with byte equality to the first generation, plus fresh worker processes per repetition (fresh map seeds); whole binary under the race detector", "stateful rapid PBT + race detector, equality-across-runs oracle"),
 "C11": ("exploration", "structure-aware single-fault mutants of corpus documents and of a rich accepted document (every site x every structural fault, bounded-exhaustive in the quick tier) in JSON and YAML spellings, byte-level mutants and hostile constants, each in worker subprocesses with watchdog and memory ceiling: no panic / hang / fatal; positions inside the document and on the fault chain; JSON vs YAML spelling agree", "rapid PBT / fuzzing with totality, position and metamorphic oracles"),
 "C12": ("exploration", "all strings up to length 6/8 over an 11-byte escape alphabet + rapid strings against a token-wise reference normaliser, octet equality, canonical form, idempotence; spec path keys modulo the equivalence; equivalent re-escapings of served requests on regenerated servers", "bounded-exhaustive enumeration + rapid PBT against a reference implementation"),
 "C13": ("exploration", "every conv / json helper pair (enumerated from the code and the generator's format mapping): exhaustive for 8/16-bit ints and bools, boundary+random elsewhere; parse(format(v))==v and independent syntax recognisers for each declared format", "exhaustive enumeration + rapid PBT, round-trip and recogniser oracles"),
 "C14": ("exploration", "complete enumeration of the go:generate directives of internal/integration and examples, run with tools built from /repo into scratch targets, byte comparison with the checked-in files", "exhaustive enumeration (finite domain), byte-equality oracle"),
 "C15": ("exploration", "valid requests captured from the regenerated client are mutated (directed mutations with expected status class, incl. integers just outside their declared format; undirected body/header/query/URL-struct mutations that bypass net/http validation) and served through ServeHTTP with a counting writer under recover", "mutation-based fuzzing of requests against regenerated servers with a stage->status oracle"),
 "C16": ("exploration", "random documents with adversarial member names x every valid pointer to every node in plain and fragment spelling, single-edit mutants and random strings against an independent RFC 6901 evaluator with node identity", "rapid PBT against a reference evaluator"),
 "C17": ("exploration", "corpus, negative fixtures and YAML-sensitive synthetic documents re-spelt by independent JSON/YAML emitters (styles, indentation, comments, quoting, anchors); generated files byte-identical / same diagnostic modulo positions", "rapid PBT, metamorphic oracle (re-spelling invariance)"),
 "C18": ("exploration", "pairs/triples of JSON texts (re-spellings, near-equal mutants incl. >2^53 and huge exponents, malformed texts) against an exact reference comparison; equivalence laws; duplicate-enum rejection through the real schema parser; numeric bounds compared by gen/reduce.go (convenient errors forced) against the same reference", "rapid PBT against an exact reference model + algebraic laws"),
 "C19": ("exploration", "call lists over all operations of regenerated client/server pairs compiled with -race, run sequentially and by 2/8/64 goroutines under several GOMAXPROCS values; race reports, per-call outcome equality with the sequential run, multiset of handler-received arguments", "concurrent PBT under the race detector, sequential-equivalence oracle"),
 "C20": ("fault_enumeration", "54 concrete pre-write failure stages of the built cmd/ogen crossed with fixed and rapid-drawn target-directory states and --clean on/off: exit code and before/after snapshots; success runs check that only own-pattern files are removed/created", "fault enumeration x rapid-drawn directory states, snapshot-equality oracle"),
}
# thorough tiers of these checks end with native coverage-guided campaigns over the same generators and oracles
for _pid in ("C06", "C08", "C11", "C12", "C13", "C16", "C17", "C18"):
    _l, _t, _tech = TEXT[_pid]
    TEXT[_pid] = (_l, _t, _tech + "; the thorough tier adds bounded native coverage-guided fuzzing (go test -fuzz) of the same generators and oracles")
_l, _t, _tech = TEXT["C01"]
TEXT["C01"] = (_l, _t + "; fixed parameter-format documents (every type/format pair in every parameter location, one per time format)", _tech)
_l, _t, _tech = TEXT["C06"]
TEXT["C06"] = (_l, _t + "; several parameters through one encoder/decoder decode as each does alone", _tech)
_l, _t, _tech = TEXT["C11"]
TEXT["C11"] = (_l, _t + "; two-file documents with faults in the referenced file: every position names the file it lies in", _tech)
_l, _t, _tech = TEXT["C19"]
TEXT["C19"] = (_l, _t + "; for every second package the first use in the process is concurrent", _tech)
_l, _t, _tech = TEXT["C10"]
TEXT["C10"] = (_l, _t + "; every Generator writes its output twice (rendering must not change the IR)", _tech)
NOTE = "trusted: the oracle code under /verif (reference models written from the specifications, not from ogen), the Go toolchain and rapid; coverage is the explored set counted in the evidence file (exploration never establishes absence); genuine defects already found are listed in known_findings.json / known_findings.d and excluded by narrow classifiers"

ready = set(open(os.path.join(ROOT, "checks.d", "READY")).read().split())
claimed = []
for p in props:
    pid = p["id"]
    if pid in checks and pid in TEXT and pid in ready:
        lvl, text, tech = TEXT[pid]
        claimed.append({
            "property_id": pid,
            "quick_cmd": "./vcheck %s --tier quick" % pid,
            "thorough_cmd": "./vcheck %s --tier thorough" % pid,
            "evidence_file": "evidence/%s.json" % pid,
            "replay_cmd_template": "./vcheck %s --replay {path}" % pid,
            "engine": "vcheck",
            "level_claimed": {"category": checks[pid].get("level", lvl), "text": text, "design_ref": "DESIGN.md §4 %s" % pid},
            "level_note": NOTE,
            "technique": tech,
        })
na = [{"property_id": p["id"], "reason": "check still being built in this session (see DESIGN.md §7); not claimed until it is silent on the unchanged tree"} for p in props if p["id"] not in [c["property_id"] for c in claimed]]
m = {
 "version": 1,
 "setup_cmd": "./setup.sh",
 "hooks": {"guard": "verif", "enable": "no hooks are needed: every check uses exported API of /repo (the Go build tag 'verif' is reserved and unused); checks build against /repo's working tree through `replace github.com/ogen-go/ogen => /repo`", "baseline_off_cmd": "tools/baseline.sh /repo", "source_commits": [], "add_only": True},
 "engines": [{"name": "vcheck", "path": "vcheck", "serves_properties": [c["property_id"] for c in claimed], "kind_free_text": "python driver + Go test binaries: rapid v1.3.0 generators/state machines, bounded-exhaustive enumerators, a regeneration harness (internal/regen) that regenerates, compiles and drives code from /repo's working tree"}],
 "checks": claimed,
 "not_applicable": na,
 "notes": "Property-based testing and fuzzing only. Fix commits in /repo (unguarded, 'fix:'): see known_findings.json entries with status fixed.",
}
json.dump(m, open(os.path.join(ROOT, "MANIFEST.json"), "w"), indent=1)
print("claimed:", [c["property_id"] for c in claimed]); print("not applicable:", [n["property_id"] for n in na])
