#!/bin/sh
# Confirms one seeded change in a scratch worktree and runs a check against it.
# usage: tools/seed_verify.sh <seed-out-dir> <name> <check-id> <demo-file> <dest-dir-in-tree> <test-regex> [tier]
# Writes /verif/seeded/<name>/{patch.diff,demo/,meta.json,confirm.log}
SRC=$1; NAME=$2; CHK=$3; DEMO=$4; DEST=$5; RX=$6; TIER=${7:-quick}
cd "$(dirname "$0")/.." || exit 1
export GOFLAGS=-mod=mod GOPROXY=off GOSUMDB=off GOTOOLCHAIN=local
WT=$(mktemp -d /tmp/sv-XXXXXX); rmdir "$WT"
git -C /repo worktree add -q "$WT" HEAD || exit 2
OUT=seeded/$NAME; mkdir -p "$OUT"; cp "$SRC/patch.diff" "$OUT/"; rm -rf "$OUT/demo"; cp -r "$SRC/demo" "$OUT/demo"
LOG=$OUT/confirm.log; : > "$LOG"
say() { echo "$@" | tee -a "$LOG"; }
# demo passes without the patch
rundemo() { # $1 = output file
  if [ "${DEMO%.sh}" != "$DEMO" ]; then bash "$SRC/demo/$DEMO" "$WT" > "$1" 2>&1
  else mkdir -p "$WT/$DEST"; cp "$SRC/demo/$DEMO" "$WT/$DEST/"; (cd "$WT" && go test -vet=off -count=1 -run "$RX" "./$DEST/" > "$1" 2>&1); r=$?; rm -f "$WT/$DEST/$DEMO"; return $r; fi
}
rundemo /tmp/sv.demo0.$$; D0=$?
say "demo without patch: rc=$D0"
(cd "$WT" && git apply "$OLDPWD/$OUT/patch.diff") || { say "PATCH DOES NOT APPLY"; git -C /repo worktree remove --force "$WT"; exit 3; }
(cd "$WT" && go build ./... >/tmp/sv.build.$$ 2>&1); B=$?
say "build with patch: rc=$B"
rundemo /tmp/sv.demo1.$$; D1=$?
say "demo with patch: rc=$D1 ($(grep -m1 -e '--- FAIL' /tmp/sv.demo1.$$ | cut -c1-120))"
tools/baseline.sh "$WT" > /tmp/sv.base.$$ 2>&1; S=$?
say "existing suite with patch: rc=$S ($(head -1 /tmp/sv.base.$$))"
VERIF_REPO="$WT" ./vcheck $CHK --tier $TIER > /tmp/sv.check.$$ 2>&1; C=$?
say "check $CHK ($TIER) against the patched tree: rc=$C $(grep -A1 '^VIOLATION' /tmp/sv.check.$$ | grep classifier | head -2 | cut -c1-220 | tr '\n' ' ')"
git -C /repo worktree remove --force "$WT"; git -C /repo worktree prune
python3 - "$SRC/meta.json" "$OUT/meta.json" "$CHK" "$D0" "$B" "$D1" "$S" "$C" "$TIER" <<'PY'
import json,sys
src,dst,chk,d0,b,d1,s,c,tier=sys.argv[1:]
try: m=json.load(open(src))
except Exception: m={}
m["confirmed_by_builder"]={"demo_passes_without_patch": d0=="0","builds_with_patch": b=="0","demo_fails_with_patch": d1!="0","existing_suite_passes_with_patch": s=="0",
  "check_run": "VERIF_REPO=<scratch worktree with patch> ./vcheck %s --tier %s" % (chk,tier), "check_exit_code": int(c), "caught": c=="1"}
json.dump(m,open(dst,"w"),indent=1)
PY
