// genone regenerates one spec into a directory (development aid).
// usage: go run ./tools/genone spec.json outdir [server|full]
package main

import (
	"fmt"
	"os"

	"verif/internal/regen"
)

func main() {
	data, err := os.ReadFile(os.Args[1])
	if err != nil {
		panic(err)
	}
	cfg := regen.ServerOnly()
	if len(os.Args) > 3 && os.Args[3] == "full" {
		cfg = regen.ClientServer()
	}
	out := regen.Generate(data, cfg, os.Args[2], "api")
	fmt.Println(out.Class, out.Err, out.Files)
}
