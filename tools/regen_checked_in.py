#!/usr/bin/env python3
"""Re-run every `//go:generate … cmd/ogen …` directive of a checkout IN PLACE (used after a fix: commit
that changes templates, so that checked-in generated code stays what the generator produces: C14).
usage: tools/regen_checked_in.py <repo-dir>"""
import os, re, shlex, subprocess, sys, tempfile
repo = os.path.abspath(sys.argv[1])
env = dict(os.environ, GOFLAGS="-mod=mod", GOPROXY="off", GOSUMDB="off", GOTOOLCHAIN="local")
bindir = tempfile.mkdtemp(prefix="regenbin-")
for tool in ("ogen", "jschemagen"):
    subprocess.run(["go", "build", "-o", os.path.join(bindir, tool), "./cmd/" + tool], cwd=repo, env=env, check=True)
subprocess.run(["go", "build", "-o", os.path.join(bindir, "mkformattest"), "./tools/mkformattest"], cwd=repo, env=env, check=True)
jobs = []
for rel in ("internal/integration/generate.go", "examples/generate.go"):
    d = os.path.dirname(os.path.join(repo, rel))
    for line in open(os.path.join(repo, rel)):
        m = re.match(r"//go:generate go run (\S+) (.*)", line.strip())
        if not m:
            continue
        tool = m.group(1).rsplit("/", 1)[-1]
        if tool not in ("ogen", "jschemagen", "mkformattest"):
            print("unknown directive tool:", m.group(1)); continue
        args = shlex.split(m.group(2))
        if tool != "mkformattest":
            spec = os.path.join(d, args[-1])
            if not os.path.exists(spec) or os.path.getsize(spec) == 0:
                print("skip (spec missing/empty):", args[-1]); continue
        jobs.append((d, tool, args))
# mkformattest produces an input of a later ogen directive: run it first
for d, tool, a in jobs:
    if tool == "mkformattest":
        subprocess.run([os.path.join(bindir, tool)] + a, cwd=d, env=env, check=True)
jobs = [j for j in jobs if j[1] != "mkformattest"]
procs = [(a, subprocess.Popen([os.path.join(bindir, tool)] + a, cwd=d, env=dict(env, GOPACKAGE=os.path.basename(d), GOFILE="generate.go"), stdout=subprocess.DEVNULL, stderr=subprocess.PIPE)) for d, tool, a in jobs]
bad = 0
for a, p in procs:
    _, err = p.communicate()
    if p.returncode != 0:
        bad += 1; print("FAILED", a, err.decode()[-500:])
subprocess.run(["rm", "-rf", bindir])
print("directives run:", len(procs), "failed:", bad)
sys.exit(1 if bad else 0)
