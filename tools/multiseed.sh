#!/bin/sh
# Runs the given tier of every READY check at several seeds; prints one line per run.
# usage: tools/multiseed.sh <tier> "<seeds>" [ids...]
cd "$(dirname "$0")/.." || exit 1
TIER=$1; SEEDS=$2; shift 2
IDS=${*:-$(cat checks.d/READY)}
for s in $SEEDS; do for id in $IDS; do
  t0=$(date +%s)
  VERIF_SEED=$s ./vcheck $id --tier $TIER > /tmp/ms.$id.$s.out 2>&1; rc=$?
  echo "seed=$s $id rc=$rc $(( $(date +%s) - t0 ))s $(grep '^VIOLATION' /tmp/ms.$id.$s.out | head -1 | cut -c1-160) $(grep -A1 '^VIOLATION' /tmp/ms.$id.$s.out | grep classifier | head -1 | cut -c1-200)"
  if [ $rc != 0 ]; then mkdir -p /tmp/ms-fail; cp /tmp/ms.$id.$s.out /tmp/ms-fail/; fi
done; done
