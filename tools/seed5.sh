#!/bin/bash
# usage: tools/seed5.sh <out-dir> <name> <check-id> [tier]   (reads demo_* fields from <out-dir>/meta.json)
SRC=$1; NAME=$2; CHK=$3; TIER=${4:-quick}
read -r DEMO DEST RX < <(python3 - "$SRC/meta.json" <<'PY'
import json,sys,os
m=json.load(open(sys.argv[1]))
demo=m.get("demo_file") or ""
dest=m.get("demo_dest_dir") or ""
rx=m.get("demo_run_regex") or ""
d=os.path.dirname(sys.argv[1])+"/demo"
if not demo or not os.path.exists(d+"/"+demo):
    fs=sorted(os.listdir(d))
    demo="run.sh" if "run.sh" in fs else next((f for f in fs if f.endswith("_test.go")),fs[0])
if demo.endswith(".sh"): dest=dest or "-"; rx=rx or "-"
print(demo, dest or "-", rx or ".")
PY
)
exec "$(dirname "$0")/seed_verify.sh" "$SRC" "$NAME" "$CHK" "$DEMO" "$DEST" "$RX" "$TIER"
