#!/bin/sh
# Offline setup: compile the framework and warm the Go build cache (incl. the race-enabled
# standard library) so that the first check does not pay for cold builds. Nothing is fetched.
export GOFLAGS=-mod=mod GOPROXY=off GOSUMDB=off GOTOOLCHAIN=local
cd "$(dirname "$0")" || exit 1
go build ./... 2>&1 | tail -20
go test -vet=off -count=1 -run '^$' ./checks/... ./internal/... >/dev/null 2>&1
go test -vet=off -race -count=1 -run '^$' ./checks/c10/ ./internal/c01x/ >/dev/null 2>&1
(cd /repo && go build ./... >/dev/null 2>&1; go build -o /dev/null ./cmd/ogen >/dev/null 2>&1)
exit 0
