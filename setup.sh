#!/bin/sh
# Offline setup: pre-compile the check packages' dependencies so that the first check is not slowed by a cold build cache.
export GOFLAGS=-mod=mod GOPROXY=off GOSUMDB=off GOTOOLCHAIN=local
cd "$(dirname "$0")" || exit 1
go build ./... 2>&1 | tail -20
go vet ./internal/... >/dev/null 2>&1
go test -count=1 -run '^$' ./checks/... >/dev/null 2>&1
exit 0
