// Package c04x is the executor of property C04: JSON encoding of generated
// types round-trips and conforms to the schema. Two families:
//   - instance-directed: a JSON instance that is valid against the source
//     schema is decoded by the generated decoder, re-encoded, and the result
//     must denote the same JSON value (absent / null / present, [] versus
//     absent, sum variant — all visible at the JSON level), decode again to an
//     equal Go value and re-encode to identical bytes;
//   - value-directed: values built by reflection (internal/valgen) that pass
//     their own Validate() are encoded; the bytes must be well-formed, valid
//     against the source schema (component types), decode to an equal value
//     and re-encode identically.
package c04x

import (
	"encoding/json"
	"fmt"
	"os"
	"path/filepath"
	"reflect"
	"regexp"
	"runtime/debug"
	"sort"
	"strconv"
	"strings"
	"testing"

	"pgregory.net/rapid"

	"verif/internal/reg"
	"verif/internal/specgen"
	"verif/internal/valgen"
	"verif/internal/vk"
)

// Meta is written next to each regenerated package.
type Meta struct {
	Doc       specgen.Doc         `json:"doc"`
	Instances map[string][]string `json:"instances"` // component → valid instances (JSON text)
	// replay
	OnlyType  string `json:"only_type,omitempty"`
	OnlyValue string `json:"only_value,omitempty"` // JSON text to start from (instance family)
}

// Case is the replay unit.
type Case struct {
	Doc    specgen.Doc `json:"doc"`
	Type   string      `json:"type"`
	Family string      `json:"family"` // instance | value
	JSON   string      `json:"json"`   // the instance, or the encoding of the built value
}

type validator interface{ Validate() error }

func marshal(v reflect.Value) (b []byte, err error) {
	defer func() {
		if r := recover(); r != nil {
			err = fmt.Errorf("panic in MarshalJSON: %v\n%s", r, trim(string(debug.Stack()), 1200))
		}
	}()
	m, ok := v.Interface().(json.Marshaler)
	if !ok {
		return nil, fmt.Errorf("%s is no json.Marshaler", v.Type())
	}
	return m.MarshalJSON()
}

func unmarshal(rt reflect.Type, data []byte) (v reflect.Value, err error) {
	defer func() {
		if r := recover(); r != nil {
			err = fmt.Errorf("panic in UnmarshalJSON: %v\n%s", r, trim(string(debug.Stack()), 1200))
		}
	}()
	p := reflect.New(rt)
	um, ok := p.Interface().(json.Unmarshaler)
	if !ok {
		return p, fmt.Errorf("%s is no json.Unmarshaler", rt)
	}
	return p, um.UnmarshalJSON(data)
}

func trim(s string, n int) string {
	if len(s) > n {
		return s[:n]
	}
	return s
}

// diffKind names the first difference between two JSON values.
func diffKind(a, b any, path string) (string, string) {
	ka, kb := kindOf(a), kindOf(b)
	if ka != kb {
		return ka + "-became-" + kb, path
	}
	switch x := a.(type) {
	case map[string]any:
		y := b.(map[string]any)
		keys := map[string]bool{}
		for k := range x {
			keys[k] = true
		}
		for k := range y {
			keys[k] = true
		}
		ks := make([]string, 0, len(keys))
		for k := range keys {
			ks = append(ks, k)
		}
		sort.Strings(ks)
		for _, k := range ks {
			xv, inx := x[k]
			yv, iny := y[k]
			switch {
			case inx && !iny:
				return "member-dropped:" + kindOf(xv), path + "." + k
			case !inx && iny:
				return "member-added:" + kindOf(yv), path + "." + k
			}
			if !specgen.DeepEqualJSON(xv, yv) {
				return diffKind(xv, yv, path+"."+k)
			}
		}
	case []any:
		y := b.([]any)
		if len(x) != len(y) {
			return "array-length-changed", path
		}
		for i := range x {
			if !specgen.DeepEqualJSON(x[i], y[i]) {
				return diffKind(x[i], y[i], fmt.Sprintf("%s[%d]", path, i))
			}
		}
	}
	return ka + "-value-changed", path
}

// sameJSON: same JSON value (member order is irrelevant: additional properties live in Go maps).
func sameJSON(a, b []byte) bool {
	va, e1 := specgen.ParseJSON(a)
	vb, e2 := specgen.ParseJSON(b)
	return e1 == nil && e2 == nil && specgen.DeepEqualJSON(va, vb)
}

func kindOf(v any) string {
	switch x := v.(type) {
	case nil:
		return "null"
	case bool:
		return "bool"
	case string:
		return "string"
	case json.Number:
		return "number"
	case []any:
		if len(x) == 0 {
			return "emptyarray"
		}
		return "array"
	case map[string]any:
		if len(x) == 0 {
			return "emptyobject"
		}
		return "object"
	}
	return "?"
}

// Run is the aggregator entry point.
func Run(t *testing.T) {
	ui := vk.New(t, "C04", "instances")
	defer ui.Close()
	uv := vk.New(t, "C04", "values")
	defer uv.Close()
	batch := os.Getenv("VERIF_BATCH_DIR")
	for _, name := range reg.Names() {
		p := reg.Get(name)
		data, err := os.ReadFile(filepath.Join(batch, "pkgs", name, "meta.json"))
		if err != nil {
			t.Fatalf("meta for %s: %v", name, err)
		}
		var meta Meta
		if err := json.Unmarshal(data, &meta); err != nil {
			t.Fatalf("meta for %s: %v", name, err)
		}
		runInstances(ui, p, meta, name)
		if meta.OnlyValue == "" {
			runValues(uv, p, meta, name)
		}
	}
}

func runInstances(u *vk.Unit, p *reg.Package, meta Meta, pkg string) {
	comps := meta.Doc.Components
	vd := specgen.Validator{C: comps, Float64Numbers: true}
	for _, cn := range comps.Names() {
		if meta.OnlyType != "" && cn != meta.OnlyType {
			continue
		}
		rt, ok := p.Types[cn]
		if !ok {
			u.Label("component-without-named-type")
			continue
		}
		insts := meta.Instances[cn]
		if meta.OnlyValue != "" {
			insts = []string{meta.OnlyValue}
		}
		for _, j := range insts {
			u.Eval(1)
			cs := Case{Doc: meta.Doc, Type: cn, Family: "instance", JSON: j}
			orig, err := specgen.ParseJSON([]byte(j))
			if err != nil {
				continue
			}
			pv, err := unmarshal(rt, []byte(j))
			if err != nil {
				if strings.Contains(err.Error(), "panic in") {
					u.Report(vk.F("decode-panic", "type %s: decoding %s: %v", cn, j, err), cs)
					continue
				}
				u.Label("decode-refused") // acceptance is C03's business
				continue
			}
			if v, ok := pv.Interface().(validator); ok {
				if err := v.Validate(); err != nil {
					u.Label("validate-refused")
					continue
				}
			}
			b, err := marshal(pv)
			if err != nil {
				u.Report(vk.F("encode-error", "type %s: value decoded from %s does not encode: %v", cn, j, err), cs)
				continue
			}
			back, err := specgen.ParseJSON(b)
			if err != nil || !json.Valid(b) {
				u.Report(vk.F("encoded-json-malformed", "type %s: decoded from %s, encoded as %q which is not well-formed JSON (%v)", cn, j, b, err), cs)
				continue
			}
			u.Label("roundtrip-executed")
			if comps.HasValidators(comps[cn], 0) || len(j) > 4 {
				u.NonTrivial(pkg + "\x00" + cn + "\x00" + j + string(specgen.MustJSON(comps[cn])))
			}
			u.Sample(map[string]any{"schema": comps[cn], "instance": j, "encoded": string(b)})
			if !specgen.DeepEqualJSON(orig, back) {
				// not demanded by the property (undeclared members of open objects are legitimately
				// dropped, defaults may be filled in): recorded as a label only
				kind, _ := diffKind(orig, back, "$")
				u.Label("json-not-preserved:" + kind)
			}
			if ok, why := vd.Valid(comps[cn], back); !ok {
				cl := "encoded-json-invalid"
				if strings.Contains(why, "minProperties") || strings.Contains(why, "maxProperties") {
					cl = "property-count-not-in-validate"
				}
				u.Report(vk.F(cl, "schema %s: instance %s re-encodes as %s which is invalid (%s)", specgen.MustJSON(comps[cn]), j, b, why), cs)
				continue
			}
			pv2, err := unmarshal(rt, b)
			if err != nil {
				cl := "own-encoding-refused"
				if strings.Contains(err.Error(), `"{" expected: unexpected byte 110 'n'`) && strings.Contains(string(b), "null") {
					// null written for a nil pointer of an object type, refused by that object's decoder:
					// the known nullable-object root cause (see the values unit)
					cl = "null-for-nullable-object"
				}
				u.Report(vk.F(cl, "type %s: own encoding %s is refused by the decoder: %v", cn, b, err), cs)
				continue
			}
			if ok, where := valgen.Equal(pv.Elem(), pv2.Elem(), valgen.EqOpts{}); !ok {
				u.Report(vk.F("value-roundtrip-differs", "type %s: decode(encode(v)) differs from v at %s (json %s)", cn, where, b), cs)
				continue
			}
			b2, err := marshal(pv2)
			if err != nil || !sameJSON(b, b2) {
				u.Report(vk.F("reencode-differs", "type %s: %s re-encodes as %s (%v)", cn, b, b2, err), cs)
			}
		}
	}
}

func runValues(u *vk.Unit, p *reg.Package, meta Meta, pkg string) {
	comps := meta.Doc.Components
	vd := specgen.Validator{C: comps, Float64Numbers: true}
	// every exported named type with JSON methods
	var names []string
	for n, rt := range p.Types {
		if _, ok := reflect.New(rt).Interface().(json.Marshaler); !ok {
			continue
		}
		if _, ok := reflect.New(rt).Interface().(json.Unmarshaler); !ok {
			continue
		}
		if meta.OnlyType != "" && n != meta.OnlyType {
			continue
		}
		if valgen.IsWrapper(rt) {
			continue // Opt/Nil/OptNil wrappers are members, not documents: an unset one encodes to nothing by design
		}
		names = append(names, n)
	}
	sort.Strings(names)
	per := vk.N(40, 300)
	for _, n := range names {
		rt := p.Types[n]
		schema, isComp := comps[n]
		for _, class := range []valgen.Class{valgen.Core, valgen.Hostile} {
			bld := &valgen.Builder{Class: class, Variants: p.Variants, Types: p.Types}
			g := rapid.Custom(func(t *rapid.T) reflect.Value { return bld.Build(t, rt, 0) })
			for i := 0; i < per/2; i++ {
				// half of the values have all their instants in the range every time format can carry, the
				// others use the years 1..9999 (an instant that unix-nano cannot carry is recognised by
				// what Go's UnixNano makes of it)
				bld.TimeNanoRange = i%2 == 0
				seed := int(vk.Seed())*100003 + i
				var v reflect.Value
				func() {
					defer func() {
						if r := recover(); r != nil {
							u.Label("builder-failed")
						}
					}()
					v = g.Example(seed)
				}()
				if !v.IsValid() {
					continue
				}
				u.Eval(1)
				pv := reflect.New(rt)
				pv.Elem().Set(v)
				if vv, ok := pv.Interface().(validator); ok {
					if err := vv.Validate(); err != nil {
						u.Label("built-value-fails-own-validation")
						if n == "F0" || n == "F1" {
							u.Label("format-matrix:" + n + ":fails-own-validation")
							u.Set("format-matrix:"+n+":validation-error", err.Error())
						}
						continue
					}
				}
				b, err := marshal(pv)
				if err != nil {
					u.Label("encode-error")
					// encoders may legitimately refuse (e.g. unset sum type); only panics are findings
					if strings.Contains(err.Error(), "panic in") {
						u.Report(vk.F("encode-panic", "type %s: %v", n, err), Case{Doc: meta.Doc, Type: n, Family: "value"})
					}
					continue
				}
				if n == "F0" || n == "F1" {
					u.Label("format-matrix:" + n + ":encoded")
				}
				cs := Case{Doc: meta.Doc, Type: n, Family: "value", JSON: string(b)}
				back, perr := specgen.ParseJSON(b)
				if perr != nil || !json.Valid(b) {
					u.Report(vk.F("encoded-json-malformed", "type %s: value %+v encodes as %q: not well-formed JSON (%v)", n, v.Interface(), b, perr), cs)
					continue
				}
				u.Label("value-encoded")
				if !v.IsZero() {
					u.NonTrivial(pkg + "\x00" + n + "\x00" + string(b))
				}
				u.Sample(map[string]any{"type": n, "encoded": string(b)})
				if isComp {
					if ok, why := vd.Valid(schema, back); !ok {
						if strings.HasSuffix(why, ": duplicate items") && duplicatesAreTimeTexts(back, strings.TrimSuffix(why, ": duplicate items")) {
							// the builder cannot know which time format a time.Time member has: two instants that
							// differ below the format's resolution are distinct Go values with one text; such a
							// value is outside the format's value space, not an encoder fault
							u.Label("excluded:times-differ-below-format-resolution")
							continue
						}
						cl := "encoded-json-invalid"
						if strings.Contains(why, "minProperties") || strings.Contains(why, "maxProperties") {
							cl = "property-count-not-in-validate"
						}
						u.Report(vk.F(cl, "schema %s: a value that passes Validate() encodes as %s which is invalid (%s)", specgen.MustJSON(schema), b, why), cs)
						continue
					}
				}
				pv2, err := unmarshal(rt, b)
				if err != nil {
					cl := "own-encoding-refused"
					switch {
					case strings.Contains(err.Error(), "object properties number"):
						cl = "property-count-not-in-validate"
					case strings.Contains(err.Error(), `"{" expected: unexpected byte 110 'n'`) && strings.Contains(string(b), "null"):
						// the encoder wrote null for a nil pointer / Null wrapper of an object type and the
						// decoder of that object expects '{': the known nullable-object root cause (C03)
						cl = "null-for-nullable-object"
					}
					u.Report(vk.F(cl, "type %s: a value that passes Validate() encodes as %s which the decoder refuses: %v", n, b, err), cs)
					continue
				}
				if ok, where := valgen.Equal(pv.Elem(), pv2.Elem(), valgen.EqOpts{NilEqualsEmpty: true, TimeAtSomeResolution: true}); !ok {
					if strings.Contains(where, ": float ") && valgen.FloatNear(where) {
						u.Report(vk.F("float64-json-decode-off-by-one-ulp", "type %s: decode(encode(v)) differs from v at %s (json %s)", n, where, b), cs)
						continue
					}
					cl := "value-roundtrip-differs"
					if nilNamedArrayItemAt(pv.Elem(), where) {
						cl = "nil-item-of-named-array-type-dropped"
					}
					u.Report(vk.F(cl, "type %s: decode(encode(v)) differs from v at %s (json %s)", n, where, b), cs)
					continue
				}
				b2, err := marshal(pv2)
				if err != nil || !sameJSON(b, b2) {
					u.Report(vk.F("reencode-differs", "type %s: %s re-encodes as %s (%v)", n, b, b2, err), cs)
					continue
				}
				// the decoded value is "an equal value": it passes the validation that the original passed
				if vv, ok := pv2.Interface().(validator); ok {
					if err := vv.Validate(); err != nil {
						u.Report(vk.F("decoded-value-fails-own-validation", "type %s: the value passes Validate(), encodes as %s, and what the decoder returns for that text fails Validate(): %v", n, b, err), cs)
					}
				}
			}
			for k, c := range bld.Unsupported {
				u.LabelN("unsupported:"+k, c)
			}
		}
	}
}

var timeTextRe = regexp.MustCompile(`^(\d{4}-\d{2}-\d{2}|\d{2}:\d{2}:\d{2}(\.\d+)?|\d{4}-\d{2}-\d{2}[Tt]\d{2}:\d{2}:\d{2}.*)$`)

// duplicatesAreTimeTexts: the array at the reference validator's path ("$", "$.a[0].b") holds
// date / time / date-time texts.
func duplicatesAreTimeTexts(doc any, path string) bool {
	cur := doc
	rest := strings.TrimPrefix(path, "$")
	for rest != "" {
		switch rest[0] {
		case '.':
			rest = rest[1:]
			end := strings.IndexAny(rest, ".[")
			if end < 0 {
				end = len(rest)
			}
			m, ok := cur.(map[string]any)
			if !ok {
				return false
			}
			cur, rest = m[rest[:end]], rest[end:]
		case '[':
			end := strings.IndexByte(rest, ']')
			if end < 0 {
				return false
			}
			i, err := strconv.Atoi(rest[1:end])
			l, ok := cur.([]any)
			if err != nil || !ok || i >= len(l) {
				return false
			}
			cur, rest = l[i], rest[end+1:]
		default:
			return false
		}
	}
	l, ok := cur.([]any)
	if !ok || len(l) == 0 {
		return false
	}
	texts := 0
	for _, e := range l {
		if e == nil {
			continue // nullable items
		}
		st, ok := e.(string)
		if !ok || !timeTextRe.MatchString(st) {
			return false
		}
		texts++
	}
	return texts > 0
}

var wherePathRe = regexp.MustCompile(`^((?:\.[A-Za-z0-9_]+|\[[0-9]+\])*): len [0-9]+ vs [0-9]+`)

// nilNamedArrayItemAt: the place that differs is a slice whose items are of a NAMED slice type (a
// component that is an array) and one of the items is nil. ogen gives such a type ONE meaning of nil
// for all its uses (taken from a use as an optional member: "absent"), so as an array item a nil value
// is written as nothing and the array loses the item.
func nilNamedArrayItemAt(v reflect.Value, where string) bool {
	m := wherePathRe.FindStringSubmatch(where)
	if m == nil {
		return false
	}
	cur := v
	rest := m[1]
	for rest != "" {
		for cur.Kind() == reflect.Pointer || cur.Kind() == reflect.Interface {
			if cur.IsNil() {
				return false
			}
			cur = cur.Elem()
		}
		switch rest[0] {
		case '.':
			rest = rest[1:]
			end := strings.IndexAny(rest, ".[")
			if end < 0 {
				end = len(rest)
			}
			if cur.Kind() != reflect.Struct {
				return false
			}
			cur = cur.FieldByName(rest[:end])
			if !cur.IsValid() {
				return false
			}
			rest = rest[end:]
		case '[':
			end := strings.IndexByte(rest, ']')
			i, err := strconv.Atoi(rest[1:end])
			if err != nil || (cur.Kind() != reflect.Slice && cur.Kind() != reflect.Array) || i >= cur.Len() {
				return false
			}
			cur, rest = cur.Index(i), rest[end+1:]
		default:
			return false
		}
	}
	for cur.Kind() == reflect.Pointer || cur.Kind() == reflect.Interface {
		if cur.IsNil() {
			return false
		}
		cur = cur.Elem()
	}
	if cur.Kind() != reflect.Slice || cur.Type().Elem().Kind() != reflect.Slice || cur.Type().Elem().Name() == "" {
		return false
	}
	for i := 0; i < cur.Len(); i++ {
		if cur.Index(i).IsNil() {
			return true
		}
	}
	return false
}
