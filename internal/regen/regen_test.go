package regen

import (
	"os"
	"path/filepath"
	"strings"
	"testing"
)

// Smoke test of the harness itself (not a property check): corpus specs regenerate, glue compiles.
func TestSmoke(t *testing.T) {
	if os.Getenv("VERIF_SMOKE") == "" {
		t.Skip("set VERIF_SMOKE=1")
	}
	b, err := NewBatch("smoke")
	if err != nil {
		t.Fatal(err)
	}
	defer b.Remove()
	files, _ := filepath.Glob(filepath.Join(Repo(), "_testdata/positive/*.*"))
	ex, _ := filepath.Glob(filepath.Join(Repo(), "_testdata/examples/*.*"))
	files = append(files, ex...)
	n := 0
	for _, f := range files {
		data, err := os.ReadFile(f)
		if err != nil || len(data) == 0 || len(data) > 600_000 {
			continue
		}
		name := "s" + strings.NewReplacer(".", "_", "-", "_").Replace(filepath.Base(f))
		cfg := Config{InferTypes: true, IgnoreNotImplemented: []string{"all"}}
		out := b.Add(name, data, cfg, nil)
		t.Logf("%s: %s %s", filepath.Base(f), out.Class, firstLine(out.Err))
		n++
	}
	res := b.Build()
	t.Logf("ok=%d failed=%d", len(res.OK), len(res.Failed))
	for p, e := range res.Failed {
		t.Errorf("FAILED %s:\n%s", p, head(e, 1500))
	}
}

func firstLine(s string) string {
	if i := strings.IndexByte(s, '\n'); i >= 0 {
		return s[:i]
	}
	return s
}

func head(s string, n int) string {
	if len(s) > n {
		return s[:n]
	}
	return s
}
