package regen

// The Go build cache has no size limit and every regenerated package lands in it: a deep run fills
// the disk. All `go` invocations of the harness hold a SHARED file lock while they run; whoever finds
// the cache above its budget takes the lock EXCLUSIVELY (waits for running builds of every process,
// keeps new ones out), empties the cache and lets go. The next builds pay once for the standard
// library.

import (
	"os"
	"os/exec"
	"path/filepath"
	"strconv"
	"strings"
	"syscall"
	"time"
)

func cacheLockPath() string {
	dir, err := os.UserCacheDir()
	if err != nil || dir == "" {
		dir = os.TempDir()
	}
	return filepath.Join(dir, "verif-gocache.lock")
}

func cacheLimitBytes() int64 {
	gb := 40.0
	if v, err := strconv.ParseFloat(os.Getenv("VERIF_CACHE_LIMIT_GB"), 64); err == nil && v > 0 {
		gb = v
	}
	return int64(gb * (1 << 30))
}

// WithCacheLock runs fn (a go build) under the shared lock.
func WithCacheLock(fn func()) {
	f, err := os.OpenFile(cacheLockPath(), os.O_CREATE|os.O_RDWR, 0o644)
	if err != nil {
		fn()
		return
	}
	defer f.Close()
	if syscall.Flock(int(f.Fd()), syscall.LOCK_SH) == nil {
		defer syscall.Flock(int(f.Fd()), syscall.LOCK_UN)
	}
	fn()
}

func goCacheDir() string {
	out, err := exec.Command("go", "env", "GOCACHE").Output()
	if err != nil {
		return ""
	}
	return strings.TrimSpace(string(out))
}

func dirSize(dir string) int64 {
	out, err := exec.Command("du", "-sk", dir).Output()
	if err != nil {
		return 0
	}
	f := strings.Fields(string(out))
	if len(f) == 0 {
		return 0
	}
	kb, _ := strconv.ParseInt(f[0], 10, 64)
	return kb * 1024
}

// MaybeTrimCache looks at the cache at most every few minutes (across all processes: the time of the
// last look is the modification time of a stamp file) and empties it when it is over its budget.
func MaybeTrimCache() {
	stamp := cacheLockPath() + ".stamp"
	if st, err := os.Stat(stamp); err == nil && time.Since(st.ModTime()) < 3*time.Minute {
		return
	}
	_ = os.WriteFile(stamp, []byte(time.Now().Format(time.RFC3339)), 0o644)
	dir := goCacheDir()
	if dir == "" || dirSize(dir) < cacheLimitBytes() {
		return
	}
	f, err := os.OpenFile(cacheLockPath(), os.O_CREATE|os.O_RDWR, 0o644)
	if err != nil {
		return
	}
	defer f.Close()
	if syscall.Flock(int(f.Fd()), syscall.LOCK_EX) != nil {
		return
	}
	defer syscall.Flock(int(f.Fd()), syscall.LOCK_UN)
	if dirSize(dir) < cacheLimitBytes() { // somebody else did it while we waited
		return
	}
	cmd := exec.Command("go", "clean", "-cache")
	cmd.Env = goEnv()
	_ = cmd.Run()
}
