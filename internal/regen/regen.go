// Package regen regenerates Go packages from OpenAPI documents with the
// generator of the ogen tree this module is built against (replace => /repo),
// adds a declarative glue file that registers the package in internal/reg, and
// compiles batches of such packages into one test binary (DESIGN.md §3.2).
package regen

import (
	"encoding/json"
	"fmt"
	"os"
	"os/exec"
	"path/filepath"
	"runtime/debug"
	"sort"
	"strings"
	"sync"

	"github.com/go-faster/errors"

	"github.com/ogen-go/ogen"
	"github.com/ogen-go/ogen/gen"
	"github.com/ogen-go/ogen/location"
)

// Config selects generator options.
type Config struct {
	Enable               []string `json:"enable,omitempty"`
	Disable              []string `json:"disable,omitempty"`
	DisableAll           bool     `json:"disable_all,omitempty"`
	ConvenientErrors     string   `json:"convenient_errors,omitempty"` // "", "on", "off"
	InferTypes           bool     `json:"infer_types,omitempty"`
	IgnoreNotImplemented []string `json:"ignore_not_implemented,omitempty"`
}

// ServerOnly is the smallest configuration that yields a server (no client, no OpenTelemetry).
func ServerOnly() Config {
	return Config{DisableAll: true, Enable: []string{"paths/server"}}
}

// ClientServer yields client and server without OpenTelemetry.
func ClientServer() Config {
	return Config{DisableAll: true, Enable: []string{"paths/server", "paths/client", "webhooks/server", "webhooks/client"}}
}

// Outcome classes.
const (
	OK             = "ok"
	ParseError     = "parse-error"     // ogen.Parse failed (YAML/JSON level)
	SpecDiagnostic = "spec-diagnostic" // ErrParseSpec, ErrBuildRouter, IR errors
	NotImplemented = "not-implemented"
	GoFormat       = "go-format" // ErrGoFormat: templates emitted unparsable Go
	TemplateExec   = "template-exec"
	Panic          = "panic"
	WriteError     = "write-error"
)

// Outcome is the result of one generation.
type Outcome struct {
	Class string
	Err   string
	Files []string
	Gen   *gen.Generator
}

type dirFS struct {
	dir   string
	mu    sync.Mutex
	files []string
}

func (d *dirFS) WriteFile(name string, content []byte) error {
	d.mu.Lock()
	d.files = append(d.files, name)
	d.mu.Unlock()
	return os.WriteFile(filepath.Join(d.dir, name), content, 0o644)
}

func (c Config) options(fileName string, data []byte) (gen.Options, error) {
	opt := gen.Options{
		Parser: gen.ParseOptions{
			InferSchemaType: c.InferTypes,
			File:            location.NewFile(fileName, fileName, data),
		},
		Generator: gen.GenerateOptions{
			IgnoreNotImplemented: c.IgnoreNotImplemented,
		},
	}
	fo := &gen.FeatureOptions{DisableAll: c.DisableAll}
	for _, f := range c.Enable {
		if err := fo.Enable.Enable(f); err != nil {
			return opt, err
		}
	}
	for _, f := range c.Disable {
		if err := fo.Disable.Enable(f); err != nil {
			return opt, err
		}
	}
	opt.Generator.Features = fo
	if c.ConvenientErrors != "" {
		if err := opt.Generator.ConvenientErrors.Set(c.ConvenientErrors); err != nil {
			return opt, err
		}
	}
	return opt, nil
}

// Classify maps an error of ogen.Parse / gen.NewGenerator / WriteSource to an outcome class.
func Classify(stage string, err error) string {
	if err == nil {
		return OK
	}
	var (
		ni *gen.ErrNotImplemented
		uc *gen.ErrUnsupportedContentTypes
		fd *gen.ErrFieldsDiscriminatorInference
		gf *gen.ErrGoFormat
		ps *gen.ErrParseSpec
		br *gen.ErrBuildRouter
	)
	switch {
	case errors.As(err, &gf):
		return GoFormat
	case errors.As(err, &ni), errors.As(err, &uc), errors.As(err, &fd):
		return NotImplemented
	case errors.As(err, &ps), errors.As(err, &br):
		return SpecDiagnostic
	}
	switch stage {
	case "parse":
		return ParseError
	case "new":
		return SpecDiagnostic // IR-level errors ("make ir: …")
	default:
		if strings.Contains(err.Error(), "execute") {
			return TemplateExec
		}
		return WriteError
	}
}

// Generate runs the whole pipeline in-process and writes the package into dir.
func Generate(spec []byte, cfg Config, dir, pkgName string) (out Outcome) {
	defer func() {
		if r := recover(); r != nil {
			st := string(debug.Stack())
			if len(st) > 3000 {
				st = st[:3000]
			}
			out = Outcome{Class: Panic, Err: fmt.Sprintf("%v\n%s", r, st)}
		}
	}()
	s, err := ogen.Parse(spec)
	if err != nil {
		return Outcome{Class: ParseError, Err: err.Error()}
	}
	opt, err := cfg.options("spec", spec)
	if err != nil {
		return Outcome{Class: "bad-config", Err: err.Error()}
	}
	g, err := gen.NewGenerator(s, opt)
	if err != nil {
		return Outcome{Class: Classify("new", err), Err: err.Error()}
	}
	if dir == "" {
		return Outcome{Class: OK, Gen: g}
	}
	if err := os.MkdirAll(dir, 0o755); err != nil {
		return Outcome{Class: WriteError, Err: err.Error()}
	}
	fs := &dirFS{dir: dir}
	if err := g.WriteSource(fs, pkgName); err != nil {
		return Outcome{Class: Classify("write", err), Err: err.Error(), Files: fs.files}
	}
	sort.Strings(fs.files)
	return Outcome{Class: OK, Files: fs.files, Gen: g}
}

// ---- batches ---------------------------------------------------------------

// Batch is a scratch Go module holding several regenerated packages.
type Batch struct {
	Dir     string // module root
	ModPath string
	Pkgs    []string // package directory names under pkgs/ that generated OK
	root    string   // /verif
	repo    string
}

var batchSeq struct {
	sync.Mutex
	n int
}

// Root returns the verif module root (VERIF_ROOT or a walk up from cwd).
func Root() string {
	if r := os.Getenv("VERIF_ROOT"); r != "" {
		return r
	}
	return "/verif"
}

// Repo returns the ogen tree under test.
func Repo() string {
	if r := os.Getenv("VERIF_REPO"); r != "" {
		return r
	}
	return "/repo"
}

// Scratch returns the per-run scratch directory.
func Scratch() string {
	if r := os.Getenv("VERIF_SCRATCH"); r != "" {
		return r
	}
	d, err := os.MkdirTemp("", "verif-regen-")
	if err != nil {
		panic(err)
	}
	os.Setenv("VERIF_SCRATCH", d)
	return d
}

// NewBatch creates an empty scratch module.
func NewBatch(tag string) (*Batch, error) {
	batchSeq.Lock()
	batchSeq.n++
	n := batchSeq.n
	batchSeq.Unlock()
	shard := os.Getenv("VERIF_SHARD")
	name := fmt.Sprintf("b%s_%s_%d", shard, tag, n)
	b := &Batch{
		Dir:     filepath.Join(Scratch(), "batches", name),
		ModPath: "verif/scratch/" + name,
		root:    Root(),
		repo:    Repo(),
	}
	if err := os.MkdirAll(filepath.Join(b.Dir, "pkgs"), 0o755); err != nil {
		return nil, err
	}
	verifSrc := b.root
	// When the check itself was built from a scratch copy of /verif (sensitivity runs), use that copy.
	if alt := os.Getenv("VERIF_SRC"); alt != "" {
		verifSrc = alt
	}
	gomod := fmt.Sprintf(`module %s

go 1.23.0

require (
	verif v0.0.0
	github.com/ogen-go/ogen v0.0.0
)

replace verif => %s

replace github.com/ogen-go/ogen => %s
`, b.ModPath, verifSrc, b.repo)
	if err := os.WriteFile(filepath.Join(b.Dir, "go.mod"), []byte(gomod), 0o644); err != nil {
		return nil, err
	}
	sum, err := os.ReadFile(filepath.Join(verifSrc, "go.sum"))
	if err != nil {
		return nil, err
	}
	if err := os.WriteFile(filepath.Join(b.Dir, "go.sum"), sum, 0o644); err != nil {
		return nil, err
	}
	return b, nil
}

// Remove deletes the batch with its build output.
func (b *Batch) Remove() { _ = os.RemoveAll(b.Dir) }

// PkgDir returns the directory of a package.
func (b *Batch) PkgDir(name string) string { return filepath.Join(b.Dir, "pkgs", name) }

// Add generates one package (with glue) into the batch. meta, if non-nil, is
// written as meta.json next to the sources for the inner executor.
func (b *Batch) Add(name string, spec []byte, cfg Config, meta any) Outcome {
	dir := b.PkgDir(name)
	out := Generate(spec, cfg, dir, name)
	if out.Class != OK {
		_ = os.RemoveAll(dir)
		return out
	}
	_ = os.WriteFile(filepath.Join(dir, "spec.json"), spec, 0o644)
	if meta != nil {
		mb, err := json.Marshal(meta)
		if err == nil {
			_ = os.WriteFile(filepath.Join(dir, "meta.json"), mb, 0o644)
		}
	}
	if err := WriteGlue(dir, name); err != nil {
		out.Class = "glue-error"
		out.Err = err.Error()
		return out
	}
	b.Pkgs = append(b.Pkgs, name)
	return out
}

func goEnv() []string {
	env := os.Environ()
	env = append(env, "GOFLAGS=-mod=mod", "GOPROXY=off", "GOSUMDB=off", "GOTOOLCHAIN=local")
	return env
}

// BuildResult says which packages compiled.
type BuildResult struct {
	OK     []string
	Failed map[string]string // package → compiler output
	Raw    string
}

// Build compiles all packages (go build, parallel over packages) and sorts
// them into compiling and failing ones.
func (b *Batch) Build(extraArgs ...string) BuildResult {
	res := BuildResult{Failed: map[string]string{}}
	if len(b.Pkgs) == 0 {
		return res
	}
	args := append([]string{"build", "-gcflags=-e"}, extraArgs...)
	args = append(args, "./pkgs/...")
	MaybeTrimCache()
	cmd := exec.Command("go", args...)
	cmd.Dir = b.Dir
	cmd.Env = goEnv()
	var outb []byte
	var err error
	WithCacheLock(func() { outb, err = cmd.CombinedOutput() })
	res.Raw = string(outb)
	if err == nil {
		res.OK = append(res.OK, b.Pkgs...)
		return res
	}
	// attribute: lines "# <modpath>/pkgs/<name>" start a package section
	cur := ""
	for _, line := range strings.Split(res.Raw, "\n") {
		if strings.HasPrefix(line, "# ") {
			p := strings.TrimSpace(strings.TrimPrefix(line, "# "))
			p = strings.Fields(p)[0]
			cur = ""
			if i := strings.Index(p, "/pkgs/"); i >= 0 {
				cur = p[i+len("/pkgs/"):]
			}
			continue
		}
		if cur != "" && strings.TrimSpace(line) != "" {
			res.Failed[cur] += line + "\n"
		} else if cur == "" && strings.Contains(line, "/pkgs/") {
			// e.g. "pkgs/s3/x.go:1:1: syntax error" without header, or import errors
			rest := line[strings.Index(line, "pkgs/")+5:]
			if j := strings.IndexByte(rest, '/'); j > 0 {
				res.Failed[rest[:j]] += line + "\n"
			}
		}
	}
	if len(res.Failed) == 0 {
		// could not attribute: mark all failed
		for _, p := range b.Pkgs {
			res.Failed[p] = res.Raw
		}
		return res
	}
	for _, p := range b.Pkgs {
		if _, bad := res.Failed[p]; !bad {
			res.OK = append(res.OK, p)
		}
	}
	return res
}

// RunAggregator writes a test package that imports the given packages (for
// their registration side effect) and calls entry (a function `func(*testing.T)`
// named as "importpath.Func") from a single Test, builds it and runs it.
// env entries are appended to the inherited environment. It returns the
// combined output and the process error.
func (b *Batch) RunAggregator(pkgs []string, entryImport, entryFunc string, race bool, env []string, testArgs ...string) (string, error) {
	dir := filepath.Join(b.Dir, "agg")
	if err := os.MkdirAll(dir, 0o755); err != nil {
		return "", err
	}
	var src strings.Builder
	src.WriteString("package agg\n\nimport (\n\t\"testing\"\n\n")
	fmt.Fprintf(&src, "\tentry %q\n", entryImport)
	for _, p := range pkgs {
		fmt.Fprintf(&src, "\t_ %q\n", b.ModPath+"/pkgs/"+p)
	}
	src.WriteString(")\n\n")
	fmt.Fprintf(&src, "func TestRun(t *testing.T) { entry.%s(t) }\n", entryFunc)
	if err := os.WriteFile(filepath.Join(dir, "agg_test.go"), []byte(src.String()), 0o644); err != nil {
		return "", err
	}
	bin := filepath.Join(b.Dir, "agg.test")
	args := []string{"test", "-c", "-vet=off", "-o", bin}
	if race {
		args = append(args, "-race")
	}
	args = append(args, "./agg")
	cmd := exec.Command("go", args...)
	cmd.Dir = b.Dir
	cmd.Env = goEnv()
	var bout []byte
	var berr error
	WithCacheLock(func() { bout, berr = cmd.CombinedOutput() })
	if berr != nil {
		return string(bout), fmt.Errorf("aggregator build failed: %w", berr)
	}
	run := exec.Command(bin, append([]string{"-test.timeout", "3600s"}, testArgs...)...)
	run.Dir = dir
	run.Env = append(os.Environ(), "VERIF_BATCH_DIR="+b.Dir)
	run.Env = append(run.Env, env...)
	outb, err := run.CombinedOutput()
	return string(outb), err
}
