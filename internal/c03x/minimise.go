package c03x

import (
	"encoding/json"
	"fmt"
	"sort"
	"strings"

	"verif/internal/specgen"
)

// minimise greedily simplifies a failing instance while pred keeps holding
// (pred re-evaluates reference validity AND the server). It is used to
// classify a finding by the construct that is left, never to decide it.
func minimise(v any, pred func(any) bool, budget int) any {
	trials := 0
	try := func(cand any) bool {
		if trials >= budget {
			return false
		}
		trials++
		return pred(cand)
	}
	var pass func(root any, path []any) (any, bool)
	get := func(root any, path []any) any {
		cur := root
		for _, p := range path {
			switch x := cur.(type) {
			case []any:
				cur = x[p.(int)]
			case map[string]any:
				cur = x[p.(string)]
			}
		}
		return cur
	}
	pass = func(root any, path []any) (any, bool) {
		changed := false
		cur := get(root, path)
		// simpler replacements for the whole node
		var simpler []any
		switch x := cur.(type) {
		case map[string]any:
			if len(x) > 0 {
				simpler = append(simpler, map[string]any{})
			}
		case []any:
			if len(x) > 0 {
				simpler = append(simpler, []any{})
			}
		case string:
			if x != "" {
				simpler = append(simpler, "")
			}
			if x != "a" && x != "" {
				simpler = append(simpler, "a")
			}
		case json.Number:
			if string(x) != "0" {
				simpler = append(simpler, json.Number("0"))
			}
		}
		for _, s := range simpler {
			cand := replaceAt(root, path, s)
			if try(cand) {
				root, changed = cand, true
				cur = get(root, path)
				break
			}
		}
		switch x := cur.(type) {
		case map[string]any:
			keys := make([]string, 0, len(x))
			for k := range x {
				keys = append(keys, k)
			}
			sort.Strings(keys)
			for _, k := range keys {
				m := map[string]any{}
				for kk, e := range get(root, path).(map[string]any) {
					if kk != k {
						m[kk] = e
					}
				}
				cand := replaceAt(root, path, m)
				if try(cand) {
					root, changed = cand, true
					continue
				}
				var ch bool
				root, ch = pass(root, append(append([]any{}, path...), k))
				changed = changed || ch
			}
		case []any:
			for i := len(x) - 1; i >= 0; i-- {
				arr := get(root, path).([]any)
				if i >= len(arr) {
					continue
				}
				cut := append(append([]any{}, arr[:i]...), arr[i+1:]...)
				cand := replaceAt(root, path, cut)
				if try(cand) {
					root, changed = cand, true
					continue
				}
				var ch bool
				root, ch = pass(root, append(append([]any{}, path...), i))
				changed = changed || ch
			}
		}
		return root, changed
	}
	for i := 0; i < 4; i++ {
		var ch bool
		v, ch = pass(v, nil)
		if !ch {
			break
		}
	}
	return v
}

func replaceAt(root any, path []any, nv any) any {
	if len(path) == 0 {
		return nv
	}
	switch x := root.(type) {
	case []any:
		i := path[0].(int)
		out := make([]any, len(x))
		copy(out, x)
		out[i] = replaceAt(x[i], path[1:], nv)
		return out
	case map[string]any:
		k := path[0].(string)
		out := make(map[string]any, len(x))
		for kk, e := range x {
			out[kk] = e
		}
		out[k] = replaceAt(x[k], path[1:], nv)
		return out
	}
	return root
}

func jsonKind(v any) string {
	switch x := v.(type) {
	case nil:
		return "null"
	case bool:
		return "bool"
	case string:
		return "string"
	case json.Number:
		if strings.ContainsAny(string(x), ".eE") {
			return "fraction"
		}
		return "int"
	case []any:
		if len(x) == 0 {
			return "emptyarray"
		}
		return "array"
	case map[string]any:
		if len(x) == 0 {
			return "emptyobject"
		}
		return "object"
	}
	return "?"
}

func keywords(s *specgen.Schema) string {
	if s == nil {
		return "any"
	}
	var ks []string
	add := func(c bool, k string) {
		if c {
			ks = append(ks, k)
		}
	}
	add(s.Type != "", "type:"+s.Type)
	add(s.Nullable, "nullable")
	add(s.Enum != nil, "enum")
	add(s.Min != "", "minimum")
	add(s.Max != "", "maximum")
	add(s.ExclMin, "exclusiveMinimum")
	add(s.ExclMax, "exclusiveMaximum")
	add(s.MultipleOf != "", "multipleOf")
	add(s.MinLen != nil, "minLength")
	add(s.MaxLen != nil, "maxLength")
	add(s.Pattern != "", "pattern")
	add(s.MinItems != nil, "minItems")
	add(s.MaxItems != nil, "maxItems")
	add(s.Unique, "uniqueItems")
	add(len(s.Props) > 0, "properties")
	add(s.AddProps != nil, "additionalProperties:schema")
	add(s.AddPropsBool != nil && !*s.AddPropsBool, "additionalProperties:false")
	add(s.AddPropsBool != nil && *s.AddPropsBool, "additionalProperties:true")
	add(s.MinProps != nil, "minProperties")
	add(s.MaxProps != nil, "maxProperties")
	add(len(s.AllOf) > 0, "allOf")
	add(len(s.OneOf) > 0, "oneOf")
	add(len(s.AnyOf) > 0, "anyOf")
	return strings.Join(ks, ",")
}

// signature describes the minimal failing instance by its leaves: JSON kind of
// the leaf, how it is reached (root / required or optional member / item /
// additional member / via $ref) and the keywords of the schema that governs it.
func signature(c specgen.Components, s *specgen.Schema, v any) string {
	var sigs []string
	seen := map[string]bool{}
	var walk func(s *specgen.Schema, v any, how string, depth int)
	walk = func(s *specgen.Schema, v any, how string, depth int) {
		if depth > 12 {
			return
		}
		viaRef := ""
		if s != nil && s.Ref != "" {
			viaRef = "ref>"
		}
		rs := c.Resolve(s)
		emit := func() {
			sg := fmt.Sprintf("%s@%s%s{%s}", jsonKind(v), how, viaRef, keywords(rs))
			if !seen[sg] {
				seen[sg] = true
				sigs = append(sigs, sg)
			}
		}
		if rs == nil {
			emit()
			return
		}
		vd := specgen.Validator{C: c}
		for _, sub := range rs.AllOf {
			walk(sub, v, how+"allOf>", depth+1)
		}
		for _, sub := range append(append([]*specgen.Schema{}, rs.OneOf...), rs.AnyOf...) {
			if ok, _ := vd.Valid(sub, v); ok {
				walk(sub, v, how+"sum>", depth+1)
			}
		}
		switch x := v.(type) {
		case map[string]any:
			if len(x) == 0 {
				emit()
				return
			}
			declared := map[string]specgen.Prop{}
			for _, p := range rs.Props {
				declared[p.Name] = p
			}
			keys := make([]string, 0, len(x))
			for k := range x {
				keys = append(keys, k)
			}
			sort.Strings(keys)
			emitSelf := false
			for _, k := range keys {
				if p, ok := declared[k]; ok {
					h := "optional>"
					if p.Required {
						h = "required>"
					}
					walk(p.Schema, x[k], h, depth+1)
				} else if rs.AddProps != nil {
					walk(rs.AddProps, x[k], "additional>", depth+1)
				} else {
					emitSelf = true // undeclared member under open/closed additionalProperties
				}
			}
			if emitSelf || rs.MinProps != nil || rs.MaxProps != nil {
				emit()
			}
		case []any:
			if len(x) == 0 || rs.Items == nil {
				emit()
				return
			}
			if rs.MinItems != nil || rs.MaxItems != nil || rs.Unique {
				emit()
			}
			for _, e := range x {
				walk(rs.Items, e, "item>", depth+1)
			}
		default:
			emit()
		}
	}
	walk(s, v, "root>", 0)
	sort.Strings(sigs)
	if len(sigs) > 3 {
		sigs = sigs[:3]
	}
	return strings.Join(sigs, " + ")
}
