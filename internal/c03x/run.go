// Package c03x is the executor of property C03: JSON instances whose validity
// was decided by the reference validators are posted to a regenerated server;
// valid ⇒ handler invoked (2xx), invalid ⇒ handler not invoked (400).
package c03x

import (
	"context"
	"encoding/json"
	"fmt"
	"net/http/httptest"
	"os"
	"path/filepath"
	"runtime/debug"
	"strings"
	"testing"

	"verif/internal/reg"
	"verif/internal/specgen"
	"verif/internal/vk"
)

// Case is one instance sent to one operation.
type Case struct {
	Op     string `json:"op"`
	Method string `json:"method"`
	Path   string `json:"path"`
	Body   string `json:"body,omitempty"`  // JSON text (body family)
	Query  string `json:"query,omitempty"` // raw query (parameter family)
	Desc   string `json:"desc"`            // valid / mutant kind / random
	Valid  bool   `json:"valid"`
	Why    string `json:"why,omitempty"`
	Schema string `json:"schema,omitempty"` // component name
}

// Meta is written next to each regenerated package.
type Meta struct {
	Doc   specgen.Doc `json:"doc"`
	Cases []Case      `json:"cases"`
}

// Replay is the replay unit.
type Replay struct {
	Doc  specgen.Doc `json:"doc"`
	Case Case        `json:"case"`
}

func kindOf(desc string) string {
	if i := strings.IndexByte(desc, '@'); i >= 0 {
		return desc[:i]
	}
	return desc
}

// Run is the aggregator entry point.
func Run(t *testing.T) {
	u := vk.New(t, "C03", "validate")
	defer u.Close()
	batch := os.Getenv("VERIF_BATCH_DIR")
	for _, name := range reg.Names() {
		p := reg.Get(name)
		data, err := os.ReadFile(filepath.Join(batch, "pkgs", name, "meta.json"))
		if err != nil {
			t.Fatalf("meta for %s: %v", name, err)
		}
		var meta Meta
		if err := json.Unmarshal(data, &meta); err != nil {
			t.Fatalf("meta for %s: %v", name, err)
		}
		invoked := 0
		srv, err := p.NewServer(reg.ServerConfig{Call: func(ctx context.Context, iface, method string, args []any) ([]any, error) {
			if iface == reg.IfaceHandler {
				invoked++
			}
			return nil, nil
		}})
		if err != nil {
			t.Fatalf("server for %s: %v", name, err)
		}
		send := func(c Case, body string) (status int, called bool, panicked string, respBody string) {
			invoked = 0
			target := c.Path
			if c.Query != "" {
				target += "?" + c.Query
			}
			req := httptest.NewRequest(c.Method, target, strings.NewReader(body))
			if body != "" || c.Method == "POST" {
				req.Header.Set("Content-Type", "application/json")
			}
			w := httptest.NewRecorder()
			func() {
				defer func() {
					if r := recover(); r != nil {
						st := string(debug.Stack())
						if len(st) > 1500 {
							st = st[:1500]
						}
						panicked = fmt.Sprintf("%v\n%s", r, st)
					}
				}()
				srv.ServeHTTP(w, req)
			}()
			return w.Code, invoked > 0, panicked, w.Body.String()
		}
		vd := specgen.Validator{C: meta.Doc.Components}
		for _, c := range meta.Cases {
			status, called, panicked, respBody := send(c, c.Body)
			u.Eval(1)
			kind := kindOf(c.Desc)
			if c.Valid {
				u.Label("valid:" + kind)
			} else {
				u.Label("invalid:" + kind)
			}
			schema := meta.Doc.Components[c.Schema]
			if c.Desc != "random" {
				u.NonTrivial(name + "\x00" + c.Op + "\x00" + c.Body + c.Query + string(mustJSON(schema)))
			}
			u.Sample(map[string]any{"schema": schema, "instance": c.Body + c.Query, "valid": c.Valid, "desc": c.Desc})
			rep := Replay{Doc: meta.Doc, Case: c}
			sent := c.Body + c.Query
			var dir string
			switch {
			case panicked != "":
				u.Report(vk.F("server-panic", "schema %s instance %s: panic %s", c.Schema, sent, panicked), rep)
				continue
			case c.Valid && (!called || status != 200):
				dir = "valid-refused"
			case !c.Valid && called:
				dir = "invalid-accepted"
			case !c.Valid && status != 400:
				dir = "invalid-not-400"
			default:
				continue
			}
			// known root causes first: counterfactual explainers (valid-refused direction only)
			if dir == "valid-refused" && c.Body != "" {
				if v, err := specgen.ParseJSON([]byte(c.Body)); err == nil {
					explained := ""
					for _, ex := range explainers {
						v2, changed := ex.avoid(meta.Doc.Components, schema, v)
						if !changed {
							continue
						}
						if ok, _ := vd.Valid(schema, v2); !ok {
							continue
						}
						if st, cl, pn, _ := send(c, string(specgen.MustJSON(v2))); pn == "" && cl && st == 200 {
							explained = ex.name
							break
						}
					}
					if explained == "" && v == nil {
						// the whole document is null and the schema is a nullable object: there is nothing
						// else in the instance that could be the cause (and for schemas without any non-null
						// instance, e.g. minProperties 3 with no member allowed, no counterfactual exists)
						if rs := meta.Doc.Components.Resolve(schema); rs != nil && rs.Nullable && rs.Type == "object" {
							explained = "null-for-nullable-object"
						}
					}
					if explained != "" {
						u.Report(vk.F(explained, "schema %s: instance %s is VALID by both oracles (%s) but the server answered %d, handler invoked=%v: %s",
							mustJSON(schema), sent, c.Desc, status, called, head(respBody, 240)), rep)
						continue
					}
				}
			}
			// otherwise classify by the construct left after greedy minimisation of the instance
			sig := ""
			minText := sent
			if c.Body != "" {
				if v, err := specgen.ParseJSON([]byte(c.Body)); err == nil {
					mv := minimise(v, func(cand any) bool {
						ok, _ := vd.Valid(schema, cand)
						if ok != c.Valid {
							return false
						}
						st, cl, pn, _ := send(c, string(specgen.MustJSON(cand)))
						if pn != "" {
							return false
						}
						switch dir {
						case "valid-refused":
							return !cl || st != 200
						case "invalid-accepted":
							return cl
						default:
							return !cl && st != 400
						}
					}, 300)
					sig = signature(meta.Doc.Components, schema, mv)
					minText = string(specgen.MustJSON(mv))
				}
			}
			u.Report(vk.F(dir+"|"+sig, "schema %s: instance %s (minimised: %s) is %s by both oracles (%s %s) but the server answered %d, handler invoked=%v: %s",
				mustJSON(schema), sent, minText, map[bool]string{true: "VALID", false: "INVALID"}[c.Valid], c.Desc, c.Why, status, called, head(respBody, 240)), rep)
		}
	}
}

func mustJSON(v any) []byte {
	b, _ := json.Marshal(v)
	return b
}

func head(s string, n int) string {
	if len(s) > n {
		return s[:n] + "…"
	}
	return s
}
