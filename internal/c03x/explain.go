package c03x

import (
	"sort"

	"pgregory.net/rapid"

	"verif/internal/specgen"
)

// An explainer attributes a finding to a KNOWN root cause by a counterfactual:
// it rewrites the failing instance so that it no longer contains the known
// shape (everything else unchanged); if the rewritten instance is still valid
// by the reference validator and the server now accepts it, the finding is
// classified under the explainer's name. Explainers never decide a finding.
type explainer struct {
	name  string
	avoid func(c specgen.Components, s *specgen.Schema, v any) (any, bool)
}

// exampleValid draws a valid non-null instance of s deterministically.
func exampleValid(c specgen.Components, s *specgen.Schema) (any, bool) {
	vd := specgen.Validator{C: c}
	ig := specgen.InstGen{C: c}
	g := rapid.Custom(func(t *rapid.T) any { return ig.Gen(t, s, 3) })
	for seed := 0; seed < 40; seed++ {
		v := g.Example(seed)
		if v == nil {
			continue
		}
		if ok, _ := vd.Valid(s, v); ok {
			return v, true
		}
	}
	return nil, false
}

// rewriteNulls replaces null by a valid instance wherever the governing schema satisfies pred.
func rewriteNulls(c specgen.Components, s *specgen.Schema, v any, pred func(rs *specgen.Schema) bool, depth int) (any, bool) {
	rs := c.Resolve(s)
	if rs == nil || depth > 12 {
		return v, false
	}
	if v == nil {
		if pred(rs) {
			// prefer a replacement that does not contain the shape again (a recursive nullable
			// object has valid instances with null members); otherwise rewrite the replacement too
			vd := specgen.Validator{C: c}
			ig := specgen.InstGen{C: c}
			g := rapid.Custom(func(t *rapid.T) any { return ig.Gen(t, rs, 3) })
			var fallback any
			for seed := 0; seed < 60; seed++ {
				cand := g.Example(seed)
				if cand == nil {
					continue
				}
				if ok, _ := vd.Valid(rs, cand); !ok {
					continue
				}
				clean, ch := rewriteNulls(c, rs, cand, pred, depth+4)
				if !ch {
					return cand, true
				}
				if fallback == nil {
					if ok, _ := vd.Valid(rs, clean); ok {
						fallback = clean
					}
				}
			}
			if fallback != nil {
				return fallback, true
			}
		}
		return v, false
	}
	changed := false
	switch x := v.(type) {
	case map[string]any:
		out := map[string]any{}
		declared := map[string]*specgen.Schema{}
		for _, p := range rs.Props {
			declared[p.Name] = p.Schema
		}
		for _, sub := range rs.AllOf {
			if r := c.Resolve(sub); r != nil {
				for _, p := range r.Props {
					declared[p.Name] = p.Schema
				}
			}
		}
		keys := make([]string, 0, len(x))
		for k := range x {
			keys = append(keys, k)
		}
		sort.Strings(keys)
		for _, k := range keys {
			sub := declared[k]
			if sub == nil {
				sub = rs.AddProps
			}
			if sub == nil {
				out[k] = x[k]
				continue
			}
			nv, ch := rewriteNulls(c, sub, x[k], pred, depth+1)
			out[k] = nv
			changed = changed || ch
		}
		return out, changed
	case []any:
		if rs.Items == nil {
			return v, false
		}
		out := make([]any, len(x))
		for i, e := range x {
			nv, ch := rewriteNulls(c, rs.Items, e, pred, depth+1)
			out[i] = nv
			changed = changed || ch
		}
		return out, changed
	}
	return v, false
}

var explainers = []explainer{
	{
		// a nullable OBJECT schema: null is valid but the generated decoder expects '{'
		name: "null-for-nullable-object",
		avoid: func(c specgen.Components, s *specgen.Schema, v any) (any, bool) {
			return rewriteNulls(c, s, v, func(rs *specgen.Schema) bool { return rs.Nullable && rs.Type == "object" }, 0)
		},
	},
}
