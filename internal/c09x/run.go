package c09x

import (
	"context"
	"encoding/base64"
	"encoding/json"
	"errors"
	"fmt"
	"hash/fnv"
	"net/http"
	"net/http/httptest"
	"os"
	"path/filepath"
	"reflect"
	"runtime/debug"
	"sort"
	"strings"
	"testing"

	"github.com/ogen-go/ogen/ogenerrors"

	"verif/internal/reg"
	"verif/internal/vk"
)

// Verdicts of one scheme in one request.
const (
	Absent = 0 // credential not presented
	Accept = 1 // presented, SecurityHandler accepts
	Reject = 2 // presented, SecurityHandler returns a non-skip error
	Skip   = 3 // presented, SecurityHandler returns ErrSkipServerSecurity
)

var verdictNames = []string{"absent", "accept", "reject", "skip"}

// Case is the replay unit (server side).
type Case struct {
	Meta     Meta           `json:"meta"`
	Op       string         `json:"op"`
	Verdicts map[string]int `json:"verdicts"`
	Client   bool           `json:"client,omitempty"` // client-side case: verdicts are SecuritySource behaviours (1 value, 2 error, 3 skip)
}

func goName(scheme string) string { return strings.ToUpper(scheme[:1]) + scheme[1:] }

// credFor is the credential of a scheme: text that is legal in the scheme's carrier and full of the
// characters real keys contain (base64 alphabets with + / =, percent signs, ampersands, blanks where the
// carrier allows them), so that a side which escapes or splits the text its own way is noticed.
func credFor(s Scheme) (a, b string) {
	switch s.Kind {
	case KBasic:
		return "user-" + s.Name + "+/=&%41", "pw:" + s.Name + ":+/= &%2B\u00e9" // colons in the password are legal
	case KQuery:
		return "Zm9v+" + s.Name + "/w==&x=%41 z#?;,", ""
	case KHeader:
		return "Zm9v+" + s.Name + "/w==&x=%41 z;,\"q\"", ""
	case KCookie:
		return "Zm9v+" + s.Name + "/w==&x=%41", "" // cookie-octets only (RFC 6265): net/http drops anything else
	default:
		return "tok-" + s.Name + "._~+/w==", "" // RFC 6750 b64token
	}
}

type secCall struct {
	method string
	opName string
	a, b   string
	scopes []string
}

type state struct {
	verdicts     map[string]int
	handlerCalls int
	handlerOp    string
	secCalls     []secCall
	srcCalls     []string
}

type runner struct {
	p       *reg.Package
	meta    Meta
	st      *state
	srv     reg.Server
	cli     any
	opGo    map[string]string // operationId → Go method name
	byGo    map[string]Scheme // Go scheme type name → scheme
	errHook error
}

var errRejected = errors.New("verif: credential rejected")

func credOf(v reflect.Value) (a, b string, scopes []string) {
	if v.Kind() == reflect.Ptr {
		if v.IsNil() {
			return
		}
		v = v.Elem()
	}
	if v.Kind() != reflect.Struct {
		return
	}
	get := func(n string) string {
		f := v.FieldByName(n)
		if f.IsValid() && f.Kind() == reflect.String {
			return f.String()
		}
		return ""
	}
	switch {
	case v.FieldByName("APIKey").IsValid():
		a = get("APIKey")
	case v.FieldByName("Username").IsValid():
		a, b = get("Username"), get("Password")
	default:
		a = get("Token")
	}
	if f := v.FieldByName("Scopes"); f.IsValid() && f.Kind() == reflect.Slice {
		for i := 0; i < f.Len(); i++ {
			scopes = append(scopes, f.Index(i).String())
		}
	}
	return
}

func (r *runner) call(ctx context.Context, iface, method string, args []any) ([]any, error) {
	switch iface {
	case reg.IfaceHandler:
		r.st.handlerCalls++
		r.st.handlerOp = method
		return nil, nil
	case reg.IfaceSecurityHandler:
		sc := secCall{method: method}
		if len(args) > 0 {
			sc.opName = fmt.Sprint(args[0])
		}
		if len(args) > 1 {
			sc.a, sc.b, sc.scopes = credOf(reflect.ValueOf(args[1]))
		}
		r.st.secCalls = append(r.st.secCalls, sc)
		s, ok := r.byGo[strings.TrimPrefix(method, "Handle")]
		if !ok {
			return []any{ctx}, nil
		}
		switch r.st.verdicts[s.Name] {
		case Accept:
			return []any{ctx}, nil
		case Skip:
			return nil, ogenerrors.ErrSkipServerSecurity
		default:
			return nil, errRejected
		}
	case reg.IfaceSecuritySource:
		r.st.srcCalls = append(r.st.srcCalls, method)
		s, ok := r.byGo[method]
		if !ok {
			return nil, fmt.Errorf("verif: unknown source %s", method)
		}
		switch r.st.verdicts[s.Name] {
		case 1: // value
			var rt reflect.Type
			for _, m := range r.p.Interfaces[reg.IfaceSecuritySource] {
				if m.Name == method && len(m.Results) > 0 {
					rt = m.Results[0]
				}
			}
			if rt == nil {
				return nil, nil
			}
			v := reflect.New(rt).Elem()
			a, b := credFor(s)
			set := func(n, val string) {
				if f := v.FieldByName(n); f.IsValid() && f.Kind() == reflect.String {
					f.SetString(val)
				}
			}
			set("APIKey", a)
			set("Token", a)
			set("Username", a)
			set("Password", b)
			return []any{v.Interface()}, nil
		case 3:
			return nil, ogenerrors.ErrSkipClientSecurity
		default:
			return nil, errRejected
		}
	}
	return nil, nil
}

// inProc sends client requests straight into the server.
type inProc struct{ h http.Handler }

func (d inProc) Do(req *http.Request) (*http.Response, error) {
	w := httptest.NewRecorder()
	// the server side sees what a real server would see: re-parse the request URI
	r2 := httptest.NewRequest(req.Method, req.URL.RequestURI(), req.Body)
	r2.Header = req.Header.Clone()
	d.h.ServeHTTP(w, r2)
	return w.Result(), nil
}

func newRunner(p *reg.Package, meta Meta) (*runner, error) {
	r := &runner{p: p, meta: meta, st: &state{verdicts: map[string]int{}}, opGo: map[string]string{}, byGo: map[string]Scheme{}}
	for _, s := range meta.Schemes {
		r.byGo[goName(s.Name)] = s
	}
	if p.NewServer == nil {
		return nil, fmt.Errorf("no NewServer")
	}
	var err error
	r.srv, err = p.NewServer(reg.ServerConfig{Call: r.call})
	if err != nil {
		return nil, err
	}
	if p.NewClient != nil {
		r.cli, err = p.NewClient("http://example.com", reg.ClientConfig{Call: r.call, HTTPClient: inProc{r.srv}})
		if err != nil {
			return nil, err
		}
	}
	return r, nil
}

func (r *runner) request(op Op, verdicts map[string]int) *http.Request {
	req := httptest.NewRequest("GET", op.Path, nil)
	q := req.URL.Query()
	for _, s := range r.meta.Schemes {
		if verdicts[s.Name] == Absent {
			continue
		}
		a, b := credFor(s)
		switch s.Kind {
		case KHeader:
			req.Header.Set(s.Param, a)
		case KQuery:
			q.Set(s.Param, a)
		case KCookie:
			req.AddCookie(&http.Cookie{Name: s.Param, Value: a})
		case KBasic:
			req.Header.Set("Authorization", "Basic "+base64.StdEncoding.EncodeToString([]byte(a+":"+b)))
		case KBearer, KOAuth2:
			req.Header.Set("Authorization", "Bearer "+a)
		}
	}
	req.URL.RawQuery = q.Encode()
	req.RequestURI = req.URL.RequestURI()
	return req
}

// modelAllows: ∃ alternative all of whose schemes satisfy ok.
func modelAllows(reqs [][]Req, ok func(scheme string) bool) bool {
	if len(reqs) == 0 {
		return true // no requirement at all (absent, or the explicit empty list "security: []")
	}
	for _, alt := range reqs {
		all := true
		for _, rq := range alt {
			if !ok(rq.Scheme) {
				all = false
				break
			}
		}
		if all {
			return true
		}
	}
	return false
}

func usedSchemes(reqs [][]Req) []string {
	set := map[string]bool{}
	for _, alt := range reqs {
		for _, r := range alt {
			set[r.Scheme] = true
		}
	}
	var out []string
	for s := range set {
		out = append(out, s)
	}
	sort.Strings(out)
	return out
}

func expectedScopes(reqs [][]Req, scheme string) map[string]bool {
	out := map[string]bool{}
	for _, alt := range reqs {
		for _, r := range alt {
			if r.Scheme == scheme {
				for _, s := range r.Scopes {
					out[s] = true
				}
			}
		}
	}
	return out
}

func descVerdicts(v map[string]int, names []string) string {
	var parts []string
	for _, n := range names {
		parts = append(parts, n+"="+verdictNames[v[n]])
	}
	return strings.Join(parts, ",")
}

// serverCase evaluates one (operation, verdict vector) against the boolean model.
func (r *runner) serverCase(op Op, verdicts map[string]int) (f *vk.Finding) {
	reqs := r.meta.Effective(op)
	used := usedSchemes(reqs)
	r.st = &state{verdicts: verdicts}
	req := r.request(op, verdicts)
	w := httptest.NewRecorder()
	defer func() {
		if p := recover(); p != nil {
			st := string(debug.Stack())
			if len(st) > 1200 {
				st = st[:1200]
			}
			f = vk.F("security-panic", "op %s %s: panic %v\n%s", op.ID, descVerdicts(verdicts, used), p, st)
		}
	}()
	r.srv.ServeHTTP(w, req)
	invoked := r.st.handlerCalls > 0
	want := modelAllows(reqs, func(s string) bool { return verdicts[s] == Accept })
	desc := fmt.Sprintf("op %s requirements %s (global %v) verdicts {%s}", op.ID, Describe(reqs), r.meta.Global != nil && op.Security == nil, descVerdicts(verdicts, used))

	// the credentials the handler saw are the ones presented
	for _, sc := range r.st.secCalls {
		s, ok := r.byGo[strings.TrimPrefix(sc.method, "Handle")]
		if !ok {
			return vk.F("harness-bug", "%s: security handler method %q does not map to a scheme", desc, sc.method)
		}
		if verdicts[s.Name] == Absent {
			return vk.F("security-handler-called-for-absent-credential", "%s: %s called although no credential for %s was presented (got %q/%q)", desc, sc.method, s.Name, sc.a, sc.b)
		}
		a, b := credFor(s)
		if sc.a != a || sc.b != b {
			return vk.F("server-extracts-other-credential", "%s: %s received %q/%q, presented %q/%q", desc, sc.method, sc.a, sc.b, a, b)
		}
		if s.Kind == KOAuth2 {
			exp := expectedScopes(reqs, s.Name)
			got := map[string]bool{}
			for _, x := range sc.scopes {
				got[x] = true
			}
			if !reflect.DeepEqual(exp, got) {
				return vk.F("oauth2-scopes-differ", "%s: %s received scopes %v, the operation lists %v", desc, sc.method, sc.scopes, exp)
			}
		}
		if want := r.opGo[op.ID]; want != "" && sc.opName != want {
			return vk.F("security-operation-name-differs", "%s: %s received operation name %q, handler method is %q", desc, sc.method, sc.opName, want)
		}
	}
	switch {
	case invoked && !want:
		return vk.F("handler-invoked-without-satisfied-requirement", "%s: handler invoked (status %d) but no alternative is satisfied", desc, w.Code)
	case !invoked && want:
		cl := "satisfied-requirement-refused"
		for _, s := range used {
			if verdicts[s] == Reject {
				cl = "reject-aborts-other-alternative"
			}
		}
		return vk.F(cl, "%s: an alternative is satisfied but the handler was not invoked (status %d)", desc, w.Code)
	case !invoked && w.Code != 401:
		return vk.F("unsatisfied-not-401", "%s: handler not invoked, status %d (want 401)", desc, w.Code)
	case invoked && w.Code != 200:
		return vk.F("invoked-not-200", "%s: handler invoked, status %d", desc, w.Code)
	}
	if invoked {
		r.opGo[op.ID] = r.st.handlerOp
	}
	return nil
}

// clientCase drives the generated client: verdicts are SecuritySource behaviours.
func (r *runner) clientCase(op Op, src map[string]int) (f *vk.Finding) {
	reqs := r.meta.Effective(op)
	used := usedSchemes(reqs)
	goOp := r.opGo[op.ID]
	if goOp == "" || r.cli == nil {
		return nil
	}
	// server side accepts everything that arrives
	st := &state{verdicts: map[string]int{}}
	inUse := map[string]bool{}
	for _, n := range used {
		inUse[n] = true
	}
	for _, s := range r.meta.Schemes {
		st.verdicts[s.Name] = src[s.Name]
		if !inUse[s.Name] {
			// a scheme outside the operation's requirement (the generator may still consult its source
			// when a skipped alternative names it): the neutral answer "no credential for this one"
			st.verdicts[s.Name] = Skip
		}
	}
	r.st = st
	m := reflect.ValueOf(r.cli).MethodByName(goOp)
	if !m.IsValid() {
		return vk.F("harness-bug", "client has no method %s", goOp)
	}
	desc := fmt.Sprintf("client op %s requirements %s sources {%s}", op.ID, Describe(reqs), descVerdicts(src, used))
	defer func() {
		if p := recover(); p != nil {
			st := string(debug.Stack())
			if len(st) > 1200 {
				st = st[:1200]
			}
			f = vk.F("security-panic", "%s: panic %v\n%s", desc, p, st)
		}
	}()
	// SecurityHandler verdict for the server: accept whatever was attached (verdict 1), others never arrive
	out := m.Call([]reflect.Value{reflect.ValueOf(context.Background())})
	var callErr error
	if e, ok := out[len(out)-1].Interface().(error); ok {
		callErr = e
	}
	invoked := st.handlerCalls > 0
	anyErr := false
	for _, s := range used {
		if src[s] == 2 {
			anyErr = true
		}
	}
	want := !anyErr && modelAllows(reqs, func(s string) bool { return src[s] == 1 })
	for _, sc := range st.secCalls {
		s, ok := r.byGo[strings.TrimPrefix(sc.method, "Handle")]
		if !ok {
			continue
		}
		a, b := credFor(s)
		if src[s.Name] != 1 {
			return vk.F("client-attaches-unsupplied-credential", "%s: server extracted %q/%q for %s although its source supplied nothing", desc, sc.a, sc.b, s.Name)
		}
		if sc.a != a || sc.b != b {
			return vk.F("client-server-credential-differs", "%s: source supplied %q/%q for %s, server extracted %q/%q", desc, a, b, s.Name, sc.a, sc.b)
		}
	}
	switch {
	case invoked && !want:
		return vk.F("client-handler-invoked-without-satisfied-requirement", "%s: handler invoked although no alternative is fully supplied (err=%v)", desc, callErr)
	case !invoked && want:
		return vk.F("client-satisfied-requirement-refused", "%s: an alternative is fully supplied but the handler was not invoked (err=%v)", desc, callErr)
	case !invoked && callErr == nil:
		return vk.F("client-silent-failure", "%s: handler not invoked but the client returned no error", desc)
	case invoked:
		// every supplied scheme of the satisfied alternative(s) must have reached the security handler
		seen := map[string]bool{}
		for _, sc := range st.secCalls {
			if s, ok := r.byGo[strings.TrimPrefix(sc.method, "Handle")]; ok {
				seen[s.Name] = true
			}
		}
		for _, s := range used {
			if src[s] == 1 && !seen[s] {
				return vk.F("client-credential-not-received", "%s: source supplied a credential for %s but the server's security handler never saw it", desc, s)
			}
		}
	}
	return nil
}

func vectors(used []string, base int, salt string) []map[string]int {
	k := len(used)
	var out []map[string]int
	mk := func(f func(i int) int) map[string]int {
		m := map[string]int{}
		for i, s := range used {
			m[s] = f(i)
		}
		return m
	}
	if k <= vk.N(3, 4) {
		total := 1
		for i := 0; i < k; i++ {
			total *= base
		}
		for c := 0; c < total; c++ {
			x := c
			m := map[string]int{}
			for _, s := range used {
				m[s] = x % base
				x /= base
			}
			out = append(out, m)
		}
		return out
	}
	// structured vectors
	out = append(out, mk(func(int) int { return 0 }), mk(func(int) int { return 1 }))
	for j := 0; j < k; j++ {
		j := j
		out = append(out, mk(func(i int) int {
			if i == j {
				return 0
			}
			return 1
		}))
		out = append(out, mk(func(i int) int {
			if i == j {
				return 1
			}
			return 0
		}))
		if base > 2 {
			out = append(out, mk(func(i int) int {
				if i == j {
					return 2
				}
				return 1
			}))
			out = append(out, mk(func(i int) int {
				if i == j {
					return 3
				}
				return 1
			}))
		}
	}
	h := fnv.New64a()
	fmt.Fprintf(h, "%s/%d", salt, vk.Seed())
	x := h.Sum64()
	for n := 0; n < vk.N(40, 400); n++ {
		m := map[string]int{}
		for _, s := range used {
			x = x*6364136223846793005 + 1442695040888963407
			// bias towards accept so that conjunctions get satisfied
			v := int((x >> 33) % uint64(base+2))
			if v >= base {
				v = 1
			}
			m[s] = v
		}
		out = append(out, m)
	}
	return out
}

// Run is the aggregator entry point.
func Run(t *testing.T) {
	u := vk.New(t, "C09", "security")
	defer u.Close()
	batch := os.Getenv("VERIF_BATCH_DIR")
	for _, name := range reg.Names() {
		p := reg.Get(name)
		data, err := os.ReadFile(filepath.Join(batch, "pkgs", name, "meta.json"))
		if err != nil {
			t.Fatalf("meta for %s: %v", name, err)
		}
		var rm struct {
			Meta  Meta   `json:"meta"`
			Cases []Case `json:"cases"`
		}
		if err := json.Unmarshal(data, &rm); err != nil {
			t.Fatalf("meta for %s: %v", name, err)
		}
		r, err := newRunner(p, rm.Meta)
		if err != nil {
			t.Fatalf("runner for %s: %v", name, err)
		}
		runPackage(u, r, rm.Cases)
	}
}

func (r *runner) opByID(id string) (Op, bool) {
	for _, op := range r.meta.Ops {
		if op.ID == id {
			return op, true
		}
	}
	return Op{}, false
}

func runPackage(u *vk.Unit, r *runner, replay []Case) {
	meta := r.meta
	// sanity: scheme names map to the generated interface methods
	if ms := r.p.Interfaces[reg.IfaceSecurityHandler]; len(ms) > 0 {
		have := map[string]bool{}
		for _, m := range ms {
			have[m.Name] = true
		}
		for _, s := range meta.Schemes {
			if !have["Handle"+goName(s.Name)] {
				u.Label("scheme-not-in-security-handler") // unused schemes are not generated
			}
		}
	}
	// discovery pass: all-accept request per operation → Go method names
	for _, op := range meta.Ops {
		all := map[string]int{}
		for _, s := range meta.Schemes {
			all[s.Name] = Accept
		}
		// present only the schemes the operation uses (one Authorization header at most)
		v := map[string]int{}
		for _, s := range usedSchemes(meta.Effective(op)) {
			v[s] = Accept
		}
		if f := r.serverCase(op, v); f != nil && f.Classifier == "harness-bug" {
			u.T.Errorf("HARNESS BUG: %s", f.What)
		}
	}
	if len(replay) > 0 {
		for _, c := range replay {
			op, ok := r.opByID(c.Op)
			if !ok {
				continue
			}
			u.Eval(1)
			var f *vk.Finding
			if c.Client {
				f = r.clientCase(op, c.Verdicts)
			} else {
				f = r.serverCase(op, c.Verdicts)
			}
			u.Report(f, c)
		}
		return
	}
	for _, op := range meta.Ops {
		reqs := meta.Effective(op)
		used := usedSchemes(reqs)
		nontrivialStruct := len(reqs) >= 2
		for _, alt := range reqs {
			if len(alt) >= 2 {
				nontrivialStruct = true
			}
		}
		u.Label(fmt.Sprintf("op-schemes:%d", min(len(used), 9)))
		u.Label(fmt.Sprintf("op-alternatives:%d", min(len(reqs), 6)))
		if op.Security != nil && meta.Global != nil {
			u.Label("op-overrides-global")
		}
		structKey := Describe(reqs)
		for _, v := range vectors(used, 4, op.ID+structKey) {
			u.Eval(1)
			f := r.serverCase(op, v)
			allAccept, allAbsent := true, true
			for _, s := range used {
				if v[s] != Accept {
					allAccept = false
				}
				if v[s] != Absent {
					allAbsent = false
				}
			}
			if nontrivialStruct && !allAccept && !allAbsent {
				u.NonTrivial("srv|" + structKey + "|" + descVerdicts(v, used))
			}
			if f != nil {
				if f.Classifier == "harness-bug" {
					u.T.Errorf("HARNESS BUG: %s", f.What)
					continue
				}
				u.Report(f, Case{Meta: meta, Op: op.ID, Verdicts: v})
			}
		}
		if r.cli != nil && len(used) > 0 {
			for _, v := range vectors(used, 4, "cli"+op.ID+structKey) {
				// client verdicts: 0/1/2/3 = absent is not a source behaviour: map 0 → skip
				src := map[string]int{}
				for k, x := range v {
					if x == 0 {
						x = 3
					}
					src[k] = x
				}
				u.Eval(1)
				u.Label("client-case")
				f := r.clientCase(op, src)
				if nontrivialStruct {
					u.NonTrivial("cli|" + structKey + "|" + descVerdicts(src, used))
				}
				if f != nil {
					if f.Classifier == "harness-bug" {
						u.T.Errorf("HARNESS BUG: %s", f.What)
						continue
					}
					u.Report(f, Case{Meta: meta, Op: op.ID, Verdicts: src, Client: true})
				}
			}
		}
		if len(used) > 0 {
			u.Sample(map[string]any{"op": op.ID, "requirements": structKey, "schemes": used})
		}
	}
}
