// Package c09x is the security harness of property C09: requirement structures
// (alternatives of conjunctions of schemes) are generated, turned into specs,
// regenerated and compiled; the executor drives every operation with verdict
// vectors (absent / accept / reject / skip per scheme) against a boolean model,
// and drives the generated client against the generated server to compare the
// credentials a SecuritySource supplies with those the SecurityHandler receives.
package c09x

import (
	"encoding/json"
	"fmt"
	"strings"
)

// Scheme kinds.
const (
	KHeader = "apiKeyHeader"
	KQuery  = "apiKeyQuery"
	KCookie = "apiKeyCookie"
	KBasic  = "basic"
	KBearer = "bearer"
	KOAuth2 = "oauth2"
)

// Scheme is one security scheme of the spec.
type Scheme struct {
	Name  string `json:"name"`  // key in components.securitySchemes
	Kind  string `json:"kind"`  // see constants
	Param string `json:"param"` // header / query / cookie name for apiKey kinds
}

// Req is one scheme inside an alternative.
type Req struct {
	Scheme string   `json:"scheme"`
	Scopes []string `json:"scopes,omitempty"`
}

// ExtraAlt is an alternative of the DOCUMENT that is no alternative of the model: it names at least
// one scheme of a kind ogen does not implement (openIdConnect), and with ignore_not_implemented the
// generator skips the whole alternative. It is rendered at position At of the requirement list.
type ExtraAlt struct {
	At  int   `json:"at"`
	Alt []Req `json:"alt"`
}

// Op is one operation.
type Op struct {
	ID       string     `json:"id"`
	Path     string     `json:"path"`
	Security *[][]Req   `json:"security"` // nil: inherit the global requirement
	Extra    []ExtraAlt `json:"extra,omitempty"`
}

// Meta describes one generated spec.
type Meta struct {
	Schemes []Scheme `json:"schemes"`
	Global  *[][]Req `json:"global"`
	Ops     []Op     `json:"ops"`
	// Unsupported: names of openIdConnect schemes (used only inside ExtraAlt alternatives).
	Unsupported []string   `json:"unsupported,omitempty"`
	GlobalExtra []ExtraAlt `json:"global_extra,omitempty"`
}

// HasExtras: the document needs ignore_not_implemented to be generated.
func (m Meta) HasExtras() bool {
	if len(m.GlobalExtra) > 0 {
		return true
	}
	for _, op := range m.Ops {
		if len(op.Extra) > 0 {
			return true
		}
	}
	return false
}

// withExtras renders the requirement list of the document: the model's alternatives with the
// skipped ones put in at their positions.
func withExtras(rs [][]Req, extra []ExtraAlt) [][]Req {
	out := append([][]Req{}, rs...)
	for _, e := range extra {
		at := e.At
		if at > len(out) {
			at = len(out)
		}
		out = append(out[:at], append([][]Req{e.Alt}, out[at:]...)...)
	}
	return out
}

// Effective returns the requirement list that applies to op (nil = no security).
func (m Meta) Effective(op Op) [][]Req {
	if op.Security != nil {
		return *op.Security
	}
	if m.Global != nil {
		return *m.Global
	}
	return nil
}

func (m Meta) scheme(name string) Scheme {
	for _, s := range m.Schemes {
		if s.Name == name {
			return s
		}
	}
	panic("unknown scheme " + name)
}

func reqsJSON(rs [][]Req) []any {
	out := []any{}
	for _, alt := range rs {
		obj := map[string]any{}
		for _, r := range alt {
			sc := r.Scopes
			if sc == nil {
				sc = []string{}
			}
			obj[r.Scheme] = sc
		}
		out = append(out, obj)
	}
	return out
}

// Spec renders the OpenAPI document.
func (m Meta) Spec() []byte {
	schemes := map[string]any{}
	for _, s := range m.Schemes {
		switch s.Kind {
		case KHeader:
			schemes[s.Name] = map[string]any{"type": "apiKey", "in": "header", "name": s.Param}
		case KQuery:
			schemes[s.Name] = map[string]any{"type": "apiKey", "in": "query", "name": s.Param}
		case KCookie:
			schemes[s.Name] = map[string]any{"type": "apiKey", "in": "cookie", "name": s.Param}
		case KBasic:
			schemes[s.Name] = map[string]any{"type": "http", "scheme": "basic"}
		case KBearer:
			schemes[s.Name] = map[string]any{"type": "http", "scheme": "bearer"}
		case KOAuth2:
			schemes[s.Name] = map[string]any{"type": "oauth2", "flows": map[string]any{
				"clientCredentials": map[string]any{"tokenUrl": "https://example.com/token", "scopes": map[string]any{
					"read": "r", "write": "w", "admin": "a", "x:y": "xy",
				}},
			}}
		}
	}
	for _, n := range m.Unsupported {
		schemes[n] = map[string]any{"type": "openIdConnect", "openIdConnectUrl": "https://example.com/.well-known/openid-configuration"}
	}
	paths := map[string]any{}
	for _, op := range m.Ops {
		o := map[string]any{
			"operationId": op.ID,
			"responses":   map[string]any{"200": map[string]any{"description": "ok"}},
		}
		if op.Security != nil {
			o["security"] = reqsJSON(withExtras(*op.Security, op.Extra))
		}
		paths[op.Path] = map[string]any{"get": o}
	}
	doc := map[string]any{
		"openapi":    "3.0.3",
		"info":       map[string]any{"title": "t", "version": "1"},
		"paths":      paths,
		"components": map[string]any{"securitySchemes": schemes},
	}
	if m.Global != nil {
		doc["security"] = reqsJSON(withExtras(*m.Global, m.GlobalExtra))
	}
	b, _ := json.Marshal(doc)
	return b
}

// Describe is a compact text form of a requirement list (evidence, messages).
func Describe(rs [][]Req) string {
	if rs == nil {
		return "none"
	}
	var alts []string
	for _, alt := range rs {
		var ns []string
		for _, r := range alt {
			n := r.Scheme
			if len(r.Scopes) > 0 {
				n += fmt.Sprint(r.Scopes)
			}
			ns = append(ns, n)
		}
		alts = append(alts, "{"+strings.Join(ns, "&")+"}")
	}
	return "[" + strings.Join(alts, "|") + "]"
}
