package specgen

import (
	"encoding/json"
	"fmt"
	"strconv"

	"pgregory.net/rapid"
)

// Options steer the schema generator (per-property profiles).
type Options struct {
	MaxDepth   int
	Validators bool // numeric bounds, lengths, patterns, counts, enums
	Sums       bool // oneOf / anyOf
	AllOf      bool
	Refs       bool // $ref to components, incl. recursion
	Nullable   bool
	Formats    bool // string/number formats (not for C03)
	Defaults   bool
	Maps       bool // additionalProperties
	AnyType    bool // empty schema {}
	Docs       bool // descriptions (multi-paragraph, shared between items) and deprecated flags
	DocsDense  bool // with Docs: nearly every item is described and half of them deprecated
	Discs      bool // with Sums: oneOf over object components with an explicit discriminator and mapping
	// PropDefaults: optional plain members of objects (no validator, enum or format) get a `default`.
	// Only for checks that do not model values (C02, C10).
	PropDefaults bool
	Names      func(t *rapid.T, label string) string
}

// TameName draws a property / component name that needs no escaping anywhere.
func TameName(t *rapid.T, label string) string {
	return rapid.SampledFrom([]string{"a", "b", "c", "id", "name", "value", "kind", "x_y", "fooBar", "n1", "items", "data", "tag"}).Draw(t, label)
}

type genCtx struct {
	opt      Options
	comps    Components
	compList []string // names that may be referenced
}

var patterns = []string{`^[a-c]+$`, `^[0-9]{2,4}$`, `^a`, `b$`, `^[A-Z][a-z]*$`, `^(x|yz)+$`, `[0-9]`}

func raw(v any) json.RawMessage {
	b, _ := json.Marshal(v)
	return b
}

func (g *genCtx) genString(t *rapid.T) *Schema {
	s := &Schema{Type: "string"}
	if !g.opt.Validators {
		return s
	}
	switch rapid.IntRange(0, 5).Draw(t, "strkind") {
	case 0:
		n := rapid.IntRange(1, 4).Draw(t, "nenum")
		seen := map[string]bool{}
		for i := 0; i < n; i++ {
			v := rapid.SampledFrom([]string{"a", "b", "red", "green", "", "x y", "A", "1", "null", "é"}).Draw(t, "enumv")
			if !seen[v] {
				seen[v] = true
				s.Enum = append(s.Enum, raw(v))
			}
		}
	case 1:
		lo := rapid.IntRange(0, 4).Draw(t, "minlen")
		s.MinLen = intp(lo)
		if rapid.Bool().Draw(t, "hasmax") {
			s.MaxLen = intp(lo + rapid.IntRange(0, 4).Draw(t, "span"))
		}
	case 2:
		s.MaxLen = intp(rapid.IntRange(0, 6).Draw(t, "maxlen"))
	case 3:
		s.Pattern = rapid.SampledFrom(patterns).Draw(t, "pattern")
	case 4:
		s.Pattern = rapid.SampledFrom(patterns).Draw(t, "pattern")
		s.MaxLen = intp(rapid.IntRange(1, 6).Draw(t, "maxlen"))
	}
	return s
}

var decimals = []string{"0", "1", "-1", "2", "10", "-10", "100", "1.5", "-0.5", "0.25", "2.75", "-3.125", "7", "1000", "0.1"}

func (g *genCtx) genNumber(t *rapid.T, integer bool) *Schema {
	s := &Schema{Type: "number"}
	if integer {
		s.Type = "integer"
	}
	if !g.opt.Validators {
		return s
	}
	drawBound := func(label string) string {
		if integer {
			if rapid.IntRange(0, 7).Draw(t, label+"-huge") == 0 {
				// integers beyond 2^53: exact as int64, not as float64
				return rapid.SampledFrom([]string{"9007199254740993", "-9007199254740993", "9223372036854775806", "-9223372036854775807",
					"4611686018427387905", "9007199254740992", "36028797018963969"}).Draw(t, label+"-hugev")
			}
			return strconv.Itoa(rapid.IntRange(-20, 20).Draw(t, label))
		}
		return rapid.SampledFrom(decimals).Draw(t, label)
	}
	switch rapid.IntRange(0, 5).Draw(t, "numkind") {
	case 0:
		n := rapid.IntRange(1, 4).Draw(t, "nenum")
		seen := map[string]bool{}
		for i := 0; i < n; i++ {
			v := drawBound("enumv")
			if !seen[v] {
				seen[v] = true
				s.Enum = append(s.Enum, json.RawMessage(v))
			}
		}
	case 1:
		s.Min = drawBound("min")
		s.ExclMin = rapid.Bool().Draw(t, "exclmin")
	case 2:
		s.Max = drawBound("max")
		s.ExclMax = rapid.Bool().Draw(t, "exclmax")
	case 3:
		lo := rapid.IntRange(-10, 10).Draw(t, "lo")
		hi := lo + rapid.IntRange(0, 10).Draw(t, "span")
		s.Min, s.Max = strconv.Itoa(lo), strconv.Itoa(hi)
		s.ExclMin = rapid.IntRange(0, 3).Draw(t, "exclmin") == 0
		s.ExclMax = rapid.IntRange(0, 3).Draw(t, "exclmax") == 0
	case 4:
		if integer {
			s.MultipleOf = rapid.SampledFrom([]string{"2", "3", "5", "10", "7"}).Draw(t, "mult")
		} else {
			s.MultipleOf = rapid.SampledFrom([]string{"0.5", "0.25", "2", "1.5", "10"}).Draw(t, "mult")
		}
	}
	return s
}

var stringFormats = []string{"uuid", "date-time", "date", "time", "byte", "ip", "uri", "duration", "int32", "int64", "uint64", "uint32", "uint16", "uint8", "int8", "int16", "uint", "int", "float32", "float64", "unix", "unix-milli", "mac", "hostname", "email", "password"}
var integerFormats = []string{"int32", "int64", "int8", "int16", "uint8", "uint16", "uint32", "uint64", "uint", "int", "unix", "unix-seconds", "unix-milli", "unix-micro", "unix-nano"}
var numberFormats = []string{"float", "double", "int32", "int64"}

// genFormatted draws a primitive with a format keyword (no validators: formats and validators
// interact through the same Go type, and C13 owns the text forms).
func (g *genCtx) genFormatted(t *rapid.T) *Schema {
	switch rapid.IntRange(0, 2).Draw(t, "fkind") {
	case 0:
		return &Schema{Type: "string", Format: rapid.SampledFrom(stringFormats).Draw(t, "sformat")}
	case 1:
		return &Schema{Type: "integer", Format: rapid.SampledFrom(integerFormats).Draw(t, "iformat")}
	default:
		return &Schema{Type: "number", Format: rapid.SampledFrom(numberFormats).Draw(t, "nformat")}
	}
}

func (g *genCtx) genLeaf(t *rapid.T) *Schema {
	if g.opt.Formats && rapid.IntRange(0, 3).Draw(t, "formatted") == 0 {
		return g.genFormatted(t)
	}
	switch rapid.IntRange(0, 6).Draw(t, "leaf") {
	case 0, 1:
		return g.genString(t)
	case 2, 3:
		return g.genNumber(t, true)
	case 4:
		return g.genNumber(t, false)
	case 5:
		return &Schema{Type: "boolean"}
	default:
		if g.opt.AnyType && rapid.IntRange(0, 3).Draw(t, "any") == 0 {
			return &Schema{}
		}
		return g.genString(t)
	}
}

func (g *genCtx) name(t *rapid.T, label string) string {
	if g.opt.Names != nil {
		return g.opt.Names(t, label)
	}
	return TameName(t, label)
}

func (g *genCtx) genObject(t *rapid.T, depth int) *Schema {
	s := &Schema{Type: "object"}
	n := rapid.IntRange(0, 4).Draw(t, "nprops")
	seen := map[string]bool{}
	for i := 0; i < n; i++ {
		nm := g.name(t, "prop")
		if seen[nm] {
			continue
		}
		seen[nm] = true
		pr := Prop{Name: nm, Schema: g.gen(t, depth+1), Required: rapid.Bool().Draw(t, "required")}
		if ps := pr.Schema; g.opt.PropDefaults && !pr.Required && ps.Ref == "" && ps.Enum == nil && ps.Format == "" && !ps.Nullable &&
			ps.Min == "" && ps.Max == "" && ps.MultipleOf == "" && ps.Pattern == "" && ps.MinLen == nil && ps.MaxLen == nil && rapid.Bool().Draw(t, "propdefault") {
			switch ps.Type {
			case "string":
				ps.Default = raw("dflt")
			case "integer":
				ps.Default = raw(7)
			case "number":
				ps.Default = raw(1.5)
			case "boolean":
				ps.Default = raw(true)
			}
		}
		s.Props = append(s.Props, pr)
	}
	if g.opt.Maps {
		switch rapid.IntRange(0, 5).Draw(t, "addprops") {
		case 0:
			s.AddPropsBool = boolp(false)
		case 1:
			s.AddPropsBool = boolp(true)
		case 2:
			s.AddProps = g.genLeaf(t)
		}
	}
	if g.opt.Validators && rapid.IntRange(0, 4).Draw(t, "propcount") == 0 {
		if rapid.Bool().Draw(t, "minprops") {
			s.MinProps = intp(rapid.IntRange(0, 3).Draw(t, "minp"))
		} else {
			s.MaxProps = intp(rapid.IntRange(1, 5).Draw(t, "maxp"))
		}
	}
	return s
}

func (g *genCtx) genArray(t *rapid.T, depth int) *Schema {
	s := &Schema{Type: "array", Items: g.gen(t, depth+1)}
	if g.opt.Validators {
		switch rapid.IntRange(0, 4).Draw(t, "arrkind") {
		case 0:
			s.MinItems = intp(rapid.IntRange(0, 3).Draw(t, "minitems"))
		case 1:
			s.MaxItems = intp(rapid.IntRange(0, 4).Draw(t, "maxitems"))
		case 2:
			lo := rapid.IntRange(0, 2).Draw(t, "lo")
			s.MinItems, s.MaxItems = intp(lo), intp(lo+rapid.IntRange(0, 3).Draw(t, "span"))
		case 3:
			it := g.comps.Resolve(s.Items)
			if it != nil && (it.Type == "string" || it.Type == "integer" || it.Type == "number" || it.Type == "boolean") {
				s.Unique = true
			}
		}
	}
	return s
}

// genSum builds an unambiguous oneOf/anyOf (DESIGN.md §4 C03).
func (g *genCtx) genSum(t *rapid.T, depth int) *Schema {
	s := &Schema{}
	var variants []*Schema
	maxKind := 1
	if g.opt.Discs {
		maxKind = 2
	}
	sumKind := rapid.IntRange(0, maxKind).Draw(t, "sumkind")
	switch sumKind {
	case 2: // explicit discriminator: variants are fresh object components whose "kind" member admits one value
		n := rapid.IntRange(2, 3).Draw(t, "nvariants")
		s.Disc = &Disc{Prop: "kind", Mapping: map[string]string{}}
		for i := 0; i < n; i++ {
			name := fmt.Sprintf("DV%d", len(g.comps)+len(g.compList)+i)
			for g.comps[name] != nil {
				name += "x"
			}
			o := &Schema{Type: "object"}
			o.Props = append(o.Props, Prop{Name: "kind", Schema: &Schema{Type: "string", Enum: []json.RawMessage{raw(name)}}, Required: true})
			// 0-2 further members; a variant with the discriminator alone matters (the encoder has a
			// special path for "no fields")
			for j, m := 0, rapid.IntRange(0, 2).Draw(t, "members"); j < m; j++ {
				o.Props = appendProp(o.Props, Prop{Name: []string{"alpha", "beta", "common"}[rapid.IntRange(0, 2).Draw(t, "member")], Schema: g.genLeaf(t), Required: rapid.Bool().Draw(t, "req")})
			}
			if g.opt.Maps {
				switch rapid.IntRange(0, 3).Draw(t, "addprops") {
				case 0:
					o.AddProps = &Schema{Type: "string"}
				case 1:
					o.AddPropsBool = boolp(true)
				}
			}
			g.comps[name] = o
			s.Disc.Mapping[name] = name
			variants = append(variants, &Schema{Ref: name})
		}
	case 0: // pairwise different JSON types
		kinds := rapid.Permutation([]string{"string", "integer", "boolean", "array", "object"}).Draw(t, "kinds")
		n := rapid.IntRange(2, 3).Draw(t, "nvariants")
		for _, k := range kinds[:n] {
			switch k {
			case "string":
				variants = append(variants, g.genString(t))
			case "integer":
				variants = append(variants, g.genNumber(t, true))
			case "boolean":
				variants = append(variants, &Schema{Type: "boolean"})
			case "array":
				variants = append(variants, &Schema{Type: "array", Items: g.genLeaf(t)})
			case "object":
				o := &Schema{Type: "object", Props: []Prop{{Name: "k", Schema: g.genLeaf(t), Required: true}}}
				variants = append(variants, o)
			}
		}
	case 1: // objects, each with a required property no other variant declares; same additionalProperties
		n := rapid.IntRange(2, 3).Draw(t, "nvariants")
		uniq := []string{"alpha", "beta", "gamma"}
		for i := 0; i < n; i++ {
			o := &Schema{Type: "object"}
			o.Props = append(o.Props, Prop{Name: uniq[i], Schema: g.genLeaf(t), Required: true})
			if rapid.Bool().Draw(t, "shared") {
				o.Props = append(o.Props, Prop{Name: "common", Schema: &Schema{Type: "string"}, Required: false})
			}
			variants = append(variants, o)
		}
	}
	if sumKind == 0 && rapid.IntRange(0, 3).Draw(t, "anyof") == 0 {
		s.AnyOf = variants
	} else {
		s.OneOf = variants
	}
	return s
}

func (g *genCtx) gen(t *rapid.T, depth int) *Schema {
	var s *Schema
	if depth >= g.opt.MaxDepth {
		s = g.genLeaf(t)
	} else {
		k := rapid.IntRange(0, 11).Draw(t, "kind")
		switch {
		case k <= 3:
			s = g.genLeaf(t)
		case k <= 5:
			s = g.genObject(t, depth)
		case k <= 7:
			s = g.genArray(t, depth)
		case k == 8 && g.opt.Sums:
			s = g.genSum(t, depth)
		case k == 9 && g.opt.Refs && len(g.compList) > 0:
			return &Schema{Ref: rapid.SampledFrom(g.compList).Draw(t, "ref")}
		case k == 10 && g.opt.AllOf && g.opt.Validators && rapid.IntRange(0, 2).Draw(t, "numeric-allof") == 0:
			// a schema that narrows the bounds of the schema it extends: two members of one numeric type,
			// each with its own (possibly exclusive) bounds; the conjunction decides
			typ := rapid.SampledFrom([]string{"integer", "integer", "number"}).Draw(t, "naotype")
			member := func(label string) *Schema {
				m := &Schema{Type: typ}
				lo := rapid.IntRange(-3, 6).Draw(t, label+"lo")
				hi := lo + rapid.IntRange(2, 9).Draw(t, label+"span")
				if rapid.IntRange(0, 3).Draw(t, label+"hasmin") > 0 {
					m.Min, m.ExclMin = fmt.Sprint(lo), rapid.Bool().Draw(t, label+"exclmin")
				}
				if rapid.IntRange(0, 3).Draw(t, label+"hasmax") > 0 {
					m.Max, m.ExclMax = fmt.Sprint(hi), rapid.Bool().Draw(t, label+"exclmax")
				}
				return m
			}
			s = &Schema{AllOf: []*Schema{member("a"), member("b")}}
		case k == 10 && g.opt.AllOf:
			a := g.genObject(t, depth+1)
			b := g.genObject(t, depth+1)
			// disjoint property names, no additionalProperties:false (allOf + closed objects is a known JSON-Schema trap)
			a.AddPropsBool, b.AddPropsBool, a.AddProps, b.AddProps = nil, nil, nil, nil
			a.MinProps, a.MaxProps, b.MinProps, b.MaxProps = nil, nil, nil, nil
			names := map[string]bool{}
			for _, p := range a.Props {
				names[p.Name] = true
			}
			var bp []Prop
			for _, p := range b.Props {
				if !names[p.Name] {
					bp = append(bp, p)
				}
			}
			b.Props = bp
			// one member requires a property that only the OTHER member declares (as an optional one)
			cross := func(from, to *Schema, label string) {
				var opt []string
				for _, p := range to.Props {
					if !p.Required {
						opt = append(opt, p.Name)
					}
				}
				if len(opt) > 0 && rapid.IntRange(0, 2).Draw(t, label) == 0 {
					from.ExtraRequired = []string{rapid.SampledFrom(opt).Draw(t, label+"-name")}
				}
			}
			cross(a, b, "crossreq-ab")
			cross(b, a, "crossreq-ba")
			s = &Schema{AllOf: []*Schema{a, b}}
		default:
			s = g.genLeaf(t)
		}
	}
	if g.opt.Nullable && s.Type != "" && s.Enum == nil && rapid.IntRange(0, 5).Draw(t, "nullable") == 0 {
		s.Nullable = true
	}
	if g.opt.Docs && s.Ref == "" {
		s.Description, s.Deprecated = DrawDocs(t, g.opt.DocsDense)
	}
	return s
}

// GenComponents draws a table of n named schemas; later components may refer
// to earlier ones, and (with Refs) objects may refer to themselves or to later
// ones through optional / array / map edges (recursion).
func GenComponents(t *rapid.T, opt Options, n int) Components {
	g := &genCtx{opt: opt, comps: Components{}}
	names := make([]string, 0, n)
	for i := 0; i < n; i++ {
		names = append(names, fmt.Sprintf("T%d", i))
	}
	for i, nm := range names {
		g.compList = names[:i]
		s := g.gen(t, 0)
		if s.Ref != "" {
			s = g.genObject(t, 1)
		}
		g.comps[nm] = s
	}
	if opt.Refs {
		// recursion edges: optional property / array items / map values pointing anywhere
		for _, nm := range names {
			s := g.comps[nm]
			if s.Type == "object" && rapid.IntRange(0, 3).Draw(t, "recurse") == 0 {
				target := rapid.SampledFrom(names).Draw(t, "rtarget")
				switch rapid.IntRange(0, 2).Draw(t, "redge") {
				case 0:
					s.Props = appendProp(s.Props, Prop{Name: "next", Schema: &Schema{Ref: target}})
				case 1:
					s.Props = appendProp(s.Props, Prop{Name: "children", Schema: &Schema{Type: "array", Items: &Schema{Ref: target}}})
				case 2:
					if s.AddProps == nil && s.AddPropsBool == nil && opt.Maps {
						s.AddProps = &Schema{Ref: target}
					}
				}
			}
		}
	}
	return g.comps
}

func appendProp(ps []Prop, p Prop) []Prop {
	for _, x := range ps {
		if x.Name == p.Name {
			return ps
		}
	}
	return append(ps, p)
}

// GenSchema draws one schema that may refer to the given components.
func GenSchema(t *rapid.T, opt Options, comps Components) *Schema {
	g := &genCtx{opt: opt, comps: comps, compList: comps.Names()}
	return g.gen(t, 0)
}

// FormatMatrix is a fixed component table with one optional property per (type, format) pair of the
// formats ogen maps to dedicated Go types and text forms, plus arrays and maps of a few of them.
func FormatMatrix() Components {
	obj := &Schema{Type: "object"}
	add := func(typ string, formats []string) {
		for _, f := range formats {
			if f == "hostname" || f == "email" {
				continue // these carry validators that random text fails; C03/C13 own them
			}
			name := typ[:1] + "_" + f
			obj.Props = append(obj.Props, Prop{Name: name, Schema: &Schema{Type: typ, Format: f}})
		}
	}
	add("string", stringFormats)
	add("integer", integerFormats)
	add("number", numberFormats)
	arr := &Schema{Type: "object"}
	for _, f := range []string{"uint64", "int64", "uuid", "date-time", "ip", "duration", "byte"} {
		arr.Props = append(arr.Props, Prop{Name: "a_" + f, Schema: &Schema{Type: "array", Items: &Schema{Type: "string", Format: f}}})
		arr.Props = append(arr.Props, Prop{Name: "m_" + f, Schema: &Schema{Type: "object", AddProps: &Schema{Type: "string", Format: f}}})
	}
	return Components{"F0": obj, "F1": arr}
}

// DocTexts are descriptions shared between items of a document: several paragraphs, blank
// lines, long lines that get wrapped, comment-hostile text.
var DocTexts = []string{
	"Short.",
	"First paragraph of the description.\n\nSecond paragraph, a bit longer so that the comment wrapper has to break it into more than one line of output text.\n\nThird.",
	"Line one\nLine two\nLine three\nLine four\nLine five",
	"A description with */ and // and `backticks` and \"quotes\".\n\nAnd a second paragraph.",
	"Deprecated: use something else.\n\nDetails follow in this paragraph.\n\n- item\n- item",
	"One\nTwo\nThree",
	"1\n2\n3\n4\n5\n6\n7",
}

// DrawDocs draws a description (empty most of the time unless dense) and a deprecated flag.
func DrawDocs(t *rapid.T, dense bool) (string, bool) {
	d := ""
	has, dep := 2, 3
	if dense {
		has, dep = 0, 1
	}
	if rapid.IntRange(0, has).Draw(t, "hasdoc") == 0 {
		d = rapid.SampledFrom(DocTexts).Draw(t, "doc")
	}
	return d, rapid.IntRange(0, dep).Draw(t, "deprecated") == 0
}
