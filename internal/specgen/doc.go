package specgen

import (
	"encoding/json"
	"strings"
)

// Media is one media type entry.
type Media struct {
	ContentType string  `json:"content_type"`
	Schema      *Schema `json:"schema,omitempty"`
}

// Param is one operation parameter.
type Param struct {
	Name     string  `json:"name"`
	In       string  `json:"in"` // path query header cookie
	Style    string  `json:"style,omitempty"`
	Explode  *bool   `json:"explode,omitempty"`
	Required bool    `json:"required,omitempty"`
	Schema   *Schema `json:"schema,omitempty"`
	Content  string  `json:"content,omitempty"` // e.g. application/json: use content instead of schema
	// AtPathItem: declared in the path item's parameter list instead of the operation's (only used
	// when the operation is the only one of its path).
	AtPathItem bool `json:"at_path_item,omitempty"`

	Description string `json:"description,omitempty"`
	Deprecated  bool   `json:"deprecated,omitempty"`
}

// Header is one response header.
type Header struct {
	Name     string  `json:"name"`
	Required bool    `json:"required,omitempty"`
	Schema   *Schema `json:"schema"`
}

// Body is a request body.
type Body struct {
	Required bool    `json:"required,omitempty"`
	Media    []Media `json:"media"`
}

// Response is one response entry.
type Response struct {
	Code    string   `json:"code"` // "200", "2XX", "default"
	Media   []Media  `json:"media,omitempty"`
	Headers []Header `json:"headers,omitempty"`
}

// Operation is one operation.
type Operation struct {
	ID        string     `json:"id"`
	Method    string     `json:"method"`
	Path      string     `json:"path"`
	Params    []Param    `json:"params,omitempty"`
	Body      *Body      `json:"body,omitempty"`
	Responses []Response `json:"responses"`

	Description string `json:"description,omitempty"`
	Deprecated  bool   `json:"deprecated,omitempty"`
}

// Doc is a whole document.
type Doc struct {
	Version    string      `json:"version,omitempty"` // default 3.0.3
	Components Components  `json:"components,omitempty"`
	Ops        []Operation `json:"ops"`
}

func mediaMap(ms []Media) map[string]any {
	out := map[string]any{}
	for _, m := range ms {
		e := map[string]any{}
		if m.Schema != nil {
			e["schema"] = m.Schema.Render()
		}
		out[m.ContentType] = e
	}
	return out
}

// RenderMap builds the document tree.
func (d Doc) RenderMap() map[string]any {
	v := d.Version
	if v == "" {
		v = "3.0.3"
	}
	paths := map[string]any{}
	for _, op := range d.Ops {
		o := map[string]any{"operationId": op.ID}
		if op.Description != "" {
			o["description"] = op.Description
		}
		if op.Deprecated {
			o["deprecated"] = true
		}
		var itemParams []any
		if len(op.Params) > 0 {
			var ps []any
			for _, p := range op.Params {
				pm := map[string]any{"name": p.Name, "in": p.In}
				if p.Required || p.In == "path" {
					pm["required"] = true
				}
				if p.Style != "" {
					pm["style"] = p.Style
				}
				if p.Explode != nil {
					pm["explode"] = *p.Explode
				}
				if p.Description != "" {
					pm["description"] = p.Description
				}
				if p.Deprecated {
					pm["deprecated"] = true
				}
				if p.Content != "" {
					pm["content"] = map[string]any{p.Content: map[string]any{"schema": p.Schema.Render()}}
				} else {
					pm["schema"] = p.Schema.Render()
				}
				if p.AtPathItem {
					itemParams = append(itemParams, pm)
				} else {
					ps = append(ps, pm)
				}
			}
			if len(ps) > 0 {
				o["parameters"] = ps
			}
		}
		if op.Body != nil {
			b := map[string]any{"content": mediaMap(op.Body.Media)}
			if op.Body.Required {
				b["required"] = true
			}
			o["requestBody"] = b
		}
		rs := map[string]any{}
		for _, r := range op.Responses {
			rm := map[string]any{"description": "r"}
			if len(r.Media) > 0 {
				rm["content"] = mediaMap(r.Media)
			}
			if len(r.Headers) > 0 {
				hs := map[string]any{}
				for _, h := range r.Headers {
					hm := map[string]any{"schema": h.Schema.Render()}
					if h.Required {
						hm["required"] = true
					}
					hs[h.Name] = hm
				}
				rm["headers"] = hs
			}
			rs[r.Code] = rm
		}
		o["responses"] = rs
		item, _ := paths[op.Path].(map[string]any)
		if item == nil {
			item = map[string]any{}
			paths[op.Path] = item
		}
		item[strings.ToLower(op.Method)] = o
		if len(itemParams) > 0 {
			prev, _ := item["parameters"].([]any)
			item["parameters"] = append(prev, itemParams...)
		}
	}
	doc := map[string]any{
		"openapi": v,
		"info":    map[string]any{"title": "t", "version": "1"},
		"paths":   paths,
	}
	if len(d.Components) > 0 {
		cs := map[string]any{}
		for k, s := range d.Components {
			cs[k] = s.Render()
		}
		doc["components"] = map[string]any{"schemas": cs}
	}
	return doc
}

// Render gives the JSON text of the document.
func (d Doc) Render() []byte {
	b, err := json.Marshal(d.RenderMap())
	if err != nil {
		panic(err)
	}
	return b
}
