package specgen

import (
	"encoding/json"
	"fmt"
	"math"
	"math/big"
	"sort"
	"strconv"
	"strings"

	"pgregory.net/rapid"
)

// InstGen draws schema-directed instances. The result is meant to be valid but
// is always re-judged by the reference validator (generation is best effort for
// conflicting keyword combinations).
type InstGen struct {
	C Components
}

var strAlphabet = []string{"a", "b", "c", "x", "0", "9", " ", "é", "😀", "\"", "\\", "A", "/", "\n", "z"}

func ratText(r *big.Rat) string {
	if r.IsInt() {
		return r.Num().String()
	}
	// denominators here are powers of 2 and 5 only: exact finite decimal
	for prec := 1; prec < 20; prec++ {
		s := r.FloatString(prec)
		if back, ok := new(big.Rat).SetString(s); ok && back.Cmp(r) == 0 {
			return strings.TrimRight(strings.TrimRight(s, "0"), ".")
		}
	}
	return r.FloatString(20)
}

func (g InstGen) genNumber(t *rapid.T, s *Schema) json.Number {
	integer := s.Type == "integer"
	lo, hi := big.NewRat(-30, 1), big.NewRat(30, 1)
	if s.Min != "" {
		lo, _ = new(big.Rat).SetString(s.Min)
		if s.Max == "" {
			hi = new(big.Rat).Add(lo, big.NewRat(40, 1))
		}
	}
	if s.Max != "" {
		hi, _ = new(big.Rat).SetString(s.Max)
		if s.Min == "" {
			lo = new(big.Rat).Sub(hi, big.NewRat(40, 1))
		}
	}
	if integer {
		// instances stay inside int64 (bounds may sit at its ends)
		if max64 := new(big.Rat).SetInt64(math.MaxInt64); hi.Cmp(max64) > 0 {
			hi = max64
		}
		if min64 := new(big.Rat).SetInt64(math.MinInt64); lo.Cmp(min64) < 0 {
			lo = min64
		}
	}
	if s.MultipleOf != "" {
		m, _ := new(big.Rat).SetString(s.MultipleOf)
		// k in [ceil(lo/m), floor(hi/m)]
		klo := new(big.Rat).Quo(lo, m)
		khi := new(big.Rat).Quo(hi, m)
		a := new(big.Int).Div(klo.Num(), klo.Denom())
		b := new(big.Int).Div(khi.Num(), khi.Denom())
		if a.Cmp(b) > 0 {
			a, b = b, a
		}
		k := rapid.Int64Range(a.Int64(), b.Int64()).Draw(t, "k")
		r := new(big.Rat).Mul(m, big.NewRat(k, 1))
		if integer && !r.IsInt() {
			r = big.NewRat(k, 1)
		}
		return json.Number(ratText(r))
	}
	// integers in range, or quarter steps for numbers
	step := big.NewRat(1, 1)
	if !integer && rapid.Bool().Draw(t, "fraction") {
		step = big.NewRat(1, 4)
	}
	klo := new(big.Rat).Quo(lo, step)
	khi := new(big.Rat).Quo(hi, step)
	a := new(big.Int).Div(klo.Num(), klo.Denom())
	if new(big.Rat).SetInt(a).Cmp(klo) < 0 {
		a.Add(a, big.NewInt(1))
	}
	b := new(big.Int).Div(khi.Num(), khi.Denom())
	if a.Cmp(b) > 0 {
		b = a
	}
	k := rapid.Int64Range(a.Int64(), b.Int64()).Draw(t, "k")
	r := new(big.Rat).Mul(step, big.NewRat(k, 1))
	// honour exclusive bounds when possible
	if s.ExclMin && s.Min != "" && r.Cmp(lo) == 0 {
		r.Add(r, step)
	}
	if s.ExclMax && s.Max != "" && r.Cmp(hi) == 0 {
		r.Sub(r, step)
	}
	return json.Number(ratText(r))
}

func (g InstGen) genString(t *rapid.T, s *Schema) string {
	if s.Pattern != "" {
		return rapid.StringMatching(s.Pattern).Draw(t, "pat")
	}
	lo, hi := 0, 6
	if s.MinLen != nil {
		lo = *s.MinLen
		hi = lo + 4
	}
	if s.MaxLen != nil {
		hi = *s.MaxLen
		if lo > hi {
			lo = hi
		}
	}
	n := rapid.IntRange(lo, hi).Draw(t, "len")
	var b strings.Builder
	for i := 0; i < n; i++ {
		b.WriteString(rapid.SampledFrom(strAlphabet).Draw(t, "ch"))
	}
	return b.String()
}

func (g InstGen) genAny(t *rapid.T) any {
	switch rapid.IntRange(0, 5).Draw(t, "anykind") {
	case 0:
		return nil
	case 1:
		return rapid.Bool().Draw(t, "b")
	case 2:
		return json.Number(strconv.Itoa(rapid.IntRange(-5, 5).Draw(t, "i")))
	case 3:
		return rapid.SampledFrom([]string{"", "s", "x y"}).Draw(t, "s")
	case 4:
		return []any{json.Number("1"), "a"}
	default:
		return map[string]any{"k": "v"}
	}
}

// Gen draws an instance for s.
func (g InstGen) Gen(t *rapid.T, s *Schema, depth int) any {
	s = g.C.Resolve(s)
	if s == nil {
		return g.genAny(t)
	}
	if s.Nullable && rapid.IntRange(0, 7).Draw(t, "null") == 0 {
		return nil
	}
	if depth > 10 { // recursion through additionalProperties / items: stop (the result is re-judged anyway)
		switch s.Type {
		case "object":
			return map[string]any{}
		case "array":
			return []any{}
		}
	}
	if s.Enum != nil {
		e := rapid.SampledFrom(s.Enum).Draw(t, "enum")
		v, _ := ParseJSON(e)
		return v
	}
	if len(s.OneOf) > 0 {
		return g.Gen(t, s.OneOf[rapid.IntRange(0, len(s.OneOf)-1).Draw(t, "variant")], depth+1)
	}
	if len(s.AnyOf) > 0 {
		return g.Gen(t, s.AnyOf[rapid.IntRange(0, len(s.AnyOf)-1).Draw(t, "variant")], depth+1)
	}
	if len(s.AllOf) > 0 {
		merged := map[string]any{}
		var last any
		for _, a := range s.AllOf {
			v := g.Gen(t, a, depth+1)
			last = v
			if m, ok := v.(map[string]any); ok {
				for k, x := range m {
					merged[k] = x
				}
			}
		}
		if _, ok := last.(map[string]any); ok {
			// a member may require a property that only another member declares
			for _, a := range s.AllOf {
				ra := g.C.Resolve(a)
				if ra == nil {
					continue
				}
				for _, name := range ra.ExtraRequired {
					if _, present := merged[name]; present {
						continue
					}
					for _, b := range s.AllOf {
						if rb := g.C.Resolve(b); rb != nil {
							for _, p := range rb.Props {
								if p.Name == name {
									merged[name] = g.Gen(t, p.Schema, depth+1)
								}
							}
						}
					}
				}
			}
			return merged
		}
		return last
	}
	switch s.Type {
	case "string":
		return g.genString(t, s)
	case "integer", "number":
		return g.genNumber(t, s)
	case "boolean":
		return rapid.Bool().Draw(t, "bool")
	case "array":
		lo, hi := 0, 3
		if s.MinItems != nil {
			lo = *s.MinItems
			hi = lo + 2
		}
		if s.MaxItems != nil {
			hi = *s.MaxItems
			if lo > hi {
				lo = hi
			}
		}
		if depth > 5 {
			hi = lo
		}
		n := rapid.IntRange(lo, hi).Draw(t, "nitems")
		out := []any{}
		for i := 0; i < n; i++ {
			v := g.Gen(t, s.Items, depth+1)
			if s.Unique {
				dup := false
				for _, o := range out {
					if DeepEqualJSON(o, v) {
						dup = true
					}
				}
				if dup {
					continue
				}
			}
			out = append(out, v)
		}
		return out
	case "object":
		m := map[string]any{}
		for _, p := range s.Props {
			if p.Required || (depth < 6 && rapid.Bool().Draw(t, "present")) {
				if depth >= 6 && !p.Required {
					continue
				}
				m[p.Name] = g.Gen(t, p.Schema, depth+1)
			}
		}
		open := s.AddProps != nil || s.AddPropsBool == nil || *s.AddPropsBool
		want := 0
		if s.MinProps != nil && len(m) < *s.MinProps {
			want = *s.MinProps - len(m)
		} else if open && depth < 5 && rapid.IntRange(0, 2).Draw(t, "extras") == 0 {
			want = rapid.IntRange(1, 2).Draw(t, "nextras")
		}
		if s.MaxProps != nil && len(m)+want > *s.MaxProps {
			want = *s.MaxProps - len(m)
		}
		if open {
			for i := 0; i < want; i++ {
				k := fmt.Sprintf("zz%d", i)
				if s.AddProps != nil {
					m[k] = g.Gen(t, s.AddProps, depth+1)
				} else {
					m[k] = g.genAny(t)
				}
			}
		}
		return m
	}
	return g.genAny(t)
}

// Mutant is one single-fault variation of an instance.
type Mutant struct {
	Desc  string `json:"desc"`
	Value any    `json:"value"`
}

func deepCopy(v any) any {
	switch x := v.(type) {
	case []any:
		out := make([]any, len(x))
		for i := range x {
			out[i] = deepCopy(x[i])
		}
		return out
	case map[string]any:
		out := make(map[string]any, len(x))
		for k, e := range x {
			out[k] = deepCopy(e)
		}
		return out
	}
	return v
}

func replaceAt(root any, path []any, nv any) any {
	if len(path) == 0 {
		return nv
	}
	switch x := root.(type) {
	case []any:
		i := path[0].(int)
		out := make([]any, len(x))
		copy(out, x)
		out[i] = replaceAt(x[i], path[1:], nv)
		return out
	case map[string]any:
		k := path[0].(string)
		out := make(map[string]any, len(x))
		for kk, e := range x {
			out[kk] = e
		}
		out[k] = replaceAt(x[k], path[1:], nv)
		return out
	}
	return root
}

func addRat(n json.Number, delta string) json.Number {
	r, ok := new(big.Rat).SetString(string(n))
	if !ok {
		return n
	}
	d, _ := new(big.Rat).SetString(delta)
	return json.Number(ratText(r.Add(r, d)))
}

// Mutants enumerates single-keyword boundary mutants of a (valid) instance.
func (g InstGen) Mutants(s *Schema, root any) []Mutant {
	var out []Mutant
	var walk func(s *Schema, v any, path []any, depth int)
	emit := func(desc string, path []any, nv any) {
		if len(out) < 400 {
			out = append(out, Mutant{Desc: fmt.Sprintf("%s@%v", desc, path), Value: replaceAt(root, path, nv)})
		}
	}
	walk = func(s *Schema, v any, path []any, depth int) {
		s = g.C.Resolve(s)
		if s == nil || depth > 8 {
			return
		}
		// type and null faults at every node
		if v != nil {
			emit("null", path, nil)
		}
		switch v.(type) {
		case string:
			emit("retype-number", path, json.Number("7"))
		case json.Number:
			emit("retype-string", path, "7")
		case bool:
			emit("retype-string", path, "true")
		case []any:
			emit("retype-object", path, map[string]any{})
		case map[string]any:
			emit("retype-array", path, []any{})
		}
		for _, sub := range s.AllOf {
			walk(sub, v, path, depth+1)
		}
		vd := Validator{C: g.C}
		for _, sub := range append(append([]*Schema{}, s.OneOf...), s.AnyOf...) {
			if ok, _ := vd.Valid(sub, v); ok {
				walk(sub, v, path, depth+1)
			}
		}
		// an object that carries the members of TWO variants of a sum (matches both: invalid for oneOf,
		// valid for anyOf; the reference validator decides)
		if obj, isObj := v.(map[string]any); isObj && len(s.OneOf)+len(s.AnyOf) > 1 {
			n := 0
			for _, sub := range append(append([]*Schema{}, s.OneOf...), s.AnyOf...) {
				if ok, _ := vd.Valid(sub, v); ok || n >= 2 {
					continue
				}
				rs := g.C.Resolve(sub)
				if rs == nil || rs.Type != "object" {
					continue
				}
				other := rapid.Custom(func(t *rapid.T) any { return g.Gen(t, rs, 2) })
				for seed := 0; seed < 8; seed++ {
					om, isMap := other.Example(seed).(map[string]any)
					if !isMap {
						continue
					}
					if ok, _ := vd.Valid(rs, om); !ok {
						continue
					}
					merged := map[string]any{}
					for k, e := range om {
						merged[k] = e
					}
					for k, e := range obj {
						merged[k] = e
					}
					emit("sum-merge-variants", path, merged)
					n++
					break
				}
			}
		}
		switch x := v.(type) {
		case json.Number:
			if s.Min != "" {
				emit("min-exact", path, json.Number(s.Min))
				emit("min-minus-1", path, addRat(json.Number(s.Min), "-1"))
				emit("min-minus-eps", path, addRat(json.Number(s.Min), "-0.0001"))
				emit("min-plus-1", path, addRat(json.Number(s.Min), "1"))
			}
			if s.Max != "" {
				emit("max-exact", path, json.Number(s.Max))
				emit("max-plus-1", path, addRat(json.Number(s.Max), "1"))
				emit("max-plus-eps", path, addRat(json.Number(s.Max), "0.0001"))
				emit("max-minus-1", path, addRat(json.Number(s.Max), "-1"))
			}
			if s.MultipleOf != "" {
				emit("multiple-plus-1", path, addRat(x, "1"))
				emit("multiple-plus-step", path, addRat(x, s.MultipleOf))
				emit("multiple-plus-half-step", path, addRat(x, ratText(new(big.Rat).Quo(mustRat(s.MultipleOf), big.NewRat(2, 1)))))
			}
			if s.Type == "integer" {
				emit("integer-fraction", path, addRat(x, "0.5"))
			}
			if s.Enum != nil {
				emit("enum-plus-1", path, addRat(x, "1"))
			}
		case string:
			rs := []rune(x)
			if s.MinLen != nil && *s.MinLen > 0 && len(rs) >= *s.MinLen {
				emit("minlen-minus-1", path, string(rs[:*s.MinLen-1]))
				emit("minlen-exact", path, string(rs[:*s.MinLen]))
			}
			if s.MaxLen != nil {
				pad := x
				for len([]rune(pad)) < *s.MaxLen {
					pad += "a"
				}
				prs := []rune(pad)
				emit("maxlen-exact-astral", path, string(prs[:max(*s.MaxLen-1, 0)])+strings.Repeat("😀", min(*s.MaxLen, 1)))
				emit("maxlen-plus-1", path, string(prs[:*s.MaxLen])+"b")
				emit("maxlen-plus-1-astral", path, string(prs[:*s.MaxLen])+"😀")
			}
			if s.Pattern != "" {
				emit("pattern-append", path, x+"!")
				emit("pattern-prepend", path, "!"+x)
				emit("pattern-empty", path, "")
			}
			if s.Enum != nil {
				emit("enum-near-miss", path, x+"x")
				emit("enum-case", path, strings.ToUpper(x)+"_")
			}
		case []any:
			if s.MinItems != nil && *s.MinItems > 0 && len(x) >= *s.MinItems {
				emit("minitems-minus-1", path, append([]any{}, x[:*s.MinItems-1]...))
			}
			if s.MaxItems != nil && len(x) > 0 {
				ext := append([]any{}, x...)
				for len(ext) <= *s.MaxItems {
					ext = append(ext, deepCopy(x[len(x)-1]))
				}
				emit("maxitems-plus-1", path, ext)
			}
			if s.Unique && len(x) > 0 {
				emit("duplicate-item", path, append(append([]any{}, x...), deepCopy(x[0])))
			}
			for i, e := range x {
				if i < 3 {
					walk(s.Items, e, append(append([]any{}, path...), i), depth+1)
				}
			}
		case map[string]any:
			declared := map[string]*Schema{}
			for _, p := range s.Props {
				declared[p.Name] = p.Schema
				if _, present := x[p.Name]; present {
					m := map[string]any{}
					for k, e := range x {
						if k != p.Name {
							m[k] = e
						}
					}
					if p.Required {
						emit("drop-required-"+p.Name, path, m)
					} else {
						emit("drop-optional-"+p.Name, path, m)
					}
				}
			}
			add := map[string]any{}
			for k, e := range x {
				add[k] = e
			}
			add["zzq"] = json.Number("1")
			emit("add-undeclared", path, add)
			if s.MaxProps != nil {
				m := map[string]any{}
				for k, e := range x {
					m[k] = e
				}
				for i := 0; len(m) <= *s.MaxProps; i++ {
					m[fmt.Sprintf("zy%d", i)] = "p"
				}
				emit("maxprops-plus-1", path, m)
			}
			if s.MinProps != nil && *s.MinProps > 0 {
				emit("minprops-empty", path, map[string]any{})
			}
			n := 0
			for _, p := range s.Props {
				if e, ok := x[p.Name]; ok && n < 4 {
					n++
					walk(p.Schema, e, append(append([]any{}, path...), p.Name), depth+1)
				}
			}
			if s.AddProps != nil {
				keys := make([]string, 0, len(x))
				for k := range x {
					keys = append(keys, k)
				}
				sort.Strings(keys)
				for _, k := range keys {
					if declared[k] == nil {
						walk(s.AddProps, x[k], append(append([]any{}, path...), k), depth+1)
						break
					}
				}
			}
		}
	}
	walk(s, root, nil, 0)
	return out
}

func mustRat(s string) *big.Rat {
	r, _ := new(big.Rat).SetString(s)
	if r == nil {
		return big.NewRat(1, 1)
	}
	return r
}
