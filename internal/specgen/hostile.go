package specgen

import (
	"fmt"

	"pgregory.net/rapid"
)

// FixedIdentifiers are names the templates emit themselves (a spec name equal
// to one of them after normalisation collides: known finding of C02).
var FixedIdentifiers = []string{"Client", "Server", "Handler", "Route", "Option", "Error", "Invoker", "Labeler",
	"OperationName", "Middleware", "SecurityHandler", "SecuritySource", "UnimplementedHandler", "ErrorStatusCode",
	"ServerOption", "ClientOption", "ErrorHandler", "WebhookHandler", "WebhookServer", "WebhookClient"}

var hostilePool = []string{
	`a"b`, `a\b`, "a`b", "type", "func", "range", "go", "select", "interface", "map", "chan", "default",
	"string", "error", "nil", "len", "int", "bool", "any", "true", "iota", "append", "context", "fmt", "json", "errors", "http", "jx", "uri", "conv", "validate",
	"жук", "日本", "é", "😀", "1abc", "123", "", " ", "  x  ", "foo_bar", "fooBar", "foo bar", "FooBar", "foo-bar", "FOO_BAR", "foo.bar",
	"$ref", "a-b", "a.b", "a/b", "a:b", "+1", "-1", "__proto__", "%s", "%d%%", "{x}", "a\nb", "a\tb", "a,b", "a;b", "a=b", "a&b", "a?b", "a#b", "a|b", "a*b", "a<b>", "[0]", "a'b",
	"Params", "Req", "Res", "OK", "ApplicationJSON", "Opt", "Nil", "OptNil", "Item", "Type", "Value", "Set", "Null", "Get", "Decode", "Encode", "Validate", "MarshalJSON", "String",
	"xxxxxxxxxxxxxxxxxxxxxxxxxxxxxxxxxxxxxxxxxxxxxxxxxxxxxxxxxxxxxxxxxxxxxxxxxxxxxxxxxxxxxxxxxxxxxxxxxxxxxxxx", "_", "__", "_a", "a_", "A", "a", "aA", "Aa", "ID", "id", "Id", "URL", "url",
}

// HostileName draws an arbitrary-text name. avoidFixed keeps the fixed template identifiers out.
func HostileName(avoidFixed bool) func(t *rapid.T, label string) string {
	return func(t *rapid.T, label string) string {
		switch rapid.IntRange(0, 9).Draw(t, label+"-src") {
		case 0, 1, 2, 3, 4:
			return rapid.SampledFrom(hostilePool).Draw(t, label)
		case 5:
			if avoidFixed {
				return rapid.SampledFrom(hostilePool).Draw(t, label)
			}
			return rapid.SampledFrom(FixedIdentifiers).Draw(t, label)
		case 6:
			return rapid.SampledFrom(hostilePool).Draw(t, label) + rapid.SampledFrom(hostilePool).Draw(t, label+"2")
		case 7:
			return rapid.StringN(0, 6, 12).Draw(t, label)
		default:
			return TameName(t, label)
		}
	}
}

var componentPool = []string{"Pet", "pet", "PET", "Pet_", "pet-1", "pet.1", "1pet", "type", "string", "error", "Error", "Opt", "OptString", "NilString", "OptNilPet",
	"PetParams", "PetReq", "PetRes", "PetOK", "Op0Params", "Op0Req", "Op0Res", "Op0OK", "Op0ReqApplicationJSON", "Item", "PetItem", "a", "A", "_", "__", "foo_bar", "fooBar", "FooBar", "foo.bar", "foo-bar",
	"T0", "T1", "T2", "X", "Y", "Z", "жук", "日本"}

// ComponentName draws a key for components.schemas.
func ComponentName(avoidFixed bool) func(t *rapid.T, label string) string {
	return func(t *rapid.T, label string) string {
		if !avoidFixed && rapid.IntRange(0, 5).Draw(t, label+"-fixed") == 0 {
			return rapid.SampledFrom(FixedIdentifiers).Draw(t, label)
		}
		return rapid.SampledFrom(componentPool).Draw(t, label)
	}
}

// GenHostileDoc draws a document whose names are hostile everywhere a spec
// author may write a name: component keys, property names, enum values,
// operationIds, parameter names, response header names.
func GenHostileDoc(t *rapid.T, avoidFixed bool) Doc {
	name := HostileName(avoidFixed)
	opt := Options{MaxDepth: 2, Validators: true, Sums: true, AllOf: true, Refs: true, Nullable: true, Maps: true, Names: name}
	ncomp := rapid.IntRange(1, 5).Draw(t, "ncomp")
	// components with hostile keys: generate with T-names, then rename
	comps := GenComponents(t, opt, ncomp)
	cname := ComponentName(avoidFixed)
	rename := map[string]string{}
	used := map[string]bool{}
	for _, n := range comps.Names() {
		nn := cname(t, "cname")
		if used[nn] {
			nn = n
		}
		used[nn] = true
		rename[n] = nn
	}
	out := Components{}
	var fix func(s *Schema)
	fix = func(s *Schema) {
		if s == nil {
			return
		}
		if s.Ref != "" {
			s.Ref = rename[s.Ref]
			return
		}
		fix(s.Items)
		fix(s.AddProps)
		for _, p := range s.Props {
			fix(p.Schema)
		}
		for _, l := range [][]*Schema{s.AllOf, s.OneOf, s.AnyOf} {
			for _, x := range l {
				fix(x)
			}
		}
	}
	for n, s := range comps {
		fix(s)
		out[rename[n]] = s
	}
	doc := Doc{Components: out}
	names := out.Names()
	nops := rapid.IntRange(1, 4).Draw(t, "nops")
	usedIDs := map[string]bool{}
	for i := 0; i < nops; i++ {
		id := name(t, "opid")
		if usedIDs[id] || id == "" {
			id = fmt.Sprintf("op%d", i)
		}
		usedIDs[id] = true
		op := Operation{ID: id, Method: rapid.SampledFrom([]string{"GET", "POST", "PUT"}).Draw(t, "method"), Path: fmt.Sprintf("/p%d", i)}
		np := rapid.IntRange(0, 3).Draw(t, "nparams")
		seenP := map[string]bool{}
		for j := 0; j < np; j++ {
			in := rapid.SampledFrom([]string{"query", "header", "cookie"}).Draw(t, "in")
			var pn string
			if in == "header" {
				pn = rapid.SampledFrom([]string{"X-A", "x-a", "X_A", "Type", "Content-Type", "Accept", "X-Func", "X-1", "1", "X-é"}).Draw(t, "hname")
			} else {
				pn = name(t, "pname")
			}
			if seenP[in+pn] || pn == "" {
				continue
			}
			seenP[in+pn] = true
			g := &genCtx{opt: opt, comps: out, compList: names}
			op.Params = append(op.Params, Param{Name: pn, In: in, Required: rapid.Bool().Draw(t, "preq"), Schema: g.genLeaf(t)})
		}
		if op.Method != "GET" && rapid.Bool().Draw(t, "body") {
			op.Body = &Body{Required: rapid.Bool().Draw(t, "breq"), Media: []Media{{ContentType: "application/json", Schema: &Schema{Ref: rapid.SampledFrom(names).Draw(t, "bref")}}}}
		}
		r := Response{Code: rapid.SampledFrom([]string{"200", "201", "2XX", "default"}).Draw(t, "code")}
		if rapid.Bool().Draw(t, "rbody") {
			r.Media = []Media{{ContentType: "application/json", Schema: &Schema{Ref: rapid.SampledFrom(names).Draw(t, "rref")}}}
		}
		nh := rapid.IntRange(0, 2).Draw(t, "nheaders")
		seenH := map[string]bool{}
		for j := 0; j < nh; j++ {
			hn := rapid.SampledFrom([]string{"X-A", "x-b", "X_C", "Type", "X-Func", "X-1", "ETag", "Location"}).Draw(t, "rhname")
			if seenH[hn] {
				continue
			}
			seenH[hn] = true
			r.Headers = append(r.Headers, Header{Name: hn, Required: rapid.Bool().Draw(t, "hreq"), Schema: &Schema{Type: "string"}})
		}
		op.Responses = []Response{r}
		if rapid.IntRange(0, 2).Draw(t, "second") == 0 && r.Code != "default" {
			op.Responses = append(op.Responses, Response{Code: "default", Media: []Media{{ContentType: "application/json", Schema: &Schema{Type: "string"}}}})
		}
		doc.Ops = append(doc.Ops, op)
	}
	return doc
}

// TameCopy returns the same document with every name a spec author chose (component keys, property
// names, operationIds, parameter names) replaced by a fresh tame identifier (n0, n1, ...), consistently
// ($ref targets, required lists). Used as a counterfactual: a failure that disappears in the tame copy
// is caused by the NAMES, not by the structure of the document.
func TameCopy(d Doc) Doc {
	names := map[string]string{}
	tame := func(kind, s string) string {
		k := kind + "\x00" + s
		if v, ok := names[k]; ok {
			return v
		}
		v := fmt.Sprintf("%s%d", kind, len(names))
		names[k] = v
		return v
	}
	var cp func(s *Schema) *Schema
	cp = func(s *Schema) *Schema {
		if s == nil {
			return nil
		}
		c := *s
		if s.Ref != "" {
			c.Ref = tame("C", s.Ref)
			return &c
		}
		c.Items = cp(s.Items)
		c.AddProps = cp(s.AddProps)
		c.Props = nil
		for _, p := range s.Props {
			c.Props = append(c.Props, Prop{Name: tame("p", p.Name), Schema: cp(p.Schema), Required: p.Required})
		}
		cpl := func(l []*Schema) []*Schema {
			var out []*Schema
			for _, x := range l {
				out = append(out, cp(x))
			}
			return out
		}
		c.AllOf, c.OneOf, c.AnyOf = cpl(s.AllOf), cpl(s.OneOf), cpl(s.AnyOf)
		return &c
	}
	out := Doc{Version: d.Version, Components: Components{}}
	for _, n := range d.Components.Names() {
		out.Components[tame("C", n)] = cp(d.Components[n])
	}
	for _, op := range d.Ops {
		o := op
		o.ID = tame("op", op.ID)
		o.Params = nil
		for _, p := range op.Params {
			q := p
			if p.In != "header" {
				q.Name = tame("q", p.Name)
			}
			q.Schema = cp(p.Schema)
			o.Params = append(o.Params, q)
		}
		if op.Body != nil {
			b := *op.Body
			b.Media = nil
			for _, m := range op.Body.Media {
				b.Media = append(b.Media, Media{ContentType: m.ContentType, Schema: cp(m.Schema)})
			}
			o.Body = &b
		}
		o.Responses = nil
		for _, r := range op.Responses {
			rr := Response{Code: r.Code, Headers: r.Headers}
			for _, m := range r.Media {
				rr.Media = append(rr.Media, Media{ContentType: m.ContentType, Schema: cp(m.Schema)})
			}
			o.Responses = append(o.Responses, rr)
		}
		out.Ops = append(out.Ops, o)
	}
	return out
}
