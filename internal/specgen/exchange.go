package specgen

import (
	"fmt"
	"strings"

	"pgregory.net/rapid"
)

// ParamCombo is one admitted (location, style, explode, shape) cell.
type ParamCombo struct {
	In      string
	Style   string
	Explode bool
	Shape   string // prim array object
}

// AdmittedCombos is the style matrix ogen's parser and generator admit (observed by
// the C06 admission unit, which re-derives it from the real parser on every run).
func AdmittedCombos() []ParamCombo {
	var out []ParamCombo
	for _, st := range []string{"simple", "label", "matrix"} {
		for _, ex := range []bool{false, true} {
			for _, sh := range []string{"prim", "array", "object"} {
				out = append(out, ParamCombo{"path", st, ex, sh})
			}
		}
	}
	for _, ex := range []bool{false, true} {
		for _, sh := range []string{"prim", "array", "object"} {
			out = append(out, ParamCombo{"query", "form", ex, sh})
			out = append(out, ParamCombo{"header", "simple", ex, sh})
		}
		out = append(out, ParamCombo{"query", "pipeDelimited", ex, "array"})
	}
	out = append(out, ParamCombo{"query", "deepObject", true, "object"})
	for _, sh := range []string{"prim", "array", "object"} {
		out = append(out, ParamCombo{"cookie", "form", false, sh})
	}
	out = append(out, ParamCombo{"cookie", "form", true, "prim"})
	return out
}

// ExchangeOptions steer GenExchangeDoc.
type ExchangeOptions struct {
	Formats    bool   // string/number formats on primitives
	TimeFormat string // the single time format used in this document ("date-time", "date", "time", "unix", "unix-seconds", "unix-milli", "unix-micro", "unix-nano", "" = none); the unix ones also apply to integers
	Validators bool
	Defaults   bool
	Docs       bool // descriptions and deprecated flags on operations, parameters and schemas
	DenseDocs  bool // with Docs: always the dense variant (else drawn, 1 in 3)
	// ECMAPatterns: some plain string parameters and members carry a `pattern` that only a
	// backtracking ECMA-262 engine can run (look-ahead, back-reference): ogen's fallback matcher.
	// The patterns accept some of the builder's core strings and refuse others. Not for checks
	// whose oracle must evaluate the pattern (C01, C03): for checks that compare runs (C19).
	ECMAPatterns bool
	// SharedParamObjects: half of the object-shaped parameters take their schema from a component
	// that is also the JSON body of a 202 response of the same operation.
	SharedParamObjects bool
	// PropDefaults: see Options.PropDefaults.
	PropDefaults bool
}

func primSchema(t *rapid.T, eo ExchangeOptions) *Schema {
	kinds := []string{"string", "string", "integer", "number", "boolean"}
	k := rapid.SampledFrom(kinds).Draw(t, "ptype")
	s := &Schema{Type: k}
	if eo.Formats && rapid.IntRange(0, 2).Draw(t, "fmt") == 0 {
		switch k {
		case "string":
			// every format that selects a text codec of its own for a parameter (gen/ir uriFormat) or a JSON
			// member; formats with validators (hostname, email) belong to C03
			fs := []string{"uuid", "byte", "ipv4", "ipv6", "ip", "uri", "mac", "duration", "password",
				"int64", "int32", "int16", "int8", "int", "uint64", "uint32", "uint16", "uint8", "uint", "float32", "float64"}
			if eo.TimeFormat != "" {
				fs = append(fs, eo.TimeFormat, eo.TimeFormat, eo.TimeFormat, eo.TimeFormat)
			}
			s.Format = rapid.SampledFrom(fs).Draw(t, "sfmt")
		case "integer":
			fs := []string{"int32", "int64", "int8", "int16", "int", "uint64", "uint32", "uint16", "uint8", "uint"}
			if strings.HasPrefix(eo.TimeFormat, "unix") {
				fs = append(fs, eo.TimeFormat, eo.TimeFormat, eo.TimeFormat)
			}
			s.Format = rapid.SampledFrom(fs).Draw(t, "ifmt")
		case "number":
			s.Format = rapid.SampledFrom([]string{"float", "double", "int32", "int64"}).Draw(t, "nfmt")
		}
	}
	if eo.ECMAPatterns && k == "string" && s.Format == "" && rapid.IntRange(0, 1).Draw(t, "ecmapattern") == 0 {
		s.Pattern = rapid.SampledFrom([]string{`^(?!tmp-)[a-z][a-z0-9-]*$`, `^(?=.*[0-9])[a-zA-Z0-9_]+$`, `^(a|v)(?!b)`, `^(.)\1`}).Draw(t, "ecma")
	}
	if eo.Defaults && rapid.IntRange(0, 3).Draw(t, "default") == 0 && s.Format == "" {
		switch k {
		case "string":
			s.Default = raw(rapid.SampledFrom([]string{"dflt", "d", "x y"}).Draw(t, "dstr"))
		case "integer":
			s.Default = raw(rapid.IntRange(-5, 50).Draw(t, "dint"))
		case "number":
			s.Default = raw(1.5)
		case "boolean":
			s.Default = raw(true)
		}
	}
	return s
}

var exNames = []string{"a", "b", "c", "id", "name", "value", "kind", "q", "limit", "xTag", "v1"}

// GenExchangeDoc draws a document for the client/server exchange property (C01):
// operations with parameters from every admitted style cell, JSON bodies and
// several response shapes (codes, patterns, default, headers).
func GenExchangeDoc(t *rapid.T, eo ExchangeOptions) Doc {
	opt := Options{MaxDepth: 2, Validators: eo.Validators, Sums: true, AllOf: false, Refs: true, Nullable: true, Maps: true, Defaults: eo.Defaults, Docs: eo.Docs, PropDefaults: eo.PropDefaults}
	dense := eo.Docs && (eo.DenseDocs || rapid.IntRange(0, 2).Draw(t, "densedocs") == 0)
	opt.DocsDense = dense
	comps := GenComponents(t, opt, rapid.IntRange(1, 4).Draw(t, "ncomp"))
	doc := Doc{Components: comps}
	names := comps.Names()
	combos := AdmittedCombos()
	// in half of the documents EVERY object-shaped parameter is typed by a shared component
	shareAll := eo.SharedParamObjects && rapid.Bool().Draw(t, "shareall")
	nops := rapid.IntRange(3, 7).Draw(t, "nops")
	for i := 0; i < nops; i++ {
		op := Operation{ID: fmt.Sprintf("op%d", i), Method: rapid.SampledFrom([]string{"GET", "POST", "PUT", "DELETE", "PATCH"}).Draw(t, "method")}
		if eo.Docs {
			op.Description, op.Deprecated = DrawDocs(t, dense)
		}
		path := fmt.Sprintf("/e%d", i)
		var sharedObjs []string
		np := rapid.IntRange(0, 4).Draw(t, "nparams")
		used := map[string]bool{}
		for j := 0; j < np; j++ {
			c := combos[rapid.IntRange(0, len(combos)-1).Draw(t, "combo")]
			nm := rapid.SampledFrom(exNames).Draw(t, "pname")
			if used[nm] { // one name per operation keeps the recorder keys unambiguous
				continue
			}
			used[nm] = true
			p := Param{Name: nm, In: c.In, Style: c.Style, Explode: boolp(c.Explode), Required: c.In == "path" || rapid.Bool().Draw(t, "required")}
			switch c.Shape {
			case "prim":
				p.Schema = primSchema(t, eo)
			case "array":
				p.Schema = &Schema{Type: "array", Items: primSchema(t, ExchangeOptions{Formats: eo.Formats, TimeFormat: eo.TimeFormat})}
			case "object":
				o := &Schema{Type: "object"}
				nf := rapid.IntRange(1, 3).Draw(t, "nfields")
				fu := map[string]bool{}
				for f := 0; f < nf; f++ {
					fn := rapid.SampledFrom([]string{"r", "g", "b", "role", "n"}).Draw(t, "fname")
					if fu[fn] {
						continue
					}
					fu[fn] = true
					o.Props = append(o.Props, Prop{Name: fn, Schema: primSchema(t, ExchangeOptions{Formats: eo.Formats, TimeFormat: eo.TimeFormat}), Required: f == 0 || rapid.Bool().Draw(t, "freq")})
				}
				p.Schema = o
				if eo.SharedParamObjects && (shareAll || rapid.IntRange(0, 1).Draw(t, "sharedobj") == 0) {
					// the parameter's object type is a COMPONENT that a JSON body uses too
					cname := fmt.Sprintf("PObj%d_%d", i, j)
					comps[cname] = o
					p.Schema = &Schema{Ref: cname}
					sharedObjs = append(sharedObjs, cname)
				}
			}
			if c.In == "path" {
				path += fmt.Sprintf("/%s/{%s}", rapid.SampledFrom([]string{"p", "x", "seg"}).Draw(t, "pseg"), nm)
			}
			if c.In == "header" {
				p.Name = "X-" + nm
			}
			if eo.Docs {
				p.Description, p.Deprecated = DrawDocs(t, dense)
			}
			op.Params = append(op.Params, p)
		}
		// the order of declaration is not the order in the path template; some parameters are declared
		// at the path item (every operation has a path of its own)
		if len(op.Params) > 1 && rapid.Bool().Draw(t, "shuffleparams") {
			op.Params = rapid.Permutation(op.Params).Draw(t, "paramorder")
		}
		for j := range op.Params {
			if rapid.IntRange(0, 3).Draw(t, "atpathitem") == 0 {
				op.Params[j].AtPathItem = true
			}
		}
		op.Path = path
		if op.Method != "GET" && op.Method != "DELETE" && rapid.IntRange(0, 3).Draw(t, "body") > 0 {
			var bs *Schema
			if rapid.Bool().Draw(t, "bodyref") {
				bs = &Schema{Ref: rapid.SampledFrom(names).Draw(t, "bref")}
			} else {
				bs = GenSchema(t, opt, comps)
			}
			op.Body = &Body{Required: rapid.IntRange(0, 3).Draw(t, "breq") > 0, Media: []Media{{ContentType: "application/json", Schema: bs}}}
		}
		// responses
		mkMediaN := func(label string, kinds int) []Media {
			switch rapid.IntRange(0, kinds).Draw(t, label) {
			case 0:
				return nil // no content
			case 1:
				return []Media{{ContentType: "application/json", Schema: primSchema(t, ExchangeOptions{})}}
			case 2:
				return []Media{{ContentType: "application/json", Schema: GenSchema(t, opt, comps)}}
			default:
				return []Media{{ContentType: "application/json", Schema: &Schema{Ref: rapid.SampledFrom(names).Draw(t, label+"ref")}}}
			}
		}
		// a component wrapped by a status-code pattern / default response gets ONE wrapper type per
		// component: referencing it from several operations is refused ("anonymous type name conflict"),
		// so wrapped responses use inline schemas
		mkMedia := func(label string) []Media { return mkMediaN(label, 4) }
		mkWrapped := func(label string) []Media { return mkMediaN(label, 2) }
		mkHeaders := func(label string) []Header {
			var hs []Header
			n := rapid.IntRange(0, 2).Draw(t, label)
			hu := map[string]bool{}
			for h := 0; h < n; h++ {
				hn := rapid.SampledFrom([]string{"X-Rate", "X-Tag", "X-Count", "ETag"}).Draw(t, label+"name")
				if hu[hn] {
					continue
				}
				hu[hn] = true
				hsch := primSchema(t, ExchangeOptions{})
				if rapid.IntRange(0, 3).Draw(t, label+"arr") == 0 {
					hsch = &Schema{Type: "array", Items: primSchema(t, ExchangeOptions{})}
				}
				hs = append(hs, Header{Name: hn, Required: rapid.Bool().Draw(t, label+"req"), Schema: hsch})
			}
			return hs
		}
		switch rapid.IntRange(0, 5).Draw(t, "respkind") {
		case 0:
			op.Responses = []Response{{Code: "200", Media: mkMedia("m200"), Headers: mkHeaders("h200")}}
		case 1:
			op.Responses = []Response{{Code: "200", Media: mkMedia("m200"), Headers: mkHeaders("h200")}, {Code: "404", Media: mkMedia("m404")}}
		case 2:
			op.Responses = []Response{{Code: "201", Media: mkMedia("m201")}, {Code: "4XX", Media: mkWrapped("m4xx"), Headers: mkHeaders("h4xx")}}
		case 3:
			op.Responses = []Response{{Code: "200", Media: mkMedia("m200")}, {Code: "default", Media: mkWrapped("mdef"), Headers: mkHeaders("hdef")}}
		case 4:
			op.Responses = []Response{{Code: "2XX", Media: mkWrapped("m2xx")}, {Code: "default", Media: mkWrapped("mdef")}}
		default:
			op.Responses = []Response{{Code: "204"}, {Code: "200", Media: mkMedia("m200")}, {Code: "500", Media: mkMedia("m500")}}
		}
		for k, cname := range sharedObjs {
			// every shared object is the JSON body of a response of its own
			if codes := []string{"202", "203", "206", "207", "208", "226"}; k < len(codes) {
				op.Responses = append(op.Responses, Response{Code: codes[k], Media: []Media{{ContentType: "application/json", Schema: &Schema{Ref: cname}}}})
			}
		}
		doc.Ops = append(doc.Ops, op)
	}
	return doc
}
