// Package specgen holds the spec model of DESIGN.md §3.1: a Go description of
// the typed JSON-Schema fragment ogen implements, its renderer to an OpenAPI
// document, rapid generators, a reference validator written from the
// specification (not from ogen) and schema-directed instance generators.
package specgen

import (
	"encoding/json"
	"sort"
)

// Schema is one schema object of the supported fragment. Numbers are kept as
// decimal text so that the document, the reference validator and the Python
// cross-check all see the same exact value.
type Schema struct {
	Ref string `json:"ref,omitempty"` // name in components.schemas; when set nothing else is

	Type     string `json:"type,omitempty"` // string integer number boolean array object; "" = any (empty schema)
	Format   string `json:"format,omitempty"`
	Nullable bool   `json:"nullable,omitempty"`

	Enum []json.RawMessage `json:"enum,omitempty"`

	Min        string `json:"min,omitempty"`
	Max        string `json:"max,omitempty"`
	ExclMin    bool   `json:"excl_min,omitempty"`
	ExclMax    bool   `json:"excl_max,omitempty"`
	MultipleOf string `json:"multiple_of,omitempty"`

	MinLen  *int   `json:"min_len,omitempty"`
	MaxLen  *int   `json:"max_len,omitempty"`
	Pattern string `json:"pattern,omitempty"`

	Items    *Schema `json:"items,omitempty"`
	MinItems *int    `json:"min_items,omitempty"`
	MaxItems *int    `json:"max_items,omitempty"`
	Unique   bool    `json:"unique,omitempty"`

	Props        []Prop  `json:"props,omitempty"`
	// ExtraRequired: names in `required` that this schema does not declare itself (an allOf member
	// that requires a property another member declares).
	ExtraRequired []string `json:"extra_required,omitempty"`
	AddProps     *Schema `json:"add_props,omitempty"`      // additionalProperties: schema
	AddPropsBool *bool   `json:"add_props_bool,omitempty"` // additionalProperties: true/false
	MinProps     *int    `json:"min_props,omitempty"`
	MaxProps     *int    `json:"max_props,omitempty"`

	AllOf []*Schema `json:"all_of,omitempty"`
	OneOf []*Schema `json:"one_of,omitempty"`
	AnyOf []*Schema `json:"any_of,omitempty"`
	Disc  *Disc     `json:"disc,omitempty"`

	Default json.RawMessage `json:"default,omitempty"`

	Description string `json:"description,omitempty"`
	Deprecated  bool   `json:"deprecated,omitempty"`
}

// Prop is one object property.
type Prop struct {
	Name     string  `json:"name"`
	Schema   *Schema `json:"schema"`
	Required bool    `json:"required,omitempty"`
}

// Disc is an explicit discriminator.
type Disc struct {
	Prop    string            `json:"prop"`
	Mapping map[string]string `json:"mapping,omitempty"` // value → component name
}

func num(s string) json.Number { return json.Number(s) }

// Render gives the schema object as a JSON-able map (OpenAPI 3.0 dialect).
func (s *Schema) Render() map[string]any {
	m := map[string]any{}
	if s == nil {
		return m
	}
	if s.Ref != "" {
		m["$ref"] = "#/components/schemas/" + s.Ref
		return m
	}
	if s.Type != "" {
		m["type"] = s.Type
	}
	if s.Format != "" {
		m["format"] = s.Format
	}
	if s.Nullable {
		m["nullable"] = true
	}
	if s.Enum != nil {
		vals := make([]any, len(s.Enum))
		for i, e := range s.Enum {
			vals[i] = e
		}
		m["enum"] = vals
	}
	if s.Min != "" {
		m["minimum"] = num(s.Min)
		if s.ExclMin {
			m["exclusiveMinimum"] = true
		}
	}
	if s.Max != "" {
		m["maximum"] = num(s.Max)
		if s.ExclMax {
			m["exclusiveMaximum"] = true
		}
	}
	if s.MultipleOf != "" {
		m["multipleOf"] = num(s.MultipleOf)
	}
	if s.MinLen != nil {
		m["minLength"] = *s.MinLen
	}
	if s.MaxLen != nil {
		m["maxLength"] = *s.MaxLen
	}
	if s.Pattern != "" {
		m["pattern"] = s.Pattern
	}
	if s.Items != nil {
		m["items"] = s.Items.Render()
	}
	if s.MinItems != nil {
		m["minItems"] = *s.MinItems
	}
	if s.MaxItems != nil {
		m["maxItems"] = *s.MaxItems
	}
	if s.Unique {
		m["uniqueItems"] = true
	}
	if len(s.Props) > 0 {
		props := map[string]any{}
		var req []string
		for _, p := range s.Props {
			props[p.Name] = p.Schema.Render()
			if p.Required {
				req = append(req, p.Name)
			}
		}
		m["properties"] = props
		req = append(req, s.ExtraRequired...)
		if len(req) > 0 {
			sort.Strings(req)
			m["required"] = req
		}
	} else if len(s.ExtraRequired) > 0 {
		req := append([]string{}, s.ExtraRequired...)
		sort.Strings(req)
		m["required"] = req
	}
	if s.AddProps != nil {
		m["additionalProperties"] = s.AddProps.Render()
	} else if s.AddPropsBool != nil {
		m["additionalProperties"] = *s.AddPropsBool
	}
	if s.MinProps != nil {
		m["minProperties"] = *s.MinProps
	}
	if s.MaxProps != nil {
		m["maxProperties"] = *s.MaxProps
	}
	renderList := func(key string, l []*Schema) {
		if len(l) == 0 {
			return
		}
		out := make([]any, len(l))
		for i, x := range l {
			out[i] = x.Render()
		}
		m[key] = out
	}
	renderList("allOf", s.AllOf)
	renderList("oneOf", s.OneOf)
	renderList("anyOf", s.AnyOf)
	if s.Disc != nil {
		d := map[string]any{"propertyName": s.Disc.Prop}
		if len(s.Disc.Mapping) > 0 {
			mp := map[string]any{}
			for k, v := range s.Disc.Mapping {
				mp[k] = "#/components/schemas/" + v
			}
			d["mapping"] = mp
		}
		m["discriminator"] = d
	}
	if s.Default != nil {
		m["default"] = s.Default
	}
	if s.Description != "" {
		m["description"] = s.Description
	}
	if s.Deprecated {
		m["deprecated"] = true
	}
	return m
}

// Components is the named-schema table of one document.
type Components map[string]*Schema

// Resolve follows references (bounded).
func (c Components) Resolve(s *Schema) *Schema {
	for i := 0; s != nil && s.Ref != "" && i < 64; i++ {
		s = c[s.Ref]
	}
	return s
}

// Names returns the component names sorted.
func (c Components) Names() []string {
	var out []string
	for k := range c {
		out = append(out, k)
	}
	sort.Strings(out)
	return out
}

func intp(i int) *int    { return &i }
func boolp(b bool) *bool { return &b }

// HasValidators reports whether the schema (after resolving) carries at least
// one validation keyword besides type/properties (non-triviality rule of C03).
func (c Components) HasValidators(s *Schema, depth int) bool {
	s = c.Resolve(s)
	if s == nil || depth > 6 {
		return false
	}
	if s.Enum != nil || s.Min != "" || s.Max != "" || s.MultipleOf != "" || s.MinLen != nil || s.MaxLen != nil ||
		s.Pattern != "" || s.MinItems != nil || s.MaxItems != nil || s.Unique || s.MinProps != nil || s.MaxProps != nil ||
		(s.AddPropsBool != nil && !*s.AddPropsBool) || len(s.OneOf) > 0 || len(s.AnyOf) > 0 {
		return true
	}
	for _, p := range s.Props {
		if p.Required || c.HasValidators(p.Schema, depth+1) {
			return true
		}
	}
	if s.Items != nil && c.HasValidators(s.Items, depth+1) {
		return true
	}
	if s.AddProps != nil && c.HasValidators(s.AddProps, depth+1) {
		return true
	}
	for _, x := range s.AllOf {
		if c.HasValidators(x, depth+1) {
			return true
		}
	}
	return false
}
