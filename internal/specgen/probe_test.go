package specgen_test

import (
	"fmt"
	"os"
	"regexp"
	"sort"
	"testing"

	"pgregory.net/rapid"

	"verif/internal/regen"
	"verif/internal/specgen"
)

// Development probe: how many generated documents does ogen accept, and why not.
func TestAcceptanceProbe(t *testing.T) {
	if os.Getenv("VERIF_PROBE") == "" {
		t.Skip("set VERIF_PROBE=1")
	}
	classes := map[string]int{}
	msgs := map[string]int{}
	example := map[string]string{}
	strip := regexp.MustCompile(`[0-9]+`)
	rapid.Check(t, func(rt *rapid.T) {
		opt := specgen.Options{MaxDepth: 3, Validators: true, Sums: true, AllOf: true, Refs: true, Nullable: true, Maps: true}
		comps := specgen.GenComponents(rt, opt, rapid.IntRange(1, 6).Draw(rt, "ncomp"))
		var doc specgen.Doc
		doc.Components = comps
		for i, n := range comps.Names() {
			doc.Ops = append(doc.Ops, specgen.Operation{ID: fmt.Sprintf("op%d", i), Method: "POST", Path: fmt.Sprintf("/b%d", i),
				Body:      &specgen.Body{Required: true, Media: []specgen.Media{{ContentType: "application/json", Schema: &specgen.Schema{Ref: n}}}},
				Responses: []specgen.Response{{Code: "200"}}})
		}
		spec := doc.Render()
		out := regen.Generate(spec, regen.ClientServer(), "", "api")
		classes[out.Class]++
		if out.Class != regen.OK {
			m := out.Err
			if len(m) > 400 {
				m = m[len(m)-400:]
			}
			key := strip.ReplaceAllString(m, "N")
			if len(key) > 160 {
				key = key[len(key)-160:]
			}
			msgs[key]++
			example[key] = string(spec)
		}
	})
	fmt.Println("CLASSES", classes)
	var keys []string
	for k := range msgs {
		keys = append(keys, k)
	}
	sort.Slice(keys, func(i, j int) bool { return msgs[keys[i]] > msgs[keys[j]] })
	for i, k := range keys {
		if i > 25 {
			break
		}
		fmt.Printf("%4d %s\n", msgs[k], k)
		if i < 8 {
			ex := example[k]
			if len(ex) > 700 {
				ex = ex[:700]
			}
			fmt.Println("      e.g.", ex)
		}
	}
}

func TestExchangeProbe(t *testing.T) {
	if os.Getenv("VERIF_PROBE") == "" {
		t.Skip("set VERIF_PROBE=1")
	}
	classes := map[string]int{}
	msgs := map[string]int{}
	strip := regexp.MustCompile(`[0-9]+`)
	rapid.Check(t, func(rt *rapid.T) {
		doc := specgen.GenExchangeDoc(rt, specgen.ExchangeOptions{Formats: rapid.Bool().Draw(rt, "formats"), TimeFormat: "date-time"})
		out := regen.Generate(doc.Render(), regen.ClientServer(), "", "api")
		classes[out.Class]++
		if out.Class != regen.OK {
			m := out.Err
			key := strip.ReplaceAllString(m, "N")
			if len(key) > 200 {
				key = key[len(key)-200:]
			}
			msgs[key]++
		}
	})
	fmt.Println("CLASSES", classes)
	var keys []string
	for k := range msgs {
		keys = append(keys, k)
	}
	sort.Slice(keys, func(i, j int) bool { return msgs[keys[i]] > msgs[keys[j]] })
	for i, k := range keys {
		if i > 25 {
			break
		}
		fmt.Printf("%4d %s\n", msgs[k], k)
	}
}
