package specgen

import "fmt"

// ExchangeTimeFormats are the time formats of the exchange profile; each document uses one of them
// (the value builder cannot tell the format of a time.Time member).
var ExchangeTimeFormats = []string{"date-time", "date", "time", "unix", "unix-seconds", "unix-milli", "unix-micro", "unix-nano"}

// ParamFormatMatrix returns fixed documents in which every (type, format) pair that selects a text
// codec of its own travels as a parameter in every location, alone and as an array item, and as a
// response header: the codecs of parameters are chosen by the templates (gen/ir uriFormat), not by the
// JSON helpers, so a format that is right in a body can still be wrong in a URI. One document per time
// format carries that format (string-typed and, for the unix family, integer-typed); the first
// document also carries every other format.
func ParamFormatMatrix() []struct {
	TimeFormat string
	Doc        Doc
} {
	var out []struct {
		TimeFormat string
		Doc        Doc
	}
	type tf struct{ typ, format string }
	var others []tf
	for _, f := range stringFormats {
		switch f {
		case "hostname", "email", "date-time", "date", "time", "unix", "unix-milli":
			continue // validators (C03) / time formats (below)
		}
		others = append(others, tf{"string", f})
	}
	for _, f := range integerFormats {
		if len(f) >= 4 && f[:4] == "unix" {
			continue
		}
		others = append(others, tf{"integer", f})
	}
	for _, f := range numberFormats {
		others = append(others, tf{"number", f})
	}
	for di, timeFormat := range ExchangeTimeFormats {
		pairs := []tf{{"string", timeFormat}}
		if len(timeFormat) >= 4 && timeFormat[:4] == "unix" {
			pairs = append(pairs, tf{"integer", timeFormat})
		}
		if di == 0 {
			pairs = append(pairs, others...)
		}
		doc := Doc{Components: Components{}}
		t, f := true, false
		opn := 0
		// groups of at most 6 pairs per operation keep the path templates and the call arguments small
		for g := 0; g < len(pairs); g += 6 {
			group := pairs[g:min(g+6, len(pairs))]
			for _, loc := range []struct {
				in, style string
				explode   *bool
				array     bool
			}{
				{"query", "form", &t, false}, {"query", "form", &f, true}, {"query", "form", &t, true},
				{"header", "simple", &f, false}, {"header", "simple", &f, true},
				{"cookie", "form", &f, false},
				{"path", "simple", &f, false}, {"path", "label", &t, true}, {"path", "matrix", &f, false},
			} {
				op := Operation{ID: fmt.Sprintf("fm%d", opn), Method: "GET", Path: fmt.Sprintf("/fm%d", opn)}
				opn++
				var hs []Header
				for i, p := range group {
					sch := &Schema{Type: p.typ, Format: p.format}
					if loc.array {
						sch = &Schema{Type: "array", Items: sch}
					}
					name := fmt.Sprintf("p%d", i)
					if loc.in == "header" {
						name = "X-" + name
					}
					if loc.in == "path" {
						op.Path += fmt.Sprintf("/s%d/{%s}", i, name)
					}
					op.Params = append(op.Params, Param{Name: name, In: loc.in, Style: loc.style, Explode: loc.explode,
						Required: loc.in == "path" || i%2 == 0, Schema: sch})
					if loc.in == "header" {
						hs = append(hs, Header{Name: fmt.Sprintf("X-R%d", i), Required: i%2 == 0, Schema: sch})
					}
				}
				op.Responses = []Response{{Code: "200", Headers: hs, Media: []Media{{ContentType: "application/json", Schema: &Schema{Type: "boolean"}}}}}
				doc.Ops = append(doc.Ops, op)
			}
		}
		out = append(out, struct {
			TimeFormat string
			Doc        Doc
		}{timeFormat, doc})
	}
	return out
}
