package specgen

import (
	"bytes"
	"encoding/json"
	"fmt"
	"math"
	"math/big"
	"regexp"
	"sort"
	"strconv"
	"strings"
	"unicode/utf8"
)

// ParseJSON decodes a JSON text keeping numbers as json.Number.
func ParseJSON(data []byte) (any, error) {
	d := json.NewDecoder(bytes.NewReader(data))
	d.UseNumber()
	var v any
	if err := d.Decode(&v); err != nil {
		return nil, err
	}
	if d.More() {
		return nil, fmt.Errorf("trailing data")
	}
	return v, nil
}

// MustJSON encodes an instance (json.Number is written verbatim, map keys sorted).
func MustJSON(v any) []byte {
	b, err := json.Marshal(v)
	if err != nil {
		panic(err)
	}
	return b
}

func ratOf(n json.Number) (*big.Rat, bool) {
	s := string(n)
	// guard against absurd exponents
	if i := strings.IndexAny(s, "eE"); i >= 0 {
		exp := s[i+1:]
		if len(strings.TrimLeft(exp, "+-0")) > 3 {
			return nil, false
		}
	}
	r, ok := new(big.Rat).SetString(s)
	return r, ok
}

func isIntegerText(n json.Number) bool {
	return !strings.ContainsAny(string(n), ".eE")
}

// DeepEqualJSON compares two instances by value (numbers numerically).
func DeepEqualJSON(a, b any) bool {
	switch x := a.(type) {
	case nil:
		return b == nil
	case bool:
		y, ok := b.(bool)
		return ok && x == y
	case string:
		y, ok := b.(string)
		return ok && x == y
	case json.Number:
		y, ok := b.(json.Number)
		if !ok {
			return false
		}
		rx, ok1 := ratOf(x)
		ry, ok2 := ratOf(y)
		if !ok1 || !ok2 {
			return string(x) == string(y)
		}
		return rx.Cmp(ry) == 0
	case []any:
		y, ok := b.([]any)
		if !ok || len(x) != len(y) {
			return false
		}
		for i := range x {
			if !DeepEqualJSON(x[i], y[i]) {
				return false
			}
		}
		return true
	case map[string]any:
		y, ok := b.(map[string]any)
		if !ok || len(x) != len(y) {
			return false
		}
		for k, v := range x {
			w, ok := y[k]
			if !ok || !DeepEqualJSON(v, w) {
				return false
			}
		}
		return true
	}
	return false
}

func typeName(v any) string {
	switch x := v.(type) {
	case nil:
		return "null"
	case bool:
		return "boolean"
	case string:
		return "string"
	case json.Number:
		if isIntegerText(x) {
			return "integer"
		}
		return "number"
	case []any:
		return "array"
	case map[string]any:
		return "object"
	}
	return "?"
}

var patternCache = map[string]*regexp.Regexp{}

// Validator is the reference validator (OpenAPI 3.0 dialect, DESIGN.md Appendix E).
type Validator struct {
	C Components
	// Float64Numbers: a number governed by a schema of type "number" is judged at the float64 value
	// nearest to its text (what a double-based validator and a Go float64 see), not at the exact
	// decimal; used where the text was written from a float64 (shortest round-tripping digits denote
	// the double, not a decimal quantity: -3.009554849324023e+97 IS a multiple of 1.5 as a double).
	Float64Numbers bool
}

// Valid reports validity and, when invalid, the first reason.
func (vd Validator) Valid(s *Schema, v any) (bool, string) {
	return vd.valid(s, v, "$", 0)
}

func (vd Validator) valid(s *Schema, v any, path string, depth int) (bool, string) {
	if depth > 200 {
		return false, "reference validator: too deep"
	}
	if s == nil {
		return true, ""
	}
	if s.Ref != "" {
		t := vd.C[s.Ref]
		if t == nil {
			return false, "dangling ref " + s.Ref
		}
		return vd.valid(t, v, path, depth+1)
	}
	if v == nil && s.Nullable {
		return true, ""
	}
	if s.Type != "" {
		tn := typeName(v)
		ok := tn == s.Type || (s.Type == "number" && tn == "integer")
		if !ok {
			return false, fmt.Sprintf("%s: type %s, want %s", path, tn, s.Type)
		}
	}
	if s.Enum != nil {
		found := false
		for _, e := range s.Enum {
			ev, err := ParseJSON(e)
			if err == nil && DeepEqualJSON(ev, v) {
				found = true
				break
			}
		}
		if !found {
			return false, path + ": not in enum"
		}
	}
	switch x := v.(type) {
	case json.Number:
		r, ok := ratOf(x)
		if !ok {
			return false, path + ": number out of the reference's range"
		}
		if vd.Float64Numbers && s.Type == "number" {
			if f, err := strconv.ParseFloat(string(x), 64); err == nil && !math.IsInf(f, 0) {
				r = new(big.Rat).SetFloat64(f)
			}
		}
		if s.Min != "" {
			m, _ := ratOf(json.Number(s.Min))
			m = vd.bound(s, s.Min, m)
			c := r.Cmp(m)
			if c < 0 || (c == 0 && s.ExclMin) {
				return false, path + ": below minimum"
			}
		}
		if s.Max != "" {
			m, _ := ratOf(json.Number(s.Max))
			m = vd.bound(s, s.Max, m)
			c := r.Cmp(m)
			if c > 0 || (c == 0 && s.ExclMax) {
				return false, path + ": above maximum"
			}
		}
		if s.MultipleOf != "" {
			m, _ := ratOf(json.Number(s.MultipleOf))
			if m.Sign() != 0 {
				q := new(big.Rat).Quo(r, m)
				if !q.IsInt() {
					return false, path + ": not a multiple"
				}
			}
		}
	case string:
		n := utf8.RuneCountInString(x)
		if s.MinLen != nil && n < *s.MinLen {
			return false, path + ": shorter than minLength"
		}
		if s.MaxLen != nil && n > *s.MaxLen {
			return false, path + ": longer than maxLength"
		}
		if s.Pattern != "" {
			re := patternCache[s.Pattern]
			if re == nil {
				re = regexp.MustCompile(s.Pattern)
				patternCache[s.Pattern] = re
			}
			if !re.MatchString(x) {
				return false, path + ": pattern mismatch"
			}
		}
	case []any:
		if s.MinItems != nil && len(x) < *s.MinItems {
			return false, path + ": fewer than minItems"
		}
		if s.MaxItems != nil && len(x) > *s.MaxItems {
			return false, path + ": more than maxItems"
		}
		if s.Unique {
			for i := range x {
				for j := i + 1; j < len(x); j++ {
					if DeepEqualJSON(x[i], x[j]) {
						return false, path + ": duplicate items"
					}
				}
			}
		}
		if s.Items != nil {
			for i, e := range x {
				if ok, why := vd.valid(s.Items, e, fmt.Sprintf("%s[%d]", path, i), depth+1); !ok {
					return false, why
				}
			}
		}
	case map[string]any:
		if s.MinProps != nil && len(x) < *s.MinProps {
			return false, path + ": fewer than minProperties"
		}
		if s.MaxProps != nil && len(x) > *s.MaxProps {
			return false, path + ": more than maxProperties"
		}
		for _, name := range s.ExtraRequired {
			if _, present := x[name]; !present {
				return false, path + ": missing required " + name
			}
		}
		declared := map[string]bool{}
		for _, p := range s.Props {
			declared[p.Name] = true
			pv, present := x[p.Name]
			if !present {
				if p.Required {
					return false, path + ": missing required " + p.Name
				}
				continue
			}
			if ok, why := vd.valid(p.Schema, pv, path+"."+p.Name, depth+1); !ok {
				return false, why
			}
		}
		keys := make([]string, 0, len(x))
		for k := range x {
			keys = append(keys, k)
		}
		sort.Strings(keys)
		for _, k := range keys {
			if declared[k] {
				continue
			}
			if s.AddPropsBool != nil && !*s.AddPropsBool {
				return false, path + ": additional property " + k
			}
			if s.AddProps != nil {
				if ok, why := vd.valid(s.AddProps, x[k], path+"."+k, depth+1); !ok {
					return false, why
				}
			}
		}
	}
	for _, a := range s.AllOf {
		if ok, why := vd.valid(a, v, path, depth+1); !ok {
			return false, why
		}
	}
	if len(s.AnyOf) > 0 {
		any := false
		for _, a := range s.AnyOf {
			if ok, _ := vd.valid(a, v, path, depth+1); ok {
				any = true
				break
			}
		}
		if !any {
			return false, path + ": no anyOf branch matches"
		}
	}
	if len(s.OneOf) > 0 {
		n := 0
		for _, a := range s.OneOf {
			if ok, _ := vd.valid(a, v, path, depth+1); ok {
				n++
			}
		}
		if n != 1 {
			return false, fmt.Sprintf("%s: %d oneOf branches match", path, n)
		}
	}
	return true, ""
}

// bound: in Float64Numbers mode the bounds of a "number" schema are doubles too (0.1 as an instance and
// 0.1 as a maximum are the same double; as exact quantities the double 0.1 exceeds the decimal 0.1).
func (vd Validator) bound(s *Schema, text string, exact *big.Rat) *big.Rat {
	if !vd.Float64Numbers || s.Type != "number" {
		return exact
	}
	if f, err := strconv.ParseFloat(text, 64); err == nil && !math.IsInf(f, 0) {
		return new(big.Rat).SetFloat64(f)
	}
	return exact
}
