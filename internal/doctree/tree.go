// Package doctree is an ordered document tree (the JSON data model with member
// order and number text kept) together with readers (JSON via encoding/json
// tokens, YAML via gopkg.in/yaml.v3 nodes) and INDEPENDENT emitters that spell
// one tree in many ways (JSON compact/indented/odd whitespace, YAML block/flow/
// mixed, comments, quoting styles, anchors/aliases, merge keys).
//
// Nothing here calls go-faster/yaml, yaml.v3's encoder or ghodss/yaml to emit
// text: the emitters are written from the JSON (RFC 8259) and YAML 1.2 grammars
// and are deliberately conservative (when in doubt, quote). yaml.v3 and
// encoding/json are used only to READ documents (corpus loading and the
// "every spelling reads back as the same tree" precondition).
package doctree

import (
	"bytes"
	"encoding/json"
	"fmt"
	"io"
	"strconv"
	"strings"
)

// Kind of a node.
type Kind uint8

const (
	Null Kind = iota
	Bool
	Num // S holds the number's source text (JSON number syntax)
	Str // S holds the string value
	Arr // A holds the elements
	Obj // K/V hold the members in document order
)

func (k Kind) String() string {
	return [...]string{"null", "bool", "number", "string", "array", "object"}[k]
}

// Node is one value of the ordered tree.
type Node struct {
	Kind Kind
	B    bool
	S    string
	A    []*Node
	K    []string
	V    []*Node
}

func NewNull() *Node           { return &Node{Kind: Null} }
func NewBool(b bool) *Node     { return &Node{Kind: Bool, B: b} }
func NewNum(text string) *Node { return &Node{Kind: Num, S: text} }
func NewStr(s string) *Node    { return &Node{Kind: Str, S: s} }
func NewArr(el ...*Node) *Node { return &Node{Kind: Arr, A: el} }
func NewObj() *Node            { return &Node{Kind: Obj} }

// Set appends a member (no de-duplication: documents may repeat keys) and
// returns the receiver for chaining.
func (n *Node) Set(key string, v *Node) *Node {
	n.K = append(n.K, key)
	n.V = append(n.V, v)
	return n
}

// Get returns the first member called key, or nil.
func (n *Node) Get(key string) *Node {
	if n == nil || n.Kind != Obj {
		return nil
	}
	for i, k := range n.K {
		if k == key {
			return n.V[i]
		}
	}
	return nil
}

// Equal is ordered deep equality; numbers compare by text.
func Equal(a, b *Node) bool {
	if a == nil || b == nil {
		return a == b
	}
	if a.Kind != b.Kind {
		return false
	}
	switch a.Kind {
	case Null:
		return true
	case Bool:
		return a.B == b.B
	case Num, Str:
		return a.S == b.S
	case Arr:
		if len(a.A) != len(b.A) {
			return false
		}
		for i := range a.A {
			if !Equal(a.A[i], b.A[i]) {
				return false
			}
		}
		return true
	default:
		if len(a.K) != len(b.K) {
			return false
		}
		for i := range a.K {
			if a.K[i] != b.K[i] || !Equal(a.V[i], b.V[i]) {
				return false
			}
		}
		return true
	}
}

// Diff describes the first difference between two trees ("" when equal).
func Diff(a, b *Node) string { return diff(a, b, "") }

func diff(a, b *Node, path string) string {
	if a == nil || b == nil {
		if a == b {
			return ""
		}
		return path + ": one side missing"
	}
	if a.Kind != b.Kind {
		return fmt.Sprintf("%s: %s %s vs %s %s", path, a.Kind, clip(a.S), b.Kind, clip(b.S))
	}
	switch a.Kind {
	case Bool:
		if a.B != b.B {
			return fmt.Sprintf("%s: %v vs %v", path, a.B, b.B)
		}
	case Num, Str:
		if a.S != b.S {
			return fmt.Sprintf("%s: %s %q vs %q", path, a.Kind, clip(a.S), clip(b.S))
		}
	case Arr:
		if len(a.A) != len(b.A) {
			return fmt.Sprintf("%s: array length %d vs %d", path, len(a.A), len(b.A))
		}
		for i := range a.A {
			if d := diff(a.A[i], b.A[i], path+"/"+strconv.Itoa(i)); d != "" {
				return d
			}
		}
	case Obj:
		for i := range a.K {
			if i >= len(b.K) {
				break
			}
			if a.K[i] != b.K[i] {
				return fmt.Sprintf("%s: member %d is %q vs %q", path, i, clip(a.K[i]), clip(b.K[i]))
			}
			if d := diff(a.V[i], b.V[i], path+"/"+a.K[i]); d != "" {
				return d
			}
		}
		if len(a.K) != len(b.K) {
			return fmt.Sprintf("%s: object size %d vs %d", path, len(a.K), len(b.K))
		}
	}
	return ""
}

func clip(s string) string {
	if len(s) > 60 {
		return s[:60] + "…"
	}
	return s
}

// Count returns the number of nodes.
func (n *Node) Count() int {
	c := 1
	for _, x := range n.A {
		c += x.Count()
	}
	for _, x := range n.V {
		c += x.Count()
	}
	return c
}

// Walk visits every node with the key path that leads to it.
func (n *Node) Walk(fn func(path []string, n *Node)) { n.walk(nil, fn) }

func (n *Node) walk(path []string, fn func([]string, *Node)) {
	fn(path, n)
	for i, x := range n.A {
		x.walk(append(path, strconv.Itoa(i)), fn)
	}
	for i, x := range n.V {
		x.walk(append(path, n.K[i]), fn)
	}
}

// ---- JSON reader -------------------------------------------------------------

// ParseJSON reads one JSON text keeping member order, repeated members and the
// source text of numbers. A leading UTF-8 BOM is not accepted (RFC 8259 §8.1).
func ParseJSON(data []byte) (*Node, error) {
	dec := json.NewDecoder(bytes.NewReader(data))
	dec.UseNumber()
	n, err := readJSON(dec)
	if err != nil {
		return nil, err
	}
	if _, err := dec.Token(); err != io.EOF {
		return nil, fmt.Errorf("trailing data after JSON value")
	}
	return n, nil
}

func readJSON(dec *json.Decoder) (*Node, error) {
	tok, err := dec.Token()
	if err != nil {
		return nil, err
	}
	switch t := tok.(type) {
	case nil:
		return NewNull(), nil
	case bool:
		return NewBool(t), nil
	case json.Number:
		return NewNum(string(t)), nil
	case string:
		return NewStr(t), nil
	case json.Delim:
		switch t {
		case '[':
			n := &Node{Kind: Arr}
			for dec.More() {
				el, err := readJSON(dec)
				if err != nil {
					return nil, err
				}
				n.A = append(n.A, el)
			}
			if _, err := dec.Token(); err != nil {
				return nil, err
			}
			return n, nil
		case '{':
			n := &Node{Kind: Obj}
			for dec.More() {
				kt, err := dec.Token()
				if err != nil {
					return nil, err
				}
				k, ok := kt.(string)
				if !ok {
					return nil, fmt.Errorf("object key is %T", kt)
				}
				v, err := readJSON(dec)
				if err != nil {
					return nil, err
				}
				n.K = append(n.K, k)
				n.V = append(n.V, v)
			}
			if _, err := dec.Token(); err != nil {
				return nil, err
			}
			return n, nil
		}
	}
	return nil, fmt.Errorf("unexpected token %v", tok)
}

// ValidJSONNumber reports whether s matches the RFC 8259 number grammar.
func ValidJSONNumber(s string) bool {
	i := 0
	if i < len(s) && s[i] == '-' {
		i++
	}
	if i >= len(s) {
		return false
	}
	if s[i] == '0' {
		i++
	} else if s[i] >= '1' && s[i] <= '9' {
		for i < len(s) && s[i] >= '0' && s[i] <= '9' {
			i++
		}
	} else {
		return false
	}
	if i < len(s) && s[i] == '.' {
		i++
		j := i
		for i < len(s) && s[i] >= '0' && s[i] <= '9' {
			i++
		}
		if i == j {
			return false
		}
	}
	if i < len(s) && (s[i] == 'e' || s[i] == 'E') {
		i++
		if i < len(s) && (s[i] == '+' || s[i] == '-') {
			i++
		}
		j := i
		for i < len(s) && s[i] >= '0' && s[i] <= '9' {
			i++
		}
		if i == j {
			return false
		}
	}
	return i == len(s)
}

// ---- canonical JSON ------------------------------------------------------------

// CompactJSON is the canonical spelling: no insignificant whitespace, strings
// with the minimal escapes (see jsonString).
func CompactJSON(n *Node) []byte {
	var b bytes.Buffer
	writeCompact(&b, n)
	return b.Bytes()
}

func writeCompact(b *bytes.Buffer, n *Node) {
	switch n.Kind {
	case Null:
		b.WriteString("null")
	case Bool:
		if n.B {
			b.WriteString("true")
		} else {
			b.WriteString("false")
		}
	case Num:
		b.WriteString(n.S)
	case Str:
		jsonString(b, n.S, nil)
	case Arr:
		b.WriteByte('[')
		for i, x := range n.A {
			if i > 0 {
				b.WriteByte(',')
			}
			writeCompact(b, x)
		}
		b.WriteByte(']')
	case Obj:
		b.WriteByte('{')
		for i, x := range n.V {
			if i > 0 {
				b.WriteByte(',')
			}
			jsonString(b, n.K[i], nil)
			b.WriteByte(':')
			writeCompact(b, x)
		}
		b.WriteByte('}')
	}
}

const hexDigits = "0123456789abcdef"

// jsonString writes s as a JSON string. Escaped are: '"', '\\', every code point
// that is not YAML-printable or that YAML 1.1 treats as a line break (C0, DEL,
// C1 incl. NEL, U+2028/9, U+FEFF, U+FFFE/F) — as \uXXXX or the short form —
// so that the text is also a well-formed YAML flow scalar. Code points beyond
// the BMP are always written literally (a JSON surrogate-pair escape is not a
// YAML escape). If opt != nil it may ask for optional escapes of other chars.
func jsonString(b *bytes.Buffer, s string, opt func(r rune) bool) {
	b.WriteByte('"')
	for _, r := range s {
		switch {
		case r == '"':
			b.WriteString(`\"`)
		case r == '\\':
			b.WriteString(`\\`)
		case r == '\n':
			b.WriteString(`\n`)
		case r == '\t':
			b.WriteString(`\t`)
		case r == '\r':
			b.WriteString(`\r`)
		case !plainPrintable(r) && r < 0x10000:
			writeU4(b, r)
		case r < 0x10000 && opt != nil && opt(r):
			if r == '/' {
				b.WriteString(`\/`)
			} else {
				writeU4(b, r)
			}
		default:
			b.WriteRune(r)
		}
	}
	b.WriteByte('"')
}

func writeU4(b *bytes.Buffer, r rune) {
	b.WriteString(`\u`)
	b.WriteByte(hexDigits[r>>12&15])
	b.WriteByte(hexDigits[r>>8&15])
	b.WriteByte(hexDigits[r>>4&15])
	b.WriteByte(hexDigits[r&15])
}

// plainPrintable: code points that may appear literally inside a quoted scalar
// on one line under both YAML 1.1 and 1.2 without being a break, a BOM or a
// non-printable. Space is included, tab and line breaks are not.
func plainPrintable(r rune) bool {
	switch {
	case r >= 0x20 && r <= 0x7e:
		return true
	case r < 0xa0: // C0, DEL, C1 (incl. NEL U+0085)
		return false
	case r == 0x2028 || r == 0x2029 || r == 0xfeff:
		return false
	case r >= 0xd800 && r <= 0xdfff:
		return false
	case r == 0xfffe || r == 0xffff:
		return false
	case r == 0xfffd:
		return true
	case r > 0x10ffff:
		return false
	}
	return true
}

// String renders the tree as compact JSON (debugging aid).
func (n *Node) String() string { return string(CompactJSON(n)) }

// Clone makes a deep copy.
func (n *Node) Clone() *Node {
	if n == nil {
		return nil
	}
	c := &Node{Kind: n.Kind, B: n.B, S: n.S}
	if n.A != nil {
		c.A = make([]*Node, len(n.A))
		for i, x := range n.A {
			c.A[i] = x.Clone()
		}
	}
	if n.K != nil {
		c.K = append([]string(nil), n.K...)
		c.V = make([]*Node, len(n.V))
		for i, x := range n.V {
			c.V[i] = x.Clone()
		}
	}
	return c
}

// PathString joins a path for messages.
func PathString(p []string) string { return "/" + strings.Join(p, "/") }
