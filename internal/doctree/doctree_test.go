package doctree

import (
	"strings"
	"testing"

	"pgregory.net/rapid"
)

// Self-test of the emitters: every spelling of a random tree must read back
// (yaml.v3, and encoding/json for the JSON classes) as the same ordered tree.

var hostile = []string{
	"yes", "no", "on", "off", "y", "n", "~", "null", "true", "0x1F", "0o17", "1e3", "12:30", ".inf", ".nan", "1_000", "007",
	"123456789012345678901234567890", "2001-01-01", "", "a: b", "a #b", "- a", "*a", "&a", "!t", "%d", "@x", "`b`", "'q'", "\"dq\"",
	"line1\nline2", "line1\nline2\n", "tab\there", "üñí", "smile 😀", "trail ", " lead", "{a}", "[a]", "a,b", "#hash", "?", "|", ">", "-",
	"---", "...", "a:", ":a", "\\n", "<<", "=", "a\u0085b", "a\u2028b", "nb\u00a0sp", "del\x7f", "bom\ufeff", "\u0000nul", "cr\rlf", "http://x/y#z",
	"key: [1, 2]", "plain", "two words", "a/b", "$ref", "#/components/schemas/X", "x-y", "A_b", "multi\n\nline\nmore", "a\\", "it's",
}

var pool []*Node

func drawTree(t *rapid.T, depth int) *Node {
	n := drawTree1(t, depth)
	pool = append(pool, n)
	return n
}

func drawTree1(t *rapid.T, depth int) *Node {
	k := rapid.IntRange(0, 11).Draw(t, "kind")
	if k >= 10 {
		if len(pool) > 0 {
			return pool[rapid.IntRange(0, len(pool)-1).Draw(t, "reuse")].Clone()
		}
		k = 8
	}
	if depth >= 4 && k >= 6 {
		k = 3
	}
	switch k {
	case 0:
		return NewNull()
	case 1:
		return NewBool(rapid.Bool().Draw(t, "b"))
	case 2:
		return NewNum(rapid.SampledFrom([]string{"0", "1", "-1", "1.0", "1e2", "-0", "1E+2", "12345678901234567890", "0.5", "1.5e-3"}).Draw(t, "n"))
	case 3, 4:
		return NewStr(rapid.SampledFrom(hostile).Draw(t, "s"))
	case 5:
		return NewStr(rapid.String().Draw(t, "rs"))
	case 6, 7:
		n := &Node{Kind: Arr}
		for i, c := 0, rapid.IntRange(0, 4).Draw(t, "len"); i < c; i++ {
			n.A = append(n.A, drawTree(t, depth+1))
		}
		return n
	default:
		n := &Node{Kind: Obj}
		seen := map[string]bool{}
		for i, c := 0, rapid.IntRange(0, 5).Draw(t, "len"); i < c; i++ {
			key := rapid.SampledFrom(hostile).Draw(t, "k")
			if seen[key] || key == "<<" {
				continue
			}
			seen[key] = true
			n.K = append(n.K, key)
			n.V = append(n.V, drawTree(t, depth+1))
		}
		return n
	}
}

func drawAnyStyle(t *rapid.T) Style {
	pm := func(l string) int { return rapid.SampledFrom([]int{0, 60, 300, 1000}).Draw(t, l) }
	st := Style{
		Class:  rapid.SampledFrom([]string{"json-compact", "json-indent", "json-odd", "yaml-block", "yaml-flow", "yaml-mixed"}).Draw(t, "class"),
		Indent: rapid.IntRange(0, 9).Draw(t, "indent"),
		Seed:   rapid.Uint64().Draw(t, "seed"),
		CRLF:   rapid.Bool().Draw(t, "crlf"),
	}
	st.SeqIndentless = rapid.Bool().Draw(t, "il")
	st.DocStart = rapid.Bool().Draw(t, "ds")
	st.DocEnd = rapid.Bool().Draw(t, "de")
	st.BOM = rapid.Bool().Draw(t, "bom")
	st.FlowPM, st.FlowBreakPM, st.CompactPM, st.ExplicitPM = pm("flow"), pm("fb"), pm("compact"), pm("explicit")
	st.CommentPM, st.TrailPM, st.BlankPM = pm("comment"), pm("trail"), pm("blank")
	st.PlainPM, st.SinglePM, st.LiteralPM, st.KeyPlainPM, st.KeySinglePM = pm("plain"), pm("single"), pm("literal"), pm("kp"), pm("ks")
	st.EscapePM, st.NullAltPM, st.BoolAltPM, st.JSONKeyPM = pm("esc"), pm("null"), pm("bool"), pm("jk")
	st.AliasPM, st.ScalarAliasPM, st.MergePM = pm("alias"), pm("salias"), pm("merge")
	st.YAML11PM = pm("y11")
	st.JSONEscapePM = rapid.SampledFrom([]int{0, 100}).Draw(t, "je")
	return st
}

func readBackSelf(tree *Node, text []byte, st Style, used Used) string {
	if st.IsJSON() {
		got, err := ParseJSON(text)
		if err != nil {
			return "encoding/json: " + err.Error()
		}
		if d := Diff(tree, got); d != "" {
			return "encoding/json: " + d
		}
		if used.JSONOnly > 0 {
			return ""
		}
	}
	got, err := ParseYAML(text, YAMLOptions{Strict: true})
	if err != nil {
		return "yaml.v3: " + err.Error()
	}
	if d := Diff(tree, got); d != "" {
		return "yaml.v3: " + d
	}
	return ""
}

func TestEmittersReadBack(t *testing.T) {
	rapid.Check(t, func(rt *rapid.T) {
		pool = nil
		tree := drawTree(rt, 0)
		if tree.Kind != Obj && tree.Kind != Arr {
			tree = NewObj().Set("root", tree).Set("again", drawTree(rt, 1))
		}
		st := drawAnyStyle(rt)
		text, used := Emit(tree, st)
		if why := readBackSelf(tree, text, st, used); why != "" {
			rt.Fatalf("%s\nstyle %+v\ntree %s\ntext:\n%s", why, st, tree, text)
		}
	})
}

func TestPlainSafeIsConservative(t *testing.T) {
	// every string declared plain-safe must come back as the same !!str when
	// written plain as a block value, a flow value and a key
	rapid.Check(t, func(rt *rapid.T) {
		s := rapid.OneOf(rapid.SampledFrom(hostile), rapid.String(), rapid.StringMatching(`[ -~]{1,8}`)).Draw(rt, "s")
		for _, flow := range []bool{false, true} {
			if !PlainSafe(s, flow, true) {
				continue
			}
			var text string
			if flow {
				text = "{" + s + ": [" + s + ", " + s + "]}\n"
			} else {
				text = s + ":\n  - " + s + "\n  - k: " + s + "\n"
			}
			want := NewObj().Set(s, NewArr(NewStr(s), NewStr(s)))
			if !flow {
				want = NewObj().Set(s, NewArr(NewStr(s), NewObj().Set("k", NewStr(s))))
			}
			got, err := ParseYAML([]byte(text), YAMLOptions{Strict: true})
			if err != nil {
				rt.Fatalf("%q flow=%v: %v\n%s", s, flow, err, text)
			}
			if d := Diff(want, got); d != "" {
				rt.Fatalf("%q flow=%v: %s\n%s", s, flow, d, text)
			}
		}
	})
}

func TestReservedWordsNotPlain(t *testing.T) {
	for _, s := range []string{"yes", "No", "ON", "off", "y", "N", "~", "null", "NULL", "true", "False", ".inf", ".NaN", "<<", "=", "1", "-1", "+1", "1.0", ".5", "1e3", "0x1F", "0o17", "0b1", "1_000", "007", "12:30", "2001-01-01", "1.", "", " a", "a ", "a: b", "a #b", "- a", "#a", "a:", "---", "...x", "-", "?", "[a", "{a", "*a", "&a", "!a", "|a", ">a", "'a", "\"a", "%a", "@a", "`a"} {
		if PlainSafe(s, false, false) {
			t.Errorf("PlainSafe(%q) = true", s)
		}
	}
	for _, s := range []string{"abc", "a b", "a-b", "a_b", "x/y", "$ref", "a.b", "it's", "a#b", "http://x", "a&b", "v1.0.0", "3rd", "üñí"} {
		if !PlainSafe(s, false, false) {
			t.Errorf("PlainSafe(%q) = false", s)
		}
	}
	if strings.Contains("", "x") {
		t.Fatal()
	}
}
