package doctree

import (
	"strings"
	"unicode"
)

// ---- which strings may be written as plain (unquoted) YAML scalars --------------
//
// PlainSafe is deliberately conservative: it answers true only for strings
// that (a) need no quoting syntactically in the given context and (b) resolve
// to a string under the YAML 1.1 type repository (bool/null/int/float/
// timestamp/merge/value, incl. y/n/on/off, sexagesimal, 0o/0x/0b, 1_000) AND
// under the YAML 1.2 core schema. Anything that merely looks like a number,
// a date or a reserved word is refused ("when in doubt, quote").

// PlainSafe reports whether s can be written plain. flow: inside a flow
// collection; key: as an implicit mapping key.
func PlainSafe(s string, flow, key bool) bool {
	if s == "" {
		return false
	}
	if key && len(s) > 120 {
		return false
	}
	if !plainSyntaxOK(s, flow) {
		return false
	}
	if reservedWord(s) || numberish(s) {
		return false
	}
	return true
}

func asciiLetter(c rune) bool { return c >= 'a' && c <= 'z' || c >= 'A' && c <= 'Z' }
func asciiDigit(c rune) bool  { return c >= '0' && c <= '9' }

// plainUnicode: non-ASCII code points allowed inside plain scalars.
func plainUnicode(r rune) bool {
	if r < 0xa0 || !plainPrintable(r) {
		return false
	}
	if unicode.IsSpace(r) || r == 0xa0 {
		return false
	}
	return unicode.IsLetter(r) || unicode.IsNumber(r) || unicode.IsMark(r) || unicode.IsSymbol(r) || unicode.IsPunct(r)
}

func plainSyntaxOK(s string, flow bool) bool {
	rs := []rune(s)
	// first character
	switch c := rs[0]; {
	case asciiLetter(c), asciiDigit(c), c == '_', c == '/', c == '$', c == '(', c == '^', c == ';', c == '<':
	case c == '.' || c == '+':
		if len(rs) < 2 || !asciiLetter(rs[1]) {
			return false
		}
	case c >= 0x80 && plainUnicode(c):
	default:
		return false
	}
	if strings.HasPrefix(s, "---") || strings.HasPrefix(s, "...") {
		return false
	}
	last := rs[len(rs)-1]
	if last == ' ' || last == ':' {
		return false
	}
	for i, c := range rs {
		switch {
		case asciiLetter(c), asciiDigit(c):
		case c == ' ':
		case c == '#':
			if i == 0 || rs[i-1] == ' ' {
				return false
			}
		case c == ':':
			if flow || i+1 >= len(rs) {
				return false
			}
			if n := rs[i+1]; !(asciiLetter(n) || asciiDigit(n) || n == '/') {
				return false
			}
		case c == ',' || c == '[' || c == ']' || c == '{' || c == '}' || c == '?':
			if flow {
				return false
			}
		case strings.ContainsRune("_-./+()$;=~^<>|*&!%@'\"`\\", c):
		case c >= 0x80:
			if !plainUnicode(c) {
				return false
			}
		default:
			return false // control characters, tab, DEL
		}
	}
	return true
}

func reservedWord(s string) bool {
	switch strings.ToLower(s) {
	case "y", "n", "yes", "no", "on", "off", "true", "false", "null", "~", "nan", "inf", ".nan", ".inf", "<<", "=":
		return true
	}
	return false
}

// numberish: starts like a number and consists only of characters that occur in
// some YAML 1.1/1.2 number, sexagesimal or timestamp spelling.
func numberish(s string) bool {
	c := s[0]
	startsLikeNumber := c >= '0' && c <= '9'
	if (c == '+' || c == '-' || c == '.') && len(s) > 1 {
		d := s[1]
		startsLikeNumber = d >= '0' && d <= '9' || d == '.'
	}
	if !startsLikeNumber {
		return false
	}
	for i := 0; i < len(s); i++ {
		if !strings.ContainsRune("0123456789abcdefABCDEFxXoO_.:+-eE TtZz", rune(s[i])) {
			return false
		}
	}
	return true
}

// YAML11Only reports whether s — written plain — is a string for the YAML 1.2
// core schema (and for yaml.v3-style resolvers) but NOT a string for YAML 1.1:
// the booleans y/n/yes/no/on/off, sexagesimal integers (12:30) and "=".
// Such scalars are emitted plain only in a separately labelled family.
func YAML11Only(s string) bool {
	switch s {
	case "y", "Y", "n", "N", "yes", "Yes", "YES", "no", "No", "NO", "on", "On", "ON", "off", "Off", "OFF", "=":
		return true
	}
	return sexagesimal(s)
}

// sexagesimal: [1-9][0-9]*(:[0-5]?[0-9])+ (the YAML 1.1 base-60 integer).
func sexagesimal(s string) bool {
	i := 0
	if i >= len(s) || s[i] < '1' || s[i] > '9' {
		return false
	}
	for i < len(s) && s[i] >= '0' && s[i] <= '9' {
		i++
	}
	groups := 0
	for i < len(s) && s[i] == ':' {
		i++
		j := i
		for i < len(s) && s[i] >= '0' && s[i] <= '9' {
			i++
		}
		switch i - j {
		case 1:
		case 2:
			if s[j] > '5' {
				return false
			}
		default:
			return false
		}
		groups++
	}
	return groups > 0 && i == len(s)
}

// PlainDate reports whether s is a YYYY-MM-DD date: a string for YAML 1.2 core,
// a !!timestamp for YAML 1.1 and for yaml.v3-style resolvers.
func PlainDate(s string) bool {
	if len(s) != 10 || s[4] != '-' || s[7] != '-' {
		return false
	}
	for i := 0; i < 10; i++ {
		if i == 4 || i == 7 {
			continue
		}
		if s[i] < '0' || s[i] > '9' {
			return false
		}
	}
	mo := (s[5]-'0')*10 + s[6] - '0'
	d := (s[8]-'0')*10 + s[9] - '0'
	return mo >= 1 && mo <= 12 && d >= 1 && d <= 28
}

// singleQuotable: may be written 'like this' on one line.
func singleQuotable(s string) bool {
	for _, r := range s {
		if !plainPrintable(r) {
			return false
		}
		if r >= 0x80 && (unicode.IsSpace(r) || r == 0xa0) {
			return false
		}
	}
	return true
}

// literalOK: may be written as a literal block scalar ("|" or "|-").
func literalOK(s string) bool {
	if !strings.Contains(s, "\n") || len(s) < 2 {
		return false
	}
	body := s
	if strings.HasSuffix(body, "\n") {
		body = body[:len(body)-1]
	}
	if body == "" || strings.HasSuffix(body, "\n") {
		return false // would need "keep" chomping
	}
	for i, line := range strings.Split(body, "\n") {
		if line == "" {
			if i == 0 {
				return false
			}
			continue
		}
		if line[0] == ' ' || line[0] == '\t' || line[len(line)-1] == ' ' || line[len(line)-1] == '\t' {
			return false
		}
		for _, r := range line {
			if !plainPrintable(r) {
				return false
			}
			if r >= 0x80 && (unicode.IsSpace(r) || r == 0xa0) {
				return false
			}
		}
	}
	return true
}
