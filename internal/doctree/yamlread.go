package doctree

import (
	"fmt"
	"math"
	"strconv"
	"strings"

	yaml3 "gopkg.in/yaml.v3"
)

// YAMLOptions tunes ParseYAML.
type YAMLOptions struct {
	// Strict makes the reader refuse what the emitters of this package never
	// intend to write: mapping keys that are not !!str and plain scalars that
	// yaml.v3 resolves to !!timestamp. It is used by the read-back precondition.
	Strict bool
}

// ParseYAML reads a single-document YAML text with gopkg.in/yaml.v3 into the
// ordered tree. Scalars keep their type through the node's resolved tag
// (!!str → string, !!int/!!float → number with its source text when that is
// valid JSON number syntax, !!bool, !!null; a !!timestamp is the string it was
// written as). Aliases are expanded, merge keys ("<<") are applied with the
// usual semantics: merged members are inserted at the position of the merge
// key, explicit members of the mapping win, earlier merge sources win.
func ParseYAML(data []byte, opt YAMLOptions) (*Node, error) {
	var doc yaml3.Node
	if err := yaml3.Unmarshal(data, &doc); err != nil {
		return nil, err
	}
	if doc.Kind == 0 {
		return nil, fmt.Errorf("empty document")
	}
	root := &doc
	if doc.Kind == yaml3.DocumentNode {
		if len(doc.Content) != 1 {
			return nil, fmt.Errorf("document has %d root nodes", len(doc.Content))
		}
		root = doc.Content[0]
	}
	r := yamlReader{opt: opt, memo: map[*yaml3.Node]*Node{}}
	return r.conv(root, 0)
}

type yamlReader struct {
	opt  YAMLOptions
	memo map[*yaml3.Node]*Node
}

func (r *yamlReader) conv(n *yaml3.Node, depth int) (*Node, error) {
	if depth > 2000 {
		return nil, fmt.Errorf("nesting too deep (alias cycle?)")
	}
	switch n.Kind {
	case yaml3.AliasNode:
		if n.Alias == nil {
			return nil, fmt.Errorf("alias without target at line %d", n.Line)
		}
		if m, ok := r.memo[n.Alias]; ok {
			return m.Clone(), nil
		}
		return r.conv(n.Alias, depth+1)
	case yaml3.ScalarNode:
		return r.scalar(n)
	case yaml3.SequenceNode:
		out := &Node{Kind: Arr, A: make([]*Node, 0, len(n.Content))}
		for _, c := range n.Content {
			x, err := r.conv(c, depth+1)
			if err != nil {
				return nil, err
			}
			out.A = append(out.A, x)
		}
		if n.Anchor != "" {
			r.memo[n] = out
		}
		return out, nil
	case yaml3.MappingNode:
		out, err := r.mapping(n, depth)
		if err != nil {
			return nil, err
		}
		if n.Anchor != "" {
			r.memo[n] = out
		}
		return out, nil
	}
	return nil, fmt.Errorf("unexpected node kind %d at line %d", n.Kind, n.Line)
}

func isMergeKey(k *yaml3.Node) bool {
	return k.Kind == yaml3.ScalarNode && k.Value == "<<" && (k.Tag == "" || k.Tag == "!" || k.ShortTag() == "!!merge")
}

func (r *yamlReader) mapping(n *yaml3.Node, depth int) (*Node, error) {
	if len(n.Content)%2 != 0 {
		return nil, fmt.Errorf("odd mapping content at line %d", n.Line)
	}
	explicit := map[string]bool{}
	hasMerge := false
	for i := 0; i < len(n.Content); i += 2 {
		k := n.Content[i]
		if isMergeKey(k) {
			hasMerge = true
			continue
		}
		ks, err := r.key(k)
		if err != nil {
			return nil, err
		}
		explicit[ks] = true
	}
	out := &Node{Kind: Obj}
	merged := map[string]bool{}
	for i := 0; i < len(n.Content); i += 2 {
		k, v := n.Content[i], n.Content[i+1]
		if hasMerge && isMergeKey(k) {
			var srcs []*yaml3.Node
			t := v
			if t.Kind == yaml3.AliasNode {
				t = t.Alias
			}
			switch {
			case t != nil && t.Kind == yaml3.MappingNode:
				srcs = []*yaml3.Node{v}
			case t != nil && t.Kind == yaml3.SequenceNode:
				srcs = t.Content
			default:
				return nil, fmt.Errorf("merge value is not a mapping or a sequence of mappings at line %d", v.Line)
			}
			for _, s := range srcs {
				m, err := r.conv(s, depth+1)
				if err != nil {
					return nil, err
				}
				if m.Kind != Obj {
					return nil, fmt.Errorf("merge source is not a mapping at line %d", s.Line)
				}
				for j, mk := range m.K {
					if explicit[mk] || merged[mk] {
						continue
					}
					merged[mk] = true
					out.K = append(out.K, mk)
					out.V = append(out.V, m.V[j])
				}
			}
			continue
		}
		ks, err := r.key(k)
		if err != nil {
			return nil, err
		}
		x, err := r.conv(v, depth+1)
		if err != nil {
			return nil, err
		}
		out.K = append(out.K, ks)
		out.V = append(out.V, x)
	}
	return out, nil
}

func (r *yamlReader) key(k *yaml3.Node) (string, error) {
	if k.Kind == yaml3.AliasNode && k.Alias != nil {
		k = k.Alias
	}
	if k.Kind != yaml3.ScalarNode {
		return "", fmt.Errorf("non-scalar mapping key at line %d", k.Line)
	}
	if r.opt.Strict && k.ShortTag() != "!!str" {
		return "", fmt.Errorf("mapping key %q at line %d resolves to %s, not !!str", k.Value, k.Line, k.ShortTag())
	}
	return k.Value, nil
}

func (r *yamlReader) scalar(n *yaml3.Node) (*Node, error) {
	switch tag := n.ShortTag(); tag {
	case "!!str":
		return NewStr(n.Value), nil
	case "!!timestamp":
		if r.opt.Strict {
			return nil, fmt.Errorf("scalar %q at line %d resolves to !!timestamp", n.Value, n.Line)
		}
		return NewStr(n.Value), nil
	case "!!null":
		return NewNull(), nil
	case "!!bool":
		switch strings.ToLower(n.Value) {
		case "true":
			return NewBool(true), nil
		case "false":
			return NewBool(false), nil
		}
		var b bool
		if err := n.Decode(&b); err != nil {
			return nil, err
		}
		return NewBool(b), nil
	case "!!int", "!!float":
		if ValidJSONNumber(n.Value) {
			return NewNum(n.Value), nil
		}
		// a YAML-only number spelling (0x1F, 1_000, +1, .5, 007): take the value
		var v any
		if err := n.Decode(&v); err != nil {
			return nil, err
		}
		var text string
		switch x := v.(type) {
		case int:
			text = strconv.FormatInt(int64(x), 10)
		case int64:
			text = strconv.FormatInt(x, 10)
		case uint64:
			text = strconv.FormatUint(x, 10)
		case uint:
			text = strconv.FormatUint(uint64(x), 10)
		case float64:
			if math.IsInf(x, 0) || math.IsNaN(x) {
				return nil, fmt.Errorf("number %q at line %d has no JSON spelling", n.Value, n.Line)
			}
			text = strconv.FormatFloat(x, 'g', -1, 64)
		default:
			return nil, fmt.Errorf("number %q at line %d decodes to %T", n.Value, n.Line, v)
		}
		if !ValidJSONNumber(text) {
			return nil, fmt.Errorf("number %q at line %d: no JSON spelling (%q)", n.Value, n.Line, text)
		}
		return NewNum(text), nil
	default:
		return nil, fmt.Errorf("unsupported tag %s at line %d", tag, n.Line)
	}
}
