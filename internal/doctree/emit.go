package doctree

import (
	"bytes"
	"fmt"
	"strings"
)

// Style describes one spelling of a document. It is a small JSON-round-
// trippable value (a replay file holds it); every per-node choice is taken
// from a splitmix64 stream seeded with Seed, with probabilities given by the
// *PM (per-mille) knobs, so that shrinking the knobs towards 0 removes the
// corresponding feature from the spelling. All knobs at 0 with Class
// "json-compact" is the canonical spelling.
type Style struct {
	// Class: json-compact | json-indent | json-odd | yaml-block | yaml-flow | yaml-mixed
	Class  string `json:"class"`
	Indent int    `json:"indent,omitempty"` // yaml block: 2..8 (clamped); json-indent: 0 = tab, else spaces
	Seed   uint64 `json:"seed,omitempty"`

	SeqIndentless bool `json:"seq_indentless,omitempty"` // "key:\n- a" instead of "key:\n  - a"
	DocStart      bool `json:"doc_start,omitempty"`      // leading "---"
	DocEnd        bool `json:"doc_end,omitempty"`        // trailing "..."
	CRLF          bool `json:"crlf,omitempty"`           // \r\n line ends
	BOM           bool `json:"bom,omitempty"`            // YAML classes: leading UTF-8 byte order mark

	FlowPM      int `json:"flow_pm,omitempty"`       // yaml-mixed: chance that a collection switches to flow style
	FlowBreakPM int `json:"flow_break_pm,omitempty"` // line break after a ',' inside flow collections
	CompactPM   int `json:"compact_pm,omitempty"`    // "- k: v" / "- - a" compact nesting in block sequences
	ExplicitPM  int `json:"explicit_pm,omitempty"`   // "? key\n: value"

	CommentPM int `json:"comment_pm,omitempty"` // comment line before a block entry
	TrailPM   int `json:"trail_pm,omitempty"`   // trailing comment
	BlankPM   int `json:"blank_pm,omitempty"`   // blank line before a block entry

	PlainPM   int `json:"plain_pm,omitempty"`   // string values: plain when PlainSafe
	SinglePM  int `json:"single_pm,omitempty"`  // single-quoted when possible
	LiteralPM int `json:"literal_pm,omitempty"` // literal block scalar when possible
	KeyPlainPM  int `json:"key_plain_pm,omitempty"`
	KeySinglePM int `json:"key_single_pm,omitempty"`
	EscapePM    int `json:"escape_pm,omitempty"`    // optional escapes inside double-quoted scalars (per character)
	NullAltPM   int `json:"null_alt_pm,omitempty"`  // "~", "Null", "NULL" or empty instead of null
	BoolAltPM   int `json:"bool_alt_pm,omitempty"`  // True/TRUE/False/FALSE
	JSONKeyPM   int `json:"json_key_pm,omitempty"`  // flow: "key":value without the space

	AliasPM       int `json:"alias_pm,omitempty"`        // repeated identical collections: anchor the first, alias later ones
	ScalarAliasPM int `json:"scalar_alias_pm,omitempty"` // same for repeated scalars
	MergePM       int `json:"merge_pm,omitempty"`        // "<<: *a" for mappings that start with the members of an earlier mapping
	// NoAliasUnder: no alias / merge key is used below members with these names
	// (lets a generator keep clear of a known defect shape).
	NoAliasUnder []string `json:"no_alias_under,omitempty"`
	// ProtectRefPaths: a node that a local JSON pointer ("$ref": "#/a/b/c") has to
	// traverse (every node on the path except the target) is never replaced by an
	// alias and never uses a merge key.
	ProtectRefPaths bool `json:"protect_ref_paths,omitempty"`
	// NoMergeIn: no merge key is written directly into the mapping that is the
	// value of a member with one of these names (e.g. "properties").
	NoMergeIn []string `json:"no_merge_in,omitempty"`

	// YAML11PM: chance to write plain a string for which YAML11Only holds
	// (on/off/yes/no/y/n, 12:30, =). DatePM: the same for YYYY-MM-DD strings.
	// Both are 0 in the main family.
	YAML11PM int `json:"yaml11_pm,omitempty"`
	DatePM   int `json:"date_pm,omitempty"`
	// NoYAML11Under: YAML11PM / DatePM do not apply below members with these names.
	NoYAML11Under []string `json:"no_yaml11_under,omitempty"`

	// JSONEscapePM (json-* classes): optional \uXXXX / \/ escapes per character.
	JSONEscapePM int `json:"json_escape_pm,omitempty"`
	// JSONSurrogatePM (json-* classes): write a code point beyond the BMP as a
	// 😀 surrogate pair escape. 0 in the main family.
	JSONSurrogatePM int `json:"json_surrogate_pm,omitempty"`
}

// IsJSON reports whether the class is one of the JSON classes.
func (s Style) IsJSON() bool { return strings.HasPrefix(s.Class, "json") }

// Used tells which features a spelling really contains (for labels and for the
// non-triviality rule): counting is done while emitting.
type Used struct {
	Plain, Single, Double, Literal int
	PlainKeys, SingleKeys, DoubleKeys int
	ExplicitKeys                      int
	Comments, Blank                   int
	BlockMaps, BlockSeqs              int
	FlowMaps, FlowSeqs                int
	Compact                           int
	Anchors, Aliases, ScalarAliases   int
	Merges                            int
	YAML11Plain, DatePlain            int
	NullAlt, BoolAlt                  int
	Escapes, Surrogates               int
	JSONOnly                          int // escapes that are JSON but not YAML 1.1 (\/ and surrogate pairs)
	FlowBreaks                        int
}

// Emit spells the tree.
func Emit(root *Node, st Style) ([]byte, Used) {
	e := &emitter{st: st, rng: rng{st.Seed*0x9e3779b97f4a7c15 + 0x1234567}, nl: "\n"}
	if st.CRLF {
		e.nl = "\r\n"
	}
	switch st.Class {
	case "json-compact", "":
		e.jsonCompact(root)
	case "json-indent":
		e.jsonIndent(root, 0)
		e.buf.WriteString(e.nl)
	case "json-odd":
		e.ws(true)
		e.jsonOdd(root)
		e.ws(true) // outside the root collection a YAML reader is in block context again: no tabs
	default:
		e.yamlDoc(root)
	}
	return e.buf.Bytes(), e.used
}

// ---- PRNG -------------------------------------------------------------------------

type rng struct{ s uint64 }

func (r *rng) next() uint64 {
	r.s += 0x9e3779b97f4a7c15
	z := r.s
	z = (z ^ (z >> 30)) * 0xbf58476d1ce4e5b9
	z = (z ^ (z >> 27)) * 0x94d049bb133111eb
	return z ^ (z >> 31)
}

func (r *rng) intn(n int) int {
	if n <= 1 {
		return 0
	}
	return int(r.next() % uint64(n))
}

// chance is true with probability pm/1000; pm<=0 never consumes randomness in
// a way that matters (the stream advances identically for every pm).
func (r *rng) chance(pm int) bool {
	v := r.intn(1000)
	return v < pm
}

type emitter struct {
	st   Style
	rng  rng
	buf  bytes.Buffer
	nl   string
	used Used

	// aliasing
	hashes      map[*Node]uint64
	counts      map[uint64]int    // occurrences of each subtree hash
	prefixWant  map[uint64]bool   // hashes of proper member prefixes of mappings (merge candidates)
	anchors     map[uint64]string // subtree hash → anchor name, for subtrees already written in full
	nextAnchor  int
	noAlias     int
	noAliasKeys map[string]bool
	noY11       int
	noY11Keys   map[string]bool
	protect     map[*Node]bool
	parentKey   string // name of the member whose value is being written ("" for sequence items / root)

	afterLiteral bool // the previous thing written was a block scalar: no comment/blank insertion
}

// ---- JSON --------------------------------------------------------------------------

func (e *emitter) jsonStr(s string) {
	var opt func(r rune) bool
	if e.st.JSONEscapePM > 0 {
		opt = func(r rune) bool {
			if e.rng.chance(e.st.JSONEscapePM) {
				e.used.Escapes++
				if r == '/' {
					e.used.JSONOnly++
				}
				return true
			}
			return false
		}
	}
	if e.st.JSONSurrogatePM > 0 {
		// split around astral code points
		var b bytes.Buffer
		b.WriteByte('"')
		for _, r := range s {
			if r >= 0x10000 && e.rng.chance(e.st.JSONSurrogatePM) {
				r -= 0x10000
				writeU4(&b, 0xd800+(r>>10))
				writeU4(&b, 0xdc00+(r&0x3ff))
				e.used.Surrogates++
				e.used.JSONOnly++
				continue
			}
			var one bytes.Buffer
			jsonString(&one, string(r), opt)
			b.Write(one.Bytes()[1 : one.Len()-1])
		}
		b.WriteByte('"')
		e.buf.Write(b.Bytes())
		return
	}
	jsonString(&e.buf, s, opt)
}

func (e *emitter) jsonScalar(n *Node) {
	switch n.Kind {
	case Null:
		e.buf.WriteString("null")
	case Bool:
		if n.B {
			e.buf.WriteString("true")
		} else {
			e.buf.WriteString("false")
		}
	case Num:
		e.buf.WriteString(n.S)
	case Str:
		e.jsonStr(n.S)
	}
}

func (e *emitter) jsonCompact(n *Node) {
	switch n.Kind {
	case Arr:
		e.buf.WriteByte('[')
		for i, x := range n.A {
			if i > 0 {
				e.buf.WriteByte(',')
			}
			e.jsonCompact(x)
		}
		e.buf.WriteByte(']')
	case Obj:
		e.buf.WriteByte('{')
		for i, x := range n.V {
			if i > 0 {
				e.buf.WriteByte(',')
			}
			e.jsonStr(n.K[i])
			e.buf.WriteByte(':')
			e.jsonCompact(x)
		}
		e.buf.WriteByte('}')
	default:
		e.jsonScalar(n)
	}
}

func (e *emitter) jsonPad(depth int) {
	if e.st.Indent <= 0 {
		e.buf.WriteString(strings.Repeat("\t", depth))
	} else {
		e.buf.WriteString(strings.Repeat(" ", depth*e.st.Indent))
	}
}

func (e *emitter) jsonIndent(n *Node, depth int) {
	switch n.Kind {
	case Arr:
		if len(n.A) == 0 {
			e.buf.WriteString("[]")
			return
		}
		e.buf.WriteByte('[')
		for i, x := range n.A {
			if i > 0 {
				e.buf.WriteByte(',')
			}
			e.buf.WriteString(e.nl)
			e.jsonPad(depth + 1)
			e.jsonIndent(x, depth+1)
		}
		e.buf.WriteString(e.nl)
		e.jsonPad(depth)
		e.buf.WriteByte(']')
	case Obj:
		if len(n.K) == 0 {
			e.buf.WriteString("{}")
			return
		}
		e.buf.WriteByte('{')
		for i, x := range n.V {
			if i > 0 {
				e.buf.WriteByte(',')
			}
			e.buf.WriteString(e.nl)
			e.jsonPad(depth + 1)
			e.jsonStr(n.K[i])
			e.buf.WriteString(": ")
			e.jsonIndent(x, depth+1)
		}
		e.buf.WriteString(e.nl)
		e.jsonPad(depth)
		e.buf.WriteByte('}')
	default:
		e.jsonScalar(n)
	}
}

// ws writes a random run of JSON whitespace. Before the first token (lead) no
// tab is used: a YAML reader treats a document-initial tab as indentation.
func (e *emitter) ws(lead bool) {
	if !e.rng.chance(400) {
		return
	}
	n := 1 + e.rng.intn(3)
	for i := 0; i < n; i++ {
		switch e.rng.intn(6) {
		case 0, 1:
			e.buf.WriteByte(' ')
		case 2:
			e.buf.WriteString(e.nl)
		case 3:
			if lead {
				e.buf.WriteByte(' ')
			} else {
				e.buf.WriteByte('\t')
			}
		case 4:
			e.buf.WriteString("   ")
		case 5:
			e.buf.WriteString(e.nl + "  ")
		}
	}
}

func (e *emitter) jsonOdd(n *Node) {
	switch n.Kind {
	case Arr:
		e.buf.WriteByte('[')
		e.ws(false)
		for i, x := range n.A {
			if i > 0 {
				e.buf.WriteByte(',')
				e.ws(false)
			}
			e.jsonOdd(x)
			e.ws(false)
		}
		e.buf.WriteByte(']')
	case Obj:
		e.buf.WriteByte('{')
		e.ws(false)
		for i, x := range n.V {
			if i > 0 {
				e.buf.WriteByte(',')
				e.ws(false)
			}
			e.jsonStr(n.K[i])
			// a YAML reader needs ':' on the line of its (implicit) key
			if e.rng.chance(300) {
				e.buf.WriteString([]string{" ", "  ", "\t", " \t "}[e.rng.intn(4)])
			}
			e.buf.WriteByte(':')
			e.ws(false)
			e.jsonOdd(x)
			e.ws(false)
		}
		e.buf.WriteByte('}')
	default:
		e.jsonScalar(n)
	}
}

// ---- subtree hashing (for anchors / aliases / merge keys) ----------------------------

func mix(h, v uint64) uint64 {
	h ^= v + 0x9e3779b97f4a7c15 + (h << 6) + (h >> 2)
	h *= 0xff51afd7ed558ccd
	h ^= h >> 33
	return h
}

func hashString(s string) uint64 {
	h := uint64(14695981039346656037)
	for i := 0; i < len(s); i++ {
		h ^= uint64(s[i])
		h *= 1099511628211
	}
	return h
}

func objFinal(h uint64, n int) uint64 { return mix(mix(h, 0xabcdef), uint64(n)) }

func (e *emitter) hashTree(n *Node) uint64 {
	var h uint64
	switch n.Kind {
	case Null:
		h = 11
	case Bool:
		h = 12
		if n.B {
			h = 13
		}
	case Num:
		h = mix(14, hashString(n.S))
	case Str:
		h = mix(15, hashString(n.S))
	case Arr:
		h = 16
		for _, x := range n.A {
			h = mix(h, e.hashTree(x))
		}
		h = mix(h, uint64(len(n.A)))
	case Obj:
		h = 17
		for i, x := range n.V {
			if i > 0 {
				e.prefixWant[objFinal(h, i)] = true
			}
			h = mix(mix(h, hashString(n.K[i])), e.hashTree(x))
		}
		h = objFinal(h, len(n.K))
	}
	e.hashes[n] = h
	e.counts[h]++
	return h
}

func (e *emitter) aliasing() bool {
	return e.st.AliasPM > 0 || e.st.ScalarAliasPM > 0 || e.st.MergePM > 0
}

// refDecision: how a node is introduced. alias != "" → write "*alias" instead of
// the node; anchor != "" → write "&anchor" before the node.
func (e *emitter) refDecision(n *Node) (alias, anchor string) {
	if e.hashes == nil || e.noAlias > 0 {
		return "", ""
	}
	h := e.hashes[n]
	if e.protect[n] {
		if _, ok := e.anchors[h]; ok {
			return "", "" // would be an alias: write it in full instead
		}
	}
	isColl := n.Kind == Arr && len(n.A) > 0 || n.Kind == Obj && len(n.K) > 0
	isScalar := n.Kind == Str || n.Kind == Num || n.Kind == Bool || n.Kind == Null
	if name, ok := e.anchors[h]; ok {
		pm := 0
		switch {
		case isColl:
			pm = e.st.AliasPM
		case isScalar:
			pm = e.st.ScalarAliasPM
		}
		if e.rng.chance(pm) {
			if isScalar {
				e.used.ScalarAliases++
			}
			e.used.Aliases++
			return name, ""
		}
		return "", ""
	}
	want := false
	switch {
	case isColl && e.counts[h] > 1 && e.st.AliasPM > 0:
		want = e.rng.chance(700)
	case isScalar && e.counts[h] > 1 && e.st.ScalarAliasPM > 0:
		want = e.rng.chance(e.st.ScalarAliasPM)
	}
	if !want && n.Kind == Obj && len(n.K) > 0 && e.st.MergePM > 0 && e.prefixWant[h] {
		want = true
	}
	if want {
		e.nextAnchor++
		name := fmt.Sprintf("a%d", e.nextAnchor)
		if e.rng.chance(300) {
			name = fmt.Sprintf("ref-%d_x", e.nextAnchor)
		}
		e.anchors[h] = name
		e.used.Anchors++
		return "", name
	}
	return "", ""
}

// mergePrefix: if the mapping starts with the members of an already anchored
// mapping, returns that anchor and the number of members it covers.
func (e *emitter) mergePrefix(n *Node) (string, int) {
	if e.hashes == nil || e.st.MergePM <= 0 || e.noAlias > 0 || len(n.K) < 2 {
		return "", 0
	}
	for _, k := range e.st.NoMergeIn {
		if k == e.parentKey && k != "" {
			return "", 0
		}
	}
	if e.protect[n] {
		return "", 0
	}
	// explicit members must not repeat a merged key (the merged one would lose)
	best, bestK := "", 0
	h := uint64(17)
	seen := map[string]bool{}
	dup := false
	for i := range n.K {
		if seen[n.K[i]] {
			dup = true
		}
		seen[n.K[i]] = true
		if n.K[i] == "<<" {
			return "", 0
		}
	}
	if dup {
		return "", 0
	}
	for i := 0; i < len(n.K)-1; i++ {
		h = mix(mix(h, hashString(n.K[i])), e.hashes[n.V[i]])
		if name, ok := e.anchors[objFinal(h, i+1)]; ok {
			best, bestK = name, i+1
		}
	}
	if best == "" || !e.rng.chance(e.st.MergePM) {
		return "", 0
	}
	e.used.Merges++
	return best, bestK
}

func (e *emitter) enterKey(k string) func() {
	a := e.noAliasKeys != nil && e.noAliasKeys[k]
	y := e.noY11Keys != nil && e.noY11Keys[k]
	if !a && !y {
		return func() {}
	}
	if a {
		e.noAlias++
	}
	if y {
		e.noY11++
	}
	return func() {
		if a {
			e.noAlias--
		}
		if y {
			e.noY11--
		}
	}
}

// ---- YAML ------------------------------------------------------------------------

func (e *emitter) yamlDoc(root *Node) {
	if e.aliasing() {
		e.hashes = map[*Node]uint64{}
		e.counts = map[uint64]int{}
		e.prefixWant = map[uint64]bool{}
		e.anchors = map[uint64]string{}
		e.hashTree(root)
		if e.st.ProtectRefPaths {
			e.protect = refPathNodes(root)
		}
		if len(e.st.NoAliasUnder) > 0 {
			e.noAliasKeys = map[string]bool{}
			for _, k := range e.st.NoAliasUnder {
				e.noAliasKeys[k] = true
			}
		}
	}
	if len(e.st.NoYAML11Under) > 0 {
		e.noY11Keys = map[string]bool{}
		for _, k := range e.st.NoYAML11Under {
			e.noY11Keys[k] = true
		}
	}
	if e.st.Indent < 2 {
		e.st.Indent = 2
	}
	if e.st.Indent > 8 {
		e.st.Indent = 8
	}
	if e.st.BOM {
		e.buf.WriteString("\xef\xbb\xbf")
	}
	if e.st.DocStart {
		e.buf.WriteString("---")
		e.trailComment()
		e.buf.WriteString(e.nl)
	}
	e.interstitial(0)
	flowRoot := e.st.Class == "yaml-flow"
	isColl := root.Kind == Arr && len(root.A) > 0 || root.Kind == Obj && len(root.K) > 0
	switch {
	case !isColl || flowRoot:
		e.flow(root, 0, 0)
		e.trailComment()
		e.buf.WriteString(e.nl)
	case root.Kind == Obj:
		e.blockMap(root, 0, false, 0)
	default:
		e.blockSeq(root, 0, false, 0)
	}
	e.interstitial(0) // (writes nothing right after a block scalar)
	if e.st.DocEnd {
		e.buf.WriteString("..." + e.nl)
	}
}

var commentTexts = []string{
	"", " comment", " key: value", " - item", " {a: [1, 2]}", " \"quoted\" 'text'", "# double", " TODO: x # y",
	" *alias &anchor !tag", " üñí©ødé", " |", " >-", " ---", " ...", "\t tab", " %YAML 1.1", " <<: *x",
}

func (e *emitter) commentText() string {
	return "#" + commentTexts[e.rng.intn(len(commentTexts))]
}

// interstitial: blank lines and comment lines between block entries.
func (e *emitter) interstitial(ind int) {
	if e.afterLiteral {
		// keep the stream aligned but write nothing
		e.rng.chance(0)
		e.rng.chance(0)
		return
	}
	if e.rng.chance(e.st.BlankPM) {
		n := 1 + e.rng.intn(2)
		for i := 0; i < n; i++ {
			if e.rng.chance(150) {
				e.buf.WriteString(strings.Repeat(" ", 1+e.rng.intn(4)))
			}
			e.buf.WriteString(e.nl)
			e.used.Blank++
		}
	}
	if e.rng.chance(e.st.CommentPM) {
		n := 1 + e.rng.intn(2)
		for i := 0; i < n; i++ {
			col := ind
			switch e.rng.intn(4) {
			case 0:
				col = 0
			case 1:
				col = ind + e.rng.intn(5)
			}
			e.buf.WriteString(strings.Repeat(" ", col))
			e.buf.WriteString(e.commentText())
			e.buf.WriteString(e.nl)
			e.used.Comments++
		}
	}
}

func (e *emitter) trailComment() {
	if e.rng.chance(e.st.TrailPM) {
		e.buf.WriteString(strings.Repeat(" ", 1+e.rng.intn(3)))
		e.buf.WriteString(e.commentText())
		e.used.Comments++
	}
}

func (e *emitter) pad(n int) { e.buf.WriteString(strings.Repeat(" ", n)) }

func (e *emitter) wantFlow(n *Node, depth int) bool {
	switch e.st.Class {
	case "yaml-flow":
		return true
	case "yaml-mixed":
		return e.rng.chance(e.st.FlowPM)
	}
	return false
}

// blockMap writes the members of a block mapping whose keys sit at column ind.
// inlineFirst: the cursor already is at column ind on a started line ("- ").
func (e *emitter) blockMap(n *Node, ind int, inlineFirst bool, depth int) {
	e.used.BlockMaps++
	start := 0
	mergeName, mergeK := e.mergePrefix(n)
	first := true
	lead := func() {
		if !(first && inlineFirst) {
			e.interstitial(ind)
			e.pad(ind)
		}
		first = false
		e.afterLiteral = false
	}
	if mergeName != "" {
		lead()
		e.buf.WriteString("<<: *" + mergeName)
		e.trailComment()
		e.buf.WriteString(e.nl)
		start = mergeK
	}
	for i := start; i < len(n.K); i++ {
		lead()
		leave := e.enterKey(n.K[i])
		e.parentKey = n.K[i]
		if !(i == start && inlineFirst) && e.rng.chance(e.st.ExplicitPM) {
			e.used.ExplicitKeys++
			e.buf.WriteString("? ")
			e.buf.WriteString(e.keyText(n.K[i], false))
			e.trailComment()
			e.buf.WriteString(e.nl)
			e.pad(ind)
			e.buf.WriteString(":")
			e.afterIndicator(n.V[i], ind, false, true, depth+1)
		} else {
			e.buf.WriteString(e.keyText(n.K[i], false))
			e.buf.WriteString(":")
			e.afterIndicator(n.V[i], ind, false, false, depth+1)
		}
		leave()
	}
}

func (e *emitter) blockSeq(n *Node, ind int, inlineFirst bool, depth int) {
	e.used.BlockSeqs++
	for i, x := range n.A {
		if !(i == 0 && inlineFirst) {
			e.interstitial(ind)
			e.pad(ind)
		}
		e.afterLiteral = false
		e.buf.WriteString("-")
		e.parentKey = ""
		e.afterIndicator(x, ind, true, false, depth+1)
	}
}

// afterIndicator writes a node right after "key:" or "-" (or the ":" of an
// explicit key); ind is the column of that key / dash. It ends the line.
func (e *emitter) afterIndicator(n *Node, ind int, fromSeq, explicit bool, depth int) {
	alias, anchor := e.refDecision(n)
	if alias != "" {
		e.buf.WriteString(" *" + alias)
		e.trailComment()
		e.buf.WriteString(e.nl)
		return
	}
	if anchor != "" {
		e.buf.WriteString(" &" + anchor)
	}
	isMap := n.Kind == Obj && len(n.K) > 0
	isSeq := n.Kind == Arr && len(n.A) > 0
	if !isMap && !isSeq {
		// scalar or empty collection
		if n.Kind == Str && e.st.LiteralPM > 0 && literalOK(n.S) && e.rng.chance(e.st.LiteralPM) {
			e.literal(n.S, ind)
			return
		}
		if n.Kind == Null && !fromSeq && !explicit && anchor == "" && e.rng.chance(e.st.NullAltPM/3) {
			// "key:" with nothing after it is a null
			e.used.NullAlt++
			e.trailComment()
			e.buf.WriteString(e.nl)
			return
		}
		e.buf.WriteString(" ")
		switch n.Kind {
		case Arr:
			e.buf.WriteString("[]")
		case Obj:
			e.buf.WriteString("{}")
		default:
			e.buf.WriteString(e.scalarText(n, false))
		}
		e.trailComment()
		e.buf.WriteString(e.nl)
		return
	}
	if e.wantFlow(n, depth) {
		e.buf.WriteString(" ")
		e.flowBody(n, ind+1, depth)
		e.trailComment()
		e.buf.WriteString(e.nl)
		return
	}
	step := e.st.Indent
	if isMap {
		if fromSeq && anchor == "" && e.rng.chance(e.st.CompactPM) {
			sp := 1 + e.rng.intn(3)
			e.pad(sp)
			e.used.Compact++
			e.blockMap(n, ind+1+sp, true, depth)
			return
		}
		e.trailComment()
		e.buf.WriteString(e.nl)
		e.blockMap(n, ind+step, false, depth)
		return
	}
	// block sequence
	if fromSeq && anchor == "" && e.rng.chance(e.st.CompactPM) {
		sp := 1 + e.rng.intn(3)
		e.pad(sp)
		e.used.Compact++
		e.blockSeq(n, ind+1+sp, true, depth)
		return
	}
	e.trailComment()
	e.buf.WriteString(e.nl)
	if !fromSeq && !explicit && e.st.SeqIndentless {
		e.blockSeq(n, ind, false, depth)
		return
	}
	e.blockSeq(n, ind+step, false, depth)
}

func (e *emitter) literal(s string, ind int) {
	e.used.Literal++
	body := s
	header := " |-"
	if strings.HasSuffix(body, "\n") {
		body = body[:len(body)-1]
		header = " |"
	}
	e.buf.WriteString(header)
	e.buf.WriteString(e.nl)
	col := ind + 1 + e.rng.intn(e.st.Indent)
	for _, line := range strings.Split(body, "\n") {
		if line != "" {
			e.pad(col)
			e.buf.WriteString(line)
		}
		e.buf.WriteString(e.nl)
	}
	e.afterLiteral = true
}

// flow writes n in flow style; continuation lines are indented by at least minCol.
func (e *emitter) flow(n *Node, minCol, depth int) {
	alias, anchor := e.refDecision(n)
	if alias != "" {
		e.buf.WriteString("*" + alias)
		return
	}
	if anchor != "" {
		e.buf.WriteString("&" + anchor + " ")
	}
	e.flowBody(n, minCol, depth)
}

// flowBody writes n in flow style without deciding about anchor / alias for n itself.
func (e *emitter) flowBody(n *Node, minCol, depth int) {
	brk := func() {
		if e.rng.chance(e.st.FlowBreakPM) {
			e.used.FlowBreaks++
			if e.rng.chance(e.st.TrailPM) {
				e.buf.WriteString(" " + e.commentText())
				e.used.Comments++
			}
			e.buf.WriteString(e.nl)
			e.pad(minCol + e.rng.intn(6))
		} else if e.rng.chance(800) {
			e.buf.WriteString(" ")
		}
	}
	switch {
	case n.Kind == Arr:
		if len(n.A) == 0 {
			e.buf.WriteString("[]")
			return
		}
		e.used.FlowSeqs++
		e.buf.WriteString("[")
		for i, x := range n.A {
			if i > 0 {
				e.buf.WriteString(",")
				brk()
			}
			e.parentKey = ""
			e.flow(x, minCol, depth+1)
		}
		e.buf.WriteString("]")
	case n.Kind == Obj:
		if len(n.K) == 0 {
			e.buf.WriteString("{}")
			return
		}
		e.used.FlowMaps++
		e.buf.WriteString("{")
		mergeName, mergeK := e.mergePrefix(n)
		firstDone := false
		if mergeName != "" {
			e.buf.WriteString("<<: *" + mergeName)
			firstDone = true
		}
		for i := mergeK; i < len(n.K); i++ {
			if firstDone {
				e.buf.WriteString(",")
				brk()
			}
			firstDone = true
			leave := e.enterKey(n.K[i])
			kt, dq := e.keyTextQ(n.K[i], true)
			e.buf.WriteString(kt)
			if dq && e.rng.chance(e.st.JSONKeyPM) {
				e.buf.WriteString(":")
			} else {
				e.buf.WriteString(": ")
			}
			e.parentKey = n.K[i]
			e.flow(n.V[i], minCol, depth+1)
			leave()
		}
		e.buf.WriteString("}")
	default:
		e.buf.WriteString(e.scalarText(n, true))
	}
}

// ---- scalars -----------------------------------------------------------------------

func (e *emitter) scalarText(n *Node, flow bool) string {
	switch n.Kind {
	case Null:
		if e.rng.chance(e.st.NullAltPM) {
			e.used.NullAlt++
			return []string{"~", "Null", "NULL"}[e.rng.intn(3)]
		}
		return "null"
	case Bool:
		alt := e.rng.chance(e.st.BoolAltPM)
		if alt {
			e.used.BoolAlt++
		}
		up := alt && e.rng.chance(500)
		switch {
		case n.B && !alt:
			return "true"
		case n.B && up:
			return "TRUE"
		case n.B:
			return "True"
		case !alt:
			return "false"
		case up:
			return "FALSE"
		}
		return "False"
	case Num:
		return n.S
	case Str:
		return e.strText(n.S, flow)
	}
	panic("scalarText on a collection")
}

func (e *emitter) strText(s string, flow bool) string {
	if e.st.YAML11PM > 0 && e.noY11 == 0 && YAML11Only(s) && e.rng.chance(e.st.YAML11PM) {
		e.used.YAML11Plain++
		return s
	}
	if e.st.DatePM > 0 && e.noY11 == 0 && PlainDate(s) && e.rng.chance(e.st.DatePM) {
		e.used.DatePlain++
		return s
	}
	if e.rng.chance(e.st.PlainPM) && PlainSafe(s, flow, false) {
		e.used.Plain++
		return s
	}
	if e.rng.chance(e.st.SinglePM) && singleQuotable(s) {
		e.used.Single++
		return "'" + strings.ReplaceAll(s, "'", "''") + "'"
	}
	e.used.Double++
	return e.doubleQuoted(s)
}

func (e *emitter) keyText(k string, flow bool) string {
	t, _ := e.keyTextQ(k, flow)
	return t
}

func (e *emitter) keyTextQ(k string, flow bool) (text string, doubleQuoted bool) {
	if e.st.YAML11PM > 0 && e.noY11 == 0 && YAML11Only(k) && e.rng.chance(e.st.YAML11PM) {
		e.used.YAML11Plain++
		return k, false
	}
	if e.rng.chance(e.st.KeyPlainPM) && PlainSafe(k, flow, true) {
		e.used.PlainKeys++
		return k, false
	}
	if e.rng.chance(e.st.KeySinglePM) && singleQuotable(k) {
		e.used.SingleKeys++
		return "'" + strings.ReplaceAll(k, "'", "''") + "'", false
	}
	e.used.DoubleKeys++
	return e.doubleQuoted(k), true
}

// doubleQuoted writes a YAML double-quoted scalar on one line. Mandatory
// escapes: '"', '\\', every character that is not plainPrintable. Optional
// escapes (EscapePM) use the \x \u \U and named forms of YAML 1.2 §5.7.
func (e *emitter) doubleQuoted(s string) string {
	var b strings.Builder
	b.WriteByte('"')
	for _, r := range s {
		switch {
		case r == '"':
			b.WriteString(`\"`)
		case r == '\\':
			b.WriteString(`\\`)
		case r == '\n':
			b.WriteString(`\n`)
		case r == '\t':
			if e.rng.chance(500) {
				b.WriteString(`\t`)
			} else {
				b.WriteString("\\\t") // "\<TAB>" is the other YAML spelling of a tab escape
			}
		case r == '\r':
			b.WriteString(`\r`)
		case r == 0:
			b.WriteString(`\0`)
		case r == 7:
			b.WriteString(`\a`)
		case r == 8:
			b.WriteString(`\b`)
		case r == 0x0b:
			b.WriteString(`\v`)
		case r == 0x0c:
			b.WriteString(`\f`)
		case r == 0x1b:
			b.WriteString(`\e`)
		case r == 0x85:
			b.WriteString(`\N`)
		case r == 0xa0:
			b.WriteString(`\_`)
		case r == 0x2028:
			b.WriteString(`\L`)
		case r == 0x2029:
			b.WriteString(`\P`)
		case !plainPrintable(r):
			writeYAMLEscape(&b, r, e.rng.intn(3))
		case e.st.EscapePM > 0 && e.rng.chance(e.st.EscapePM):
			e.used.Escapes++
			if r == ' ' && e.rng.chance(500) {
				b.WriteString(`\ `)
			} else {
				writeYAMLEscape(&b, r, e.rng.intn(3))
			}
		default:
			b.WriteRune(r)
		}
	}
	b.WriteByte('"')
	return b.String()
}

func writeYAMLEscape(b *strings.Builder, r rune, form int) {
	switch {
	case r < 0x100 && form == 0:
		fmt.Fprintf(b, `\x%02x`, r)
	case r < 0x10000 && form <= 1:
		fmt.Fprintf(b, `\u%04X`, r)
	default:
		fmt.Fprintf(b, `\U%08x`, r)
	}
}

// refPathNodes: the nodes local JSON pointers have to traverse (RFC 6901 over
// the document tree; "#/…" fragments are percent-decoded first), targets excluded.
func refPathNodes(root *Node) map[*Node]bool {
	out := map[*Node]bool{}
	root.Walk(func(_ []string, n *Node) {
		if n.Kind != Obj {
			return
		}
		for i, k := range n.K {
			v := n.V[i]
			if k != "$ref" || v.Kind != Str || !strings.HasPrefix(v.S, "#/") {
				continue
			}
			ptr := pctDecode(v.S[1:])
			cur := root
			parts := strings.Split(ptr[1:], "/")
			for _, part := range parts {
				part = strings.ReplaceAll(strings.ReplaceAll(part, "~1", "/"), "~0", "~")
				out[cur] = true
				var next *Node
				switch cur.Kind {
				case Obj:
					next = cur.Get(part)
				case Arr:
					idx := 0
					ok := part != ""
					for _, c := range part {
						if c < '0' || c > '9' || idx > 1<<20 {
							ok = false
							break
						}
						idx = idx*10 + int(c-'0')
					}
					if ok && idx < len(cur.A) {
						next = cur.A[idx]
					}
				}
				if next == nil {
					break
				}
				cur = next
			}
		}
	})
	return out
}

func pctDecode(s string) string {
	var b strings.Builder
	for i := 0; i < len(s); i++ {
		if s[i] == '%' && i+2 < len(s) {
			h := func(c byte) int {
				switch {
				case c >= '0' && c <= '9':
					return int(c - '0')
				case c >= 'a' && c <= 'f':
					return int(c-'a') + 10
				case c >= 'A' && c <= 'F':
					return int(c-'A') + 10
				}
				return -1
			}
			if x, y := h(s[i+1]), h(s[i+2]); x >= 0 && y >= 0 {
				b.WriteByte(byte(x<<4 | y))
				i += 2
				continue
			}
		}
		b.WriteByte(s[i])
	}
	return b.String()
}
