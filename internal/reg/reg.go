// Package reg is the registry through which a freshly generated ogen package
// (plus its glue file, see internal/regen) exposes itself to the generic
// harness code. Glue is declarative; all logic lives in the harness packages.
package reg

import (
	"context"
	"net/http"
	"net/url"
	"reflect"
	"sort"
	"sync"

	"github.com/ogen-go/ogen/middleware"
)

// Interface names used in CallFn.
const (
	IfaceHandler         = "Handler"
	IfaceWebhookHandler  = "WebhookHandler"
	IfaceSecurityHandler = "SecurityHandler"
	IfaceSecuritySource  = "SecuritySource"
)

// CallFn receives every call the generated code makes on one of the
// user-implemented interfaces (Handler, WebhookHandler, SecurityHandler,
// SecuritySource). args are the arguments after ctx; the returned slice holds
// the non-error results in order (a missing or nil entry means "zero value").
type CallFn func(ctx context.Context, iface, method string, args []any) ([]any, error)

// ServerConfig configures a generated server.
type ServerConfig struct {
	Call         CallFn
	Prefix       string
	Middleware   middleware.Middleware
	ErrorHandler func(ctx context.Context, w http.ResponseWriter, r *http.Request, err error)
}

// HTTPDoer is ht.Client.
type HTTPDoer interface {
	Do(*http.Request) (*http.Response, error)
}

// ClientConfig configures a generated client.
type ClientConfig struct {
	Call       CallFn // SecuritySource calls
	HTTPClient HTTPDoer
}

// RouteInfo is what FindPath reports.
type RouteInfo interface {
	Name() string
	OperationID() string
	PathPattern() string
	Args() []string
}

// Server is a generated server.
type Server interface {
	http.Handler
	FindPath(method string, u *url.URL) (RouteInfo, bool)
}

// Method describes one interface method as found in the generated source.
type Method struct {
	Name    string
	Args    []reflect.Type // after ctx
	Results []reflect.Type // without the trailing error
	HasErr  bool
}

// Package is one regenerated package.
type Package struct {
	Name string // registry key (directory name)

	NewServer        func(ServerConfig) (Server, error)
	NewClient        func(serverURL string, cfg ClientConfig) (any, error)
	NewWebhookServer func(ServerConfig) (any, error)
	NewWebhookClient func(cfg ClientConfig) (any, error)

	Interfaces map[string][]Method       // Handler, WebhookHandler, SecurityHandler, SecuritySource
	Variants   map[string][]reflect.Type // sum/response interface type name → implementing types (as declared receivers)
	Types      map[string]reflect.Type   // every exported named type of the package
}

var (
	mu   sync.Mutex
	pkgs = map[string]*Package{}
)

// Register is called from the glue file's init().
func Register(p *Package) {
	mu.Lock()
	pkgs[p.Name] = p
	mu.Unlock()
}

// Get returns a registered package.
func Get(name string) *Package {
	mu.Lock()
	defer mu.Unlock()
	return pkgs[name]
}

// Names lists registered packages in sorted order.
func Names() []string {
	mu.Lock()
	defer mu.Unlock()
	out := make([]string, 0, len(pkgs))
	for k := range pkgs {
		out = append(out, k)
	}
	sort.Strings(out)
	return out
}
