package c05x

import (
	"hash/fnv"
	"net/url"
	"os"
	"sort"
	"strings"

	"verif/internal/vk"
)

var probeMethods = []string{"GET", "POST", "PUT", "DELETE", "PATCH", "HEAD", "OPTIONS", "TRACE", "FOO"}

// short-path alphabet of the bounded-exhaustive family
var shortAlphabet = []byte{'/', 'a', 'b', '.', 'x'}

func escapeValue(v string) string {
	// path-segment escaping of a parameter value as a client would send it
	return url.PathEscape(v)
}

// valuePool returns parameter values (decoded form): fresh ones, hostile ones
// and every static piece of the template set.
func valuePool(tpls [][]part) []string {
	pool := []string{"v", "w1", "a", "b", "ab", "x.y", "a-b", "", "a/b", "é", "a b", "%", "a:b", "~"}
	seen := map[string]bool{}
	for _, v := range pool {
		seen[v] = true
	}
	for _, ps := range tpls {
		for _, p := range ps {
			if p.static == "" {
				continue
			}
			dec, err := url.PathUnescape(p.static)
			if err != nil {
				dec = p.static
			}
			cands := []string{strings.Trim(dec, "/")}
			cands = append(cands, strings.Split(dec, "/")...)
			for _, c := range cands {
				if c != "" && !seen[c] {
					seen[c] = true
					pool = append(pool, c)
				}
			}
		}
	}
	return pool
}

func isSafeValue(v string, follow map[byte]bool) bool {
	if v == "" {
		return false
	}
	for i := 0; i < len(v); i++ {
		if follow[v[i]] {
			return false
		}
	}
	return true
}

func instantiate(ps []part, vals []string) string {
	var b strings.Builder
	k := 0
	for _, p := range ps {
		if p.param == "" {
			b.WriteString(p.static) // canonical wire form (see parseTemplate)
		} else {
			b.WriteString(escapeValue(vals[k]))
			k++
		}
	}
	return b.String()
}

func definedMethods(routes []RouteSpec) []string {
	set := map[string]bool{}
	for _, r := range routes {
		for m := range r.Methods {
			set[m] = true
		}
	}
	var out []string
	for m := range set {
		out = append(out, m)
	}
	sort.Strings(out)
	return out
}

func hash32(s string) uint32 {
	h := fnv.New32a()
	h.Write([]byte(s))
	return h.Sum32()
}

// enumerate builds the request set of one route set (deterministic).
func enumerate(pr *pkgRun) []Request {
	var out []Request
	routes := pr.meta.Routes
	pool := valuePool(pr.tpls)
	defined := definedMethods(routes)
	methods := append([]string(nil), defined...)
	for _, m := range []string{"OPTIONS", "FOO", "GET"} {
		found := false
		for _, x := range methods {
			if x == m {
				found = true
			}
		}
		if !found {
			methods = append(methods, m)
		}
	}
	maxCombos := vk.N(60, 250)
	if os.Getenv("VERIF_C05_LARGE") != "" {
		maxCombos = vk.N(30, 120)
	}
	var instances []Request
	for ti, ps := range pr.tpls {
		names := paramNames(ps)
		k := len(names)
		total := 1
		for i := 0; i < k; i++ {
			total *= len(pool)
			if total > 1<<20 {
				break
			}
		}
		step := 1
		if total > maxCombos {
			step = total/maxCombos + 1
		}
		for c := 0; c < total; c += step {
			vals := make([]string, k)
			x := c
			safe := true
			for i := 0; i < k; i++ {
				vals[i] = pool[x%len(pool)]
				x /= len(pool)
				if !isSafeValue(vals[i], pr.follow) {
					safe = false
				}
			}
			raw := instantiate(ps, vals)
			so := -1
			if safe {
				so = ti
			}
			for _, m := range methods {
				instances = append(instances, Request{Method: m, Raw: raw, SafeOf: so})
			}
			if k == 0 {
				break
			}
		}
	}
	out = append(out, instances...)
	// near misses of instances (GET + first defined method)
	nm := []string{"GET"}
	if len(defined) > 0 && defined[0] != "GET" {
		nm = append(nm, defined[0])
	}
	seenRaw := map[string]bool{}
	for _, in := range instances {
		if seenRaw[in.Raw] {
			continue
		}
		seenRaw[in.Raw] = true
		if len(seenRaw) > vk.N(40, 200) {
			break
		}
		var muts []string
		if len(in.Raw) > 1 {
			muts = append(muts, in.Raw[:len(in.Raw)-1], in.Raw[1:], "/"+in.Raw)
		}
		muts = append(muts, in.Raw+"x", in.Raw+"/", in.Raw+"/x", in.Raw+".", strings.Replace(in.Raw, "/", "//", 1), strings.ToUpper(in.Raw))
		for _, mu := range muts {
			for _, m := range nm {
				out = append(out, Request{Method: m, Raw: mu, SafeOf: -1})
			}
		}
	}
	// bounded-exhaustive short paths
	maxLen := vk.N(5, 7)
	if os.Getenv("VERIF_C05_LARGE") != "" {
		maxLen = vk.N(4, 5)
	}
	buf := []byte{'/'}
	var rec func()
	rec = func() {
		p := string(buf)
		for _, m := range nm {
			out = append(out, Request{Method: m, Raw: p, SafeOf: -1})
		}
		if len(buf) == maxLen {
			return
		}
		for _, c := range shortAlphabet {
			buf = append(buf, c)
			rec()
			buf = buf[:len(buf)-1]
		}
	}
	rec()
	// prefix: a slice of the instances against the prefixed server, with and without the prefix
	n := 0
	for _, in := range instances {
		if hash32(in.Raw+in.Method)%4 != 0 {
			continue
		}
		n++
		if n > vk.N(80, 400) {
			break
		}
		out = append(out, Request{Method: in.Method, Raw: in.Raw, Prefix: true, SafeOf: in.SafeOf})
		out = append(out, Request{Method: in.Method, Raw: in.Raw, Prefix: true, NoPrefix: true, SafeOf: -1})
	}
	return out
}
