package c05x

// Outer side of the router harness: route-set generators, spec emission and the
// batch runner (generate → compile → run the aggregator). Used by checks/c05
// and by checks/c12 (request-level clause).

import (
	"encoding/json"
	"fmt"
	"hash/fnv"
	"sort"
	"strings"

	"pgregory.net/rapid"

	"verif/internal/regen"
	"verif/internal/vk"
)

func SpecFor(routes []RouteSpec) []byte {
	paths := map[string]any{}
	for _, r := range routes {
		var params []any
		t := r.Template
		for {
			i := strings.IndexByte(t, '{')
			if i < 0 {
				break
			}
			j := strings.IndexByte(t[i:], '}')
			if j < 0 {
				break
			}
			params = append(params, map[string]any{
				"name": t[i+1 : i+j], "in": "path", "required": true,
				"schema": map[string]any{"type": "string"},
			})
			t = t[i+j+1:]
		}
		item := map[string]any{}
		for m, id := range r.Methods {
			op := map[string]any{
				"operationId": id,
				"responses":   map[string]any{"200": map[string]any{"description": "ok"}},
			}
			if len(params) > 0 {
				op["parameters"] = params
			}
			item[strings.ToLower(m)] = op
		}
		paths[r.Template] = item
	}
	doc := map[string]any{
		"openapi": "3.0.3",
		"info":    map[string]any{"title": "t", "version": "1"},
		"paths":   paths,
	}
	b, _ := json.Marshal(doc)
	return b
}

var methodPatterns = [][]string{
	{"GET"}, {"GET", "POST"}, {"POST"}, {"PUT", "DELETE"}, {"GET", "OPTIONS"}, {"HEAD", "GET"}, {"PATCH"}, {"DELETE", "GET", "POST"},
}

func WithMethods(templates []string, salt uint64) []RouteSpec {
	var out []RouteSpec
	for i, t := range templates {
		h := fnv.New64a()
		fmt.Fprintf(h, "%d/%d/%s", salt, i, t)
		pat := methodPatterns[h.Sum64()%uint64(len(methodPatterns))]
		ms := map[string]string{}
		for _, m := range pat {
			ms[m] = fmt.Sprintf("t%d%s", i, strings.ToLower(m))
		}
		out = append(out, RouteSpec{Template: t, Methods: ms})
	}
	return out
}

// ---- bounded-exhaustive family ----------------------------------------------

var pieces = []string{"a", "b", "ab", "{P}", "a{P}", "{P}b", "{P}.b"}

func SmallTemplates() []string {
	var out []string
	for _, p := range pieces {
		out = append(out, "/"+strings.ReplaceAll(p, "P", "x"))
	}
	for _, p := range pieces {
		for _, q := range pieces {
			out = append(out, "/"+strings.ReplaceAll(p, "P", "x")+"/"+strings.ReplaceAll(q, "P", "y"))
		}
	}
	return out
}

// EnumerateSets calls f with every set of 1..3 distinct templates (index-ordered) and its running index.
func EnumerateSets(tpls []string, f func(idx int, set []string)) int {
	idx := 0
	n := len(tpls)
	for i := 0; i < n; i++ {
		f(idx, []string{tpls[i]})
		idx++
	}
	for i := 0; i < n; i++ {
		for j := i + 1; j < n; j++ {
			f(idx, []string{tpls[i], tpls[j]})
			idx++
		}
	}
	for i := 0; i < n; i++ {
		for j := i + 1; j < n; j++ {
			for k := j + 1; k < n; k++ {
				f(idx, []string{tpls[i], tpls[j], tpls[k]})
				idx++
			}
		}
	}
	return idx
}

// ---- batch runner -------------------------------------------------------------

type batchStats struct {
	accepted, rejected, compileFailed int
}

// RunBatch generates, compiles and drives a batch of route sets. Violations are
// reported by the inner units (router / respell) through their own stats files.
func RunBatch(u *vk.Unit, tag string, sets [][]RouteSpec, metaReqs [][]Request, profile string, extraEnv ...string) *vk.Finding {
	return RunBatchAlts(u, tag, sets, metaReqs, nil, profile, extraEnv...)
}

func RunBatchAlts(u *vk.Unit, tag string, sets [][]RouteSpec, metaReqs [][]Request, alts []string, profile string, extraEnv ...string) *vk.Finding {
	b, err := regen.NewBatch(tag)
	if err != nil {
		u.T.Fatalf("batch: %v", err)
	}
	defer b.Remove()
	for i, rs := range sets {
		meta := Meta{Routes: rs, Profile: profile, Alts: alts}
		if metaReqs != nil {
			meta.Requests = metaReqs[i]
		}
		out := b.Add(fmt.Sprintf("s%d", i), SpecFor(rs), regen.ServerOnly(), meta)
		u.Eval(1)
		u.Label("generate:" + out.Class)
		switch out.Class {
		case regen.OK:
		case regen.SpecDiagnostic, regen.NotImplemented:
			// rejected route sets (duplicates, adjacent parameters …) are outside the property
		default:
			u.Report(vk.F("generator-"+out.Class, "route set %v: generation ends with %s: %s", TemplatesOf(rs), out.Class, headStr(out.Err, 600)), rs)
		}
	}
	if len(b.Pkgs) == 0 {
		return nil
	}
	res := b.Build()
	for p, e := range res.Failed {
		var idx int
		fmt.Sscanf(p, "s%d", &idx)
		u.Label("compile-failed")
		u.Note("compile failure (C02's business, counted only): "+"route set %v: generated server does not compile: %s", TemplatesOf(sets[idx]), headStr(e, 800))
	}
	if len(res.OK) == 0 {
		return nil
	}
	u.LabelN("compiled", len(res.OK))
	env := append([]string{"VERIF_PART=" + tag + "_" + fmt.Sprint(len(res.OK)) + "_" + b.ModPath[len(b.ModPath)-6:]}, extraEnv...)
	out, err := b.RunAggregator(res.OK, "verif/internal/c05x", "Run", false, env)
	if err != nil && !strings.Contains(out, "VIOLATION") {
		u.T.Errorf("aggregator failed (harness trouble): %v\n%s", err, headStr(out, 3000))
	}
	if strings.Contains(out, "HARNESS BUG") {
		u.T.Errorf("harness bug reported by inner executor:\n%s", headStr(out, 3000))
	}
	return nil
}

func TemplatesOf(rs []RouteSpec) []string {
	var out []string
	for _, r := range rs {
		out = append(out, r.Template)
	}
	return out
}

func headStr(s string, n int) string {
	if len(s) > n {
		return s[:n] + "…"
	}
	return s
}

const BatchSize = 48

// ---- random larger sets ---------------------------------------------------------

var staticTexts = []string{"a", "b", "ab", "abc", "users", "user", "v1", "x-y", "a.b", "pets", "p", "json", ":get", "a:b", "~t", "_", "-", "0", "a%20b", "%E4%B8%96", "a%2Fb", "é"}
var tailTexts = []string{".json", ".b", "-x", ":run", "b", "ab", "_", "~", "@", "%20", "!"}

func DrawTemplate(t *rapid.T, hostile bool) string {
	nseg := rapid.IntRange(1, 4).Draw(t, "nseg")
	var b strings.Builder
	pi := 0
	statics := staticTexts
	tails := tailTexts
	if !hostile {
		statics = staticTexts[:16]
		tails = tailTexts[:8]
	}
	for s := 0; s < nseg; s++ {
		b.WriteByte('/')
		switch rapid.IntRange(0, 5).Draw(t, "segkind") {
		case 0, 1:
			b.WriteString(rapid.SampledFrom(statics).Draw(t, "static"))
		case 2:
			fmt.Fprintf(&b, "{p%d}", pi)
			pi++
		case 3:
			b.WriteString(rapid.SampledFrom(statics).Draw(t, "static"))
			fmt.Fprintf(&b, "{p%d}", pi)
			pi++
		case 4:
			fmt.Fprintf(&b, "{p%d}", pi)
			pi++
			b.WriteString(rapid.SampledFrom(tails).Draw(t, "tail"))
		case 5:
			b.WriteString(rapid.SampledFrom(statics).Draw(t, "static"))
			fmt.Fprintf(&b, "{p%d}", pi)
			pi++
			b.WriteString(rapid.SampledFrom(tails).Draw(t, "tail"))
			if rapid.IntRange(0, 3).Draw(t, "second") == 0 {
				fmt.Fprintf(&b, "{p%d}", pi)
				pi++
			}
		}
	}
	if rapid.IntRange(0, 9).Draw(t, "trailing-slash") == 0 {
		b.WriteByte('/')
	}
	return b.String()
}

type RandomBatch struct {
	Sets [][]RouteSpec `json:"sets"`
}

func DrawRandomBatch(t *rapid.T) RandomBatch {
	n := BatchSize
	var rb RandomBatch
	for i := 0; i < n; i++ {
		hostile := rapid.IntRange(0, 3).Draw(t, "hostile") == 0
		k := rapid.IntRange(2, 6).Draw(t, "ntemplates")
		seen := map[string]bool{}
		var tpls []string
		// start from a few shared prefixes so that trees get deep
		for len(tpls) < k {
			tp := DrawTemplate(t, hostile)
			if len(tpls) > 0 && rapid.IntRange(0, 2).Draw(t, "extend") == 0 {
				base := tpls[rapid.IntRange(0, len(tpls)-1).Draw(t, "base")]
				if !strings.HasSuffix(base, "/") {
					np := strings.Count(base, "{")
					ext := strings.ReplaceAll(DrawTemplate(t, hostile), "{p", fmt.Sprintf("{q%d", np))
					tp = base + ext
				}
			}
			if !seen[tp] {
				seen[tp] = true
				tpls = append(tpls, tp)
			}
		}
		sort.Strings(tpls)
		salt := rapid.Uint64().Draw(t, "methods")
		rb.Sets = append(rb.Sets, WithMethods(tpls, salt))
	}
	return rb
}
