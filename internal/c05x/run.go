package c05x

import (
	"context"
	"encoding/json"
	"fmt"
	"net/http/httptest"
	"net/url"
	"os"
	"path/filepath"
	"reflect"
	"runtime/debug"
	"sort"
	"strings"
	"testing"

	"github.com/ogen-go/ogen/middleware"

	"verif/internal/reg"
	"verif/internal/vk"
)

const pathPrefix = "/_pfx"

type obs struct {
	status       int
	allow        string
	acam         string
	writes       int
	handlerCalls int
	handlerOp    string
	handlerArgs  map[string]string // lower-cased Go field name → value
	mwCalls      int
	mwOpID       string
	mwOpName     string
	mwParams     map[string]string // spec name → value (path params)
	panicked     string
	findOK       bool
	findOpID     string
	findName     string
	findPattern  string
	findArgs     []string
}

type recorder struct{ o *obs }

func (r *recorder) call(ctx context.Context, iface, method string, args []any) ([]any, error) {
	if iface != reg.IfaceHandler {
		return nil, nil
	}
	r.o.handlerCalls++
	r.o.handlerOp = method
	r.o.handlerArgs = map[string]string{}
	for _, a := range args {
		v := reflect.ValueOf(a)
		if v.Kind() == reflect.Struct {
			for i := 0; i < v.NumField(); i++ {
				if v.Field(i).Kind() == reflect.String {
					r.o.handlerArgs[strings.ToLower(v.Type().Field(i).Name)] = v.Field(i).String()
				}
			}
		}
	}
	return nil, nil
}

func (r *recorder) middleware(req middleware.Request, next middleware.Next) (middleware.Response, error) {
	r.o.mwCalls++
	r.o.mwOpID = req.OperationID
	r.o.mwOpName = req.OperationName
	r.o.mwParams = map[string]string{}
	for k, v := range req.Params {
		if k.In == "path" {
			r.o.mwParams[k.Name] = fmt.Sprint(v)
		}
	}
	return next(req)
}

type pkgRun struct {
	meta    Meta
	tpls    [][]part
	span    [][]bool
	tplsDec [][]part // same templates with static text fully percent-decoded (loose interpretation)
	follow  map[byte]bool
	plain   reg.Server
	pfx     reg.Server
	rec     *recorder
	opOf    map[string][2]string // operationId → {template index as string, method}
}

func newPkgRun(p *reg.Package, meta Meta) (*pkgRun, error) {
	pr := &pkgRun{meta: meta, rec: &recorder{o: &obs{}}, opOf: map[string][2]string{}}
	for i, r := range meta.Routes {
		ps := parseTemplate(r.Template)
		pr.tpls = append(pr.tpls, ps)
		dec := make([]part, len(ps))
		for j, p := range ps {
			dec[j] = p
			if p.static != "" {
				if d, err := url.PathUnescape(p.static); err == nil {
					dec[j].static = d
				}
			}
		}
		pr.tplsDec = append(pr.tplsDec, dec)
		for m, id := range r.Methods {
			pr.opOf[id] = [2]string{fmt.Sprint(i), m}
		}
	}
	pr.follow = followSet(pr.tpls)
	pr.span = spanTable(pr.tpls)
	if p.NewServer == nil {
		return nil, fmt.Errorf("package %s has no NewServer", p.Name)
	}
	var err error
	pr.plain, err = p.NewServer(reg.ServerConfig{Call: pr.rec.call, Middleware: pr.rec.middleware})
	if err != nil {
		return nil, err
	}
	pr.pfx, err = p.NewServer(reg.ServerConfig{Call: pr.rec.call, Middleware: pr.rec.middleware, Prefix: pathPrefix})
	if err != nil {
		return nil, err
	}
	return pr, nil
}

type countingWriter struct {
	*httptest.ResponseRecorder
	headerWrites int
}

func (c *countingWriter) WriteHeader(code int) {
	c.headerWrites++
	c.ResponseRecorder.WriteHeader(code)
}

// observe sends one request and collects everything the oracle needs.
func (pr *pkgRun) observe(rq Request) (*obs, *url.URL, bool) {
	o := &obs{}
	pr.rec.o = o
	raw := rq.Raw
	srv := pr.plain
	if rq.Prefix {
		srv = pr.pfx
		switch {
		case rq.NoPrefix:
		case rq.PrefixAs != "":
			raw = rq.PrefixAs + raw
		default:
			raw = pathPrefix + raw
		}
	}
	u, err := url.ParseRequestURI(raw)
	if err != nil {
		return nil, nil, false
	}
	req := httptest.NewRequest("GET", "http://example.com/", nil)
	req.Method = rq.Method
	req.URL = u
	req.RequestURI = raw
	w := &countingWriter{ResponseRecorder: httptest.NewRecorder()}
	func() {
		defer func() {
			if r := recover(); r != nil {
				o.panicked = fmt.Sprintf("%v\n%s", r, trimStack(string(debug.Stack())))
			}
		}()
		srv.ServeHTTP(w, req)
	}()
	o.status = w.Code
	o.writes = w.headerWrites
	o.allow = w.Header().Get("Allow")
	o.acam = w.Header().Get("Access-Control-Allow-Methods")
	func() {
		defer func() {
			if r := recover(); r != nil && o.panicked == "" {
				o.panicked = fmt.Sprintf("FindPath: %v\n%s", r, trimStack(string(debug.Stack())))
			}
		}()
		ri, ok := srv.FindPath(rq.Method, u)
		o.findOK = ok
		if ok {
			o.findOpID = ri.OperationID()
			o.findName = ri.Name()
			o.findPattern = ri.PathPattern()
			o.findArgs = append([]string(nil), ri.Args()...)
		}
	}()
	return o, u, true
}

func trimStack(s string) string {
	if len(s) > 1200 {
		return s[:1200]
	}
	return s
}

type matchT struct {
	idx  int
	args []string // decoded
	raw  []string
}

// reference: all (template, args) pairs for a canonical path.
func (pr *pkgRun) matches(canon string, span bool) []matchT {
	var out []matchT
	for i, ps := range pr.tpls {
		var sp []bool
		if span {
			sp = pr.span[i]
		}
		for _, raw := range matchMode(ps, canon, sp) {
			dec, ok := unescapeAll(raw)
			if !ok {
				continue
			}
			out = append(out, matchT{idx: i, args: dec, raw: raw})
		}
	}
	return out
}

// looseMatches is the second admissible reading of a request path: Go's net/url
// leaves RawPath empty when the wire form equals the default encoding of the
// decoded path, and a server then sees only the decoded path, in which e.g.
// "%21" and "!" coincide. Escaped slashes always keep RawPath set, so this
// reading is only taken for paths without an escaped slash.
func (pr *pkgRun) looseMatches(wire string, span bool) []matchT {
	if i := strings.IndexAny(wire, "?#"); i >= 0 {
		wire = wire[:i]
	}
	up := strings.ToUpper(wire)
	if strings.Contains(up, "%2F") {
		return nil
	}
	dec, err := url.PathUnescape(wire)
	if err != nil {
		return nil
	}
	var out []matchT
	for i, ps := range pr.tplsDec {
		var sp []bool
		if span {
			sp = pr.span[i]
		}
		for _, args := range matchMode(ps, dec, sp) {
			out = append(out, matchT{idx: i, args: args, raw: args})
		}
	}
	return out
}

func sameMethodSet(header string, want []string) bool {
	var got []string
	for _, m := range strings.Split(header, ",") {
		if m = strings.TrimSpace(m); m != "" {
			got = append(got, m)
		}
	}
	sort.Strings(got)
	w := append([]string(nil), want...)
	sort.Strings(w)
	return equalStrings(got, w)
}

// judge is the oracle (clauses S, P, C, N, A, F). A finding that disappears when
// mid-segment parameters are allowed to span slashes is classified as the known
// root cause "param-spans-slash"; it is still a violation of the property.
func (pr *pkgRun) judge(rq Request, o *obs, u *url.URL) *vk.Finding {
	f := pr.judgeMode(rq, o, false)
	if f == nil {
		return nil
	}
	switch f.Classifier {
	case "router-panic", "handler-called-twice", "multiple-writeheader", "middleware-handler-disagree", "harness-bug", "served-wrong-method":
		return f
	}
	if g := pr.judgeMode(rq, o, true); g == nil {
		f.Classifier = "param-spans-slash"
	}
	return f
}

func (pr *pkgRun) judgeMode(rq Request, o *obs, span bool) *vk.Finding {
	if o.panicked != "" {
		return vk.F("router-panic", "%s %q panics: %s", rq.Method, rq.Raw, o.panicked)
	}
	routes := pr.meta.Routes
	canon := canonicalPath(rq.Raw)
	sentWithoutPrefix := rq.Prefix && rq.NoPrefix
	var ms []matchT
	if !sentWithoutPrefix {
		ms = pr.matches(canon, span)
	}
	// strict: escapes of reserved characters are distinct from the characters (RFC 3986);
	// msAll additionally admits the decoded reading (see looseMatches)
	msAll := ms
	if !sentWithoutPrefix {
		wire := rq.Raw
		msAll = append(append([]matchT(nil), ms...), pr.looseMatches(wire, span)...)
	}
	served := o.handlerCalls > 0
	desc := fmt.Sprintf("%s %q (canonical %q, prefix=%v)", rq.Method, rq.Raw, canon, rq.Prefix)

	if o.handlerCalls > 1 || o.mwCalls > 1 {
		return vk.F("handler-called-twice", "%s: handler called %d times, middleware %d times", desc, o.handlerCalls, o.mwCalls)
	}
	if o.writes > 1 {
		return vk.F("multiple-writeheader", "%s: WriteHeader called %d times", desc, o.writes)
	}
	if served != (o.mwCalls > 0) {
		return vk.F("middleware-handler-disagree", "%s: handler calls %d, middleware calls %d", desc, o.handlerCalls, o.mwCalls)
	}

	// which template/method was served
	var servedIdx = -1
	var servedArgs []string
	if served {
		info, ok := pr.opOf[o.mwOpID]
		if !ok {
			return vk.F("served-unknown-operation", "%s: served operationId %q is not in the spec", desc, o.mwOpID)
		}
		fmt.Sscan(info[0], &servedIdx)
		if o.handlerOp != o.mwOpName {
			return vk.F("middleware-handler-disagree", "%s: handler method %q but middleware operation name %q", desc, o.handlerOp, o.mwOpName)
		}
		if info[1] != rq.Method {
			return vk.F("served-wrong-method", "%s: served by operation %q defined for %s %s", desc, o.mwOpID, info[1], routes[servedIdx].Template)
		}
		names := paramNames(pr.tpls[servedIdx])
		for _, n := range names {
			hv, hok := o.handlerArgs[strings.ToLower(n)]
			mv, mok := o.mwParams[n]
			if !hok || !mok || hv != mv {
				return vk.F("middleware-handler-disagree", "%s: parameter %q: handler got %q (%v), middleware got %q (%v)", desc, n, hv, hok, mv, mok)
			}
			servedArgs = append(servedArgs, hv)
		}
		// S: the path is the served template instantiated with the extracted arguments
		okS := false
		for _, m := range msAll {
			if m.idx == servedIdx && equalStrings(m.args, servedArgs) {
				okS = true
				break
			}
		}
		if !okS {
			for i, a := range servedArgs {
				if !span && strings.Contains(a, "/") {
					// does the raw path contain an unescaped slash inside this argument?
					rawHasSlash := true
					for _, m := range msAll {
						if m.idx == servedIdx && len(m.args) > i && m.args[i] == a {
							rawHasSlash = false
						}
					}
					if rawHasSlash {
						return vk.F("arg-contains-slash", "%s: served by %q with argument %s=%q containing an unescaped slash", desc, routes[servedIdx].Template, names[i], a)
					}
				}
			}
			return vk.F("served-not-instance", "%s: served by %q with args %q, but the path is not that template instantiated with these arguments (reference matches: %s)", desc, routes[servedIdx].Template, servedArgs, pr.fmtMatches(ms))
		}
	}

	// N: no template matches ⇒ 404, handler untouched
	if len(msAll) == 0 {
		if served {
			return vk.F("served-not-instance", "%s: no template matches but operation %q was served", desc, o.mwOpID)
		}
		if o.status != 404 {
			return vk.F("nomatch-not-404", "%s: no template matches, status %d (want 404)", desc, o.status)
		}
	}

	// static-exact template among the matches?
	staticIdx := -1
	for _, m := range ms {
		if isStaticTemplate(pr.tpls[m.idx]) {
			staticIdx = m.idx
		}
	}
	hasMethod := func(i int) bool { _, ok := routes[i].Methods[rq.Method]; return ok }

	// P: a path equal to a fully static template always beats templated ones
	if staticIdx >= 0 && hasMethod(staticIdx) {
		if !served || servedIdx != staticIdx {
			return vk.F("static-not-preferred", "%s: equals static template %q which defines %s, but got status %d served=%v by %q", desc, routes[staticIdx].Template, rq.Method, o.status, served, o.mwOpID)
		}
	}

	// A: 405 ⇒ handler untouched, some matching template lacks the method, Allow lists exactly its methods
	is405 := o.status == 405 || (rq.Method == "OPTIONS" && o.status == 204 && o.acam != "" && !served)
	if is405 {
		if served {
			return vk.F("405-handler-invoked", "%s: status %d but handler was invoked", desc, o.status)
		}
		hdr := o.allow
		if rq.Method == "OPTIONS" {
			hdr = o.acam
		}
		okA := false
		for _, m := range msAll {
			if staticIdx >= 0 && m.idx != staticIdx && len(msAll) == len(ms) {
				continue
			}
			if !hasMethod(m.idx) && sameMethodSet(hdr, methodsOf(routes[m.idx])) {
				okA = true
			}
		}
		if !okA {
			return vk.F("allow-mismatch", "%s: status %d with Allow=%q ACAM=%q, but no matching template lacking %s has exactly these methods (matches: %s)", desc, o.status, o.allow, o.acam, rq.Method, pr.fmtMatches(ms))
		}
	}

	// C + converse of A on safe instances and static matches
	safe := rq.SafeOf >= 0 && !sentWithoutPrefix
	if safe || staticIdx >= 0 {
		anyHas, anyLacks := false, false
		for _, m := range msAll {
			if hasMethod(m.idx) {
				anyHas = true
			} else {
				anyLacks = true
			}
		}
		if safe {
			// sanity of the generator: the safe instance must match its own template
			own := false
			for _, m := range ms {
				if m.idx == rq.SafeOf {
					own = true
				}
			}
			if !own {
				return vk.F("harness-bug", "%s: marked safe instance of %q but the reference does not match it", desc, routes[rq.SafeOf].Template)
			}
		}
		switch {
		case o.status == 404:
			kind := "safe-instance-404"
			if !safe {
				kind = "static-404"
			}
			return vk.F(kind, "%s: matches %s but got 404", desc, pr.fmtMatches(ms))
		case !anyHas && !is405 && !(o.status == 400 && pr.hasEmptyArgMatch(msAll)):
			return vk.F("expected-405", "%s: every matching template lacks %s but status is %d (served=%v)", desc, rq.Method, o.status, served)
		case anyHas && !anyLacks && !served && !(o.status == 400 && pr.hasEmptyArgMatch(msAll)):
			return vk.F("expected-served", "%s: every matching template defines %s but the handler was not invoked (status %d)", desc, rq.Method, o.status)
		}
	}
	if !served && !is405 && o.status != 404 {
		// the router dispatched but parameter decoding refused the value: only an empty
		// argument can be refused for string parameters (400)
		emptyArg := false
		for _, m := range msAll {
			for _, a := range m.args {
				if a == "" {
					emptyArg = true
				}
			}
		}
		if !(o.status == 400 && emptyArg) {
			return vk.F("unexpected-status", "%s: handler not invoked and status %d (matches: %s)", desc, o.status, pr.fmtMatches(ms))
		}
	}

	// F: route lookup agrees with serving
	dispatched := served || (o.status == 400 && pr.hasEmptyArgMatch(msAll))
	if o.findOK != dispatched {
		return vk.F("findpath-disagrees", "%s: FindPath found=%v (%s) but served=%v (%s) status=%d", desc, o.findOK, o.findOpID, served, o.mwOpID, o.status)
	}
	if served {
		if o.findOpID != o.mwOpID || o.findName != o.handlerOp {
			return vk.F("findpath-disagrees", "%s: FindPath says %q/%q, served %q/%q", desc, o.findOpID, o.findName, o.mwOpID, o.handlerOp)
		}
		if !equalStrings(o.findArgs, servedArgs) {
			return vk.F("findpath-args-differ", "%s: FindPath args %q, handler args %q", desc, o.findArgs, servedArgs)
		}
		if want, _ := refNormalize(routes[servedIdx].Template); o.findPattern != want && o.findPattern != routes[servedIdx].Template {
			return vk.F("findpath-disagrees", "%s: FindPath pattern %q, served template %q", desc, o.findPattern, routes[servedIdx].Template)
		}
	}
	return nil
}

func (pr *pkgRun) hasEmptyArgMatch(ms []matchT) bool {
	for _, m := range ms {
		for _, a := range m.args {
			if a == "" {
				return true
			}
		}
	}
	return false
}

// staticNeedsEscaping: some template has static text that cannot go on the wire
// unescaped (blank, non-ASCII …) or that is written with a percent-escape.
func (pr *pkgRun) staticNeedsEscaping() bool {
	for _, ps := range pr.tpls {
		for _, p := range ps {
			if strings.Contains(p.static, "%") {
				return true
			}
		}
	}
	return false
}

func (pr *pkgRun) fmtMatches(ms []matchT) string {
	if len(ms) == 0 {
		return "none"
	}
	var parts []string
	for i, m := range ms {
		if i == 6 {
			parts = append(parts, "…")
			break
		}
		parts = append(parts, fmt.Sprintf("%s%q", pr.meta.Routes[m.idx].Template, m.args))
	}
	return strings.Join(parts, " | ")
}

// Run is the aggregator entry point. VERIF_C05_MODE selects the unit:
// "router" (default, property C05) or "respell" (property C12, request level).
func Run(t *testing.T) {
	mode := os.Getenv("VERIF_C05_MODE")
	var u *vk.Unit
	if mode == "respell" {
		u = vk.New(t, "C12", "respell")
	} else {
		u = vk.New(t, "C05", "router")
	}
	defer u.Close()
	batch := os.Getenv("VERIF_BATCH_DIR")
	for _, name := range reg.Names() {
		p := reg.Get(name)
		data, err := os.ReadFile(filepath.Join(batch, "pkgs", name, "meta.json"))
		if err != nil {
			t.Fatalf("meta for %s: %v", name, err)
		}
		var meta Meta
		if err := json.Unmarshal(data, &meta); err != nil {
			t.Fatalf("meta for %s: %v", name, err)
		}
		pr, err := newPkgRun(p, meta)
		if err != nil {
			t.Fatalf("server for %s: %v", name, err)
		}
		if mode == "respell" {
			runRespell(u, pr)
		} else {
			runRouter(u, pr)
		}
	}
}

func runRouter(u *vk.Unit, pr *pkgRun) {
	reqs := pr.meta.Requests
	if len(reqs) == 0 {
		reqs = enumerate(pr)
	}
	interesting := routeSetInteresting(pr.tpls)
	setKey, _ := json.Marshal(pr.meta.Routes)
	u.Label("routeset")
	if interesting {
		u.Label("routeset-shared-prefix-or-sibling")
	}
	sampled := false
	for _, rq := range reqs {
		o, url_, ok := pr.observe(rq)
		if !ok {
			u.Label("request-unparsable")
			continue
		}
		u.Eval(1)
		f := pr.judge(rq, o, url_)
		served := o.handlerCalls > 0
		switch {
		case served:
			u.Label("served")
		case o.status == 405 || o.status == 204:
			u.Label("405")
		default:
			u.Label("404")
		}
		if rq.SafeOf >= 0 {
			u.Label("safe-instance")
		}
		if interesting && (served || rq.SafeOf >= 0 || o.status == 405) {
			u.NonTrivial(string(setKey) + "\x00" + rq.Method + "\x00" + rq.Raw + fmt.Sprint(rq.Prefix))
			if !sampled && served && len(o.handlerArgs) > 0 {
				sampled = true
				u.Sample(map[string]any{"routes": pr.meta.Routes, "request": rq, "status": o.status, "served": o.mwOpID, "args": o.mwParams})
			}
		}
		if f != nil {
			if f.Classifier == "harness-bug" {
				u.T.Errorf("HARNESS BUG: %s", f.What)
				continue
			}
			if pr.staticNeedsEscaping() && f.Classifier != "router-panic" {
				// root cause shared by every symptom on such sets: the route tree holds the escaped
				// template text but requests are matched in decoded form unless RawPath is set
				f.Classifier = "static-text-needs-escaping"
			}
			u.Report(f, Case{Routes: pr.meta.Routes, Request: rq})
		}
	}
}

// routeSetInteresting: the set has a shared prefix or a static/param sibling pair.
func routeSetInteresting(tpls [][]part) bool {
	for i := range tpls {
		for j := i + 1; j < len(tpls); j++ {
			a, b := tpls[i], tpls[j]
			if len(a) == 0 || len(b) == 0 {
				continue
			}
			if a[0].static != "" && b[0].static != "" {
				n := 0
				for n < len(a[0].static) && n < len(b[0].static) && a[0].static[n] == b[0].static[n] {
					n++
				}
				if n > 1 {
					return true
				}
			}
		}
	}
	return false
}
