package c05x

import (
	"encoding/json"
	"fmt"
	"strings"

	"verif/internal/vk"
)

// RespellCase is the replay unit of the C12 request-level clause.
type RespellCase struct {
	Routes    []RouteSpec `json:"routes"`
	Method    string      `json:"method"`
	Canonical string      `json:"canonical"`
	Respelt   string      `json:"respelt"`
}

// respell rewrites an escaped path into an equivalent spelling: unreserved
// bytes are percent-escaped at (hash-)random, hex digits of existing escapes
// change case at random. Deterministic in (raw, salt).
func respell(raw string, salt int) string {
	var b strings.Builder
	h := hash32(fmt.Sprintf("%s#%d", raw, salt))
	next := func() uint32 {
		h = h*1664525 + 1013904223
		return h >> 16
	}
	for i := 0; i < len(raw); i++ {
		c := raw[i]
		switch {
		case c == '%' && i+2 < len(raw) && isHex(raw[i+1]) && isHex(raw[i+2]):
			b.WriteByte('%')
			for _, x := range []byte{raw[i+1], raw[i+2]} {
				if next()%2 == 0 {
					x = strings.ToLower(string(x))[0]
				} else {
					x = strings.ToUpper(string(x))[0]
				}
				b.WriteByte(x)
			}
			i += 2
		case unreserved(c) && next()%3 == 0:
			e := fmt.Sprintf("%%%02X", c)
			if next()%2 == 0 {
				e = strings.ToLower(e)
			}
			b.WriteString(e)
		default:
			b.WriteByte(c)
		}
	}
	return b.String()
}

// obsKey is what C12 compares: the operation reached and its arguments (the
// property does not speak about 404 versus 405 when no operation is reached).
func obsKey(o *obs) string {
	m, _ := json.Marshal(o.mwParams)
	return fmt.Sprintf("served=%v op=%q params=%s", o.handlerCalls > 0, o.mwOpID, m)
}

func obsText(o *obs) string {
	return fmt.Sprintf("status=%d %s find=%v/%q/%q", o.status, obsKey(o), o.findOK, o.findOpID, o.findArgs)
}

func runRespell(u *vk.Unit, pr *pkgRun) {
	reqs := pr.meta.Requests
	replay := len(reqs) > 0
	if !replay {
		reqs = enumerate(pr)
	}
	k := vk.N(3, 8)
	done := map[string]bool{}
	for _, rq := range reqs {
		if rq.Prefix || done[rq.Method+" "+rq.Raw] {
			continue
		}
		done[rq.Method+" "+rq.Raw] = true
		base, _, ok := pr.observe(rq)
		if !ok || base.panicked != "" {
			continue
		}
		if base.handlerCalls == 0 && base.status != 405 {
			continue // only served (and 405) requests are respelt: "reach the same operation with the same arguments"
		}
		alts := pr.meta.Alts
		if len(alts) == 0 {
			for j := 0; j < k; j++ {
				alts = append(alts, respell(rq.Raw, j))
			}
		}
		for j, alt := range alts {
			if alt == rq.Raw {
				continue
			}
			// sanity: equivalent by the reference normaliser
			altPath := alt
			for _, pfx := range prefixSpellings {
				if replay && strings.HasPrefix(alt, pfx+"/") {
					altPath = strings.TrimPrefix(alt, pfx)
				}
			}
			a, okA := refNormalize(altPath)
			c, okC := refNormalize(rq.Raw)
			if !okA || !okC || a != c {
				u.T.Errorf("HARNESS BUG: respell(%q) = %q is not equivalent", rq.Raw, alt)
				continue
			}
			probe := Request{Method: rq.Method, Raw: alt, SafeOf: -1}
			for _, pfx := range prefixSpellings {
				// a replayed prefix case: the alternative carries the (re-spelled) prefix
				if replay && strings.HasPrefix(alt, pfx+"/") {
					probe = Request{Method: rq.Method, Raw: strings.TrimPrefix(alt, pfx), Prefix: true, PrefixAs: pfx, SafeOf: -1}
				}
			}
			o, _, ok := pr.observe(probe)
			if !ok {
				continue
			}
			u.Eval(1)
			if base.handlerCalls > 0 {
				u.Label("respelt-served")
				u.NonTrivial(rq.Method + " " + alt + fmt.Sprint(pr.meta.Routes))
			} else {
				u.Label("respelt-405")
			}
			cs := RespellCase{Routes: pr.meta.Routes, Method: rq.Method, Canonical: rq.Raw, Respelt: alt}
			if o.panicked != "" {
				u.Report(vk.F("respell-panic", "%s %q panics: %s", rq.Method, alt, o.panicked), cs)
				continue
			}
			if obsKey(o) != obsKey(base) {
				cl := "respell-differs"
				if pr.staticNeedsEscaping() {
					cl = "static-text-needs-escaping"
				}
				u.Report(vk.F(cl, "%s %q → %s, but equivalent spelling %q → %s", rq.Method, rq.Raw, obsText(base), alt, obsText(o)), cs)
			}
			if j == 0 {
				u.Sample(cs)
			}
		}
		// the same request through the server that is configured with a path prefix, the PREFIX part
		// of the wire path written in equivalent spellings too (unreserved characters percent-escaped)
		if base.handlerCalls > 0 {
			for j, pfx := range prefixSpellings {
				alt := rq.Raw
				if j%2 == 1 && len(alts) > 0 {
					alt = alts[j%len(alts)]
				}
				o, _, ok := pr.observe(Request{Method: rq.Method, Raw: alt, Prefix: true, PrefixAs: pfx, SafeOf: -1})
				if !ok {
					continue
				}
				u.Eval(1)
				u.Label("respelt-prefix")
				cs := RespellCase{Routes: pr.meta.Routes, Method: rq.Method, Canonical: rq.Raw, Respelt: pfx + alt}
				if o.panicked != "" {
					u.Report(vk.F("respell-panic", "%s %q (prefixed server) panics: %s", rq.Method, pfx+alt, o.panicked), cs)
					continue
				}
				if obsKey(o) != obsKey(base) {
					cl := "respell-prefix-differs"
					if pr.staticNeedsEscaping() {
						cl = "static-text-needs-escaping"
					}
					u.Report(vk.F(cl, "%s %q → %s, but the server with prefix %q given %q → %s", rq.Method, rq.Raw, obsText(base), pathPrefix, pfx+alt, obsText(o)), cs)
				}
			}
		}
	}
}

// prefixSpellings: the configured prefix and equivalent spellings of it.
var prefixSpellings = []string{pathPrefix, "/%5Fpfx", "/_%70fx", "/_pf%78", "/%5f%70%66%78"}
