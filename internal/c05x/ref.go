// Package c05x is the router harness: a reference template matcher that works
// on the template strings (no tree), a request enumerator and the oracle of
// property C05 (clauses S, P, C, N, A, F of DESIGN.md §4), executed inside the
// compiled aggregator against regenerated servers. The same executor serves
// the request-level clause of C12 (equivalent re-escapings).
package c05x

import (
	"net/url"
	"sort"
	"strings"
)

// RouteSpec is one path template with its methods (METHOD → operationId).
type RouteSpec struct {
	Template string            `json:"template"`
	Methods  map[string]string `json:"methods"`
}

// Meta is written next to each regenerated package.
type Meta struct {
	Routes  []RouteSpec `json:"routes"`
	Profile string      `json:"profile"`
	// Requests, if set, replaces the enumerated request set (replay mode).
	Requests []Request `json:"requests,omitempty"`
	// Alts, if set (replay of a respell case), are the alternative spellings to compare with Requests[0].
	Alts []string `json:"alts,omitempty"`
}

// Request is one probe.
type Request struct {
	Method string `json:"method"`
	Raw    string `json:"raw"`              // request path as sent on the wire (escaped form)
	Prefix bool   `json:"prefix,omitempty"` // send to the server configured with a path prefix
	// NoPrefix (with Prefix): send Raw as it is to the prefixed server; it must answer 404.
	NoPrefix bool `json:"no_prefix,omitempty"`
	// PrefixAs (with Prefix): an equivalent spelling of the configured prefix to send instead of it.
	PrefixAs string `json:"prefix_as,omitempty"`
	// SafeOf >= 0 marks a safe instance of Routes[SafeOf] (clause C); -1 otherwise.
	SafeOf int `json:"safe_of"`
}

// Case is the replay unit.
type Case struct {
	Routes  []RouteSpec `json:"routes"`
	Request Request     `json:"request"`
}

type part struct {
	static string
	param  string
}

// parseTemplate splits "/a/{x}b" into parts; static text is canonicalised the
// way the spec parser does (NormalizeEscapedPath).
func parseTemplate(t string) []part {
	t = WireEscape(t)
	if n, ok := refNormalize(t); ok {
		t = n
	}
	var ps []part
	for len(t) > 0 {
		i := strings.IndexByte(t, '{')
		if i < 0 {
			ps = append(ps, part{static: t})
			break
		}
		if i > 0 {
			ps = append(ps, part{static: t[:i]})
		}
		j := strings.IndexByte(t[i:], '}')
		if j < 0 {
			ps = append(ps, part{static: t[i:]})
			break
		}
		ps = append(ps, part{param: t[i+1 : i+j]})
		t = t[i+j+1:]
	}
	return ps
}

func isStaticTemplate(ps []part) bool {
	for _, p := range ps {
		if p.param != "" {
			return false
		}
	}
	return true
}

func staticText(ps []part) string {
	var b strings.Builder
	for _, p := range ps {
		b.WriteString(p.static)
	}
	return b.String()
}

// matchAll returns every argument vector (raw, i.e. still escaped) with which
// the template instantiates to path; arguments never contain '/'.
func matchAll(ps []part, path string) [][]string { return matchMode(ps, path, nil) }

// matchMode: with span=true a parameter that is followed by static text not
// starting with '/' may contain slashes (the behaviour ogen's own router test
// TestComplicatedRoute pins for mid-segment parameters; used only to CLASSIFY
// a finding as the known root cause "param-spans-slash", never to accept it).
func matchMode(ps []part, path string, spanOK []bool) [][]string {
	var out [][]string
	var cur []string
	var rec func(i int, rest string)
	rec = func(i int, rest string) {
		if len(out) > 64 {
			return
		}
		if i == len(ps) {
			if rest == "" {
				out = append(out, append([]string(nil), cur...))
			}
			return
		}
		p := ps[i]
		if p.param == "" {
			if strings.HasPrefix(rest, p.static) {
				rec(i+1, rest[len(p.static):])
			}
			return
		}
		limit := strings.IndexByte(rest, '/')
		if limit < 0 {
			limit = len(rest)
		}
		if spanOK != nil && spanOK[i] {
			limit = len(rest)
		}
		for k := 0; k <= limit; k++ {
			cur = append(cur, rest[:k])
			rec(i+1, rest[k:])
			cur = cur[:len(cur)-1]
		}
	}
	rec(0, path)
	return out
}

// spanTable says, per template and part, whether the route tree node of that
// parameter has a static child that does not start with '/': some template with
// the same parts up to and including this parameter continues with such text.
// Those are the parameters ogen's router matches "until the tail byte" only.
func spanTable(tpls [][]part) [][]bool {
	out := make([][]bool, len(tpls))
	samePrefix := func(a, b []part, n int) bool {
		if len(a) < n || len(b) < n {
			return false
		}
		for k := 0; k < n; k++ {
			if (a[k].param == "") != (b[k].param == "") || a[k].static != b[k].static {
				return false
			}
		}
		return true
	}
	for ti, ps := range tpls {
		out[ti] = make([]bool, len(ps))
		for i, p := range ps {
			if p.param == "" {
				continue
			}
			for _, qs := range tpls {
				if samePrefix(ps, qs, i+1) && len(qs) > i+1 && qs[i+1].static != "" && qs[i+1].static[0] != '/' {
					out[ti][i] = true
				}
			}
		}
	}
	return out
}

// followSet is the conservative superset of "characters that may directly
// follow a parameter in the template set": the first byte of every static
// text that follows any parameter in any template.
func followSet(tpls [][]part) map[byte]bool {
	fs := map[byte]bool{'/': true}
	for _, ps := range tpls {
		for i := 1; i < len(ps); i++ {
			if ps[i-1].param != "" && ps[i].static != "" {
				fs[ps[i].static[0]] = true
			}
		}
	}
	return fs
}

func paramNames(ps []part) []string {
	var out []string
	for _, p := range ps {
		if p.param != "" {
			out = append(out, p.param)
		}
	}
	return out
}

func methodsOf(r RouteSpec) []string {
	var ms []string
	for m := range r.Methods {
		ms = append(ms, m)
	}
	sort.Strings(ms)
	return ms
}

// canonicalPath is the escaped, normalised request path the reference works on:
// the path as sent on the wire with unreserved bytes unescaped and hex digits upper-cased.
func canonicalPath(wire string) string {
	if i := strings.IndexAny(wire, "?#"); i >= 0 {
		wire = wire[:i]
	}
	if n, ok := refNormalize(wire); ok {
		return n
	}
	return wire
}

// rawAllowed reports whether a byte may appear unescaped in a URL path
// (RFC 3986 pchar plus '/'); everything else must be percent-encoded on the wire.
func rawAllowed(c byte) bool {
	if unreserved(c) || c == '/' {
		return true
	}
	// RFC 3986 also allows ! ' ( ) * raw, but Go's net/url always escapes them, so
	// their canonical wire form is the escape (see the known finding static-text-needs-escaping)
	switch c {
	case '$', '&', '+', ',', ';', '=', ':', '@':
		return true
	}
	return false
}

// WireEscape gives the wire form of template text: existing %XX escapes and
// bytes allowed raw are kept, '{' '}' of parameters are kept, everything else
// (blank, non-ASCII, controls, quotes …) is percent-encoded.
func WireEscape(s string) string {
	var b strings.Builder
	for i := 0; i < len(s); i++ {
		c := s[i]
		switch {
		case c == '%' && i+2 < len(s) && isHex(s[i+1]) && isHex(s[i+2]):
			b.WriteString(s[i : i+3])
			i += 2
		case rawAllowed(c) || c == '{' || c == '}':
			b.WriteByte(c)
		default:
			b.WriteByte('%')
			b.WriteByte("0123456789ABCDEF"[c>>4])
			b.WriteByte("0123456789ABCDEF"[c&15])
		}
	}
	return b.String()
}

func unescapeAll(args []string) ([]string, bool) {
	out := make([]string, len(args))
	for i, a := range args {
		v, err := url.PathUnescape(a)
		if err != nil {
			return nil, false
		}
		out[i] = v
	}
	return out, true
}

func equalStrings(a, b []string) bool {
	if len(a) != len(b) {
		return false
	}
	for i := range a {
		if a[i] != b[i] {
			return false
		}
	}
	return true
}

func isHex(c byte) bool {
	return c >= '0' && c <= '9' || c >= 'a' && c <= 'f' || c >= 'A' && c <= 'F'
}

func hexVal(c byte) byte {
	switch {
	case c >= '0' && c <= '9':
		return c - '0'
	case c >= 'a' && c <= 'f':
		return c - 'a' + 10
	default:
		return c - 'A' + 10
	}
}

func unreserved(c byte) bool {
	return c >= 'a' && c <= 'z' || c >= 'A' && c <= 'Z' || c >= '0' && c <= '9' ||
		c == '-' || c == '.' || c == '_' || c == '~'
}

// refNormalize is the independent reference of path normalisation (same as checks/c12).
func refNormalize(s string) (string, bool) {
	var b strings.Builder
	for i := 0; i < len(s); {
		if s[i] != '%' {
			b.WriteByte(s[i])
			i++
			continue
		}
		if i+2 >= len(s) || !isHex(s[i+1]) || !isHex(s[i+2]) {
			return "", false
		}
		c := hexVal(s[i+1])<<4 | hexVal(s[i+2])
		if unreserved(c) {
			b.WriteByte(c)
		} else {
			b.WriteByte('%')
			b.WriteByte("0123456789ABCDEF"[c>>4])
			b.WriteByte("0123456789ABCDEF"[c&15])
		}
		i += 3
	}
	return b.String(), true
}
