package vk

import (
	"os"
	"strings"
	"testing"

	"pgregory.net/rapid"
)

// Native coverage-guided campaigns (thorough tier). A fuzz target re-uses the
// oracle of a unit: the fuzzer supplies the inputs, the check function decides.
// vcheck builds the package a second time with coverage instrumentation
// (`go test -c -fuzz`), runs every target listed under "fuzz" in checks.d for a
// bounded time on all cores, and turns a saved crasher into a VIOLATION whose
// replay file is the Go corpus file (`./vcheck CNN --replay <file>` runs the
// target on exactly that input). Outside a campaign or a replay the targets
// skip, so the ordinary units are not disturbed by them.

// Fuzzing reports whether this process belongs to a campaign or a fuzz replay.
func Fuzzing() bool { return os.Getenv("VERIF_FUZZING") != "" }

func fuzzKnown() map[string]bool {
	m := map[string]bool{}
	for _, k := range strings.Split(os.Getenv("VERIF_KNOWN"), ",") {
		if k = strings.TrimSpace(k); k != "" {
			m[k] = true
		}
	}
	return m
}

type fataler interface {
	Fatalf(format string, args ...any)
	Skip(args ...any)
}

// FuzzVerdict fails the fuzz input unless the finding is nil or listed as known.
func FuzzVerdict(t fataler, known map[string]bool, f *Finding) {
	if f == nil {
		return
	}
	if known[f.Classifier] {
		t.Skip("known finding " + f.Classifier)
		return
	}
	t.Fatalf("[[%s]] %s", f.Classifier, f.What)
}

// FuzzStart is called first by every fuzz target; it skips outside campaigns
// and returns the known-finding classifiers.
func FuzzStart(f *testing.F) map[string]bool {
	if !Fuzzing() {
		f.Skip("fuzz targets run only in campaigns (vcheck --tier thorough) and fuzz replays")
	}
	return fuzzKnown()
}

// FuzzRapid drives a rapid generator from the fuzzer's bytes: the coverage-guided
// twin of vk.Rapid for the same (draw, check) pair.
func FuzzRapid[C any](f *testing.F, draw func(*rapid.T) C, check func(C) *Finding) {
	known := FuzzStart(f)
	f.Fuzz(rapid.MakeFuzz(func(t *rapid.T) {
		c := draw(t)
		FuzzVerdict(t, known, Guard("fuzz-panic", func() *Finding { return check(c) }))
	}))
}

// capture is switched on while FuzzUnit runs a unit's test function to collect
// the (draw, check) pairs it hands to vk.Rapid; nothing is evaluated, reported or
// written in that mode.
var capture struct {
	on    bool
	props []func(*rapid.T) *Finding
}

// FuzzUnit makes the index-th vk.Rapid property of a unit (its generator and its
// oracle, unchanged) the body of a native fuzz target: the unit's test function is
// run once in capture mode, so everything it sets up before vk.Rapid (corpora,
// tables) is in place, and the fuzzer's bytes become rapid's source of choices.
func FuzzUnit(f *testing.F, test func(*testing.T), index int) {
	known := FuzzStart(f)
	capture.on = true
	capture.props = nil
	done := make(chan any, 1)
	go func() {
		defer func() { done <- recover() }()
		test(&testing.T{})
	}()
	r := <-done
	capture.on = false
	if r != nil {
		f.Fatalf("unit set-up panicked in capture mode: %v", r)
	}
	if index >= len(capture.props) {
		f.Fatalf("unit handed %d properties to vk.Rapid, target wants number %d", len(capture.props), index)
	}
	prop := capture.props[index]
	f.Fuzz(rapid.MakeFuzz(func(t *rapid.T) {
		FuzzVerdict(t, known, prop(t))
	}))
}
