// Package vk is the small verification kit shared by every check: it owns the
// rapid configuration (seed, case count), the statistics that become the
// evidence file, the known-findings filter and the replay files.
//
// One test function = one "unit". A unit writes one stats JSON file into
// $VERIF_OUT; the python driver (vcheck) merges the units of a property into
// evidence/<id>.json, prints VIOLATION / KNOWN-FINDING lines and decides the
// exit code.
package vk

import (
	"encoding/binary"
	"encoding/json"
	"flag"
	"fmt"
	"hash/fnv"
	"os"
	"path/filepath"
	"runtime/debug"
	"sort"
	"strconv"
	"strings"
	"sync"
	"testing"
	"time"

	"pgregory.net/rapid"
)

// Finding is an oracle disagreement. Classifier names the root-cause shape
// (see known_findings.json); What is a one-line human description.
type Finding struct {
	Classifier string `json:"classifier"`
	What       string `json:"what"`
}

// F builds a finding.
func F(classifier, format string, args ...any) *Finding {
	return &Finding{Classifier: classifier, What: fmt.Sprintf(format, args...)}
}

type violation struct {
	Finding
	Case   any    `json:"case"`
	Replay string `json:"replay"`
}

// Unit collects what one test function explored.
type Unit struct {
	T        *testing.T
	Property string
	Name     string

	mu          sync.Mutex
	start       time.Time
	evals       int64
	nontrivial  map[uint64]struct{}
	ntOverflow  int64
	ntCounted   int64 // distinct by construction (exhaustive enumerations)
	labels      map[string]int64
	samples     []any
	sampleSeen  int64
	knownHits   map[string]int64
	knownSample map[string]any
	violations  []violation
	lastFail    *violation
	notes       []string
	extra       map[string]any
	frozen      bool // set once a failure was seen: shrinking runs do not count
	closed      bool
	replayMode  bool
	exhaustive  bool
	known       map[string]bool
}

const maxNonTrivial = 1_000_000

// Tier is "quick" or "thorough".
func Tier() string {
	if os.Getenv("VERIF_TIER") == "thorough" {
		return "thorough"
	}
	return "quick"
}

// N picks a count by tier.
func N(quick, thorough int) int {
	if Tier() == "thorough" {
		return thorough
	}
	return quick
}

// Seed is VERIF_SEED (0 is remapped to 1: rapid treats 0 as "random").
func Seed() uint64 {
	s, err := strconv.ParseUint(os.Getenv("VERIF_SEED"), 10, 64)
	if err != nil || s == 0 {
		// negative or junk values are folded too
		if v, err2 := strconv.ParseInt(os.Getenv("VERIF_SEED"), 10, 64); err2 == nil && v != 0 {
			return uint64(v)
		}
		return 1
	}
	return s
}

// Shard returns (index, total) of this process among parallel shards.
func Shard() (int, int) {
	i, _ := strconv.Atoi(os.Getenv("VERIF_SHARD"))
	n, _ := strconv.Atoi(os.Getenv("VERIF_SHARDS"))
	if n <= 0 {
		n = 1
	}
	return i, n
}

// SeedFor derives a PRNG value for a named unit from VERIF_SEED and the shard.
func SeedFor(name string) uint64 {
	h := fnv.New64a()
	i, _ := Shard()
	fmt.Fprintf(h, "%d/%d/%s", Seed(), i, name)
	v := h.Sum64()
	if v == 0 {
		v = 1
	}
	return v
}

// New opens a unit. Call Close (defer) to write the stats file.
func New(t *testing.T, property, name string) *Unit {
	u := &Unit{
		T: t, Property: property, Name: name,
		start:       time.Now(),
		nontrivial:  map[uint64]struct{}{},
		labels:      map[string]int64{},
		knownHits:   map[string]int64{},
		knownSample: map[string]any{},
		extra:       map[string]any{},
		known:       map[string]bool{},
	}
	for _, k := range strings.Split(os.Getenv("VERIF_KNOWN"), ",") {
		if k = strings.TrimSpace(k); k != "" {
			u.known[k] = true
		}
	}
	return u
}

// Replaying reports whether this process was started to replay one saved case
// and, if so, whether the case belongs to this unit.
func (u *Unit) replayCase() (json.RawMessage, bool) {
	p := os.Getenv("VERIF_REPLAY")
	if p == "" {
		return nil, false
	}
	data, err := os.ReadFile(p)
	if err != nil {
		u.T.Fatalf("replay file: %v", err)
	}
	var r struct {
		Property string          `json:"property"`
		Unit     string          `json:"unit"`
		Case     json.RawMessage `json:"case"`
	}
	if err := json.Unmarshal(data, &r); err != nil {
		u.T.Fatalf("replay file: %v", err)
	}
	if r.Unit != u.Name {
		return nil, false
	}
	return r.Case, true
}

// InReplay is true when the process replays a saved case (for any unit).
func InReplay() bool { return os.Getenv("VERIF_REPLAY") != "" }

func (u *Unit) Eval(n int) {
	u.mu.Lock()
	if !u.frozen {
		u.evals += int64(n)
	}
	u.mu.Unlock()
}

func (u *Unit) Label(name string) { u.LabelN(name, 1) }

func (u *Unit) LabelN(name string, n int) {
	u.mu.Lock()
	if !u.frozen {
		u.labels[name] += int64(n)
	}
	u.mu.Unlock()
}

// NonTrivial records one case that is non-trivial by the unit's stated rule;
// key canonically identifies the case (distinctness is by hash of key).
func (u *Unit) NonTrivial(key string) {
	h := fnv.New64a()
	h.Write([]byte(key))
	u.NonTrivialHash(h.Sum64())
}

func (u *Unit) NonTrivialHash(v uint64) {
	u.mu.Lock()
	if !u.frozen {
		if len(u.nontrivial) < maxNonTrivial {
			u.nontrivial[v] = struct{}{}
		} else if _, ok := u.nontrivial[v]; !ok {
			u.ntOverflow++ // not counted as distinct (conservative)
		}
	}
	u.mu.Unlock()
}

// NonTrivialCount adds n non-trivial cases that are distinct by construction
// (an exhaustive enumeration visits every case once), without hashing them.
func (u *Unit) NonTrivialCount(n int) {
	u.mu.Lock()
	if !u.frozen {
		u.ntCounted += int64(n)
	}
	u.mu.Unlock()
}

// Sample offers a case for the evidence samples (a few are kept: the first
// three and then exponentially spaced ones, deterministic).
func (u *Unit) Sample(v any) {
	u.mu.Lock()
	defer u.mu.Unlock()
	if u.frozen {
		return
	}
	u.sampleSeen++
	n := u.sampleSeen
	if n <= 3 || (n&(n-1)) == 0 && n >= 64 {
		if len(u.samples) < 12 {
			u.samples = append(u.samples, jsonable(v))
		}
	}
}

func jsonable(v any) any {
	b, err := json.Marshal(v)
	if err != nil {
		return fmt.Sprintf("%+v", v)
	}
	if len(b) > 4000 {
		return string(b[:4000]) + "…(truncated)"
	}
	return json.RawMessage(b)
}

// caseJSON keeps a failing case whole (it becomes the replay file).
func caseJSON(v any) any {
	b, err := json.Marshal(v)
	if err != nil {
		return fmt.Sprintf("%+v", v)
	}
	if len(b) > 8<<20 {
		return string(b[:4000]) + "…(truncated: case larger than 8 MiB)"
	}
	return json.RawMessage(b)
}

func (u *Unit) Note(format string, args ...any) {
	u.mu.Lock()
	u.notes = append(u.notes, fmt.Sprintf(format, args...))
	u.mu.Unlock()
}

// Set stores an extra key for the evidence file (last writer wins).
func (u *Unit) Set(key string, v any) {
	u.mu.Lock()
	u.extra[key] = v
	u.mu.Unlock()
}

func (u *Unit) SetExhaustive(b bool) { u.exhaustive = b }

// Known reports whether classifier is listed as a known finding.
func (u *Unit) Known(classifier string) bool { return u.known[classifier] }

// Report handles a finding outside rapid (enumerations, regression cases):
// a known classifier is counted, anything else becomes a violation with a
// replay file. Returns true if it was a (new) violation.
func (u *Unit) Report(f *Finding, c any) bool {
	if f == nil || capture.on {
		return false
	}
	if strings.Contains(f.What, "no space left on device") || strings.Contains(f.What, "cannot allocate memory") {
		// the sandbox ran out of disk or memory: inconclusive, never a verdict about ogen
		u.T.Errorf("HARNESS: resource exhaustion while checking a case: %s", f.What)
		return false
	}
	u.mu.Lock()
	defer u.mu.Unlock()
	if u.known[f.Classifier] {
		u.knownHits[f.Classifier]++
		if _, ok := u.knownSample[f.Classifier]; !ok {
			u.knownSample[f.Classifier] = map[string]any{"what": f.What, "case": jsonable(c)}
		}
		return false
	}
	// keep at most a few violations per classifier, the smallest cases
	v := violation{Finding: *f, Case: caseJSON(c)}
	cnt := 0
	for _, old := range u.violations {
		if old.Classifier == f.Classifier {
			cnt++
		}
	}
	if cnt < 3 {
		u.violations = append(u.violations, v)
	}
	u.labels["violation:"+f.Classifier]++
	return true
}

// Violations returns how many violations were recorded so far.
func (u *Unit) Violations() int {
	u.mu.Lock()
	defer u.mu.Unlock()
	n := len(u.violations)
	if u.lastFail != nil {
		n++
	}
	return n
}

// Guard runs fn and converts a panic of the code under test into a finding.
func Guard(classifier string, fn func() *Finding) (f *Finding) {
	defer func() {
		if r := recover(); r != nil {
			st := string(debug.Stack())
			if len(st) > 1500 {
				st = st[:1500]
			}
			f = F(classifier, "panic: %v\n%s", r, st)
		}
	}()
	return fn()
}

// inflight records the case about to be checked when the driver asks for it (race-enabled
// binaries run with halt_on_error: the process dies inside the case, and the driver turns
// the recorded case into the replay file of the data-race violation).
func (u *Unit) inflight(c any) {
	if os.Getenv("VERIF_INFLIGHT") == "" {
		return
	}
	out := os.Getenv("VERIF_OUT")
	if out == "" {
		return
	}
	shard, _ := Shard()
	b, err := json.Marshal(map[string]any{"property": u.Property, "unit": u.Name, "case": caseJSON(c)})
	if err != nil {
		return
	}
	p := filepath.Join(out, fmt.Sprintf("inflight.%s.%d.json", sanitize(u.Name), shard))
	if os.WriteFile(p+".tmp", b, 0o644) == nil {
		_ = os.Rename(p+".tmp", p)
	}
}

func (u *Unit) inflightDone() {
	if os.Getenv("VERIF_INFLIGHT") == "" || os.Getenv("VERIF_OUT") == "" {
		return
	}
	shard, _ := Shard()
	_ = os.Remove(filepath.Join(os.Getenv("VERIF_OUT"), fmt.Sprintf("inflight.%s.%d.json", sanitize(u.Name), shard)))
}


// Rapid runs a generated-input property: draw produces a case (all random
// choices inside rapid), check is the oracle. checks is the case count for
// this unit. Regression cases (saved shrunk failures, hostile constants) are
// evaluated first, bypassing rapid. In replay mode only the saved case runs.
func Rapid[C any](u *Unit, checks int, regress []C, draw func(*rapid.T) C, check func(C) *Finding) {
	if capture.on {
		// a fuzz target is collecting this unit's (draw, check) pair, see FuzzUnit
		capture.props = append(capture.props, func(t *rapid.T) *Finding {
			c := draw(t)
			return Guard("fuzz-panic", func() *Finding { return check(c) })
		})
		return
	}
	if raw, ok := u.replayCase(); ok {
		u.replayMode = true
		var c C
		if err := json.Unmarshal(raw, &c); err != nil {
			u.T.Fatalf("replay case does not decode: %v", err)
		}
		u.Eval(1)
		u.inflight(c)
		f := check(c)
		u.inflightDone()
		if f != nil {
			if u.Report(f, c) {
				u.T.Logf("replay: still fails: [%s] %s", f.Classifier, f.What)
			} else {
				u.T.Logf("replay: reproduces the known finding [%s] %s", f.Classifier, f.What)
			}
		} else {
			u.T.Logf("replay: case passes")
		}
		return
	}
	if InReplay() {
		return
	}
	for _, c := range regress {
		u.Eval(1)
		u.Label("regression-case")
		u.inflight(c)
		u.Report(check(c), c)
		u.inflightDone()
	}
	if checks <= 0 {
		return
	}
	_, shards := Shard()
	per := (checks + shards - 1) / shards
	must(flag.Set("rapid.checks", strconv.Itoa(per)))
	must(flag.Set("rapid.seed", strconv.FormatUint(SeedFor(u.Name), 10)))
	must(flag.Set("rapid.nofailfile", "true"))
	if flag.Lookup("rapid.shrinktime").Value.String() == "30s" {
		must(flag.Set("rapid.shrinktime", "20s"))
	}
	u.T.Run("rapid", func(t *testing.T) {
		rapid.Check(t, func(rt *rapid.T) {
			c := draw(rt)
			u.Eval(1)
			u.inflight(c)
			f := check(c)
			u.inflightDone()
			if f == nil {
				return
			}
			if u.Known(f.Classifier) || strings.Contains(f.What, "no space left on device") || strings.Contains(f.What, "cannot allocate memory") {
				u.Report(f, c)
				return
			}
			u.mu.Lock()
			u.frozen = true
			u.lastFail = &violation{Finding: *f, Case: caseJSON(c)}
			u.mu.Unlock()
			rt.Fatalf("[%s] %s", f.Classifier, f.What)
		})
	})
}

// Each runs check over an enumerated (non-random) domain.
func Each[C any](u *Unit, c C, check func(C) *Finding) {
	if capture.on {
		return
	}
	u.Eval(1)
	u.Report(check(c), c)
}

// ReplayOnly handles replay mode for units that do not use Rapid(): it returns
// (case, true) when this unit must replay.
func ReplayOnly[C any](u *Unit) (C, bool) {
	var c C
	raw, ok := u.replayCase()
	if !ok {
		return c, false
	}
	u.replayMode = true
	if err := json.Unmarshal(raw, &c); err != nil {
		u.T.Fatalf("replay case does not decode: %v", err)
	}
	return c, true
}

func must(err error) {
	if err != nil {
		panic(err)
	}
}

type statsFile struct {
	Property    string           `json:"property"`
	Unit        string           `json:"unit"`
	Shard       int              `json:"shard"`
	Tier        string           `json:"tier"`
	Seed        uint64           `json:"seed"`
	Evaluations int64            `json:"evaluations"`
	NonTrivial  int              `json:"distinct_nontrivial"`
	NTOverflow  int64            `json:"nontrivial_overflow"`
	NTCounted   int64            `json:"nontrivial_counted"`
	HashFile    string           `json:"hash_file"`
	Labels      map[string]int64 `json:"labels"`
	Samples     []any            `json:"samples"`
	KnownHits   map[string]int64 `json:"known_hits"`
	KnownSample map[string]any   `json:"known_samples"`
	Violations  []violation      `json:"violations"`
	Notes       []string         `json:"notes"`
	Extra       map[string]any   `json:"extra"`
	Exhaustive  bool             `json:"exhaustive"`
	WallS       float64          `json:"wall_s"`
	Replay      bool             `json:"replay_mode"`
}

// Close writes the stats file (and replay files for violations) and fails the
// test when a violation was recorded.
func (u *Unit) Close() {
	u.mu.Lock()
	defer u.mu.Unlock()
	if u.closed || capture.on {
		return
	}
	u.closed = true
	if u.lastFail != nil {
		u.violations = append(u.violations, *u.lastFail)
	}
	out := os.Getenv("VERIF_OUT")
	shard, _ := Shard()
	if out != "" {
		_ = os.MkdirAll(out, 0o755)
		repDir := os.Getenv("VERIF_REPLAYS")
		if repDir == "" {
			repDir = filepath.Join(out, "replays")
		}
		if !u.replayMode {
			for i := range u.violations {
				v := &u.violations[i]
				_ = os.MkdirAll(repDir, 0o755)
				name := fmt.Sprintf("%s-%s-%s-s%d-%d%s.json", u.Property, sanitize(u.Name), sanitize(v.Classifier), Seed(), shard*100+i, sanitize(os.Getenv("VERIF_PART")))
				p := filepath.Join(repDir, name)
				doc := map[string]any{
					"property": u.Property, "unit": u.Name, "classifier": v.Classifier,
					"what": v.What, "case": v.Case, "seed": Seed(), "tier": Tier(),
				}
				b, _ := json.MarshalIndent(doc, "", " ")
				if err := os.WriteFile(p, b, 0o644); err == nil {
					v.Replay = p
				}
			}
		}
		base := fmt.Sprintf("%s.%d", sanitize(u.Name), shard)
		if part := os.Getenv("VERIF_PART"); part != "" {
			base += "." + sanitize(part)
		}
		hashFile := ""
		if len(u.nontrivial) > 0 {
			hashFile = filepath.Join(out, base+".hashes")
			keys := make([]uint64, 0, len(u.nontrivial))
			for k := range u.nontrivial {
				keys = append(keys, k)
			}
			sort.Slice(keys, func(i, j int) bool { return keys[i] < keys[j] })
			buf := make([]byte, 8*len(keys))
			for i, k := range keys {
				binary.LittleEndian.PutUint64(buf[8*i:], k)
			}
			_ = os.WriteFile(hashFile, buf, 0o644)
		}
		sf := statsFile{
			Property: u.Property, Unit: u.Name, Shard: shard, Tier: Tier(), Seed: Seed(),
			Evaluations: u.evals, NonTrivial: len(u.nontrivial) + int(u.ntCounted), NTOverflow: u.ntOverflow, NTCounted: u.ntCounted,
			HashFile: hashFile, Labels: u.labels, Samples: u.samples, KnownHits: u.knownHits,
			KnownSample: u.knownSample, Violations: u.violations, Notes: u.notes, Extra: u.extra,
			Exhaustive: u.exhaustive, WallS: time.Since(u.start).Seconds(), Replay: u.replayMode,
		}
		b, _ := json.MarshalIndent(sf, "", " ")
		if err := os.WriteFile(filepath.Join(out, base+".stats.json"), b, 0o644); err != nil {
			u.T.Errorf("cannot write stats: %v", err)
		}
	}
	for _, v := range u.violations {
		u.T.Errorf("VIOLATION [%s] %s", v.Classifier, v.What)
	}
}

func sanitize(s string) string {
	var b strings.Builder
	for _, r := range s {
		switch {
		case r >= 'a' && r <= 'z', r >= 'A' && r <= 'Z', r >= '0' && r <= '9', r == '-', r == '_':
			b.WriteRune(r)
		default:
			b.WriteByte('_')
		}
	}
	if b.Len() > 60 {
		return b.String()[:60]
	}
	return b.String()
}
