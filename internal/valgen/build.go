// Package valgen is the type-directed value builder of DESIGN.md §3.3: it
// constructs values of the Go types ogen generates (structs, Opt/Nil/OptNil
// wrappers, sum types, enums, maps, slices, pointers, well-known primitives) by
// reflection, driven by rapid, and compares such values.
package valgen

import (
	"bytes"
	"fmt"
	"io"
	"math"
	"net"
	"net/netip"
	"net/textproto"
	"net/url"
	"reflect"
	"strings"
	"time"

	"github.com/go-faster/jx"
	"github.com/google/uuid"
	"pgregory.net/rapid"
)

// Class selects how adventurous leaf values are.
type Class int

const (
	Core    Class = iota // non-empty [A-Za-z0-9_] text, finite numbers incl. edge cases
	Hostile              // delimiters, escapes, Unicode, controls, empty strings and collections
)

// Builder builds values.
type Builder struct {
	Class    Class
	MaxDepth int
	Variants map[string][]reflect.Type // interface name → implementing types
	// Types: every named type of the package (by name); lets the builder find the sum type behind
	// a defined type (`type OpOK T0` has T0's fields but not its Set<Variant> methods).
	Types map[string]reflect.Type
	// TimeFormat: the one time format of the document ("date-time" default, "date", "time", "unix*"): values are
	// generated at that format's resolution.
	TimeFormat string
	// TimeNanoRange: every instant fits int64 nanoseconds since the epoch (1678..2261), the range all
	// time formats of ogen share (unix-nano cannot represent more).
	TimeNanoRange bool
	// Hook, if set, may fill a struct field itself (return true).
	Hook func(t *rapid.T, parent reflect.Type, f reflect.StructField, v reflect.Value) bool
	// NoNilInterface / response building: never leave interfaces nil.
	// Stats
	Unsupported map[string]int
}

var (
	tTime     = reflect.TypeOf(time.Time{})
	tDuration = reflect.TypeOf(time.Duration(0))
	tUUID     = reflect.TypeOf(uuid.UUID{})
	tAddr     = reflect.TypeOf(netip.Addr{})
	tIP       = reflect.TypeOf(net.IP{})
	tMAC      = reflect.TypeOf(net.HardwareAddr{})
	tURL      = reflect.TypeOf(url.URL{})
	tRaw      = reflect.TypeOf(jx.Raw{})
	tBytes    = reflect.TypeOf([]byte{})
	tNum      = reflect.TypeOf(jx.Num{})
	tReader   = reflect.TypeOf((*io.Reader)(nil)).Elem()
)

// sharedPartHeader is given to many multipart files, as a caller with a package-level header would do.
var sharedPartHeader = textproto.MIMEHeader{"X-Part": {"verif"}}

var coreStrings = []string{"a", "abc", "x1", "A_b", "hello", "Z", "0", "v_2", "value"}
var hostileStrings = []string{"", " ", "a b", "a,b", "a.b", "a;b", "a=b", "a|b", "a&b", "a/b", "a?b", "a#b", "a%b", "a+b", "%zz", "%2F", "é", "😀", "日本", "\"", "\\", "a\nb", "\t", "a'b", "<x>", "{y}", "null", "true", "1e3", "-", "~", "a:b", "@", "[", "]"}

func (b *Builder) str(t *rapid.T) string {
	if b.Class == Hostile && rapid.IntRange(0, 2).Draw(t, "hostile") > 0 {
		if rapid.IntRange(0, 4).Draw(t, "rand") == 0 {
			return rapid.String().Draw(t, "rstr")
		}
		return rapid.SampledFrom(hostileStrings).Draw(t, "hstr")
	}
	return rapid.SampledFrom(coreStrings).Draw(t, "cstr")
}

var edgeFloats = []float64{0, 1, -1, 0.5, -0.25, 1.5, 100, 1e-3, 0.1, 0.30000000000000004, 1e21, 1e-7, 123456.789, math.MaxInt32, 9007199254740991, -9007199254740991, 5e-324, math.MaxFloat64, math.SmallestNonzeroFloat32}

func (b *Builder) float(t *rapid.T, bits int) float64 {
	var f float64
	switch rapid.IntRange(0, 3).Draw(t, "fkind") {
	case 0, 1:
		f = rapid.SampledFrom(edgeFloats).Draw(t, "edge")
	case 2:
		f = float64(rapid.IntRange(-1000, 1000).Draw(t, "fint")) / 8
	default:
		f = rapid.Float64().Draw(t, "f64")
	}
	if math.IsNaN(f) || math.IsInf(f, 0) {
		f = 1
	}
	if bits == 32 {
		f = float64(float32(f))
		if math.IsInf(f, 0) {
			f = 1
		}
	}
	return f
}

func (b *Builder) int(t *rapid.T, k reflect.Kind) int64 {
	lim := map[reflect.Kind][2]int64{
		reflect.Int8: {math.MinInt8, math.MaxInt8}, reflect.Int16: {math.MinInt16, math.MaxInt16},
		reflect.Int32: {math.MinInt32, math.MaxInt32}, reflect.Int64: {math.MinInt64, math.MaxInt64}, reflect.Int: {math.MinInt64, math.MaxInt64},
	}[k]
	switch rapid.IntRange(0, 3).Draw(t, "ikind") {
	case 0:
		return rapid.SampledFrom([]int64{0, 1, -1, lim[0], lim[1]}).Draw(t, "iedge")
	case 1:
		return int64(rapid.IntRange(-50, 50).Draw(t, "ismall"))
	default:
		return rapid.Int64Range(lim[0], lim[1]).Draw(t, "i")
	}
}

func (b *Builder) uint(t *rapid.T, k reflect.Kind) uint64 {
	mx := map[reflect.Kind]uint64{reflect.Uint8: math.MaxUint8, reflect.Uint16: math.MaxUint16, reflect.Uint32: math.MaxUint32, reflect.Uint64: math.MaxUint64, reflect.Uint: math.MaxUint64}[k]
	switch rapid.IntRange(0, 2).Draw(t, "ukind") {
	case 0:
		return rapid.SampledFrom([]uint64{0, 1, mx}).Draw(t, "uedge")
	default:
		return rapid.Uint64Range(0, mx).Draw(t, "u")
	}
}

// isWrapper reports Opt/Nil/OptNil generic wrappers: struct{Value T; Set bool; Null bool} in some subset.
func isWrapper(rt reflect.Type) (hasSet, hasNull bool, ok bool) {
	if rt.Kind() != reflect.Struct {
		return
	}
	if _, has := rt.FieldByName("Value"); !has {
		return
	}
	n := 1
	if f, has := rt.FieldByName("Set"); has && f.Type.Kind() == reflect.Bool {
		hasSet = true
		n++
	}
	if f, has := rt.FieldByName("Null"); has && f.Type.Kind() == reflect.Bool {
		hasNull = true
		n++
	}
	if rt.NumField() != n || (!hasSet && !hasNull) {
		return false, false, false
	}
	return hasSet, hasNull, true
}

// sumSetters returns the Set<Variant> methods of a sum type (struct with a Type
// field of a string kind named <Name>Type).
func sumSetters(rt reflect.Type) []reflect.Method {
	if rt.Kind() != reflect.Struct {
		return nil
	}
	f, ok := rt.FieldByName("Type")
	if !ok || f.Type.Kind() != reflect.String || f.Type.Name() != rt.Name()+"Type" {
		return nil
	}
	pt := reflect.PointerTo(rt)
	var out []reflect.Method
	for i := 0; i < pt.NumMethod(); i++ {
		m := pt.Method(i)
		if strings.HasPrefix(m.Name, "Set") && m.Type.NumIn() == 2 && m.Type.NumOut() == 0 {
			// the argument type must be the type of a field of the struct
			for j := 0; j < rt.NumField(); j++ {
				if rt.Field(j).Type == m.Type.In(1) {
					out = append(out, m)
					break
				}
			}
		}
	}
	return out
}

func (b *Builder) unsupported(what string) {
	if b.Unsupported == nil {
		b.Unsupported = map[string]int{}
	}
	b.Unsupported[what]++
}

// Build constructs a value of type rt.
func (b *Builder) Build(t *rapid.T, rt reflect.Type, depth int) reflect.Value {
	v := reflect.New(rt).Elem()
	b.fill(t, v, depth)
	return v
}

func (b *Builder) fill(t *rapid.T, v reflect.Value, depth int) {
	rt := v.Type()
	maxDepth := b.MaxDepth
	if maxDepth == 0 {
		maxDepth = 5
	}
	// enums: AllValues()
	if m, ok := rt.MethodByName("AllValues"); ok && m.Type.NumIn() == 1 && m.Type.NumOut() == 1 {
		vals := m.Func.Call([]reflect.Value{reflect.Zero(rt)})[0]
		if vals.Len() > 0 {
			v.Set(vals.Index(rapid.IntRange(0, vals.Len()-1).Draw(t, "enum")))
			return
		}
	}
	switch rt {
	case tTime:
		// whole seconds, years 1..9999, whole-minute offsets
		sec := rapid.Int64Range(-62135596800+86400, 253402300799-86400).Draw(t, "unix")
		switch rapid.IntRange(0, 3).Draw(t, "recent") {
		case 0:
			sec = rapid.Int64Range(0, 2000000000).Draw(t, "unix-recent")
		case 1:
			// where representations end: int32 / uint32 seconds, int64 nanoseconds (1677-09-21, 2262-04-11),
			// the first and the last years
			edge := rapid.SampledFrom([]int64{-62135596800 + 86400, -9223372037, -9223372036, -2147483649, -2147483648, -1, 0, 2147483647, 2147483648,
				4294967295, 4294967296, 9223372036, 9223372037, 16725225600, 253402300799 - 86400}).Draw(t, "unix-edge")
			sec = edge + rapid.Int64Range(-2, 2).Draw(t, "edge-delta")
			if sec < -62135596800+86400 || sec > 253402300799-86400 {
				sec = edge
			}
		}
		if b.TimeNanoRange && (sec < -9223372036 || sec > 9223372036) {
			sec %= 9223372036
		}
		tm := time.Unix(sec, 0).UTC()
		switch b.TimeFormat {
		case "unix", "unix-seconds", "unix-milli", "unix-micro":
			// an instant, whole seconds (the resolution all units share); no zone on the wire
		case "unix-nano":
			// the unit's representable range: int64 nanoseconds
			if sec < -9223372036 || sec > 9223372036 {
				tm = time.Unix(sec%9223372036, 0).UTC()
			}
		case "date":
			tm = time.Date(tm.Year(), tm.Month(), tm.Day(), 0, 0, 0, 0, time.UTC)
		case "time":
			tm = time.Date(0, 1, 1, tm.Hour(), tm.Minute(), tm.Second(), 0, time.UTC)
		default:
			if rapid.IntRange(0, 2).Draw(t, "zone") == 0 {
				off := rapid.IntRange(-14*60, 14*60).Draw(t, "offmin")
				tm = tm.In(time.FixedZone("", off*60))
			}
		}
		v.Set(reflect.ValueOf(tm))
		return
	case tDuration:
		v.SetInt(rapid.Int64().Draw(t, "dur"))
		return
	case tUUID:
		var u uuid.UUID
		copy(u[:], rapid.SliceOfN(rapid.Byte(), 16, 16).Draw(t, "uuid"))
		v.Set(reflect.ValueOf(u))
		return
	case tAddr:
		if rapid.Bool().Draw(t, "v4") {
			var a [4]byte
			copy(a[:], rapid.SliceOfN(rapid.Byte(), 4, 4).Draw(t, "ip4"))
			v.Set(reflect.ValueOf(netip.AddrFrom4(a)))
		} else {
			var a [16]byte
			copy(a[:], rapid.SliceOfN(rapid.Byte(), 16, 16).Draw(t, "ip6"))
			v.Set(reflect.ValueOf(netip.AddrFrom16(a)))
		}
		return
	case tIP:
		v.Set(reflect.ValueOf(net.IP(rapid.SliceOfN(rapid.Byte(), 4, 4).Draw(t, "ip"))))
		return
	case tMAC:
		v.Set(reflect.ValueOf(net.HardwareAddr(rapid.SliceOfN(rapid.Byte(), 6, 6).Draw(t, "mac"))))
		return
	case tURL:
		u := url.URL{Scheme: rapid.SampledFrom([]string{"http", "https"}).Draw(t, "scheme"), Host: "example.com", Path: "/" + rapid.SampledFrom(coreStrings).Draw(t, "upath")}
		if rapid.Bool().Draw(t, "uq") {
			u.RawQuery = "k=" + rapid.SampledFrom(coreStrings).Draw(t, "uqv")
		}
		v.Set(reflect.ValueOf(u))
		return
	case tRaw:
		v.Set(reflect.ValueOf(jx.Raw(rapid.SampledFrom([]string{`null`, `1`, `"s"`, `true`, `[1,"a"]`, `{"k":"v"}`, `-0.5`, `{}`, `[]`}).Draw(t, "raw"))))
		return
	case tNum:
		v.Set(reflect.ValueOf(jx.Num(rapid.SampledFrom([]string{`1`, `-2`, `0.5`, `10`}).Draw(t, "num"))))
		return
	case tBytes:
		if rapid.IntRange(0, 3).Draw(t, "nilbytes") == 0 {
			v.Set(reflect.ValueOf([]byte{}))
			return
		}
		if b.Class == Core {
			// core byte strings are text-safe: raw bytes in a header or path are hostile values
			v.Set(reflect.ValueOf([]byte(rapid.StringMatching(`[a-z0-9]{1,8}`).Draw(t, "corebytes"))))
			return
		}
		v.Set(reflect.ValueOf(rapid.SliceOfN(rapid.Byte(), 0, 8).Draw(t, "bytes")))
		return
	}
	// named byte-slice types: ogen's any-typed components are `type T jx.Raw`; reflection cannot tell
	// them from `type T []byte` or `type T net.HardwareAddr`: a 6-byte JSON text is a fine value for
	// all three (a JSON value, a byte string, an EUI-48 address)
	if rt.Kind() == reflect.Slice && rt.Elem().Kind() == reflect.Uint8 && rt.Name() != "" {
		raw := rapid.SampledFrom([]string{`"abcd"`, `123456`, `[1,22]`, `-12345`, `1.5e10`}).Draw(t, "namedraw")
		v.SetBytes([]byte(raw))
		return
	}
	// named struct types over a well-known struct (`type T netip.Addr`, `type T uuid.UUID`, ...)
	for _, special := range []reflect.Type{tTime, tUUID, tAddr, tURL} {
		if rt != special && rt.Kind() == special.Kind() && rt.ConvertibleTo(special) && special.ConvertibleTo(rt) {
			sv := reflect.New(special).Elem()
			b.fill(t, sv, depth)
			v.Set(sv.Convert(rt))
			return
		}
	}
	if hasSet, hasNull, ok := isWrapper(rt); ok {
		states := []string{"value"}
		if hasSet {
			states = append(states, "absent")
		}
		if hasNull {
			states = append(states, "null")
		}
		switch rapid.SampledFrom(states).Draw(t, "optstate") {
		case "absent":
			return // zero: Set=false
		case "null":
			if hasSet {
				v.FieldByName("Set").SetBool(true)
			}
			v.FieldByName("Null").SetBool(true)
			return
		default:
			if hasSet {
				v.FieldByName("Set").SetBool(true)
			}
			val := v.FieldByName("Value")
			b.fill(t, val, depth)
			if val.Kind() == reflect.Pointer && val.IsNil() {
				// "set to a value" with a nil pointer is no state of the wrapper: point at a value
				p := reflect.New(val.Type().Elem())
				if depth < 8 {
					b.fill(t, p.Elem(), depth+2)
				}
				val.Set(p)
			}
			if val.Kind() == reflect.Slice && val.IsNil() {
				// likewise a nil slice: where nil means "no value" or null for the array type, a wrapper
				// that says "set, not null" around it is a second spelling of absent/null, not a value
				val.Set(reflect.MakeSlice(val.Type(), 0, 0))
			}
			return
		}
	}
	// a defined type over a sum type: build the sum, convert
	if rt.Kind() == reflect.Struct && b.Types != nil {
		if f, ok := rt.FieldByName("Type"); ok && f.Type.Kind() == reflect.String && strings.HasSuffix(f.Type.Name(), "Type") && f.Type.Name() != rt.Name()+"Type" {
			if base, ok := b.Types[strings.TrimSuffix(f.Type.Name(), "Type")]; ok && base != rt && base.ConvertibleTo(rt) && len(sumSetters(base)) > 0 {
				sv := reflect.New(base).Elem()
				b.fill(t, sv, depth)
				v.Set(sv.Convert(rt))
				return
			}
		}
	}
	if setters := sumSetters(rt); len(setters) > 0 {
		m := setters[rapid.IntRange(0, len(setters)-1).Draw(t, "variant")]
		arg := b.Build(t, m.Type.In(1), depth+1)
		m.Func.Call([]reflect.Value{v.Addr(), arg})
		return
	}
	switch rt.Kind() {
	case reflect.Bool:
		v.SetBool(rapid.Bool().Draw(t, "bool"))
	case reflect.String:
		v.SetString(b.str(t))
	case reflect.Int, reflect.Int8, reflect.Int16, reflect.Int32, reflect.Int64:
		v.SetInt(b.int(t, rt.Kind()))
	case reflect.Uint, reflect.Uint8, reflect.Uint16, reflect.Uint32, reflect.Uint64:
		v.SetUint(b.uint(t, rt.Kind()))
	case reflect.Float32:
		v.SetFloat(b.float(t, 32))
	case reflect.Float64:
		v.SetFloat(b.float(t, 64))
	case reflect.Struct:
		if rt.Name() == "MultipartFile" && strings.HasSuffix(rt.PkgPath(), "ogen/http") {
			data := rapid.SliceOfN(rapid.Byte(), 0, 16).Draw(t, "file")
			v.FieldByName("Name").SetString(rapid.SampledFrom(coreStrings).Draw(t, "filename"))
			v.FieldByName("File").Set(reflect.ValueOf(bytes.NewReader(data)))
			v.FieldByName("Size").SetInt(int64(len(data)))
			if h := v.FieldByName("Header"); h.IsValid() && h.Type() == reflect.TypeOf(sharedPartHeader) && rapid.Bool().Draw(t, "sharedheader") {
				// callers commonly give all their parts ONE header value (a package-level variable): the
				// library has to copy it before adding Content-Disposition
				h.Set(reflect.ValueOf(sharedPartHeader))
			}
			return
		}
		for i := 0; i < rt.NumField(); i++ {
			if !rt.Field(i).IsExported() {
				continue
			}
			if b.Hook != nil && b.Hook(t, rt, rt.Field(i), v.Field(i)) {
				continue
			}
			b.fill(t, v.Field(i), depth+1)
		}
	case reflect.Pointer:
		if depth >= maxDepth || rapid.IntRange(0, 2).Draw(t, "nilptr") == 0 {
			return
		}
		p := reflect.New(rt.Elem())
		b.fill(t, p.Elem(), depth+1)
		if hasSet, _, ok := isWrapper(rt.Elem()); ok && hasSet && !p.Elem().FieldByName("Set").Bool() {
			// *OptT (ogen's form of a recursive nullable optional member): nil already stands for
			// "no value"; a pointer to an unset wrapper is a second spelling of it that the encoder
			// does not expect (counted, see DESIGN.md Appendix A)
			b.unsupported("excluded:pointer-to-unset-optional-wrapper")
			return
		}
		v.Set(p)
	case reflect.Slice:
		n := 0
		switch rapid.IntRange(0, 4).Draw(t, "slicekind") {
		case 0:
			return // nil
		case 1:
			v.Set(reflect.MakeSlice(rt, 0, 0))
			return
		default:
			if depth < maxDepth {
				n = rapid.IntRange(1, 3).Draw(t, "nslice")
			} else {
				v.Set(reflect.MakeSlice(rt, 0, 0))
				return
			}
		}
		s := reflect.MakeSlice(rt, n, n)
		for i := 0; i < n; i++ {
			b.fill(t, s.Index(i), depth+1)
		}
		v.Set(s)
	case reflect.Map:
		if rapid.IntRange(0, 4).Draw(t, "nilmap") == 0 {
			return
		}
		m := reflect.MakeMap(rt)
		n := 0
		if depth < maxDepth {
			n = rapid.IntRange(0, 3).Draw(t, "nmap")
		}
		for i := 0; i < n; i++ {
			k := reflect.New(rt.Key()).Elem()
			if rt.Key().Kind() == reflect.String {
				// additional-property names must not collide with declared ones: use a reserved prefix
				k.SetString("zz" + b.str(t))
			} else {
				b.fill(t, k, depth+1)
			}
			e := reflect.New(rt.Elem()).Elem()
			b.fill(t, e, depth+1)
			m.SetMapIndex(k, e)
		}
		v.Set(m)
	case reflect.Interface:
		if rt == tReader {
			// streams (octet-stream bodies, multipart files): a small in-memory reader
			v.Set(reflect.ValueOf(bytes.NewReader(rapid.SliceOfN(rapid.Byte(), 0, 16).Draw(t, "stream"))))
			return
		}
		impls := b.Variants[rt.Name()]
		if len(impls) == 0 {
			b.unsupported("interface " + rt.String())
			return
		}
		it := impls[rapid.IntRange(0, len(impls)-1).Draw(t, "impl")]
		// registered as pointer types; try pointer first, then value
		if it.Kind() == reflect.Pointer {
			p := reflect.New(it.Elem())
			b.fill(t, p.Elem(), depth+1)
			if p.Type().Implements(rt) {
				v.Set(p)
				return
			}
			if p.Elem().Type().Implements(rt) {
				v.Set(p.Elem())
				return
			}
		}
		b.unsupported("variant " + it.String() + " of " + rt.String())
	case reflect.Array:
		for i := 0; i < v.Len(); i++ {
			b.fill(t, v.Index(i), depth+1)
		}
	default:
		b.unsupported(fmt.Sprintf("kind %s (%s)", rt.Kind(), rt))
	}
}
