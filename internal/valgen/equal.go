package valgen

import (
	"bytes"
	"fmt"
	"math"
	"net/url"
	"reflect"
	"strings"
	"time"

	"github.com/go-faster/jx"

	"verif/internal/specgen"
)

// EqOpts are the stated comparison conventions (DESIGN.md §3.3).
type EqOpts struct {
	// NilEqualsEmpty: nil and empty slices/maps are the same value (URI
	// serialisation cannot distinguish them). JSON bodies compare exactly.
	NilEqualsEmpty bool
	// IgnoreTime: time.Time leaves are not compared (their resolution depends
	// on the schema format, which reflection cannot see; bytes are compared instead).
	IgnoreTime bool
	// TimeAtSomeResolution: the format of a time.Time leaf is unknown, but whatever it is, what comes
	// back is the original at the resolution of one of ogen's time formats: the same instant
	// (date-time, the unix family: values are built at whole seconds), its calendar date at midnight
	// UTC (date) or its clock time on ogen's zero date (time). Anything else is a changed value.
	TimeAtSomeResolution bool
	// UnsetMayBecomeSet: an unset optional member on the sending side may arrive set (schema
	// defaults, discriminator members the encoder derives from the variant). Used only where the
	// document's defaults are not modelled (corpus documents).
	UnsetMayBecomeSet bool
}

// Equal compares two values; on difference it returns the path of the first one.
func Equal(a, b reflect.Value, o EqOpts) (bool, string) {
	return eq(a, b, o, "")
}

func eq(a, b reflect.Value, o EqOpts, path string) (bool, string) {
	if a.IsValid() != b.IsValid() {
		return false, path + ": one side invalid"
	}
	if !a.IsValid() {
		return true, ""
	}
	if a.Type() != b.Type() {
		return false, fmt.Sprintf("%s: types %s vs %s", path, a.Type(), b.Type())
	}
	// defined types over the well-known structs (`type T url.URL`, `type T time.Time`, ...) compare like them
	if a.Kind() == reflect.Struct {
		for _, special := range []reflect.Type{tURL, tTime, tUUID, tAddr} {
			if a.Type() != special && a.Type().ConvertibleTo(special) && special.ConvertibleTo(a.Type()) {
				return eq(a.Convert(special), b.Convert(special), o, path)
			}
		}
	}
	switch a.Type() {
	case tTime:
		if o.IgnoreTime {
			return true, ""
		}
		x, y := a.Interface().(time.Time), b.Interface().(time.Time)
		if o.TimeAtSomeResolution {
			yu := y.UTC()
			switch {
			case x.Equal(y):
			case yu.Hour() == 0 && yu.Minute() == 0 && yu.Second() == 0 && yu.Year() == x.Year() && yu.YearDay() == x.YearDay():
			case yu.Year() <= 1 && yu.Hour() == x.Hour() && yu.Minute() == x.Minute() && yu.Second() == x.Second():
			case (x.Unix() < -9223372036 || x.Unix() > 9223372036) && y.Equal(time.Unix(0, x.UnixNano())):
				// unix-nano cannot represent the instant (int64 nanoseconds, 1678..2261): outside the value
				// space of that format, and what Go's UnixNano yields there is what comes back
			default:
				return false, fmt.Sprintf("%s: time %s vs %s (no format of ogen maps the first to the second)", path, x.Format(time.RFC3339Nano), y.Format(time.RFC3339Nano))
			}
			return true, ""
		}
		_, ox := x.Zone()
		_, oy := y.Zone()
		if !x.Equal(y) || ox != oy {
			return false, fmt.Sprintf("%s: time %s vs %s", path, x.Format(time.RFC3339Nano), y.Format(time.RFC3339Nano))
		}
		return true, ""
	case tURL:
		x, y := a.Interface().(url.URL), b.Interface().(url.URL)
		if x.String() != y.String() {
			return false, fmt.Sprintf("%s: url %q vs %q", path, x.String(), y.String())
		}
		return true, ""
	case tRaw:
		x, y := a.Interface().(jx.Raw), b.Interface().(jx.Raw)
		if bytes.Equal(x, y) {
			return true, ""
		}
		vx, e1 := specgen.ParseJSON(x)
		vy, e2 := specgen.ParseJSON(y)
		if e1 != nil || e2 != nil || !specgen.DeepEqualJSON(vx, vy) {
			return false, fmt.Sprintf("%s: raw %q vs %q", path, x, y)
		}
		return true, ""
	}
	switch a.Kind() {
	case reflect.Float32, reflect.Float64:
		x, y := a.Float(), b.Float()
		if x == 0 && y == 0 {
			return true, ""
		}
		if math.Float64bits(x) != math.Float64bits(y) {
			return false, fmt.Sprintf("%s: float %v vs %v", path, x, y)
		}
		return true, ""
	case reflect.Struct:
		if o.UnsetMayBecomeSet {
			if hasSet, _, ok := isWrapper(a.Type()); ok && hasSet && !a.FieldByName("Set").Bool() && b.FieldByName("Set").Bool() {
				return true, ""
			}
		}
		for i := 0; i < a.NumField(); i++ {
			if !a.Type().Field(i).IsExported() {
				continue
			}
			if ok, p := eq(a.Field(i), b.Field(i), o, path+"."+a.Type().Field(i).Name); !ok {
				return false, p
			}
		}
		return true, ""
	case reflect.Pointer, reflect.Interface:
		if a.Kind() == reflect.Interface && a.Type().String() == "io.Reader" {
			return true, "" // streams are consumed by sending them; their bytes are not compared here
		}
		if a.IsNil() || b.IsNil() {
			if a.IsNil() != b.IsNil() {
				return false, fmt.Sprintf("%s: nil vs non-nil", path)
			}
			return true, ""
		}
		return eq(a.Elem(), b.Elem(), o, path)
	case reflect.Slice:
		if a.Len() != b.Len() {
			return false, fmt.Sprintf("%s: len %d vs %d", path, a.Len(), b.Len())
		}
		if !o.NilEqualsEmpty && a.IsNil() != b.IsNil() {
			return false, fmt.Sprintf("%s: nil slice vs empty slice (%v/%v)", path, a.IsNil(), b.IsNil())
		}
		for i := 0; i < a.Len(); i++ {
			if ok, p := eq(a.Index(i), b.Index(i), o, fmt.Sprintf("%s[%d]", path, i)); !ok {
				return false, p
			}
		}
		return true, ""
	case reflect.Array:
		for i := 0; i < a.Len(); i++ {
			if ok, p := eq(a.Index(i), b.Index(i), o, fmt.Sprintf("%s[%d]", path, i)); !ok {
				return false, p
			}
		}
		return true, ""
	case reflect.Map:
		if a.Len() != b.Len() {
			return false, fmt.Sprintf("%s: map len %d vs %d", path, a.Len(), b.Len())
		}
		if !o.NilEqualsEmpty && a.IsNil() != b.IsNil() {
			return false, fmt.Sprintf("%s: nil map vs empty map", path)
		}
		iter := a.MapRange()
		for iter.Next() {
			bv := b.MapIndex(iter.Key())
			if !bv.IsValid() {
				return false, fmt.Sprintf("%s: key %v missing", path, iter.Key())
			}
			if ok, p := eq(iter.Value(), bv, o, fmt.Sprintf("%s[%v]", path, iter.Key())); !ok {
				return false, p
			}
		}
		return true, ""
	case reflect.Func, reflect.Chan:
		return true, ""
	default:
		if a.CanInterface() && b.CanInterface() {
			if !reflect.DeepEqual(a.Interface(), b.Interface()) {
				return false, fmt.Sprintf("%s: %v vs %v", path, a.Interface(), b.Interface())
			}
		}
		return true, ""
	}
}

// FloatNear parses the "float A vs B" tail of an Equal difference and reports
// whether the two floats are adjacent (differ by at most one unit in the last place).
func FloatNear(where string) bool {
	var a, b float64
	i := strings.LastIndex(where, ": float ")
	if i < 0 {
		return false
	}
	if _, err := fmt.Sscanf(where[i+len(": float "):], "%g vs %g", &a, &b); err != nil {
		return false
	}
	return math.Nextafter(a, b) == b
}

// IsWrapper reports Opt/Nil/OptNil wrapper types.
func IsWrapper(rt reflect.Type) bool {
	_, _, ok := isWrapper(rt)
	return ok
}
