package c01x

// Executor of property C15: generated servers answer every HTTP request without
// crashing or over-accepting. Valid requests are captured from the regenerated
// client (never sent), replayed against the regenerated server directly through
// ServeHTTP with a counting ResponseWriter under recover, and then mutated:
// directed mutations carry an expected class (truncated JSON ⇒ 400, undeclared
// media type ⇒ 415, …), undirected ones (byte flips, duplicated keys, hostile
// URL structs that bypass net/http's validation) only the generic oracle.

import (
	"bytes"
	"context"
	"encoding/json"
	"errors"
	"fmt"
	"io"
	"net/http"
	"net/http/httptest"
	"net/url"
	"os"
	"path/filepath"
	"reflect"
	"runtime/debug"
	"strings"
	"testing"

	"pgregory.net/rapid"

	"verif/internal/reg"
	"verif/internal/valgen"
	"verif/internal/vk"
)

// RawRequest is a request in replayable form.
type RawRequest struct {
	Method  string      `json:"method"`
	Path    string      `json:"path"`     // URL.Path
	RawPath string      `json:"raw_path"` // URL.RawPath (may be inconsistent with Path: hand-built)
	Query   string      `json:"query"`    // URL.RawQuery
	Header  http.Header `json:"header"`
	Body    []byte      `json:"body"`
	// ContentLength overrides the declared length when non-zero (-1 = unknown / chunked).
	ContentLength int64 `json:"content_length,omitempty"`
}

// FuzzCase is the replay unit of C15.
type FuzzCase struct {
	Doc        any        `json:"doc"`
	TimeFormat string     `json:"time_format"`
	Mutation   string     `json:"mutation"`
	Expect     string     `json:"expect,omitempty"`
	HandlerErr bool       `json:"handler_err,omitempty"`
	Request    RawRequest `json:"request"`
}

type captureOnly struct{ got *RawRequest }

var errCaptured = errors.New("verif: captured, not sent")

func (c captureOnly) Do(req *http.Request) (*http.Response, error) {
	r := RawRequest{Method: req.Method, Path: req.URL.Path, RawPath: req.URL.RawPath, Query: req.URL.RawQuery, Header: req.Header.Clone()}
	if req.Body != nil {
		r.Body, _ = io.ReadAll(req.Body)
	}
	*c.got = r
	return nil, errCaptured
}

type countingWriter struct {
	*httptest.ResponseRecorder
	explicit int
	implicit int
}

func (c *countingWriter) WriteHeader(code int) {
	c.explicit++
	c.ResponseRecorder.WriteHeader(code)
}

func (c *countingWriter) Write(b []byte) (int, error) {
	if c.explicit == 0 && c.implicit == 0 {
		c.implicit = 1
	}
	return c.ResponseRecorder.Write(b)
}

func (r RawRequest) build() *http.Request {
	req := httptest.NewRequest("GET", "http://example.com/", bytes.NewReader(r.Body))
	req.Method = r.Method
	req.URL = &url.URL{Scheme: "http", Host: "example.com", Path: r.Path, RawPath: r.RawPath, RawQuery: r.Query}
	req.RequestURI = req.URL.RequestURI()
	req.Header = r.Header.Clone()
	if req.Header == nil {
		req.Header = http.Header{}
	}
	req.ContentLength = int64(len(r.Body))
	if r.ContentLength != 0 {
		req.ContentLength = r.ContentLength
	}
	return req
}

func (r RawRequest) clone() RawRequest {
	c := r
	c.Header = r.Header.Clone()
	c.Body = append([]byte(nil), r.Body...)
	return c
}

type mutation struct {
	name   string
	expect string // "", "400", "415", "404", "405", "400|415"
	req    RawRequest
}

func isJSON(r RawRequest) bool {
	return strings.HasPrefix(r.Header.Get("Content-Type"), "application/json") && len(r.Body) > 0
}

// mutate derives mutants of a valid request. seed steers the undirected ones.
// typedParam is a primitive integer parameter together with texts just outside the range of its Go type.
type typedParam struct {
	In, Name string
	Outside  []string
}

// outsideOf lists integers just outside the range of the Go type that ogen uses for the format.
func outsideOf(format string) []string {
	switch format {
	case "int8":
		return []string{"128", "-129", "256"}
	case "int16":
		return []string{"32768", "-32769", "65536"}
	case "int32":
		return []string{"2147483648", "-2147483649", "4294967297"}
	case "uint8":
		return []string{"256", "-1"}
	case "uint16":
		return []string{"65536", "-1"}
	case "uint32":
		return []string{"4294967296", "-1"}
	case "uint64", "uint":
		return []string{"18446744073709551616", "-1"}
	case "", "int64", "int":
		return []string{"9223372036854775808", "-9223372036854775809"}
	}
	return nil
}

func mutate(base RawRequest, seed int, bodyRequired bool, scalarKeys []string, knownPaths bool, typed ...typedParam) []mutation {
	var out []mutation
	add := func(name, expect string, f func(r *RawRequest)) {
		r := base.clone()
		f(&r)
		out = append(out, mutation{name: name, expect: expect, req: r})
	}
	h := uint32(seed)*2654435761 + 12345
	next := func(n int) int {
		h = h*1664525 + 1013904223
		if n <= 0 {
			return 0
		}
		return int(h>>8) % n
	}
	if isJSON(base) {
		if len(base.Body) > 1 {
			k := 1 + next(len(base.Body)-1)
			exp := "400"
			if json.Valid(base.Body[:k]) {
				exp = "" // a proper prefix that is itself a JSON text (e.g. "12" of "123") carries no expectation
			}
			add("json-truncated", exp, func(r *RawRequest) { r.Body = r.Body[:k] })
		}
		add("json-trailing-garbage", "400", func(r *RawRequest) { r.Body = append(r.Body, []byte(" x")...) })
		add("json-trailing-value", "400", func(r *RawRequest) { r.Body = append(r.Body, []byte(" {}")...) })
		emptyExp := ""
		if bodyRequired {
			emptyExp = "400"
		}
		add("json-empty-body", emptyExp, func(r *RawRequest) { r.Body = nil })
		add("media-type-undeclared", "415", func(r *RawRequest) { r.Header.Set("Content-Type", "application/x-verif-unknown") })
		add("media-type-malformed", "400|415", func(r *RawRequest) { r.Header.Set("Content-Type", "application/") })
		add("media-type-missing", "400|415", func(r *RawRequest) { r.Header.Del("Content-Type") })
		add("media-type-with-charset", "", func(r *RawRequest) { r.Header.Set("Content-Type", "application/json; charset=utf-8") })
		add("json-byte-flip", "", func(r *RawRequest) { i := next(len(r.Body)); r.Body[i] ^= byte(1 << uint(next(7))) })
		add("json-replaced-null", "", func(r *RawRequest) { r.Body = []byte("null") })
		add("json-replaced-array", "", func(r *RawRequest) { r.Body = []byte("[[[[[[[[[[[[[[[[[[[[]]]]]]]]]]]]]]]]]]]]") })
		add("json-deep-nesting", "", func(r *RawRequest) { r.Body = []byte(strings.Repeat("[", 20000)) })
		add("json-duplicate-member", "", func(r *RawRequest) {
			if bytes.HasPrefix(r.Body, []byte("{")) && len(r.Body) > 2 {
				inner := string(r.Body[1 : len(r.Body)-1])
				r.Body = []byte("{" + inner + "," + inner + "}")
			}
		})
		add("json-huge-number", "", func(r *RawRequest) { r.Body = bytes.Replace(r.Body, []byte("1"), []byte("1e999999"), 1) })
		add("json-invalid-utf8", "", func(r *RawRequest) { r.Body = bytes.Replace(r.Body, []byte("\""), []byte("\"\xff\xfe"), 1) })
	}
	if len(base.Body) > 0 {
		if ct := base.Header.Get("Content-Type"); strings.Contains(ct, "/") {
			// a bare token is no media type: it matches no declared content type, wildcard or not
			tok := ct[:strings.Index(ct, "/")]
			add("media-type-bare-token", "400|415", func(r *RawRequest) { r.Header.Set("Content-Type", tok) })
			add("media-type-bare-token-with-parameter", "400|415", func(r *RawRequest) { r.Header.Set("Content-Type", strings.ToUpper(tok)+"; charset=utf-8") })
		}
		// the same body with an unknown length (chunked upload) or an absurd declared one
		add("content-length-unknown", "", func(r *RawRequest) { r.ContentLength = -1 })
		// a body of unknown length (chunked upload) that does not say what it is: the same answer as with a length
		add("media-type-missing+length-unknown", "400|415", func(r *RawRequest) { r.Header.Del("Content-Type"); r.ContentLength = -1 })
		add("content-length-huge", "", func(r *RawRequest) { r.ContentLength = 1 << 62 })
		add("content-length-too-small", "", func(r *RawRequest) { r.ContentLength = 1 })
	}
	// a second, different value under a key that carries ONE value (primitive parameter, object
	// field, non-exploded array): the parameter cannot be decoded unambiguously
	for _, k := range scalarKeys {
		key := k
		if strings.Contains("&"+base.Query+"&", "&"+url.QueryEscape(key)+"=") || strings.Contains("&"+base.Query+"&", "&"+key+"=") {
			add("query-scalar-key-repeated:"+key, "400", func(r *RawRequest) { r.Query = r.Query + "&" + url.QueryEscape(key) + "=zz9" })
		}
	}
	// an integer parameter just outside the range of its declared format is not a value of the schema
	for _, tp := range typed {
		tp := tp
		for _, text := range tp.Outside {
			text := text
			switch tp.In {
			case "query":
				parts := strings.Split(base.Query, "&")
				for i, kv := range parts {
					if k, _, ok := strings.Cut(kv, "="); ok && (k == tp.Name || k == url.QueryEscape(tp.Name)) {
						i := i
						add("integer-outside-format:"+tp.Name+"="+text, "400", func(r *RawRequest) {
							p2 := append([]string{}, parts...)
							p2[i] = k + "=" + text
							r.Query = strings.Join(p2, "&")
						})
						break
					}
				}
			case "header":
				if base.Header.Get(tp.Name) != "" {
					add("integer-outside-format:"+tp.Name+"="+text, "400", func(r *RawRequest) { r.Header.Set(tp.Name, text) })
				}
			}
		}
	}
	unknownExp := ""
	if knownPaths {
		unknownExp = "404" // the generated documents have no template that this path could instantiate
	}
	add("unknown-path", unknownExp, func(r *RawRequest) { r.Path = "/zz-unknown-zz" + r.Path + "/zz"; r.RawPath = "" })
	add("unknown-method", "405", func(r *RawRequest) { r.Method = "BREW" })
	add("method-lowercase", "405", func(r *RawRequest) { r.Method = strings.ToLower(r.Method) })
	add("path-trailing-slash", "", func(r *RawRequest) { r.Path += "/"; r.RawPath = "" })
	add("rawpath-invalid-escape", "", func(r *RawRequest) { r.RawPath = r.Path + "%zz" })
	add("rawpath-dangling-percent", "", func(r *RawRequest) { r.RawPath = r.Path + "%0a%" })
	add("rawpath-mismatch", "", func(r *RawRequest) { r.RawPath = "/totally/different" })
	add("path-empty", "", func(r *RawRequest) { r.Path = ""; r.RawPath = "" })
	add("path-star", "", func(r *RawRequest) { r.Path = "*"; r.RawPath = "" })
	add("path-no-leading-slash", "", func(r *RawRequest) { r.Path = strings.TrimPrefix(r.Path, "/"); r.RawPath = "" })
	if base.Query != "" {
		add("query-dropped", "", func(r *RawRequest) { r.Query = "" })
		add("query-duplicated", "", func(r *RawRequest) { r.Query = r.Query + "&" + r.Query })
		add("query-invalid-escape", "", func(r *RawRequest) { r.Query = r.Query + "&%zz=%" })
		add("query-semicolons", "", func(r *RawRequest) { r.Query = strings.ReplaceAll(r.Query, "&", ";") })
		parts := strings.Split(base.Query, "&")
		i := next(len(parts))
		add("query-one-key-dropped", "", func(r *RawRequest) {
			r.Query = strings.Join(append(append([]string{}, parts[:i]...), parts[i+1:]...), "&")
		})
		add("query-value-emptied", "", func(r *RawRequest) {
			if k, _, ok := strings.Cut(parts[i], "="); ok {
				p2 := append([]string{}, parts...)
				p2[i] = k + "="
				r.Query = strings.Join(p2, "&")
			}
		})
	}
	for name := range base.Header {
		if name == "Content-Type" || name == "Content-Length" {
			continue
		}
		n := name
		add("header-dropped:"+n, "", func(r *RawRequest) { r.Header.Del(n) })
		add("header-duplicated:"+n, "", func(r *RawRequest) { r.Header[n] = append(r.Header[n], r.Header[n]...) })
		add("header-garbage:"+n, "", func(r *RawRequest) { r.Header[n] = []string{"\x00,;=%zz\"", "=", ""} })
		// comma-separated lists with an odd number of tokens, a lone token, a trailing comma: a flat object
		// (name,value,name,value) that lacks its last value
		for _, val := range []string{"r", "r,100,g", "r,100,", ",", "r=1,g", "r,,"} {
			val := val
			add("header-odd-tokens:"+n+"="+val, "", func(r *RawRequest) { r.Header[n] = []string{val} })
		}
	}
	if base.Query != "" {
		parts := strings.Split(base.Query, "&")
		for i, kv := range parts {
			k, _, ok := strings.Cut(kv, "=")
			if !ok {
				continue
			}
			for _, val := range []string{"r", "r,100,g", "r,100,", ",", "r%2C100%2Cg"} {
				i, k, val := i, k, val
				add("query-odd-tokens:"+k+"="+val, "", func(r *RawRequest) {
					p2 := append([]string{}, parts...)
					p2[i] = k + "=" + val
					r.Query = strings.Join(p2, "&")
				})
			}
		}
	}
	add("cookie-garbage", "", func(r *RawRequest) { r.Header.Set("Cookie", "a=;=b;;c==d; e=\"x; %zz") })
	// every cookie the valid request carries, with its value replaced by texts whose percent-escapes are
	// broken at different places (after a valid escape, at the very end, in the middle)
	for _, ck := range (&http.Request{Header: base.Header}).Cookies() {
		name := ck.Name
		for _, val := range []string{"%41%", "%41%4", "abc%2Cdef%2", "%", "%4", "%zz", "%41%zz", "%2C%2C%", "a%", "%41%41%4", "r", "r,100,g", "r,100,", ","} {
			val := val
			add("cookie-broken-escape:"+name+"="+val, "", func(r *RawRequest) {
				var parts []string
				for _, c := range (&http.Request{Header: base.Header}).Cookies() {
					if c.Name == name {
						parts = append(parts, c.Name+"="+val)
					} else {
						parts = append(parts, c.Name+"="+c.Value)
					}
				}
				r.Header.Set("Cookie", strings.Join(parts, "; "))
			})
		}
	}
	add("huge-header", "", func(r *RawRequest) { r.Header.Set("X-Huge", strings.Repeat("a", 1<<16)) })
	add("body-on-bodyless", "", func(r *RawRequest) {
		if len(r.Body) == 0 {
			r.Body = []byte(`{"unexpected":true}`)
			r.Header.Set("Content-Type", "application/json")
		}
	})
	return out
}

// RunFuzz is the aggregator entry point of C15.
func RunFuzz(t *testing.T) {
	u := vk.New(t, "C15", "requests")
	defer u.Close()
	batch := os.Getenv("VERIF_BATCH_DIR")
	for _, name := range reg.Names() {
		p := reg.Get(name)
		data, err := os.ReadFile(filepath.Join(batch, "pkgs", name, "meta.json"))
		if err != nil {
			t.Fatalf("meta for %s: %v", name, err)
		}
		var meta struct {
			Meta
			FuzzReplay *FuzzCase `json:"fuzz_replay,omitempty"`
		}
		if err := json.Unmarshal(data, &meta); err != nil {
			t.Fatalf("meta for %s: %v", name, err)
		}
		fuzzPackage(u, p, meta.Meta, meta.FuzzReplay, name)
	}
}

func fuzzPackage(u *vk.Unit, p *reg.Package, meta Meta, replay *FuzzCase, pkg string) {
	if p.NewServer == nil || p.NewClient == nil {
		u.Label("package-without-client-or-server")
		return
	}
	var st *state
	call := securityAware(p, func(ctx context.Context, iface, method string, args []any) ([]any, error) {
		if iface != reg.IfaceHandler || st == nil {
			return nil, nil
		}
		st.handlerCalls++
		st.handlerArgs = args
		return st.response, st.respErr
	})
	srv, err := p.NewServer(reg.ServerConfig{Call: call})
	if err != nil {
		u.T.Fatalf("server: %v", err)
	}
	var captured RawRequest
	cli, err := p.NewClient("http://example.com", reg.ClientConfig{Call: call, HTTPClient: captureOnly{got: &captured}})
	if err != nil {
		u.T.Fatalf("client: %v", err)
	}
	cv := reflect.ValueOf(cli)

	serve := func(r RawRequest) (w *countingWriter, panicked string) {
		w = &countingWriter{ResponseRecorder: httptest.NewRecorder()}
		func() {
			defer func() {
				if rec := recover(); rec != nil {
					panicked = fmt.Sprintf("%v\n%s", rec, trim(string(debug.Stack()), 1800))
				}
			}()
			srv.ServeHTTP(w, r.build())
		}()
		return
	}
	judge := func(mname, expect string, r RawRequest, handlerErr bool) *vk.Finding {
		w, panicked := serve(r)
		desc := fmt.Sprintf("%s %s?%s (RawPath %q) body %q headers %v [mutation %s]", r.Method, r.Path, r.Query, r.RawPath, trim(string(r.Body), 200), trimHeader(r.Header), mname)
		if panicked != "" {
			return vk.F("server-panic", "%s: ServeHTTP panics: %s", desc, panicked)
		}
		responses := w.explicit + w.implicit
		if responses != 1 {
			return vk.F("not-exactly-one-response", "%s: %d explicit WriteHeader calls, implicit=%d", desc, w.explicit, w.implicit)
		}
		invoked := st.handlerCalls > 0
		code := w.Code
		if !invoked {
			switch code {
			case 400, 401, 404, 405, 415:
			case 204:
				if r.Method != "OPTIONS" {
					return vk.F("rejected-with-unexpected-status", "%s: handler not invoked, status %d", desc, code)
				}
			default:
				return vk.F("rejected-with-unexpected-status", "%s: handler not invoked, status %d (want 400/401/404/405/415): %s", desc, code, trim(w.Body.String(), 200))
			}
		} else {
			// no over-acceptance: what reached the handler passes its own validation
			var vals []reflect.Value
			for _, a := range st.handlerArgs {
				vals = append(vals, reflect.ValueOf(a))
			}
			if err := validateAll(vals); err != nil {
				return vk.F("handler-received-invalid-value", "%s: the handler received arguments that fail their own Validate(): %v", desc, err)
			}
			if handlerErr {
				if code < 400 {
					return vk.F("handler-error-not-surfaced", "%s: handler returned an error, status %d", desc, code)
				}
			}
		}
		if expect != "" {
			okStatus := false
			for _, e := range strings.Split(expect, "|") {
				if fmt.Sprint(code) == e {
					okStatus = true
				}
			}
			if invoked || !okStatus {
				return vk.F("directed:"+mname, "%s: expected status %s with the handler untouched, got %d (handler invoked=%v): %s", desc, expect, code, invoked, trim(w.Body.String(), 200))
			}
		}
		return nil
	}

	if replay != nil {
		st = &state{}
		if replay.HandlerErr {
			st.respErr = errors.New("verif: handler failure")
		}
		u.Eval(1)
		// a scripted response is needed when the handler is reached: build one for every operation lazily
		st.response = nil
		f := judgeReplay(u, p, meta, replay, judge, &st)
		u.Report(f, *replay)
		return
	}

	per := vk.N(12, 80)
	for _, m := range p.Interfaces[reg.IfaceHandler] {
		if m.Name == "NewError" {
			continue
		}
		cm := cv.MethodByName(m.Name)
		if !cm.IsValid() {
			continue
		}
		bld := &valgen.Builder{Class: valgen.Core, Variants: p.Variants, Types: p.Types, TimeFormat: meta.TimeFormat, Hook: statusHook(meta, m.Name), MaxDepth: 3}
		type built struct {
			args []reflect.Value
			resp reflect.Value
		}
		g := rapid.Custom(func(t *rapid.T) built {
			var b built
			for _, at := range m.Args {
				a := bld.Build(t, at, 0)
				if at.Kind() == reflect.Pointer && a.IsNil() {
					a = reflect.New(at.Elem())
					a.Elem().Set(bld.Build(t, at.Elem(), 1))
				}
				b.args = append(b.args, a)
			}
			if len(m.Results) > 0 {
				b.resp = bld.Build(t, m.Results[0], 0)
				if m.Results[0].Kind() == reflect.Pointer && b.resp.IsNil() {
					b.resp = reflect.New(m.Results[0].Elem())
					b.resp.Elem().Set(bld.Build(t, m.Results[0].Elem(), 1))
				}
			}
			return b
		})
		for i := 0; i < per; i++ {
			seed := int(vk.Seed())*7919 + i
			var b built
			ok := func() (ok bool) {
				defer func() {
					if r := recover(); r != nil {
						u.Label("builder-failed")
					}
				}()
				b = g.Example(seed)
				return true
			}()
			if !ok {
				continue
			}
			if b.resp.IsValid() && isNilable(b.resp) && b.resp.IsNil() {
				continue
			}
			if validateAll(b.args) != nil || (b.resp.IsValid() && validateAll([]reflect.Value{b.resp}) != nil) {
				u.Label("built-value-invalid")
				continue
			}
			// capture the request the client would send
			captured = RawRequest{}
			in := []reflect.Value{reflect.ValueOf(context.Background())}
			in = append(in, b.args...)
			func() {
				defer func() { _ = recover() }()
				cm.Call(in)
			}()
			if captured.Method == "" {
				u.Label("client-refused-to-send")
				continue
			}
			base := captured.clone()
			mkState := func(handlerErr bool) {
				st = &state{}
				if b.resp.IsValid() {
					st.response = []any{b.resp.Interface()}
				}
				if handlerErr {
					st.respErr = errors.New("verif: handler failure")
				}
			}
			// the unmutated request
			mkState(false)
			u.Eval(1)
			if f := judge("none", "", base, false); f != nil {
				u.Report(f, FuzzCase{Doc: meta.Doc, TimeFormat: meta.TimeFormat, Mutation: "none", Request: base})
				continue
			}
			if st.handlerCalls == 0 {
				u.Label("base-request-not-served") // C01's business
				continue
			}
			u.Label("base-request-served")
			// handler failure surfaces as an error response
			mkState(true)
			u.Eval(1)
			if f := judge("handler-error", "", base, true); f != nil {
				u.Report(f, FuzzCase{Doc: meta.Doc, TimeFormat: meta.TimeFormat, Mutation: "handler-error", HandlerErr: true, Request: base})
			}
			bodyRequired := false
			for _, op := range meta.Doc.Ops {
				if strings.EqualFold(op.ID, m.Name) && op.Body != nil && op.Body.Required {
					bodyRequired = true
				}
			}
			var scalarKeys []string
			for _, op := range meta.Doc.Ops {
				if !strings.EqualFold(op.ID, m.Name) {
					continue
				}
				for _, prm := range op.Params {
					if prm.In != "query" || prm.Schema == nil {
						continue
					}
					explode := prm.Explode == nil || *prm.Explode
					switch prm.Schema.Type {
					case "array":
						if !explode {
							scalarKeys = append(scalarKeys, prm.Name)
						}
					case "object":
						for _, f := range prm.Schema.Props {
							switch {
							case prm.Style == "deepObject":
								scalarKeys = append(scalarKeys, prm.Name+"["+f.Name+"]")
							case explode:
								scalarKeys = append(scalarKeys, f.Name)
							}
						}
						if prm.Style != "deepObject" && !explode {
							scalarKeys = append(scalarKeys, prm.Name)
						}
					default:
						scalarKeys = append(scalarKeys, prm.Name)
					}
				}
			}
			var typed []typedParam
			for _, op := range meta.Doc.Ops {
				if !strings.EqualFold(op.ID, m.Name) {
					continue
				}
				for _, prm := range op.Params {
					sch := meta.Doc.Components.Resolve(prm.Schema)
					if sch == nil || sch.Type != "integer" || prm.Content != "" || (prm.In != "query" && prm.In != "header") {
						continue
					}
					if out := outsideOf(sch.Format); out != nil {
						typed = append(typed, typedParam{In: prm.In, Name: prm.Name, Outside: out})
					}
				}
			}
			for _, mu := range mutate(base, seed, bodyRequired, scalarKeys, meta.Name == "", typed...) {
				mkState(false)
				u.Eval(1)
				f := judge(mu.name, mu.expect, mu.req, false)
				kind := mu.name
				if j := strings.IndexByte(kind, ':'); j >= 0 {
					kind = kind[:j]
				}
				u.Label("mutation:" + kind)
				if st.handlerCalls > 0 {
					u.Label("mutant-reached-handler")
				}
				if w := 0; mu.expect != "" || st.handlerCalls == 0 && w == 0 {
					u.NonTrivial(pkg + "\x00" + m.Name + "\x00" + mu.name + "\x00" + mu.req.Method + mu.req.Path + mu.req.RawPath + mu.req.Query + string(mu.req.Body))
				}
				if i == 0 {
					u.Sample(map[string]any{"operation": m.Name, "mutation": mu.name, "expect": mu.expect, "method": mu.req.Method, "path": mu.req.Path, "query": mu.req.Query, "body": trim(string(mu.req.Body), 120)})
				}
				if f != nil {
					u.Report(f, FuzzCase{Doc: meta.Doc, TimeFormat: meta.TimeFormat, Mutation: mu.name, Expect: mu.expect, Request: mu.req})
				}
			}
		}
	}
}

// judgeReplay re-evaluates a saved case; the scripted response is built for
// whichever operation the request reaches (a zero value of its result type).
func judgeReplay(u *vk.Unit, p *reg.Package, meta Meta, c *FuzzCase, judge func(string, string, RawRequest, bool) *vk.Finding, stp **state) *vk.Finding {
	// scripted response: the handler glue turns a nil entry into the zero value of the result type,
	// which is enough to reproduce routing / decoding / panic findings
	return judge(c.Mutation, c.Expect, c.Request, c.HandlerErr)
}

func trimHeader(h http.Header) string {
	s := fmt.Sprint(map[string][]string(h))
	return trim(s, 300)
}
