package c01x

// Executor of property C19: any number of goroutines may use one generated client and
// one generated server at the same time. The aggregator is compiled with -race; every
// call's outcome under concurrency must equal its outcome in a sequential run on fresh
// instances, and the multiset of argument values the handler receives must be the same
// (leakage of parameters, bodies or pooled buffers between requests changes one of them).

import (
	"bytes"
	"context"
	"encoding/json"
	"fmt"
	"github.com/ogen-go/ogen/middleware"
	"hash/fnv"
	"io"
	"net/http"
	"net/http/httptest"
	"os"
	"path/filepath"
	"reflect"
	"regexp"
	"runtime"
	"sort"
	"strings"
	"sync"
	"sync/atomic"
	"testing"

	"pgregory.net/rapid"

	"verif/internal/reg"
	"verif/internal/valgen"
	"verif/internal/vk"
)

// ConcCase is the replay unit of C19 (the whole call list is regenerated from the seed).
type ConcCase struct {
	Doc        any    `json:"doc"`
	TimeFormat string `json:"time_format"`
	Seed       int    `json:"seed"`
	Goroutines int    `json:"goroutines"`
	Procs      int    `json:"procs"`
	Call       int    `json:"call"`
}

type concCall struct {
	op   reg.Method
	cm   string
	args []reflect.Value
}

var portRe = regexp.MustCompile(`127\.0\.0\.1:[0-9]+`)

// error texts are compared by shape: quoted member names and values inside them may come from
// Go map iteration ("unexpected field \"zzabc\"" names whichever additional member came first)
var digitsRe = regexp.MustCompile(`[0-9]+`) // byte offsets in decode errors depend on member order too

var quotedRe = regexp.MustCompile(`\\?"[^"\\]*\\?"`)

func hashStr(s string) uint64 {
	h := fnv.New64a()
	h.Write([]byte(s))
	return h.Sum64()
}

// canonical re-marshals a JSON text with sorted member names (additional properties live in Go
// maps, so the generated MarshalJSON emits them in random order).
func canonical(b []byte) string {
	var v any
	d := json.NewDecoder(bytes.NewReader(b))
	d.UseNumber()
	if err := d.Decode(&v); err != nil {
		return string(b)
	}
	out, err := json.Marshal(v)
	if err != nil {
		return string(b)
	}
	return string(out)
}

func renderArgs(args []any) string {
	b, err := json.Marshal(args)
	if err != nil {
		return fmt.Sprintf("unrenderable %d args", len(args))
	}
	return canonical(b)
}

// RunConcurrent is the aggregator entry point of C19.
func RunConcurrent(t *testing.T) {
	u := vk.New(t, "C19", "concurrent")
	defer u.Close()
	batch := os.Getenv("VERIF_BATCH_DIR")
	for _, name := range reg.Names() {
		p := reg.Get(name)
		data, err := os.ReadFile(filepath.Join(batch, "pkgs", name, "meta.json"))
		if err != nil {
			t.Fatalf("meta for %s: %v", name, err)
		}
		var meta Meta
		if err := json.Unmarshal(data, &meta); err != nil {
			t.Fatalf("meta for %s: %v", name, err)
		}
		concPackage(u, p, meta, name)
	}
}

func concPackage(u *vk.Unit, p *reg.Package, meta Meta, pkg string) {
	if p.NewServer == nil || p.NewClient == nil {
		return
	}
	seed := int(vk.Seed())*31337 + 7
	// responses: a pool of valid values per operation; the handler picks by a hash of what it received
	pools := map[string][]any{}
	var calls []concCall
	perOp := vk.N(16, 60)
	for _, m := range p.Interfaces[reg.IfaceHandler] {
		if m.Name == "NewError" {
			continue
		}
		bld := &valgen.Builder{Class: valgen.Core, Variants: p.Variants, Types: p.Types, TimeFormat: meta.TimeFormat, Hook: statusHook(meta, m.Name), MaxDepth: 3}
		type built struct {
			args []reflect.Value
			resp reflect.Value
		}
		g := rapid.Custom(func(t *rapid.T) built {
			var b built
			for _, at := range m.Args {
				a := bld.Build(t, at, 0)
				if at.Kind() == reflect.Pointer && a.IsNil() {
					a = reflect.New(at.Elem())
					a.Elem().Set(bld.Build(t, at.Elem(), 1))
				}
				b.args = append(b.args, a)
			}
			if len(m.Results) > 0 {
				b.resp = bld.Build(t, m.Results[0], 0)
				if m.Results[0].Kind() == reflect.Pointer && b.resp.IsNil() {
					b.resp = reflect.New(m.Results[0].Elem())
					b.resp.Elem().Set(bld.Build(t, m.Results[0].Elem(), 1))
				}
			}
			return b
		})
		for i := 0; i < perOp; i++ {
			var b built
			ok := func() (ok bool) {
				defer func() { _ = recover() }()
				b = g.Example(seed + i)
				return true
			}()
			if !ok {
				continue
			}
			if b.resp.IsValid() {
				if isNilable(b.resp) && b.resp.IsNil() {
					continue
				}
				if validateAll([]reflect.Value{b.resp}) == nil {
					pools[m.Name] = append(pools[m.Name], b.resp.Interface())
				}
			}
			// mixed valid and failing requests: both kinds are kept
			calls = append(calls, concCall{op: m, cm: m.Name, args: b.args})
		}
	}
	if len(calls) == 0 {
		return
	}
	type outcome struct {
		result string
		errc   string
	}
	// pools without single-use values (a response that carries an io.Reader can be read once: two calls that
	// are answered with the same value would race in the HARNESS); used by the cold run below
	coldPools := map[string][]any{}
	for name, pool := range pools {
		for _, v := range pool {
			if !holdsReader(reflect.ValueOf(v), 0) {
				coldPools[name] = append(coldPools[name], v)
			}
		}
	}
	activePools := pools
	run := func(goroutines, procs int) ([]outcome, []string, error) {
		pools := activePools
		var mu sync.Mutex
		var received []string
		call := securityAware(p, func(ctx context.Context, iface, method string, args []any) ([]any, error) {
			if iface != reg.IfaceHandler {
				return nil, nil
			}
			r := method + renderArgs(args)
			mu.Lock()
			received = append(received, r)
			mu.Unlock()
			pool := pools[method]
			if len(pool) == 0 {
				return nil, nil
			}
			return []any{pool[hashStr(r)%uint64(len(pool))]}, nil
		})
		// three pass-through middlewares chained by ogen's own ChainMiddlewares (what WithMiddleware(a, b, c)
		// does): the chain is shared by all requests in flight
		var mwCalls atomic.Int64
		pass := func(req middleware.Request, next middleware.Next) (middleware.Response, error) {
			mwCalls.Add(1)
			return next(req)
		}
		srv, err := p.NewServer(reg.ServerConfig{Call: call, Middleware: middleware.ChainMiddlewares(pass, pass, pass)})
		if err != nil {
			return nil, nil, err
		}
		ts := httptest.NewServer(srv)
		defer ts.Close()
		// no connection reuse: net/http's Transport silently RETRIES idempotent requests when a reused
		// keep-alive connection turns out to be closed, which shows up as extra handler invocations
		// under load and has nothing to do with the generated code
		hc := ts.Client()
		if tr, ok := hc.Transport.(*http.Transport); ok {
			tr2 := tr.Clone()
			tr2.DisableKeepAlives = true
			hc = &http.Client{Transport: tr2}
		}
		cli, err := p.NewClient(ts.URL, reg.ClientConfig{Call: call, HTTPClient: hc})
		if err != nil {
			return nil, nil, err
		}
		cv := reflect.ValueOf(cli)
		outs := make([]outcome, len(calls))
		doCall := func(i int) {
			c := calls[i]
			cm := cv.MethodByName(c.cm)
			in := []reflect.Value{reflect.ValueOf(context.Background())}
			in = append(in, c.args...)
			var out []reflect.Value
			func() {
				defer func() {
					if r := recover(); r != nil {
						outs[i] = outcome{errc: fmt.Sprintf("panic: %v", r)}
					}
				}()
				out = cm.Call(in)
			}()
			if out == nil {
				return
			}
			o := outcome{}
			if e, ok := out[len(out)-1].Interface().(error); ok && e != nil {
				o.errc = digitsRe.ReplaceAllString(quotedRe.ReplaceAllString(portRe.ReplaceAllString(e.Error(), "HOST"), `"…"`), "N")
			} else if len(out) > 1 {
				if b, err := json.Marshal(out[0].Interface()); err == nil {
					o.result = canonical(b)
				} else {
					o.result = "unrenderable " + out[0].Type().String()
				}
			}
			outs[i] = o
		}
		if goroutines <= 1 {
			for i := range calls {
				doCall(i)
			}
		} else {
			old := runtime.GOMAXPROCS(procs)
			defer runtime.GOMAXPROCS(old)
			var wg sync.WaitGroup
			next := make(chan int, len(calls))
			for i := range calls {
				next <- i
			}
			close(next)
			for g := 0; g < goroutines; g++ {
				wg.Add(1)
				go func() {
					defer wg.Done()
					for i := range next {
						doCall(i)
					}
				}()
			}
			wg.Wait()
		}
		sort.Strings(received)
		return outs, received, nil
	}
	// cold start: for every second package the FIRST use of the generated code in this process is a
	// concurrent one (whatever the package initialises lazily is initialised by 16 goroutines at once).
	// Only what needs no reference is judged there (the race detector watches, a panic is a panic): the
	// sequential reference runs afterwards.
	hp := fnv.New32a()
	hp.Write([]byte(pkg))
	if hp.Sum32()%2 == 0 {
		activePools = coldPools
		coldOuts, _, err := run(16, 16)
		activePools = pools
		if err != nil {
			u.T.Fatalf("cold concurrent run: %v", err)
		}
		u.Label("cold-start-concurrent-first")
		u.Eval(len(calls))
		for i := range calls {
			if strings.HasPrefix(coldOuts[i].errc, "panic:") {
				u.Report(vk.F("concurrent-panic", "%s call %d (%s%s): panics when the first use of the package is concurrent: %s", pkg, i, calls[i].cm, renderValues(calls[i].args), trim(coldOuts[i].errc, 400)),
					ConcCase{Doc: meta.Doc, TimeFormat: meta.TimeFormat, Seed: seed, Goroutines: 16, Procs: 16, Call: i})
				break
			}
		}
	}
	seq, seqRecv, err := run(1, 0)
	if err != nil {
		u.T.Fatalf("sequential run: %v", err)
	}
	// calls whose outcome is not a function of the call even WITHOUT concurrency (error texts that name
	// "the first" offending member of a Go map, documents whose acceptance depends on map order) are
	// found by a second sequential run on fresh instances and taken out of the comparison
	seq2, seqRecv2, err := run(1, 0)
	if err != nil {
		u.T.Fatalf("second sequential run: %v", err)
	}
	unstable := map[int]bool{}
	for i := range calls {
		if seq[i] != seq2[i] {
			unstable[i] = true
			u.Label("call-unstable-without-concurrency")
		}
	}
	recvComparable := reflect.DeepEqual(seqRecv, seqRecv2)
	if !recvComparable {
		u.Label("package-handler-arguments-unstable-without-concurrency")
	}
	configs := [][2]int{{8, 16}, {2, 2}, {64, 4}}
	if vk.Tier() == "thorough" {
		configs = append(configs, [2]int{8, 1}, [2]int{64, 16}, [2]int{16, 2}, [2]int{8, 16}, [2]int{64, 4})
	}
	for _, cfg := range configs {
		outs, recv, err := run(cfg[0], cfg[1])
		if err != nil {
			u.T.Fatalf("concurrent run: %v", err)
		}
		u.Eval(len(calls))
		u.Label(fmt.Sprintf("goroutines=%d,procs=%d", cfg[0], cfg[1]))
		for i := range calls {
			if unstable[i] {
				continue
			}
			if outs[i] != seq[i] {
				u.Report(vk.F("concurrent-outcome-differs", "%s call %d (%s%s): alone it gives result %q error %q, among %d goroutines (GOMAXPROCS %d) result %q error %q",
					pkg, i, calls[i].cm, renderValues(calls[i].args), trim(seq[i].result, 300), trim(seq[i].errc, 300), cfg[0], cfg[1], trim(outs[i].result, 300), trim(outs[i].errc, 300)),
					ConcCase{Doc: meta.Doc, TimeFormat: meta.TimeFormat, Seed: seed, Goroutines: cfg[0], Procs: cfg[1], Call: i})
				break
			}
			if seq[i].errc == "" {
				u.NonTrivial(fmt.Sprintf("%s|%d|%d|%d|%s", pkg, cfg[0], cfg[1], i, seq[i].result))
			}
		}
		if recvComparable && !reflect.DeepEqual(recv, seqRecv) {
			// multiset difference: what arrived only alone / only under concurrency
			cnt := map[string]int{}
			for _, r := range seqRecv {
				cnt[r]++
			}
			for _, r := range recv {
				cnt[r]--
			}
			var onlySeq, onlyConc []string
			for r, c := range cnt {
				if c > 0 {
					onlySeq = append(onlySeq, trim(r, 200))
				} else if c < 0 {
					onlyConc = append(onlyConc, trim(r, 200))
				}
			}
			sort.Strings(onlySeq)
			sort.Strings(onlyConc)
			diff := fmt.Sprintf("only alone: %q; only under concurrency: %q", first(onlySeq, 3), first(onlyConc, 3))
			u.Report(vk.F("concurrent-handler-arguments-differ", "%s: the handler received a different multiset of arguments among %d goroutines (%d vs %d calls; first difference %s)", pkg, cfg[0], len(seqRecv), len(recv), diff),
				ConcCase{Doc: meta.Doc, TimeFormat: meta.TimeFormat, Seed: seed, Goroutines: cfg[0], Procs: cfg[1], Call: -1})
		}
	}
	u.Sample(map[string]any{"package": pkg, "calls": len(calls), "operations": len(pools), "first_call": calls[0].cm + renderValues(calls[0].args)})
}

// holdsReader: the value is or contains (struct fields, pointers, slices, interfaces) an io.Reader.
func holdsReader(v reflect.Value, depth int) bool {
	if !v.IsValid() || depth > 6 {
		return false
	}
	if v.CanInterface() {
		if _, ok := v.Interface().(io.Reader); ok {
			return true
		}
	}
	switch v.Kind() {
	case reflect.Pointer, reflect.Interface:
		if v.IsNil() {
			return false
		}
		return holdsReader(v.Elem(), depth+1)
	case reflect.Struct:
		for i := 0; i < v.NumField(); i++ {
			if v.Type().Field(i).IsExported() && holdsReader(v.Field(i), depth+1) {
				return true
			}
		}
	case reflect.Slice, reflect.Array:
		for i := 0; i < v.Len() && i < 8; i++ {
			if holdsReader(v.Index(i), depth+1) {
				return true
			}
		}
	}
	return false
}

func renderValues(vs []reflect.Value) string {
	var a []any
	for _, v := range vs {
		a = append(a, v.Interface())
	}
	return trim(renderArgs(a), 400)
}

func first(l []string, n int) []string {
	if len(l) > n {
		return l[:n]
	}
	return l
}
