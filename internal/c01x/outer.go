package c01x

// Outer side shared by the checks that run on exchange-profile packages (C01, C15, C19):
// document generation, generator configurations, status table from the IR, batch runner.

import (
	"encoding/json"
	"fmt"
	"os"
	"path/filepath"
	"sort"
	"strings"

	"pgregory.net/rapid"

	"github.com/ogen-go/ogen/gen"
	"github.com/ogen-go/ogen/gen/ir"

	"verif/internal/regen"
	"verif/internal/specgen"
	"verif/internal/vk"
)

func mergeMeta(m Meta, extra map[string]any) map[string]any {
	b, _ := json.Marshal(m)
	out := map[string]any{}
	_ = json.Unmarshal(b, &out)
	for k, v := range extra {
		out[k] = v
	}
	return out
}

type SpecCase struct {
	Meta Meta `json:"meta"`
	// SpecText, if set, is the document text (corpus files); otherwise Meta.Doc is rendered.
	SpecText string `json:"spec_text,omitempty"`
	Infer    bool   `json:"infer,omitempty"`
	// Extra is merged into the meta file (executor-specific replay data).
	Extra  map[string]any `json:"extra,omitempty"`
	Config regen.Config   `json:"config"`
}

type BatchCase struct {
	Specs []SpecCase `json:"specs"`
}

var Configs = []regen.Config{
	regen.ClientServer(),
	{DisableAll: true, Enable: []string{"paths/client", "paths/server", "client/request/validation", "server/response/validation"}},
	{DisableAll: true, Enable: []string{"paths/client", "paths/server", "client/request/options"}},
	{}, // defaults (with OpenTelemetry)
	{DisableAll: true, Enable: []string{"paths/client", "paths/server"}, ConvenientErrors: "off"},
}

func DrawSpec(t *rapid.T) SpecCase {
	tf := rapid.SampledFrom([]string{"date-time", "date-time", "date-time", "date", "date", "time", "time", "unix", "unix-seconds", "unix-milli", "unix-micro", "unix-nano"}).Draw(t, "timeformat")
	eo := specgen.ExchangeOptions{Formats: rapid.IntRange(0, 2).Draw(t, "formats") == 0, TimeFormat: tf}
	doc := specgen.GenExchangeDoc(t, eo)
	return SpecCase{Meta: Meta{Doc: doc, TimeFormat: tf}, Config: Configs[rapid.IntRange(0, len(Configs)-1).Draw(t, "config")]}
}

// DrawBatchECMA is DrawBatch for checks that compare runs with each other (C19): half of the
// documents carry patterns that need ogen's backtracking matcher.
func DrawBatchECMA(t *rapid.T) BatchCase {
	var b BatchCase
	for i := 0; i < 12; i++ {
		if i%2 == 0 {
			b.Specs = append(b.Specs, DrawSpec(t))
			continue
		}
		tf := rapid.SampledFrom([]string{"date-time", "date", "time"}).Draw(t, "timeformat")
		doc := specgen.GenExchangeDoc(t, specgen.ExchangeOptions{TimeFormat: tf, ECMAPatterns: true})
		b.Specs = append(b.Specs, SpecCase{Meta: Meta{Doc: doc, TimeFormat: tf}, Config: Configs[rapid.IntRange(0, len(Configs)-1).Draw(t, "config")]})
	}
	return b
}

func DrawBatch(t *rapid.T) BatchCase {
	var b BatchCase
	for i := 0; i < 12; i++ {
		b.Specs = append(b.Specs, DrawSpec(t))
	}
	return b
}

// RunBatch generates, compiles and runs a batch; entry is the executor function ("Run" for C01, "RunFuzz" for C15, …).
func RunBatch(u *vk.Unit, tag string, specs []SpecCase, entry string, race bool) {
	RunBatchOut(u, tag, specs, entry, race)
}

// RunBatchOut is RunBatch returning the executor's output (race reports are read from it).
func RunBatchOut(u *vk.Unit, tag string, specs []SpecCase, entry string, race bool) string {
	b, err := regen.NewBatch(tag)
	if err != nil {
		u.T.Fatalf("batch: %v", err)
	}
	defer b.Remove()
	for i, sc := range specs {
		text := []byte(sc.SpecText)
		if len(text) == 0 {
			text = sc.Meta.Doc.Render()
		}
		cfg := sc.Config
		if sc.Infer {
			cfg.InferTypes = true
			cfg.IgnoreNotImplemented = []string{"all"}
		}
		// response wrapper types and the status classes they serve come from the generator's IR
		// (reflection cannot see them): generate once in memory, then for real with the completed meta
		if pre := regen.Generate(text, cfg, "", "api"); pre.Class == regen.OK && pre.Gen != nil {
			sc.Meta.StatusTable, sc.Meta.Explicit = StatusTable(pre.Gen)
		}
		var metaOut any = sc.Meta
		if sc.Extra != nil {
			metaOut = mergeMeta(sc.Meta, sc.Extra)
		}
		out := b.Add(fmt.Sprintf("s%d", i), text, cfg, metaOut)
		u.Eval(1)
		u.Label("generate:" + out.Class)
		switch out.Class {
		case regen.OK, regen.NotImplemented, regen.SpecDiagnostic:
		default:
			u.Report(vk.F("generator-"+out.Class, "generation ends with %s: %s", out.Class, tailStr(out.Err, 600)), sc.Meta.Doc)
		}
	}
	if len(b.Pkgs) == 0 {
		return ""
	}
	res := b.Build()
	for _, e := range res.Failed {
		u.Label("compile-failed")
		u.Note("compile failure (C02's business, counted only): %s", tailStr(e, 300))
	}
	if len(res.OK) == 0 {
		return ""
	}
	u.LabelN("compiled", len(res.OK))
	out, err := b.RunAggregator(res.OK, "verif/internal/c01x", entry, race, []string{"VERIF_PART=" + tag})
	if err != nil && !strings.Contains(out, "VIOLATION") && !strings.Contains(out, "WARNING: DATA RACE") {
		u.T.Errorf("aggregator failed (harness trouble): %v\n%s", err, tailStr(out, 3000))
	}
	if strings.Contains(out, "HARNESS:") {
		u.T.Errorf("harness problem reported by the executor:\n%s", tailStr(out, 3000))
	}
	return out
}

func StatusTable(g *gen.Generator) (map[string]map[string][]string, map[string][]int) {
	table := map[string]map[string][]string{}
	explicit := map[string][]int{}
	add := func(op string, r *ir.Response, class string) {
		if r == nil {
			return
		}
		if table[op] == nil {
			table[op] = map[string][]string{}
		}
		names := []string{}
		if r.NoContent != nil {
			names = append(names, r.NoContent.Name)
		}
		for _, m := range r.Contents {
			if m.Type != nil {
				names = append(names, m.Type.Name)
			}
		}
		for _, n := range names {
			if n != "" {
				table[op][n] = append(table[op][n], class)
			}
		}
	}
	for _, op := range g.Operations() {
		if op.Responses == nil {
			continue
		}
		for code := range op.Responses.StatusCode {
			explicit[op.Name] = append(explicit[op.Name], code)
		}
		sort.Ints(explicit[op.Name])
		for i, r := range op.Responses.Pattern {
			add(op.Name, r, fmt.Sprintf("%dXX", i+1))
		}
		add(op.Name, op.Responses.Default, "default")
	}
	return table, explicit
}

func tailStr(s string, n int) string {
	if len(s) > n {
		return "…" + s[len(s)-n:]
	}
	return s
}

// CorpusSpecs returns the repository corpus as SpecCases (documents up to maxSize bytes), under
// the no-OpenTelemetry client+server configuration; every shard takes its slice.
func CorpusSpecs(maxSize int) []SpecCase {
	var out []SpecCase
	shard, shards := vk.Shard()
	n := 0
	for _, g := range []string{"_testdata/positive/*.*", "_testdata/examples/*.*"} {
		m, _ := filepath.Glob(filepath.Join(regen.Repo(), g))
		sort.Strings(m)
		for _, f := range m {
			data, err := os.ReadFile(f)
			if err != nil || len(data) == 0 || len(data) > maxSize {
				continue
			}
			n++
			if n%shards != shard {
				continue
			}
			cfg := regen.ClientServer()
			if strings.Contains(f, "convenient_errors") {
				cfg.ConvenientErrors = "on"
			}
			out = append(out, SpecCase{Meta: Meta{TimeFormat: "date-time", Name: filepath.Base(f)}, Config: cfg, SpecText: string(data), Infer: true})
		}
	}
	return out
}

// IntegerFormatsDoc is a fixed document with one required query and one required header parameter
// per integer format (and the format-less integer): the directed family "integer just outside the
// range of the declared format" of C15 is complete on it in every run.
func IntegerFormatsDoc() specgen.Doc {
	var d specgen.Doc
	formats := []string{"", "int8", "int16", "int32", "int64", "uint8", "uint16", "uint32", "uint64", "uint", "int"}
	for i, in := range []string{"query", "header"} {
		op := specgen.Operation{ID: fmt.Sprintf("fmt%d", i), Method: "GET", Path: fmt.Sprintf("/fmt%d", i),
			Responses: []specgen.Response{{Code: "200"}}}
		for _, f := range formats {
			name := "p" + f
			if in == "header" {
				name = "X-P" + f
			}
			op.Params = append(op.Params, specgen.Param{Name: name, In: in, Required: true, Schema: &specgen.Schema{Type: "integer", Format: f}})
		}
		d.Ops = append(d.Ops, op)
	}
	// request bodies declared by a wildcard media type (the directed family "a bare token is no media type")
	for i, mask := range []string{"application/*", "*/*"} {
		d.Ops = append(d.Ops, specgen.Operation{ID: fmt.Sprintf("mask%d", i), Method: "POST", Path: fmt.Sprintf("/mask%d", i),
			Body:      &specgen.Body{Required: true, Media: []specgen.Media{{ContentType: mask, Schema: &specgen.Schema{Type: "string", Format: "binary"}}}},
			Responses: []specgen.Response{{Code: "200"}}})
	}
	return d
}
