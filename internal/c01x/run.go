// Package c01x is the executor of property C01: the regenerated client invokes
// every operation on the regenerated server over a loopback HTTP connection;
// a recording handler and a recording middleware capture what arrives, the
// handler answers with a generated response value, and the oracle compares
// sent with received in both directions.
package c01x

import (
	"context"
	"encoding/json"
	"fmt"
	"net/http"
	"net/http/httptest"
	"os"
	"path/filepath"
	"reflect"
	"regexp"
	"runtime/debug"
	"strconv"
	"strings"
	"sync/atomic"
	"testing"

	"pgregory.net/rapid"

	"github.com/ogen-go/ogen/middleware"
	"github.com/ogen-go/ogen/ogenerrors"

	"verif/internal/reg"
	"verif/internal/specgen"
	"verif/internal/valgen"
	"verif/internal/vk"
)

// Meta is written next to each regenerated package.
type Meta struct {
	Doc        specgen.Doc `json:"doc"`
	TimeFormat string      `json:"time_format"`
	Name       string      `json:"name,omitempty"` // corpus file name (corpus units)
	// StatusTable: operation (Go name) → response wrapper type name → the status classes it serves
	// ("2XX" … "5XX", "default"), taken from the generator's IR; Explicit lists the operation's explicit codes.
	StatusTable map[string]map[string][]string `json:"status_table,omitempty"`
	Explicit    map[string][]int               `json:"explicit,omitempty"`
	// replay: run only this operation with this rapid example seed and class
	OnlyOp    string `json:"only_op,omitempty"`
	OnlySeed  int    `json:"only_seed,omitempty"`
	OnlyClass int    `json:"only_class,omitempty"`
	Replay    bool   `json:"replay,omitempty"`
}

// Case is the replay unit: the document, the operation (Go method name), the
// value class and the example seed from which arguments and response are built.
type Case struct {
	Doc        specgen.Doc `json:"doc"`
	TimeFormat string      `json:"time_format"`
	Op         string      `json:"op"`
	Class      int         `json:"class"`
	Seed       int         `json:"seed"`
	Sent       string      `json:"sent"` // rendering of the sent values, for the reader
}

type validator interface{ Validate() error }

type state struct {
	handlerCalls int
	handlerArgs  []any
	response     []any
	respErr      error
	mwCalls      int
	mwBody       any
	mwParams     map[string]any
	status       int
	serverErr    string
}

type capture struct {
	c  *http.Client
	st **state
}

func (d capture) Do(req *http.Request) (*http.Response, error) {
	resp, err := d.c.Do(req)
	if resp != nil && *d.st != nil {
		(*d.st).status = resp.StatusCode
	}
	return resp, err
}

// statusHook keeps StatusCode fields of response wrappers inside what the wrapper's response entry
// allows: an NXX wrapper gets a code N00..N99 that is not an explicit code of the operation and does
// not forbid a body; a default wrapper gets a code outside every explicit code and pattern.
func statusHook(meta Meta, op string) func(t *rapid.T, parent reflect.Type, f reflect.StructField, v reflect.Value) bool {
	table := meta.StatusTable[op]
	explicit := map[int]bool{}
	for _, c := range meta.Explicit[op] {
		explicit[c] = true
	}
	patterns := map[int]bool{}
	for _, classes := range table {
		for _, c := range classes {
			if len(c) == 3 && c[1:] == "XX" {
				patterns[int(c[0]-'0')] = true
			}
		}
	}
	// header names the operation declares on any of its responses (generated documents only)
	var declared map[string]bool
	for i := range meta.Doc.Ops {
		if alnumLower(meta.Doc.Ops[i].ID) == alnumLower(op) {
			declared = map[string]bool{}
			for _, r := range meta.Doc.Ops[i].Responses {
				for _, h := range r.Headers {
					declared[alnumLower(h.Name)] = true
				}
			}
		}
	}
	return func(t *rapid.T, parent reflect.Type, f reflect.StructField, v reflect.Value) bool {
		if f.Name == "ContentType" && f.Type.Kind() == reflect.String && parent.Kind() == reflect.Struct {
			if _, ok := parent.FieldByName("Content"); ok {
				// the concrete media type of a body that the document declares by a wildcard
				v.SetString(rapid.SampledFrom([]string{"application/x-verif-data", "application/octet-stream", "application/pdf"}).Draw(t, "maskcontenttype"))
				return true
			}
		}
		if declared != nil && f.Name != "StatusCode" && f.Name != "Response" && parent.Kind() == reflect.Struct {
			if _, isWrapper := parent.FieldByName("Response"); isWrapper && !declared[alnumLower(f.Name)] {
				// known finding excluded by construction (counted): the wrapper type was built for another
				// response over the same body component and has a header field this operation does not
				// declare; a handler cannot meaningfully set it
				ExcludedUndeclaredHeader.Add(1)
				return true
			}
		}
		if f.Name != "StatusCode" || f.Type.Kind() != reflect.Int {
			return false
		}
		classes := table[parent.Name()]
		if len(classes) == 0 {
			classes = []string{"default"}
		}
		class := classes[rapid.IntRange(0, len(classes)-1).Draw(t, "statusclass")]
		var cands []int
		if len(class) == 3 && class[1:] == "XX" {
			base := int(class[0]-'0') * 100
			for _, d := range []int{0, 1, 2, 3, 6, 9, 18, 22, 50, 99} {
				c := base + d
				if !explicit[c] && c != 204 && c != 205 && c != 304 && c >= 200 {
					cands = append(cands, c)
				}
			}
		} else {
			for _, c := range []int{418, 503, 402, 599, 301, 250, 451} {
				if !explicit[c] && !patterns[c/100] {
					cands = append(cands, c)
				}
			}
		}
		if len(cands) == 0 {
			cands = []int{299}
		}
		v.SetInt(int64(cands[rapid.IntRange(0, len(cands)-1).Draw(t, "statuscode")]))
		return true
	}
}

func render(v any) string {
	b, err := json.Marshal(v)
	if err != nil || len(b) > 1500 {
		s := fmt.Sprintf("%+v", v)
		if len(s) > 1500 {
			s = s[:1500] + "…"
		}
		return s
	}
	return string(b)
}

func validateAll(vals []reflect.Value) error {
	for _, v := range vals {
		if !v.IsValid() {
			continue
		}
		// a generic wrapper (NilT, OptT, ...) or a response wrapper around a value has no Validate of
		// its own: the generated code validates what it holds, so do we
		inner := v
		for inner.Kind() == reflect.Pointer || inner.Kind() == reflect.Interface {
			if inner.IsNil() {
				break
			}
			inner = inner.Elem()
		}
		if inner.Kind() == reflect.Struct {
			if _, hasValidate := reflect.PointerTo(inner.Type()).MethodByName("Validate"); !hasValidate {
				for _, fn := range []string{"Value", "Response"} {
					if f := inner.FieldByName(fn); f.IsValid() && f.CanInterface() {
						if nf := inner.FieldByName("Null"); nf.IsValid() && nf.Kind() == reflect.Bool && nf.Bool() {
							continue
						}
						if sf := inner.FieldByName("Set"); sf.IsValid() && sf.Kind() == reflect.Bool && !sf.Bool() {
							continue
						}
						if err := validateAll([]reflect.Value{f}); err != nil {
							return err
						}
					}
				}
			}
		}
		var iv any
		if v.CanAddr() {
			iv = v.Addr().Interface()
		} else {
			p := reflect.New(v.Type())
			p.Elem().Set(v)
			iv = p.Interface()
		}
		if vv, ok := iv.(validator); ok {
			if err := safeValidate(vv); err != nil {
				return err
			}
		} else if vv, ok := v.Interface().(validator); ok {
			if err := safeValidate(vv); err != nil {
				return err
			}
		}
	}
	return nil
}

func safeValidate(v validator) (err error) {
	defer func() {
		if r := recover(); r != nil {
			err = fmt.Errorf("Validate panics: %v", r)
		}
	}()
	return v.Validate()
}

// hasEmptyPiece: the value contains an empty string or an empty / nil collection
// somewhere (the shapes of the known C06 findings about empty values).
func hasEmptyPiece(v reflect.Value, depth int) bool {
	if !v.IsValid() || depth > 8 {
		return false
	}
	if hasSet, _, ok := wrapper(v.Type()); ok {
		if hasSet && !v.FieldByName("Set").Bool() {
			return false
		}
		if f := v.FieldByName("Null"); f.IsValid() && f.Bool() {
			return false
		}
		return hasEmptyPiece(v.FieldByName("Value"), depth+1)
	}
	switch v.Kind() {
	case reflect.String:
		return v.Len() == 0
	case reflect.Slice, reflect.Map:
		if v.Len() == 0 {
			return true
		}
		if v.Kind() == reflect.Slice {
			for i := 0; i < v.Len(); i++ {
				if hasEmptyPiece(v.Index(i), depth+1) {
					return true
				}
			}
		} else {
			it := v.MapRange()
			for it.Next() {
				if hasEmptyPiece(it.Value(), depth+1) || it.Key().Len() == 0 {
					return true
				}
			}
		}
	case reflect.Struct:
		for i := 0; i < v.NumField(); i++ {
			if v.Type().Field(i).IsExported() && hasEmptyPiece(v.Field(i), depth+1) {
				return true
			}
		}
	case reflect.Pointer, reflect.Interface:
		if !v.IsNil() {
			return hasEmptyPiece(v.Elem(), depth+1)
		}
	}
	return false
}

// explainEachMember: every member of a parameter struct that did not arrive as sent differs only in white
// space at the edges (net/http) or holds an empty piece; the class of the first such member is returned.
func explainEachMember(a, got reflect.Value) (string, bool) {
	for a.IsValid() && (a.Kind() == reflect.Pointer || a.Kind() == reflect.Interface) && !a.IsNil() {
		a = a.Elem()
	}
	for got.IsValid() && (got.Kind() == reflect.Pointer || got.Kind() == reflect.Interface) && !got.IsNil() {
		got = got.Elem()
	}
	if !a.IsValid() || !got.IsValid() || a.Kind() != reflect.Struct || a.Type() != got.Type() {
		return "", false
	}
	first := ""
	for i := 0; i < a.NumField(); i++ {
		if !a.Type().Field(i).IsExported() {
			continue
		}
		if ok, _ := valgen.Equal(a.Field(i), got.Field(i), valgen.EqOpts{NilEqualsEmpty: true}); ok {
			continue
		}
		var cl string
		switch {
		case whitespaceOnlyDifference(a.Field(i), got.Field(i)):
			cl = "header-value-whitespace-normalised"
		case hasEmptyPiece(a.Field(i), 0):
			cl = "empty-piece-in-parameter-or-header"
		default:
			return "", false
		}
		if first == "" {
			first = cl
		}
	}
	return first, first != ""
}

// emptyPieceAt: the member of the argument on the way to the place that differs (where is the path
// valgen.Equal reports, ".P3.Value[1]: ...") holds an empty piece. An empty piece elsewhere in the call
// explains nothing about this member.
func emptyPieceAt(a reflect.Value, where string) bool {
	path, _, _ := strings.Cut(where, ":")
	path = strings.TrimPrefix(strings.TrimSpace(path), ".")
	name, _, _ := strings.Cut(path, ".")
	name, _, _ = strings.Cut(name, "[")
	for a.IsValid() && (a.Kind() == reflect.Pointer || a.Kind() == reflect.Interface) && !a.IsNil() {
		a = a.Elem()
	}
	if name == "" || !a.IsValid() || a.Kind() != reflect.Struct {
		return hasEmptyPiece(a, 0)
	}
	f := a.FieldByName(name)
	if !f.IsValid() {
		return hasEmptyPiece(a, 0)
	}
	return hasEmptyPiece(f, 0)
}

// emptyPieceNamed: the errors of a call that was not delivered name the parameter / member that could
// not be decoded or encoded; that one must hold an empty piece. Errors that name nothing are
// attributed to the empty piece the call is known to contain.
func emptyPieceNamed(args []reflect.Value, errs string) bool {
	var names []string
	for _, m := range paramNameRe.FindAllStringSubmatch(errs, -1) {
		names = append(names, alnumLower(m[1]))
	}
	if len(names) == 0 {
		return true
	}
	found := false
	var walk func(v reflect.Value, depth int) bool
	walk = func(v reflect.Value, depth int) bool {
		for v.IsValid() && (v.Kind() == reflect.Pointer || v.Kind() == reflect.Interface) && !v.IsNil() {
			v = v.Elem()
		}
		if !v.IsValid() || v.Kind() != reflect.Struct || depth > 3 {
			return false
		}
		for i := 0; i < v.NumField(); i++ {
			sf := v.Type().Field(i)
			if !sf.IsExported() {
				continue
			}
			for _, n := range names {
				if alnumLower(sf.Name) == n {
					found = true
					if hasEmptyPiece(v.Field(i), 0) {
						return true
					}
				}
			}
			if walk(v.Field(i), depth+1) {
				return true
			}
		}
		return false
	}
	for _, a := range args {
		if walk(a, 0) {
			return true
		}
	}
	return !found // the named thing is not a member of the arguments (a body member spelled otherwise, ...)
}

var paramNameRe = regexp.MustCompile(`(?:field|query:|header:|cookie:|path:|parameter) "([^"]+)"`)

func wrapper(rt reflect.Type) (hasSet, hasNull, ok bool) {
	if rt.Kind() != reflect.Struct {
		return
	}
	if _, has := rt.FieldByName("Value"); !has {
		return
	}
	_, hasSet = rt.FieldByName("Set")
	_, hasNull = rt.FieldByName("Null")
	return hasSet, hasNull, hasSet || hasNull
}

// Run is the aggregator entry point.
func Run(t *testing.T) {
	u := vk.New(t, "C01", "exchange")
	defer u.Close()
	batch := os.Getenv("VERIF_BATCH_DIR")
	for _, name := range reg.Names() {
		p := reg.Get(name)
		data, err := os.ReadFile(filepath.Join(batch, "pkgs", name, "meta.json"))
		if err != nil {
			t.Fatalf("meta for %s: %v", name, err)
		}
		var meta Meta
		if err := json.Unmarshal(data, &meta); err != nil {
			t.Fatalf("meta for %s: %v", name, err)
		}
		runPackage(u, p, meta, name)
	}
}

func runPackage(u *vk.Unit, p *reg.Package, meta Meta, pkg string) {
	if p.NewServer == nil || p.NewClient == nil {
		u.Label("package-without-client-or-server")
		return
	}
	var st *state
	call := securityAware(p, func(ctx context.Context, iface, method string, args []any) ([]any, error) {
		if iface != reg.IfaceHandler || st == nil {
			return nil, nil
		}
		st.handlerCalls++
		st.handlerArgs = args
		return st.response, st.respErr
	})
	ignoreTime = meta.Name != "" // corpus documents mix time formats that reflection cannot tell apart
	mw := func(req middleware.Request, next middleware.Next) (middleware.Response, error) {
		if st != nil {
			st.mwCalls++
			st.mwBody = req.Body
			st.mwParams = map[string]any{}
			for k, v := range req.Params {
				st.mwParams[string(k.In)+":"+k.Name] = v
			}
		}
		return next(req)
	}
	eh := func(ctx context.Context, w http.ResponseWriter, r *http.Request, err error) {
		if st != nil && err != nil {
			st.serverErr = err.Error()
		}
		ogenerrors.DefaultErrorHandler(ctx, w, r, err)
	}
	srv, err := p.NewServer(reg.ServerConfig{Call: call, Middleware: mw, ErrorHandler: eh})
	if err != nil {
		u.T.Fatalf("server: %v", err)
	}
	ts := httptest.NewServer(srv)
	defer ts.Close()
	cli, err := p.NewClient(ts.URL, reg.ClientConfig{Call: call, HTTPClient: capture{c: ts.Client(), st: &st}})
	if err != nil {
		u.T.Fatalf("client: %v", err)
	}
	cv := reflect.ValueOf(cli)
	per := vk.N(60, 400)
	for _, m := range p.Interfaces[reg.IfaceHandler] {
		if m.Name == "NewError" {
			continue
		}
		if meta.OnlyOp != "" && m.Name != meta.OnlyOp {
			continue
		}
		cm := cv.MethodByName(m.Name)
		if !cm.IsValid() {
			u.Label("client-method-missing")
			continue
		}
		for _, class := range []valgen.Class{valgen.Core, valgen.Hostile} {
			if meta.Replay && int(class) != meta.OnlyClass {
				continue
			}
			bld := &valgen.Builder{Class: class, Variants: p.Variants, Types: p.Types, TimeFormat: meta.TimeFormat, Hook: statusHook(meta, m.Name), MaxDepth: 4}
			type built struct {
				args []reflect.Value
				resp reflect.Value
			}
			g := rapid.Custom(func(t *rapid.T) built {
				var b built
				for _, at := range m.Args {
					a := bld.Build(t, at, 0)
					if at.Kind() == reflect.Pointer && a.IsNil() {
						// the Go API contract of generated clients: request pointers are non-nil
						a = reflect.New(at.Elem())
						a.Elem().Set(bld.Build(t, at.Elem(), 1))
					}
					b.args = append(b.args, a)
				}
				if len(m.Results) > 0 {
					// responses are always core-or-hostile like the request; interface results never nil
					b.resp = bld.Build(t, m.Results[0], 0)
					if m.Results[0].Kind() == reflect.Pointer && b.resp.IsNil() {
						b.resp = reflect.New(m.Results[0].Elem())
						b.resp.Elem().Set(bld.Build(t, m.Results[0].Elem(), 1))
					}
				}
				return b
			})
			for i := 0; i < per/2; i++ {
				seed := int(vk.Seed())*1000003 + i
				if meta.Replay {
					seed = meta.OnlySeed
				}
				var b built
				ok := func() (ok bool) {
					defer func() {
						if r := recover(); r != nil {
							u.Label("builder-failed")
						}
					}()
					b = g.Example(seed)
					return true
				}()
				if !ok {
					continue
				}
				f := explainFromDoc(exchange(u, p, m, cm, b.args, b.resp, class, &st, pkg), meta.Doc, m.Name)
				f = explainClientRefusal(u, f, meta.Doc, m.Name, b.args)
				if f != nil {
					if f.Classifier == "harness" {
						u.T.Errorf("HARNESS: %s", f.What)
						continue
					}
					var sent []any
					for _, a := range b.args {
						sent = append(sent, a.Interface())
					}
					u.Report(f, Case{Doc: meta.Doc, TimeFormat: meta.TimeFormat, Op: m.Name, Class: int(class), Seed: seed, Sent: render(sent)})
				}
				if meta.Replay {
					break
				}
			}
			for k, c := range bld.Unsupported {
				u.LabelN("unsupported:"+k, c)
			}
			if n := ExcludedUndeclaredHeader.Swap(0); n > 0 {
				u.LabelN("excluded:undeclared-header-field-of-shared-wrapper", int(n))
			}
		}
	}
}

var ignoreTime bool

// ExcludedUndeclaredHeader counts wrapper header fields left unset because the operation does not declare them.
var ExcludedUndeclaredHeader atomic.Int64

// securityAware wraps a handler CallFn so that documents with security schemes work: every
// SecuritySource supplies a non-empty credential, every SecurityHandler accepts.
func securityAware(p *reg.Package, inner reg.CallFn) reg.CallFn {
	return func(ctx context.Context, iface, method string, args []any) ([]any, error) {
		if iface == reg.IfaceHandler && method == "NewError" {
			// convenient errors: build the error response the way a user's NewError would
			for _, m := range p.Interfaces[reg.IfaceHandler] {
				if m.Name == "NewError" && len(m.Results) > 0 && m.Results[0].Kind() == reflect.Pointer {
					v := reflect.New(m.Results[0].Elem())
					if f := v.Elem().FieldByName("StatusCode"); f.IsValid() && f.CanSet() && f.Kind() == reflect.Int {
						code := 500
						if len(args) > 0 {
							if e, ok := args[0].(error); ok && e != nil {
								code = ogenerrors.ErrorCode(e) // what a typical NewError implementation does
							}
						}
						f.SetInt(int64(code))
					}
					return []any{v.Interface()}, nil
				}
			}
			return nil, nil
		}
		switch iface {
		case reg.IfaceSecurityHandler:
			return []any{ctx}, nil
		case reg.IfaceSecuritySource:
			for _, m := range p.Interfaces[reg.IfaceSecuritySource] {
				if m.Name == method && len(m.Results) > 0 {
					v := reflect.New(m.Results[0]).Elem()
					if v.Kind() == reflect.Struct {
						for i := 0; i < v.NumField(); i++ {
							if v.Field(i).Kind() == reflect.String && v.Field(i).CanSet() {
								v.Field(i).SetString("cred" + method)
							}
						}
					}
					return []any{v.Interface()}, nil
				}
			}
			return nil, nil
		}
		return inner(ctx, iface, method, args)
	}
}

func isNilable(v reflect.Value) bool {
	switch v.Kind() {
	case reflect.Pointer, reflect.Interface, reflect.Slice, reflect.Map:
		return true
	}
	return false
}

func exchange(u *vk.Unit, p *reg.Package, m reg.Method, cm reflect.Value, args []reflect.Value, resp reflect.Value, class valgen.Class, stp **state, pkg string) (f *vk.Finding) {
	st := &state{}
	*stp = st
	defer func() { *stp = nil }()
	className := map[valgen.Class]string{valgen.Core: "core", valgen.Hostile: "hostile"}[class]
	// the handler contract: a non-nil response value of one of the operation's variants
	respUsable := true
	if resp.IsValid() {
		if isNilable(resp) && resp.IsNil() {
			respUsable = false
		} else {
			st.response = []any{resp.Interface()}
		}
	}
	if !respUsable {
		u.Label("response-not-buildable")
		return nil
	}
	argsErr := validateAll(args)
	var respErr error
	if resp.IsValid() {
		respErr = validateAll([]reflect.Value{resp})
	}
	in := []reflect.Value{reflect.ValueOf(context.Background())}
	in = append(in, args...)
	var out []reflect.Value
	var panicked string
	func() {
		defer func() {
			if r := recover(); r != nil {
				panicked = fmt.Sprintf("%v\n%s", r, trim(string(debug.Stack()), 1500))
			}
		}()
		out = cm.Call(in)
	}()
	u.Eval(1)
	desc := func() string {
		var sent []string
		for _, a := range args {
			sent = append(sent, render(a.Interface()))
		}
		return fmt.Sprintf("%s(%s) [%s values]", m.Name, strings.Join(sent, ", "), className)
	}
	if panicked != "" {
		return vk.F("client-panic", "%s: client call panics: %s", desc(), panicked)
	}
	var callErr error
	if e, ok := out[len(out)-1].Interface().(error); ok {
		callErr = e
	}
	invoked := st.handlerCalls > 0
	u.Label(fmt.Sprintf("%s:invoked=%v", className, invoked))
	emptyPiece := false
	for _, a := range args {
		if hasEmptyPiece(a, 0) {
			emptyPiece = true
		}
	}
	if invoked && len(args) > 0 {
		zero := true
		for _, a := range args {
			if !a.IsZero() {
				zero = false
			}
		}
		if !zero {
			u.NonTrivial(pkg + "\x00" + desc())
		}
	}
	u.Sample(map[string]any{"call": desc(), "invoked": invoked, "status": st.status, "client_error": fmt.Sprint(callErr)})
	if st.handlerCalls > 1 {
		return vk.F("handler-called-twice", "%s: handler called %d times", desc(), st.handlerCalls)
	}
	if !invoked {
		// 3. one side must report an error
		if callErr == nil && st.status < 400 {
			return vk.F("silent-non-delivery", "%s: handler not invoked, client returned no error and status %d", desc(), st.status)
		}
		if ignoreTime && (st.status >= 400 && st.status < 500 || callErr != nil && st.status == 0) {
			// corpus documents: validators on primitive parameters / bodies and formats are invisible to
			// the builder, so a 4xx (or a client-side refusal) is an admissible answer to a built value
			u.Label("corpus:refused-4xx")
			return nil
		}
		if class == valgen.Core && argsErr == nil {
			// the encoder's documented refusal of a value that contains the style's delimiter (a float
			// with a fraction in a label-style parameter contains '.') is the allowed error outcome:
			// such a value is outside the core domain ("text without the style's delimiter")
			if callErr != nil {
				if m := refusedDelimiter.FindStringSubmatch(callErr.Error()); m != nil && strings.Contains(m[1], m[2]) {
					u.Label("core:refused-value-contains-delimiter")
					return nil
				}
			}
			cl := "core-value-not-delivered"
			switch {
			case callErr != nil && floatWithFixedFraction.MatchString(callErr.Error()):
				cl = "conv-float-precision10"
			case anyNilElem(args):
				cl = "null-for-nullable-object"
			case emptyPiece && emptyPieceNamed(args, fmt.Sprint(callErr)+" "+st.serverErr):
				cl = "empty-piece-in-parameter-or-header"
			case callErr != nil && st.status == 0 && st.handlerCalls == 0:
				// refused on the client before anything was sent: whether that is the documented refusal of a
				// value containing the style's delimiter is decided from the document and the value
				// (explainClientRefusal), not from the wording of the error
				cl = "core-value-refused-by-client"
			}
			return vk.F(cl, "%s: core values that pass their own validation were not delivered: status %d, client error: %v, server error: %s", desc(), st.status, callErr, st.serverErr)
		}
		return nil
	}
	// 1. what the handler received is what was sent
	if len(st.handlerArgs) != len(args) {
		return vk.F("harness", "%s: handler got %d args, sent %d", desc(), len(st.handlerArgs), len(args))
	}
	for i, a := range args {
		if ignoreTime {
			// corpus documents: defaults, discriminator members, wildcard media types and formats are
			// not modelled, so argument VALUES are not compared there (types are, by the glue); the
			// generated-document units carry the value comparison
			break
		}
		got := reflect.ValueOf(st.handlerArgs[i])
		if ok, where := valgen.Equal(a, got, valgen.EqOpts{NilEqualsEmpty: true, IgnoreTime: ignoreTime, UnsetMayBecomeSet: ignoreTime}); !ok {
			cl := "silent-change"
			switch {
			case strings.Contains(where, ": float ") && isParamsArg(a):
				cl = "conv-float-precision10"
			case strings.Contains(where, ": float ") && valgen.FloatNear(where):
				cl = "float64-json-decode-off-by-one-ulp"
			case isParamsArg(a) && whitespaceOnlyDifference(a, got):
				cl = "header-value-whitespace-normalised"
			case emptyPiece && emptyPieceAt(a, where):
				cl = "empty-piece-in-parameter-or-header"
				if isParamsArg(a) {
					// several parameters of one call may differ: EVERY one that does must be explained
					if c, ok := explainEachMember(a, got); ok {
						cl = c
					} else {
						cl = "silent-change"
					}
				}
			case isParamsArg(a):
				if c, ok := explainEachMember(a, got); ok {
					cl = c
				}
			}
			return vk.F(cl, "%s: handler received a different value: argument %d differs at %s (received %s)", desc(), i, where, render(st.handlerArgs[i]))
		}
	}
	// 4. middleware saw the same request
	if st.mwCalls != 1 {
		return vk.F("middleware-not-called-once", "%s: middleware calls %d", desc(), st.mwCalls)
	}
	for i, a := range args {
		if isParamsArg(a) {
			n := 0
			for j := 0; j < a.NumField(); j++ {
				if a.Type().Field(j).IsExported() {
					n++
				}
			}
			if len(st.mwParams) != n {
				return vk.F("middleware-params-differ", "%s: middleware saw %d parameters, handler %d", desc(), len(st.mwParams), n)
			}
			got := reflect.ValueOf(st.handlerArgs[i])
			for j := 0; j < got.NumField(); j++ {
				if !got.Type().Field(j).IsExported() {
					continue
				}
				found := false
				for _, mv := range st.mwParams {
					if mv == nil {
						continue
					}
					if reflect.TypeOf(mv) == got.Field(j).Type() {
						if ok, _ := valgen.Equal(reflect.ValueOf(mv), got.Field(j), valgen.EqOpts{NilEqualsEmpty: true}); ok {
							found = true
						}
					}
				}
				if !found {
					return vk.F("middleware-params-differ", "%s: handler parameter %s=%s has no equal entry in the middleware's parameter map %s", desc(), got.Type().Field(j).Name, render(got.Field(j).Interface()), render(st.mwParams))
				}
			}
		} else if st.mwBody != nil {
			if ok, where := valgen.Equal(reflect.ValueOf(st.mwBody), reflect.ValueOf(st.handlerArgs[i]), valgen.EqOpts{}); !ok {
				return vk.F("middleware-body-differs", "%s: middleware body differs from the handler's at %s", desc(), where)
			}
		}
	}
	// 2. the caller receives what the handler returned
	if !resp.IsValid() {
		if callErr != nil {
			return vk.F("response-not-delivered", "%s: handler returned nil error (no content) but the client reports %v (status %d)", desc(), callErr, st.status)
		}
		return nil
	}
	respDesc := render(resp.Interface())
	if callErr != nil {
		if ignoreTime {
			u.Label("corpus:response-refused")
			return nil
		}
		if class == valgen.Core && respErr == nil {
			cl := "core-response-not-delivered"
			switch {
			case anyNilElem([]reflect.Value{resp}):
				cl = "null-for-nullable-object"
			case hasEmptyPiece(resp, 0):
				cl = "empty-piece-in-parameter-or-header"
			}
			return vk.F(cl, "%s: handler returned %s %s (valid, core) but the client reports %v (status %d, server error: %s)", desc(), resp.Type(), respDesc, callErr, st.status, st.serverErr)
		}
		return nil // hostile or invalid response: an error is the allowed outcome
	}
	got := out[0]
	if ignoreTime {
		// corpus documents: only the response variant must be the one the handler returned
		rt, gt := resp.Type(), got.Type()
		if resp.Kind() == reflect.Interface && !resp.IsNil() {
			rt = resp.Elem().Type()
		}
		if got.Kind() == reflect.Interface && !got.IsNil() {
			gt = got.Elem().Type()
		}
		if rt != gt {
			return vk.F("response-variant-changed", "%s: handler returned %s, the client received %s (status %d)", desc(), rt, gt, st.status)
		}
		u.Label(className + ":response-variant-delivered")
		return nil
	}
	if ok, where := valgen.Equal(resp, got, valgen.EqOpts{NilEqualsEmpty: true, IgnoreTime: ignoreTime, UnsetMayBecomeSet: ignoreTime}); !ok {
		if st.serverErr != "" && (class == valgen.Hostile || respErr != nil) {
			// the server could not carry the handler's response (a header value containing the style's
			// delimiter, a value failing response validation) and REPORTED it: its error handler ran and
			// answered 5xx, which a declared default response lets the client decode without error.
			// One side reported an error, nothing was silently changed.
			u.Label(className + ":response-refused-by-server")
			return nil
		}
		cl := "response-silent-change"
		switch {
		case strings.Contains(where, ": float ") && !strings.Contains(where, ".Response") && hasResponseField(resp):
			// a header field of a response wrapper (a response type without a Response field is the body itself)
			cl = "conv-float-precision10"
		case strings.Contains(where, ": float ") && valgen.FloatNear(where):
			cl = "float64-json-decode-off-by-one-ulp"
		case strings.Contains(where, "types "):
			cl = "response-variant-changed"
			if anyNilElem([]reflect.Value{resp}) {
				cl = "null-for-nullable-object"
			}
		case !strings.Contains(where, ".Response") && whitespaceOnlyDifference(resp, got):
			cl = "header-value-whitespace-normalised"
		case hasEmptyPiece(resp, 0):
			cl = "empty-piece-in-parameter-or-header"
			// a response wrapper (header members next to the body): every member that differs needs an
			// explanation of its own, an empty piece in another member explains nothing
			r, g := resp, got
			for r.IsValid() && (r.Kind() == reflect.Pointer || r.Kind() == reflect.Interface) && !r.IsNil() {
				r = r.Elem()
			}
			for g.IsValid() && (g.Kind() == reflect.Pointer || g.Kind() == reflect.Interface) && !g.IsNil() {
				g = g.Elem()
			}
			if r.IsValid() && g.IsValid() && r.Kind() == reflect.Struct && r.Type() == g.Type() {
				if _, isWrapper := r.Type().FieldByName("Response"); isWrapper {
					if c, ok := explainEachMember(r, g); ok {
						cl = c
					} else {
						cl = "response-silent-change"
					}
				}
			}
		}
		return vk.F(cl, "%s: handler returned %s %s, the client received %s %s (difference at %s, status %d, server error: %s)", desc(), resp.Type(), respDesc, got.Type(), render(got.Interface()), where, st.status, st.serverErr)
	}
	u.Label(className + ":response-delivered")
	return nil
}

func isParamsArg(a reflect.Value) bool {
	return a.Kind() == reflect.Struct && strings.HasSuffix(a.Type().Name(), "Params")
}

func trim(s string, n int) string {
	if len(s) > n {
		return s[:n]
	}
	return s
}

var refusedDelimiter = regexp.MustCompile(`invalid value "([^"]*)": contains '(.)'`)

var floatWithFixedFraction = regexp.MustCompile(`invalid value "-?[0-9]+\.[0-9]{10}": contains '\.'`)

// anyNilElem: a nil pointer sits inside a slice or map (the Go representation of a null item of a
// nullable object schema, which the generated decoders refuse: known finding of C03).
func anyNilElem(vals []reflect.Value) bool {
	var walk func(v reflect.Value, inColl bool, depth int) bool
	walk = func(v reflect.Value, inColl bool, depth int) bool {
		if !v.IsValid() || depth > 10 {
			return false
		}
		switch v.Kind() {
		case reflect.Pointer:
			if v.IsNil() {
				return inColl || v.Type().Elem().Kind() == reflect.Struct
			}
			return walk(v.Elem(), false, depth+1)
		case reflect.Interface:
			if v.IsNil() {
				return false
			}
			return walk(v.Elem(), false, depth+1)
		case reflect.Slice, reflect.Array:
			for i := 0; i < v.Len(); i++ {
				if walk(v.Index(i), true, depth+1) {
					return true
				}
			}
		case reflect.Map:
			it := v.MapRange()
			for it.Next() {
				if walk(it.Value(), true, depth+1) {
					return true
				}
			}
		case reflect.Struct:
			for i := 0; i < v.NumField(); i++ {
				if v.Type().Field(i).IsExported() && walk(v.Field(i), false, depth+1) {
					return true
				}
			}
		}
		return false
	}
	for _, v := range vals {
		if walk(v, false, 0) {
			return true
		}
	}
	return false
}

// whitespaceOnlyDifference: a and b are equal after trimming blanks of every string leaf and
// replacing control characters by blanks (what net/http does to header values).
func whitespaceOnlyDifference(a, b reflect.Value) bool {
	norm := func(s string) string {
		r := strings.Map(func(c rune) rune {
			if c < 0x20 || c == 0x7f {
				return ' '
			}
			return c
		}, s)
		return strings.TrimSpace(r)
	}
	var eq func(x, y reflect.Value, depth int) bool
	eq = func(x, y reflect.Value, depth int) bool {
		if !x.IsValid() || !y.IsValid() || x.Type() != y.Type() || depth > 12 {
			return x.IsValid() == y.IsValid()
		}
		switch x.Kind() {
		case reflect.String:
			return norm(x.String()) == norm(y.String())
		case reflect.Struct:
			for i := 0; i < x.NumField(); i++ {
				if !x.Type().Field(i).IsExported() {
					// opaque values (time.Time, netip.Addr, ...): their difference is never white space
					ok, _ := valgen.Equal(x, y, valgen.EqOpts{NilEqualsEmpty: true})
					return ok
				}
			}
			for i := 0; i < x.NumField(); i++ {
				if !eq(x.Field(i), y.Field(i), depth+1) {
					return false
				}
			}
			return true
		case reflect.Slice, reflect.Array:
			if x.Kind() == reflect.Slice && x.Type().Elem().Kind() == reflect.Uint8 {
				// byte strings travel as header text too
				return norm(string(x.Bytes())) == norm(string(y.Bytes()))
			}
			if x.Len() != y.Len() {
				return false
			}
			if x.Type().Elem().Kind() == reflect.String {
				// a list of strings in ONE header value ("a, b,c"): net/http trims the value as a whole, so
				// only the leading blanks of the first item and the trailing blanks of the last one are
				// explained by it; blanks at inner item edges must arrive (control characters become blanks)
				ctl := func(s string) string {
					return strings.Map(func(c rune) rune {
						if c < 0x20 || c == 0x7f {
							return ' '
						}
						return c
					}, s)
				}
				for i := 0; i < x.Len(); i++ {
					xs, ys := ctl(x.Index(i).String()), ctl(y.Index(i).String())
					if i == 0 {
						xs, ys = strings.TrimLeft(xs, " "), strings.TrimLeft(ys, " ")
					}
					if i == x.Len()-1 {
						xs, ys = strings.TrimRight(xs, " "), strings.TrimRight(ys, " ")
					}
					if xs != ys {
						return false
					}
				}
				return true
			}
			for i := 0; i < x.Len(); i++ {
				if !eq(x.Index(i), y.Index(i), depth+1) {
					return false
				}
			}
			return true
		case reflect.Pointer, reflect.Interface:
			if x.IsNil() || y.IsNil() {
				return x.IsNil() == y.IsNil()
			}
			return eq(x.Elem(), y.Elem(), depth+1)
		case reflect.Float32, reflect.Float64:
			return true // float leaves are judged by their own classifier
		default:
			ok, _ := valgen.Equal(x, y, valgen.EqOpts{NilEqualsEmpty: true})
			return ok
		}
	}
	return eq(a, b, 0)
}

// hasResponseField: the response type is a wrapper (headers / status code around a Response member).
func hasResponseField(v reflect.Value) bool {
	for v.IsValid() && (v.Kind() == reflect.Pointer || v.Kind() == reflect.Interface) {
		if v.IsNil() {
			return false
		}
		v = v.Elem()
	}
	if !v.IsValid() || v.Kind() != reflect.Struct {
		return false
	}
	_, ok := v.Type().FieldByName("Response")
	return ok
}

var (
	decodeFieldRe = regexp.MustCompile(`(?:field|query:) "([^"]+)"`)
	whereFieldRe  = regexp.MustCompile(`(?:differs|difference) at ((?:\.[A-Za-z0-9_]+(?:\[[0-9]+\])*)+)`)
)

func alnumLower(s string) string {
	return strings.ToLower(strings.Map(func(r rune) rune {
		if r >= 'a' && r <= 'z' || r >= 'A' && r <= 'Z' || r >= '0' && r <= '9' {
			return r
		}
		return -1
	}, s))
}

// explainFromDoc names two root causes that only the document shows (the oracle has already
// decided; nothing becomes a pass here):
//   - exploded form objects in the query whose member names also occur as another query
//     parameter or as a member of another exploded object: all of them are written as plain
//     name=value pairs, the receiver cannot tell them apart (the named member must be the one
//     that differs / fails to decode);
//   - a response wrapper type shared through the body component with a response of another
//     shape: the Go type has a header field that this operation does not declare (the field that
//     differs must be such a field).
func explainFromDoc(f *vk.Finding, doc specgen.Doc, opName string) *vk.Finding {
	if f == nil {
		return nil
	}
	var op *specgen.Operation
	for i := range doc.Ops {
		if alnumLower(doc.Ops[i].ID) == alnumLower(opName) {
			op = &doc.Ops[i]
		}
	}
	if op == nil {
		return f
	}
	switch f.Classifier {
	case "silent-change", "core-value-not-delivered", "conv-float-precision10":
		count := map[string]int{}
		for _, p := range op.Params {
			if p.In != "query" || p.Content != "" {
				continue
			}
			sch := doc.Components.Resolve(p.Schema)
			exploded := (p.Style == "" || p.Style == "form") && (p.Explode == nil || *p.Explode)
			if sch != nil && sch.Type == "object" && exploded {
				for _, pr := range sch.Props {
					count[alnumLower(pr.Name)]++
				}
			} else {
				count[alnumLower(p.Name)]++
			}
		}
		// the names on the way to the place that differs / fails to decode (the parameter itself or a
		// member of it): one of them must be a name that two pairs of the query string share
		var names []string
		if f.Classifier == "core-value-not-delivered" {
			for _, m := range decodeFieldRe.FindAllStringSubmatch(f.What, -1) {
				names = append(names, alnumLower(m[1]))
			}
		} else if m := whereFieldRe.FindStringSubmatch(f.What); m != nil {
			for _, pt := range strings.Split(strings.TrimPrefix(m[1], "."), ".") {
				pt, _, _ = strings.Cut(pt, "[")
				if pt != "Value" {
					names = append(names, alnumLower(pt))
				}
			}
		}
		// the parameter that differs is itself an exploded object: any of its members may have been
		// filled from another parameter's pair (an ABSENT optional object arrives set)
		if len(names) > 0 {
			for _, p := range op.Params {
				if p.In != "query" || p.Content != "" || alnumLower(p.Name) != names[0] {
					continue
				}
				sch := doc.Components.Resolve(p.Schema)
				if sch != nil && sch.Type == "object" && (p.Style == "" || p.Style == "form") && (p.Explode == nil || *p.Explode) {
					for _, pr := range sch.Props {
						names = append(names, alnumLower(pr.Name))
					}
				}
			}
		}
		for _, n := range names {
			if count[n] >= 2 {
				return vk.F("exploded-query-objects-share-member-name", "%s", f.What)
			}
		}
	case "response-silent-change":
		m := whereFieldRe.FindStringSubmatch(f.What)
		if m == nil {
			return f
		}
		field := strings.Split(strings.TrimPrefix(m[1], "."), ".")[0]
		if field == "Response" || field == "StatusCode" {
			return f
		}
		for _, r := range op.Responses {
			for _, h := range r.Headers {
				if alnumLower(h.Name) == alnumLower(field) {
					return f
				}
			}
		}
		return vk.F("response-wrapper-type-shared-through-body-component", "%s", f.What)
	}
	return f
}

// styleDelimiters: the characters a path style uses to separate pieces.
func styleDelimiters(style string) string {
	switch style {
	case "label":
		return ".,="
	case "matrix":
		return ";,="
	default: // simple
		return ",="
	}
}

// explainClientRefusal decides a client-side refusal of core values: it is the allowed error outcome
// when a path parameter's value has a piece whose text contains a delimiter of the parameter's style
// (a float with a fraction, an IP address or a time with fractional seconds under style label), i.e.
// the value is outside the core domain "text without the style's delimiter". Otherwise the finding
// gets its generic name back.
func explainClientRefusal(u *vk.Unit, f *vk.Finding, doc specgen.Doc, opName string, args []reflect.Value) *vk.Finding {
	if f == nil || f.Classifier != "core-value-refused-by-client" {
		return f
	}
	generic := vk.F("core-value-not-delivered", "%s", f.What)
	var op *specgen.Operation
	for i := range doc.Ops {
		if alnumLower(doc.Ops[i].ID) == alnumLower(opName) {
			op = &doc.Ops[i]
		}
	}
	if op == nil {
		return generic
	}
	for _, prm := range op.Params {
		if prm.In != "path" {
			continue
		}
		delims := styleDelimiters(prm.Style)
		for _, a := range args {
			v := a
			for v.Kind() == reflect.Pointer && !v.IsNil() {
				v = v.Elem()
			}
			if v.Kind() != reflect.Struct {
				continue
			}
			for i := 0; i < v.NumField(); i++ {
				if !v.Type().Field(i).IsExported() || alnumLower(v.Type().Field(i).Name) != alnumLower(prm.Name) {
					continue
				}
				raw, err := json.Marshal(v.Field(i).Interface())
				if err != nil {
					continue
				}
				var val any
				if json.Unmarshal(raw, &val) != nil {
					continue
				}
				if leafContainsAny(val, delims) {
					u.Label("core:refused-value-contains-delimiter")
					return nil
				}
			}
		}
	}
	return generic
}

// leafContainsAny: some scalar of the JSON value, written as text, contains one of the characters
// (member names of objects count too: they are pieces of the serialisation).
func leafContainsAny(v any, chars string) bool {
	switch x := v.(type) {
	case map[string]any:
		for k, e := range x {
			if strings.ContainsAny(k, chars) || leafContainsAny(e, chars) {
				return true
			}
		}
	case []any:
		for _, e := range x {
			if leafContainsAny(e, chars) {
				return true
			}
		}
	case string:
		return strings.ContainsAny(x, chars)
	case float64:
		return strings.ContainsAny(strconv.FormatFloat(x, 'f', -1, 64), chars)
	}
	return false
}
