module verif

go 1.23.0

require (
	github.com/ogen-go/ogen v0.0.0
	pgregory.net/rapid v1.3.0
)

require (
	github.com/davecgh/go-spew v1.1.1
	github.com/dlclark/regexp2 v1.11.5
	github.com/fatih/color v1.18.0
	github.com/ghodss/yaml v1.0.0
	github.com/go-faster/errors v0.7.1
	github.com/go-faster/jx v1.1.0
	github.com/go-faster/yaml v0.4.6
	github.com/google/uuid v1.6.0
	github.com/mattn/go-isatty v0.0.20
	github.com/stretchr/testify v1.10.0
	github.com/valyala/fasthttp v1.60.0
	go.opentelemetry.io/otel v1.35.0
	go.opentelemetry.io/otel/metric v1.35.0
	go.opentelemetry.io/otel/sdk v1.35.0
	go.opentelemetry.io/otel/sdk/metric v1.35.0
	go.opentelemetry.io/otel/trace v1.35.0
	go.uber.org/multierr v1.11.0
	go.uber.org/zap v1.27.0
	golang.org/x/exp v0.0.0-20230725093048-515e97ebf090
	golang.org/x/net v0.39.0
	golang.org/x/sync v0.13.0
	golang.org/x/text v0.24.0
	golang.org/x/tools v0.32.0
	github.com/andybalholm/brotli v1.1.1
	github.com/go-logr/logr v1.4.2
	github.com/go-logr/stdr v1.2.2
	github.com/klauspost/compress v1.18.0
	github.com/mattn/go-colorable v0.1.13
	github.com/pmezard/go-difflib v1.0.0
	github.com/segmentio/asm v1.2.0
	github.com/valyala/bytebufferpool v1.0.0
	go.opentelemetry.io/auto/sdk v1.1.0
	golang.org/x/mod v0.24.0
	golang.org/x/sys v0.32.0
	gopkg.in/yaml.v2 v2.4.0
	gopkg.in/yaml.v3 v3.0.1
)

replace github.com/ogen-go/ogen => /repo
