package c18

// Reference side of the C18 check: a strict RFC 8259 parser written from the
// grammar, exact number values as (sign, decimal mantissa without leading or
// trailing zeros, power-of-ten exponent) -- no float64, no expansion of the
// exponent into digits -- strings as sequences of UTF-16 code units, objects as
// unordered maps, arrays ordered. Nothing in this file calls ogen.

import (
	"encoding/json"
	"errors"
	"math/big"
	"strconv"
	"strings"
	"unicode/utf16"
	"unicode/utf8"
)

type rkind byte

const (
	kNull rkind = iota
	kBool
	kNum
	kStr
	kArr
	kObj
)

func (k rkind) String() string {
	return [...]string{"null", "bool", "number", "string", "array", "object"}[k]
}

// rval is a parsed JSON value.
type rval struct {
	kind rkind
	raw  string // spelling of a scalar leaf (numbers, strings) in the text
	b    bool

	// number: value = (-1)^neg * mant * 10^exp ; mant == "" is zero (neg=false, exp=0)
	neg    bool
	mant   string
	exp    int64
	expBig *big.Int // set (and exp unused) iff the exponent does not fit int64

	str string // string: two bytes per UTF-16 code unit, big endian

	arr  []*rval
	keys []string // object: member names in text order (encoded like str)
	mem  map[string]*rval
}

var (
	errSyntax   = errors.New("syntax error")
	errTrailing = errors.New("trailing data after the value")
)

// rp is the parser. With lenient=false it accepts exactly the RFC 8259 grammar.
//
// lenient=true is NOT part of the oracle: it is the executable model of the
// root causes already recorded as known findings (see classifyMalformed), used
// only to decide whether a `true` on a malformed text is explained by them:
//
//	L1  bytes after the top-level value are never looked at
//	L2  right operand only, arrays not below an object: after an element, a
//	    byte that is neither ',' nor ']' (or the end of input) ends the array
//	L3  a top-level text whose first byte is 'n' is taken as null unread
type rp struct {
	s string
	i int

	lenient  bool
	right    bool
	objDepth int
	l1, l2   bool
	l3       bool

	lone    bool // a \uXXXX surrogate that is not part of a pair
	dup     bool // duplicate member name in some object
	badUTF8 bool
}

func isWS(c byte) bool { return c == ' ' || c == '\t' || c == '\n' || c == '\r' }

func (p *rp) ws() {
	for p.i < len(p.s) && isWS(p.s[p.i]) {
		p.i++
	}
}

func (p *rp) value() (*rval, error) {
	p.ws()
	if p.i >= len(p.s) {
		return nil, errSyntax
	}
	switch c := p.s[p.i]; {
	case c == 'n':
		if strings.HasPrefix(p.s[p.i:], "null") {
			p.i += 4
			return &rval{kind: kNull}, nil
		}
	case c == 't':
		if strings.HasPrefix(p.s[p.i:], "true") {
			p.i += 4
			return &rval{kind: kBool, b: true}, nil
		}
	case c == 'f':
		if strings.HasPrefix(p.s[p.i:], "false") {
			p.i += 5
			return &rval{kind: kBool}, nil
		}
	case c == '"':
		return p.str()
	case c == '-' || c >= '0' && c <= '9':
		return p.num()
	case c == '[':
		return p.array()
	case c == '{':
		return p.object()
	}
	return nil, errSyntax
}

func isDigit(c byte) bool { return c >= '0' && c <= '9' }

// num: -? (0 | [1-9][0-9]*) (\.[0-9]+)? ([eE][+-]?[0-9]+)?
func (p *rp) num() (*rval, error) {
	s, start := p.s, p.i
	i := p.i
	v := &rval{kind: kNum}
	if s[i] == '-' {
		v.neg = true
		i++
	}
	if i >= len(s) || !isDigit(s[i]) {
		return nil, errSyntax
	}
	intStart := i
	if s[i] == '0' {
		i++
	} else {
		for i < len(s) && isDigit(s[i]) {
			i++
		}
	}
	intDigits := s[intStart:i]
	frac := ""
	if i < len(s) && s[i] == '.' {
		j := i + 1
		for j < len(s) && isDigit(s[j]) {
			j++
		}
		if j == i+1 {
			return nil, errSyntax
		}
		frac = s[i+1 : j]
		i = j
	}
	expNeg, expDigits := false, ""
	if i < len(s) && (s[i] == 'e' || s[i] == 'E') {
		j := i + 1
		if j < len(s) && (s[j] == '+' || s[j] == '-') {
			expNeg = s[j] == '-'
			j++
		}
		k := j
		for k < len(s) && isDigit(s[k]) {
			k++
		}
		if k == j {
			return nil, errSyntax
		}
		expDigits = s[j:k]
		i = k
	}
	if p.lenient && i < len(s) {
		// jx wants a closer byte after a number
		if c := s[i]; !isWS(c) && c != ',' && c != ']' && c != '}' {
			return nil, errSyntax
		}
	}
	p.i = i
	v.raw = s[start:i]

	digits := strings.TrimLeft(intDigits+frac, "0")
	mant := strings.TrimRight(digits, "0")
	if mant == "" {
		v.neg = false
		return v, nil
	}
	v.mant = mant
	adj := int64(len(digits)-len(mant)) - int64(len(frac))
	expDigits = strings.TrimLeft(expDigits, "0")
	if len(expDigits) <= 17 {
		var e int64
		if expDigits != "" {
			e, _ = strconv.ParseInt(expDigits, 10, 64)
		}
		if expNeg {
			e = -e
		}
		v.exp = e + adj
		return v, nil
	}
	e, _ := new(big.Int).SetString(expDigits, 10)
	if expNeg {
		e.Neg(e)
	}
	e.Add(e, big.NewInt(adj))
	if e.IsInt64() {
		v.exp = e.Int64()
	} else {
		v.expBig = e
	}
	return v, nil
}

func hex4(s string) (uint16, bool) {
	if len(s) < 4 {
		return 0, false
	}
	var v uint16
	for i := 0; i < 4; i++ {
		c := s[i]
		switch {
		case c >= '0' && c <= '9':
			c -= '0'
		case c >= 'a' && c <= 'f':
			c = c - 'a' + 10
		case c >= 'A' && c <= 'F':
			c = c - 'A' + 10
		default:
			return 0, false
		}
		v = v<<4 | uint16(c)
	}
	return v, true
}

// units reads a string token and returns its UTF-16 code units.
func (p *rp) units() ([]uint16, string, error) {
	s, start := p.s, p.i
	i := p.i + 1 // opening quote
	var u []uint16
	for {
		if i >= len(s) {
			return nil, "", errSyntax
		}
		c := s[i]
		switch {
		case c == '"':
			p.i = i + 1
			return u, s[start : i+1], nil
		case c < 0x20:
			return nil, "", errSyntax
		case c == '\\':
			if i+1 >= len(s) {
				return nil, "", errSyntax
			}
			switch e := s[i+1]; e {
			case '"', '\\', '/':
				u = append(u, uint16(e))
			case 'b':
				u = append(u, 8)
			case 'f':
				u = append(u, 12)
			case 'n':
				u = append(u, 10)
			case 'r':
				u = append(u, 13)
			case 't':
				u = append(u, 9)
			case 'u':
				x, ok := hex4(s[i+2:])
				if !ok {
					return nil, "", errSyntax
				}
				u = append(u, x)
				i += 4
			default:
				return nil, "", errSyntax
			}
			i += 2
		case c < utf8.RuneSelf:
			u = append(u, uint16(c))
			i++
		default:
			r, w := utf8.DecodeRuneInString(s[i:])
			if r == utf8.RuneError && w == 1 {
				p.badUTF8 = true
			}
			if r >= 0x10000 {
				r1, r2 := utf16.EncodeRune(r)
				u = append(u, uint16(r1), uint16(r2))
			} else {
				u = append(u, uint16(r))
			}
			i += w
		}
	}
}

func (p *rp) encodeUnits(u []uint16) string {
	var b strings.Builder
	b.Grow(2 * len(u))
	for i := 0; i < len(u); i++ {
		x := u[i]
		switch {
		case x >= 0xD800 && x < 0xDC00:
			if i+1 < len(u) && u[i+1] >= 0xDC00 && u[i+1] < 0xE000 {
				b.WriteByte(byte(x >> 8))
				b.WriteByte(byte(x))
				i++
				x = u[i]
			} else {
				p.lone = true
			}
		case x >= 0xDC00 && x < 0xE000:
			p.lone = true
		}
		b.WriteByte(byte(x >> 8))
		b.WriteByte(byte(x))
	}
	return b.String()
}

func (p *rp) str() (*rval, error) {
	u, raw, err := p.units()
	if err != nil {
		return nil, err
	}
	return &rval{kind: kStr, raw: raw, str: p.encodeUnits(u)}, nil
}

func (p *rp) array() (*rval, error) {
	p.i++ // [
	v := &rval{kind: kArr}
	p.ws()
	if p.i < len(p.s) && p.s[p.i] == ']' {
		p.i++
		return v, nil
	}
	for {
		e, err := p.value()
		if err != nil {
			return nil, err
		}
		v.arr = append(v.arr, e)
		p.ws()
		model := p.lenient && p.right && p.objDepth == 0
		if p.i >= len(p.s) {
			if model {
				p.l2 = true
				return v, nil
			}
			return nil, errSyntax
		}
		c := p.s[p.i]
		p.i++
		switch {
		case c == ']':
			return v, nil
		case c == ',':
		case model:
			p.l2 = true // the offending byte is consumed and closes the array
			return v, nil
		default:
			return nil, errSyntax
		}
	}
}

func (p *rp) object() (*rval, error) {
	p.i++ // {
	p.objDepth++
	defer func() { p.objDepth-- }()
	v := &rval{kind: kObj, mem: map[string]*rval{}}
	p.ws()
	if p.i < len(p.s) && p.s[p.i] == '}' {
		p.i++
		return v, nil
	}
	for {
		p.ws()
		if p.i >= len(p.s) || p.s[p.i] != '"' {
			return nil, errSyntax
		}
		u, _, err := p.units()
		if err != nil {
			return nil, err
		}
		key := p.encodeUnits(u)
		p.ws()
		if p.i >= len(p.s) || p.s[p.i] != ':' {
			return nil, errSyntax
		}
		p.i++
		e, err := p.value()
		if err != nil {
			return nil, err
		}
		if _, ok := v.mem[key]; ok {
			p.dup = true
		} else {
			v.keys = append(v.keys, key)
		}
		v.mem[key] = e
		p.ws()
		if p.i >= len(p.s) {
			return nil, errSyntax
		}
		c := p.s[p.i]
		p.i++
		switch c {
		case '}':
			return v, nil
		case ',':
		default:
			return nil, errSyntax
		}
	}
}

// parsed is the reference reading of one text.
type parsed struct {
	v       *rval
	err     error // nil iff the text is exactly one JSON value with optional whitespace around it
	outside string
}

// refParse reads a whole text strictly. outside != "" marks texts the property
// gives no meaning to (RFC 8259 section 4: duplicate names; section 8.2: unpaired
// surrogates; section 8.1: not UTF-8) -- they are never judged.
func refParse(s string) parsed {
	p := &rp{s: s}
	v, err := p.value()
	if err == nil {
		p.ws()
		if p.i != len(s) {
			err = errTrailing
		}
	}
	out := ""
	switch {
	case !utf8.ValidString(s) || p.badUTF8:
		out = "invalid-utf8"
	case p.lone:
		out = "lone-surrogate"
	case p.dup:
		out = "duplicate-member-name"
	}
	if err != nil {
		v = nil
	}
	return parsed{v: v, err: err, outside: out}
}

// ---- comparison --------------------------------------------------------------

func numEqual(a, b *rval) bool {
	if a.mant != b.mant || a.neg != b.neg {
		return false
	}
	if (a.expBig == nil) != (b.expBig == nil) {
		return false
	}
	if a.expBig != nil {
		return a.expBig.Cmp(b.expBig) == 0
	}
	return a.exp == b.exp
}

// cmp compares two parsed values. tol, when set, may declare two different
// number leaves "the same" (used only to recognise known root causes, never for
// the expected result); the names it returns are collected in used.
type cmp struct {
	tol       func(a, b *rval) string
	used      []string
	firstDiff string
	selfBad   string // reference disagrees with math/big.Rat on this pair (harness error)
}

func (c *cmp) diff(what string) bool {
	if c.firstDiff == "" {
		c.firstDiff = what
	}
	return false
}

func (c *cmp) eq(a, b *rval) bool {
	if a.kind != b.kind {
		return c.diff("kind")
	}
	switch a.kind {
	case kNull:
		return true
	case kBool:
		if a.b != b.b {
			return c.diff("bool")
		}
		return true
	case kNum:
		if c.selfBad == "" && !ratCheck(a, b) {
			c.selfBad = a.raw + " / " + b.raw
		}
		if numEqual(a, b) {
			return true
		}
		if c.tol != nil {
			if name := c.tol(a, b); name != "" {
				c.used = append(c.used, name)
				return true
			}
		}
		return c.diff("number")
	case kStr:
		if a.str != b.str {
			return c.diff("string")
		}
		return true
	case kArr:
		if len(a.arr) != len(b.arr) {
			return c.diff("array-length")
		}
		for i := range a.arr {
			if !c.eq(a.arr[i], b.arr[i]) {
				return false
			}
		}
		return true
	default:
		if len(a.mem) != len(b.mem) {
			return c.diff("object-members")
		}
		for _, k := range a.keys {
			bv, ok := b.mem[k]
			if !ok {
				return c.diff("object-members")
			}
			if !c.eq(a.mem[k], bv) {
				return false
			}
		}
		return true
	}
}

func refEqual(a, b *rval) bool { return (&cmp{}).eq(a, b) }

// ---- self-checks of the reference against the standard library ----------------

// ratCheck: for moderate exponents the exact comparison must agree with
// math/big.Rat (standard library, independent of ogen and of the code above).
func ratCheck(a, b *rval) (agree bool) {
	small := func(v *rval) bool { return v.expBig == nil && v.exp > -400 && v.exp < 400 && len(v.raw) < 600 }
	if !small(a) || !small(b) {
		return true
	}
	x, ok1 := new(big.Rat).SetString(a.raw)
	y, ok2 := new(big.Rat).SetString(b.raw)
	if !ok1 || !ok2 {
		return true // e.g. 0e99999999999999999999: big.Rat refuses the exponent, nothing to cross-check
	}
	return (x.Cmp(y) == 0) == numEqual(a, b)
}

// strCheck: the decoded code units must agree with encoding/json.
func strCheck(v *rval) bool {
	var s string
	if err := json.Unmarshal([]byte(v.raw), &s); err != nil {
		return false
	}
	u := utf16.Encode([]rune(s))
	if len(u)*2 != len(v.str) {
		return false
	}
	for i, x := range u {
		if v.str[2*i] != byte(x>>8) || v.str[2*i+1] != byte(x) {
			return false
		}
	}
	return true
}

// selfCheck walks a value and reports the first leaf on which the reference and
// the standard library disagree ("" if none).
func selfCheck(v *rval) string {
	switch v.kind {
	case kStr:
		if !strCheck(v) {
			return "string " + v.raw
		}
	case kNum:
		if !ratCheck(v, v) {
			return "number " + v.raw
		}
	case kArr:
		for _, e := range v.arr {
			if s := selfCheck(e); s != "" {
				return s
			}
		}
	case kObj:
		for _, k := range v.keys {
			if s := selfCheck(v.mem[k]); s != "" {
				return s
			}
		}
	}
	return ""
}

// numLeafPairs calls f for every pair of number leaves at the same position of
// two values of the same shape (objects matched by name).
func numLeafPairs(a, b *rval, f func(a, b *rval)) {
	if a.kind != b.kind {
		return
	}
	switch a.kind {
	case kNum:
		f(a, b)
	case kArr:
		for i := range a.arr {
			if i < len(b.arr) {
				numLeafPairs(a.arr[i], b.arr[i], f)
			}
		}
	case kObj:
		for _, k := range a.keys {
			if bv, ok := b.mem[k]; ok {
				numLeafPairs(a.mem[k], bv, f)
			}
		}
	}
}

// ---- predicates used by classifiers -------------------------------------------

func intSpelled(raw string) bool {
	return !strings.ContainsAny(raw, ".eE")
}

// floatCollapse is the root-cause predicate of the float64 shortcut in
// json/equal.go equalNumber: the shortcut is taken when the spellings differ,
// not both are integer-spelled, and both convert to float64 without a range
// error; it then answers "equal" iff the two nearest float64 are equal.
func floatCollapse(a, b *rval) string {
	if numEqual(a, b) || intSpelled(a.raw) && intSpelled(b.raw) {
		return ""
	}
	fa, errA := strconv.ParseFloat(a.raw, 64)
	fb, errB := strconv.ParseFloat(b.raw, 64)
	if errA != nil || errB != nil || fa != fb {
		return ""
	}
	if fa == 0 {
		return "number-float64-underflow-collapse"
	}
	return "number-float64-rounding-collapse"
}

// nullInArray: the value has a null that is a direct element of an array.
func nullInArray(v *rval) bool {
	switch v.kind {
	case kArr:
		for _, e := range v.arr {
			if e.kind == kNull || nullInArray(e) {
				return true
			}
		}
	case kObj:
		for _, k := range v.keys {
			if nullInArray(v.mem[k]) {
				return true
			}
		}
	}
	return false
}

func hasKind(v *rval, k rkind) bool {
	if v.kind == k {
		return true
	}
	for _, e := range v.arr {
		if hasKind(e, k) {
			return true
		}
	}
	for _, e := range v.mem {
		if hasKind(e, k) {
			return true
		}
	}
	return false
}

// lenientParse runs the model of the known root causes (see rp).
func lenientParse(s string, right bool) (*rval, *rp, bool) {
	p := &rp{s: s, lenient: true, right: right}
	p.ws()
	if p.i < len(s) && s[p.i] == 'n' && !strings.HasPrefix(s[p.i:], "null") {
		p.l3 = true
		return &rval{kind: kNull}, p, true
	}
	v, err := p.value()
	if err != nil {
		return nil, p, false
	}
	p.ws()
	if p.i != len(s) {
		p.l1 = true
	}
	return v, p, true
}
