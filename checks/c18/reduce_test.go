package c18

// Unit "reduce-bounds": gen/reduce.go (an anchor of C18) compares the numeric bounds of two schemas
// with the JSON comparison when it decides whether the default responses of all operations are one
// "convenient error". Oracle: with convenient errors forced, gen.NewGenerator fails with "response is
// different" exactly when the two bound texts denote different numbers (reference parser, exact).

import (
	"encoding/json"
	"fmt"
	"strings"
	"testing"

	"pgregory.net/rapid"

	"github.com/ogen-go/ogen"
	"github.com/ogen-go/ogen/gen"

	"verif/internal/vk"
)

type redCase struct {
	Type    string `json:"type"`    // integer | number
	Keyword string `json:"keyword"` // maximum | minimum | multipleOf
	A       string `json:"a"`
	B       string `json:"b"`
	ViaJSON bool   `json:"via_json"` // document decoded with encoding/json (keeps every spelling) or ogen.Parse
	Label   string `json:"label"`
}

func redSpec(c redCase) string {
	op := func(id, val string) string {
		return fmt.Sprintf(`{"get":{"operationId":%q,"responses":{"200":{"description":"ok"},"default":{"description":"error","content":{"application/json":{"schema":{"type":"object","required":["code"],"properties":{"code":{"type":%q,%q:%s}}}}}}}}}`, id, c.Type, c.Keyword, val)
	}
	return `{"openapi":"3.0.3","info":{"title":"t","version":"1.0.0"},"paths":{"/a":` + op("a", c.A) + `,"/b":` + op("b", c.B) + `}}`
}

func drawRed(t *rapid.T) redCase {
	c := redCase{
		Type:    rapid.SampledFrom([]string{"integer", "number"}).Draw(t, "type"),
		Keyword: rapid.SampledFrom([]string{"maximum", "minimum", "multipleOf"}).Draw(t, "keyword"),
		ViaJSON: rapid.Bool().Draw(t, "viajson"),
	}
	a := &gv{k: '#', num: genNum(t)}
	var sa, sb strings.Builder
	if rapid.Bool().Draw(t, "same") {
		c.Label = "respelled"
		spellNum(t, &sa, a.num)
		spellNum(t, &sb, a.num)
	} else {
		b := &gv{k: '#'}
		c.Label = mutateNum(t, a, b)
		spellNum(t, &sa, a.num)
		spellNum(t, &sb, b.num)
	}
	c.A, c.B = sa.String(), sb.String()
	return c
}

func checkRed(u *vk.Unit, c redCase) *vk.Finding {
	pa, pb := refParse(c.A), refParse(c.B)
	if pa.err != nil || pb.err != nil || pa.outside != "" || pb.outside != "" {
		u.Label("not-judged:text-is-not-a-number")
		return nil
	}
	want := refEqual(pa.v, pb.v)
	var spec *ogen.Spec
	text := redSpec(c)
	var err error
	f := vk.Guard("reduce-panic", func() *vk.Finding {
		if c.ViaJSON {
			spec = &ogen.Spec{}
			err = json.Unmarshal([]byte(text), spec)
		} else {
			spec, err = ogen.Parse([]byte(text))
		}
		return nil
	})
	if f != nil {
		return f
	}
	if err != nil {
		u.Label("not-judged:document-does-not-decode")
		return nil
	}
	if !c.ViaJSON {
		// the YAML layer may re-spell numbers (floats beyond 17 digits, exponents): judge only when both
		// bounds survived as the numbers they were
		ok := true
		func() {
			defer func() {
				if recover() != nil {
					ok = false
				}
			}()
			for i, p := range []string{"/a", "/b"} {
				s := spec.Paths[p].Get.Responses["default"].Content["application/json"].Schema.Properties[0].Schema
				var got string
				switch c.Keyword {
				case "maximum":
					got = string(s.Maximum)
				case "minimum":
					got = string(s.Minimum)
				default:
					got = string(s.MultipleOf)
				}
				pg := refParse(got)
				if pg.err != nil || !refEqual(pg.v, []*rval{pa.v, pb.v}[i]) {
					ok = false
				}
			}
		}()
		if !ok {
			u.Label("not-judged:number-changed-by-the-yaml-layer")
			return nil
		}
	}
	var gerr error
	f = vk.Guard("reduce-panic", func() *vk.Finding {
		_, gerr = gen.NewGenerator(spec, gen.Options{Generator: gen.GenerateOptions{ConvenientErrors: 1}})
		return nil
	})
	if f != nil {
		return f
	}
	var got bool
	switch {
	case gerr == nil:
		got = true
	case strings.Contains(gerr.Error(), "response is different"):
		got = false
	default:
		// the bound itself is refused (not representable in the Go type, multipleOf <= 0, ...)
		u.Label("not-judged:bound-refused-by-the-generator")
		return nil
	}
	u.Label(fmt.Sprintf("judged:%s:equal=%v", c.Label, want))
	if c.A != c.B {
		u.NonTrivial(c.Type + c.Keyword + c.A + "|" + c.B + fmt.Sprint(c.ViaJSON))
	}
	u.Sample(map[string]any{"keyword": c.Keyword, "a": c.A, "b": c.B, "equal": want})
	switch {
	case want && !got:
		return vk.F("reduce-missed-equal-bound", "%s %s: %s and %s denote the same number but the default responses are reported as different (%s)", c.Type, c.Keyword, c.A, c.B, clip(gerr.Error()))
	case !want && got:
		return vk.F("reduce-merged-different-bounds", "%s %s: %s and %s are different numbers but the default responses were reduced to one error type", c.Type, c.Keyword, c.A, c.B)
	}
	return nil
}

var regressRed = []redCase{
	{Type: "integer", Keyword: "maximum", A: "100", B: "100", ViaJSON: true, Label: "control"},
	{Type: "integer", Keyword: "maximum", A: "100", B: "101", ViaJSON: true, Label: "control"},
	{Type: "integer", Keyword: "maximum", A: "9007199254740993", B: "9007199254740992", ViaJSON: false, Label: "beyond-2^53"},
	{Type: "integer", Keyword: "minimum", A: "-9007199254740993", B: "-9007199254740992", ViaJSON: true, Label: "beyond-2^53"},
	{Type: "integer", Keyword: "maximum", A: "9223372036854775807", B: "9223372036854775806", ViaJSON: false, Label: "beyond-2^53"},
	{Type: "integer", Keyword: "multipleOf", A: "9007199254740993", B: "9007199254740992", ViaJSON: true, Label: "beyond-2^53"},
	{Type: "number", Keyword: "maximum", A: "0.1", B: "0.1000000000000000000001", ViaJSON: true, Label: "below-float-resolution"},
	{Type: "number", Keyword: "maximum", A: "1", B: "1.0", ViaJSON: true, Label: "respelled"},
	{Type: "number", Keyword: "minimum", A: "10e-1", B: "1E0", ViaJSON: true, Label: "respelled"},
	{Type: "number", Keyword: "maximum", A: "1e-400", B: "2e-400", ViaJSON: true, Label: "underflow"},
	{Type: "number", Keyword: "maximum", A: "1e-400", B: "0", ViaJSON: true, Label: "underflow"},
}

func TestReduceBounds(t *testing.T) {
	u := vk.New(t, "C18", "reduce-bounds")
	defer u.Close()
	vk.Rapid(u, vk.N(6000, 200000), regressRed, drawRed, func(c redCase) *vk.Finding { return checkRed(u, c) })
}
