// Package c18 decides property C18: the JSON comparison ogen uses for duplicate
// enum members and defaults (json.Equal) is an equivalence relation that holds
// exactly when two texts denote the same JSON value, and a schema is rejected
// for duplicate enum values exactly when two members are the same value.
//
// Oracle: ref_test.go (strict RFC 8259 reader, exact decimal numbers, UTF-16
// code units, unordered objects). Generators: gen_test.go.
package c18

import (
	"encoding/json"
	"fmt"
	"net/url"
	"strings"
	"testing"

	"pgregory.net/rapid"

	ojson "github.com/ogen-go/ogen/json"
	"github.com/ogen-go/ogen/jsonpointer"
	"github.com/ogen-go/ogen/jsonschema"

	"verif/internal/vk"
)

func clip(s string) string {
	if len(s) > 160 {
		return fmt.Sprintf("%q…(%d bytes)", s[:160], len(s))
	}
	return fmt.Sprintf("%q", s)
}

// U spells a \uXXXX escape.
func U(hex string) string { return "\\" + "u" + hex }

// ---- judging one ordered pair --------------------------------------------------

type verdict struct {
	skip       string // != "": outside the property's domain, not judged
	wellFormed bool   // both texts are JSON values
	want, got  bool
	errored    bool
	a, b       *rval
	f          *vk.Finding
}

func callEqual(a, b string) (ok bool, err error, f *vk.Finding) {
	f = vk.Guard("equal-panic", func() *vk.Finding {
		ok, err = ojson.Equal([]byte(a), []byte(b))
		return nil
	})
	return
}

// missedClass finds the first scalar leaf that ogen itself (used here only to
// name the shape, not as an oracle) does not recognise as equal to its peer.
func missedClass(a, b *rval) string {
	switch a.kind {
	case kNum, kStr:
		if ok, _, _ := callEqual(a.raw, b.raw); !ok {
			return "missed-equal-" + a.kind.String()
		}
	case kArr:
		for i := range a.arr {
			if s := missedClass(a.arr[i], b.arr[i]); s != "" {
				return s
			}
		}
	case kObj:
		for _, k := range a.keys {
			if s := missedClass(a.mem[k], b.mem[k]); s != "" {
				return s
			}
		}
	}
	return ""
}

// classifyMalformed names the shape of a `true` on a text that is no JSON value.
func classifyMalformed(a, b string) string {
	la, ma, okA := lenientParse(a, false)
	lb, mb, okB := lenientParse(b, true)
	if okA && okB && (&cmp{tol: floatCollapse}).eq(la, lb) {
		switch {
		case mb.l2:
			return "malformed-right-array-tail-accepted"
		case ma.l3 || mb.l3:
			return "malformed-null-prefix-accepted"
		case ma.l1 || mb.l1:
			return "malformed-trailing-data-accepted"
		}
	}
	return "malformed-accepted-as-equal"
}

func judge(a, b string) (v verdict) {
	pa, pb := refParse(a), refParse(b)
	if pa.outside != "" {
		v.skip = pa.outside
		return
	}
	if pb.outside != "" {
		v.skip = pb.outside
		return
	}
	got, err, pf := callEqual(a, b)
	if pf != nil {
		pf.What = fmt.Sprintf("Equal(%s, %s): %s", clip(a), clip(b), pf.What)
		v.f = pf
		return
	}
	v.got, v.errored = got, err != nil
	if pa.err != nil || pb.err != nil {
		if got {
			v.f = vk.F(classifyMalformed(a, b), "Equal(%s, %s) = (true, %v) but %s is not a JSON value (%v)", clip(a), clip(b), err,
				map[bool]string{true: "the left text", false: "the right text"}[pa.err != nil], firstErr(pa.err, pb.err))
		}
		return
	}
	v.wellFormed, v.a, v.b = true, pa.v, pb.v
	for _, x := range []*rval{pa.v, pb.v} {
		if s := selfCheck(x); s != "" {
			v.f = vk.F("harness-reference-disagrees-with-stdlib", "reference reading of %s differs from the standard library", s)
			return
		}
	}
	c := &cmp{}
	v.want = c.eq(pa.v, pb.v)
	if c.selfBad != "" {
		v.f = vk.F("harness-reference-disagrees-with-stdlib", "reference number comparison differs from math/big.Rat on %s", c.selfBad)
		return
	}
	switch {
	case got == v.want:
	case got:
		ct := &cmp{tol: floatCollapse}
		if ct.eq(pa.v, pb.v) {
			v.f = vk.F(ct.used[0], "Equal(%s, %s) = true but the values differ (number leaves that differ exactly: %d, e.g. the first one; err=%v)", clip(a), clip(b), len(ct.used), err)
		} else {
			v.f = vk.F("false-equal-"+c.firstDiff, "Equal(%s, %s) = true but the values differ (%s)", clip(a), clip(b), c.firstDiff)
		}
	default:
		cl := ""
		switch {
		case nullInArray(pa.v):
			cl = "null-not-consumed-in-array"
		default:
			if cl = missedClass(pa.v, pb.v); cl == "" {
				cl = "missed-equal-structure"
			}
		}
		v.f = vk.F(cl, "Equal(%s, %s) = (false, %v) but both texts denote the same value", clip(a), clip(b), err)
	}
	return
}

func firstErr(a, b error) error {
	if a != nil {
		return a
	}
	return b
}

// prefer returns the first finding that is not a known one, else the first.
func prefer(u *vk.Unit, fs ...*vk.Finding) *vk.Finding {
	var first *vk.Finding
	for _, f := range fs {
		if f == nil {
			continue
		}
		if !u.Known(f.Classifier) {
			return f
		}
		if first == nil {
			first = f
		}
	}
	return first
}

// ---- unit 1: pairs -----------------------------------------------------------------

type pairCase struct {
	A      string `json:"a"`
	B      string `json:"b"`
	Intent string `json:"intent"` // what the generator built: "equal", "different" or "" (not known)
	Label  string `json:"label"`
}

func drawPair(t *rapid.T) pairCase {
	o := &genOpts{maxDepth: rapid.IntRange(0, 3).Draw(t, "depth"), nullInArr: rapid.IntRange(0, 5).Draw(t, "nullinarr") == 0}
	v := genValue(t, 0, o, false)
	switch mode := rapid.IntRange(0, 9).Draw(t, "mode"); {
	case mode < 5:
		return pairCase{A: spell(t, v), B: spell(t, v), Intent: "equal", Label: "respell"}
	case mode < 9:
		a, b, label, sure := mutate(t, v, o)
		c := pairCase{A: spell(t, a), B: spell(t, b), Label: "mutant:" + label}
		if sure {
			c.Intent = "different"
		}
		return c
	default:
		w := genValue(t, 0, o, false)
		return pairCase{A: spell(t, v), B: spell(t, w), Label: "independent"}
	}
}

func checkPair(u *vk.Unit, c pairCase) *vk.Finding {
	v1 := judge(c.A, c.B)
	v2 := judge(c.B, c.A)
	var hf *vk.Finding
	if v1.skip == "" && c.Intent != "" {
		switch {
		case !v1.wellFormed:
			hf = vk.F("harness-intent-mismatch", "generator meant well-formed texts, reference rejects %s / %s", clip(c.A), clip(c.B))
		case v1.want != (c.Intent == "equal"):
			hf = vk.F("harness-intent-mismatch", "generator meant %q, reference says equal=%v for %s / %s", c.Intent, v1.want, clip(c.A), clip(c.B))
		}
	}
	if v1.f == nil && v2.f == nil && hf == nil && v1.skip == "" && v1.got != v2.got {
		hf = vk.F("not-symmetric", "Equal(%s, %s) = %v but swapped = %v", clip(c.A), clip(c.B), v1.got, v2.got)
	}
	return prefer(u, hf, v1.f, v2.f)
}

var regressPairs = []pairCase{
	{A: "1", B: "1.0", Intent: "equal"}, {A: "1", B: "1e0", Intent: "equal"}, {A: "1", B: "10e-1", Intent: "equal"}, {A: "1", B: "0.1e1", Intent: "equal"},
	{A: "1", B: "100e-2", Intent: "equal"}, {A: "1", B: "1E+0", Intent: "equal"}, {A: "1.0", B: "1.00e-0", Intent: "equal"}, {A: "-0", B: "0", Intent: "equal"},
	{A: "-0.0", B: "0e5", Intent: "equal"}, {A: "0E-400", B: "0", Intent: "equal"}, {A: "1e400", B: "10e399", Intent: "equal"}, {A: "1e400", B: "1e401", Intent: "different"},
	{A: "1e400", B: "1" + zeros(400), Intent: "equal"}, {A: "1e400", B: "1" + zeros(399) + "1", Intent: "different"},
	{A: "1e-400", B: "10e-401", Intent: "equal"}, {A: "1e-400", B: "2e-400", Intent: "different"}, {A: "1e-400", B: "0", Intent: "different"}, {A: "1e-400", B: "-1e-400", Intent: "different"},
	{A: "9007199254740993", B: "9007199254740992.0", Intent: "different"}, {A: "9007199254740993", B: "9007199254740992", Intent: "different"},
	{A: "9007199254740993", B: "9007199254740993.0", Intent: "equal"}, {A: "9007199254740993.0", B: "9007199254740992.0", Intent: "different"},
	{A: "0.1", B: "0.10000000000000000001", Intent: "different"}, {A: "1", B: "1.0000000000000000001", Intent: "different"},
	{A: "1.7976931348623157e308", B: "1.7976931348623158e308", Intent: "different"}, {A: "1.7976931348623159e308", B: "1.797693134862316e308", Intent: "different"},
	{A: "123456789012345678901234567890", B: "123456789012345678901234567890.0", Intent: "equal"}, {A: "123456789012345678901234567891", B: "12345678901234567890123456789e1", Intent: "different"},
	{A: "5e-324", B: "4e-324", Intent: "different"}, {A: "1e5000", B: "10e4999", Intent: "equal"}, {A: "1e1000001", B: "10e1000000", Intent: "equal"}, {A: "1e10000000", B: "1.0e10000000", Intent: "equal"}, {A: "1e-1000001", B: "2e-1000001", Intent: "different"}, {A: "1e4294967296", B: "1e0", Intent: "different"}, {A: "1e-5000", B: "0.1e-4999", Intent: "equal"},
	{A: "1e1", B: "1e01", Intent: "equal"}, {A: "1e1", B: "1E+0001", Intent: "equal"}, {A: "10", B: "1e1", Intent: "equal"}, {A: "-10", B: "-1e1", Intent: "equal"},
	{A: `"1"`, B: "1", Intent: "different"}, {A: "[]", B: "{}", Intent: "different"}, {A: "null", B: "false", Intent: "different"}, {A: "null", B: "0", Intent: "different"},
	{A: "null", B: `""`, Intent: "different"}, {A: "null", B: `"null"`, Intent: "different"}, {A: "true", B: `"true"`, Intent: "different"}, {A: "false", B: "0", Intent: "different"},
	{A: "[]", B: "[[]]", Intent: "different"}, {A: "[1,2]", B: "[2,1]", Intent: "different"}, {A: "[1]", B: "1", Intent: "different"},
	{A: `{"a":1,"b":2}`, B: ` { "b" : 2 , "a" : 1 } `, Intent: "equal"}, {A: `{"a":1,"b":2}`, B: `{"a":1}`, Intent: "different"}, {A: `{"a":1}`, B: `{"a":1,"b":2}`, Intent: "different"},
	{A: `{"a":1,"b":2}`, B: `{"a":2,"b":1}`, Intent: "different"}, {A: `{"a":null}`, B: `{}`, Intent: "different"}, {A: `{"a":{"b":[1,{"c":2}]}}`, B: "{\"a\":{\"b\":[1.0,{\"c\":2e0}]\n}}", Intent: "equal"},
	{A: `"` + U("0041") + `"`, B: `"A"`, Intent: "equal"}, {A: `"\` + U("0041") + `"`, B: `"A"`, Intent: "different"}, {A: `"\/"`, B: `"/"`, Intent: "equal"}, {A: `"\\/"`, B: `"/"`, Intent: "different"},
	{A: `"` + U("d83d") + U("DE00") + `"`, B: "\"\U0001f600\"", Intent: "equal"}, {A: `"` + U("00e9") + `"`, B: "\"\xc3\xa9\"", Intent: "equal"}, {A: `"` + U("00e9") + `"`, B: `"e` + U("0301") + `"`, Intent: "different"},
	{A: `"` + U("0000") + `"`, B: `""`, Intent: "different"}, {A: `"\n"`, B: `"` + U("000A") + `"`, Intent: "equal"}, {A: `"\n"`, B: `"n"`, Intent: "different"}, {A: `"a"`, B: `"A"`, Intent: "different"},
	{A: `{"` + U("0061") + `":1}`, B: `{"a":1}`, Intent: "equal"}, {A: `{"\` + U("0061") + `":1}`, B: `{"a":1}`, Intent: "different"},
	{A: "[null]", B: "[null]", Intent: "equal"}, {A: "[1,null]", B: "[1, null]", Intent: "equal"}, {A: `{"a":[null]}`, B: `{"a":[null]}`, Intent: "equal"}, {A: `{"a":null}`, B: `{"a": null}`, Intent: "equal"},
	{A: " \t\r\n1 \t\r\n", B: "1", Intent: "equal"}, {A: "[ ]", B: "[]", Intent: "equal"}, {A: "{ }", B: "{}", Intent: "equal"},
}

func TestPairs(t *testing.T) {
	u := vk.New(t, "C18", "pairs")
	defer u.Close()
	u.Set("exponent_range", "generated exponents reach +-9e14, with the neighbourhood of 1e6 (where math/big.Rat stops reading exponents) and of 2^31 / 2^32 drawn on purpose")
	vk.Rapid(u, vk.N(1_000_000, 40_000_000), regressPairs, drawPair, func(c pairCase) *vk.Finding {
		if c.Label != "" {
			u.Label(c.Label)
		}
		pa, pb := refParse(c.A), refParse(c.B)
		if pa.outside == "" && pb.outside == "" && pa.err == nil && pb.err == nil {
			eq := refEqual(pa.v, pb.v)
			u.Label(map[bool]string{true: "ref:equal", false: "ref:different"}[eq])
			u.Label("top-level:" + pa.v.kind.String())
			if c.A != c.B && (hasKind(pa.v, kNum) || hasKind(pa.v, kObj) || hasKind(pb.v, kNum) || hasKind(pb.v, kObj)) {
				u.NonTrivial(c.A + "\x00" + c.B)
				u.Sample(c)
			}
			if !eq {
				exact := true
				n := 0
				numLeafPairs(pa.v, pb.v, func(x, y *rval) {
					if !numEqual(x, y) {
						n++
						if !(intSpelled(x.raw) && intSpelled(y.raw)) {
							exact = false
						}
					}
				})
				if n > 0 {
					u.Label(map[bool]string{true: "numdiff:both-integer-spelled", false: "numdiff:fraction-or-exponent-spelling"}[exact])
				}
			}
		} else {
			u.Label("not-judged-or-malformed")
		}
		return checkPair(u, c)
	})
}

// ---- unit 2: triples (reflexive, symmetric, transitive) --------------------------------

type tripleCase struct {
	A     string `json:"a"`
	B     string `json:"b"`
	C     string `json:"c"`
	Label string `json:"label"`
}

func drawTriple(t *rapid.T) tripleCase {
	o := &genOpts{maxDepth: rapid.IntRange(0, 2).Draw(t, "depth"), nullInArr: rapid.IntRange(0, 5).Draw(t, "nullinarr") == 0}
	v := genValue(t, 0, o, false)
	a, b := v, v
	label := "respellings"
	if rapid.IntRange(0, 9).Draw(t, "withmutant") < 4 {
		a, b, label, _ = mutate(t, v, o)
		label = "with-mutant:" + label
	}
	pick := func(name string) *gv {
		if rapid.Bool().Draw(t, name) {
			return b
		}
		return a
	}
	return tripleCase{A: spell(t, a), B: spell(t, pick("b")), C: spell(t, pick("c")), Label: label}
}

func checkTriple(u *vk.Unit, c tripleCase) *vk.Finding {
	txt := [3]string{c.A, c.B, c.C}
	var eq [3][3]bool
	var pf [3][3]*vk.Finding
	var fs []*vk.Finding
	for i := 0; i < 3; i++ {
		for j := 0; j < 3; j++ {
			v := judge(txt[i], txt[j])
			if v.skip != "" || !v.wellFormed && v.f == nil {
				return nil // only well-formed texts take part in the laws
			}
			eq[i][j] = v.got
			pf[i][j] = v.f
			if v.f != nil {
				fs = append(fs, v.f)
			}
		}
	}
	// The laws are checked on ogen's answers alone (no reference involved). The
	// reference is an equivalence, so a broken law means that one of the pairs
	// taking part in it is judged wrong; the law is reported under that pair's
	// classifier (root cause), or under its own name if there is none.
	blame := func(law *vk.Finding, pairs ...[2]int) *vk.Finding {
		var causes []*vk.Finding
		for _, p := range pairs {
			causes = append(causes, pf[p[0]][p[1]])
		}
		if f := prefer(u, causes...); f != nil {
			return vk.F(f.Classifier, "%s; cause: %s", law.What, f.What)
		}
		return law
	}
	var laws []*vk.Finding
	for i := 0; i < 3; i++ {
		if !eq[i][i] {
			laws = append(laws, blame(vk.F("not-reflexive", "Equal(x, x) = false for x = %s", clip(txt[i])), [2]int{i, i}))
		}
		for j := 0; j < 3; j++ {
			if i < j && eq[i][j] != eq[j][i] {
				laws = append(laws, blame(vk.F("not-symmetric", "Equal(%s, %s) = %v but swapped = %v", clip(txt[i]), clip(txt[j]), eq[i][j], eq[j][i]), [2]int{i, j}, [2]int{j, i}))
			}
			for k := 0; k < 3; k++ {
				if eq[i][j] && eq[j][k] && !eq[i][k] {
					laws = append(laws, blame(vk.F("not-transitive", "Equal(x,y) and Equal(y,z) but not Equal(x,z): x=%s y=%s z=%s", clip(txt[i]), clip(txt[j]), clip(txt[k])),
						[2]int{i, j}, [2]int{j, k}, [2]int{i, k}))
				}
			}
		}
	}
	return prefer(u, append(laws, fs...)...)
}

var regressTriples = []tripleCase{
	{A: "9007199254740993", B: "9007199254740992.0", C: "9007199254740992"},
	{A: "1e-400", B: "0.0", C: "0"}, {A: "1e-400", B: "0e0", C: "-1e-400"},
	{A: "1", B: "1.0", C: "1e0"}, {A: "1e400", B: "10e399", C: "0.1e401"},
	{A: `{"a":1,"b":[2,3]}`, B: `{"b":[2.0,3e0],"a":1}`, C: ` {"b" : [ 2 , 3 ] , "a" : 10e-1 }`},
	{A: "[null]", B: "[ null ]", C: "[null]"},
	{A: `"` + U("00E9") + `"`, B: "\"\xc3\xa9\"", C: `"` + U("00e9") + `"`},
}

func TestTriples(t *testing.T) {
	u := vk.New(t, "C18", "triples")
	defer u.Close()
	vk.Rapid(u, vk.N(250_000, 10_000_000), regressTriples, drawTriple, func(c tripleCase) *vk.Finding {
		if c.Label != "" {
			u.Label(strings.SplitN(c.Label, ":", 2)[0])
		}
		pa, pb, pc := refParse(c.A), refParse(c.B), refParse(c.C)
		if pa.err == nil && pb.err == nil && pc.err == nil && pa.outside == "" && pb.outside == "" && pc.outside == "" {
			ab, bc, ac := refEqual(pa.v, pb.v), refEqual(pb.v, pc.v), refEqual(pa.v, pc.v)
			n := 0
			for _, x := range []bool{ab, bc, ac} {
				if x {
					n++
				}
			}
			u.Label([]string{"ref:all-different", "ref:one-pair-equal", "ref:impossible", "ref:all-equal"}[n])
			if c.A != c.B && c.B != c.C && c.A != c.C && n > 0 {
				u.NonTrivial(c.A + "\x00" + c.B + "\x00" + c.C)
				u.Sample(c)
			}
		}
		return checkTriple(u, c)
	})
}

// ---- unit 3: malformed texts -------------------------------------------------------------

type malCase struct {
	Bad   string `json:"bad"`
	Good  string `json:"good"`
	Label string `json:"label"`
}

func drawMal(t *rapid.T) malCase {
	bad, good, label := drawMalformed(t)
	return malCase{Bad: bad, Good: good, Label: label}
}

// checkMal: whenever at least one operand is not a JSON value the relation
// must not hold (an error, or false); pairs of well-formed texts that the
// corruption happened to produce are judged like any other pair.
func checkMal(u *vk.Unit, c malCase) *vk.Finding {
	return prefer(u, judge(c.Bad, c.Good).f, judge(c.Good, c.Bad).f, judge(c.Bad, c.Bad).f)
}

var regressMal = func() []malCase {
	var out []malCase
	for _, s := range snippets {
		out = append(out, malCase{Bad: s.bad, Good: s.repaired, Label: "snippet"})
		out = append(out, malCase{Bad: "[" + s.bad + "]", Good: "[" + s.repaired + "]", Label: "snippet"})
		out = append(out, malCase{Bad: `{"k":` + s.bad + `}`, Good: `{"k":` + s.repaired + `}`, Label: "snippet"})
		out = append(out, malCase{Bad: `[[0,` + s.bad + `],1]`, Good: `[[0,` + s.repaired + `],1]`, Label: "snippet"})
	}
	for _, g := range garbage {
		for _, v := range []string{"1", "null", "true", "false", `"a"`, "[1]", `{"a":1}`, "[]", "1.5e3"} {
			out = append(out, malCase{Bad: v + g, Good: v, Label: "trailing-garbage"})
		}
	}
	out = append(out,
		malCase{Bad: "[1 x]", Good: "[1]"}, malCase{Bad: "[1", Good: "[1]"}, malCase{Bad: "[[1 x, 2]", Good: "[[1], 2]"}, malCase{Bad: "[[1", Good: "[[1]]"},
		malCase{Bad: "nope", Good: "null"}, malCase{Bad: "n", Good: "nul"}, malCase{Bad: "[nul]", Good: "[null]"}, malCase{Bad: "truefalse", Good: "true"},
		malCase{Bad: "1e1000001", Good: "1e1000001x"},
	)
	return out
}()

func TestMalformed(t *testing.T) {
	u := vk.New(t, "C18", "malformed")
	defer u.Close()
	vk.Rapid(u, vk.N(500_000, 20_000_000), regressMal, drawMal, func(c malCase) *vk.Finding {
		if c.Label != "" {
			u.Label(c.Label)
		}
		switch p := refParse(c.Bad); {
		case p.outside != "":
			u.Label("not-judged:" + p.outside)
		case p.err != nil:
			u.Label("ref:malformed")
			u.NonTrivial(c.Bad + "\x00" + c.Good)
			u.Sample(c)
		default:
			u.Label("ref:corruption-still-wellformed")
		}
		return checkMal(u, c)
	})
}

// ---- unit 4: schema level ------------------------------------------------------------------

type schCase struct {
	Type    string   `json:"type"`
	Members []string `json:"members"`
	ViaJSON bool     `json:"via_json"` // schema text read with encoding/json into RawSchema; else RawSchema built directly
	Label   string   `json:"label"`
}

var schemaTypes = []string{"", "", "string", "integer", "number", "boolean", "array", "object", "null"}

func drawSchema(t *rapid.T) schCase {
	o := &genOpts{maxDepth: rapid.IntRange(0, 2).Draw(t, "depth"), nullInArr: rapid.IntRange(0, 5).Draw(t, "nullinarr") == 0}
	n := rapid.IntRange(2, 5).Draw(t, "members")
	vals := []*gv{genValue(t, 0, o, false)}
	labels := map[string]bool{}
	for len(vals) < n {
		switch k := rapid.IntRange(0, 9).Draw(t, "how"); {
		case k < 3:
			vals = append(vals, vals[rapid.IntRange(0, len(vals)-1).Draw(t, "of")])
			labels["respelt-member"] = true
		case k < 7:
			a, b, _, _ := mutate(t, vals[rapid.IntRange(0, len(vals)-1).Draw(t, "of")], o)
			if len(vals) == 1 {
				vals[0] = a // mutateNum may move both numbers
			}
			vals = append(vals, b)
			labels["mutant-member"] = true
		default:
			vals = append(vals, genValue(t, 0, o, false))
			labels["fresh-member"] = true
		}
	}
	c := schCase{Type: rapid.SampledFrom(schemaTypes).Draw(t, "type"), ViaJSON: rapid.Bool().Draw(t, "viajson")}
	// shuffle so that the equal members are not always adjacent or first
	for i := len(vals) - 1; i > 0; i-- {
		j := rapid.IntRange(0, i).Draw(t, "perm")
		vals[i], vals[j] = vals[j], vals[i]
	}
	for _, v := range vals {
		st := &style{ws: 0, permute: true}
		var b strings.Builder
		spellInto(t, &b, v, st)
		c.Members = append(c.Members, b.String())
	}
	for _, l := range []string{"respelt-member", "mutant-member", "fresh-member"} {
		if labels[l] {
			c.Label += l + " "
		}
	}
	c.Label = strings.TrimSpace(c.Label)
	return c
}

func parseEnumSchema(c schCase) (err error, f *vk.Finding) {
	f = vk.Guard("schema-parse-panic", func() *vk.Finding {
		raw := &jsonschema.RawSchema{}
		if c.ViaJSON {
			var b strings.Builder
			b.WriteByte('{')
			if c.Type != "" {
				fmt.Fprintf(&b, `"type":%q, `, c.Type)
			}
			b.WriteString(`"enum": [`)
			b.WriteString(strings.Join(c.Members, " ,\n "))
			b.WriteString(`]}`)
			if e := json.Unmarshal([]byte(b.String()), raw); e != nil {
				return vk.F("harness-schema-text", "schema text does not decode: %v\n%s", e, b.String())
			}
			if len(raw.Enum) != len(c.Members) {
				return vk.F("harness-schema-text", "schema text decodes to %d members, want %d", len(raw.Enum), len(c.Members))
			}
		} else {
			raw.Type = c.Type
			for _, m := range c.Members {
				raw.Enum = append(raw.Enum, json.RawMessage(m))
			}
		}
		p := jsonschema.NewParser(jsonschema.Settings{})
		_, err = p.Parse(raw, jsonpointer.NewResolveCtx(&url.URL{Path: "/root.json"}, jsonpointer.DefaultDepthLimit))
		return nil
	})
	return
}

const dupMessage = "duplicate enum value"

func checkSchema(u *vk.Unit, c schCase) (f *vk.Finding, wantDup, judged bool) {
	ps := make([]parsed, len(c.Members))
	for i, m := range c.Members {
		ps[i] = refParse(m)
		if ps[i].outside != "" || ps[i].err != nil {
			return nil, false, false
		}
	}
	for i := range ps {
		for j := i + 1; j < len(ps); j++ {
			if refEqual(ps[i].v, ps[j].v) {
				wantDup = true
			}
		}
	}
	err, pf := parseEnumSchema(c)
	if pf != nil {
		return pf, wantDup, true
	}
	gotDup := err != nil && strings.Contains(err.Error(), dupMessage)
	if gotDup == wantDup {
		return nil, wantDup, true
	}
	// name the shape through the member pair that is compared wrongly
	var fs []*vk.Finding
	for i := range c.Members {
		for j := range c.Members {
			if i != j {
				if v := judge(c.Members[i], c.Members[j]); v.f != nil {
					fs = append(fs, vk.F(v.f.Classifier, "schema type=%q enum=[%s] duplicate reported=%v (err=%v), members the same value=%v; cause: %s",
						c.Type, clip(strings.Join(c.Members, ", ")), gotDup, err, wantDup, v.f.What))
				}
			}
		}
	}
	if f := prefer(u, fs...); f != nil {
		return f, wantDup, true
	}
	if wantDup {
		return vk.F("enum-duplicate-missed", "schema type=%q enum=[%s]: two members are the same value but the parser does not report %q (err=%v)", c.Type, clip(strings.Join(c.Members, ", ")), dupMessage, err), wantDup, true
	}
	return vk.F("enum-duplicate-spurious", "schema type=%q enum=[%s]: all members are different values but the parser reports: %v", c.Type, clip(strings.Join(c.Members, ", ")), err), wantDup, true
}

var regressSchemas = []schCase{
	{Type: "integer", Members: []string{"1", "2", "1.0"}}, {Type: "number", Members: []string{"1", "2", "3"}}, {Type: "", Members: []string{"1", `"1"`, "[1]", `{"1":1}`, "null"}},
	{Type: "string", Members: []string{`"a"`, `"b"`, `"` + U("0061") + `"`}, ViaJSON: true}, {Type: "string", Members: []string{`"a"`, `"A"`}},
	{Type: "integer", Members: []string{"9007199254740993", "9007199254740992"}}, {Type: "number", Members: []string{"9007199254740993", "9007199254740992.0"}},
	{Type: "number", Members: []string{"1e-400", "2e-400"}, ViaJSON: true}, {Type: "number", Members: []string{"1e400", "10e399"}}, {Type: "number", Members: []string{"1e400", "1e401"}},
	{Type: "array", Members: []string{"[null]", "[null]"}}, {Type: "array", Members: []string{"[1,2]", "[2,1]", "[1,2.0]"}}, {Type: "object", Members: []string{`{"a":1,"b":2}`, `{"b":2,"a":1}`}, ViaJSON: true},
	{Type: "", Members: []string{"null", "false", "0", `""`, "[]", "{}"}}, {Type: "", Members: []string{"0", "1", "2", "3", "-0"}}, {Type: "", Members: []string{"3", "0", "1", "2", "3e0"}},
}

func TestSchemaEnum(t *testing.T) {
	u := vk.New(t, "C18", "schema-enum")
	defer u.Close()
	vk.Rapid(u, vk.N(200_000, 7_000_000), regressSchemas, drawSchema, func(c schCase) *vk.Finding {
		f, wantDup, judged := checkSchema(u, c)
		switch {
		case !judged:
			u.Label("not-judged")
		case wantDup:
			u.Label("ref:has-duplicate")
		default:
			u.Label("ref:all-distinct")
		}
		if judged {
			u.Label(fmt.Sprintf("members:%d", len(c.Members)))
			u.NonTrivial(c.Type + "\x00" + strings.Join(c.Members, "\x00"))
			u.Sample(c)
		}
		return f
	})
}

// ---- native fuzz targets: the generators and oracles of the units above, driven by coverage ----

func FuzzPairs(f *testing.F)      { vk.FuzzUnit(f, TestPairs, 0) }
func FuzzTriples(f *testing.F)    { vk.FuzzUnit(f, TestTriples, 0) }
func FuzzMalformed(f *testing.F)  { vk.FuzzUnit(f, TestMalformed, 0) }
func FuzzSchemaEnum(f *testing.F) { vk.FuzzUnit(f, TestSchemaEnum, 0) }
func FuzzReduceBounds(f *testing.F) { vk.FuzzUnit(f, TestReduceBounds, 0) }
