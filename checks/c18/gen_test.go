package c18

// Generators: random JSON values, meaning-preserving spellings, near-equal
// mutants and malformed texts. All random choices go through rapid.

import (
	"fmt"
	"math/big"
	"strconv"
	"strings"
	"unicode"

	"pgregory.net/rapid"
)

// gnum is a generator-side number: (-1)^neg * mant * 10^exp.
type gnum struct {
	neg  bool
	mant string // decimal digits without leading zeros; "" is zero
	exp  int
	hint byte // 0 free; 'i' integer spelling when possible; 'f' never integer-spelled
}

// gv is a generator-side value.
type gv struct {
	k    byte // n b # s a o, x = verbatim text (malformed snippet)
	b    bool
	num  gnum
	str  []rune
	arr  []*gv    // elements, or member values
	keys [][]rune // member names (k == 'o')
	raw  string
}

type genOpts struct {
	maxDepth  int
	nullInArr bool // allow null as a direct array element (known finding null-not-consumed-in-array)
}

var runeAlphabet = []rune{
	'a', 'b', 'A', 'z', '0', '1', '9', 'e', 'E', '-', '+', '.', ' ', '/', '"', '\\', 'u', 'n',
	'\b', '\f', '\n', '\r', '\t', 0, 0x1f, 0x7f, 0x80, 0xe9, 0x301, 0xdf, 0x2028, 0x2029, 0x4e16,
	0xd7ff, 0xe000, 0xfffd, 0xfeff, 0xffff, 0x10000, 0x1f600, 0x10ffff, '{', '[', ',', ':',
}

var specialStrings = []string{
	"null", "true", "false", "1", "1.0", "1e0", "-0", `\u`+`0041`, `\/`, `\\`, `"`, "[]", "{}", " ", "a b",
	"\xc3\xa9", "e\xcc\x81", "\U0001f600", "\xef\xbf\xbd",
}

func genStr(t *rapid.T) []rune {
	if rapid.IntRange(0, 9).Draw(t, "sspecial") == 0 {
		return []rune(rapid.SampledFrom(specialStrings).Draw(t, "sstr"))
	}
	n := rapid.IntRange(0, 5).Draw(t, "slen")
	r := make([]rune, n)
	for i := range r {
		r[i] = rapid.SampledFrom(runeAlphabet).Draw(t, "rune")
	}
	return r
}

func digits(t *rapid.T, min, max int) string {
	n := rapid.IntRange(min, max).Draw(t, "ndigits")
	b := make([]byte, n)
	for i := range b {
		lo := 0
		if i == 0 || i == n-1 {
			lo = 1 // no leading zero, no trailing zero
		}
		b[i] = byte('0' + rapid.IntRange(lo, 9).Draw(t, "digit"))
	}
	return string(b)
}

var boundaryInts = []string{
	"9007199254740992",     // 2^53
	"9223372036854775807",  // 2^63-1
	"9223372036854775808",  // 2^63
	"18446744073709551615", // 2^64-1
	"18446744073709551616", // 2^64
	"2147483648", "4294967296",
	"1000000000000000", "10000000000000000", "100000000000000000", "10000000000000000000",
	"10000000000000000000000", "100000000000000000000000", "123456789012345678901234567890",
	"179769313486231570000000000000000000000",
}

type special struct {
	mant string
	exp  int
}

var float64Boundaries = []special{
	{"17976931348623157", 292}, {"17976931348623158", 292}, {"17976931348623159", 292}, {"18", 307}, {"1", 308}, {"1", 309},
	{"49406564584124654", -340}, {"5", -324}, {"24703282292062327", -340}, {"24703282292062328", -340}, {"3", -324}, {"2", -324},
	{"22250738585072014", -324}, {"22250738585072011", -324}, {"1", -323}, {"1", -400}, {"2", -400}, {"1", 400}, {"1", 401},
}

func addInt(s string, d int64) string {
	x, _ := new(big.Int).SetString(s, 10)
	x.Add(x, big.NewInt(d))
	return x.String()
}

// normalize strips trailing zeros of the mantissa into the exponent.
func (n gnum) normalize() gnum {
	m := strings.TrimLeft(n.mant, "0")
	t := strings.TrimRight(m, "0")
	if t == "" {
		return gnum{hint: n.hint}
	}
	n.exp += len(m) - len(t)
	n.mant = t
	return n
}

func genNum(t *rapid.T) gnum {
	var n gnum
	switch c := rapid.IntRange(0, 15).Draw(t, "numclass"); c {
	case 14:
		// huge exponents: beyond what math/big.Rat reads (1e6) and beyond 32 bits
		n.mant = digits(t, 1, 5)
		n.exp = rapid.IntRange(999_990, 1_000_020).Draw(t, "exp-around-rat-limit")
		if rapid.Bool().Draw(t, "far") {
			n.exp = rapid.IntRange(1_000_001, 900_000_000_000_000).Draw(t, "exp-huge")
		}
		if rapid.Bool().Draw(t, "expneg") {
			n.exp = -n.exp
		}
	case 15:
		n.mant = "1"
		n.exp = rapid.SampledFrom([]int{1_000_000, 1_000_001, -1_000_000, -1_000_001, 2147483647, 2147483648, -2147483648, -2147483649, 4294967296, 10_000_000}).Draw(t, "exp-boundary")
	case 0, 1, 2:
		v := rapid.IntRange(-20, 20).Draw(t, "small")
		if v < 0 {
			n.neg, v = true, -v
		}
		n.mant = strconv.Itoa(v)
	case 3:
		// zero
	case 4:
		base := rapid.SampledFrom(boundaryInts).Draw(t, "boundary")
		n.mant = addInt(base, int64(rapid.IntRange(-2, 2).Draw(t, "delta")))
	case 5:
		n.mant = digits(t, 1, 40)
	case 6, 7:
		n.mant = digits(t, 1, 20)
		n.exp = rapid.IntRange(-25, 5).Draw(t, "exp")
	case 8:
		n.mant = digits(t, 16, 30)
		n.exp = rapid.IntRange(-40, 10).Draw(t, "exp")
	case 9:
		s := rapid.SampledFrom(float64Boundaries).Draw(t, "f64")
		n.mant, n.exp = s.mant, s.exp
	case 10:
		n.mant = digits(t, 1, 5)
		n.exp = rapid.IntRange(300, 5000).Draw(t, "exp")
	case 11:
		n.mant = digits(t, 1, 5)
		n.exp = rapid.IntRange(-5000, -300).Draw(t, "exp")
	case 12:
		n.mant = "1"
		n.exp = rapid.IntRange(-30, 30).Draw(t, "exp")
	case 13:
		n.mant = digits(t, 1, 17)
		n.exp = rapid.IntRange(-330, 310).Draw(t, "exp")
	}
	if rapid.IntRange(0, 3).Draw(t, "neg") == 0 {
		n.neg = !n.neg
	}
	return n.normalize()
}

func genValue(t *rapid.T, depth int, o *genOpts, inArr bool) *gv {
	k := rapid.IntRange(0, 99).Draw(t, "kind")
	if depth >= o.maxDepth {
		k %= 70
	} else if depth == 0 && k < 50 {
		k = 70 + k%30
	}
	switch {
	case k < 38:
		return &gv{k: '#', num: genNum(t)}
	case k < 58:
		return &gv{k: 's', str: genStr(t)}
	case k < 64:
		if inArr && !o.nullInArr {
			return &gv{k: 'b'}
		}
		return &gv{k: 'n'}
	case k < 70:
		return &gv{k: 'b', b: rapid.Bool().Draw(t, "bool")}
	case k < 85:
		v := &gv{k: 'a'}
		n := rapid.IntRange(0, 4).Draw(t, "alen")
		for i := 0; i < n; i++ {
			v.arr = append(v.arr, genValue(t, depth+1, o, true))
		}
		return v
	default:
		v := &gv{k: 'o'}
		n := rapid.IntRange(0, 4).Draw(t, "olen")
		for i := 0; i < n; i++ {
			key := genStr(t)
			if hasKey(v, key) {
				continue
			}
			v.keys = append(v.keys, key)
			v.arr = append(v.arr, genValue(t, depth+1, o, false))
		}
		return v
	}
}

func hasKey(v *gv, key []rune) bool {
	for _, k := range v.keys {
		if string(k) == string(key) {
			return true
		}
	}
	return false
}

func clone(v *gv) *gv {
	c := *v
	c.str = append([]rune(nil), v.str...)
	c.arr = make([]*gv, len(v.arr))
	for i, e := range v.arr {
		c.arr[i] = clone(e)
	}
	c.keys = make([][]rune, len(v.keys))
	for i, k := range v.keys {
		c.keys[i] = append([]rune(nil), k...)
	}
	return &c
}

func collect(v *gv, out *[]*gv) {
	*out = append(*out, v)
	for _, e := range v.arr {
		collect(e, out)
	}
}

// ---- spelling -------------------------------------------------------------------

type style struct {
	ws      int  // 0 none, 1 one space after , and :, 2 random
	permute bool // reorder object members
}

var wsChoices = []string{"", "", "", " ", "\n", "\t", "\r\n", "  ", " \t\r\n "}

func drawStyle(t *rapid.T) *style {
	return &style{ws: rapid.IntRange(0, 2).Draw(t, "wsmode"), permute: rapid.IntRange(0, 3).Draw(t, "permute") != 0}
}

func (st *style) gap(t *rapid.T, b *strings.Builder, after byte) {
	switch st.ws {
	case 1:
		if after == ',' || after == ':' {
			b.WriteByte(' ')
		}
	case 2:
		b.WriteString(rapid.SampledFrom(wsChoices).Draw(t, "ws"))
	}
}

func zeros(n int) string { return strings.Repeat("0", n) }

func writeMant(b *strings.Builder, d string, k int) {
	switch {
	case k == 0:
		b.WriteString(d)
	case k < len(d):
		b.WriteString(d[:len(d)-k])
		b.WriteByte('.')
		b.WriteString(d[len(d)-k:])
	default:
		b.WriteString("0.")
		b.WriteString(zeros(k - len(d)))
		b.WriteString(d)
	}
}

var zeroForms = []string{"0", "-0", "0.0", "-0.0", "0e0", "0E0", "0E+5", "0.00e-3", "-0e-1", "0e400", "0.0e-400", "0.000", "-0E+0"}

func spellNum(t *rapid.T, b *strings.Builder, n gnum) {
	if n.mant == "" {
		switch n.hint {
		case 'i':
			b.WriteString(zeroForms[rapid.IntRange(0, 1).Draw(t, "zform")])
		case 'f':
			b.WriteString(zeroForms[rapid.IntRange(2, len(zeroForms)-1).Draw(t, "zform")])
		default:
			b.WriteString(rapid.SampledFrom(zeroForms).Draw(t, "zform"))
		}
		return
	}
	d, e := n.mant, n.exp
	if n.neg {
		b.WriteByte('-')
	}
	mode := rapid.IntRange(0, 9).Draw(t, "nmode")
	switch n.hint {
	case 'i':
		mode = 0
	case 'f':
		if mode < 2 {
			mode += 2
		}
	}
	limit := 40
	if n.hint == 'i' || rapid.IntRange(0, 19).Draw(t, "longplain") == 0 {
		limit = 460
	}
	if mode <= 2 && e <= limit && -e <= limit {
		if e >= 0 {
			b.WriteString(d)
			b.WriteString(zeros(e))
			if mode == 2 {
				b.WriteString(rapid.SampledFrom([]string{".0", ".00", ".000000"}).Draw(t, "fz"))
			}
		} else {
			writeMant(b, d, -e)
			if mode == 2 {
				b.WriteString(zeros(rapid.IntRange(1, 3).Draw(t, "fz")))
			}
		}
		return
	}
	if rapid.IntRange(0, 3).Draw(t, "tz") == 0 {
		z := rapid.IntRange(1, 3).Draw(t, "tzn")
		d += zeros(z)
		e -= z
	}
	k := rapid.IntRange(0, len(d)+2).Draw(t, "point")
	writeMant(b, d, k)
	e += k
	if e == 0 && (k > 0 || n.hint != 'f') && rapid.Bool().Draw(t, "noexp") {
		if k == 0 && n.hint == 'i' {
			return
		}
		if k > 0 || n.hint != 'f' {
			return
		}
	}
	b.WriteByte("eE"[rapid.IntRange(0, 1).Draw(t, "ecase")])
	if e < 0 {
		b.WriteByte('-')
		e = -e
	} else if rapid.IntRange(0, 2).Draw(t, "plus") == 0 {
		b.WriteByte('+')
	}
	if rapid.IntRange(0, 9).Draw(t, "ezero") == 0 {
		b.WriteString(zeros(rapid.IntRange(1, 3).Draw(t, "ezn")))
	}
	b.WriteString(strconv.Itoa(e))
}

func writeU(t *rapid.T, b *strings.Builder, u rune) {
	h := fmt.Sprintf("%04x", u)
	switch rapid.IntRange(0, 2).Draw(t, "hexcase") {
	case 1:
		h = strings.ToUpper(h)
	case 2:
		hb := []byte(h)
		for i := range hb {
			if i%2 == 0 {
				hb[i] = byte(unicode.ToUpper(rune(hb[i])))
			}
		}
		h = string(hb)
	}
	b.WriteString(`\u`)
	b.WriteString(h)
}

var shortEscape = map[rune]byte{'"': '"', '\\': '\\', '/': '/', '\b': 'b', '\f': 'f', '\n': 'n', '\r': 'r', '\t': 't'}

func spellStr(t *rapid.T, b *strings.Builder, s []rune) {
	b.WriteByte('"')
	for _, r := range s {
		c := rapid.IntRange(0, 9).Draw(t, "esc")
		se, hasShort := shortEscape[r]
		must := r < 0x20 || r == '"' || r == '\\'
		switch {
		case hasShort && (must && c < 6 || !must && c == 9):
			b.WriteByte('\\')
			b.WriteByte(se)
		case must || c >= 7 && c < 9:
			if r >= 0x10000 {
				r -= 0x10000
				writeU(t, b, 0xd800+(r>>10))
				writeU(t, b, 0xdc00+(r&0x3ff))
			} else {
				writeU(t, b, r)
			}
		default:
			b.WriteRune(r)
		}
	}
	b.WriteByte('"')
}

func spellInto(t *rapid.T, b *strings.Builder, v *gv, st *style) {
	switch v.k {
	case 'n':
		b.WriteString("null")
	case 'b':
		if v.b {
			b.WriteString("true")
		} else {
			b.WriteString("false")
		}
	case '#':
		spellNum(t, b, v.num)
	case 's':
		spellStr(t, b, v.str)
	case 'x':
		b.WriteString(v.raw)
	case 'a':
		b.WriteByte('[')
		for i, e := range v.arr {
			if i > 0 {
				st.gap(t, b, 0)
				b.WriteByte(',')
				st.gap(t, b, ',')
			} else {
				st.gap(t, b, 0)
			}
			spellInto(t, b, e, st)
		}
		st.gap(t, b, 0)
		b.WriteByte(']')
	case 'o':
		idx := make([]int, len(v.arr))
		for i := range idx {
			idx[i] = i
		}
		if st.permute {
			for i := len(idx) - 1; i > 0; i-- {
				j := rapid.IntRange(0, i).Draw(t, "perm")
				idx[i], idx[j] = idx[j], idx[i]
			}
		}
		b.WriteByte('{')
		for n, i := range idx {
			if n > 0 {
				st.gap(t, b, 0)
				b.WriteByte(',')
				st.gap(t, b, ',')
			} else {
				st.gap(t, b, 0)
			}
			spellStr(t, b, v.keys[i])
			st.gap(t, b, 0)
			b.WriteByte(':')
			st.gap(t, b, ':')
			spellInto(t, b, v.arr[i], st)
		}
		st.gap(t, b, 0)
		b.WriteByte('}')
	}
}

func spell(t *rapid.T, v *gv) string {
	st := drawStyle(t)
	var b strings.Builder
	if st.ws == 2 {
		st.gap(t, &b, 0)
	}
	spellInto(t, &b, v, st)
	if st.ws == 2 {
		st.gap(t, &b, 0)
	}
	return b.String()
}

// ---- near-equal mutants -------------------------------------------------------------

func bumpLastDigit(m string) string {
	b := []byte(m)
	if d := b[len(b)-1]; d < '9' {
		b[len(b)-1] = d + 1
	} else {
		b[len(b)-1] = '8'
	}
	return string(b)
}

// mutateNum changes the number pair (a, b) -- both start as the same value --
// into two different values. Classes that cannot reach the float64 shortcut of
// equalNumber by construction are marked in the label with "[exact]".
func mutateNum(t *rapid.T, a, b *gv) string {
	na := a.num.normalize()
	nb := na
	label := ""
	switch rapid.IntRange(0, 12).Draw(t, "nummut") {
	case 0, 1:
		label = "num-last-digit"
		if na.mant == "" {
			nb.mant = "1"
		} else {
			nb.mant = bumpLastDigit(na.mant)
		}
	case 2:
		label = "num-bigint-adjacent-int[exact]"
		na = gnum{mant: addInt(rapid.SampledFrom(boundaryInts).Draw(t, "boundary"), int64(rapid.IntRange(-2, 2).Draw(t, "delta"))), neg: na.neg, hint: 'i'}
		nb = na
		nb.mant = addInt(na.mant, 1)
	case 3:
		label = "num-bigint-adjacent-mixed"
		na = gnum{mant: addInt(rapid.SampledFrom(boundaryInts).Draw(t, "boundary"), int64(rapid.IntRange(-2, 2).Draw(t, "delta"))), neg: na.neg, hint: 'i'}
		nb = na
		nb.mant = addInt(na.mant, 1)
		if rapid.Bool().Draw(t, "which") {
			na.hint = 'f'
		} else {
			nb.hint = 'f'
		}
	case 4:
		label = "num-deep-digit"
		if na.mant == "" {
			na.mant, nb.mant = "1", "1"
		}
		pad := rapid.IntRange(17, 30).Draw(t, "sig") - len(na.mant) - 1
		if pad < 0 {
			pad = 0
		}
		nb.mant = na.mant + zeros(pad) + "1"
		nb.exp = na.exp - pad - 1
	case 5:
		label = "num-within-f64[exact]"
		na = gnum{mant: digits(t, 1, 15), exp: rapid.IntRange(-280, 280).Draw(t, "exp"), neg: na.neg}
		nb = na
		nb.mant = bumpLastDigit(na.mant)
	case 6:
		label = "num-overflow[exact]"
		na = gnum{mant: digits(t, 1, 20), exp: rapid.IntRange(310, 5000).Draw(t, "exp"), neg: na.neg}
		if rapid.IntRange(0, 3).Draw(t, "huge") == 0 {
			na.exp = rapid.IntRange(999_990, 3_000_000_000).Draw(t, "exp-huge")
		}
		nb = na
		if rapid.Bool().Draw(t, "how") {
			nb.mant = bumpLastDigit(na.mant)
		} else {
			nb.exp++
		}
	case 7:
		label = "num-underflow"
		na = gnum{mant: digits(t, 1, 5), exp: rapid.IntRange(-5000, -345).Draw(t, "exp"), neg: na.neg}
		if rapid.IntRange(0, 3).Draw(t, "huge") == 0 {
			na.exp = -rapid.IntRange(999_990, 3_000_000_000).Draw(t, "exp-huge")
		}
		nb = na
		switch rapid.IntRange(0, 3).Draw(t, "how") {
		case 0:
			nb.mant = bumpLastDigit(na.mant)
		case 1:
			nb.exp--
		case 2:
			nb = gnum{}
		case 3:
			nb.neg = !nb.neg
		}
	case 8:
		label = "num-exp-step"
		if na.mant == "" {
			na.mant, nb.mant = "1", "1"
		}
		if rapid.Bool().Draw(t, "dir") {
			nb.exp++
		} else {
			nb.exp--
		}
	case 9:
		label = "num-sign"
		if na.mant == "" {
			na.mant, nb.mant = "1", "1"
		}
		nb.neg = !na.neg
	case 10:
		label = "num-maxfloat"
		na = gnum{mant: "17976931348623157", exp: 292, neg: na.neg}
		nb = na
		s := rapid.SampledFrom([]special{{"17976931348623158", 292}, {"17976931348623159", 292}, {"17976931348623157000001", 286}, {"1", 309}, {"17976931348623156", 292}}).Draw(t, "max")
		nb.mant, nb.exp = s.mant, s.exp
	case 11:
		label = "num-to-string"
		var sb strings.Builder
		spellNum(t, &sb, na)
		*b = gv{k: 's', str: []rune(sb.String())}
		a.num = na
		return label
	case 12:
		label = "num-int-vs-int-long[exact]"
		na = gnum{mant: digits(t, 17, 40), neg: na.neg, hint: 'i'}
		nb = na
		nb.mant = bumpLastDigit(na.mant)
	}
	a.num, b.num = na, nb
	return label
}

func otherRune(t *rapid.T, r rune) rune {
	for {
		if x := rapid.SampledFrom(runeAlphabet).Draw(t, "rune"); x != r {
			return x
		}
	}
}

func mutateStr(t *rapid.T, a, b *gv) string {
	s := b.str
	switch rapid.IntRange(0, 9).Draw(t, "strmut") {
	case 0, 1:
		if len(s) == 0 {
			b.str = []rune{'a'}
			return "str-append"
		}
		i := rapid.IntRange(0, len(s)-1).Draw(t, "pos")
		b.str[i] = otherRune(t, s[i])
		return "str-change-rune"
	case 2:
		if len(s) == 0 {
			b.str = []rune{0}
			return "str-append"
		}
		i := rapid.IntRange(0, len(s)-1).Draw(t, "pos")
		b.str = append(append([]rune(nil), s[:i]...), s[i+1:]...)
		return "str-delete-rune"
	case 3:
		b.str = append(s, rapid.SampledFrom(runeAlphabet).Draw(t, "rune"))
		return "str-append"
	case 4:
		for i, r := range s {
			if unicode.IsLetter(r) && unicode.ToUpper(r) != unicode.ToLower(r) {
				if unicode.IsUpper(r) {
					b.str[i] = unicode.ToLower(r)
				} else {
					b.str[i] = unicode.ToUpper(r)
				}
				return "str-case"
			}
		}
		b.str = append(s, ' ')
		return "str-append"
	case 5:
		a.str = append([]rune{0xe9}, a.str...)
		b.str = append([]rune{'e', 0x301}, s...)
		return "str-nfc-vs-nfd"
	case 6:
		a.str = append([]rune{'A'}, a.str...)
		b.str = append([]rune(`\u`+`0041`), s...)
		return "str-escape-as-text"
	case 7:
		a.str = append([]rune{'/'}, a.str...)
		b.str = append([]rune(`\/`), s...)
		return "str-escape-as-text"
	case 8:
		b.str = append(s, 0)
		return "str-append"
	default:
		*b = *rapid.SampledFrom([]*gv{{k: 'n'}, {k: '#'}, {k: 'b'}, {k: 'a'}, {k: 'o'}}).Draw(t, "other")
		return "str-to-other-kind"
	}
}

func freshKey(t *rapid.T, v *gv) []rune {
	for {
		k := genStr(t)
		if !hasKey(v, k) {
			return k
		}
		k = append(k, 'x')
		if !hasKey(v, k) {
			return k
		}
	}
}

// mutate returns two copies of v that differ by one small change. sure reports
// that the two are different values by construction.
func mutate(t *rapid.T, v *gv, o *genOpts) (a, b *gv, label string, sure bool) {
	a, b = clone(v), clone(v)
	var an, bn []*gv
	collect(a, &an)
	collect(b, &bn)
	i := rapid.IntRange(0, len(bn)-1).Draw(t, "node")
	x, y := an[i], bn[i]
	sure = true
	leaf := func() *gv {
		return rapid.SampledFrom([]*gv{{k: '#'}, {k: '#', num: gnum{mant: "1"}}, {k: 's'}, {k: 'b'}, {k: 'b', b: true}, {k: 'a'}, {k: 'o'}}).Draw(t, "leaf")
	}
	switch y.k {
	case '#':
		label = mutateNum(t, x, y)
	case 's':
		label = mutateStr(t, x, y)
	case 'n':
		label = "null-to-other-kind"
		*y = *rapid.SampledFrom([]*gv{{k: 'b'}, {k: '#'}, {k: 's'}, {k: 's', str: []rune("null")}, {k: 'a'}, {k: 'o'}}).Draw(t, "other")
	case 'b':
		if rapid.Bool().Draw(t, "flip") {
			label = "bool-flip"
			y.b = !y.b
		} else {
			label = "bool-to-other-kind"
			s := "false"
			n := gnum{}
			if y.b {
				s, n = "true", gnum{mant: "1"}
			}
			*y = *rapid.SampledFrom([]*gv{{k: '#', num: n}, {k: 's', str: []rune(s)}, {k: 'n'}}).Draw(t, "other")
			if y.k == 'n' && !o.nullInArr {
				*y = gv{k: 's', str: []rune(s)}
			}
		}
	case 'a':
		switch m := rapid.IntRange(0, 5).Draw(t, "arrmut"); {
		case m == 0 && len(y.arr) > 0:
			label = "arr-drop"
			j := rapid.IntRange(0, len(y.arr)-1).Draw(t, "pos")
			y.arr = append(y.arr[:j:j], y.arr[j+1:]...)
		case m == 2 && len(y.arr) > 1:
			label = "arr-swap"
			j := rapid.IntRange(0, len(y.arr)-2).Draw(t, "pos")
			y.arr[j], y.arr[j+1] = y.arr[j+1], y.arr[j]
			sure = false
		case m == 3:
			label = "arr-wrap"
			*y = gv{k: 'a', arr: []*gv{clone(y)}}
		case m == 4:
			label = "arr-to-obj"
			ob := &gv{k: 'o'}
			for j, e := range y.arr {
				ob.keys = append(ob.keys, []rune(strconv.Itoa(j)))
				ob.arr = append(ob.arr, e)
			}
			*y = *ob
		case m == 5 && len(y.arr) == 1:
			label = "arr-unwrap"
			*y = *y.arr[0]
		default:
			label = "arr-add"
			var e *gv
			if len(y.arr) > 0 && rapid.Bool().Draw(t, "dupelem") {
				e = clone(y.arr[rapid.IntRange(0, len(y.arr)-1).Draw(t, "pos")])
			} else {
				e = leaf()
			}
			j := rapid.IntRange(0, len(y.arr)).Draw(t, "at")
			y.arr = append(y.arr[:j:j], append([]*gv{e}, y.arr[j:]...)...)
		}
	case 'o':
		switch m := rapid.IntRange(0, 4).Draw(t, "objmut"); {
		case m == 0 && len(y.arr) > 0:
			label = "obj-drop"
			j := rapid.IntRange(0, len(y.arr)-1).Draw(t, "pos")
			y.arr = append(y.arr[:j:j], y.arr[j+1:]...)
			y.keys = append(y.keys[:j:j], y.keys[j+1:]...)
		case m == 2 && len(y.arr) > 0:
			label = "obj-rename"
			j := rapid.IntRange(0, len(y.arr)-1).Draw(t, "pos")
			k := y.keys[j]
			var nk []rune
			if len(k) > 0 && rapid.Bool().Draw(t, "near") {
				nk = append([]rune(nil), k...)
				nk[len(nk)-1] = otherRune(t, nk[len(nk)-1])
			}
			if nk == nil || hasKey(y, nk) {
				nk = freshKey(t, y)
			}
			y.keys[j] = nk
		case m == 3 && len(y.arr) > 1:
			label = "obj-swap-values"
			j := rapid.IntRange(0, len(y.arr)-2).Draw(t, "pos")
			y.arr[j], y.arr[j+1] = y.arr[j+1], y.arr[j]
			sure = false
		case m == 4:
			label = "obj-to-arr"
			*y = gv{k: 'a', arr: y.arr}
			if !o.nullInArr {
				for _, e := range y.arr {
					if e.k == 'n' {
						*e = gv{k: 'b'}
					}
				}
			}
		default:
			label = "obj-add"
			y.keys = append(y.keys, freshKey(t, y))
			y.arr = append(y.arr, leaf())
		}
	}
	return a, b, label, sure
}

// ---- malformed texts ------------------------------------------------------------------

type snippet struct{ bad, repaired string }

// every bad text is not a JSON value by the RFC 8259 grammar; repaired is what
// a lenient reader might take it for.
var snippets = []snippet{
	{"01", "1"}, {"-01", "-1"}, {"00", "0"}, {"1.", "1"}, {".5", "0.5"}, {"-", "0"}, {"+1", "1"}, {"1e", "1"}, {"1e+", "1"},
	{"1.e1", "10"}, {"0x10", "16"}, {"1_0", "10"}, {"1e1.5", "10"}, {"--1", "1"}, {"1.2.3", "1.2"}, {"-.5", "-0.5"}, {"1E", "1"}, {"0e", "0"},
	{"1e-", "1"}, {"1 0", "10"}, {"1,0", "1.0"}, {"Infinity", "null"}, {"-Infinity", "null"}, {"NaN", "null"},
	{"tru", "true"}, {"True", "true"}, {"TRUE", "true"}, {"t", "true"}, {"truE", "true"}, {"fals", "false"}, {"False", "false"}, {"f", "false"}, {"falsE", "false"},
	{"nul", "null"}, {"nil", "null"}, {"Null", "null"}, {"NULL", "null"}, {"n", "null"}, {"nulL", "null"}, {"undefined", "null"}, {"None", "null"}, {"none", "null"},
	{`'a'`, `"a"`}, {`"a`, `"a"`}, {`a"`, `"a"`}, {`a`, `"a"`}, {`"\x"`, `"x"`}, {`"\u`+`12G4"`, `"\u`+`1204"`}, {`"\u`+`12"`, `"\u`+`0012"`}, {`"\a"`, `"a"`},
	{`"\'"`, `"'"`}, {`"\U0041"`, `"A"`}, {`"\u 041"`, `"A"`}, {`"\"`, `"\\"`}, {`"\`, `""`},
	{"\"\t\"", `"\t"`}, {"\"\x01\"", `"\u0001"`}, {"\"a\nb\"", `"a\nb"`}, {"\"\x00\"", `"\u0000"`}, {"\"\x1f\"", `"\u001f"`},
	{`[1,]`, `[1]`}, {`[,1]`, `[1]`}, {`[1 2]`, `[1,2]`}, {`[1,,2]`, `[1,2]`}, {`[1;2]`, `[1,2]`}, {`[,]`, `[]`}, {`[1`, `[1]`}, {`[1,`, `[1]`}, {`[`, `[]`}, {`]`, `[]`}, {`[1}`, `[1]`}, {`[1]]`, `[1]`}, {`[[1]`, `[[1]]`}, {`[1 ,2 3]`, `[1,2]`},
	{`{"a":1,}`, `{"a":1}`}, {`{"a" 1}`, `{"a":1}`}, {`{a:1}`, `{"a":1}`}, {`{"a"}`, `{"a":null}`}, {`{1:2}`, `{"1":2}`}, {`{"a":}`, `{"a":null}`}, {`{,}`, `{}`}, {`{`, `{}`}, {`}`, `{}`},
	{`{"a":1`, `{"a":1}`}, {`{"a":1]`, `{"a":1}`}, {`{"a"=1}`, `{"a":1}`}, {`{"a":1 "b":2}`, `{"a":1,"b":2}`}, {`{"a":1}}`, `{"a":1}`}, {`{"a":[1 2]}`, `{"a":[1,2]}`}, {`{"a":[1}`, `{"a":[1]}`},
	{`(1)`, `1`}, {`/**/1`, `1`}, {`1//c`, `1`}, {"\xef\xbb\xbf1", "1"}, {"1\xc2\xa0", "1"}, {"\xc2\xa01", "1"}, {"1\v", "1"}, {"\f1", "1"}, {"1\x00", "1"}, {"", "null"}, {" ", "null"},
}

var garbage = []string{"x", " x", "]", "}", ",", " 1", "1", "null", ":", "\"", " \"a\"", "//c", "\x00", " []", "{}", " ,1", "e", ".0", "\n\n]"}

var insertBytes = []rune{'"', '\\', '{', '}', '[', ']', ':', ',', '0', '1', '-', '+', '.', 'e', 'E', ' ', 't', 'n', 'u', 0, 0x1f, 'x', '/', '\n'}

// drawMalformed returns a (mostly) malformed text and a well-formed relative.
func drawMalformed(t *rapid.T) (bad, good, label string) {
	o := &genOpts{maxDepth: rapid.IntRange(0, 2).Draw(t, "depth"), nullInArr: rapid.IntRange(0, 4).Draw(t, "nullinarr") == 0}
	v := genValue(t, 0, o, false)
	switch mode := rapid.IntRange(0, 9).Draw(t, "malmode"); {
	case mode < 2:
		good = spell(t, v)
		return good + rapid.SampledFrom(garbage).Draw(t, "garbage"), good, "trailing-garbage"
	case mode < 4:
		good = spell(t, v)
		r := []rune(good)
		if len(r) < 2 {
			return "", good, "truncated"
		}
		return string(r[:rapid.IntRange(1, len(r)-1).Draw(t, "cut")]), good, "truncated"
	case mode < 7:
		sn := rapid.SampledFrom(snippets).Draw(t, "snippet")
		a, b := clone(v), clone(v)
		var an, bn []*gv
		collect(a, &an)
		collect(b, &bn)
		i := rapid.IntRange(0, len(an)-1).Draw(t, "node")
		*an[i] = gv{k: 'x', raw: sn.bad}
		*bn[i] = gv{k: 'x', raw: sn.repaired}
		// same spelling of the surroundings on both sides half of the time
		if rapid.Bool().Draw(t, "samespelling") {
			st := &style{ws: rapid.IntRange(0, 1).Draw(t, "wsmode")}
			var sa, sb strings.Builder
			spellPlain(&sa, a, st)
			spellPlain(&sb, b, st)
			return sa.String(), sb.String(), "snippet"
		}
		return spell(t, a), spell(t, b), "snippet"
	default:
		good = spell(t, v)
		r := []rune(good)
		pos := rapid.IntRange(0, len(r)).Draw(t, "pos")
		c := rapid.SampledFrom(insertBytes).Draw(t, "byte")
		switch op := rapid.IntRange(0, 2).Draw(t, "op"); {
		case op == 0 && pos < len(r):
			return string(r[:pos]) + string(r[pos+1:]), good, "delete-char"
		case op == 1 && pos < len(r):
			return string(r[:pos]) + string(c) + string(r[pos+1:]), good, "replace-char"
		default:
			return string(r[:pos]) + string(c) + string(r[pos:]), good, "insert-char"
		}
	}
}

// spellPlain is a deterministic canonical spelling (no random choices).
func spellPlain(b *strings.Builder, v *gv, st *style) {
	sep := func(c byte) {
		b.WriteByte(c)
		if st.ws == 1 {
			b.WriteByte(' ')
		}
	}
	switch v.k {
	case 'n':
		b.WriteString("null")
	case 'b':
		b.WriteString(strconv.FormatBool(v.b))
	case 'x':
		b.WriteString(v.raw)
	case '#':
		n := v.num
		if n.mant == "" {
			b.WriteByte('0')
			return
		}
		if n.neg {
			b.WriteByte('-')
		}
		b.WriteString(n.mant)
		if n.exp != 0 {
			b.WriteByte('e')
			b.WriteString(strconv.Itoa(n.exp))
		}
	case 's':
		b.WriteByte('"')
		for _, r := range v.str {
			switch {
			case r < 0x20 || r == '"' || r == '\\':
				fmt.Fprintf(b, `\u%04x`, r)
			default:
				b.WriteRune(r)
			}
		}
		b.WriteByte('"')
	case 'a':
		b.WriteByte('[')
		for i, e := range v.arr {
			if i > 0 {
				sep(',')
			}
			spellPlain(b, e, st)
		}
		b.WriteByte(']')
	case 'o':
		b.WriteByte('{')
		for i, e := range v.arr {
			if i > 0 {
				sep(',')
			}
			spellPlain(b, &gv{k: 's', str: v.keys[i]}, st)
			sep(':')
			spellPlain(b, e, st)
		}
		b.WriteByte('}')
	}
}
