// Package c09 decides property C09 (a handler runs only when the operation's
// security requirements are met; client credentials are the credentials the
// server extracts) on code regenerated from /repo. Requirement structures are
// enumerated exhaustively for up to 2 (quick) / 3 (thorough) schemes and
// sampled with rapid up to 20 schemes; the executor and the boolean model are
// in internal/c09x.
package c09

import (
	"encoding/json"
	"fmt"
	"os"
	"strings"
	"testing"

	"pgregory.net/rapid"

	"verif/internal/c09x"
	"verif/internal/regen"
	"verif/internal/vk"
)

var kinds = []string{c09x.KHeader, c09x.KQuery, c09x.KCookie}
var authKinds = []string{c09x.KBasic, c09x.KBearer, c09x.KOAuth2}

// mkSchemes: n schemes, kinds rotating; authAt >= 0 makes that scheme Authorization-based.
func mkSchemes(n int, rot int, authAt int, authKind string) []c09x.Scheme {
	var out []c09x.Scheme
	for i := 0; i < n; i++ {
		name := fmt.Sprintf("s%d", i)
		k := kinds[(i+rot)%len(kinds)]
		if i == authAt {
			k = authKind
		}
		param := ""
		switch k {
		case c09x.KHeader:
			param = fmt.Sprintf("X-Key-%d", i)
		case c09x.KQuery:
			param = fmt.Sprintf("key%d", i)
		case c09x.KCookie:
			param = fmt.Sprintf("ck%d", i)
		}
		out = append(out, c09x.Scheme{Name: name, Kind: k, Param: param})
	}
	return out
}

// allStructures: every list of 1..maxAlts distinct alternatives over n schemes
// (alternatives = all subsets incl. the empty one), in index order.
func allStructures(n, maxAlts int) [][][]c09x.Req {
	var alts [][]c09x.Req
	for mask := 0; mask < 1<<n; mask++ {
		var a []c09x.Req
		for i := 0; i < n; i++ {
			if mask&(1<<i) != 0 {
				a = append(a, c09x.Req{Scheme: fmt.Sprintf("s%d", i)})
			}
		}
		if a == nil {
			a = []c09x.Req{}
		}
		alts = append(alts, a)
	}
	var out [][][]c09x.Req
	var rec func(start int, cur [][]c09x.Req)
	rec = func(start int, cur [][]c09x.Req) {
		if len(cur) > 0 {
			out = append(out, append([][]c09x.Req(nil), cur...))
		}
		if len(cur) == maxAlts {
			return
		}
		for i := start; i < len(alts); i++ {
			rec(i+1, append(cur, alts[i]))
		}
	}
	rec(0, nil)
	return out
}

type pkgMeta struct {
	Meta  c09x.Meta   `json:"meta"`
	Cases []c09x.Case `json:"cases,omitempty"`
}

func runBatch(u *vk.Unit, tag string, metas []pkgMeta) {
	b, err := regen.NewBatch(tag)
	if err != nil {
		u.T.Fatalf("batch: %v", err)
	}
	defer b.Remove()
	for i, m := range metas {
		cfg := regen.ClientServer()
		if m.Meta.HasExtras() {
			cfg.IgnoreNotImplemented = []string{"all"}
			u.Label("document-with-skipped-alternatives")
		}
		out := b.Add(fmt.Sprintf("s%d", i), m.Meta.Spec(), cfg, m)
		u.Eval(1)
		u.Label("generate:" + out.Class)
		if out.Class != regen.OK {
			u.Report(vk.F("generator-"+out.Class, "security spec not generated (%s): %s", out.Class, head(out.Err, 600)), m.Meta)
		}
	}
	if len(b.Pkgs) == 0 {
		return
	}
	res := b.Build()
	for p, e := range res.Failed {
		var idx int
		fmt.Sscanf(p, "s%d", &idx)
		u.Note("compile failure (C02's business, counted only): "+"security spec: generated code does not compile: %s", head(e, 800))
	}
	if len(res.OK) == 0 {
		return
	}
	u.LabelN("compiled", len(res.OK))
	out, err := b.RunAggregator(res.OK, "verif/internal/c09x", "Run", false, []string{"VERIF_PART=" + tag})
	if err != nil && !strings.Contains(out, "VIOLATION") {
		u.T.Errorf("aggregator failed (harness trouble): %v\n%s", err, head(out, 3000))
	}
	if strings.Contains(out, "HARNESS BUG") {
		u.T.Errorf("harness bug reported by inner executor:\n%s", head(out, 3000))
	}
}

func head(s string, n int) string {
	if len(s) > n {
		return s[:n] + "…"
	}
	return s
}

func TestExhaustive(t *testing.T) {
	u := vk.New(t, "C09", "structures-exhaustive")
	defer u.Close()
	if vk.InReplay() {
		return
	}
	shard, shards := vk.Shard()
	n := vk.N(2, 3)
	var metas []pkgMeta
	for nn := 1; nn <= n; nn++ {
		structs := allStructures(nn, 3)
		u.Set(fmt.Sprintf("structures_%d_schemes", nn), len(structs))
		// variants: which scheme (if any) is Authorization-based, and kind rotation
		type variant struct {
			rot, authAt int
			authKind    string
		}
		variants := []variant{{0, -1, ""}, {1, 0, c09x.KBasic}, {2, nn - 1, c09x.KBearer}, {0, 0, c09x.KOAuth2}}
		if vk.Tier() == "quick" {
			variants = []variant{variants[int(vk.Seed())%4], variants[(int(vk.Seed())+1)%4]}
		}
		for vi, v := range variants {
			schemes := mkSchemes(nn, v.rot, v.authAt, v.authKind)
			// operations in chunks of 16 per spec; global requirement varies per chunk
			const per = 16
			for c := 0; c*per < len(structs); c++ {
				chunk := structs[c*per : min((c+1)*per, len(structs))]
				m := c09x.Meta{Schemes: schemes}
				if (c+vi)%2 == 1 {
					// a global requirement that every scheme-less request fails: inheriting operations
					// need credentials, operations with "security: []" or an override do not
					g := structs[(c*7+vi)%len(structs)]
					if len(g) == 1 && len(g[0]) == 0 {
						g = structs[len(structs)-1]
					}
					m.Global = &g
				}
				for i, st := range chunk {
					st := withScopes(st, schemes, i)
					op := c09x.Op{ID: fmt.Sprintf("op%d", i), Path: fmt.Sprintf("/o%d", i), Security: &st}
					m.Ops = append(m.Ops, op)
				}
				if m.Global != nil {
					m.Ops = append(m.Ops, c09x.Op{ID: "opInherit", Path: "/inherit"})
					none := [][]c09x.Req{}
					m.Ops = append(m.Ops, c09x.Op{ID: "opNone", Path: "/none", Security: &none})
				}
				metas = append(metas, pkgMeta{Meta: m})
			}
		}
	}
	var mine []pkgMeta
	for i, m := range metas {
		if i%shards == shard {
			mine = append(mine, m)
		}
	}
	u.SetExhaustive(true)
	const batch = 24
	for i := 0; i < len(mine); i += batch {
		runBatch(u, fmt.Sprintf("ex%d", i), mine[i:min(i+batch, len(mine))])
	}
}

// withScopes gives OAuth2 members scopes that differ between alternatives.
func withScopes(st [][]c09x.Req, schemes []c09x.Scheme, salt int) [][]c09x.Req {
	scopeSets := [][]string{{"read"}, {"read", "write"}, {"admin"}, {}, {"x:y", "read"}}
	out := make([][]c09x.Req, len(st))
	for i, alt := range st {
		out[i] = make([]c09x.Req, len(alt))
		for j, r := range alt {
			out[i][j] = r
			for _, s := range schemes {
				if s.Name == r.Scheme && s.Kind == c09x.KOAuth2 {
					out[i][j].Scopes = scopeSets[(i+j+salt)%len(scopeSets)]
				}
			}
		}
	}
	return out
}

type sampledBatch struct {
	Metas []pkgMeta `json:"metas"`
}

func drawLarge(t *rapid.T) sampledBatch {
	var sb sampledBatch
	for p := 0; p < 8; p++ {
		n := rapid.IntRange(4, 20).Draw(t, "nschemes")
		authAt := -1
		authKind := ""
		if rapid.Bool().Draw(t, "auth") {
			authAt = rapid.IntRange(0, n-1).Draw(t, "authAt")
			authKind = rapid.SampledFrom(authKinds).Draw(t, "authKind")
		}
		schemes := mkSchemes(n, rapid.IntRange(0, 2).Draw(t, "rot"), authAt, authKind)
		drawStruct := func(label string) [][]c09x.Req {
			na := rapid.IntRange(1, 5).Draw(t, label+"-nalts")
			var st [][]c09x.Req
			seen := map[string]bool{}
			for a := 0; a < na; a++ {
				size := rapid.SampledFrom([]int{0, 1, 1, 2, 2, 3, 5, 8, 9, 12}).Draw(t, "size")
				if size > n {
					size = n
				}
				idxs := rapid.Permutation(seq(n)).Draw(t, "perm")[:size]
				alt := []c09x.Req{}
				key := ""
				for _, ix := range sorted(idxs) {
					alt = append(alt, c09x.Req{Scheme: fmt.Sprintf("s%d", ix)})
					key += fmt.Sprintf("%d,", ix)
				}
				if seen[key] {
					continue
				}
				seen[key] = true
				st = append(st, alt)
			}
			return st
		}
		m := c09x.Meta{Schemes: schemes}
		if rapid.Bool().Draw(t, "global") {
			g := drawStruct("global")
			m.Global = &g
		}
		// alternatives that the generator skips: a scheme of an unimplemented kind (named so that it
		// sorts before / after the others) together with schemes the other alternatives use
		withSkipped := rapid.IntRange(0, 2).Draw(t, "skipped") == 0
		if withSkipped {
			m.Unsupported = []string{"a_sso", "zz_sso"}
		}
		drawExtras := func(rs [][]c09x.Req, label string) []c09x.ExtraAlt {
			if !withSkipped || len(rs) == 0 {
				return nil
			}
			var out []c09x.ExtraAlt
			for k, ne := 0, rapid.IntRange(0, 2).Draw(t, label+"-nextra"); k < ne; k++ {
				alt := []c09x.Req{{Scheme: rapid.SampledFrom(m.Unsupported).Draw(t, "sso")}}
				// share schemes with a real alternative (the interesting case) or bring fresh ones
				src := rs[rapid.IntRange(0, len(rs)-1).Draw(t, "like")]
				for _, r := range src {
					if rapid.Bool().Draw(t, "share") {
						alt = append(alt, c09x.Req{Scheme: r.Scheme, Scopes: r.Scopes})
					}
				}
				if rapid.IntRange(0, 2).Draw(t, "fresh") == 0 {
					alt = append(alt, c09x.Req{Scheme: fmt.Sprintf("s%d", rapid.IntRange(0, n-1).Draw(t, "freshidx"))})
				}
				// one scheme once
				seen := map[string]bool{}
				var uniq []c09x.Req
				for _, r := range alt {
					if !seen[r.Scheme] {
						seen[r.Scheme] = true
						uniq = append(uniq, r)
					}
				}
				out = append(out, c09x.ExtraAlt{At: rapid.IntRange(0, len(rs)).Draw(t, "at"), Alt: uniq})
			}
			return out
		}
		if m.Global != nil {
			m.GlobalExtra = drawExtras(*m.Global, "global")
		}
		nops := rapid.IntRange(2, 6).Draw(t, "nops")
		for i := 0; i < nops; i++ {
			op := c09x.Op{ID: fmt.Sprintf("op%d", i), Path: fmt.Sprintf("/o%d", i)}
			switch {
			case m.Global != nil && rapid.IntRange(0, 4).Draw(t, "none") == 0:
				none := [][]c09x.Req{} // explicit "security: []" switches the global requirement off
				op.Security = &none
			case m.Global == nil || rapid.IntRange(0, 3).Draw(t, "override") > 0:
				st := withScopes(drawStruct("op"), schemes, i)
				op.Security = &st
				op.Extra = drawExtras(st, "op")
			}
			m.Ops = append(m.Ops, op)
		}
		sb.Metas = append(sb.Metas, pkgMeta{Meta: m})
	}
	return sb
}

func seq(n int) []int {
	out := make([]int, n)
	for i := range out {
		out[i] = i
	}
	return out
}

func sorted(a []int) []int {
	b := append([]int(nil), a...)
	for i := range b {
		for j := i + 1; j < len(b); j++ {
			if b[j] < b[i] {
				b[i], b[j] = b[j], b[i]
			}
		}
	}
	return b
}

func TestSampledLarge(t *testing.T) {
	u := vk.New(t, "C09", "structures-sampled")
	defer u.Close()
	if vk.InReplay() {
		return
	}
	n := 0
	vk.Rapid(u, vk.N(8, 128), nil, drawLarge, func(sb sampledBatch) *vk.Finding {
		n++
		runBatch(u, fmt.Sprintf("lg%d", n), sb.Metas)
		return nil
	})
}

func TestReplay(t *testing.T) {
	p := os.Getenv("VERIF_REPLAY")
	if p == "" {
		return
	}
	data, err := os.ReadFile(p)
	if err != nil {
		t.Fatal(err)
	}
	var doc struct {
		Unit string          `json:"unit"`
		Case json.RawMessage `json:"case"`
	}
	if err := json.Unmarshal(data, &doc); err != nil {
		t.Fatal(err)
	}
	u := vk.New(t, "C09", "replay-driver")
	defer u.Close()
	switch doc.Unit {
	case "security":
		var c c09x.Case
		if err := json.Unmarshal(doc.Case, &c); err != nil {
			t.Fatal(err)
		}
		runBatch(u, "replay", []pkgMeta{{Meta: c.Meta, Cases: []c09x.Case{c}}})
	default:
		var m c09x.Meta
		if err := json.Unmarshal(doc.Case, &m); err == nil && len(m.Ops) > 0 {
			runBatch(u, "replay", []pkgMeta{{Meta: m}})
		}
	}
}
