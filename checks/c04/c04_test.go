// Package c04 decides property C04 (JSON encoding of generated types
// round-trips and conforms to the schema) on code regenerated from /repo; the
// executor is internal/c04x.
package c04

import (
	"encoding/json"
	"fmt"
	"os"
	"strings"
	"testing"

	"pgregory.net/rapid"

	"verif/internal/c04x"
	"verif/internal/regen"
	"verif/internal/specgen"
	"verif/internal/vk"
)

var c04opts = specgen.Options{MaxDepth: 3, Validators: true, Sums: true, Discs: true, AllOf: true, Refs: true, Nullable: true, Maps: true, AnyType: true}

type specCase struct {
	Meta c04x.Meta `json:"meta"`
}

type batchCase struct {
	Specs []specCase `json:"specs"`
}

func drawSpec(t *rapid.T) specCase {
	opts := c04opts
	// a third of the documents carry string / integer / number formats (value-directed family;
	// instances of formatted strings are mostly refused by the decoder, which is counted)
	opts.Formats = rapid.IntRange(0, 2).Draw(t, "formats") == 0
	comps := specgen.GenComponents(t, opts, rapid.IntRange(1, 5).Draw(t, "ncomp"))
	var sc specCase
	sc.Meta.Doc.Components = comps
	sc.Meta.Instances = map[string][]string{}
	vd := specgen.Validator{C: comps}
	ig := specgen.InstGen{C: comps}
	for i, n := range comps.Names() {
		op := specgen.Operation{ID: fmt.Sprintf("op%d", i), Method: "POST", Path: fmt.Sprintf("/b%d", i),
			Body:      &specgen.Body{Required: true, Media: []specgen.Media{{ContentType: "application/json", Schema: &specgen.Schema{Ref: n}}}},
			Responses: []specgen.Response{{Code: "200", Media: []specgen.Media{{ContentType: "application/json", Schema: &specgen.Schema{Ref: n}}}}}}
		sc.Meta.Doc.Ops = append(sc.Meta.Doc.Ops, op)
		seen := map[string]bool{}
		for k := 0; k < 12; k++ {
			v := ig.Gen(t, comps[n], 0)
			if ok, _ := vd.Valid(comps[n], v); !ok {
				continue
			}
			j := string(specgen.MustJSON(v))
			if !seen[j] {
				seen[j] = true
				sc.Meta.Instances[n] = append(sc.Meta.Instances[n], j)
			}
		}
	}
	return sc
}

// formatMatrixSpec: every format ogen gives a dedicated Go type / text form, in one document
// (value-directed family only: the reflective builder fills each member with edge values).
func formatMatrixSpec() specCase {
	comps := specgen.FormatMatrix()
	var sc specCase
	sc.Meta.Doc.Components = comps
	sc.Meta.Instances = map[string][]string{}
	for i, n := range comps.Names() {
		sc.Meta.Doc.Ops = append(sc.Meta.Doc.Ops, specgen.Operation{ID: fmt.Sprintf("op%d", i), Method: "POST", Path: fmt.Sprintf("/f%d", i),
			Body:      &specgen.Body{Required: true, Media: []specgen.Media{{ContentType: "application/json", Schema: &specgen.Schema{Ref: n}}}},
			Responses: []specgen.Response{{Code: "200", Media: []specgen.Media{{ContentType: "application/json", Schema: &specgen.Schema{Ref: n}}}}}})
	}
	return sc
}

func drawBatch(t *rapid.T) batchCase {
	var b batchCase
	b.Specs = append(b.Specs, formatMatrixSpec())
	for i := 0; i < 15; i++ {
		b.Specs = append(b.Specs, drawSpec(t))
	}
	return b
}

func runBatch(u *vk.Unit, tag string, specs []specCase) {
	b, err := regen.NewBatch(tag)
	if err != nil {
		u.T.Fatalf("batch: %v", err)
	}
	defer b.Remove()
	for i, sc := range specs {
		out := b.Add(fmt.Sprintf("s%d", i), sc.Meta.Doc.Render(), regen.ClientServer(), sc.Meta)
		u.Eval(1)
		u.Label("generate:" + out.Class)
		switch out.Class {
		case regen.OK, regen.NotImplemented, regen.SpecDiagnostic:
		default:
			u.Report(vk.F("generator-"+out.Class, "generation ends with %s: %s", out.Class, tail(out.Err, 600)), sc.Meta.Doc)
		}
	}
	if len(b.Pkgs) == 0 {
		return
	}
	res := b.Build()
	for _, e := range res.Failed {
		u.Label("compile-failed")
		u.Note("compile failure (C02's business, counted only): %s", tail(e, 300))
	}
	if len(res.OK) == 0 {
		return
	}
	u.LabelN("compiled", len(res.OK))
	out, err := b.RunAggregator(res.OK, "verif/internal/c04x", "Run", false, []string{"VERIF_PART=" + tag})
	if err != nil && !strings.Contains(out, "VIOLATION") {
		u.T.Errorf("aggregator failed (harness trouble): %v\n%s", err, tail(out, 3000))
	}
}

func tail(s string, n int) string {
	if len(s) > n {
		return "…" + s[len(s)-n:]
	}
	return s
}

func TestTypes(t *testing.T) {
	u := vk.New(t, "C04", "specs")
	defer u.Close()
	if p := os.Getenv("VERIF_REPLAY"); p != "" {
		data, err := os.ReadFile(p)
		if err != nil {
			t.Fatal(err)
		}
		var doc struct {
			Unit string    `json:"unit"`
			Case c04x.Case `json:"case"`
		}
		if err := json.Unmarshal(data, &doc); err != nil || (doc.Unit != "instances" && doc.Unit != "values") {
			return
		}
		m := c04x.Meta{Doc: doc.Case.Doc, OnlyType: doc.Case.Type}
		if doc.Case.Family == "instance" {
			m.OnlyValue = doc.Case.JSON
		}
		runBatch(u, "replay", []specCase{{Meta: m}})
		return
	}
	n := 0
	vk.Rapid(u, vk.N(5, 160), nil, drawBatch, func(b batchCase) *vk.Finding {
		n++
		runBatch(u, fmt.Sprintf("b%d", n), b.Specs)
		return nil
	})
}
