// Package c05 decides property C05 (the router dispatches each request to the
// operation the spec assigns it to) on servers REGENERATED from /repo's working
// tree: route sets (bounded-exhaustive small family + rapid random larger sets,
// internal/c05x/outer.go) are turned into specs, generated, compiled in batches
// and driven by the executor/oracle in internal/c05x.
package c05

import (
	"encoding/json"
	"fmt"
	"os"
	"testing"

	"verif/internal/c05x"
	"verif/internal/vk"
)

func TestExhaustiveSmall(t *testing.T) {
	u := vk.New(t, "C05", "routesets-small")
	defer u.Close()
	if vk.InReplay() {
		return
	}
	tpls := c05x.SmallTemplates()
	shard, shards := vk.Shard()
	stride := vk.N(40, 1) // quick: a seed-selected 1/40 slice; thorough: all
	seed := vk.Seed()
	var mine [][]c05x.RouteSpec
	total := c05x.EnumerateSets(tpls, func(idx int, set []string) {
		if (uint64(idx)+seed)%uint64(stride) != 0 {
			return
		}
		if (idx/stride)%shards != shard {
			return
		}
		mine = append(mine, c05x.WithMethods(set, seed))
	})
	u.Set("templates", len(tpls))
	u.Set("candidate_sets_total", total)
	u.Set("slice", fmt.Sprintf("1/%d (seed-selected), shard %d/%d", stride, shard, shards))
	u.SetExhaustive(stride == 1)
	for i := 0; i < len(mine); i += c05x.BatchSize {
		j := i + c05x.BatchSize
		if j > len(mine) {
			j = len(mine)
		}
		c05x.RunBatch(u, "small", mine[i:j], nil, "small")
	}
}

func TestRandomSets(t *testing.T) {
	u := vk.New(t, "C05", "routesets-random")
	defer u.Close()
	if vk.InReplay() {
		return
	}
	n := 0
	vk.Rapid(u, vk.N(8, 320), nil, c05x.DrawRandomBatch, func(rb c05x.RandomBatch) *vk.Finding {
		n++
		return c05x.RunBatch(u, fmt.Sprintf("rnd%d", n), rb.Sets, nil, "random", "VERIF_C05_LARGE=1")
	})
}

func TestReplay(t *testing.T) {
	p := os.Getenv("VERIF_REPLAY")
	if p == "" {
		return
	}
	data, err := os.ReadFile(p)
	if err != nil {
		t.Fatal(err)
	}
	var doc struct {
		Unit string          `json:"unit"`
		Case json.RawMessage `json:"case"`
	}
	if err := json.Unmarshal(data, &doc); err != nil {
		t.Fatal(err)
	}
	u := vk.New(t, "C05", "replay-driver")
	defer u.Close()
	switch doc.Unit {
	case "router":
		var c c05x.Case
		if err := json.Unmarshal(doc.Case, &c); err != nil {
			t.Fatal(err)
		}
		c05x.RunBatch(u, "replay", [][]c05x.RouteSpec{c.Routes}, [][]c05x.Request{{c.Request}}, "replay")
	case "routesets-small", "routesets-random":
		var rs []c05x.RouteSpec
		if err := json.Unmarshal(doc.Case, &rs); err != nil {
			t.Fatal(err)
		}
		c05x.RunBatch(u, "replay", [][]c05x.RouteSpec{rs}, nil, "replay")
	}
}
