// Package c19 decides property C19 (generated clients and servers are safe under
// concurrent use) on code regenerated from /repo and compiled with the race
// detector: call lists over all operations of exchange-profile packages are run
// sequentially on fresh instances and then by 2 / 8 / 64 goroutines under several
// GOMAXPROCS values against one client and one server; a race report or an outcome
// that differs from the sequential one is a violation (internal/c01x/concurrent.go).
package c19

import (
	"fmt"
	"testing"

	"verif/internal/c01x"
	"verif/internal/vk"
)

func TestConcurrent(t *testing.T) {
	u := vk.New(t, "C19", "specs")
	defer u.Close()
	if vk.InReplay() {
		u.Note("a C19 finding is schedule dependent: the replay file documents the call list (document, seed, goroutines, GOMAXPROCS); re-run the check with the same VERIF_SEED to re-explore")
		return
	}
	n := 0
	vk.Rapid(u, vk.N(2, 40), nil, c01x.DrawBatchECMA, func(b c01x.BatchCase) *vk.Finding {
		n++
		// validators on, so that regex- and multipleOf-validated values (global tables) take part
		out := c01x.RunBatchOut(u, fmt.Sprintf("b%d", n), b.Specs, "RunConcurrent", true)
		if idx := indexOf(out, "WARNING: DATA RACE"); idx >= 0 {
			end := idx + 3500
			if end > len(out) {
				end = len(out)
			}
			return vk.F("data-race", "the race detector reports a data race in regenerated client/server code:\n%s", out[idx:end])
		}
		return nil
	})
}

func indexOf(s, sub string) int {
	for i := 0; i+len(sub) <= len(s); i++ {
		if s[i:i+len(sub)] == sub {
			return i
		}
	}
	return -1
}

// TestCorpus runs the same executor on packages regenerated from the repository corpus
// (time formats other than date-time cannot be told apart by reflection there: time.Time
// leaves are generated at whole seconds, and documents with date/time formats may
// legitimately report non-delivery, which the executor tolerates for invalid values only —
// see the corpus note in checks.d).
func TestCorpus(t *testing.T) {
	u := vk.New(t, "C19", "corpus-specs")
	defer u.Close()
	if vk.InReplay() {
		return
	}
	specs := c01x.CorpusSpecs(vk.N(120_000, 700_000))
	const per = 6
	for i := 0; i < len(specs); i += per {
		out := c01x.RunBatchOut(u, fmt.Sprintf("corpus%d", i), specs[i:min(i+per, len(specs))], "RunConcurrent", true)
		if idx := indexOf(out, "WARNING: DATA RACE"); idx >= 0 {
			u.Report(vk.F("data-race", "the race detector reports a data race in code regenerated from a corpus document:\n%s", out[idx:min(idx+3500, len(out))]), specs[i].Meta.Name)
		}
	}
}
