package c19

// Unit "shared-regexps": generated packages keep ONE compiled ogenregex.Regexp per pattern in a
// package-level map and every request goroutine validates through it. Compiled patterns of both
// engines (RE2 and the backtracking fallback for look-around / back-references) are matched from
// many goroutines against different subjects; every verdict must be the verdict of the sequential
// run. The binary is built with -race like the rest of C19.

import (
	"fmt"
	"sync"
	"testing"

	"github.com/ogen-go/ogen/ogenregex"
	"github.com/ogen-go/ogen/validate"

	"verif/internal/vk"
)

type rxCase struct {
	Pattern  string   `json:"pattern"`
	Subjects []string `json:"subjects"`
}

var rxCases = []rxCase{
	{`^(?!tmp-)[a-z][a-z0-9-]*$`, []string{"abc", "tmp-x", "a-1", "A", "", "zz9"}},
	{`^(?=.*[0-9])[a-zA-Z0-9_]+$`, []string{"a1", "abc", "9", "a_b", "a b1", "Z0z"}},
	{`^(.)\1`, []string{"aab", "aba", "", "xx", "xy", "11"}},
	{`^(a|v)(?!b)`, []string{"ab", "ac", "vb", "v", "b", "a"}},
	{`^[a-c]+$`, []string{"abc", "abd", "", "c", "ca", "d"}},
	{`^\d{2,4}$`, []string{"12", "1", "12345", "1234", "ab", "007"}},
}

func TestSharedRegexps(t *testing.T) {
	u := vk.New(t, "C19", "shared-regexps")
	defer u.Close()
	if vk.InReplay() {
		return
	}
	shard, shards := vk.Shard()
	rounds := vk.N(60_000, 1_500_000)
	for ci, c := range rxCases {
		if ci%shards != shard%len(rxCases) && shards < len(rxCases) {
			// with fewer shards than cases every shard takes the cases congruent to it
			if ci%shards != shard {
				continue
			}
		} else if shards >= len(rxCases) && ci != shard%len(rxCases) {
			continue
		}
		re, err := ogenregex.Compile(c.Pattern)
		if err != nil {
			u.Label("pattern-does-not-compile")
			continue
		}
		v := validate.String{Regex: re}
		want := make([]bool, len(c.Subjects))
		for i, s := range c.Subjects {
			want[i] = v.Validate(s) == nil
		}
		var wg sync.WaitGroup
		var mu sync.Mutex
		var first string
		wrong := 0
		const workers = 8
		for w := 0; w < workers; w++ {
			wg.Add(1)
			go func(w int) {
				defer wg.Done()
				for r := 0; r < rounds; r++ {
					i := (r + w) % len(c.Subjects)
					if got := v.Validate(c.Subjects[i]) == nil; got != want[i] {
						mu.Lock()
						wrong++
						if first == "" {
							first = fmt.Sprintf("subject %q: sequential verdict %v, concurrent verdict %v", c.Subjects[i], want[i], got)
						}
						mu.Unlock()
					}
				}
			}(w)
		}
		wg.Wait()
		u.Eval(workers * rounds)
		u.NonTrivialCount(1)
		u.Label("pattern-exercised")
		if wrong > 0 {
			u.Report(vk.F("shared-regexp-verdict-differs", "pattern %q shared by %d goroutines: %d of %d verdicts differ from the sequential ones; first: %s", c.Pattern, workers, wrong, workers*rounds, first), c)
		}
	}
}
