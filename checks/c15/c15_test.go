// Package c15 decides property C15 (generated servers answer every HTTP request
// without crashing or over-accepting) on servers regenerated from /repo for
// exchange-profile documents: valid requests captured from the regenerated
// client are mutated (directed mutations with an expected status class,
// undirected byte / header / query / URL-struct mutations) and served through
// ServeHTTP directly; the executor is internal/c01x/fuzz.go.
package c15

import (
	"encoding/json"
	"fmt"
	"os"
	"testing"

	"verif/internal/c01x"
	"verif/internal/specgen"
	"verif/internal/vk"
)

func TestRequests(t *testing.T) {
	u := vk.New(t, "C15", "specs")
	defer u.Close()
	if p := os.Getenv("VERIF_REPLAY"); p != "" {
		data, err := os.ReadFile(p)
		if err != nil {
			t.Fatal(err)
		}
		var doc struct {
			Unit string `json:"unit"`
			Case struct {
				Doc        specgen.Doc `json:"doc"`
				TimeFormat string      `json:"time_format"`
			} `json:"case"`
		}
		if err := json.Unmarshal(data, &doc); err != nil || doc.Unit != "requests" {
			return
		}
		var raw map[string]any
		_ = json.Unmarshal(data, &raw)
		m := c01x.Meta{Doc: doc.Case.Doc, TimeFormat: doc.Case.TimeFormat}
		var specs []c01x.SpecCase
		for _, cfg := range c01x.Configs {
			specs = append(specs, c01x.SpecCase{Meta: m, Config: cfg, Extra: map[string]any{"fuzz_replay": raw["case"]}})
		}
		c01x.RunBatch(u, "replay", specs, "RunFuzz", false)
		return
	}
	if shard, _ := vk.Shard(); shard == 0 {
		// always-run document: every integer format as a query and as a header parameter
		m := c01x.Meta{Doc: c01x.IntegerFormatsDoc(), TimeFormat: "date-time"}
		c01x.RunBatch(u, "intformats", []c01x.SpecCase{{Meta: m, Config: c01x.Configs[0]}, {Meta: m, Config: c01x.Configs[3]}}, "RunFuzz", false)
	}
	n := 0
	vk.Rapid(u, vk.N(4, 120), nil, c01x.DrawBatch, func(b c01x.BatchCase) *vk.Finding {
		n++
		c01x.RunBatch(u, fmt.Sprintf("b%d", n), b.Specs, "RunFuzz", false)
		return nil
	})
}

// TestCorpus runs the same executor on packages regenerated from the repository corpus
// (time formats other than date-time cannot be told apart by reflection there: time.Time
// leaves are generated at whole seconds, and documents with date/time formats may
// legitimately report non-delivery, which the executor tolerates for invalid values only —
// see the corpus note in checks.d).
func TestCorpus(t *testing.T) {
	u := vk.New(t, "C15", "corpus-specs")
	defer u.Close()
	if vk.InReplay() {
		return
	}
	specs := c01x.CorpusSpecs(vk.N(120_000, 700_000))
	const per = 6
	for i := 0; i < len(specs); i += per {
		c01x.RunBatchOut(u, fmt.Sprintf("corpus%d", i), specs[i:min(i+per, len(specs))], "RunFuzz", false)
	}
}
