// Package c10 decides property C10: generation is deterministic (byte-identical
// files for the same document and options, independent of map iteration order,
// GOMAXPROCS, parallel template execution and earlier generations in the same
// process) and free of data races. The binary is built with -race; histories of
// generations are drawn by a rapid state machine; a fresh worker process per
// repetition re-randomises map seeds.
package c10

import (
	"crypto/sha256"
	"encoding/hex"
	"encoding/json"
	"fmt"
	"os"
	"os/exec"
	"path/filepath"
	"runtime"
	"runtime/debug"
	"sort"
	"strings"
	"sync"
	"testing"

	"pgregory.net/rapid"

	"github.com/ogen-go/ogen"
	"github.com/ogen-go/ogen/gen"
	"github.com/ogen-go/ogen/location"

	"verif/internal/regen"
	"verif/internal/specgen"
	"verif/internal/vk"
)

type memFS struct {
	mu    sync.Mutex
	files map[string]string
}

func (m *memFS) WriteFile(name string, content []byte) error {
	m.mu.Lock()
	m.files[name] = string(content)
	m.mu.Unlock()
	return nil
}

// Spec is one document with options.
type Spec struct {
	Name  string `json:"name"`
	Text  string `json:"text"`
	Infer bool   `json:"infer"`
	Cfg   int    `json:"cfg,omitempty"` // generator feature configuration (featureVariant)
}

// generate returns file name → content, or an error class.
func generate(s Spec) (files map[string]string, class string) {
	defer func() {
		if r := recover(); r != nil {
			files, class = nil, fmt.Sprintf("panic: %v\n%s", r, debug.Stack())
		}
	}()
	parsed, err := ogen.Parse([]byte(s.Text))
	if err != nil {
		return nil, "parse-error"
	}
	opt := gen.Options{
		Parser:    gen.ParseOptions{InferSchemaType: s.Infer, File: location.NewFile("spec", "spec", []byte(s.Text))},
		Generator: gen.GenerateOptions{IgnoreNotImplemented: []string{"all"}, Features: featureVariant(s.Cfg)},
	}
	g, err := gen.NewGenerator(parsed, opt)
	if err != nil {
		return nil, "rejected: " + regen.Classify("new", err)
	}
	fs := &memFS{files: map[string]string{}}
	if err := g.WriteSource(fs, "api"); err != nil {
		return nil, "write: " + regen.Classify("write", err)
	}
	// the same Generator writes its output a second time: rendering must not have changed the IR
	fs2 := &memFS{files: map[string]string{}}
	if err := g.WriteSource(fs2, "api"); err != nil {
		return fs.files, secondWrite + "the second WriteSource of one Generator fails: " + err.Error()
	}
	if digest(fs.files, "ok") != digest(fs2.files, "ok") {
		return fs.files, secondWrite + firstDiff(fs.files, fs2.files)
	}
	return fs.files, "ok"
}

// secondWrite prefixes the class of a generation whose Generator does not reproduce its own output.
const secondWrite = "second-write-differs: "

func secondWriteFinding(name, class string) *vk.Finding {
	if strings.HasPrefix(class, secondWrite) {
		return vk.F("output-differs-on-second-write", "%s: one Generator, WriteSource called twice, the outputs differ (rendering changed the IR): %s", name, trim(strings.TrimPrefix(class, secondWrite), 800))
	}
	return nil
}

// featureVariant: generator feature configurations a history switches between (0 = defaults).
func featureVariant(i int) *gen.FeatureOptions {
	set := func(names ...string) gen.FeatureSet {
		fs := gen.FeatureSet{}
		for _, n := range names {
			fs[n] = struct{}{}
		}
		return fs
	}
	switch i {
	case 1:
		return &gen.FeatureOptions{Enable: set("debug/example_tests"), Disable: set("paths/server", "ogen/otel")}
	case 2:
		return &gen.FeatureOptions{DisableAll: true, Enable: set("paths/client")}
	case 3:
		return &gen.FeatureOptions{Disable: set("paths/client", "webhooks/client")}
	}
	return nil
}

func digest(files map[string]string, class string) string {
	h := sha256.New()
	names := make([]string, 0, len(files))
	for n := range files {
		names = append(names, n)
	}
	sort.Strings(names)
	fmt.Fprintf(h, "%s\n", class)
	for _, n := range names {
		fmt.Fprintf(h, "%s %d\n", n, len(files[n]))
		h.Write([]byte(files[n]))
	}
	return hex.EncodeToString(h.Sum(nil))
}

// firstDiff describes the first difference between two generations.
func firstDiff(a, b map[string]string) string {
	names := map[string]bool{}
	for n := range a {
		names[n] = true
	}
	for n := range b {
		names[n] = true
	}
	var ns []string
	for n := range names {
		ns = append(ns, n)
	}
	sort.Strings(ns)
	for _, n := range ns {
		x, okx := a[n]
		y, oky := b[n]
		if okx != oky {
			return fmt.Sprintf("file %s written in one run only", n)
		}
		if x != y {
			la, lb := strings.Split(x, "\n"), strings.Split(y, "\n")
			for i := 0; i < len(la) && i < len(lb); i++ {
				if la[i] != lb[i] {
					return fmt.Sprintf("%s:%d: %q vs %q", n, i+1, trim(la[i], 160), trim(lb[i], 160))
				}
			}
			return fmt.Sprintf("%s: lengths %d vs %d", n, len(x), len(y))
		}
	}
	return "no difference"
}

func trim(s string, n int) string {
	if len(s) > n {
		return s[:n]
	}
	return s
}

func corpus(maxSize int) []Spec {
	var out []Spec
	for _, g := range []string{"_testdata/positive/*.*", "_testdata/examples/*.*"} {
		m, _ := filepath.Glob(filepath.Join(regen.Repo(), g))
		sort.Strings(m)
		for _, f := range m {
			data, err := os.ReadFile(f)
			if err != nil || len(data) == 0 || len(data) > maxSize {
				continue
			}
			out = append(out, Spec{Name: filepath.Base(f), Text: string(data), Infer: true})
		}
	}
	return out
}

// drawSpecs: random documents of the profiles that put maps on the output path
// (many headers, media types, sums, pattern properties, hostile names).
// drawMediaDoc: operations whose request bodies and responses carry SEVERAL content types, wildcard
// masks among them (image/*, */*), with and without declared headers, under concrete codes, patterns
// and default: the generator keeps contents in Go maps keyed by content type.
func drawMediaDoc(t *rapid.T) string {
	media := []string{"application/json", "text/plain", "image/*", "*/*", "application/octet-stream", "application/x-www-form-urlencoded", "multipart/form-data", "application/problem+json"}
	schemaFor := func(ct string) map[string]any {
		switch ct {
		case "application/json", "application/problem+json":
			return map[string]any{"type": "object", "properties": map[string]any{"a": map[string]any{"type": "string"}, "n": map[string]any{"type": "integer"}}}
		case "text/plain":
			return map[string]any{"type": "string"}
		case "application/x-www-form-urlencoded", "multipart/form-data":
			return map[string]any{"type": "object", "properties": map[string]any{"f": map[string]any{"type": "string"}}}
		default:
			return map[string]any{"type": "string", "format": "binary"}
		}
	}
	content := func(label string, request bool) map[string]any {
		out := map[string]any{}
		n := rapid.IntRange(1, 4).Draw(t, label+"-n")
		for _, ct := range rapid.Permutation(media).Draw(t, label+"-perm")[:n] {
			if !request && (ct == "application/x-www-form-urlencoded" || ct == "multipart/form-data") {
				continue
			}
			out[ct] = map[string]any{"schema": schemaFor(ct)}
		}
		if len(out) == 0 {
			out["application/json"] = map[string]any{"schema": schemaFor("application/json")}
		}
		if rapid.IntRange(0, 2).Draw(t, label+"-params") == 0 {
			// one media type under two parameter sets, each with a schema of its own (and no bare key of that type)
			base := rapid.SampledFrom([]string{"application/json", "application/problem+json", "text/plain"}).Draw(t, label+"-ptype")
			delete(out, base)
			for _, v := range []string{"1", "2", "3"}[:rapid.IntRange(2, 3).Draw(t, label+"-pn")] {
				sch := schemaFor(base)
				if props, ok := sch["properties"].(map[string]any); ok {
					props["v"+v] = map[string]any{"type": "boolean"}
				} else {
					sch = map[string]any{"type": "string", "maxLength": 10 * int(v[0]-'0')}
				}
				out[base+"; version="+v] = map[string]any{"schema": sch}
			}
		}
		return out
	}
	// in half of the documents EVERY operation has the same default response (one component) with 2-3
	// content types, JSON among them: the "convenient errors" reduction looks at it
	var sharedDefault map[string]any
	if rapid.Bool().Draw(t, "shareddefault") {
		c := map[string]any{"application/json": map[string]any{"schema": schemaFor("application/json")}}
		for _, ct := range rapid.Permutation([]string{"text/plain", "application/xml", "application/problem+json", "application/octet-stream", "*/*"}).Draw(t, "defperm")[:rapid.IntRange(1, 2).Draw(t, "defn")] {
			c[ct] = map[string]any{"schema": schemaFor(ct)}
		}
		sharedDefault = map[string]any{"description": "error", "content": c}
	}
	paths := map[string]any{}
	for i, nops := 0, rapid.IntRange(2, 5).Draw(t, "nops"); i < nops; i++ {
		op := map[string]any{"operationId": fmt.Sprintf("m%d", i)}
		if rapid.Bool().Draw(t, "body") {
			op["requestBody"] = map[string]any{"required": rapid.Bool().Draw(t, "breq"), "content": content("req", true)}
		}
		rs := map[string]any{}
		for _, code := range rapid.Permutation([]string{"200", "201", "4XX", "default", "404"}).Draw(t, "codes")[:rapid.IntRange(1, 3).Draw(t, "ncodes")] {
			r := map[string]any{"description": "r", "content": content("resp"+code, false)}
			if rapid.IntRange(0, 2).Draw(t, "hdr") == 0 {
				r["headers"] = map[string]any{"X-H": map[string]any{"schema": map[string]any{"type": "string"}}}
			}
			rs[code] = r
		}
		if sharedDefault != nil {
			rs["default"] = map[string]any{"$ref": "#/components/responses/Err"}
		}
		op["responses"] = rs
		paths[fmt.Sprintf("/m%d", i)] = map[string]any{"post": op}
	}
	doc := map[string]any{"openapi": "3.0.3", "info": map[string]any{"title": "t", "version": "1"}, "paths": paths}
	if sharedDefault != nil {
		doc["components"] = map[string]any{"responses": map[string]any{"Err": sharedDefault}}
	}
	b, _ := json.Marshal(doc)
	return string(b)
}

func drawSpecs(t *rapid.T, n int) []Spec {
	var out []Spec
	for i := 0; i < n; i++ {
		switch rapid.IntRange(0, 3).Draw(t, "profile") {
		case 3:
			out = append(out, Spec{Name: fmt.Sprintf("media%d", i), Text: drawMediaDoc(t)})
		case 0:
			d := specgen.GenExchangeDoc(t, specgen.ExchangeOptions{Formats: true, TimeFormat: "date-time", Validators: true, Defaults: true, PropDefaults: true, SharedParamObjects: true, Docs: true})
			out = append(out, Spec{Name: fmt.Sprintf("exchange%d", i), Text: string(d.Render())})
		case 1:
			d := specgen.GenHostileDoc(t, true)
			out = append(out, Spec{Name: fmt.Sprintf("hostile%d", i), Text: string(d.Render())})
		default:
			comps := specgen.GenComponents(t, specgen.Options{MaxDepth: 3, Validators: true, Sums: true, AllOf: true, Refs: true, Nullable: true, Maps: true, Docs: true, DocsDense: rapid.IntRange(0, 2).Draw(t, "densedocs") == 0}, rapid.IntRange(2, 8).Draw(t, "ncomp"))
			var d specgen.Doc
			d.Components = comps
			for j, n := range comps.Names() {
				d.Ops = append(d.Ops, specgen.Operation{ID: fmt.Sprintf("op%d", j), Method: "POST", Path: fmt.Sprintf("/b%d", j),
					Body:      &specgen.Body{Required: true, Media: []specgen.Media{{ContentType: "application/json", Schema: &specgen.Schema{Ref: n}}}},
					Responses: []specgen.Response{{Code: "200", Media: []specgen.Media{{ContentType: "application/json", Schema: &specgen.Schema{Ref: n}}}}}})
			}
			out = append(out, Spec{Name: fmt.Sprintf("schemas%d", i), Text: string(d.Render())})
		}
	}
	return out
}

// History is the replay unit: documents and a sequence of actions.
type History struct {
	Specs   []Spec   `json:"specs"`
	Actions []Action `json:"actions"`
}

// Action of the state machine.
type Action struct {
	Kind  string `json:"kind"` // gen, pair, procs, gc
	I     int    `json:"i"`
	J     int    `json:"j"`
	Procs int    `json:"procs,omitempty"`
}

func runHistory(u *vk.Unit, h History) *vk.Finding {
	defer runtime.GOMAXPROCS(runtime.GOMAXPROCS(0))
	first := map[int]map[string]string{}
	firstClass := map[int]string{}
	count := map[int]int{}
	procsSeen := map[int]map[int]bool{}
	check := func(i int, files map[string]string, class string, how string) *vk.Finding {
		if strings.HasPrefix(class, "panic") {
			return vk.F("generator-panic", "%s: %s", h.Specs[i].Name, trim(class, 1500))
		}
		if f := secondWriteFinding(h.Specs[i].Name, class); f != nil {
			return f
		}
		count[i]++
		if procsSeen[i] == nil {
			procsSeen[i] = map[int]bool{}
		}
		procsSeen[i][runtime.GOMAXPROCS(0)] = true
		if _, ok := firstClass[i]; !ok {
			first[i], firstClass[i] = files, class
			return nil
		}
		if class != firstClass[i] {
			return vk.F("outcome-differs-between-runs", "%s: first run %q, %s run %q", h.Specs[i].Name, firstClass[i], how, class)
		}
		if digest(files, class) != digest(first[i], firstClass[i]) {
			return vk.F("output-differs-between-runs", "%s: generation %d (%s, GOMAXPROCS=%d) differs from the first one: %s", h.Specs[i].Name, count[i], how, runtime.GOMAXPROCS(0), firstDiff(first[i], files))
		}
		return nil
	}
	for _, a := range h.Actions {
		switch a.Kind {
		case "procs":
			runtime.GOMAXPROCS(a.Procs)
		case "gc":
			runtime.GC()
			runtime.GC() // two cycles empty sync.Pool
		case "gen":
			files, class := generate(h.Specs[a.I])
			u.Eval(1)
			if f := check(a.I, files, class, "sequential"); f != nil {
				return f
			}
		case "pair":
			var wg sync.WaitGroup
			var fa, fb map[string]string
			var ca, cb string
			wg.Add(2)
			go func() { defer wg.Done(); fa, ca = generate(h.Specs[a.I]) }()
			go func() { defer wg.Done(); fb, cb = generate(h.Specs[a.J]) }()
			wg.Wait()
			u.Eval(2)
			if f := check(a.I, fa, ca, "concurrent"); f != nil {
				return f
			}
			if f := check(a.J, fb, cb, "concurrent"); f != nil {
				return f
			}
		}
	}
	for i, c := range count {
		if c >= 3 && len(procsSeen[i]) >= 2 && len(first[i]) >= 8 {
			u.NonTrivial(h.Specs[i].Text)
		}
	}
	return nil
}

func drawHistory(pool []Spec) func(t *rapid.T) History {
	return func(t *rapid.T) History {
		var h History
		n := rapid.IntRange(2, 4).Draw(t, "nspecs")
		for i := 0; i < n; i++ {
			if len(pool) > 0 && rapid.Bool().Draw(t, "corpus") {
				h.Specs = append(h.Specs, rapid.SampledFrom(pool).Draw(t, "spec"))
			} else {
				h.Specs = append(h.Specs, drawSpecs(t, 1)...)
			}
		}
		// the same document under another feature configuration is one more member of the history:
		// every (document, configuration) pair must reproduce ITS first generation whatever ran between
		for k, extra := 0, rapid.IntRange(0, 2).Draw(t, "cfgvariants"); k < extra; k++ {
			sp := h.Specs[rapid.IntRange(0, n-1).Draw(t, "cfgof")]
			sp.Cfg = rapid.IntRange(1, 3).Draw(t, "cfg")
			sp.Name = fmt.Sprintf("%s@cfg%d", sp.Name, sp.Cfg)
			h.Specs = append(h.Specs, sp)
		}
		n = len(h.Specs)
		steps := rapid.IntRange(8, 16).Draw(t, "steps")
		for s := 0; s < steps; s++ {
			switch rapid.IntRange(0, 6).Draw(t, "action") {
			case 0:
				h.Actions = append(h.Actions, Action{Kind: "procs", Procs: rapid.SampledFrom([]int{1, 2, 16}).Draw(t, "procs")})
			case 1:
				h.Actions = append(h.Actions, Action{Kind: "gc"})
			case 2, 3:
				h.Actions = append(h.Actions, Action{Kind: "pair", I: rapid.IntRange(0, n-1).Draw(t, "i"), J: rapid.IntRange(0, n-1).Draw(t, "j")})
			default:
				h.Actions = append(h.Actions, Action{Kind: "gen", I: rapid.IntRange(0, n-1).Draw(t, "i")})
			}
		}
		return h
	}
}

func TestHistories(t *testing.T) {
	if os.Getenv("VERIF_C10_WORKER") != "" {
		return
	}
	u := vk.New(t, "C10", "histories")
	defer u.Close()
	pool := corpus(vk.N(40_000, 120_000))
	// always-run history over two documents whose items are nearly all described (shared
	// multi-paragraph texts) and half of them deprecated: the comment path of every template
	dense := rapid.Custom(func(t *rapid.T) Spec {
		d := specgen.GenExchangeDoc(t, specgen.ExchangeOptions{Formats: true, TimeFormat: "date-time", Validators: true, Defaults: true, PropDefaults: true, SharedParamObjects: true, Docs: true, DenseDocs: true})
		return Spec{Name: "dense-docs", Text: string(d.Render())}
	})
	shard, _ := vk.Shard()
	regress := []History{{
		Specs: []Spec{dense.Example(int(vk.Seed())*64 + shard*2), dense.Example(int(vk.Seed())*64 + shard*2 + 1)},
		Actions: []Action{{Kind: "procs", Procs: 16}, {Kind: "gen", I: 0}, {Kind: "gen", I: 1}, {Kind: "pair", I: 0, J: 1},
			{Kind: "procs", Procs: 2}, {Kind: "gen", I: 0}, {Kind: "pair", I: 1, J: 1}, {Kind: "procs", Procs: 16}, {Kind: "pair", I: 0, J: 0}, {Kind: "gen", I: 1}},
	}}
	regress[0].Specs[1].Name = "dense-docs-2"
	// the first document again under two other feature configurations, interleaved with the defaults
	v1, v3 := regress[0].Specs[0], regress[0].Specs[0]
	v1.Cfg, v1.Name, v3.Cfg, v3.Name = 1, "dense-docs@cfg1", 3, "dense-docs@cfg3"
	regress[0].Specs = append(regress[0].Specs, v1, v3)
	regress[0].Actions = append(regress[0].Actions, Action{Kind: "gen", I: 2}, Action{Kind: "gen", I: 0}, Action{Kind: "gen", I: 3}, Action{Kind: "gen", I: 0}, Action{Kind: "pair", I: 2, J: 3}, Action{Kind: "gen", I: 1}, Action{Kind: "gen", I: 2})
	// a document whose objects bound their member count and declare optional members before required
	// ones, with example tests and fakers enabled (every template that orders members reads the same IR)
	counted := Spec{Name: "counted-objects@cfg1", Cfg: 1, Text: `{"openapi":"3.0.3","info":{"title":"t","version":"1"},"paths":{"/c":{"post":{"operationId":"c","requestBody":{"required":true,"content":{"application/json":{"schema":{"$ref":"#/components/schemas/Counted"}}}},"responses":{"200":{"description":"ok","content":{"application/json":{"schema":{"$ref":"#/components/schemas/Open"}}}}}}}},"components":{"schemas":{"Counted":{"type":"object","maxProperties":3,"minProperties":1,"required":["zeta","mid"],"properties":{"alpha":{"type":"string"},"zeta":{"type":"integer"},"beta":{"type":"boolean"},"mid":{"type":"string"},"inner":{"$ref":"#/components/schemas/Open"}}},"Open":{"type":"object","maxProperties":4,"required":["r2"],"additionalProperties":{"type":"integer"},"properties":{"o1":{"type":"string"},"r2":{"type":"string"},"o3":{"type":"number"}}}}}}`}
	regress[0].Specs = append(regress[0].Specs, counted)
	ci := len(regress[0].Specs) - 1
	regress[0].Actions = append(regress[0].Actions, Action{Kind: "gen", I: ci}, Action{Kind: "pair", I: ci, J: ci}, Action{Kind: "procs", Procs: 1}, Action{Kind: "gen", I: ci}, Action{Kind: "procs", Procs: 16}, Action{Kind: "gen", I: ci})
	vk.Rapid(u, vk.N(24, 600), regress, drawHistory(pool), func(h History) *vk.Finding {
		u.Sample(map[string]any{"specs": specNames(h.Specs), "actions": h.Actions})
		for _, sp := range h.Specs {
			if strings.Contains(sp.Text, `"deprecated":true`) && strings.Contains(sp.Text, `\n`) {
				u.Label("document with deprecated items and multi-line descriptions")
			}
		}
		return runHistory(u, h)
	})
}

func specNames(s []Spec) []string {
	var out []string
	for _, x := range s {
		out = append(out, x.Name)
	}
	return out
}

// ---- cross-process repetition: fresh processes re-randomise map seeds -------------

type procCase struct {
	Spec Spec `json:"spec"`
}

func TestCrossProcess(t *testing.T) {
	if path := os.Getenv("VERIF_C10_WORKER"); path != "" {
		// worker mode: digest every spec of the list
		data, err := os.ReadFile(path)
		if err != nil {
			t.Fatal(err)
		}
		var specs []Spec
		if err := json.Unmarshal(data, &specs); err != nil {
			t.Fatal(err)
		}
		out := map[string]string{}
		for _, s := range specs {
			files, class := generate(s)
			out[s.Name] = digest(files, class)
		}
		b, _ := json.Marshal(out)
		_ = os.WriteFile(path+".out."+os.Getenv("VERIF_C10_RUN"), b, 0o644)
		return
	}
	u := vk.New(t, "C10", "cross-process")
	defer u.Close()
	if c, ok := vk.ReplayOnly[procCase](u); ok {
		// replay in-process: generate 4 times and compare
		var ref string
		for i := 0; i < 4; i++ {
			files, class := generate(c.Spec)
			d := digest(files, class)
			if i > 0 && d != ref {
				u.Report(vk.F("output-differs-between-processes", "%s differs between repetitions", c.Spec.Name), c)
			}
			ref = d
		}
		return
	}
	if vk.InReplay() {
		return
	}
	shard, shards := vk.Shard()
	var specs []Spec
	all := corpus(vk.N(60_000, 4_000_000))
	// random documents drawn deterministically from the seed
	g := rapid.Custom(func(t *rapid.T) []Spec { return drawSpecs(t, vk.N(8, 60)) })
	all = append(all, g.Example(int(vk.Seed()))...)
	for i, s := range all {
		if i%shards == shard {
			specs = append(specs, s)
		}
	}
	list := filepath.Join(regen.Scratch(), fmt.Sprintf("c10-specs-%d.json", shard))
	b, _ := json.Marshal(specs)
	if err := os.WriteFile(list, b, 0o644); err != nil {
		t.Fatal(err)
	}
	reps := vk.N(3, 12)
	results := make([]map[string]string, reps)
	var wg sync.WaitGroup
	sem := make(chan struct{}, 4)
	for r := 0; r < reps; r++ {
		wg.Add(1)
		go func(r int) {
			defer wg.Done()
			sem <- struct{}{}
			defer func() { <-sem }()
			cmd := exec.Command(os.Args[0], "-test.run", "TestCrossProcess", "-test.timeout", "3000s")
			cmd.Env = append(os.Environ(), "VERIF_C10_WORKER="+list, fmt.Sprintf("VERIF_C10_RUN=%d", r), fmt.Sprintf("GOMAXPROCS=%d", []int{16, 1, 2, 4}[r%4]))
			out, err := cmd.CombinedOutput()
			if err != nil {
				if strings.Contains(string(out), "DATA RACE") {
					u.Report(vk.F("data-race", "race detector report in a worker process: %s", trim(string(out), 3000)), procCase{})
				} else {
					t.Errorf("worker %d failed: %v\n%s", r, err, trim(string(out), 2000))
				}
				return
			}
			data, err := os.ReadFile(fmt.Sprintf("%s.out.%d", list, r))
			if err != nil {
				t.Errorf("worker %d wrote nothing: %v", r, err)
				return
			}
			m := map[string]string{}
			_ = json.Unmarshal(data, &m)
			results[r] = m
		}(r)
	}
	wg.Wait()
	for _, s := range specs {
		u.Eval(reps)
		ref := ""
		same := true
		for r := 0; r < reps; r++ {
			if results[r] == nil {
				continue
			}
			d := results[r][s.Name]
			if ref == "" {
				ref = d
			} else if d != ref {
				same = false
			}
		}
		if !same {
			u.Report(vk.F("output-differs-between-processes", "%s: generated files differ between fresh processes", s.Name), procCase{Spec: s})
		} else {
			u.NonTrivial(s.Text)
		}
	}
	u.Set("repetitions", reps)
	u.Set("documents", len(specs))
}

// ---- recursive schemas: map-order dependent decisions show on reference cycles ----------------
//
// Component sets with dense reference cycles (every object points at two others through an
// optional member / array / map) and validators on some members, each generated 6 times in this
// process (tstorage maps are iterated in a fresh random order every time).

type recCase struct {
	Spec Spec `json:"spec"`
}

func drawRecursive(t *rapid.T) recCase {
	n := rapid.IntRange(2, 5).Draw(t, "ncomp")
	comps := specgen.Components{}
	names := make([]string, n)
	for i := range names {
		names[i] = fmt.Sprintf("T%d", i)
	}
	propNames := []string{"a", "link", "m", "name", "next", "target", "z"}
	for i, nm := range names {
		o := &specgen.Schema{Type: "object"}
		used := map[string]bool{}
		np := rapid.IntRange(2, 4).Draw(t, "nprops")
		for j := 0; j < np; j++ {
			pn := rapid.SampledFrom(propNames).Draw(t, "pname")
			if used[pn] {
				continue
			}
			used[pn] = true
			var ps *specgen.Schema
			switch rapid.IntRange(0, 5).Draw(t, "pkind") {
			case 0, 1:
				ps = &specgen.Schema{Ref: names[rapid.IntRange(0, n-1).Draw(t, "target")]}
			case 2:
				ps = &specgen.Schema{Type: "array", Items: &specgen.Schema{Ref: names[rapid.IntRange(0, n-1).Draw(t, "atarget")]}}
			case 3:
				ml := rapid.IntRange(1, 5).Draw(t, "minlen")
				ps = &specgen.Schema{Type: "string", MinLen: &ml}
			case 4:
				ps = &specgen.Schema{Type: "integer", Min: "1"}
			default:
				ps = &specgen.Schema{Type: "string"}
			}
			o.Props = append(o.Props, specgen.Prop{Name: pn, Schema: ps})
		}
		// make sure every component is on a cycle: an optional edge to the next one
		if !used["next"] {
			o.Props = append(o.Props, specgen.Prop{Name: "next", Schema: &specgen.Schema{Ref: names[(i+1)%n]}})
		}
		comps[nm] = o
	}
	var d specgen.Doc
	d.Components = comps
	for j, nm := range names {
		d.Ops = append(d.Ops, specgen.Operation{ID: fmt.Sprintf("op%d", j), Method: "POST", Path: fmt.Sprintf("/b%d", j),
			Body:      &specgen.Body{Required: true, Media: []specgen.Media{{ContentType: "application/json", Schema: &specgen.Schema{Ref: nm}}}},
			Responses: []specgen.Response{{Code: "200", Media: []specgen.Media{{ContentType: "application/json", Schema: &specgen.Schema{Ref: nm}}}}}})
	}
	return recCase{Spec: Spec{Name: "recursive", Text: string(d.Render())}}
}

func TestRecursiveSchemas(t *testing.T) {
	if os.Getenv("VERIF_C10_WORKER") != "" {
		return
	}
	u := vk.New(t, "C10", "recursive-schemas")
	defer u.Close()
	vk.Rapid(u, vk.N(32, 1200), nil, drawRecursive, func(c recCase) *vk.Finding {
		var ref map[string]string
		var refClass string
		for i := 0; i < 6; i++ {
			files, class := generate(c.Spec)
			u.Eval(1)
			if strings.HasPrefix(class, "panic") {
				return vk.F("generator-panic", "%s", trim(class, 1500))
			}
			if f := secondWriteFinding("document", class); f != nil {
				return f
			}
			if i == 0 {
				ref, refClass = files, class
				continue
			}
			if class != refClass {
				return vk.F("outcome-differs-between-runs", "recursive schemas: generation 1 %q, generation %d %q", refClass, i+1, class)
			}
			if digest(files, class) != digest(ref, refClass) {
				return vk.F("output-differs-between-runs", "recursive schemas: generation %d differs from the first one: %s", i+1, firstDiff(ref, files))
			}
		}
		if refClass == "ok" {
			u.NonTrivial(c.Spec.Text)
			u.Sample(map[string]any{"spec": trim(c.Spec.Text, 600), "files": len(ref)})
		}
		u.Label("outcome:" + strings.SplitN(refClass, ":", 2)[0])
		return nil
	})
}

// ---- unit: media-types ----------------------------------------------------------------------
// Documents whose bodies and responses carry several content types, wildcard masks among them
// (drawMediaDoc), generated 8 times each in one process and compared byte for byte.

func TestMediaTypes(t *testing.T) {
	if os.Getenv("VERIF_C10_WORKER") != "" {
		return
	}
	u := vk.New(t, "C10", "media-types")
	defer u.Close()
	draw := func(t *rapid.T) recCase { return recCase{Spec: Spec{Name: "media", Text: drawMediaDoc(t)}} }
	vk.Rapid(u, vk.N(64, 2400), nil, draw, func(c recCase) *vk.Finding {
		var ref map[string]string
		var refClass string
		for i := 0; i < 8; i++ {
			files, class := generate(c.Spec)
			u.Eval(1)
			if strings.HasPrefix(class, "panic") {
				return vk.F("generator-panic", "%s", trim(class, 1500))
			}
			if f := secondWriteFinding("document", class); f != nil {
				return f
			}
			if i == 0 {
				ref, refClass = files, class
				continue
			}
			if class != refClass {
				return vk.F("outcome-differs-between-runs", "several content types: generation 1 %q, generation %d %q", refClass, i+1, class)
			}
			if digest(files, class) != digest(ref, refClass) {
				return vk.F("output-differs-between-runs", "several content types: generation %d differs from the first one: %s", i+1, firstDiff(ref, files))
			}
		}
		if refClass == "ok" {
			u.NonTrivial(c.Spec.Text)
			u.Sample(map[string]any{"spec": trim(c.Spec.Text, 600), "files": len(ref)})
		}
		u.Label("outcome:" + strings.SplitN(refClass, ":", 2)[0])
		return nil
	})
}
