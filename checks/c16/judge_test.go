package c16

import (
	"fmt"
	"hash/fnv"
	"strconv"
	"strings"

	"github.com/go-faster/yaml"

	"github.com/ogen-go/ogen/jsonpointer"

	"verif/internal/vk"
)

// same: identical node; an alias node and the node it stands for are the
// same value of the document (callers Decode() the result, which follows it).
func same(a, b *yaml.Node) bool {
	if a == nil || b == nil {
		return false
	}
	return a == b || deref(a) == deref(b)
}

func describe(n *yaml.Node) string {
	if n == nil {
		return "<nil>"
	}
	kind := map[yaml.Kind]string{yaml.DocumentNode: "document", yaml.MappingNode: "mapping", yaml.SequenceNode: "sequence",
		yaml.ScalarNode: "scalar", yaml.AliasNode: "alias"}[n.Kind]
	return fmt.Sprintf("%s %q at %d:%d", kind, n.Value, n.Line, n.Column)
}

// lenientZeroEvaluate: RFC evaluation except that a sequence token may carry
// leading zeros. Used only to recognise the root cause of a disagreement.
func lenientZeroEvaluate(root *yaml.Node, tokens []string) (*yaml.Node, bool) {
	cur := root
	used := false
	for _, tok := range tokens {
		at := deref(cur)
		if at.Kind == yaml.SequenceNode && len(tok) > 1 && tok[0] == '0' {
			t := strings.TrimLeft(tok, "0")
			if t == "" {
				t = "0"
			}
			if _, ok := arrayIndex(t, len(at.Content)); ok {
				tok, used = t, true
			}
		}
		tr := evaluate(at, []string{tok})
		if tr.node == nil {
			return nil, false
		}
		cur = tr.node
	}
	return cur, used
}

// stopsAtAlias: ogen itself reaches the alias node the path has to go through
// (so the failure is the step into it, not something before).
func stopsAtAlias(root *yaml.Node, prefix []string) bool {
	got, err, p := resolveGuarded(plainPointer(prefix), root)
	return p == nil && err == nil && got != nil && got.Kind == yaml.AliasNode
}

func featureSuffix(r reading, tr trace) string {
	switch {
	case r.hasPercent:
		return "percent"
	case r.hasTilde:
		return "tilde"
	case tr.seqTokens > 0:
		return "index"
	}
	return "member"
}

// compare judges one Resolve result against the reading. Pure.
func compare(ptr string, r reading, tr trace, root, got *yaml.Node, err error) *vk.Finding {
	if err == nil && got == nil {
		return vk.F("nil-node-without-error", "Resolve(%q) = (nil, nil)", ptr)
	}
	if r.whole {
		// URI reference without fragment: no pointer. Error or the document.
		if err != nil || same(got, root) {
			return nil
		}
		return vk.F("undesignated-node-returned", "Resolve(%q): the string has no fragment, yet %s is returned", ptr, describe(got))
	}
	want := tr.node
	if err != nil {
		if !r.strict || want == nil {
			return nil
		}
		if tr.crossedAlias && stopsAtAlias(root, r.tokens[:tr.aliasAt]) {
			return vk.F("alias-not-traversed", "Resolve(%q) fails (%v) but RFC 6901 evaluation designates %s; the path goes through a YAML alias", ptr, err, describe(want))
		}
		return vk.F("designated-not-found-"+featureSuffix(r, tr), "Resolve(%q) fails (%v) but RFC 6901 evaluation designates %s (tokens %q)", ptr, err, describe(want), r.tokens)
	}
	if want != nil {
		if same(got, want) {
			return nil
		}
		return vk.F("different-node-"+featureSuffix(r, tr), "Resolve(%q) returns %s, RFC 6901 evaluation designates %s (tokens %q)", ptr, describe(got), describe(want), r.tokens)
	}
	// a node is returned where the RFC designates none: name the root cause
	tok := r.tokens[tr.stop]
	what := fmt.Sprintf("Resolve(%q) returns %s but RFC 6901 evaluation designates no node: token %d %q applied to %s (tokens %q)",
		ptr, describe(got), tr.stop, tok, describe(tr.stopAt), r.tokens)
	switch tr.stopAt.Kind {
	case yaml.SequenceNode:
		if n, used := lenientZeroEvaluate(root, r.tokens); used && same(n, got) {
			return vk.F("index-leading-zero", "%s", what)
		}
		switch {
		case tok == "-":
			return vk.F("index-dash", "%s", what)
		case tok != "" && (tok[0] == '+' || tok[0] == '-'):
			return vk.F("index-sign", "%s", what)
		case tok != strings.TrimSpace(tok):
			return vk.F("index-whitespace", "%s", what)
		case tok == "":
			return vk.F("index-empty", "%s", what)
		}
		if _, ok := arrayIndex(tok, 1<<30); ok {
			return vk.F("index-out-of-range", "%s", what)
		}
		return vk.F("index-noncanonical", "%s", what)
	case yaml.MappingNode:
		return vk.F("member-inexact-match", "%s", what)
	case yaml.ScalarNode:
		return vk.F("descends-into-scalar", "%s", what)
	}
	return vk.F("undesignated-node-returned", "%s", what)
}

func resolveGuarded(ptr string, n *yaml.Node) (got *yaml.Node, err error, panicked *vk.Finding) {
	panicked = vk.Guard("resolve-panic", func() *vk.Finding {
		got, err = jsonpointer.Resolve(ptr, n)
		return nil
	})
	if panicked != nil {
		panicked.What = fmt.Sprintf("Resolve(%q) panics: %s", ptr, panicked.What)
	}
	return
}

// outcome classes for the label distribution
const (
	ocResolves = iota
	ocNone
	ocLenientResolves
	ocLenientNone
	ocWhole
	ocN
)

var ocNames = [ocN]string{"strict-designates-node", "strict-designates-none", "invalid-syntax-literal-node", "invalid-syntax-no-node", "no-fragment"}
var urirefNames = [ocN]string{"", "", "fragment-designates-node", "fragment-designates-none", "no-fragment"}
var formIdx = map[string]int{formPlain: 0, formFragment: 1, formURIRef: 2}
var formNames = [3]string{formPlain, formFragment, formURIRef}

// docEval evaluates many strings against one parsed document.
type docEval struct {
	u        *vk.Unit
	docText  string
	docNode  *yaml.Node
	root     *yaml.Node
	docHash  uint64
	counts   [3][ocN]int
	evals    int
	ntHashes []uint64
	unknown  *vk.Finding // first finding that is not a known one
	mk       func(ptr string) any
	// direct: enumerations outside vk.Rapid report every finding themselves and
	// count non-trivial cases (each (document, string) pair is visited once)
	direct  bool
	ntCount int
}

func newDocEval(u *vk.Unit, text string, docNode *yaml.Node, mk func(ptr string) any) *docEval {
	h := fnv.New64a()
	h.Write([]byte(text))
	return &docEval{u: u, docText: text, docNode: docNode, root: rootOf(docNode), docHash: h.Sum64(), mk: mk}
}

func (d *docEval) report(f *vk.Finding, ptr string) {
	if f == nil {
		return
	}
	if d.direct || d.u.Known(f.Classifier) {
		d.u.Report(f, d.mk(ptr))
		return
	}
	if d.unknown == nil {
		d.unknown = f
	}
}

// try runs Resolve on the document node and on its root value (both reach it
// from ogen: Spec.Raw is the root mapping for YAML input and the document node
// for JSON input and external files) and judges both results.
func (d *docEval) try(ptr string) (reading, trace) { return d.tryOn(ptr, true) }

// try1 is try on one of the two entry nodes, chosen by the string's content
// (the unwrapping of the document node does not depend on the pointer; the
// valid spellings of every node go to both).
func (d *docEval) try1(ptr string) (reading, trace) { return d.tryOn(ptr, false) }

func (d *docEval) tryOn(ptr string, both bool) (reading, trace) {
	r := read(ptr)
	var tr trace
	if !r.whole {
		tr = evaluate(d.root, r.tokens)
	}
	d.evals++
	oc := ocWhole
	switch {
	case r.whole:
	case r.strict && tr.node != nil:
		oc = ocResolves
	case r.strict:
		oc = ocNone
	case tr.node != nil:
		oc = ocLenientResolves
	default:
		oc = ocLenientNone
	}
	d.counts[formIdx[r.form]][oc]++
	if tr.node != nil && (len(r.tokens) >= 2 || r.hasTilde || r.hasPercent) {
		if d.direct {
			d.ntCount++
		} else {
			h := fnv.New64a()
			h.Write([]byte(ptr))
			d.ntHashes = append(d.ntHashes, d.docHash*0x9E3779B97F4A7C15^h.Sum64())
		}
	}
	entries := []*yaml.Node{d.docNode, d.root}
	if !both {
		sum := len(ptr)
		for i := 0; i < len(ptr); i++ {
			sum += int(ptr[i])
		}
		entries = entries[sum&1 : sum&1+1]
	}
	for _, n := range entries {
		got, err, p := resolveGuarded(ptr, n)
		if p != nil {
			d.report(p, ptr)
			continue
		}
		d.report(compare(ptr, r, tr, d.root, got, err), ptr)
	}
	return r, tr
}

// flush hands the counters to the unit; counted = evaluations the kit already counted.
func (d *docEval) flush(counted int) {
	for f := range d.counts {
		for o, n := range d.counts[f] {
			if n > 0 {
				name := ocNames[o]
				if formNames[f] == formURIRef {
					name = urirefNames[o]
				}
				d.u.LabelN(formNames[f]+":"+name, n)
			}
		}
	}
	for _, h := range d.ntHashes {
		d.u.NonTrivialHash(h)
	}
	if d.ntCount > 0 {
		d.u.NonTrivialCount(d.ntCount)
	}
	if d.evals > counted {
		d.u.Eval(d.evals - counted)
	}
}

// ---- enumeration of the valid pointers of a document and their mutants

type target struct {
	tokens []string
	node   *yaml.Node
	parent []*yaml.Node // parent[i] = (dereferenced) node tokens[i] is applied to
}

// domainProblem: the generator keeps documents inside what a JSON document can
// express plus YAML aliases as values: scalar keys, no duplicates, no merge keys.
func domainProblem(n *yaml.Node, depth int) string {
	if depth > 40 {
		return "too deep"
	}
	switch n.Kind {
	case yaml.MappingNode:
		seen := map[string]bool{}
		for i := 0; i+1 < len(n.Content); i += 2 {
			k := n.Content[i]
			if k.Kind != yaml.ScalarNode {
				return "non-scalar key"
			}
			if k.Tag == "!!merge" {
				return "merge key"
			}
			if seen[k.Value] {
				return "duplicate key " + strconv.Quote(k.Value)
			}
			seen[k.Value] = true
			if p := domainProblem(n.Content[i+1], depth+1); p != "" {
				return p
			}
		}
	case yaml.SequenceNode:
		for _, c := range n.Content {
			if p := domainProblem(c, depth+1); p != "" {
				return p
			}
		}
	case yaml.DocumentNode:
		return "nested document"
	}
	return ""
}

const maxTargets = 400

func walk(root *yaml.Node) []target {
	var out []target
	var rec func(n *yaml.Node, tokens []string, parents []*yaml.Node, depth int)
	rec = func(n *yaml.Node, tokens []string, parents []*yaml.Node, depth int) {
		if len(out) >= maxTargets || depth > 12 {
			return
		}
		out = append(out, target{tokens: append([]string(nil), tokens...), node: n, parent: append([]*yaml.Node(nil), parents...)})
		at := deref(n)
		switch at.Kind {
		case yaml.MappingNode:
			for i := 0; i+1 < len(at.Content); i += 2 {
				rec(at.Content[i+1], append(tokens, at.Content[i].Value), append(parents, at), depth+1)
			}
		case yaml.SequenceNode:
			for i, c := range at.Content {
				rec(c, append(tokens, itoa(i)), append(parents, at), depth+1)
			}
		}
	}
	rec(root, nil, nil, 0)
	return out
}

// itoa: decimal without strconv (the oracle side stays off the suspected root cause).
func itoa(n int) string {
	if n == 0 {
		return "0"
	}
	var b [24]byte
	i := len(b)
	for n > 0 {
		i--
		b[i] = byte('0' + n%10)
		n /= 10
	}
	return string(b[i:])
}

func addDecimal(a string, n int) string { // a + n for decimal strings, a may exceed 64 bits
	digits := []byte(a)
	carry := n
	for i := len(digits) - 1; i >= 0 && carry > 0; i-- {
		v := int(digits[i]-'0') + carry
		digits[i] = byte('0' + v%10)
		carry = v / 10
	}
	s := string(digits)
	if carry > 0 {
		s = itoa(carry) + s
	}
	return s
}

func mapDigits(tok string, zero rune) string {
	var b strings.Builder
	for _, c := range tok {
		b.WriteRune(zero + (c - '0'))
	}
	return b.String()
}

func allDigits(s string) bool {
	if s == "" {
		return false
	}
	for i := 0; i < len(s); i++ {
		if s[i] < '0' || s[i] > '9' {
			return false
		}
	}
	return true
}

// indexSpellings: strings that are NOT the array index idx of a sequence of
// the given length, in the shapes number parsers are lenient about.
func indexSpellings(idx, length int) []string {
	t := itoa(idx)
	return []string{
		"0" + t, "00" + t, "+" + t, "-" + t, " " + t, t + " ", "\t" + t, t + "\n", "0x" + t, "0X" + t, "0b" + t, "0o" + t,
		t + "e0", t + "E0", t + ".0", t + ".", t + "_", "_" + t, t + "_0", "0_" + t, t + "\x00", "#" + t, t + "#", "%3" + t,
		itoa(length), itoa(length + 1), "-", "-1", "-0", "+0", "", "~", "~0", "~1",
		"18446744073709551616", addDecimal("18446744073709551616", idx), "18446744073709551615",
		"9223372036854775808", addDecimal("9223372036854775808", idx), "9223372036854775807",
		addDecimal("4294967296", idx), addDecimal("2147483648", idx), addDecimal("65536", idx), addDecimal("256", idx),
		"340282366920938463463374607431768211456", addDecimal("340282366920938463463374607431768211456", idx),
		mapDigits(t, '０'), mapDigits(t, '٠'), mapDigits(t, '०'), mapDigits(t, '𝟎'),
		strings.Repeat("0", 40) + t, t + "0",
	}
}

func withToken(tokens []string, j int, raw string) string {
	var b strings.Builder
	for i, t := range tokens {
		b.WriteByte('/')
		if i == j {
			b.WriteString(raw) // raw: not escaped, the mutation is on the pointer text
		} else {
			b.WriteString(escapeToken(t))
		}
	}
	return b.String()
}

// systematicMutants: the single-edit neighbours of the plain pointer to tg that
// reading the code (and number/escape parsers in general) points at. full=false
// keeps the index spellings to a handful (used by the slower caller-level unit).
func systematicMutants(tg target, full bool) []string {
	p := plainPointer(tg.tokens)
	var mutants []string
	// structural
	if p != "" {
		mutants = append(mutants, p[1:], "/"+p, p[:len(p)-1])
	}
	mutants = append(mutants, p+"/", p+"/0", p+"/-", p+"/~", p+"~", p+"//", p+"/00", p+"#", p+"%")
	// tilde edits
	for i := 0; i < len(p); i++ {
		if p[i] != '~' {
			continue
		}
		rest := p[i+2:]
		other := byte('1')
		if p[i+1] == '1' {
			other = '0'
		}
		mutants = append(mutants,
			p[:i]+"~"+string(other)+rest, // swap ~0 <-> ~1
			p[:i]+"~"+rest,               // drop the digit
			p[:i]+"~2"+rest,              // invalid escape
			p[:i]+p[i+1:],                // drop the tilde
			p[:i]+"~0"+p[i+1:],           // "~1" -> "~01" (means "~1" literally), "~0" -> "~00"
			p[:i]+"~"+p[i:],              // "~~0"
			p[:i]+"%7E"+p[i+1:],          // only meaningful in fragment form
		)
	}
	// slash edits: an escaped slash unescaped and vice versa
	for i := 1; i < len(p); i++ {
		if p[i] == '/' {
			mutants = append(mutants, p[:i]+"~1"+p[i+1:], p[:i]+p[i+1:], p[:i]+"%2F"+p[i+1:], p[:i]+"//"+p[i+1:])
		}
	}
	// index and numeric-looking member tokens
	for j, tok := range tg.tokens {
		par := tg.parent[j]
		if par.Kind == yaml.SequenceNode {
			idx, _ := arrayIndex(tok, len(par.Content))
			sps := indexSpellings(idx, len(par.Content))
			if !full {
				sps = sps[:6]
			}
			for _, sp := range sps {
				mutants = append(mutants, withToken(tg.tokens, j, sp))
			}
		} else if allDigits(tok) {
			t := strings.TrimLeft(tok, "0")
			if t == "" {
				t = "0"
			}
			for _, sp := range []string{"0" + tok, t, "+" + tok, tok + " ", " " + tok, tok + ".0", "0x" + tok, mapDigits(tok, '０')} {
				if sp != tok {
					mutants = append(mutants, withToken(tg.tokens, j, sp))
				}
			}
		}
	}
	return mutants
}

// fragmentMutants: single edits of the percent escapes of a fragment spelling.
func fragmentMutants(f string) []string {
	var out []string
	for i := 0; i+2 < len(f); i++ {
		if f[i] != '%' {
			continue
		}
		esc, rest := f[i:i+3], f[i+3:]
		out = append(out,
			f[:i]+"%25"+esc[1:]+rest,        // escape the escape: designates the literal "%XX"
			f[:i]+esc[:2]+rest,              // truncated
			f[:i]+esc[1:]+rest,              // '%' dropped
			f[:i]+strings.ToLower(esc)+rest, // hex case
			f[:i]+"%"+esc+rest,              // stray '%' in front
			f[:i]+string([]byte{hexValue(esc[1])<<4 | hexValue(esc[2])})+rest, // the raw byte
		)
	}
	return out
}

// enumerate evaluates every valid spelling of every node's pointer and the
// systematic single-edit mutants. Returns a harness error text when the oracle
// disagrees with itself (walked position vs evaluated pointer).
func (d *docEval) enumerate() string {
	targets := walk(d.root)
	for _, tg := range targets {
		p := plainPointer(tg.tokens)
		valid := []string{
			p,
			"#" + fragMin(p, upperHex),
			"#" + fragMin(p, lowerHex),
			"#" + fragSome(p, 0), "#" + fragSome(p, 1), "#" + fragSome(p, 2),
			"#" + fragAll(p),
			"https://example.com/dir/root.json#" + fragMin(p, upperHex),
			"other.yaml#" + fragSome(p, 1),
			"../a/b.json?x=1#" + fragAll(p),
		}
		for i, s := range valid {
			if i == 2 && s == valid[1] {
				continue
			}
			r, tr := d.try(s)
			if !same(tr.node, tg.node) || (!r.strict && r.form != formURIRef) {
				return fmt.Sprintf("oracle inconsistent: spelling %q of tokens %q reads as %q strict=%v and evaluates to %s, walked node is %s",
					s, tg.tokens, r.tokens, r.strict, describe(tr.node), describe(tg.node))
			}
		}
		// RFC wording cross-check of the one-pass unescape
		for _, t := range tg.tokens {
			if twoStepUnescape(escapeToken(t)) != t {
				return fmt.Sprintf("oracle inconsistent: two-step unescape of %q", escapeToken(t))
			}
		}
		mutants := systematicMutants(tg, true)
		for _, m := range fragmentMutants(valid[1][1:]) {
			d.try1("#" + m)
			d.try1("u.json#" + m)
		}
		for _, m := range mutants {
			d.try1(m)
			enc := fragMin(m, upperHex)
			d.try1("#" + enc)
			if enc != m {
				d.try1("#" + m) // raw in a fragment: what spec authors write
			}
		}
	}
	return ""
}
