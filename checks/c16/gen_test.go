package c16

// Document generator: a model tree with adversarial member names, written out
// by my own JSON / YAML emitters (the text is what ogen's front end parses),
// then parsed once in the generator to make sure the emitters say what the
// model says (a mismatch is a harness bug, not a finding).

import (
	"fmt"
	"regexp"
	"strconv"
	"strings"
	"unicode/utf8"

	"github.com/go-faster/yaml"
	"pgregory.net/rapid"
)

type mnode struct {
	kind   byte // 'm' mapping, 's' sequence, 'v' scalar, 'a' alias
	names  []string
	kids   []*mnode
	lit    string // scalar: a JSON literal (valid as YAML flow scalar too)
	anchor int    // >0: carries anchor a<N>
	target *mnode // alias target
}

var hostileNames = []string{
	"", "/", "~", "~0", "~1", "~01", "~10", "~00", "~11", "~~", "~2", "0~", "~/", "/~", "//", "a/b", "a~b", "a~0b", "a~1b", "m~n",
	"%2F", "%2f", "%", "%25", "%7E", "%7E0", "%7E1", "%7e1", "%252F", "%%", "%2", "%zz", "c%d", "%20", "+", "a+b", "a%20b", "a b",
	"#", "#/", "#/a", "a#", "a#b", "?", "a?b", "&", "=",
	"0", "1", "2", "9", "10", "11", "12", "01", "00", "001", "010", "-", "-0", "-1", "+1", "+0", " 1", "1 ", "0x1", "1e0", "1.0", "1_0",
	"１", "٣", "18446744073709551616",
	" ", "  ", " a", "a ", "\t", "\n", "a\nb", "\x00", "\x7f", "\u0085", "\u00a0", "\u2028", "\ufeff",
	"e^f", "g|h", "i\\j", "k\"l", "'", "''", "`", "{", "}", "[", "]", "{}", "[]", ",", ":", ": ", " #", "- ", "!", "!!str", "*a", "&a", "<<", "|", ">", "@",
	"😀", "é", "e\u0301", "日本", "𝟎", "\U0010FFFF", "ß", "İ",
	"$ref", "a", "b", "A", "foo", "bar", "definitions", "components", "schemas", "x", ".", "..", "null", "true", "~null", "Null", "yes", "no", "on", "y", "n",
}

var hostileAlphabet = []string{"/", "~", "0", "1", "2", "%", "F", "f", "#", "-", "+", " ", "a", "A", "E", "7", "e", ".", "😀", "é"}

type gen struct {
	t       *rapid.T
	budget  int
	aliases bool
	done    []*mnode
	anchors int
}

func (g *gen) name(sibs []string) string {
	for try := 0; ; try++ {
		var s string
		switch k := rapid.IntRange(0, 19).Draw(g.t, "nameKind"); {
		case k < 7:
			s = rapid.SampledFrom(hostileNames).Draw(g.t, "hostile")
		case k < 12 && len(sibs) > 0:
			s = g.derive(sibs[rapid.IntRange(0, len(sibs)-1).Draw(g.t, "sib")])
		case k < 15:
			n := rapid.IntRange(0, 4).Draw(g.t, "alen")
			var b strings.Builder
			for i := 0; i < n; i++ {
				b.WriteString(rapid.SampledFrom(hostileAlphabet).Draw(g.t, "ach"))
			}
			s = b.String()
		case k < 17:
			s = itoa(rapid.IntRange(0, 13).Draw(g.t, "num"))
			if rapid.IntRange(0, 3).Draw(g.t, "pad") == 0 {
				s = "0" + s
			}
		default:
			s = rapid.StringMatching(`[a-z]{1,5}`).Draw(g.t, "word")
		}
		if try > 6 {
			s += fmt.Sprintf("_%d", len(sibs))
		}
		dup := false
		for _, o := range sibs {
			if o == s {
				dup = true
				break
			}
		}
		if !dup && utf8.ValidString(s) {
			return s
		}
	}
}

// derive: a name one edit or one (un)escaping step away from a sibling, so
// that a resolver that is off by one step lands on an existing other node.
func (g *gen) derive(s string) string {
	switch rapid.IntRange(0, 11).Draw(g.t, "derive") {
	case 0:
		return escapeToken(s) // sibling "a/b" gets a brother literally named "a~1b"
	case 1:
		return twoStepUnescape(s)
	case 2:
		return fragMin(s, upperHex)
	case 3:
		return fragAll(s)
	case 4:
		var r reading
		return decodeFragment(s, &r)
	case 5:
		return "0" + s
	case 6:
		return strings.TrimLeft(s, "0")
	case 7:
		return s + rapid.SampledFrom(hostileAlphabet).Draw(g.t, "app")
	case 8:
		return rapid.SampledFrom(hostileAlphabet).Draw(g.t, "pre") + s
	case 9:
		if s == "" {
			return "0"
		}
		rs := []rune(s)
		i := rapid.IntRange(0, len(rs)-1).Draw(g.t, "del")
		return string(rs[:i]) + string(rs[i+1:])
	case 10:
		if s == "" {
			return "~"
		}
		rs := []rune(s)
		i := rapid.IntRange(0, len(rs)-1).Draw(g.t, "rep")
		return string(rs[:i]) + rapid.SampledFrom(hostileAlphabet).Draw(g.t, "repc") + string(rs[i+1:])
	default:
		return strings.ReplaceAll(strings.ReplaceAll(s, "~0", "\x01"), "~1", "~0") // swap-ish
	}
}

var scalarLits = []string{`1`, `0`, `-5`, `"s"`, `"/a"`, `"~"`, `"#/a"`, `true`, `false`, `null`, `1.5`, `""`, `"0"`, `"a b"`}

func (g *gen) node(depth int, root bool) *mnode {
	g.budget--
	if !root && g.aliases && len(g.done) > 0 && rapid.IntRange(0, 5).Draw(g.t, "alias") == 0 {
		tg := g.done[rapid.IntRange(0, len(g.done)-1).Draw(g.t, "aliasTo")]
		if tg.anchor == 0 {
			g.anchors++
			tg.anchor = g.anchors
		}
		return &mnode{kind: 'a', target: tg}
	}
	k := rapid.IntRange(0, 9).Draw(g.t, "kind")
	if root {
		k = rapid.SampledFrom([]int{0, 0, 0, 0, 0, 0, 0, 0, 0, 0, 0, 0, 0, 4, 4, 4, 4, 4, 9}).Draw(g.t, "rootKind")
	}
	if depth >= 4 || g.budget <= 0 {
		k = 9
	}
	n := &mnode{}
	switch {
	case k <= 3:
		n.kind = 'm'
		cnt := rapid.IntRange(0, 6).Draw(g.t, "members")
		if root {
			cnt = rapid.IntRange(1, 8).Draw(g.t, "rootMembers")
		}
		for i := 0; i < cnt; i++ {
			n.names = append(n.names, g.name(n.names))
			n.kids = append(n.kids, g.node(depth+1, false))
		}
	case k <= 6:
		n.kind = 's'
		cnt := rapid.SampledFrom([]int{0, 1, 1, 2, 2, 2, 3, 3, 4, 5, 11, 12, 13}).Draw(g.t, "elems")
		for i := 0; i < cnt; i++ {
			if cnt > 5 && i < cnt-2 {
				g.budget--
				n.kids = append(n.kids, &mnode{kind: 'v', lit: itoa(i * 7)})
				continue
			}
			n.kids = append(n.kids, g.node(depth+1, false))
		}
	default:
		n.kind = 'v'
		n.lit = rapid.SampledFrom(scalarLits).Draw(g.t, "lit")
	}
	g.done = append(g.done, n)
	return n
}

// ---- emitters

type emitter struct {
	t       *rapid.T
	keyMode int // 0 minimal escapes, 1 everything escaped, 2 per-character choice
	ws      string
	kws     string // between a JSON key and its colon (a line break there is not YAML)
	step    int
	flowP   int // 1/flowP of the compound nodes in block YAML switch to flow style
	comment bool
}

func needsEscape(r rune) bool {
	return r < 0x20 || r == 0x7f || (r >= 0x80 && r <= 0x9f) || r == 0xfeff || r == 0x2028 || r == 0x2029 || r == 0xfffe || r == 0xffff
}

func jsonEscapeRune(b *strings.Builder, r rune) {
	if r > 0xffff {
		r -= 0x10000
		fmt.Fprintf(b, `\u%04x\u%04X`, 0xd800+(r>>10), 0xdc00+(r&0x3ff))
		return
	}
	fmt.Fprintf(b, `\u%04x`, r)
}

func (e *emitter) jsonString(s string) string {
	var b strings.Builder
	b.WriteByte('"')
	for _, r := range s {
		mode := e.keyMode
		if mode == 2 {
			mode = rapid.IntRange(0, 1).Draw(e.t, "escapeThis")
		}
		switch {
		case mode == 1:
			if r == '/' && e.keyMode == 2 {
				b.WriteString(`\/`)
			} else {
				jsonEscapeRune(&b, r)
			}
		case r == '"' || r == '\\':
			b.WriteByte('\\')
			b.WriteRune(r)
		case r == '\n':
			b.WriteString(`\n`)
		case r == '\t':
			b.WriteString(`\t`)
		case needsEscape(r):
			jsonEscapeRune(&b, r)
		default:
			b.WriteRune(r)
		}
	}
	b.WriteByte('"')
	return b.String()
}

func (e *emitter) json(n *mnode, b *strings.Builder) {
	switch n.kind {
	case 'v':
		b.WriteString(n.lit)
	case 'm':
		b.WriteString("{" + e.ws)
		for i, k := range n.names {
			if i > 0 {
				b.WriteString(e.ws + "," + e.ws)
			}
			b.WriteString(e.jsonString(k))
			b.WriteString(e.kws + ":" + e.ws)
			e.json(n.kids[i], b)
		}
		b.WriteString(e.ws + "}")
	case 's':
		b.WriteString("[" + e.ws)
		for i, k := range n.kids {
			if i > 0 {
				b.WriteString(e.ws + "," + e.ws)
			}
			e.json(k, b)
		}
		b.WriteString(e.ws + "]")
	default:
		panic("alias in JSON document")
	}
}

var plainKeyRe = regexp.MustCompile(`^([A-Za-z_][A-Za-z0-9_]*|0|[1-9][0-9]{0,8})$`)
var yamlWords = map[string]bool{"null": true, "true": true, "false": true, "yes": true, "no": true, "on": true, "off": true, "y": true, "n": true, "nan": true, "inf": true}

func (e *emitter) yamlDouble(s string) string {
	var b strings.Builder
	b.WriteByte('"')
	for _, r := range s {
		mode := e.keyMode
		if mode == 2 {
			mode = rapid.IntRange(0, 1).Draw(e.t, "escapeThis")
		}
		switch {
		case mode == 1 || needsEscape(r) || r == '"' || r == '\\':
			switch {
			case r == '"' || r == '\\':
				b.WriteByte('\\')
				b.WriteRune(r)
			case r == '\n' && e.keyMode != 1:
				b.WriteString(`\n`)
			case r == 0 && e.keyMode != 1:
				b.WriteString(`\0`)
			case r == '/' && e.keyMode == 2:
				b.WriteString(`\/`)
			case r == ' ' && e.keyMode == 2:
				b.WriteString(`\ `)
			case r <= 0xff && e.keyMode == 2:
				fmt.Fprintf(&b, `\x%02x`, r)
			case r <= 0xffff:
				fmt.Fprintf(&b, `\u%04X`, r)
			default:
				fmt.Fprintf(&b, `\U%08x`, r)
			}
		default:
			b.WriteRune(r)
		}
	}
	b.WriteByte('"')
	return b.String()
}

func (e *emitter) yamlKey(s string) string {
	canSingle := true
	for _, r := range s {
		if needsEscape(r) {
			canSingle = false
		}
	}
	canPlain := plainKeyRe.MatchString(s) && !yamlWords[strings.ToLower(s)]
	switch rapid.IntRange(0, 2).Draw(e.t, "keyStyle") {
	case 0:
		if canPlain {
			return s
		}
	case 1:
		if canSingle {
			return "'" + strings.ReplaceAll(s, "'", "''") + "'"
		}
	}
	return e.yamlDouble(s)
}

func anchorText(n *mnode) string {
	if n.anchor > 0 {
		return fmt.Sprintf("&a%d ", n.anchor)
	}
	return ""
}

func (e *emitter) flow(n *mnode, b *strings.Builder) {
	switch n.kind {
	case 'a':
		fmt.Fprintf(b, "*a%d ", n.target.anchor)
	case 'v':
		b.WriteString(anchorText(n) + n.lit)
	case 'm':
		b.WriteString(anchorText(n) + "{")
		for i, k := range n.names {
			if i > 0 {
				b.WriteString(", ")
			}
			b.WriteString(e.yamlKey(k))
			b.WriteString(": ")
			e.flow(n.kids[i], b)
		}
		b.WriteString("}")
	case 's':
		b.WriteString(anchorText(n) + "[")
		for i, k := range n.kids {
			if i > 0 {
				b.WriteString(", ")
			}
			e.flow(k, b)
		}
		b.WriteString("]")
	}
}

func (e *emitter) eol(b *strings.Builder) {
	if e.comment && rapid.IntRange(0, 7).Draw(e.t, "comment") == 0 {
		b.WriteString(" # /c~0 #/x")
	}
	b.WriteByte('\n')
}

// value writes what follows "key:" or "-" including the end of line.
func (e *emitter) value(n *mnode, indent int, b *strings.Builder) {
	compound := (n.kind == 'm' || n.kind == 's') && len(n.kids) > 0
	if !compound || rapid.IntRange(1, e.flowP).Draw(e.t, "flowHere") == 1 {
		b.WriteByte(' ')
		e.flow(n, b)
		e.eol(b)
		return
	}
	if n.anchor > 0 {
		fmt.Fprintf(b, " &a%d", n.anchor)
	}
	e.eol(b)
	e.block(n, indent+e.step, b)
}

func (e *emitter) block(n *mnode, indent int, b *strings.Builder) {
	pad := strings.Repeat(" ", indent)
	for i, k := range n.kids {
		b.WriteString(pad)
		if n.kind == 'm' {
			b.WriteString(e.yamlKey(n.names[i]))
			b.WriteByte(':')
		} else {
			b.WriteByte('-')
		}
		e.value(k, indent, b)
	}
}

func (e *emitter) yamlDoc(n *mnode) string {
	var b strings.Builder
	head := rapid.IntRange(0, 3).Draw(e.t, "head")
	compound := (n.kind == 'm' || n.kind == 's') && len(n.kids) > 0
	if !compound || rapid.IntRange(1, e.flowP).Draw(e.t, "flowRoot") == 1 {
		if head == 1 {
			b.WriteString("--- ")
		}
		e.flow(n, &b)
		b.WriteByte('\n')
		return b.String()
	}
	switch head {
	case 1:
		b.WriteString("---\n")
	case 2:
		b.WriteString("# c16 /a/0 #/b\n")
	case 3:
		b.WriteString("%YAML 1.2\n---\n")
	}
	e.block(n, 0, &b)
	return b.String()
}

// matches: the parsed tree says what the model says.
func matches(m *mnode, n *yaml.Node, anchored map[*mnode]*yaml.Node) string {
	switch m.kind {
	case 'v':
		if n.Kind != yaml.ScalarNode {
			return fmt.Sprintf("scalar %s parsed as kind %d", m.lit, n.Kind)
		}
	case 'a':
		if n.Kind != yaml.AliasNode || n.Alias == nil || n.Alias != anchored[m.target] {
			return "alias does not point at its target"
		}
		return ""
	case 'm':
		if n.Kind != yaml.MappingNode || len(n.Content) != 2*len(m.kids) {
			return fmt.Sprintf("mapping with %d members parsed as kind %d with %d children", len(m.kids), n.Kind, len(n.Content))
		}
		for i, k := range m.names {
			key := n.Content[2*i]
			if key.Kind != yaml.ScalarNode || key.Value != k {
				return fmt.Sprintf("key %q parsed as %q (kind %d)", k, key.Value, key.Kind)
			}
			if p := matches(m.kids[i], n.Content[2*i+1], anchored); p != "" {
				return p
			}
		}
	case 's':
		if n.Kind != yaml.SequenceNode || len(n.Content) != len(m.kids) {
			return fmt.Sprintf("sequence of %d parsed as kind %d with %d children", len(m.kids), n.Kind, len(n.Content))
		}
		for i := range m.kids {
			if p := matches(m.kids[i], n.Content[i], anchored); p != "" {
				return p
			}
		}
	}
	if m.anchor > 0 {
		anchored[m] = n
	}
	return ""
}

// modelPointers lists token paths to every node of the model (through alias
// targets too), computed from the model alone.
func modelPointers(root *mnode) [][]string {
	var out [][]string
	var rec func(n *mnode, toks []string, depth int)
	rec = func(n *mnode, toks []string, depth int) {
		if len(out) >= 300 || depth > 10 {
			return
		}
		out = append(out, append([]string(nil), toks...))
		for n.kind == 'a' {
			n = n.target
		}
		for i, k := range n.kids {
			t := itoa(i)
			if n.kind == 'm' {
				t = n.names[i]
			}
			rec(k, append(toks, t), depth+1)
		}
	}
	rec(root, nil, 0)
	return out
}

var editBytes = []byte("/~01%2F#-+ aA9e.x7E5")

func (g *gen) mutant(ptrs [][]string) string {
	toks := ptrs[rapid.IntRange(0, len(ptrs)-1).Draw(g.t, "base")]
	p := plainPointer(toks)
	s := p
	switch rapid.IntRange(0, 5).Draw(g.t, "spelling") {
	case 0, 1:
	case 2:
		s = "#" + fragMin(p, upperHex)
	case 3, 4:
		var b strings.Builder
		b.WriteByte('#')
		for i := 0; i < len(p); i++ {
			c := p[i]
			if fragmentChar(c) && rapid.IntRange(0, 2).Draw(g.t, "enc") != 0 {
				b.WriteByte(c)
				continue
			}
			hex := upperHex
			if rapid.Bool().Draw(g.t, "lower") {
				hex = lowerHex
			}
			b.WriteByte('%')
			b.WriteByte(hex[c>>4])
			b.WriteByte(hex[c&15])
		}
		s = b.String()
	case 5:
		s = rapid.SampledFrom([]string{"x.json", "http://h/p", "a/b", "?q", "urn:x", "//h"}).Draw(g.t, "uri") + "#" + fragMin(p, lowerHex)
	}
	edits := rapid.SampledFrom([]int{0, 1, 1, 1, 1, 1, 1, 2, 2, 3}).Draw(g.t, "edits")
	bs := []byte(s)
	for i := 0; i < edits; i++ {
		c := editBytes[rapid.IntRange(0, len(editBytes)-1).Draw(g.t, "byte")]
		if rapid.IntRange(0, 6).Draw(g.t, "anyByte") == 0 {
			c = rapid.Byte().Draw(g.t, "rawByte")
		}
		switch op := rapid.IntRange(0, 2).Draw(g.t, "op"); {
		case op == 0 && len(bs) > 0: // drop
			j := rapid.IntRange(0, len(bs)-1).Draw(g.t, "pos")
			bs = append(bs[:j:j], bs[j+1:]...)
		case op == 1 && len(bs) > 0: // replace
			j := rapid.IntRange(0, len(bs)-1).Draw(g.t, "pos")
			bs = append(append(bs[:j:j], c), bs[j+1:]...)
		default: // insert
			j := rapid.IntRange(0, len(bs)).Draw(g.t, "pos")
			bs = append(append(bs[:j:j], c), bs[j:]...)
		}
	}
	return string(bs)
}

func (g *gen) randomString() string {
	if rapid.IntRange(0, 5).Draw(g.t, "uni") == 0 {
		return rapid.String().Draw(g.t, "any")
	}
	n := rapid.IntRange(0, 9).Draw(g.t, "rlen")
	var b strings.Builder
	for i := 0; i < n; i++ {
		if rapid.IntRange(0, 3).Draw(g.t, "tokOrCh") == 0 {
			b.WriteString(rapid.SampledFrom(hostileNames).Draw(g.t, "rname"))
		} else {
			b.WriteByte(editBytes[rapid.IntRange(0, len(editBytes)-1).Draw(g.t, "rch")])
		}
	}
	return b.String()
}

type treeCase struct {
	Doc   string   `json:"doc"`
	Style string   `json:"style"`
	Extra []string `json:"extra"` // generated mutants and random strings (Go-quoted: they may hold any bytes), evaluated besides the enumerated pointers
}

func drawTree(t *rapid.T) treeCase {
	style := rapid.SampledFrom([]string{"json", "json", "yaml-block", "yaml-block", "yaml-flow", "yaml-alias"}).Draw(t, "style")
	g := &gen{t: t, budget: rapid.IntRange(4, 45).Draw(t, "budget"), aliases: style == "yaml-alias"}
	root := g.node(0, true)
	e := &emitter{t: t, keyMode: rapid.IntRange(0, 2).Draw(t, "keyMode")}
	var text string
	switch style {
	case "json":
		e.ws = rapid.SampledFrom([]string{"", "", " ", "\n", "\n  "}).Draw(t, "ws")
		e.kws = rapid.SampledFrom([]string{"", " "}).Draw(t, "kws")
		var b strings.Builder
		e.json(root, &b)
		text = b.String()
		if rapid.Bool().Draw(t, "trailingNL") {
			text += "\n"
		}
	default:
		e.step = rapid.IntRange(1, 4).Draw(t, "step")
		e.flowP = rapid.SampledFrom([]int{4, 8, 1000}).Draw(t, "flowP")
		if style == "yaml-flow" {
			e.flowP = 1
		}
		e.comment = rapid.Bool().Draw(t, "comments")
		text = e.yamlDoc(root)
	}
	var doc yaml.Node
	if err := yaml.Unmarshal([]byte(text), &doc); err != nil {
		t.Fatalf("harness: emitted %s document does not parse: %v\n%s", style, err, text)
	}
	if doc.Kind != yaml.DocumentNode || len(doc.Content) != 1 {
		t.Fatalf("harness: emitted document parses to kind %d with %d children\n%s", doc.Kind, len(doc.Content), text)
	}
	if p := matches(root, doc.Content[0], map[*mnode]*yaml.Node{}); p != "" {
		t.Fatalf("harness: emitter/model mismatch: %s\n%s", p, text)
	}
	ptrs := modelPointers(root)
	c := treeCase{Doc: text, Style: style}
	nm := rapid.IntRange(len(ptrs)/2, 4*len(ptrs)+8).Draw(t, "mutants")
	if nm > 250 {
		nm = 250
	}
	for i := 0; i < nm; i++ {
		c.Extra = append(c.Extra, strconv.Quote(g.mutant(ptrs)))
	}
	for i := rapid.IntRange(0, 6).Draw(t, "randoms"); i > 0; i-- {
		c.Extra = append(c.Extra, strconv.Quote(g.randomString()))
	}
	return c
}
