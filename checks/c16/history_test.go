package c16

// Unit "resolver-histories": jsonschema.RootResolver is a public, reusable object. A sequence of
// references in both spellings (plain pointer and URI fragment) over member names with '%', '~',
// '/' goes through ONE resolver; every answer must be the answer a FRESH resolver gives to the same
// reference (a memo keyed too coarsely makes an answer depend on what was asked before).

import (
	"fmt"
	"strings"
	"testing"

	yaml "github.com/go-faster/yaml"
	"pgregory.net/rapid"

	"github.com/ogen-go/ogen/jsonschema"

	"verif/internal/vk"
)

type histCase struct {
	Names []string `json:"names"` // member names under /defs, each holding {"description": name}
	Refs  []string `json:"refs"`
}

var histNames = []string{"a", "c%d", "c%25d", "c%2525d", "m~", "m~0", "x/y", "x~1y", "p q", "p%20q", "é", "%C3%A9", "a#b", "a%23b", "0", "~1"}

func escTok(s string) string {
	return strings.ReplaceAll(strings.ReplaceAll(s, "~", "~0"), "/", "~1")
}

func pctAll(s string) string {
	var b strings.Builder
	for i := 0; i < len(s); i++ {
		c := s[i]
		if c >= 'a' && c <= 'z' || c >= '0' && c <= '9' || c == '~' {
			b.WriteByte(c)
		} else {
			fmt.Fprintf(&b, "%%%02X", c)
		}
	}
	return b.String()
}

func drawHist(t *rapid.T) histCase {
	var c histCase
	c.Names = rapid.Permutation(histNames).Draw(t, "names")[:rapid.IntRange(3, 8).Draw(t, "n")]
	for i, n := rapid.IntRange(2, 8).Draw(t, "steps"), 0; n < i; n++ {
		name := rapid.SampledFrom(histNames).Draw(t, "target")
		tok := escTok(name)
		switch rapid.IntRange(0, 3).Draw(t, "spelling") {
		case 0:
			c.Refs = append(c.Refs, "/defs/"+tok) // plain pointer: no percent-decoding
		case 1:
			c.Refs = append(c.Refs, "#/defs/"+pctAll(tok)) // fragment: percent-encoded
		case 2:
			c.Refs = append(c.Refs, "#/defs/"+tok) // fragment written raw (decoded once: "%25" becomes "%")
		default:
			c.Refs = append(c.Refs, "/defs/"+pctAll(tok)) // plain pointer that LOOKS percent-encoded
		}
	}
	return c
}

func histDoc(c histCase) *yaml.Node {
	var b strings.Builder
	b.WriteString(`{"defs":{`)
	for i, n := range c.Names {
		if i > 0 {
			b.WriteByte(',')
		}
		fmt.Fprintf(&b, "%q:{\"description\":%q}", n, n)
	}
	b.WriteString("}}")
	var n yaml.Node
	if err := yaml.Unmarshal([]byte(b.String()), &n); err != nil {
		panic(err)
	}
	return &n
}

func answer(r *jsonschema.RootResolver, ref string) string {
	s, err := r.ResolveReference(ref)
	if err != nil {
		return "error"
	}
	return "schema:" + s.Description
}

func checkHist(u *vk.Unit, c histCase) *vk.Finding {
	return vk.Guard("resolver-panic", func() *vk.Finding {
		shared := jsonschema.NewRootResolver(histDoc(c))
		seen := map[string]bool{}
		for i, ref := range c.Refs {
			got := answer(shared, ref)
			want := answer(jsonschema.NewRootResolver(histDoc(c)), ref)
			u.Eval(1)
			if got != want {
				return vk.F("resolver-answer-depends-on-history", "step %d: reference %q through a resolver that already answered %v gives %q, a fresh resolver gives %q (members %q)", i+1, ref, c.Refs[:i], got, want, c.Names)
			}
			if strings.HasPrefix(got, "schema:") {
				seen[got] = true
			}
		}
		if len(seen) >= 2 {
			u.NonTrivial(strings.Join(c.Names, "\x00") + "|" + strings.Join(c.Refs, "\x00"))
			u.Sample(c)
		}
		return nil
	})
}

func TestResolverHistories(t *testing.T) {
	u := vk.New(t, "C16", "resolver-histories")
	defer u.Close()
	regress := []histCase{
		{Names: []string{"c%d", "c%25d"}, Refs: []string{"#/defs/c%25d", "/defs/c%25d", "#/defs/c%2525d"}},
		{Names: []string{"m~", "m~0", "x/y"}, Refs: []string{"/defs/m~0", "#/defs/m~0", "/defs/m~00", "/defs/x~1y"}},
	}
	vk.Rapid(u, vk.N(20000, 400000), regress, drawHist, func(c histCase) *vk.Finding { return checkHist(u, c) })
}
