package c16

import (
	"testing"

	"verif/internal/vk"
)

// native fuzz targets: generators and oracles of the random units, driven by coverage
func FuzzTreeRandom(f *testing.F)        { vk.FuzzUnit(f, TestTreeRandom, 0) }
func FuzzResolverHistories(f *testing.F) { vk.FuzzUnit(f, TestResolverHistories, 0) }
func FuzzViaCallers(f *testing.F)        { vk.FuzzUnit(f, TestViaCallers, 0) }
