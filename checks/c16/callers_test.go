package c16

// The same question asked where ogen asks it: `$ref` strings travel through
// jsonpointer.ResolveCtx.Key and jsonschema.RootResolver (schemas) or
// openapi/parser.resolvePointer (parameters and the other components) before
// they reach jsonpointer.Resolve. Node identity cannot be observed behind
// Decode, so every leaf of the generated tree is an object carrying a unique
// marker (schema: description, parameter: name) and the marker is compared.

import (
	"context"
	"fmt"
	"regexp"
	"strconv"
	"strings"
	"testing"
	"unicode/utf8"

	"github.com/go-faster/yaml"
	"pgregory.net/rapid"

	"github.com/ogen-go/ogen"
	"github.com/ogen-go/ogen/jsonpointer"
	"github.com/ogen-go/ogen/jsonschema"
	"github.com/ogen-go/ogen/openapi/parser"

	"verif/internal/vk"
)

type callerCase struct {
	Mode  string   `json:"mode"`  // "schema" | "param"
	Tree  string   `json:"tree"`  // flow-style text of the tree, embedded as the value of "x-tree"
	Frags []string `json:"frags"` // Go-quoted fragments (the text after '#'), each tried in every form of the mode
}

var markerRe = regexp.MustCompile(`^L[0-9]+$`)

func leafModel(mode string, id int) *mnode {
	str := func(s string) *mnode { return &mnode{kind: 'v', lit: strconv.Quote(s)} }
	marker := "L" + itoa(id)
	if mode == "param" {
		return &mnode{kind: 'm', names: []string{"name", "in", "schema"}, kids: []*mnode{str(marker), str("query"),
			{kind: 'm', names: []string{"type"}, kids: []*mnode{str("string")}}}}
	}
	return &mnode{kind: 'm', names: []string{"type", "description"}, kids: []*mnode{str("string"), str(marker)}}
}

// markerOf: the marker if n is a leaf object, "" otherwise.
func markerOf(n *yaml.Node, mode string) string {
	n = deref(n)
	if n == nil || n.Kind != yaml.MappingNode {
		return ""
	}
	key := "description"
	if mode == "param" {
		key = "name"
	}
	for i := 0; i+1 < len(n.Content); i += 2 {
		if n.Content[i].Value == key && n.Content[i+1].Kind == yaml.ScalarNode && markerRe.MatchString(n.Content[i+1].Value) {
			return n.Content[i+1].Value
		}
	}
	return ""
}

func jsonQuote(s string) string {
	var b strings.Builder
	b.WriteByte('"')
	for _, r := range s {
		switch {
		case r == '"' || r == '\\':
			b.WriteByte('\\')
			b.WriteRune(r)
		case needsEscape(r) || r == utf8.RuneError:
			jsonEscapeRune(&b, r)
		default:
			b.WriteRune(r)
		}
	}
	b.WriteByte('"')
	return b.String()
}

// outcome of a resolution: an error, a leaf marker, or some other node
type outcome struct {
	err    bool
	marker string // "" with err=false: a node that is not a leaf
}

func (o outcome) String() string {
	switch {
	case o.err:
		return "error"
	case o.marker == "":
		return "a node that is not a leaf"
	}
	return "leaf " + o.marker
}

func outcomeOfReading(root *yaml.Node, r reading, mode string) outcome {
	if r.badPercent {
		return outcome{err: true} // a resolver that decodes must reject this
	}
	tr := evaluate(root, r.tokens)
	if tr.node == nil {
		return outcome{err: true}
	}
	return outcome{marker: markerOf(tr.node, mode)}
}

type extDocs map[string][]byte

func (e extDocs) Get(_ context.Context, loc string) ([]byte, error) {
	for k, v := range e {
		if strings.HasSuffix(loc, k) {
			return v, nil
		}
	}
	return nil, fmt.Errorf("no external document %q", loc)
}

const specHead = `{"openapi":"3.0.3","info":{"title":"t","version":"1"},"paths":{"/a":{"get":{"operationId":"a","parameters":[{"$ref":`
const specMid = `}],"responses":{"200":{"description":"ok"}}}}},"x-tree":`

type form struct {
	name    string
	viaURL  bool // the reference is parsed as a URL and its fragment re-assembled (RefKey.FromURL)
	trimmed bool // RootResolver.ResolveReference trims white space
}

var schemaForms = []form{
	{"schema-root-fragment", false, true},
	{"schema-external", true, true},
	{"schema-self-url", true, true},
	{"schema-nested-in-external", true, true},
}
var paramForms = []form{
	{"param-root-fragment", false, false},
	{"param-external", true, false},
}

func checkCallers(u *vk.Unit, c callerCase) *vk.Finding {
	frags := make([]string, len(c.Frags))
	for i, q := range c.Frags {
		s, err := strconv.Unquote(q)
		if err != nil || !utf8.ValidString(s) {
			return vk.F("harness-case", "fragment %s is not a Go-quoted UTF-8 string", q)
		}
		frags[i] = s
	}
	var host strings.Builder
	host.WriteString(`{"x-tree":` + c.Tree + `,"x-holders":[`)
	for i, f := range frags {
		if i > 0 {
			host.WriteByte(',')
		}
		host.WriteString(`{"$ref":` + jsonQuote("#"+f) + `}`)
	}
	host.WriteString("]}")
	doc, problem := parseDoc(host.String())
	if problem != "" {
		return vk.F("harness-document", "host document %s\n%s", problem, host.String())
	}
	root := rootOf(doc)
	if c.Mode == "param" {
		// the document the references are resolved in is the spec itself
		sdoc, problem := parseDoc(specHead + `"#/x-tree"` + specMid + c.Tree + "}")
		if problem != "" {
			return vk.F("harness-document", "host spec %s", problem)
		}
		root = rootOf(sdoc)
	}

	forms := schemaForms
	var parsers []*jsonschema.Parser
	if c.Mode == "param" {
		forms = paramForms
	} else {
		for range forms {
			var n yaml.Node
			if err := yaml.Unmarshal([]byte(host.String()), &n); err != nil {
				return vk.F("harness-document", "host document: %v", err)
			}
			parsers = append(parsers, jsonschema.NewParser(jsonschema.Settings{
				Resolver: jsonschema.NewRootResolver(&n),
				External: extDocs{"ext.json": []byte(host.String())},
			}))
		}
	}

	var unknown *vk.Finding
	report := func(f *vk.Finding, frag string) {
		if f == nil {
			return
		}
		if u.Known(f.Classifier) {
			u.Report(f, callerCase{Mode: c.Mode, Tree: c.Tree, Frags: []string{strconv.Quote(frag)}})
		} else if unknown == nil {
			unknown = f
		}
	}
	evals := 0
	for i, frag := range frags {
		r := read("#" + frag)
		want := outcomeOfReading(root, r, c.Mode)
		class := "strict"
		if !r.strict {
			class = "invalid-syntax"
		}
		switch {
		case want.err:
			class += "-designates-none"
		case want.marker == "":
			class += "-designates-inner-node"
		default:
			class += "-designates-leaf"
			if r.strict && (len(r.tokens) >= 3 || r.hasTilde || r.hasPercent) {
				u.NonTrivial(c.Tree + "\x00" + frag)
			}
		}
		for fi, fm := range forms {
			evals++
			u.Label(fm.name + ":" + class)
			var got outcome
			var gotErr error
			pf := vk.Guard("caller-panic", func() *vk.Finding {
				if c.Mode == "param" {
					ref := "#" + frag
					if fm.viaURL {
						ref = "ext.json#" + frag
					}
					text := specHead + jsonQuote(ref) + specMid + c.Tree + "}"
					spec, err := ogen.Parse([]byte(text))
					if err != nil {
						return vk.F("harness-document", "host spec does not parse: %v\n%s", err, text)
					}
					api, err := parser.Parse(spec, parser.Settings{External: extDocs{"ext.json": []byte(text)}})
					switch {
					case err != nil:
						got, gotErr = outcome{err: true}, err
					case len(api.Operations) != 1 || len(api.Operations[0].Parameters) != 1:
						got = outcome{}
					default:
						if n := api.Operations[0].Parameters[0].Name; markerRe.MatchString(n) {
							got = outcome{marker: n}
						}
					}
					return nil
				}
				var ref string
				switch fi {
				case 0:
					ref = "#" + frag
				case 1:
					ref = "ext.json#" + frag
				case 2:
					ref = "jsonschema://dummy#" + frag
				case 3:
					ref = "ext.json#/x-holders/" + itoa(i)
				}
				s, err := parsers[fi].Resolve(ref, jsonpointer.NewResolveCtx(jsonpointer.DummyURL(), 50))
				switch {
				case err != nil:
					got, gotErr = outcome{err: true}, err
				case s != nil && markerRe.MatchString(s.Description):
					got = outcome{marker: s.Description}
				default:
					got = outcome{}
				}
				return nil
			})
			if pf != nil {
				report(pf, frag)
				continue
			}
			report(judgeCaller(root, c.Mode, fm, frag, r, want, got, gotErr), frag)
		}
	}
	if evals > 1 {
		u.Eval(evals - 1)
	}
	u.Label("mode:" + c.Mode)
	if len(frags) > 0 {
		u.Sample(map[string]any{"mode": c.Mode, "tree": c.Tree, "frags": len(frags), "first": frags[0]})
	}
	return unknown
}

func judgeCaller(root *yaml.Node, mode string, fm form, frag string, r reading, want, got outcome, gotErr error) *vk.Finding {
	ok := false
	switch {
	case got.err:
		// an error is due when nothing is designated, and tolerated for what is not a pointer
		// and for inner nodes (they are not schemas / parameters: Decode may refuse them)
		ok = want.err || !r.strict || want.marker == ""
	case got.marker != "":
		ok = !want.err && want.marker == got.marker
	default:
		// some node that is not a leaf came back: fine iff an inner node is designated
		ok = !want.err && want.marker == ""
	}
	if ok {
		return nil
	}
	what := fmt.Sprintf("%s: reference with fragment %q (tokens %q): RFC 6901 evaluation gives %s, ogen gives %s", fm.name, frag, r.tokens, want, got)
	if gotErr != nil {
		what += fmt.Sprintf(" (%v)", gotErr)
	}
	// root causes known from reading the callers and Resolve: which smallest set of
	// deviations from the RFC reading reproduces what ogen gave?
	var rr reading
	once := decodeFragment(frag, &rr)
	const (
		devZero  = 1 << iota // sequence tokens may carry leading zeros (strconv.ParseUint)
		devTwice             // RefKey.FromURL + Resolve: the fragment is percent-decoded twice
		devTrim              // RootResolver.ResolveReference: strings.TrimSpace
	)
	names := map[int]string{devZero: "index-leading-zero", devTwice: "fragment-decoded-twice", devTrim: "ref-whitespace-trimmed"}
	for _, mask := range []int{devZero, devTwice, devTrim, devZero | devTwice, devZero | devTrim, devTwice | devTrim, devZero | devTwice | devTrim} {
		if (mask&devTwice != 0 && (!fm.viaURL || rr.badPercent)) || (mask&devTrim != 0 && !fm.trimmed) {
			continue
		}
		var ptr string
		switch {
		case mask&devTwice != 0:
			ptr = "#" + once
		case fm.viaURL && !rr.badPercent && mask&devTrim != 0:
			ptr = once // decoded once (correctly), then trimmed
		default:
			ptr = "#" + frag
		}
		if mask&devTrim != 0 {
			ptr = strings.TrimSpace(ptr)
		}
		hr := read(ptr)
		if hr.form == formURIRef {
			continue
		}
		o := outcomeOfReading(root, hr, mode)
		if mask&devZero != 0 && !hr.badPercent {
			o = outcome{err: true}
			if n, used := lenientZeroEvaluate(root, hr.tokens); n != nil && used {
				o = outcome{marker: markerOf(n, mode)}
			}
		}
		if o == got {
			first := mask & -mask
			return vk.F(names[first], "%s; this is what evaluating %q gives (deviations: %s)", what, ptr, devList(mask, names))
		}
	}
	switch {
	case got.err:
		return vk.F("caller-designated-not-found", "%s", what)
	case want.err:
		return vk.F("caller-undesignated-node", "%s", what)
	}
	return vk.F("caller-different-node", "%s", what)
}

func devList(mask int, names map[int]string) string {
	var out []string
	for bit := 1; bit <= mask; bit <<= 1 {
		if mask&bit != 0 {
			out = append(out, names[bit])
		}
	}
	return strings.Join(out, "+")
}

func drawCallers(t *rapid.T) callerCase {
	mode := rapid.SampledFrom([]string{"schema", "schema", "schema", "param"}).Draw(t, "mode")
	g := &gen{t: t, budget: rapid.IntRange(3, 30).Draw(t, "budget")}
	tree := g.node(0, true)
	// every scalar becomes a leaf object with a unique marker
	id := 0
	var mark func(n *mnode) *mnode
	mark = func(n *mnode) *mnode {
		if n.kind == 'v' {
			id++
			return leafModel(mode, id)
		}
		for i := range n.kids {
			n.kids[i] = mark(n.kids[i])
		}
		return n
	}
	tree = mark(tree)
	e := &emitter{t: t, keyMode: rapid.IntRange(0, 2).Draw(t, "keyMode"), flowP: 1}
	var b strings.Builder
	if rapid.Bool().Draw(t, "jsonStyle") {
		e.ws = rapid.SampledFrom([]string{"", " "}).Draw(t, "ws")
		e.json(tree, &b)
	} else {
		e.flow(tree, &b)
	}
	text := b.String()
	var doc yaml.Node
	if err := yaml.Unmarshal([]byte(`{"x-tree":`+text+`}`), &doc); err != nil {
		t.Fatalf("harness: emitted tree does not parse: %v\n%s", err, text)
	}
	root := doc.Content[0]
	if p := matches(tree, root.Content[1], map[*mnode]*yaml.Node{}); p != "" {
		t.Fatalf("harness: emitter/model mismatch: %s\n%s", p, text)
	}
	c := callerCase{Mode: mode, Tree: text}
	add := func(s string) {
		if len(c.Frags) < 60 {
			c.Frags = append(c.Frags, strconv.Quote(strings.ToValidUTF8(s, "�")))
		}
	}
	var leaves []target
	for _, tg := range walk(root) {
		if markerOf(tg.node, mode) != "" {
			leaves = append(leaves, tg)
		}
	}
	if len(leaves) == 0 {
		add("/x-tree")
		return c
	}
	n := rapid.IntRange(1, 6).Draw(t, "leaves")
	for i := 0; i < n; i++ {
		tg := leaves[rapid.IntRange(0, len(leaves)-1).Draw(t, "leaf")]
		p := plainPointer(tg.tokens)
		switch rapid.IntRange(0, 4).Draw(t, "spell") {
		case 0:
			add(fragMin(p, upperHex))
		case 1:
			add(fragSome(p, rapid.IntRange(0, 2).Draw(t, "phase")))
		case 2:
			add(fragAll(p))
		case 3:
			add(p) // raw, as spec authors write it
		default:
			add(fragMin(p, lowerHex))
		}
		muts := systematicMutants(tg, false)
		muts = append(muts, fragmentMutants(fragMin(p, upperHex))...)
		for k := rapid.IntRange(0, 4).Draw(t, "nmut"); k > 0; k-- {
			m := muts[rapid.IntRange(0, len(muts)-1).Draw(t, "mut")]
			if rapid.Bool().Draw(t, "encodeMutant") {
				m = fragMin(m, upperHex)
			}
			add(m)
		}
		if rapid.IntRange(0, 2).Draw(t, "byteEdit") == 0 {
			s := g.mutant([][]string{tg.tokens})
			if i := strings.IndexByte(s, '#'); i >= 0 {
				s = s[i+1:]
			}
			add(s)
		}
	}
	return c
}

var regressCallers = []callerCase{
	{Mode: "schema", Tree: `{"a%41":{"type":"string","description":"L1"},"aA":{"type":"string","description":"L2"},"100%":{"type":"string","description":"L3"},"a ":{"type":"string","description":"L4"},"a":{"type":"string","description":"L5"},"%2F":{"type":"string","description":"L6"},"/":{"type":"string","description":"L7"},"p q":{"type":"string","description":"L8"},"~":{"type":"string","description":"L9"},"~0":{"type":"string","description":"L10"},"s":[{"type":"string","description":"L11"},{"type":"string","description":"L12"}]}`,
		Frags: q("/x-tree/a%2541", "/x-tree/aA", "/x-tree/100%25", "/x-tree/a%20", "/x-tree/a ", "/x-tree/a", "/x-tree/%252F", "/x-tree/~1", "/x-tree/%2F", "/x-tree/p%20q", "/x-tree/p q",
			"/x-tree/~0", "/x-tree/~00", "/x-tree/%7E0", "/x-tree/%257E0", "/x-tree/s/0", "/x-tree/s/01", "/x-tree/s/1", "/x-tree/s/2", "/x-tree/s/-", "/x-tree", "")},
	{Mode: "param", Tree: `{"a%41":{"name":"L1","in":"query","schema":{"type":"string"}},"aA":{"name":"L2","in":"query","schema":{"type":"string"}},"100%":{"name":"L3","in":"query","schema":{"type":"string"}},"a ":{"name":"L4","in":"query","schema":{"type":"string"}},"a":{"name":"L5","in":"query","schema":{"type":"string"}},"s":[{"name":"L6","in":"query","schema":{"type":"string"}}]}`,
		Frags: q("/x-tree/a%2541", "/x-tree/aA", "/x-tree/100%25", "/x-tree/a%20", "/x-tree/a ", "/x-tree/a", "/x-tree/s/0", "/x-tree/s/00", "/x-tree/s/1")},
}

func TestViaCallers(t *testing.T) {
	u := vk.New(t, "C16", "via-callers")
	defer u.Close()
	vk.Rapid(u, vk.N(1500, 150_000), regressCallers, drawCallers, func(c callerCase) *vk.Finding {
		return checkCallers(u, c)
	})
}
