package c16

// The reference: RFC 6901 evaluation written from the RFC text (§3 syntax, §4
// evaluation, §6 URI fragment identifier representation) and RFC 3986 (what a
// fragment may contain, where a fragment starts). It shares no code with
// ogen's jsonpointer package and uses neither net/url nor strconv.

import (
	"strings"
	"unicode/utf8"

	"github.com/go-faster/yaml"
)

const (
	formPlain    = "plain"    // "" or "/..."           RFC 6901 §3
	formFragment = "fragment" // "#..."                 RFC 6901 §6
	formURIRef   = "uriref"   // anything else: a URI reference, pointer = its fragment (RFC 3986 §4.1)
)

// reading is what the RFCs make of one input string.
type reading struct {
	form string
	// strict: the string is syntactically valid in its form, so the RFC either
	// designates a node (must be returned) or none (must be an error). When
	// false the input is not a pointer at all; then an error is acceptable and
	// so is the node designated by the literal reading below, nothing else.
	strict bool
	// whole: a URI reference without '#': no pointer, designates the document.
	whole bool
	// tokens of the literal reading: fragment percent-decoded where an escape
	// is well-formed (other bytes kept), split on '/', "~1"->"/" and "~0"->"~"
	// in one left-to-right pass, any other '~' kept.
	tokens []string
	// noSlash: the (decoded) pointer is non-empty and lacks the leading '/'.
	// The literal reading then treats it as if the '/' were there.
	noSlash bool
	// features (labels and classifiers only)
	hasTilde   bool // an escape ~0 / ~1 was decoded
	badTilde   bool // '~' not followed by 0 or 1
	hasPercent bool // a percent escape was decoded
	badPercent bool // '%' not followed by two hex digits
	rawIllegal bool // fragment contains a byte RFC 3986 does not allow there
}

func isHexDigit(c byte) bool {
	return c >= '0' && c <= '9' || c >= 'a' && c <= 'f' || c >= 'A' && c <= 'F'
}

func hexValue(c byte) byte {
	switch {
	case c >= '0' && c <= '9':
		return c - '0'
	case c >= 'a' && c <= 'f':
		return c - 'a' + 10
	}
	return c - 'A' + 10
}

// RFC 3986 §3.5: fragment = *( pchar / "/" / "?" ), pchar = unreserved /
// pct-encoded / sub-delims / ":" / "@".
func fragmentChar(c byte) bool {
	switch {
	case c >= 'a' && c <= 'z', c >= 'A' && c <= 'Z', c >= '0' && c <= '9':
		return true
	}
	return strings.IndexByte("-._~!$&'()*+,;=:@/?", c) >= 0
}

// decodeFragment percent-decodes (RFC 3986 §2.1). Malformed escapes and bytes
// that may not appear raw are kept as they are and reported.
func decodeFragment(f string, r *reading) string {
	var b strings.Builder
	for i := 0; i < len(f); {
		c := f[i]
		if c == '%' {
			if i+2 < len(f) && isHexDigit(f[i+1]) && isHexDigit(f[i+2]) {
				b.WriteByte(hexValue(f[i+1])<<4 | hexValue(f[i+2]))
				r.hasPercent = true
				i += 3
				continue
			}
			r.badPercent = true
			b.WriteByte(c)
			i++
			continue
		}
		if !fragmentChar(c) {
			r.rawIllegal = true
		}
		b.WriteByte(c)
		i++
	}
	return b.String()
}

// unescapeToken implements RFC 6901 §4: "~1" -> "/" first, then "~0" -> "~",
// which is the same as one left-to-right pass over non-overlapping escapes.
func unescapeToken(tok string, r *reading) string {
	if strings.IndexByte(tok, '~') < 0 {
		return tok
	}
	var b strings.Builder
	for i := 0; i < len(tok); i++ {
		c := tok[i]
		if c == '~' {
			if i+1 < len(tok) && tok[i+1] == '0' {
				b.WriteByte('~')
				r.hasTilde = true
				i++
				continue
			}
			if i+1 < len(tok) && tok[i+1] == '1' {
				b.WriteByte('/')
				r.hasTilde = true
				i++
				continue
			}
			r.badTilde = true
		}
		b.WriteByte(c)
	}
	return b.String()
}

// twoStepUnescape is the RFC's own wording (first every "~1", then every
// "~0"), used to cross-check unescapeToken on syntactically valid tokens.
func twoStepUnescape(tok string) string {
	return strings.ReplaceAll(strings.ReplaceAll(tok, "~1", "/"), "~0", "~")
}

func read(s string) reading {
	var r reading
	var ptr string
	switch {
	case s == "" || s[0] == '/':
		r.form = formPlain
		ptr = s
	case s[0] == '#':
		r.form = formFragment
		ptr = decodeFragment(s[1:], &r)
	default:
		r.form = formURIRef
		i := strings.IndexByte(s, '#') // RFC 3986 §3: the fragment starts at the first '#'
		if i < 0 {
			r.whole = true
			return r
		}
		ptr = decodeFragment(s[i+1:], &r)
	}
	if ptr != "" {
		rest := ptr
		if ptr[0] == '/' {
			rest = ptr[1:]
		} else {
			r.noSlash = true
		}
		for {
			i := strings.IndexByte(rest, '/')
			if i < 0 {
				r.tokens = append(r.tokens, unescapeToken(rest, &r))
				break
			}
			r.tokens = append(r.tokens, unescapeToken(rest[:i], &r))
			rest = rest[i+1:]
		}
	}
	r.strict = r.form != formURIRef && !r.noSlash && !r.badTilde && !r.badPercent && !r.rawIllegal && utf8.ValidString(ptr)
	return r
}

// arrayIndex: RFC 6901 §4 array-index = %x30 / ( %x31-39 *(%x30-39) ).
func arrayIndex(tok string, length int) (int, bool) {
	if tok == "" {
		return 0, false
	}
	if tok[0] == '0' && len(tok) > 1 {
		return 0, false
	}
	n := 0
	for i := 0; i < len(tok); i++ {
		c := tok[i]
		if c < '0' || c > '9' {
			return 0, false
		}
		n = n*10 + int(c-'0')
		if n >= length { // also bounds n: no overflow however long the token is
			return 0, false
		}
	}
	return n, true
}

// trace says where evaluation went.
type trace struct {
	node         *yaml.Node // designated node, nil if none
	stop         int        // index of the token that designated nothing (-1: none)
	stopAt       *yaml.Node // node the failing token was applied to
	crossedAlias bool       // a token was applied to the target of an alias
	aliasAt      int        // index of the first such token
	seqTokens    int        // tokens applied to sequences
}

func deref(n *yaml.Node) *yaml.Node {
	for i := 0; n != nil && n.Kind == yaml.AliasNode && n.Alias != nil && i < 64; i++ {
		n = n.Alias
	}
	return n
}

// root unwraps the document node the way a YAML document maps to its single
// root value (ogen does the same at the entry of Resolve).
func rootOf(doc *yaml.Node) *yaml.Node {
	if doc.Kind == yaml.DocumentNode && len(doc.Content) > 0 {
		return doc.Content[0]
	}
	return doc
}

// evaluate walks tokens from root (RFC 6901 §4).
func evaluate(root *yaml.Node, tokens []string) trace {
	tr := trace{stop: -1}
	cur := root
	for i, tok := range tokens {
		at := cur
		if cur.Kind == yaml.AliasNode {
			at = deref(cur)
			if !tr.crossedAlias {
				tr.aliasAt = i
			}
			tr.crossedAlias = true
		}
		var next *yaml.Node
		switch at.Kind {
		case yaml.MappingNode:
			for k := 0; k+1 < len(at.Content); k += 2 {
				if at.Content[k].Value == tok {
					next = at.Content[k+1]
					break
				}
			}
		case yaml.SequenceNode:
			tr.seqTokens++
			if idx, ok := arrayIndex(tok, len(at.Content)); ok {
				next = at.Content[idx]
			}
		}
		if next == nil {
			tr.stop, tr.stopAt = i, at
			return tr
		}
		cur = next
	}
	tr.node = cur
	return tr
}

// ---- spellings of a pointer (used to enumerate, not to judge)

func escapeToken(name string) string {
	return strings.ReplaceAll(strings.ReplaceAll(name, "~", "~0"), "/", "~1")
}

func plainPointer(tokens []string) string {
	var b strings.Builder
	for _, t := range tokens {
		b.WriteByte('/')
		b.WriteString(escapeToken(t))
	}
	return b.String()
}

const upperHex = "0123456789ABCDEF"
const lowerHex = "0123456789abcdef"

// fragMin percent-encodes exactly what RFC 3986 does not allow raw in a fragment.
func fragMin(ptr string, hex string) string {
	var b strings.Builder
	for i := 0; i < len(ptr); i++ {
		c := ptr[i]
		if fragmentChar(c) {
			b.WriteByte(c)
		} else {
			b.WriteByte('%')
			b.WriteByte(hex[c>>4])
			b.WriteByte(hex[c&15])
		}
	}
	return b.String()
}

// fragSome additionally encodes every byte whose position is ≡ phase (mod 3),
// including '/', '~' and the digits of escapes and indices.
func fragSome(ptr string, phase int) string {
	var b strings.Builder
	for i := 0; i < len(ptr); i++ {
		c := ptr[i]
		if fragmentChar(c) && i%3 != phase {
			b.WriteByte(c)
		} else {
			hex := upperHex
			if i%2 == 1 {
				hex = lowerHex
			}
			b.WriteByte('%')
			b.WriteByte(hex[c>>4])
			b.WriteByte(hex[c&15])
		}
	}
	return b.String()
}

func fragAll(ptr string) string {
	var b strings.Builder
	for i := 0; i < len(ptr); i++ {
		c := ptr[i]
		b.WriteByte('%')
		b.WriteByte(lowerHex[c>>4])
		b.WriteByte(upperHex[c&15])
	}
	return b.String()
}
