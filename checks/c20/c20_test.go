// Package c20 decides property C20 on the BUILT cmd/ogen binary:
//
//  1. a run that fails before the generator starts writing (flag, config, spec
//     read, YAML/JSON parse, spec validation, not-implemented feature, IR build,
//     route build, unusable target path) exits non-zero and leaves the target
//     directory exactly as it was — also with --clean;
//  2. when generation proceeds, --clean removes only non-directory entries
//     directly in the target whose name matches the generator's own pattern
//     (^(oas|openapi).*_gen(_test)?\.go$), never user files or subdirectories,
//     and only such names are created or overwritten.
//
// Fault enumeration: every failure stage below is a concrete command line /
// config / spec; each is crossed with target-directory states (a fixed list
// plus rapid-generated ones) and with --clean on/off. The oracle is a
// recursive snapshot (path, type, mode, size, sha256, symlink target, mtime)
// of a private root holding cwd, the target and "outside" user files, taken
// before and after the run.
package c20

import (
	"bytes"
	"context"
	"crypto/sha256"
	"encoding/hex"
	"encoding/json"
	"fmt"
	"io"
	"io/fs"
	"os"
	"os/exec"
	"path"
	"path/filepath"
	"regexp"
	"runtime"
	"sort"
	"strings"
	"sync"
	"sync/atomic"
	"testing"
	"time"

	"pgregory.net/rapid"

	"verif/internal/vk"
)

// ---- environment -------------------------------------------------------------

var (
	repo       string
	scratch    string
	ownScratch bool
)

func TestMain(m *testing.M) {
	repo = os.Getenv("VERIF_REPO")
	if repo == "" {
		repo = "/repo"
	}
	if r, err := filepath.EvalSymlinks(repo); err == nil {
		repo = r
	}
	base := os.Getenv("VERIF_SCRATCH")
	if base == "" {
		d, err := os.MkdirTemp("", "verif-c20-")
		if err != nil {
			fmt.Fprintln(os.Stderr, "scratch:", err)
			os.Exit(2)
		}
		base, ownScratch = d, true
	}
	scratch = filepath.Join(base, fmt.Sprintf("c20-%d", os.Getpid()))
	_ = os.MkdirAll(scratch, 0o755)

	before, isGit := repoStatus()
	code := m.Run()
	if isGit {
		after, _ := repoStatus()
		if mine, others := repoDirtied(before, after); len(mine) > 0 {
			fmt.Fprintf(os.Stderr, "INFRASTRUCTURE: new files or go.mod/go.sum changes appeared in %s while the check ran (the check must never write there):\n%s\n", repo, strings.Join(mine, "\n"))
			if code == 0 {
				code = 3
			}
		} else if len(others) > 0 {
			fmt.Fprintf(os.Stderr, "warning: tracked files of %s were changed by someone else while the check ran (this check builds with -modfile copies and runs every tool with cwd and outputs in scratch, it cannot write them):\n%s\n", repo, strings.Join(others, "\n"))
		}
	}
	makeWritable(scratch)
	_ = os.RemoveAll(scratch)
	if ownScratch {
		_ = os.RemoveAll(base)
	}
	os.Exit(code)
}

func repoStatus() (string, bool) {
	if _, err := os.Stat(filepath.Join(repo, ".git")); err != nil {
		return "", false
	}
	out, err := exec.Command("git", "-C", repo, "status", "--porcelain", "--ignored").Output()
	if err != nil {
		return "", false
	}
	return string(out), true
}

// repoDirtied splits the `git status --porcelain --ignored` lines that are new
// after the run into those this check could conceivably have caused (new
// untracked / ignored files such as *.dump, go.mod / go.sum rewrites) and
// modifications of other tracked files (someone else working in the tree).
func repoDirtied(before, after string) (mine, others []string) {
	old := map[string]bool{}
	for _, l := range strings.Split(before, "\n") {
		old[l] = true
	}
	for _, l := range strings.Split(after, "\n") {
		if l == "" || old[l] || len(l) < 4 {
			continue
		}
		base := filepath.Base(strings.Trim(l[3:], "\""))
		switch {
		case strings.HasPrefix(l, "??"), strings.HasPrefix(l, "!!"):
			mine = append(mine, l)
		case base == "go.mod" || base == "go.sum" || base == "go.work" || base == "go.work.sum":
			mine = append(mine, l)
		default:
			others = append(others, l)
		}
	}
	return mine, others
}

func goEnv() []string {
	drop := map[string]bool{"GOFLAGS": true, "GOPROXY": true, "GOSUMDB": true, "GOTOOLCHAIN": true}
	var env []string
	for _, kv := range os.Environ() {
		if i := strings.IndexByte(kv, '='); i > 0 && drop[kv[:i]] {
			continue
		}
		env = append(env, kv)
	}
	return append(env, "GOFLAGS=-mod=mod", "GOPROXY=off", "GOSUMDB=off", "GOTOOLCHAIN=local")
}

var (
	buildOnce sync.Once
	ogenBin   string
	buildErr  error
)

// ogen builds cmd/ogen from $VERIF_REPO once per process. go.mod/go.sum are
// used through scratch copies (-modfile) so that the build cannot rewrite them.
func ogen(t testing.TB) string {
	buildOnce.Do(func() {
		mods := filepath.Join(scratch, "mod")
		_ = os.MkdirAll(mods, 0o755)
		for _, fn := range []string{"go.mod", "go.sum"} {
			b, err := os.ReadFile(filepath.Join(repo, fn))
			if err != nil {
				if fn == "go.mod" {
					buildErr = err
					return
				}
				continue
			}
			if err := os.WriteFile(filepath.Join(mods, fn), b, 0o644); err != nil {
				buildErr = err
				return
			}
		}
		ogenBin = filepath.Join(scratch, "bin", "ogen")
		_ = os.MkdirAll(filepath.Dir(ogenBin), 0o755)
		cmd := exec.Command("go", "build", "-buildvcs=false", "-modfile="+filepath.Join(mods, "go.mod"), "-o", ogenBin, "./cmd/ogen")
		cmd.Dir = repo
		cmd.Env = goEnv()
		if out, err := cmd.CombinedOutput(); err != nil {
			buildErr = fmt.Errorf("go build ./cmd/ogen in %s: %v\n%s", repo, err, out)
		}
	})
	if buildErr != nil {
		t.Fatalf("cannot build cmd/ogen: %v", buildErr)
	}
	return ogenBin
}

// ---- the generator's own naming pattern ----------------------------------------
//
// Written from the documented convention (generated files are oas_*_gen.go /
// oas_*_gen_test.go, formerly openapi_*): prefix "oas" or "openapi", suffix
// "_gen.go" or "_gen_test.go", case-sensitive, whole base name.

var ownName = regexp.MustCompile(`^(oas|openapi).*_gen(_test)?\.go$`)

// ---- target-directory states ----------------------------------------------------

type entry struct {
	Path string `json:"path"`           // slash-separated, relative to the target
	Kind string `json:"kind"`           // file | dir | symlink
	Data string `json:"data,omitempty"` // file content
	Mode uint32 `json:"mode,omitempty"` // permission bits (0 = 0644 / 0755)
	Link string `json:"link,omitempty"` // symlink target; "$ROOT" is replaced by the run's root
}

type state struct {
	Name       string  `json:"name"`
	Absent     bool    `json:"absent,omitempty"`
	PrevGen    bool    `json:"prev_gen,omitempty"`    // the files of a previous successful generation
	ViaSymlink bool    `json:"via_symlink,omitempty"` // --target names a symlink to the real directory
	TargetMode uint32  `json:"target_mode,omitempty"` // permission bits of the target itself
	Entries    []entry `json:"entries,omitempty"`
}

func (s state) hash() string {
	b, _ := json.Marshal(s)
	h := sha256.Sum256(b)
	return hex.EncodeToString(h[:8])
}

func (s state) nonEmpty() bool { return !s.Absent && (s.PrevGen || len(s.Entries) > 0) }

func (s state) hasReadOnly() bool {
	if s.TargetMode != 0 && s.TargetMode&0o200 == 0 {
		return true
	}
	for _, e := range s.Entries {
		if e.Mode != 0 && e.Mode&0o200 == 0 {
			return true
		}
	}
	return false
}

const validSpec = `openapi: 3.0.3
info:
  title: t
  version: "1"
paths:
  /pets/{id}:
    get:
      operationId: getPet
      parameters:
        - name: id
          in: path
          required: true
          schema:
            type: integer
      responses:
        "200":
          description: ok
          content:
            application/json:
              schema:
                $ref: "#/components/schemas/Pet"
components:
  schemas:
    Pet:
      type: object
      required: [name]
      properties:
        name:
          type: string
          minLength: 1
        tag:
          type: string
          default: x
`

var (
	prevOnce  sync.Once
	prevFiles map[string][]byte // what a successful run on validSpec writes
	prevErr   error
)

func prevGen(t testing.TB) map[string][]byte {
	bin := ogen(t)
	prevOnce.Do(func() {
		root := filepath.Join(scratch, "prevgen")
		_ = os.MkdirAll(filepath.Join(root, "cwd"), 0o755)
		if err := os.WriteFile(filepath.Join(root, "cwd", "ok.yaml"), []byte(validSpec), 0o644); err != nil {
			prevErr = err
			return
		}
		cmd := exec.Command(bin, "--target", filepath.Join(root, "target"), "ok.yaml")
		cmd.Dir = filepath.Join(root, "cwd")
		cmd.Env = goEnv()
		if out, err := cmd.CombinedOutput(); err != nil {
			prevErr = fmt.Errorf("the valid spec does not generate: %v\n%s", err, out)
			return
		}
		prevFiles = map[string][]byte{}
		ents, _ := os.ReadDir(filepath.Join(root, "target"))
		for _, e := range ents {
			b, err := os.ReadFile(filepath.Join(root, "target", e.Name()))
			if err == nil {
				prevFiles[e.Name()] = b
			}
		}
		if len(prevFiles) == 0 {
			prevErr = fmt.Errorf("the valid spec generated no files")
		}
	})
	if prevErr != nil {
		t.Fatalf("previous generation: %v", prevErr)
	}
	return prevFiles
}

// names that look like generator output but are not (user files) …
var lookAlikes = []string{
	"oas.go", "oas_gen.go.bak", "myoas_schemas_gen.go", "openapi.yaml", "OAS_x_gen.go", "Oas_x_gen.go",
	"oas_x_GEN.go", "oas_x_gen.txt", "oas_x_gen.goo", "oas_x_gen_test.go.orig", "oa_x_gen.go", "openap_x_gen.go",
	"o_gen.go", "orders_gen.go", "api_gen.go", "oas_x_test.go", "oas_xgen.go", "oas_x_gen", ".oas_x_gen.go",
	"oas_x_gen.go~", " oas_x_gen.go", "oas_x_gen.go ", "main.go", "notes.txt", "README.md", "go.mod", "OPENAPI_x_gen.go",
	"oas_x_gen.GO", "oas_x_gen_test.goo", "xoas_x_gen_test.go",
}

// … and names inside the generator's namespace (may be removed by --clean)
var ownNames = []string{
	"oas_x_gen_test.go", "oas_gen.go", "openapi_custom_gen.go", "oas_stale_gen.go", "openapi_gen_test.go",
	"oasis_gen.go", "oas_schemas_gen.go", "oas_cfg_gen.go", "openapi_old_gen.go",
}

func file(p, data string) entry { return entry{Path: p, Kind: "file", Data: data} }
func dir(p string) entry        { return entry{Path: p, Kind: "dir"} }
func link(p, to string) entry   { return entry{Path: p, Kind: "symlink", Link: to} }

func fixedStates() []state {
	var look, own []entry
	for _, n := range lookAlikes {
		look = append(look, file(n, "user file "+n+"\n"))
	}
	for _, n := range []string{"oas_x_gen_test.go", "oas_gen.go", "openapi_custom_gen.go", "oasis_gen.go"} {
		own = append(own, file(n, "// in the generator's namespace: "+n+"\npackage api\n"))
	}
	nested := []entry{
		dir("sub"), file("sub/user.go", "package sub\n"), file("sub/oas_nested_gen.go", "package sub\n"),
		dir("sub/deep"), file("sub/deep/oas_deep_gen_test.go", "package deep\n"),
		dir("oas_dir_gen.go"), file("oas_dir_gen.go/oas_inner_gen.go", "package inner\n"), file("oas_dir_gen.go/user.txt", "keep\n"),
		dir("oas_empty_gen.go"), dir("openapi_pkg_gen_test.go"), file("openapi_pkg_gen_test.go/x", "x\n"),
		dir("internal"), dir("internal/oas"), file("internal/oas/oas_faker_gen.go", "package oas\n"),
	}
	links := []entry{
		file("notes.txt", "user notes\n"),
		link("link_in", "notes.txt"), link("oas_link_gen.go", "../outside/user.txt"),
		link("oas_abs_gen_test.go", "$ROOT/outside/other.txt"),
		link("oas_dirlink_gen.go", "../outside/dir"), link("dangling", "missing"),
		link("oas_dangling_gen.go", "../outside/missing"), link("dirlink", "../outside/dir"),
		link("oas_inside_gen.go", "notes.txt"), link("selfdir", "."),
	}
	ro := []entry{
		{Path: "oas_ro_gen.go", Kind: "file", Data: "package api\n", Mode: 0o444},
		{Path: "user_ro.txt", Kind: "file", Data: "read only\n", Mode: 0o400},
		{Path: "oas_schemas_gen.go", Kind: "file", Data: "package stale\n", Mode: 0o444},
		{Path: "rodir", Kind: "dir", Mode: 0o555}, {Path: "rodir/oas_in_ro_gen.go", Kind: "file", Data: "x\n", Mode: 0o444},
	}
	stale := []entry{file("oas_stale_gen.go", "// Code generated by ogen, DO NOT EDIT.\n\npackage api\n"), file("openapi_old_gen.go", "package api\n")}
	cat := func(l ...[]entry) (r []entry) {
		for _, x := range l {
			r = append(r, x...)
		}
		return
	}
	return []state{
		{Name: "absent", Absent: true},
		{Name: "empty"},
		{Name: "prev-gen", PrevGen: true},
		{Name: "prev-gen+stale", PrevGen: true, Entries: stale},
		{Name: "look-alikes", Entries: cat(look, own)},
		{Name: "prev-gen+look-alikes", PrevGen: true, Entries: cat(look, own, stale)},
		{Name: "nested-dirs", PrevGen: true, Entries: cat(nested, stale)},
		{Name: "symlinks", PrevGen: true, Entries: cat(links, stale)},
		{Name: "read-only", Entries: cat(ro, stale), TargetMode: 0o555},
		{Name: "via-symlink", ViaSymlink: true, PrevGen: true, Entries: cat(look[:6], own, stale, nested[:3])},
		{Name: "output-name-is-symlink", Entries: []entry{file("notes.txt", "user notes\n"), link("oas_cfg_gen.go", "../outside/user.txt"), link("oas_json_gen.go", "notes.txt"), link("oas_router_gen.go", "../outside/new-by-link")}},
		{Name: "output-name-is-dir", PrevGen: false, Entries: []entry{dir("oas_cfg_gen.go"), file("oas_cfg_gen.go/keep.txt", "keep\n"), file("oas_stale_gen.go", "x\n")}},
		{Name: "everything", PrevGen: true, Entries: cat(look, own, nested, links[1:], ro[:2], stale)},
	}
}

func drawState(t *rapid.T) state {
	var s state
	s.Name = "random"
	switch rapid.IntRange(0, 19).Draw(t, "shape") {
	case 0:
		s.Absent = true
		return s
	case 1:
		return s // empty
	}
	s.PrevGen = rapid.IntRange(0, 2).Draw(t, "prevgen") > 0
	s.ViaSymlink = rapid.IntRange(0, 7).Draw(t, "viasymlink") == 0
	if rapid.IntRange(0, 9).Draw(t, "tmode") == 0 {
		s.TargetMode = 0o555
	}
	names := append(append([]string{}, lookAlikes...), ownNames...)
	dirs := []string{"", "", "", "sub/", "oas_dir_gen.go/", "sub/deep/", "openapi_pkg_gen_test.go/"}
	used := map[string]string{} // path -> kind
	need := func(d string) {
		// make sure parent directories exist as entries
		d = strings.TrimSuffix(d, "/")
		if d == "" {
			return
		}
		parts := strings.Split(d, "/")
		for i := range parts {
			p := strings.Join(parts[:i+1], "/")
			if used[p] == "" {
				used[p] = "dir"
				s.Entries = append(s.Entries, dir(p))
			}
		}
	}
	n := rapid.IntRange(0, 14).Draw(t, "n")
	for i := 0; i < n; i++ {
		d := rapid.SampledFrom(dirs).Draw(t, "dir")
		if k, ok := used[strings.TrimSuffix(d, "/")]; ok && k != "dir" {
			continue
		}
		kind := rapid.IntRange(0, 9).Draw(t, "kind")
		var name string
		if rapid.IntRange(0, 5).Draw(t, "fresh") == 0 {
			// a fresh name built from the pattern's pieces
			name = rapid.SampledFrom([]string{"oas", "openapi", "oa", "Oas", "o", "my_oas", ""}).Draw(t, "pre") +
				rapid.SampledFrom([]string{"_", "", "_a_", "_schemas_", "."}).Draw(t, "mid") +
				rapid.SampledFrom([]string{"gen.go", "gen_test.go", "_gen.go", "_gen_test.go", "gen.go.bak", "Gen.go", "_gen.goo", "_gen_test.go~"}).Draw(t, "suf")
		} else {
			name = rapid.SampledFrom(names).Draw(t, "name")
		}
		p := d + name
		if used[p] != "" {
			continue
		}
		need(d)
		switch {
		case kind <= 5:
			e := file(p, rapid.SampledFrom([]string{"", "package api\n", "user data\n", "// Code generated by ogen, DO NOT EDIT.\n\npackage api\n"}).Draw(t, "data"))
			if rapid.IntRange(0, 5).Draw(t, "ro") == 0 {
				e.Mode = 0o444
			}
			used[p] = "file"
			s.Entries = append(s.Entries, e)
		case kind <= 7:
			used[p] = "dir"
			e := dir(p)
			if rapid.IntRange(0, 5).Draw(t, "rodir") == 0 {
				e.Mode = 0o555
			}
			s.Entries = append(s.Entries, e)
			if rapid.Bool().Draw(t, "fill") {
				q := p + "/" + rapid.SampledFrom([]string{"oas_inner_gen.go", "keep.txt", "oas_x_gen_test.go"}).Draw(t, "inner")
				used[q] = "file"
				s.Entries = append(s.Entries, file(q, "inner\n"))
			}
		default:
			used[p] = "symlink"
			up := strings.Repeat("../", strings.Count(d, "/"))
			to := rapid.SampledFrom([]string{
				up + "notes.txt", up + "../outside/user.txt", up + "../outside/dir", up + "../outside/missing",
				"missing", "$ROOT/outside/other.txt", up + "sub", ".", up + "main.go",
			}).Draw(t, "to")
			s.Entries = append(s.Entries, link(p, to))
		}
	}
	return s
}

// ---- one run ---------------------------------------------------------------------

type snapEntry struct {
	Type  string // dir | file | symlink | other
	Mode  fs.FileMode
	Size  int64
	Sum   string
	Link  string
	Mtime int64
}

type snapshot map[string]snapEntry

func takeSnapshot(root string) (snapshot, error) {
	snap := snapshot{}
	err := filepath.WalkDir(root, func(p string, d fs.DirEntry, err error) error {
		if err != nil {
			return err
		}
		rel, _ := filepath.Rel(root, p)
		rel = filepath.ToSlash(rel)
		if rel == "." {
			return nil
		}
		fi, err := os.Lstat(p)
		if err != nil {
			return err
		}
		e := snapEntry{Mode: fi.Mode() & (fs.ModePerm | fs.ModeSetuid | fs.ModeSetgid | fs.ModeSticky), Mtime: fi.ModTime().UnixNano()}
		switch {
		case fi.IsDir():
			e.Type = "dir"
		case fi.Mode()&fs.ModeSymlink != 0:
			e.Type = "symlink"
			e.Link, _ = os.Readlink(p)
		case fi.Mode().IsRegular():
			e.Type = "file"
			e.Size = fi.Size()
			f, err := os.Open(p)
			if err != nil {
				return err
			}
			h := sha256.New()
			_, err = io.Copy(h, f)
			f.Close()
			if err != nil {
				return err
			}
			e.Sum = hex.EncodeToString(h.Sum(nil))
		default:
			e.Type = "other"
		}
		snap[rel] = e
		return nil
	})
	return snap, err
}

type diff struct {
	Removed  []string
	Created  []string
	Modified []string // type, mode, size, content or link target changed (and mtime, when strict)
}

func (d diff) empty() bool { return len(d.Removed)+len(d.Created)+len(d.Modified) == 0 }

func (d diff) String() string {
	clip := func(l []string) string {
		if len(l) > 8 {
			return strings.Join(l[:8], ", ") + fmt.Sprintf(", … %d more", len(l)-8)
		}
		return strings.Join(l, ", ")
	}
	return fmt.Sprintf("removed=[%s] created=[%s] modified=[%s]", clip(d.Removed), clip(d.Created), clip(d.Modified))
}

func compare(before, after snapshot, strict bool) diff {
	var d diff
	for p, b := range before {
		a, ok := after[p]
		if !ok {
			d.Removed = append(d.Removed, p)
			continue
		}
		same := a.Type == b.Type && a.Mode == b.Mode && a.Size == b.Size && a.Sum == b.Sum && a.Link == b.Link
		if strict && a.Mtime != b.Mtime {
			same = false
		}
		if !same {
			d.Modified = append(d.Modified, p)
		}
	}
	for p := range after {
		if _, ok := before[p]; !ok {
			d.Created = append(d.Created, p)
		}
	}
	sort.Strings(d.Removed)
	sort.Strings(d.Created)
	sort.Strings(d.Modified)
	return d
}

var runSeq atomic.Int64

type world struct {
	root string
	tdir string // name (relative to root) of the directory that holds the state: "target" or "real"
}

func makeWritable(root string) {
	_ = filepath.WalkDir(root, func(p string, d fs.DirEntry, err error) error {
		if err == nil && d.IsDir() {
			_ = os.Chmod(p, 0o755)
		}
		return nil
	})
}

func (w world) remove() {
	makeWritable(w.root)
	_ = os.RemoveAll(w.root)
}

// materialise builds root/{cwd,outside,blocker} and the target in the given state.
func materialise(s state, prev map[string][]byte, cwdFiles map[string]string, cwdDirs []string) (world, error) {
	w := world{root: filepath.Join(scratch, "runs", fmt.Sprintf("r%d", runSeq.Add(1))), tdir: "target"}
	if s.ViaSymlink {
		w.tdir = "real"
	}
	must := func(err error) {
		if err != nil {
			panic(err)
		}
	}
	var err error
	func() {
		defer func() {
			if r := recover(); r != nil {
				err = fmt.Errorf("materialise: %v", r)
			}
		}()
		must(os.MkdirAll(filepath.Join(w.root, "cwd"), 0o755))
		must(os.MkdirAll(filepath.Join(w.root, "outside", "dir"), 0o755))
		must(os.WriteFile(filepath.Join(w.root, "outside", "user.txt"), []byte("user file outside the target\n"), 0o644))
		must(os.WriteFile(filepath.Join(w.root, "outside", "other.txt"), []byte("another user file outside the target\n"), 0o644))
		must(os.WriteFile(filepath.Join(w.root, "outside", "dir", "inner.txt"), []byte("inner\n"), 0o644))
		must(os.WriteFile(filepath.Join(w.root, "blocker"), []byte("a regular file\n"), 0o644))
		for _, d := range cwdDirs {
			must(os.MkdirAll(filepath.Join(w.root, "cwd", d), 0o755))
		}
		for n, c := range cwdFiles {
			must(os.WriteFile(filepath.Join(w.root, "cwd", n), []byte(c), 0o644))
		}
		if s.Absent {
			return
		}
		t := filepath.Join(w.root, w.tdir)
		must(os.MkdirAll(t, 0o755))
		if s.ViaSymlink {
			must(os.Symlink("real", filepath.Join(w.root, "target")))
		}
		if s.PrevGen {
			for n, b := range prev {
				must(os.WriteFile(filepath.Join(t, n), b, 0o644))
			}
		}
		type chmod struct {
			p string
			m fs.FileMode
		}
		var later []chmod
		for _, e := range s.Entries {
			p := filepath.Join(t, filepath.FromSlash(e.Path))
			switch e.Kind {
			case "dir":
				if fi, err := os.Lstat(p); err == nil && !fi.IsDir() {
					must(os.Remove(p)) // takes the place of a file of the previous generation
				}
				must(os.MkdirAll(p, 0o755))
				if e.Mode != 0 {
					later = append(later, chmod{p, fs.FileMode(e.Mode)})
				}
			case "symlink":
				_ = os.Remove(p)
				must(os.Symlink(strings.ReplaceAll(e.Link, "$ROOT", w.root), p))
			default:
				_ = os.Remove(p)
				must(os.WriteFile(p, []byte(e.Data), 0o644))
				if e.Mode != 0 {
					must(os.Chmod(p, fs.FileMode(e.Mode)))
				}
			}
		}
		// directories become read-only after their content exists (deepest first)
		for i := len(later) - 1; i >= 0; i-- {
			must(os.Chmod(later[i].p, later[i].m))
		}
		if s.TargetMode != 0 {
			must(os.Chmod(t, fs.FileMode(s.TargetMode)))
		}
	}()
	return w, err
}

type runResult struct {
	Exit   int
	Stderr string
	Before snapshot
	After  snapshot
}

func execOgen(bin string, w world, args []string) (runResult, error) {
	var r runResult
	var err error
	if r.Before, err = takeSnapshot(w.root); err != nil {
		return r, err
	}
	ctx, cancel := context.WithTimeout(context.Background(), 5*time.Minute)
	defer cancel()
	cmd := exec.CommandContext(ctx, bin, args...)
	cmd.Dir = filepath.Join(w.root, "cwd")
	cmd.Env = goEnv()
	var errb bytes.Buffer
	cmd.Stderr = &errb
	runErr := cmd.Run()
	r.Stderr = errb.String()
	if len(r.Stderr) > 1500 {
		r.Stderr = r.Stderr[:1500] + "…"
	}
	switch e := runErr.(type) {
	case nil:
	case *exec.ExitError:
		r.Exit = e.ExitCode()
		if r.Exit < 0 {
			return r, fmt.Errorf("ogen was killed: %v", runErr)
		}
	default:
		return r, runErr
	}
	r.After, err = takeSnapshot(w.root)
	return r, err
}

// ---- failure stages ------------------------------------------------------------------

type stage struct {
	Name   string
	Group  string            // flag | config | spec-read | spec-parse | spec-validation | not-implemented | ir-build | route-build | target-path
	Flags  []string          // placed after --target T [--clean]
	Pos    []string          // positional arguments (nil: none)
	Files  map[string]string // files in cwd
	Dirs   []string          // directories in cwd
	Target string            // overrides the --target value (relative to root)
	Expect bool              // reading the code / the OpenAPI rules says this must fail (evidence only)
}

const specHead = "openapi: 3.0.3\ninfo: {title: t, version: \"1\"}\n"
const okResp = "      responses:\n        \"200\": {description: ok}\n"

func specStage(name, group, file, content string, expect bool) stage {
	return stage{Name: name, Group: group, Pos: []string{file}, Files: map[string]string{file: content}, Expect: expect}
}

func cfgStage(name, content string) stage {
	return stage{Name: name, Group: "config", Flags: []string{"--config", "cfg.yml"}, Pos: []string{"ok.yaml"},
		Files: map[string]string{"ok.yaml": validSpec, "cfg.yml": content}, Expect: true}
}

func stages() []stage {
	ok := map[string]string{"ok.yaml": validSpec}
	okPos := []string{"ok.yaml"}
	pathParam := func(n, typ string) string {
		return fmt.Sprintf("{name: %s, in: path, required: true, schema: {type: %s}}", n, typ)
	}
	return []stage{
		// flag stage (package flag, flag.ExitOnError => exit 2)
		{Name: "flag-unknown", Group: "flag", Flags: []string{"--nope"}, Pos: okPos, Files: ok, Expect: true},
		{Name: "flag-bad-bool", Group: "flag", Flags: []string{"--clean=maybe"}, Pos: okPos, Files: ok, Expect: true},
		{Name: "flag-bad-loglevel", Group: "flag", Flags: []string{"--loglevel", "bogus"}, Pos: okPos, Files: ok, Expect: true},
		{Name: "flag-bad-int", Group: "flag", Flags: []string{"--memprofilerate", "x"}, Pos: okPos, Files: ok, Expect: true},
		{Name: "flag-missing-value", Group: "flag", Flags: []string{"--config"}, Files: ok, Expect: true},
		{Name: "spec-arg-missing", Group: "flag", Files: ok, Expect: true},
		{Name: "spec-arg-empty", Group: "flag", Pos: []string{""}, Files: ok, Expect: true},
		{Name: "cpuprofile-unwritable", Group: "flag", Flags: []string{"--cpuprofile", "no-such-dir/cpu.prof"}, Pos: okPos, Files: ok, Expect: true},
		// config stage
		{Name: "config-missing", Group: "config", Flags: []string{"--config", "nope.yml"}, Pos: okPos, Files: ok, Expect: true},
		{Name: "config-is-directory", Group: "config", Flags: []string{"--config", "cfgdir"}, Pos: okPos, Files: ok, Dirs: []string{"cfgdir"}, Expect: true},
		cfgStage("config-invalid-yaml", "generator: [\n"),
		cfgStage("config-empty", ""),
		cfgStage("config-unknown-key", "generatr:\n  x: 1\n"),
		cfgStage("config-unknown-nested-key", "generator:\n  featurs: {}\n"),
		cfgStage("config-wrong-type", "generator: 5\n"),
		cfgStage("config-unknown-feature", "generator:\n  features:\n    enable: [\"nope/feature\"]\n"),
		cfgStage("config-unknown-feature-disabled", "generator:\n  features:\n    disable: [\"nope/feature\"]\n"),
		cfgStage("config-bad-convenient-errors", "generator:\n  convenient_errors: maybe\n"),
		cfgStage("config-bad-filter-regex", "generator:\n  filters:\n    path_regex: \"(\"\n"),
		{Name: "config-autodiscovered-invalid", Group: "config", Pos: okPos, Files: map[string]string{"ok.yaml": validSpec, "ogen.yml": "generator: [\n"}, Expect: true},
		// spec read
		{Name: "spec-missing", Group: "spec-read", Pos: []string{"nope.yaml"}, Expect: true},
		{Name: "spec-is-directory", Group: "spec-read", Pos: []string{"specdir"}, Dirs: []string{"specdir"}, Expect: true},
		{Name: "spec-unsupported-scheme", Group: "spec-read", Pos: []string{"ftp://example.invalid/spec.yaml"}, Expect: true},
		// YAML / JSON parse
		specStage("spec-empty", "spec-parse", "empty.yaml", "", true),
		specStage("spec-malformed-yaml", "spec-parse", "bad.yaml", "openapi: \"3.0.3\"\ninfo: [\n", true),
		specStage("spec-malformed-json", "spec-parse", "bad.json", `{"openapi":"3.0.3","info":{`, true),
		specStage("spec-not-a-mapping", "spec-parse", "list.yaml", "- a\n- b\n", true),
		// spec validation
		specStage("spec-swagger2", "spec-validation", "sw.yaml", "swagger: \"2.0\"\ninfo: {title: t, version: \"1\"}\npaths: {}\n", true),
		specStage("spec-no-info", "spec-validation", "noinfo.yaml", "openapi: 3.0.3\npaths: {}\n", false),
		specStage("spec-bad-type", "spec-validation", "badtype.yaml", specHead+"paths: {}\ncomponents:\n  schemas:\n    A: {type: strin}\n", true),
		specStage("spec-dangling-ref", "spec-validation", "badref.yaml", specHead+"paths: {}\ncomponents:\n  schemas:\n    A: {$ref: \"#/components/schemas/Nope\"}\n", true),
		specStage("spec-external-ref-disabled", "spec-validation", "extref.yaml", specHead+"paths: {}\ncomponents:\n  schemas:\n    A: {$ref: \"other.yaml#/X\"}\n", true),
		specStage("spec-no-responses", "spec-validation", "noresp.yaml", specHead+"paths:\n  /a:\n    get:\n      responses: {}\n", true),
		specStage("spec-duplicate-operation-id", "spec-validation", "dupop.yaml", specHead+"paths:\n  /a:\n    get:\n      operationId: x\n"+okResp+"  /b:\n    get:\n      operationId: x\n"+okResp, true),
		specStage("spec-path-param-undeclared", "spec-validation", "noparam.yaml", specHead+"paths:\n  /a/{x}:\n    get:\n"+okResp, true),
		specStage("spec-bad-path-escape", "spec-validation", "pct.yaml", specHead+"paths:\n  /a%2:\n    get:\n"+okResp, true),
		// not-implemented features without ignore_not_implemented
		specStage("notimpl-sum-type-parameter", "not-implemented", "sump.yaml", specHead+"paths:\n  /a:\n    get:\n      parameters:\n        - name: q\n          in: query\n          schema: {oneOf: [{type: string}, {type: integer}]}\n"+okResp, true),
		specStage("notimpl-http-digest-security", "not-implemented", "digest.yaml", specHead+"paths:\n  /a:\n    get:\n      security: [{d: []}]\n"+okResp+"components:\n  securitySchemes:\n    d: {type: http, scheme: digest}\n", true),
		specStage("notimpl-discriminator-inference", "not-implemented", "sum.yaml", specHead+"paths:\n  /a:\n    get:\n      responses:\n        \"200\":\n          description: ok\n          content:\n            application/json:\n              schema:\n                oneOf:\n                  - {type: object, properties: {a: {type: string}}}\n                  - {type: object, properties: {a: {type: string}}}\n", true),
		specStage("notimpl-xml-request-body", "not-implemented", "xml.yaml", specHead+"paths:\n  /a:\n    post:\n      requestBody:\n        content:\n          application/xml:\n            schema: {type: string}\n"+okResp, false),
		// IR build
		specStage("ir-anonymous-type-name-conflict", "ir-build", "opconf.yaml", specHead+"paths:\n  /a:\n    get:\n      operationId: foo\n"+okResp+"  /b:\n    get:\n      operationId: Foo\n"+okResp, true),
		specStage("ir-component-vs-inline-name", "ir-build", "tconf.yaml", specHead+"paths:\n  /a:\n    get:\n      operationId: getPet\n      responses:\n        \"200\":\n          description: ok\n          content:\n            application/json:\n              schema: {type: object, properties: {a: {type: string}}}\ncomponents:\n  schemas:\n    GetPetOK: {type: object, properties: {b: {type: integer}}}\n", false),
		// route build
		specStage("route-duplicate-path", "route-build", "rdup.yaml", specHead+"paths:\n  /a/{x}:\n    get:\n      parameters: ["+pathParam("x", "string")+"]\n"+okResp+"  /a/{y}:\n    get:\n      parameters: ["+pathParam("y", "string")+"]\n"+okResp, true),
		specStage("route-duplicate-path-escaped", "route-build", "rdup2.yaml", specHead+"paths:\n  /a/b:\n    get:\n"+okResp+"  /a/%62:\n    get:\n"+okResp, true),
		specStage("route-adjacent-parameters", "route-build", "radj.yaml", specHead+"paths:\n  /a/{x}{y}:\n    get:\n      parameters: ["+pathParam("x", "string")+","+pathParam("y", "string")+"]\n"+okResp, true),
		// failures under the diagnostic flags (profiles are written into cwd, never into the target)
		{Name: "memprofile+spec-malformed", Group: "spec-parse", Flags: []string{"--memprofile", "mem.prof"}, Pos: []string{"bad.yaml"},
			Files: map[string]string{"bad.yaml": "openapi: \"3.0.3\"\ninfo: [\n"}, Expect: true},
		{Name: "memprofile+rate+route-conflict", Group: "route-build", Flags: []string{"--memprofile", "mem.prof", "--memprofilerate", "4096"}, Pos: []string{"radj.yaml"},
			Files: map[string]string{"radj.yaml": specHead + "paths:\n  /a/{x}{y}:\n    get:\n      parameters: [" + pathParam("x", "string") + "," + pathParam("y", "string") + "]\n" + okResp}, Expect: true},
		{Name: "cpuprofile+ir-conflict", Group: "ir-build", Flags: []string{"--cpuprofile", "cpu.prof"}, Pos: []string{"opconf.yaml"},
			Files: map[string]string{"opconf.yaml": specHead + "paths:\n  /a:\n    get:\n      operationId: foo\n" + okResp + "  /b:\n    get:\n      operationId: Foo\n" + okResp}, Expect: true},
		{Name: "verbose+debug-log+spec-dangling-ref", Group: "spec-validation", Flags: []string{"-v", "--loglevel", "debug"}, Pos: []string{"badref.yaml"},
			Files: map[string]string{"badref.yaml": specHead + "paths: {}\ncomponents:\n  schemas:\n    A: {$ref: \"#/components/schemas/Nope\"}\n"}, Expect: true},
		{Name: "memprofile+config-missing", Group: "config", Flags: []string{"--memprofile", "mem.prof", "--config", "nope.yml"}, Pos: okPos, Files: ok, Expect: true},
		// the configuration asks for the expanded document to be written INTO the target; generation fails later
		{Name: "expand-into-target-then-route-conflict", Group: "route-build", Flags: []string{"--config", "cfg.yml"}, Pos: []string{"radj.yaml"},
			Files: map[string]string{"cfg.yml": "expand: ../target/openapi_expanded.yml\n",
				"radj.yaml": specHead + "paths:\n  /a/{x}{y}:\n    get:\n      parameters: [" + pathParam("x", "string") + "," + pathParam("y", "string") + "]\n" + okResp}, Expect: true},
		{Name: "expand-into-target-then-ir-conflict", Group: "ir-build", Flags: []string{"--config", "cfg.yml"}, Pos: []string{"opconf.yaml"},
			Files: map[string]string{"cfg.yml": "expand: ../target/openapi_expanded.yml\n",
				"opconf.yaml": specHead + "paths:\n  /a:\n    get:\n      operationId: foo\n" + okResp + "  /b:\n    get:\n      operationId: Foo\n" + okResp}, Expect: true},
		// after the IR was built, before anything is written: the target path cannot be listed
		{Name: "target-is-regular-file", Group: "target-path", Pos: okPos, Files: ok, Target: "blocker", Expect: true},
		{Name: "target-below-regular-file", Group: "target-path", Pos: okPos, Files: ok, Target: "blocker/sub", Expect: true},
	}
}

func targetArg(w world, rel bool, override string) string {
	name := "target"
	if override != "" {
		name = override
	}
	if rel {
		return "../" + name
	}
	return filepath.Join(w.root, name)
}

func (st stage) args(w world, clean, rel bool) []string {
	args := []string{"--target", targetArg(w, rel, st.Target)}
	if clean {
		args = append(args, "--clean")
	}
	args = append(args, st.Flags...)
	return append(args, st.Pos...)
}

// calibration: a stage is a failure stage only if ogen really fails on it
// (the property is conditional on failing). Target absent, no --clean.
var (
	calOnce  sync.Once
	calFails map[string]bool
	calErr   error
)

func calibrate(t testing.TB) map[string]bool {
	bin := ogen(t)
	calOnce.Do(func() {
		calFails = map[string]bool{}
		var mu sync.Mutex
		parallel(len(stages()), func(i int) {
			st := stages()[i]
			w, err := materialise(state{Absent: true}, nil, st.Files, st.Dirs)
			if err == nil {
				var r runResult
				r, err = execOgen(bin, w, st.args(w, false, false))
				mu.Lock()
				calFails[st.Name] = r.Exit != 0
				mu.Unlock()
			}
			w.remove()
			if err != nil {
				mu.Lock()
				calErr = err
				mu.Unlock()
			}
		})
	})
	if calErr != nil {
		t.Fatalf("calibration: %v", calErr)
	}
	return calFails
}

func parallel(n int, fn func(i int)) {
	workers := runtime.GOMAXPROCS(0)
	if workers > 16 {
		workers = 16
	}
	if workers > n {
		workers = n
	}
	var wg sync.WaitGroup
	var next atomic.Int64
	for w := 0; w < workers; w++ {
		wg.Add(1)
		go func() {
			defer wg.Done()
			for {
				i := int(next.Add(1)) - 1
				if i >= n {
					return
				}
				fn(i)
			}
		}()
	}
	wg.Wait()
}

type fcase struct {
	State state `json:"state"`
	Clean bool  `json:"clean"`
	Rel   bool  `json:"rel"` // --target given relative to cwd
}

func underTarget(w world, p string) bool {
	return p == "target" || strings.HasPrefix(p, "target/") || p == w.tdir || strings.HasPrefix(p, w.tdir+"/")
}

// checkFailureStage is the oracle of clause 1 for one (stage, state, clean).
func checkFailureStage(bin string, prev map[string][]byte, st stage, c fcase) *vk.Finding {
	w, err := materialise(c.State, prev, st.Files, st.Dirs)
	defer w.remove()
	if err != nil {
		return vk.F("harness-materialise", "%v", err)
	}
	args := st.args(w, c.Clean, c.Rel)
	r, err := execOgen(bin, w, args)
	if err != nil {
		return vk.F("harness-run", "stage %s: %v", st.Name, err)
	}
	desc := fmt.Sprintf("stage %s [%s] state %s(%s) clean=%v: ogen %s", st.Name, st.Group, c.State.Name, c.State.hash(), c.Clean, strings.Join(args, " "))
	if r.Exit == 0 {
		return vk.F("failure-stage-exit-zero", "%s exited 0 although the same stage fails on an absent target", desc)
	}
	d := compare(r.Before, r.After, true)
	if d.empty() {
		return nil
	}
	var tgt, stray diff
	// files the caller asked for by name (--memprofile / --cpuprofile <file>) and the directory they are
	// created in are no stray files
	asked := map[string]bool{}
	for i, f := range st.Flags {
		if (f == "--memprofile" || f == "--cpuprofile") && i+1 < len(st.Flags) {
			asked["cwd/"+st.Flags[i+1]] = true
			asked["cwd"] = true
		}
	}
	split := func(in []string, a, b *[]string) {
		for _, p := range in {
			if asked[p] {
				continue
			}
			if underTarget(w, p) {
				*a = append(*a, p)
			} else {
				*b = append(*b, p)
			}
		}
	}
	split(d.Removed, &tgt.Removed, &stray.Removed)
	split(d.Created, &tgt.Created, &stray.Created)
	split(d.Modified, &tgt.Modified, &stray.Modified)
	tailMsg := fmt.Sprintf("exit %d; %s\nstderr: %s", r.Exit, d, firstLines(r.Stderr, 6))
	switch {
	case len(tgt.Removed)+len(tgt.Created)+len(tgt.Modified)+len(stray.Removed)+len(stray.Created)+len(stray.Modified) == 0:
		return nil
	case len(tgt.Removed) > 0:
		return vk.F("failure-removed-target-files", "%s failed before writing but entries of the target were removed: %s", desc, tailMsg)
	case c.State.Absent && len(tgt.Created) > 0:
		return vk.F("failure-created-target", "%s failed before writing but the absent target was created: %s", desc, tailMsg)
	case len(tgt.Created) > 0:
		return vk.F("failure-created-target-files", "%s failed before writing but entries were created in the target: %s", desc, tailMsg)
	case len(tgt.Modified) > 0:
		return vk.F("failure-modified-target", "%s failed before writing but entries of the target changed: %s", desc, tailMsg)
	default:
		return vk.F("failure-stray-files", "%s failed before writing but files outside the target changed (cwd / user files): %s", desc, tailMsg)
	}
}

func firstLines(s string, n int) string {
	var out []string
	for _, l := range strings.Split(s, "\n") {
		if strings.TrimSpace(l) == "" {
			continue
		}
		out = append(out, l)
		if len(out) == n {
			break
		}
	}
	return strings.Join(out, "\n")
}

// checkAllFailureStages crosses one (state, clean) with every failure stage.
func checkAllFailureStages(u *vk.Unit, t testing.TB, c fcase, count bool) *vk.Finding {
	bin := ogen(t)
	prev := prevGen(t)
	fails := calibrate(t)
	var sts []stage
	for _, st := range stages() {
		if fails[st.Name] {
			sts = append(sts, st)
		}
	}
	res := make([]*vk.Finding, len(sts))
	parallel(len(sts), func(i int) { res[i] = checkFailureStage(bin, prev, sts[i], c) })
	if count {
		u.Eval(len(sts) - 1) // vk counts the case once; every stage is one run of the binary
		h := c.State.hash()
		for _, st := range sts {
			u.Label("group:" + st.Group)
			if c.State.nonEmpty() {
				u.NonTrivial(fmt.Sprintf("%s|%s|%v", st.Name, h, c.Clean))
			}
		}
	}
	// deterministic: first finding in stage order; a harness problem is reported last
	var harness *vk.Finding
	for _, f := range res {
		if f == nil {
			continue
		}
		if strings.HasPrefix(f.Classifier, "harness-") {
			harness = f
			continue
		}
		return f
	}
	return harness
}

func labelState(u *vk.Unit, c fcase) {
	s := c.State
	switch {
	case s.Absent:
		u.Label("state:absent")
	case !s.nonEmpty():
		u.Label("state:empty")
	default:
		u.Label("state:non-empty")
	}
	if s.PrevGen {
		u.Label("state:has-previous-generation")
	}
	if s.ViaSymlink {
		u.Label("state:target-via-symlink")
	}
	if s.hasReadOnly() {
		u.Label("state:has-read-only")
	}
	var own, look, dirs, links, ownDir bool
	for _, e := range s.Entries {
		base := path.Base(e.Path)
		top := !strings.Contains(e.Path, "/")
		switch e.Kind {
		case "dir":
			dirs = true
			if top && ownName.MatchString(base) {
				ownDir = true
			}
		case "symlink":
			links = true
		}
		if top && e.Kind != "dir" {
			if ownName.MatchString(base) {
				own = true
			} else {
				look = true
			}
		}
	}
	for k, v := range map[string]bool{"state:has-own-named-entry": own, "state:has-user-file": look, "state:has-subdirectory": dirs,
		"state:has-symlink": links, "state:has-own-named-directory": ownDir} {
		if v {
			u.Label(k)
		}
	}
	if c.Clean {
		u.Label("clean:on")
	} else {
		u.Label("clean:off")
	}
	if c.Rel {
		u.Label("target:relative")
	} else {
		u.Label("target:absolute")
	}
}

// mustFailGroups: stage groups that the property's statement enumerates.
var mustFailGroups = map[string]bool{"config": true, "spec-read": true, "spec-parse": true, "route-build": true}

func TestFailureStages(t *testing.T) {
	u := vk.New(t, "C20", "failure-stages")
	defer u.Close()
	if !vk.InReplay() {
		fails := calibrate(t)
		var table []map[string]any
		nf := 0
		first, _ := vk.Shard()
		for _, st := range stages() {
			table = append(table, map[string]any{"stage": st.Name, "group": st.Group, "fails": fails[st.Name], "expected_to_fail": st.Expect})
			if fails[st.Name] {
				nf++
			} else if first == 0 {
				u.Note("not a failure stage: %s [%s] exits 0 on this tree (expected to fail: %v) — not crossed with target states", st.Name, st.Group, st.Expect)
				u.Label("not-a-failure-stage")
			}
			if fails[st.Name] != st.Expect && first == 0 {
				u.Label("stage-calibration-differs-from-expectation:" + st.Name)
			}
			// the stages the property itself names (unreadable or invalid config; unreadable or malformed
			// spec; routing conflict) are failures BY the property: "it exits non-zero"

		}
		u.Set("stages", table)
		u.Set("failing_stages", nf)
		if nf == 0 {
			t.Fatalf("no stage fails: the enumeration is empty")
		}
		if os.Geteuid() == 0 && first == 0 {
			u.Note("running as root: read-only modes do not block writes, so the read-only cells are executed but cannot discriminate")
		}
	}
	// enumerated part: the fixed states x clean, split over shards
	var fixed []fcase
	for i, s := range fixedStates() {
		for _, clean := range []bool{false, true} {
			fixed = append(fixed, fcase{State: s, Clean: clean, Rel: (i+btoi(clean))%3 == 0})
		}
	}
	shard, shards := vk.Shard()
	var mine []fcase
	for i, c := range fixed {
		if i%shards == shard {
			mine = append(mine, c)
		}
	}
	check := func(c fcase) *vk.Finding {
		labelState(u, c)
		if c.State.nonEmpty() {
			u.Sample(map[string]any{"state": c.State.Name, "hash": c.State.hash(), "entries": len(c.State.Entries), "prev_gen": c.State.PrevGen, "clean": c.Clean, "rel": c.Rel})
		}
		if c.State.Absent {
			// the stages the property itself names (unreadable or invalid config; unreadable or malformed
			// spec; routing conflict) are failures BY the property: "it exits non-zero"
			fails := calibrate(t)
			for _, st := range stages() {
				if st.Expect && !fails[st.Name] && mustFailGroups[st.Group] {
					return vk.F("named-failure-stage-exits-zero", "stage %s [%s] (flags %v): the command exits 0 on an absent target although the property names this condition as a failure before writing", st.Name, st.Group, st.Flags)
				}
			}
		}
		return checkAllFailureStages(u, t, c, true)
	}
	vk.Rapid(u, vk.N(12, 600), mine, func(rt *rapid.T) fcase {
		return fcase{State: drawState(rt), Clean: rapid.Bool().Draw(rt, "clean"), Rel: rapid.IntRange(0, 3).Draw(rt, "rel") == 0}
	}, check)
}

func btoi(b bool) int {
	if b {
		return 1
	}
	return 0
}

// ---- clause 2: generation proceeds ---------------------------------------------------

type scase struct {
	State   state  `json:"state"`
	Clean   bool   `json:"clean"`
	Rel     bool   `json:"rel"`
	Package string `json:"package,omitempty"` // --package value; "func" / "1 bad" make the write stage fail after cleaning
}

// resolveAliases returns the root-relative paths that pattern-named symlinks
// directly in the target point to: writing "through" such a link is writing
// the pattern-named file.
func resolveAliases(w world, before snapshot) map[string]bool {
	out := map[string]bool{}
	for p, e := range before {
		if e.Type != "symlink" || path.Dir(p) != w.tdir || !ownName.MatchString(path.Base(p)) {
			continue
		}
		cur, ent := p, e
		for hop := 0; hop < 8 && ent.Type == "symlink"; hop++ {
			l := ent.Link
			if filepath.IsAbs(l) {
				rel, err := filepath.Rel(w.root, l)
				if err != nil || strings.HasPrefix(rel, "..") {
					break
				}
				cur = filepath.ToSlash(rel)
			} else {
				cur = path.Join(path.Dir(cur), l)
			}
			out[cur] = true
			var ok bool
			if ent, ok = before[cur]; !ok {
				break
			}
		}
	}
	return out
}

func checkSuccess(bin string, prev map[string][]byte, c scase) (f *vk.Finding, info map[string]bool) {
	info = map[string]bool{}
	w, err := materialise(c.State, prev, map[string]string{"ok.yaml": validSpec}, nil)
	defer w.remove()
	if err != nil {
		return vk.F("harness-materialise", "%v", err), info
	}
	args := []string{"--target", targetArg(w, c.Rel, "")}
	if c.Clean {
		args = append(args, "--clean")
	}
	if c.Package != "" {
		args = append(args, "--package", c.Package)
	}
	args = append(args, "ok.yaml")
	// a name the generator is going to write may be taken by something that cannot be
	// written: a directory (always) or a symlink that does not resolve to a regular
	// file or a free name (unless --clean removes the link first)
	collides := false
	if !c.State.Absent {
		for name := range prev {
			p := filepath.Join(w.root, w.tdir, name)
			lst, err := os.Lstat(p)
			if err != nil {
				continue
			}
			if lst.IsDir() {
				collides = true
			} else if lst.Mode()&fs.ModeSymlink != 0 && !c.Clean {
				if st, err := os.Stat(p); (err == nil && !st.Mode().IsRegular()) || (err != nil && !os.IsNotExist(err)) {
					collides = true
				}
			}
		}
	}
	r, err := execOgen(bin, w, args)
	if err != nil {
		return vk.F("harness-run", "%v", err), info
	}
	desc := fmt.Sprintf("state %s(%s) clean=%v package=%q: ogen %s", c.State.Name, c.State.hash(), c.Clean, c.Package, strings.Join(args, " "))
	d := compare(r.Before, r.After, false)
	aliases := resolveAliases(w, r.Before)
	tail := fmt.Sprintf("exit %d; %s\nstderr: %s", r.Exit, d, firstLines(r.Stderr, 4))

	direct := func(p string) bool { return path.Dir(p) == w.tdir }
	// removed entries
	for _, p := range d.Removed {
		b := r.Before[p]
		base := path.Base(p)
		switch {
		case !underTarget(w, p):
			return vk.F("removed-outside-target", "%s removed %s, which is outside the target: %s", desc, p, tail), info
		case !c.Clean:
			return vk.F("noclean-removed-entry", "%s removed %s although --clean was not given: %s", desc, p, tail), info
		case b.Type == "dir":
			return vk.F("clean-removed-directory", "%s removed the directory %s: %s", desc, p, tail), info
		case !direct(p):
			// gone because a parent went away would have been caught above; a nested file on its own
			return vk.F("clean-removed-nested-entry", "%s removed %s, which is not directly in the target: %s", desc, p, tail), info
		case !ownName.MatchString(base):
			return vk.F("clean-removed-foreign-file", "%s removed %s, whose name does not match the generator's pattern: %s", desc, p, tail), info
		}
		info["clean-removed-own-named-entry"] = true
		if strings.HasPrefix(base, "oas_") || strings.HasPrefix(base, "openapi_") {
			continue
		}
		info["clean-removed-own-named-entry-without-underscore"] = true // e.g. oasis_gen.go: inside the stated pattern
	}
	// created entries
	for _, p := range d.Created {
		switch {
		case p == w.tdir && c.State.Absent:
			info["target-created"] = true
		case direct(p) && ownName.MatchString(path.Base(p)):
		case aliases[p]:
			info["written-through-own-named-symlink"] = true
		case underTarget(w, p):
			return vk.F("created-foreign-entry", "%s created %s, which is not a pattern-named file directly in the target: %s", desc, p, tail), info
		case r.Exit != 0 && path.Dir(p) == "cwd" && strings.HasSuffix(p, ".dump") && ownName.MatchString(strings.TrimSuffix(path.Base(p), ".dump")):
			// gen/write.go dumps the unformatted source next to cwd when a file cannot be formatted or written
			info["write-stage-failure-left-dump-files-in-cwd"] = true
		default:
			return vk.F("stray-file-outside-target", "%s created %s outside the target: %s", desc, p, tail), info
		}
	}
	// modified entries
	for _, p := range d.Modified {
		b := r.Before[p]
		switch {
		case direct(p) && ownName.MatchString(path.Base(p)) && b.Type != "dir":
			info["overwrote-own-named-entry"] = true
		case aliases[p] && b.Type != "dir":
			info["written-through-own-named-symlink"] = true
		case underTarget(w, p):
			return vk.F("modified-foreign-entry", "%s changed %s, which is not a pattern-named file directly in the target: %s", desc, p, tail), info
		default:
			return vk.F("modified-outside-target", "%s changed %s outside the target: %s", desc, p, tail), info
		}
	}

	// did generation proceed as expected?
	switch {
	case c.Package != "":
		if r.Exit == 0 {
			return vk.F("invalid-package-accepted", "%s exited 0 with a package name that is not a Go identifier: %s", desc, tail), info
		}
		info["write-stage-failure:invalid-package"] = true
		if len(d.Removed) > 0 {
			info["write-stage-failure-after-clean-removed-files"] = true
		}
	case collides:
		info["write-stage-failure:output-name-collision"] = true
		if r.Exit == 0 {
			info["collision-but-exit-zero"] = true
		}
	case r.Exit != 0 && os.Geteuid() != 0 && c.State.hasReadOnly():
		info["write-blocked-by-permissions"] = true
	case r.Exit != 0:
		return vk.F("valid-spec-failed", "%s failed although the spec is valid and nothing blocks writing: %s", desc, tail), info
	default:
		// every file of the generation is there with the generated content
		for name, want := range prev {
			p := filepath.Join(w.root, w.tdir, name)
			got, err := os.ReadFile(p)
			if err != nil || !bytes.Equal(got, want) {
				return vk.F("output-missing-after-success", "%s exited 0 but %s is missing or has unexpected content (%v): %s", desc, name, err, tail), info
			}
		}
		info["generated"] = true
	}
	return nil, info
}

func TestCleanOnSuccess(t *testing.T) {
	u := vk.New(t, "C20", "clean-on-success")
	defer u.Close()
	bin := ogen(t)
	prev := prevGen(t)
	var fixed []scase
	i := 0
	for _, s := range fixedStates() {
		for _, clean := range []bool{false, true} {
			for _, pkg := range []string{"", "func", "1 bad"} {
				if pkg == "1 bad" && !s.PrevGen {
					continue
				}
				fixed = append(fixed, scase{State: s, Clean: clean, Rel: i%3 == 0, Package: pkg})
				i++
			}
		}
	}
	shard, shards := vk.Shard()
	var mine []scase
	for i, c := range fixed {
		if i%shards == shard {
			mine = append(mine, c)
		}
	}
	check := func(c scase) *vk.Finding {
		f, info := checkSuccess(bin, prev, c)
		{
			labelState(u, fcase{State: c.State, Clean: c.Clean, Rel: c.Rel})
			keys := make([]string, 0, len(info))
			for k := range info {
				keys = append(keys, k)
			}
			sort.Strings(keys)
			for _, k := range keys {
				u.Label("obs:" + k)
			}
			if c.State.nonEmpty() {
				stage := "success"
				if c.Package != "" {
					stage = "write-stage-failure:" + c.Package
				}
				u.NonTrivial(fmt.Sprintf("%s|%s|%v", stage, c.State.hash(), c.Clean))
				u.Sample(map[string]any{"state": c.State.Name, "hash": c.State.hash(), "entries": len(c.State.Entries), "prev_gen": c.State.PrevGen, "clean": c.Clean, "package": c.Package, "observed": keys})
			}
		}
		return f
	}
	vk.Rapid(u, vk.N(24, 600), mine, func(rt *rapid.T) scase {
		c := scase{State: drawState(rt), Clean: rapid.Bool().Draw(rt, "clean"), Rel: rapid.IntRange(0, 3).Draw(rt, "rel") == 0}
		if rapid.IntRange(0, 7).Draw(rt, "badpkg") == 0 {
			c.Package = "func"
		}
		return c
	}, check)
}
