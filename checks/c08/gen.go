package c08

// gen.go: subject sets, the bounded-exhaustive enumerator over the portable
// ECMA-262 `u`-mode grammar, and the rapid generators (random ASTs, fall-back
// family, \p{…} family).

import (
	"sort"

	"pgregory.net/rapid"
)

// ---- subjects -----------------------------------------------------------------

// baseAlphabet: ASCII word/non-word, the ASCII line terminators and VT,
// ECMAScript-only white space (NBSP, ZWNBSP), LS, a Latin-1 letter, a non-ASCII
// decimal digit, an astral code point above U+1FFFF and the last code point.
var baseAlphabet = []rune{'a', 'b', '0', '_', ' ', '\n', '\r', '\v', 0xA0, 0x2028, 0xFEFF, 0xE9, 0x663, 0x20000, 0x10FFFF}

func inBase(r rune) bool {
	for _, b := range baseAlphabet {
		if b == r {
			return true
		}
	}
	return false
}

// allStrings lists every string over alpha of length 0..maxLen, by length, then
// by index.
func allStrings(alpha []rune, maxLen int) []string {
	out := []string{""}
	prev := []string{""}
	for l := 1; l <= maxLen; l++ {
		var cur []string
		for _, p := range prev {
			for _, a := range alpha {
				cur = append(cur, p+string(a))
			}
		}
		out = append(out, cur...)
		prev = cur
	}
	return out
}

var baseSubjectsCache = map[int][]string{}

func baseSubjects(maxLen int) []string {
	if s, ok := baseSubjectsCache[maxLen]; ok {
		return s
	}
	s := allStrings(baseAlphabet, maxLen)
	baseSubjectsCache[maxLen] = s
	return s
}

const maxExtras = 6

// Extras are the code points a pattern names that are not in the base
// alphabet (at most maxExtras, lowest first).
func Extras(ast *Node) []rune {
	var out []rune
	for _, r := range Mentioned(ast) {
		if !inBase(r) {
			out = append(out, r)
			if len(out) == maxExtras {
				break
			}
		}
	}
	return out
}

// extraSubjects: every string of length 1..2 over extras ∪ {a, \n} that holds
// at least one extra code point.
func extraSubjects(extras []rune) []string {
	if len(extras) == 0 {
		return nil
	}
	alpha := append(append([]rune{}, extras...), 'a', '\n')
	isExtra := func(r rune) bool {
		for _, e := range extras {
			if e == r {
				return true
			}
		}
		return false
	}
	var out []string
	for _, s := range allStrings(alpha, 2) {
		keep := false
		for _, r := range s {
			if isExtra(r) {
				keep = true
			}
		}
		if keep {
			out = append(out, s)
		}
	}
	return out
}

// ---- the leaf sets of the enumerator ----------------------------------------------

func lits(rs ...rune) []*Node {
	var out []*Node
	for _, r := range rs {
		out = append(out, Lit(r))
	}
	return out
}

// charLeaves: every one-code-point atom spelling that the enumerator uses outside
// classes (quantifiable).
func charLeaves() []*Node {
	var l []*Node
	l = append(l, lits(baseAlphabet...)...)
	l = append(l, Lit('-'))
	l = append(l, Leaf(KDot))
	for _, c := range []string{"d", "D", "w", "W", "s", "S"} {
		l = append(l, Cesc(c))
	}
	for _, r := range []rune{9, 10, 11, 12, 13} {
		l = append(l, Esc(FCtl, r, 0))
	}
	l = append(l, Esc(FNul, 0, 0))
	// \xHH
	l = append(l, Esc(FHex, 'a', 0), Esc(FHex, 0x0A, 0), Esc(FHex, 0x0A, 1), Esc(FHex, 0xA0, 0), Esc(FHex, 0xE9, 1),
		Esc(FHex, 0, 0), Esc(FHex, '_', 0), Esc(FHex, 0xFF, 0))
	// \uHHHH
	l = append(l, Esc(FU4, 'a', 0), Esc(FU4, 0x2028, 0), Esc(FU4, 0x2029, 0), Esc(FU4, 0xFEFF, 0), Esc(FU4, 0xFEFF, 1),
		Esc(FU4, 0xE9, 0), Esc(FU4, 0x663, 0), Esc(FU4, 0x0A, 0), Esc(FU4, 0xFFFF, 0), Esc(FU4, 0x0B, 1))
	// \u{…}: short, leading zeros, lower case, astral, limits
	l = append(l, Esc(FUb, 'a', 0), Esc(FUb, 'a', 2<<1), Esc(FUb, 'a', 3<<1), Esc(FUb, 0x20000, 0), Esc(FUb, 0x10FFFF, 0),
		Esc(FUb, 0x10FFFF, 1), Esc(FUb, 0x2028, 0), Esc(FUb, 0xA, 0), Esc(FUb, 0, 0), Esc(FUb, 0xFEFF, 1),
		Esc(FUb, 0x1FFFF, 0), Esc(FUb, 0xE9, 1<<1), Esc(FUb, 0x10000, 0))
	// surrogate pairs
	l = append(l, Esc(FSp, 0x20000, 0), Esc(FSp, 0x10FFFF, 1))
	// \cX
	l = append(l, Esc(FCx, 10, 0), Esc(FCx, 10, 1), Esc(FCx, 13, 0), Esc(FCx, 11, 1), Esc(FCx, 1, 0), Esc(FCx, 26, 0),
		Esc(FCx, 26, 1), Esc(FCx, 9, 0))
	// identity escapes of the syntax characters
	for _, r := range `^$\.*+?()[]{}|/` {
		l = append(l, Esc(FId, r, 0))
	}
	return l
}

// posixLookalikes: classes that are plain member lists in ECMA-262 but whose
// spelling starts a POSIX bracket expression ([:alpha:]) for RE2. They count as
// one leaf in the enumerator so that "lookalike followed by another class" is
// reached at size 3.
func posixLookalikes() []*Node {
	mk := func(neg bool, prefix string, name string) *Node {
		var items []Item
		for _, r := range prefix + "[:" + name + ":" {
			items = append(items, Single(Lit(r)))
		}
		return Class(neg, items...)
	}
	return []*Node{mk(false, "", "alpha"), mk(true, "", "alpha"), mk(false, "", "digit"), mk(false, "", "^word"),
		mk(false, "a", "space"), mk(false, "", "x")}
}

// IsPosixLookalike: a class whose members spell "[:" … ":" up to its end.
func IsPosixLookalike(n *Node) bool {
	if n.K != KClass || len(n.Items) < 3 {
		return false
	}
	last := n.Items[len(n.Items)-1]
	if last.Hi != nil || last.Lo.K != KLit || last.Lo.R != ':' {
		return false
	}
	for i := 0; i+1 < len(n.Items)-1; i++ {
		a, b := n.Items[i], n.Items[i+1]
		if a.Hi == nil && b.Hi == nil && a.Lo.K == KLit && a.Lo.R == '[' && b.Lo.K == KLit && b.Lo.R == ':' {
			return true
		}
	}
	return false
}

func HasPosixLookalike(ast *Node) bool {
	found := false
	Walk(ast, func(n *Node, _ bool) {
		if IsPosixLookalike(n) {
			found = true
		}
	})
	return found
}

func assertLeaves() []*Node { return []*Node{Leaf(KBol), Leaf(KEol), Leaf(KWb), Leaf(KNwb)} }

// classSingles: one-atom class members. The `core` subset is used where the full
// set would explode (classes of three or more members).
func classSingles(core bool) []*Node {
	if core {
		return []*Node{Lit('a'), Lit('0'), Lit('\n'), Lit(0x2028), Lit(0x20000), Lit('-'), Lit('^'), Lit('['),
			Esc(FBksp, 8, 0), Esc(FId, ']', 0), Esc(FId, '-', 0), Esc(FCx, 10, 0), Esc(FUb, 0x10FFFF, 0),
			Cesc("s"), Cesc("d"), Cesc("W")}
	}
	var l []*Node
	l = append(l, lits('a', 'b', '0', '_', ' ', '\n', 0x2028, 0xE9, 0x20000, 0x10FFFF)...)
	// syntax characters that are ordinary inside a class
	l = append(l, lits('[', '(', ')', '.', '*', '+', '?', '{', '}', '|', '$', '/', '^', '-', ':', '=', '!', '<')...)
	l = append(l, Esc(FBksp, 8, 0))
	for _, r := range `-]\^[./$` {
		l = append(l, Esc(FId, r, 0))
	}
	l = append(l, Esc(FCtl, 10, 0), Esc(FCtl, 11, 0), Esc(FCtl, 9, 0), Esc(FNul, 0, 0),
		Esc(FHex, 0x0A, 0), Esc(FHex, 0xA0, 1), Esc(FU4, 0x2028, 0), Esc(FU4, 0xFEFF, 1),
		Esc(FUb, 0x20000, 0), Esc(FUb, 0x10FFFF, 1), Esc(FUb, 'a', 2<<1), Esc(FCx, 10, 0), Esc(FCx, 1, 1),
		Esc(FSp, 0x20000, 0))
	for _, c := range []string{"d", "D", "w", "W", "s", "S"} {
		l = append(l, Cesc(c))
	}
	return l
}

func classRanges() []Item {
	r := func(lo, hi *Node) Item { return Range(lo, hi) }
	return []Item{
		r(Lit('a'), Lit('b')), r(Lit('0'), Lit('a')), r(Lit('a'), Lit('a')), r(Lit(' '), Lit('~')),
		r(Esc(FNul, 0, 0), Esc(FUb, 0x10FFFF, 0)), r(Esc(FHex, 0, 0), Esc(FU4, 0xFFFF, 0)),
		r(Esc(FUb, 0x10000, 0), Esc(FUb, 0x10FFFF, 1)), r(Lit(0xE9), Lit(0x20000)),
		r(Esc(FCtl, 10, 0), Esc(FCtl, 13, 0)), r(Esc(FCtl, 9, 0), Esc(FCtl, 13, 0)),
		r(Esc(FCx, 1, 0), Esc(FCx, 26, 0)), r(Esc(FHex, 0, 0), Esc(FHex, 0x1F, 1)),
		r(Esc(FU4, 0x2028, 0), Esc(FU4, 0x2029, 0)), r(Esc(FUb, 0x1FFFF, 0), Esc(FUb, 0x20000, 0)),
		r(Esc(FBksp, 8, 0), Esc(FCtl, 10, 0)), r(Lit('!'), Esc(FId, '-', 0)), r(Esc(FId, '[', 0), Esc(FId, ']', 0)),
		r(Lit('$'), Esc(FId, '/', 0)), r(Lit(0xA0), Lit(0xFEFF)), r(Esc(FSp, 0x20000, 0), Esc(FSp, 0x10FFFF, 0)),
		r(Lit('*'), Lit('.')), r(Lit('('), Lit(')')), r(Lit(0x10FFFF), Lit(0x10FFFF)), r(Lit('_'), Lit(0x663)),
	}
}

func quantSet(full bool) []Quant {
	if !full {
		return []Quant{Q("*", 0, 0, false), Q("*", 0, 0, true), Q("+", 0, 0, false), Q("?", 0, 0, false),
			Q("{n}", 2, 0, false), Q("{n,}", 1, 0, false), Q("{n,m}", 0, 2, true)}
	}
	var out []Quant
	for _, lazy := range []bool{false, true} {
		out = append(out, Q("*", 0, 0, lazy), Q("+", 0, 0, lazy), Q("?", 0, 0, lazy),
			Q("{n}", 0, 0, lazy), Q("{n}", 1, 0, lazy), Q("{n}", 2, 0, lazy),
			Q("{n,}", 0, 0, lazy), Q("{n,}", 2, 0, lazy),
			Q("{n,m}", 0, 1, lazy), Q("{n,m}", 1, 2, lazy), Q("{n,m}", 2, 3, lazy), Q("{n,m}", 0, 0, lazy))
	}
	return out
}

// ---- bounded-exhaustive enumerator ---------------------------------------------

// Enum enumerates every AST of a given size (Size()) over the leaf sets.
// Sizes: leaf 1; class 1 + members (a range counts 2); group and quantifier
// 1 + body; concatenation/alternation of k parts k-1 + parts; the empty
// alternative 0.
type Enum struct {
	chars    []*Node
	asserts  []*Node
	singles  []*Node
	core     []*Node
	ranges   []Item
	quants   map[bool][]Quant // by "full"
	maxFullQ int              // quantifier bodies up to this size get the full quantifier set
	memo     map[string][]*Node
}

func NewEnum() *Enum {
	return &Enum{
		chars: append(charLeaves(), posixLookalikes()...), asserts: assertLeaves(), singles: classSingles(false), core: classSingles(true),
		ranges: classRanges(), quants: map[bool][]Quant{true: quantSet(true), false: quantSet(false)},
		maxFullQ: 1, memo: map[string][]*Node{},
	}
}

func (e *Enum) cached(kind string, s int, build func() []*Node) []*Node {
	key := kind + string(rune('0'+s))
	if v, ok := e.memo[key]; ok {
		return v
	}
	v := build()
	e.memo[key] = v
	return v
}

// member sequences of total size t (singles from the full set up to two
// members, from the core set beyond)
func (e *Enum) members(t int) [][]Item {
	if t == 0 {
		return [][]Item{nil}
	}
	var out [][]Item
	set := e.singles
	if t > 2 {
		set = e.core
	}
	var rec func(rest int, acc []Item)
	rec = func(rest int, acc []Item) {
		if rest == 0 {
			out = append(out, append([]Item{}, acc...))
			return
		}
		for _, s := range set {
			rec(rest-1, append(acc, Single(s)))
		}
		if rest >= 2 {
			for _, r := range e.ranges {
				rec(rest-2, append(acc, r))
			}
		}
	}
	rec(t, nil)
	return out
}

func (e *Enum) classes(s int) []*Node {
	return e.cached("class", s, func() []*Node {
		var out []*Node
		for _, ms := range e.members(s - 1) {
			out = append(out, Class(false, ms...), Class(true, ms...))
		}
		return out
	})
}

// atoms: quantifiable terms of exactly size s.
func (e *Enum) atoms(s int) []*Node {
	return e.cached("atom", s, func() []*Node {
		var out []*Node
		if s == 1 {
			out = append(out, e.chars...)
		}
		out = append(out, e.classes(s)...)
		if s >= 1 {
			bodies := e.exprs(s - 1)
			for _, b := range bodies {
				out = append(out, Grp(KGrp, b), Grp(KNcg, b))
			}
		}
		return out
	})
}

func (e *Enum) reps(s int) []*Node {
	return e.cached("rep", s, func() []*Node {
		var out []*Node
		if s < 2 {
			return nil
		}
		qs := e.quants[s-1 <= e.maxFullQ]
		for _, a := range e.atoms(s - 1) {
			for _, q := range qs {
				out = append(out, Rep(a, q))
			}
		}
		return out
	})
}

func (e *Enum) terms(s int) []*Node {
	return e.cached("term", s, func() []*Node {
		var out []*Node
		if s == 1 {
			out = append(out, e.asserts...)
		}
		out = append(out, e.atoms(s)...)
		out = append(out, e.reps(s)...)
		return out
	})
}

// seqs: concatenations of at least two terms.
func (e *Enum) seqs(s int) []*Node {
	return e.cached("seq", s, func() []*Node {
		var out []*Node
		e.eachSeq(s, func(n *Node) { out = append(out, n) })
		return out
	})
}

func (e *Enum) eachSeq(s int, yield func(*Node)) {
	for s1 := 1; s1 <= s-2; s1++ {
		rest := s - 1 - s1
		for _, first := range e.terms(s1) {
			for _, r := range e.terms(rest) {
				yield(&Node{K: KCat, Sub: []*Node{first, r}})
			}
			for _, r := range e.seqs(rest) {
				yield(&Node{K: KCat, Sub: append([]*Node{first}, r.Sub...)})
			}
		}
	}
}

// branches: what may stand between two '|' (size s; s = 0 is the empty branch).
func (e *Enum) branches(s int) []*Node {
	if s == 0 {
		return []*Node{Leaf(KEmpty)}
	}
	return e.cached("branch", s, func() []*Node {
		return append(append([]*Node{}, e.terms(s)...), e.seqs(s)...)
	})
}

func (e *Enum) alts(s int) []*Node {
	return e.cached("alt", s, func() []*Node {
		var out []*Node
		e.eachAlt(s, func(n *Node) { out = append(out, n) })
		return out
	})
}

func (e *Enum) eachAlt(s int, yield func(*Node)) {
	for s1 := 0; s1 <= s-1; s1++ {
		rest := s - 1 - s1
		for _, first := range e.branches(s1) {
			for _, r := range e.branches(rest) {
				yield(&Node{K: KAlt, Sub: []*Node{first, r}})
			}
			if rest >= 1 {
				for _, r := range e.alts(rest) {
					yield(&Node{K: KAlt, Sub: append([]*Node{first}, r.Sub...)})
				}
			}
		}
	}
}

// exprs: everything of size s (materialised; use Each for the top level).
func (e *Enum) exprs(s int) []*Node {
	if s == 0 {
		return []*Node{Leaf(KEmpty)}
	}
	return e.cached("expr", s, func() []*Node {
		var out []*Node
		e.Each(s, func(n *Node) { out = append(out, n) })
		return out
	})
}

// Each yields every AST of exactly size s, in a fixed order.
func (e *Enum) Each(s int, yield func(*Node)) {
	if s == 0 {
		yield(Leaf(KEmpty))
		return
	}
	if s == 1 {
		for _, n := range e.asserts {
			yield(n)
		}
	}
	// atoms and quantified atoms are built from the (materialised) smaller sizes
	if s == 1 {
		for _, n := range e.chars {
			yield(n)
		}
	}
	for _, ms := range e.members(s - 1) {
		yield(Class(false, ms...))
		yield(Class(true, ms...))
	}
	for _, b := range e.exprs(s - 1) {
		yield(Grp(KGrp, b))
		yield(Grp(KNcg, b))
	}
	if s >= 2 {
		qs := e.quants[s-1 <= e.maxFullQ]
		for _, a := range e.atoms(s - 1) {
			for _, q := range qs {
				yield(Rep(a, q))
			}
		}
	}
	e.eachSeq(s, yield)
	e.eachAlt(s, yield)
}

// ---- rapid: random ASTs ----------------------------------------------------------

// GenOpts steers the random generator.
type GenOpts struct {
	AnyClass  bool // allow [] and [^]
	Posix     bool // allow POSIX bracket lookalikes such as [[:alpha:]
	Surrogate bool // allow \uD8xx\uDCxx pairs
	Prop      bool // allow \p{…}
}

type rgen struct {
	t    *rapid.T
	o    GenOpts
	fix  []*Node // the enumerator's char leaves: hand-picked interesting spellings
	sing []*Node
}

var interestingRunes = []rune{'a', 'b', 'z', 'A', 'Z', '0', '9', '_', ' ', '-', ',', ':', '=', '!', '<', '>', '~', '"', '\'', '#', '%', '&', ';', '@', '`',
	0, 1, 8, 9, 10, 11, 12, 13, 0x1F, 0x7F, 0x80, 0x85, 0xA0, 0xAD, 0xE9, 0xFF, 0x100, 0x17F, 0x3B1, 0x663, 0x1680, 0x180E, 0x2000, 0x200A, 0x200B,
	0x2028, 0x2029, 0x202F, 0x205F, 0x2060, 0x3000, 0xD7FF, 0xE000, 0xFEFF, 0xFFFD, 0xFFFF, 0x10000, 0x1F600, 0x1FFFF, 0x20000, 0xE0001, 0x10FFFF}

func (g *rgen) runeAny() rune {
	switch rapid.IntRange(0, 9).Draw(g.t, "runeKind") {
	case 0, 1, 2, 3, 4, 5:
		return rapid.SampledFrom(interestingRunes).Draw(g.t, "rune")
	case 6:
		return rune(rapid.IntRange(0, 0xFF).Draw(g.t, "latin1"))
	case 7:
		r := rune(rapid.IntRange(0x100, 0xFFFF).Draw(g.t, "bmp"))
		if r >= 0xD800 && r <= 0xDFFF {
			r = 0xFFFD
		}
		return r
	default:
		return rune(rapid.IntRange(0x10000, 0x10FFFF).Draw(g.t, "astral"))
	}
}

// charAtom spells the code point r in a randomly chosen admissible way.
func (g *rgen) charAtom(r rune, inClass bool) *Node {
	var forms []string
	rawOK := !isSyntaxChar(r) || inClass && r != '\\' && r != ']'
	if inClass && (r == '-' || r == '^') {
		rawOK = false // positional; the enumerator covers raw '-' and '^'
	}
	if rawOK {
		forms = append(forms, "raw", "raw", "raw")
	}
	if isSyntaxChar(r) || r == '/' || inClass && r == '-' {
		forms = append(forms, FId, FId, FId)
	}
	if r >= 9 && r <= 13 {
		forms = append(forms, FCtl, FCtl)
	}
	if r == 0 {
		forms = append(forms, FNul, FNul)
	}
	if r == 8 && inClass {
		forms = append(forms, FBksp, FBksp)
	}
	if r <= 0xFF {
		forms = append(forms, FHex)
	}
	if r <= 0xFFFF {
		forms = append(forms, FU4)
	}
	forms = append(forms, FUb)
	if r >= 0x10000 && g.o.Surrogate {
		forms = append(forms, FSp)
	}
	if r >= 1 && r <= 26 {
		forms = append(forms, FCx, FCx)
	}
	f := rapid.SampledFrom(forms).Draw(g.t, "form")
	if f == "raw" {
		return Lit(r)
	}
	v := 0
	switch f {
	case FHex, FU4, FSp, FCx:
		v = rapid.IntRange(0, 1).Draw(g.t, "variant")
	case FUb:
		v = rapid.IntRange(0, 7).Draw(g.t, "variant")
	}
	return Esc(f, r, v)
}

var propNames = []string{"L", "Lu", "Ll", "Lo", "Nd", "N", "P", "Pd", "S", "Sc", "Z", "Zs", "Zl", "M", "Mn", "Cc", "Cf", "Co",
	"Letter", "Uppercase_Letter", "Decimal_Number", "Punctuation", "gc=L", "General_Category=Letter", "gc=Nd", "gc=Zs",
	"General_Category=Lu", "Script=Greek", "sc=Grek", "Script=Latin", "sc=Latn", "Script=Han", "sc=Hani", "Script=Arabic",
	"sc=Cyrl", "Script=Common", "ASCII", "Any", "ASCII_Hex_Digit", "White_Space", "Hex_Digit", "Dash", "Ideographic",
	"Noncharacter_Code_Point", "Pattern_Syntax", "Quotation_Mark", "Pattern_White_Space", "Diacritic"}

// code points that tell the modelled properties apart
var propAlphabet = []rune{'a', 'A', 'F', 'p', 'L', '{', '}', '0', '_', ' ', '$', '-', '"', '\n', 0x85, 0xA0, 0xAD, 0xE9, 0x301, 0x3B1, 0x416,
	0x663, 0x2028, 0x4E2D, 0xE000, 0xFEFF, 0x20000, 0x10FFFF}

func (g *rgen) leaf() *Node {
	switch rapid.IntRange(0, 19).Draw(g.t, "leafKind") {
	case 0, 1, 2, 3, 4, 5, 6:
		return rapid.SampledFrom(g.fix).Draw(g.t, "fixedLeaf")
	case 7, 8:
		return Leaf(KDot)
	case 9, 10:
		return Cesc(rapid.SampledFrom([]string{"d", "D", "w", "W", "s", "S", "s", "S"}).Draw(g.t, "cesc"))
	case 11:
		if g.o.Prop {
			return Prop(rapid.SampledFrom(propNames).Draw(g.t, "prop"), rapid.Bool().Draw(g.t, "propNeg"))
		}
		fallthrough
	default:
		return g.charAtom(g.runeAny(), false)
	}
}

func (g *rgen) class(budget int) *Node {
	neg := rapid.Bool().Draw(g.t, "classNeg")
	if g.o.AnyClass && rapid.IntRange(0, 5).Draw(g.t, "emptyClass") == 0 {
		return Class(neg)
	}
	if g.o.Posix && rapid.IntRange(0, 11).Draw(g.t, "posixLookalike") == 0 {
		return rapid.SampledFrom(posixLookalikes()).Draw(g.t, "lookalike")
	}
	n := rapid.IntRange(1, max(1, min(budget, 5))).Draw(g.t, "classLen")
	var items []Item
	for i := 0; i < n; i++ {
		switch rapid.IntRange(0, 9).Draw(g.t, "memberKind") {
		case 0, 1:
			items = append(items, rapid.SampledFrom(classRanges()).Draw(g.t, "fixedRange"))
		case 2, 3:
			a, b := g.runeAny(), g.runeAny()
			if a > b {
				a, b = b, a
			}
			items = append(items, Range(g.charAtom(a, true), g.charAtom(b, true)))
		case 4:
			if g.o.Prop {
				items = append(items, Single(Prop(rapid.SampledFrom(propNames).Draw(g.t, "prop"), rapid.Bool().Draw(g.t, "propNeg"))))
				break
			}
			fallthrough
		case 5:
			items = append(items, Single(Cesc(rapid.SampledFrom([]string{"d", "D", "w", "W", "s", "S"}).Draw(g.t, "cesc"))))
		case 6, 7:
			s := rapid.SampledFrom(g.sing).Draw(g.t, "fixedSingle")
			if s.K == KEsc && s.F == FSp && !g.o.Surrogate {
				s = Lit('a')
			}
			items = append(items, Single(s))
		default:
			items = append(items, Single(g.charAtom(g.runeAny(), true)))
		}
	}
	// raw '-' and '^' are positional: keep them only where the printer accepts them
	for i := range items {
		if items[i].Hi == nil && items[i].Lo.K == KLit {
			r := items[i].Lo.R
			if r == '-' && i != 0 && i != len(items)-1 || r == '^' && i == 0 && !neg {
				items[i].Lo = *Esc(FId, rune(r), 0)
			}
		}
	}
	return Class(neg, items...)
}

func (g *rgen) quant() Quant {
	f := rapid.SampledFrom([]string{"*", "+", "?", "*", "+", "?", "{n}", "{n,}", "{n,m}"}).Draw(g.t, "quant")
	lazy := rapid.IntRange(0, 3).Draw(g.t, "lazy") == 0
	n, m := 0, 0
	switch rapid.IntRange(0, 19).Draw(g.t, "boundKind") {
	case 0:
		n = rapid.IntRange(4, 40).Draw(g.t, "n")
		m = n + rapid.IntRange(0, 40).Draw(g.t, "dm")
	case 1:
		n = rapid.SampledFrom([]int{100, 500, 999, 1000}).Draw(g.t, "nBig")
		m = 1000
	case 2:
		// beyond RE2's repeat limit: Compile has to fall back
		if rapid.IntRange(0, 3).Draw(g.t, "huge") == 0 {
			n = rapid.SampledFrom([]int{1001, 5000}).Draw(g.t, "nHuge")
			m = n
			break
		}
		fallthrough
	default:
		n = rapid.IntRange(0, 3).Draw(g.t, "n")
		m = n + rapid.IntRange(0, 2).Draw(g.t, "dm")
	}
	return Q(f, n, m, lazy)
}

func (g *rgen) atom(budget int) *Node {
	k := rapid.IntRange(0, 9).Draw(g.t, "atomKind")
	switch {
	case budget >= 3 && k <= 2:
		kind := KNcg
		if rapid.Bool().Draw(g.t, "capture") {
			kind = KGrp
		}
		return Grp(kind, g.expr(budget-1))
	case budget >= 2 && k <= 4:
		return g.class(budget - 1)
	case k == 5 && g.o.AnyClass:
		return Class(rapid.Bool().Draw(g.t, "anyNeg"))
	case k == 6 && budget >= 1 && rapid.IntRange(0, 3).Draw(g.t, "emptyGroup") == 0:
		return Grp(KNcg, Leaf(KEmpty))
	}
	return g.leaf()
}

func (g *rgen) term(budget int) *Node {
	if rapid.IntRange(0, 7).Draw(g.t, "assert") == 0 {
		return rapid.SampledFrom(assertLeaves()).Draw(g.t, "assertion")
	}
	if budget >= 2 && rapid.IntRange(0, 2).Draw(g.t, "quantify") == 0 {
		return Rep(g.atom(budget-1), g.quant())
	}
	return g.atom(budget)
}

func (g *rgen) seq(budget int) *Node {
	n := rapid.IntRange(1, max(1, min(4, (budget+1)/2))).Draw(g.t, "seqLen")
	var parts []*Node
	left := budget - (n - 1)
	for i := 0; i < n; i++ {
		b := max(1, left/(n-i))
		if i < n-1 && left > n-i {
			b = rapid.IntRange(1, max(1, left-(n-i-1))).Draw(g.t, "part")
		}
		t := g.term(b)
		left -= Size(t)
		if left < 1 {
			left = 1
		}
		parts = append(parts, t)
	}
	return Cat(parts...)
}

func (g *rgen) expr(budget int) *Node {
	if budget >= 3 && rapid.IntRange(0, 3).Draw(g.t, "alternation") == 0 {
		n := rapid.IntRange(2, 3).Draw(g.t, "branches")
		var subs []*Node
		for i := 0; i < n; i++ {
			if rapid.IntRange(0, 7).Draw(g.t, "emptyBranch") == 0 {
				subs = append(subs, Leaf(KEmpty))
				continue
			}
			subs = append(subs, g.seq(max(1, (budget-n+1)/n)))
		}
		return Alt(subs...)
	}
	return g.seq(budget)
}

// DrawAST draws a random AST of size about 1..maxSize.
func DrawAST(t *rapid.T, maxSize int, o GenOpts) *Node {
	g := &rgen{t: t, o: o, fix: charLeaves(), sing: classSingles(false)}
	if !o.Surrogate {
		var f []*Node
		for _, n := range g.fix {
			if !(n.K == KEsc && n.F == FSp) {
				f = append(f, n)
			}
		}
		g.fix = f
	}
	// rapid's integers lean towards the small end: take the larger of two draws
	budget := max(rapid.IntRange(1, maxSize).Draw(t, "budget"), rapid.IntRange(1, maxSize).Draw(t, "budget2"))
	return g.expr(budget)
}

// ---- rapid: subjects for a random AST ----------------------------------------------

type sgen struct {
	t    *rapid.T
	pool []rune
}

// sample tries to spell a string the node matches (assertions are ignored, so
// the result is a good candidate, not a guarantee).
func (s *sgen) sample(n *Node, out []rune) []rune {
	if len(out) > 24 {
		return out
	}
	pick := func(pred func(rune) bool) (rune, bool) {
		start := rapid.IntRange(0, len(s.pool)-1).Draw(s.t, "poolStart")
		for i := 0; i < len(s.pool); i++ {
			r := s.pool[(start+i)%len(s.pool)]
			if pred(r) {
				return r, true
			}
		}
		return 0, false
	}
	switch n.K {
	case KLit, KEsc:
		return append(out, rune(n.R))
	case KDot, KCesc, KProp, KClass:
		var pred func(rune) bool
		var err error
		switch n.K {
		case KDot:
			pred = func(r rune) bool { return !isLineTerminator(r) }
		case KClass:
			pred, err = classPredicate(n)
		default:
			pred, err = atomPredicate(n)
		}
		if err == nil {
			if r, ok := pick(pred); ok {
				return append(out, r)
			}
		}
		return out
	case KGrp, KNcg, KNgrp, KLa, KLb:
		return s.sample(n.Sub[0], out)
	case KAlt:
		return s.sample(n.Sub[rapid.IntRange(0, len(n.Sub)-1).Draw(s.t, "branch")], out)
	case KCat:
		for _, c := range n.Sub {
			out = s.sample(c, out)
		}
		return out
	case KRep:
		hi := n.Min + 2
		if n.Max >= 0 && hi > n.Max {
			hi = n.Max
		}
		k := rapid.IntRange(n.Min, hi).Draw(s.t, "reps")
		if k > 6 {
			k = 6
		}
		for i := 0; i < k; i++ {
			out = s.sample(n.Sub[0], out)
		}
		return out
	}
	return out
}

// DrawSubjects draws subject strings for ast: strings the pattern is likely to
// match, their mutations, and unrelated strings over base alphabet ∪ mentioned
// code points ∪ alphabet extras.
func DrawSubjects(t *rapid.T, ast *Node, extraAlphabet []rune, count int) []string {
	pool := append([]rune{}, baseAlphabet...)
	pool = append(pool, Mentioned(ast)...)
	pool = append(pool, extraAlphabet...)
	s := &sgen{t: t, pool: append(append([]rune{}, pool...), interestingRunes...)}
	seen := map[string]bool{}
	var out []string
	add := func(rs []rune) {
		if len(rs) > 30 {
			rs = rs[:30]
		}
		str := string(rs)
		if !seen[str] {
			seen[str] = true
			out = append(out, str)
		}
	}
	poolRune := func() rune {
		// mostly the alphabet and what the pattern names; sometimes a boundary
		// code point (U+FFFF, U+10000, U+1FFFF, NEL, U+180E, U+200B …)
		if rapid.IntRange(0, 5).Draw(t, "boundaryRune") == 0 {
			return rapid.SampledFrom(interestingRunes).Draw(t, "rune")
		}
		return pool[rapid.IntRange(0, len(pool)-1).Draw(t, "poolRune")]
	}
	for i := 0; i < count; i++ {
		switch rapid.IntRange(0, 5).Draw(t, "subjectKind") {
		case 0, 1:
			add(s.sample(ast, nil))
		case 2:
			// candidate with context around it
			var rs []rune
			for j := rapid.IntRange(0, 2).Draw(t, "prefix"); j > 0; j-- {
				rs = append(rs, poolRune())
			}
			rs = s.sample(ast, rs)
			for j := rapid.IntRange(0, 2).Draw(t, "suffix"); j > 0; j-- {
				rs = append(rs, poolRune())
			}
			add(rs)
		case 3:
			// candidate with one code point replaced or dropped
			rs := s.sample(ast, nil)
			if len(rs) > 0 {
				at := rapid.IntRange(0, len(rs)-1).Draw(t, "mutateAt")
				if rapid.Bool().Draw(t, "drop") {
					rs = append(rs[:at:at], rs[at+1:]...)
				} else {
					rs[at] = poolRune()
				}
			}
			add(rs)
		default:
			n := rapid.IntRange(0, 6).Draw(t, "len")
			rs := make([]rune, n)
			for j := range rs {
				rs[j] = poolRune()
			}
			add(rs)
		}
	}
	sort.Strings(out)
	return out
}

// ---- rapid: the fall-back family ---------------------------------------------------

// DrawFallback draws a pattern that holds at least one construct RE2 cannot
// express, embedded in a random regular context. It returns the AST and the
// kind that was planted.
func DrawFallback(t *rapid.T) (*Node, string) {
	o := GenOpts{}
	body := DrawAST(t, 4, o)
	if body.K == KAlt && rapid.Bool().Draw(t, "wrapAlt") {
		body = Grp(KNcg, body)
	}
	kind := rapid.SampledFrom([]string{"lookahead", "neg-lookahead", "lookbehind", "neg-lookbehind", "backreference",
		"forward-backreference", "named-backreference", "named-group", "backreference-two-digits"}).Draw(t, "fallbackKind")
	var core *Node
	switch kind {
	case "lookahead":
		core = Grp(KLa, body)
	case "neg-lookahead":
		core = Grp(KNla, body)
	case "lookbehind":
		core = Grp(KLb, body)
	case "neg-lookbehind":
		core = Grp(KNlb, body)
	case "backreference":
		core = Cat(Grp(KGrp, body), &Node{K: KBref, Min: 1})
	case "forward-backreference":
		core = Cat(&Node{K: KBref, Min: 1}, Grp(KGrp, body))
	case "backreference-two-digits":
		// ten or more groups and a reference to one of the groups 10.. (\10 is a back-reference here, the
		// same text is a legacy octal escape in a pattern with fewer groups)
		n := rapid.IntRange(10, 13).Draw(t, "groups")
		var parts []*Node
		for i := 0; i < n; i++ {
			g := Lit(rune('a' + i%3))
			if i == 0 {
				g = body
			}
			parts = append(parts, Grp(KGrp, g))
		}
		ref := &Node{K: KBref, Min: rapid.IntRange(10, n).Draw(t, "ref")}
		if rapid.IntRange(0, 3).Draw(t, "refFirst") == 0 {
			parts = append([]*Node{ref}, parts...)
		} else {
			parts = append(parts, ref)
		}
		core = Cat(parts...)
		return core, kind
	case "named-backreference":
		name := rapid.SampledFrom([]string{"n", "name", "x1", "_a", "G2"}).Draw(t, "groupName")
		if rapid.Bool().Draw(t, "refFirst") {
			core = Cat(&Node{K: KNref, F: name}, Named(name, body))
		} else {
			core = Cat(Named(name, body), &Node{K: KNref, F: name})
		}
	case "named-group":
		core = Named(rapid.SampledFrom([]string{"n", "name", "x1", "_a", "G2"}).Draw(t, "groupName"), body)
	}
	// context: never introduces capturing groups before the planted construct
	// (the back-reference number stays 1) and never quantifies look-around
	// directly (not allowed in `u` mode)
	noCap := func(n *Node) *Node {
		c := cloneAST(n)
		Walk(c, func(m *Node, _ bool) {
			if m.K == KGrp {
				m.K = KNcg
			}
		})
		return c
	}
	asTerm := func(n *Node) *Node {
		if n.K == KAlt {
			return Grp(KNcg, n)
		}
		return n
	}
	wrap := rapid.IntRange(0, 7).Draw(t, "context")
	switch wrap {
	case 0:
		return core, kind
	case 1:
		return Cat(asTerm(noCap(DrawAST(t, 4, o))), core), kind
	case 2:
		return Cat(core, asTerm(DrawAST(t, 4, o))), kind
	case 3:
		return Alt(asTerm(noCap(DrawAST(t, 3, o))), core), kind
	case 4:
		return Grp(KNcg, core), kind
	case 5:
		return Rep(Grp(KNcg, core), Q(rapid.SampledFrom([]string{"*", "+", "?"}).Draw(t, "q"), 0, 0, false)), kind
	case 6:
		// after a class that holds the characters of a group opener
		return Cat(Class(false, Single(Lit('(')), Single(Lit('?')), Single(Lit('=')), Single(Lit('<'))), core), kind
	default:
		return Cat(asTerm(noCap(DrawAST(t, 3, o))), Grp(KNcg, core), asTerm(DrawAST(t, 3, o))), kind
	}
}

func cloneAST(n *Node) *Node {
	c := *n
	c.Sub = nil
	for _, s := range n.Sub {
		c.Sub = append(c.Sub, cloneAST(s))
	}
	c.Items = nil
	for _, it := range n.Items {
		ni := Item{Lo: it.Lo}
		if it.Hi != nil {
			h := *it.Hi
			ni.Hi = &h
		}
		c.Items = append(c.Items, ni)
	}
	return &c
}
