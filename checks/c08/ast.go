// Package c08 decides property C08: a schema pattern that ogen executes on the
// linear-time engine (Go regexp, after ogenregex.Convert) accepts exactly the
// strings the original ECMA-262 `u`-mode pattern accepts; patterns that cannot
// be expressed there run on the backtracking ECMAScript engine; a compiled
// pattern reports its source text.
//
// ast.go: the pattern AST (JSON round-trippable, so a failing case can be
// replayed without a pattern parser), its printer and structural predicates.
package c08

import (
	"fmt"
	"strings"
)

// Node kinds.
const (
	KLit   = "lit"   // literal source character R (not a syntax character)
	KEsc   = "esc"   // character escape of form F denoting R
	KDot   = "dot"   // .
	KBol   = "bol"   // ^
	KEol   = "eol"   // $
	KWb    = "wb"    // \b
	KNwb   = "nwb"   // \B
	KCesc  = "cesc"  // class escape \d \D \w \W \s \S (F = letter)
	KProp  = "prop"  // \p{F} (Neg: \P{F})
	KClass = "class" // [items] / [^items]
	KGrp   = "grp"   // ( … )
	KNcg   = "ncg"   // (?: … )
	KAlt   = "alt"   // a|b|…
	KCat   = "cat"   // ab…
	KRep   = "rep"   // quantifier, F = spelling, Min/Max (-1 = unbounded), Lazy
	KEmpty = "empty" // empty alternative / empty group body
	// fall-back family (not expressible on the linear-time engine)
	KLa   = "la"   // (?= … )
	KNla  = "nla"  // (?! … )
	KLb   = "lb"   // (?<= … )
	KNlb  = "nlb"  // (?<! … )
	KBref = "bref" // \N, N = Min
	KNgrp = "ngrp" // (?<F> … )
	KNref = "nref" // \k<F>
)

// Escape forms (Node.F of an "esc" node). R is the denoted code point, V a
// spelling variant (bit 0: lower-case hex digits / lower-case control letter;
// bits 1..2: number of leading zeros of \u{…}).
const (
	FCtl  = "ctl" // \t \n \v \f \r (R = 9,10,11,12,13)
	FNul  = "nul" // \0
	FHex  = "x"   // \xHH
	FU4   = "u"   // \uHHHH (R is not a surrogate)
	FUb   = "ub"  // \u{H…}
	FSp   = "sp"  // \uHHHH\uHHHH surrogate pair (R ≥ U+10000)
	FCx   = "c"   // \cX, R = 1..26
	FId   = "id"  // identity escape of a syntax character
	FBksp = "b"   // \b inside a class: U+0008
)

// Node is one AST node.
type Node struct {
	K    string  `json:"k"`
	R    int32   `json:"r,omitempty"`
	F    string  `json:"f,omitempty"`
	V    int     `json:"v,omitempty"`
	Neg  bool    `json:"neg,omitempty"`
	Lazy bool    `json:"lazy,omitempty"`
	Min  int     `json:"min,omitempty"`
	Max  int     `json:"max,omitempty"`
	Sub  []*Node `json:"sub,omitempty"`
	// class members
	Items []Item `json:"items,omitempty"`
}

// Item is one class member: a single atom (lit, esc, cesc, prop) or a range Lo-Hi
// (lit/esc ends only).
type Item struct {
	Lo Node  `json:"lo"`
	Hi *Node `json:"hi,omitempty"`
}

// ---- constructors -----------------------------------------------------------

func Lit(r rune) *Node                  { return &Node{K: KLit, R: r} }
func Esc(f string, r rune, v int) *Node { return &Node{K: KEsc, F: f, R: r, V: v} }
func Leaf(k string) *Node               { return &Node{K: k} }
func Cesc(letter string) *Node          { return &Node{K: KCesc, F: letter} }
func Prop(name string, neg bool) *Node  { return &Node{K: KProp, F: name, Neg: neg} }
func Class(neg bool, items ...Item) *Node {
	return &Node{K: KClass, Neg: neg, Items: items}
}
func Single(n *Node) Item            { return Item{Lo: *n} }
func Range(lo, hi *Node) Item        { h := *hi; return Item{Lo: *lo, Hi: &h} }
func Grp(k string, body *Node) *Node { return &Node{K: k, Sub: []*Node{body}} }
func Named(name string, body *Node) *Node {
	return &Node{K: KNgrp, F: name, Sub: []*Node{body}}
}
func Alt(subs ...*Node) *Node { return &Node{K: KAlt, Sub: subs} }
func Cat(subs ...*Node) *Node {
	// flatten nested concatenations
	var out []*Node
	for _, s := range subs {
		if s.K == KCat {
			out = append(out, s.Sub...)
		} else {
			out = append(out, s)
		}
	}
	if len(out) == 1 {
		return out[0]
	}
	return &Node{K: KCat, Sub: out}
}

// Quant describes one quantifier spelling.
type Quant struct {
	F        string
	Min, Max int
	Lazy     bool
}

func (q Quant) String() string {
	var s string
	switch q.F {
	case "*", "+", "?":
		s = q.F
	case "{n}":
		s = fmt.Sprintf("{%d}", q.Min)
	case "{n,}":
		s = fmt.Sprintf("{%d,}", q.Min)
	case "{n,m}":
		s = fmt.Sprintf("{%d,%d}", q.Min, q.Max)
	default:
		s = "<bad quantifier " + q.F + ">"
	}
	if q.Lazy {
		s += "?"
	}
	return s
}

// Q builds a consistent quantifier from a spelling and its numbers.
func Q(f string, n, m int, lazy bool) Quant {
	switch f {
	case "*":
		return Quant{f, 0, -1, lazy}
	case "+":
		return Quant{f, 1, -1, lazy}
	case "?":
		return Quant{f, 0, 1, lazy}
	case "{n}":
		return Quant{f, n, n, lazy}
	case "{n,}":
		return Quant{f, n, -1, lazy}
	case "{n,m}":
		if m < n {
			m = n
		}
		return Quant{f, n, m, lazy}
	}
	panic("bad quantifier spelling " + f)
}

func Rep(body *Node, q Quant) *Node {
	return &Node{K: KRep, F: q.F, Min: q.Min, Max: q.Max, Lazy: q.Lazy, Sub: []*Node{body}}
}

// ---- printer ----------------------------------------------------------------

// syntax characters of the `u`-mode grammar that can never be a raw literal
// outside a class.
const syntaxChars = `^$\.*+?()[]{}|`

func isSyntaxChar(r rune) bool { return r < 128 && strings.ContainsRune(syntaxChars, r) }

func hexStr(v int32, width int, lower bool) string {
	s := fmt.Sprintf("%0*X", width, v)
	if lower {
		s = strings.ToLower(s)
	}
	return s
}

// escText spells an escape node.
func escText(n *Node, inClass bool) (string, error) {
	lower := n.V&1 == 1
	switch n.F {
	case FCtl:
		switch n.R {
		case 9:
			return `\t`, nil
		case 10:
			return `\n`, nil
		case 11:
			return `\v`, nil
		case 12:
			return `\f`, nil
		case 13:
			return `\r`, nil
		}
		return "", fmt.Errorf("bad control escape %d", n.R)
	case FNul:
		if n.R != 0 {
			return "", fmt.Errorf("bad \\0")
		}
		return `\0`, nil
	case FHex:
		if n.R < 0 || n.R > 0xFF {
			return "", fmt.Errorf("bad \\x value %x", n.R)
		}
		return `\x` + hexStr(n.R, 2, lower), nil
	case FU4:
		if n.R < 0 || n.R > 0xFFFF || n.R >= 0xD800 && n.R <= 0xDFFF {
			return "", fmt.Errorf("bad \\u value %x", n.R)
		}
		return `\u` + hexStr(n.R, 4, lower), nil
	case FUb:
		if n.R < 0 || n.R > 0x10FFFF || n.R >= 0xD800 && n.R <= 0xDFFF {
			return "", fmt.Errorf("bad \\u{} value %x", n.R)
		}
		zeros := (n.V >> 1) & 3
		return `\u{` + strings.Repeat("0", zeros) + hexStr(n.R, 1, lower) + `}`, nil
	case FSp:
		if n.R < 0x10000 || n.R > 0x10FFFF {
			return "", fmt.Errorf("bad surrogate pair value %x", n.R)
		}
		v := n.R - 0x10000
		return `\u` + hexStr(0xD800+(v>>10), 4, lower) + `\u` + hexStr(0xDC00+(v&0x3FF), 4, lower), nil
	case FCx:
		if n.R < 1 || n.R > 26 {
			return "", fmt.Errorf("bad \\c value %d", n.R)
		}
		base := int32('A')
		if lower {
			base = 'a'
		}
		return `\c` + string(rune(base+n.R-1)), nil
	case FId:
		if isSyntaxChar(n.R) || n.R == '/' || inClass && n.R == '-' {
			return `\` + string(rune(n.R)), nil
		}
		return "", fmt.Errorf("identity escape of %q is not portable", rune(n.R))
	case FBksp:
		if !inClass || n.R != 8 {
			return "", fmt.Errorf("\\b as a character only inside a class")
		}
		return `\b`, nil
	}
	return "", fmt.Errorf("unknown escape form %q", n.F)
}

type printer struct {
	b   strings.Builder
	err error
	// the last thing written was \0 or a decimal back-reference: a following
	// decimal digit would change its meaning (\00 and \10 are different tokens)
	digitSensitive bool
}

func (p *printer) fail(format string, a ...any) {
	if p.err == nil {
		p.err = fmt.Errorf(format, a...)
	}
}

func (p *printer) emit(s string) {
	if s == "" {
		return
	}
	if p.digitSensitive && s[0] >= '0' && s[0] <= '9' {
		p.fail("a decimal digit directly after \\0 or \\N is not expressible")
	}
	p.digitSensitive = false
	p.b.WriteString(s)
}

func (p *printer) classAtom(n *Node, first, last, neg bool) {
	switch n.K {
	case KLit:
		r := rune(n.R)
		switch {
		case r == '\\' || r == ']':
			p.fail("raw %q inside a class", r)
		case r == '-' && !(first || last):
			p.fail("raw '-' in the middle of a class")
		case r == '^' && first && !neg:
			p.fail("raw '^' first in a class")
		}
		p.emit(string(r))
	case KEsc:
		s, err := escText(n, true)
		if err != nil {
			p.fail("%v", err)
		}
		p.emit(s)
		if n.F == FNul {
			p.digitSensitive = true
		}
	case KCesc:
		p.emit(`\` + n.F)
	case KProp:
		p.prop(n)
	default:
		p.fail("node %q is not a class atom", n.K)
	}
}

func (p *printer) prop(n *Node) {
	if n.Neg {
		p.emit(`\P{` + n.F + `}`)
	} else {
		p.emit(`\p{` + n.F + `}`)
	}
}

func isAtom(n *Node) bool {
	switch n.K {
	case KLit, KEsc, KDot, KCesc, KProp, KClass, KGrp, KNcg, KNgrp, KBref, KNref:
		return true
	}
	return false
}

func (p *printer) node(n *Node) {
	switch n.K {
	case KLit:
		if isSyntaxChar(rune(n.R)) {
			p.fail("raw syntax character %q", rune(n.R))
		}
		p.emit(string(rune(n.R)))
	case KEsc:
		s, err := escText(n, false)
		if err != nil {
			p.fail("%v", err)
		}
		p.emit(s)
		if n.F == FNul {
			p.digitSensitive = true
		}
	case KDot:
		p.emit(".")
	case KBol:
		p.emit("^")
	case KEol:
		p.emit("$")
	case KWb:
		p.emit(`\b`)
	case KNwb:
		p.emit(`\B`)
	case KCesc:
		p.emit(`\` + n.F)
	case KProp:
		p.prop(n)
	case KClass:
		if n.Neg {
			p.emit("[^")
		} else {
			p.emit("[")
		}
		for i, it := range n.Items {
			first, last := i == 0, i == len(n.Items)-1
			if it.Hi == nil {
				p.classAtom(&it.Lo, first, last, n.Neg)
				continue
			}
			if it.Lo.K == KCesc || it.Lo.K == KProp || it.Hi.K == KCesc || it.Hi.K == KProp {
				p.fail("class escape as a range end")
			}
			// '-' as a range end must be escaped
			if it.Lo.K == KLit && it.Lo.R == '-' || it.Hi.K == KLit && it.Hi.R == '-' {
				p.fail("raw '-' as a range end")
			}
			p.classAtom(&it.Lo, first, false, n.Neg)
			p.digitSensitive = false
			p.emit("-")
			p.classAtom(it.Hi, false, false, n.Neg)
		}
		p.digitSensitive = false
		p.emit("]")
	case KGrp, KNcg, KNgrp, KLa, KNla, KLb, KNlb:
		open := map[string]string{KGrp: "(", KNcg: "(?:", KLa: "(?=", KNla: "(?!", KLb: "(?<=", KNlb: "(?<!"}[n.K]
		if n.K == KNgrp {
			open = "(?<" + n.F + ">"
		}
		p.emit(open)
		if len(n.Sub) != 1 {
			p.fail("group needs one child")
			return
		}
		p.node(n.Sub[0])
		p.digitSensitive = false
		p.emit(")")
	case KAlt:
		for i, s := range n.Sub {
			if i > 0 {
				p.digitSensitive = false
				p.emit("|")
			}
			if s.K == KAlt {
				p.fail("alternation directly inside alternation")
			}
			p.node(s)
		}
	case KCat:
		for _, s := range n.Sub {
			if s.K == KAlt {
				p.fail("alternation directly inside concatenation")
			}
			p.node(s)
		}
	case KRep:
		if len(n.Sub) != 1 {
			p.fail("quantifier needs one child")
			return
		}
		if !isAtom(n.Sub[0]) {
			p.fail("quantifier over non-atom %q", n.Sub[0].K)
		}
		p.node(n.Sub[0])
		p.digitSensitive = false
		p.emit(Quant{n.F, n.Min, n.Max, n.Lazy}.String())
	case KEmpty:
	case KBref:
		p.emit(fmt.Sprintf(`\%d`, n.Min))
		p.digitSensitive = true
	case KNref:
		p.emit(`\k<` + n.F + `>`)
	default:
		p.fail("unknown node kind %q", n.K)
	}
}

// Print spells the AST as ECMA-262 `u`-mode source. An error means the tree has
// no faithful spelling (generator bug or an unprintable adjacency such as \0
// followed by a digit); such trees are skipped and counted.
func Print(n *Node) (string, error) {
	var p printer
	p.node(n)
	if p.err != nil {
		return "", p.err
	}
	return p.b.String(), nil
}

// ---- structural predicates ----------------------------------------------------

// Walk visits every node, class members included.
func Walk(n *Node, f func(n *Node, inClass bool)) {
	f(n, false)
	for i := range n.Items {
		f(&n.Items[i].Lo, true)
		if n.Items[i].Hi != nil {
			f(n.Items[i].Hi, true)
		}
	}
	for _, s := range n.Sub {
		Walk(s, f)
	}
}

// Size is the node count: binary concatenation/alternation nodes, one per class
// plus one per class atom; flags (negation, laziness) are free.
func Size(n *Node) int {
	switch n.K {
	case KEmpty:
		return 0
	case KCat, KAlt:
		s := len(n.Sub) - 1
		for _, c := range n.Sub {
			s += Size(c)
		}
		return s
	case KClass:
		s := 1
		for _, it := range n.Items {
			s++
			if it.Hi != nil {
				s++
			}
		}
		return s
	}
	s := 1
	for _, c := range n.Sub {
		s += Size(c)
	}
	return s
}

// Constructs lists the constructs of the pattern that ogen's converter has to
// REWRITE for RE2 (the property's non-triviality rule), sorted, distinct.
func Constructs(n *Node) []string {
	set := map[string]bool{}
	Walk(n, func(m *Node, inClass bool) {
		switch m.K {
		case KDot:
			set["dot"] = true
		case KCesc:
			if m.F == "s" || m.F == "S" {
				if inClass {
					set["class-"+m.F] = true
				} else {
					set[m.F] = true
				}
			}
		case KProp:
			set["prop"] = true
		case KClass:
			if len(m.Items) == 0 {
				if m.Neg {
					set["any-class"] = true
				} else {
					set["empty-class"] = true
				}
			}
		case KEsc:
			switch m.F {
			case FCx:
				set["c"] = true
			case FU4:
				set["u4"] = true
			case FUb:
				set["ubrace"] = true
			case FSp:
				set["surrogate-pair"] = true
			case FBksp:
				set["class-b"] = true
			}
		}
	})
	return sortedKeys(set)
}

// FallbackKinds lists the constructs that RE2 cannot express.
func FallbackKinds(n *Node) []string {
	set := map[string]bool{}
	Walk(n, func(m *Node, _ bool) {
		switch m.K {
		case KLa, KNla:
			set["lookahead"] = true
		case KLb, KNlb:
			set["lookbehind"] = true
		case KBref:
			set["backreference"] = true
		case KNref:
			set["named-backreference"] = true
		case KNgrp:
			set["named-group"] = true
		}
	})
	return sortedKeys(set)
}

func sortedKeys(set map[string]bool) []string {
	out := make([]string, 0, len(set))
	for k := range set {
		out = append(out, k)
	}
	// insertion sort: tiny
	for i := 1; i < len(out); i++ {
		for j := i; j > 0 && out[j] < out[j-1]; j-- {
			out[j], out[j-1] = out[j-1], out[j]
		}
	}
	return out
}

func has(list []string, s string) bool {
	for _, x := range list {
		if x == s {
			return true
		}
	}
	return false
}

// Mentioned returns the code points the pattern names explicitly (literals,
// escapes, range ends and their outer neighbours), sorted, distinct.
func Mentioned(n *Node) []rune {
	set := map[rune]bool{}
	add := func(r rune) {
		if r >= 0 && r <= 0x10FFFF && !(r >= 0xD800 && r <= 0xDFFF) {
			set[r] = true
		}
	}
	Walk(n, func(m *Node, _ bool) {
		if m.K == KLit || m.K == KEsc {
			add(rune(m.R))
		}
		for _, it := range m.Items {
			if it.Hi != nil {
				add(rune(it.Lo.R) - 1)
				add(rune(it.Hi.R) + 1)
			}
		}
	})
	out := make([]rune, 0, len(set))
	for r := range set {
		out = append(out, r)
	}
	for i := 1; i < len(out); i++ {
		for j := i; j > 0 && out[j] < out[j-1]; j-- {
			out[j], out[j-1] = out[j-1], out[j]
		}
	}
	return out
}
