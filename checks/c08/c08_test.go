package c08

// c08_test.go: the units of property C08.
//
//	oracle-selftest   frozen (pattern, subject, V8 verdict) table replayed against the reference matcher
//	exhaustive        every AST up to a size bound x every subject up to a length bound
//	random            rapid ASTs up to size ~12 x sampled/mutated/random subjects
//	unicode-property  \p{..} / \P{..} planted in small contexts (separately labelled family)
//	fallback-family   look-around, back-references, named groups: engine choice and String()
//
// Verdict rule. ogen's verdict is compared only when Compile returned the
// RE2-backed engine. An alarm needs TWO agreeing independent oracles against
// ogen: the reference matcher (ref.go) and regexp2 compiled directly with
// ECMAScript|Unicode; where regexp2 sides with ogen (it deviates from ECMA-262
// on dot/U+2028, Unicode \b, surrogate-pair escapes, "[:" in classes) the
// frozen V8 verdict for that exact (pattern, subject) is the second oracle;
// without one the pair is counted as undecided (and, for the evidence, split
// into "reproduced by a known-defect model" and "UNEXPLAINED").
//
// Deviations from DESIGN.md §C08 (for its changelog):
//   - a named group without back-reference is expressible on RE2: either engine
//     is admitted, verdicts are compared when RE2 (the design demanded regexp2);
//   - node is never used at run time (no third live oracle in the thorough
//     tier); the frozen table doubles as tie-breaking oracle instead;
//   - V8's plain .test() is not used for the table (zero-width matches inside a
//     surrogate pair), see tools/v8eval.js;
//   - subjects additionally include short strings over the code points a
//     pattern names, otherwise escapes of syntax characters, \t, \f, \0, \cA,
//     [\b] could never match anything in the fixed alphabet;
//   - surrogate-pair escapes and POSIX-bracket lookalike classes were added to
//     the grammar (both valid `u`-mode syntax; both turned out to be defects);
//   - size-4 ASTs meet subjects of length <= 2 (plus a seed-dependent eighth of
//     them length <= 3) to stay inside the time budget.

import (
	"bufio"
	"compress/gzip"
	"encoding/hex"
	"encoding/json"
	"fmt"
	"os"
	"path/filepath"
	"strings"
	"sync"
	"testing"
	"time"

	"github.com/dlclark/regexp2"
	"pgregory.net/rapid"

	"github.com/ogen-go/ogen/ogenregex"

	"verif/internal/vk"
)

// ---- the three engines over one pattern ---------------------------------------------

const (
	engineRE2     = "re2"
	engineRegexp2 = "regexp2"
)

type compiled struct {
	pat        string
	ast        *Node
	og         ogenregex.Regexp
	engine     string
	r2         *regexp2.Regexp // oracle (i): regexp2 compiled directly
	ref        *Prog           // oracle (ii): reference matcher
	constructs []string        // rewritten constructs in the pattern
	fallback   []string        // constructs RE2 cannot express
	quirk      map[string]*Prog
	cls        classifyCache
	r2TimedOut bool
}

// engineOf tells which implementation Compile returned, by its dynamic type.
func engineOf(r ogenregex.Regexp) string {
	switch tn := fmt.Sprintf("%T", r); tn {
	case "ogenregex.goRegexp":
		return engineRE2
	case "ogenregex.regexp2Regexp":
		return engineRegexp2
	default:
		return "unknown:" + tn
	}
}

// compileAll prepares the pattern for all engines. skip != "" means the case is
// outside what can be judged (counted under that label); a finding is a
// violation that does not need a subject.
func compileAll(ast *Node) (c *compiled, skip string, f *vk.Finding) {
	pat, err := Print(ast)
	if err != nil {
		return nil, "skip:unprintable", nil
	}
	c = &compiled{pat: pat, ast: ast, constructs: Constructs(ast), fallback: FallbackKinds(ast)}
	c.ref, err = CompileRef(ast)
	if err != nil && len(c.fallback) == 0 {
		return nil, "skip:reference-does-not-model", nil
	}
	c.r2, err = regexp2.Compile(pat, regexp2.ECMAScript|regexp2.Unicode)
	if err != nil {
		c.r2 = nil
	} else {
		c.r2.MatchTimeout = time.Second
	}
	og, err := ogenregex.Compile(pat)
	if err != nil {
		if c.r2 != nil && mustFallBack(c.fallback) {
			// "are executed by the backtracking ECMAScript engine instead": an error is not an execution
			return nil, "", vk.F("fallback-pattern-rejected", "Compile(%q) fails (%v) although regexp2 in ECMAScript|Unicode mode accepts the pattern", pat, err)
		}
		if c.r2 != nil {
			// a regular pattern that is not executed at all: outside the property's first clause
			return nil, "skip:compile-error-on-regular-pattern", nil
		}
		// the ECMAScript engine itself refuses the pattern: nothing runs, nothing to compare
		return nil, "skip:regexp2-rejects-pattern", nil
	}
	c.og = og
	c.engine = engineOf(og)
	if got := og.String(); got != pat {
		return c, "", vk.F("source-text-not-reported", "Compile(%q).String() = %q (engine %s)", pat, got, c.engine)
	}
	if strings.HasPrefix(c.engine, "unknown") {
		return c, "", vk.F("unknown-engine-type", "Compile(%q) returned %s", pat, c.engine)
	}
	for _, k := range c.fallback {
		if k != "named-group" && c.engine != engineRegexp2 {
			return c, "", vk.F("fallback-approximated-on-re2", "pattern %q holds a %s, which RE2 cannot express, but Compile returned the RE2-backed %T", pat, k, og)
		}
	}
	return c, "", nil
}

// mustFallBack: does the pattern hold a construct that RE2 cannot express (a
// named group alone can be expressed)?
func mustFallBack(kinds []string) bool {
	for _, k := range kinds {
		if k != "named-group" {
			return true
		}
	}
	return false
}

// ---- models of the known defects (classifiers) -------------------------------------------

// A quirk is a model of one root cause: an AST-to-AST transformation that
// reproduces what ogen's converter does wrong. A disagreement is attributed to
// the quirk iff the reference matcher, run on the transformed AST, returns
// ogen's verdict.
type quirkModel struct {
	classifier string
	applies    func(c *compiled) bool
	transform  func(*Node) *Node
}

func mapAST(n *Node, f func(*Node) *Node) *Node {
	c := *n
	c.Sub = nil
	for _, s := range n.Sub {
		c.Sub = append(c.Sub, mapAST(s, f))
	}
	return f(&c)
}

func litSeq(s string) []*Node {
	var out []*Node
	for _, r := range s {
		out = append(out, Lit(r)) // never printed, only matched
	}
	return out
}

func propText(n *Node) string {
	if n.Neg {
		return "P{" + n.F + "}"
	}
	return "p{" + n.F + "}"
}

var quirks = []quirkModel{
	{
		// convert.go scanBracket: "[]" → [^\x00-\x{1FFFF}], "[^]" → [\x00-\x{1FFFF}]
		classifier: "empty-class-bound-1ffff",
		applies: func(c *compiled) bool {
			return has(c.constructs, "any-class") || has(c.constructs, "empty-class")
		},
		transform: func(ast *Node) *Node {
			return mapAST(ast, func(n *Node) *Node {
				if n.K == KClass && len(n.Items) == 0 && n.F == "" {
					return Class(!n.Neg, Range(Esc(FNul, 0, 0), Esc(FUb, 0x1FFFF, 0)))
				}
				return n
			})
		},
	},
	{
		// convert.go scanEscape default branch: 'p'/'P' are identifier characters,
		// so the backslash is dropped and p{Name} becomes literal text
		classifier: "unicode-property-unescaped",
		applies:    func(c *compiled) bool { return has(c.constructs, "prop") },
		transform: func(ast *Node) *Node {
			return mapAST(ast, func(n *Node) *Node {
				switch {
				case n.K == KProp:
					return &Node{K: KCat, Sub: litSeq(propText(n))}
				case n.K == KRep && isPropSeq(n.Sub[0]):
					// the quantifier binds to the last character only
					seq := n.Sub[0].Sub
					last := *n
					last.Sub = []*Node{seq[len(seq)-1]}
					return &Node{K: KCat, Sub: append(append([]*Node{}, seq[:len(seq)-1]...), &last)}
				case n.K == KClass:
					c := *n
					c.Items = nil
					for _, it := range n.Items {
						if it.Hi == nil && it.Lo.K == KProp {
							for _, l := range litSeq(propText(&it.Lo)) {
								c.Items = append(c.Items, Single(l))
							}
						} else {
							c.Items = append(c.Items, it)
						}
					}
					return &c
				}
				return n
			})
		},
	},
}

func init() {
	quirks = append([]quirkModel{{ // the still-open defect goes first; models of repaired ones stay to name a regression
		// convert.go scanEscape: every \uHHHH becomes \x{HHHH} on its own, so a
		// lead/trail surrogate pair turns into two code points that no UTF-8
		// subject can hold instead of the one astral code point it denotes
		classifier: "surrogate-pair-escape-split",
		applies:    func(c *compiled) bool { return has(c.constructs, "surrogate-pair") },
		transform: func(ast *Node) *Node {
			never := func() *Node { return &Node{K: KClass, F: "split-surrogate"} }
			return mapAST(ast, func(n *Node) *Node {
				switch {
				case n.K == KEsc && n.F == FSp:
					return never()
				case n.K == KRep && n.Sub[0].K == KClass && n.Sub[0].F == "split-surrogate":
					// \x{D840}\x{DC00}? : the lead half is still mandatory
					return never()
				case n.K == KClass:
					c := *n
					c.Items = nil
					for _, it := range n.Items {
						lo, hi := it.Lo, it.Hi
						switch {
						case hi == nil && lo.K == KEsc && lo.F == FSp:
							continue // two members that match nothing
						case hi != nil && (lo.K == KEsc && lo.F == FSp || hi.K == KEsc && hi.F == FSp):
							// [\x{D840}\x{DC00}-\x{DBFF}\x{DFFF}]: the range runs from the
							// trail half of the lower end to the lead half of the upper end
							nl, nh := lo, *hi
							if lo.K == KEsc && lo.F == FSp {
								nl = *Esc(FUb, 0xDC00+(rune(lo.R)-0x10000)&0x3FF, 0)
							}
							if hi.K == KEsc && hi.F == FSp {
								nh = *Esc(FUb, 0xD800+(rune(hi.R)-0x10000)>>10, 0)
							}
							c.Items = append(c.Items, Item{Lo: nl, Hi: &nh})
						default:
							c.Items = append(c.Items, it)
						}
					}
					if len(c.Items) == 0 && len(n.Items) > 0 {
						// keep "matches nothing"/"matches everything" without looking
						// like the literal [] / [^] of the other model
						c.F = "split-surrogate-class"
					}
					return &c
				}
				return n
			})
		},
	}}, quirks...)
}

// isPropSeq recognises the literal sequence the transformation above planted
// (children are visited before parents in mapAST).
func isPropSeq(n *Node) bool {
	if n.K != KCat || len(n.Sub) < 4 {
		return false
	}
	if r := n.Sub[0].R; n.Sub[0].K != KLit || r != 'p' && r != 'P' {
		return false
	}
	return n.Sub[1].K == KLit && n.Sub[1].R == '{' && n.Sub[len(n.Sub)-1].K == KLit && n.Sub[len(n.Sub)-1].R == '}'
}

func (c *compiled) quirkProg(q *quirkModel) *Prog {
	if p, ok := c.quirk[q.classifier]; ok {
		return p
	}
	if c.quirk == nil {
		c.quirk = map[string]*Prog{}
	}
	p, err := CompileRef(q.transform(c.ast))
	if err != nil {
		p = nil
	}
	c.quirk[q.classifier] = p
	return p
}

// classify names the root-cause shape of "ogen's RE2 verdict differs from the
// agreed oracle verdict" on subject s.
type classifyCache struct {
	done       bool
	applicable []*quirkModel
	combined   *Prog            // all applicable models together
	repaired   ogenregex.Regexp // the pattern with '[' class members escaped, compiled by ogen on RE2
	// … or that repaired pattern does not compile on RE2 at all
	repairedLeavesRE2 bool
}

func (c *compiled) prepareClassify() *classifyCache {
	cc := &c.cls
	if cc.done {
		return cc
	}
	cc.done = true
	for i := range quirks {
		if q := &quirks[i]; q.applies(c) {
			cc.applicable = append(cc.applicable, q)
		}
	}
	if len(cc.applicable) > 0 {
		ast := c.ast
		for _, q := range cc.applicable {
			ast = q.transform(ast)
		}
		if p, err := CompileRef(ast); err == nil {
			cc.combined = p
		}
	}
	if HasPosixLookalike(c.ast) {
		if pat, err := Print(escapeClassBrackets(c.ast)); err == nil {
			if re, err := ogenregex.Compile(pat); err == nil && engineOf(re) == engineRE2 {
				cc.repaired = re
			} else {
				// with the bracket escaped RE2 refuses the pattern (e.g. a bound
				// above 1000 that the run-on class had swallowed): the pattern is on
				// RE2 only because of the lookalike
				cc.repairedLeavesRE2 = true
			}
		}
	}
	return cc
}

// explain attributes "ogen's RE2 verdict got differs from the ECMA-262 verdict
// want on subject s" to one of the modelled root causes, or returns "".
func (c *compiled) explain(s string, got, want bool) string {
	cc := c.prepareClassify()
	for _, q := range cc.applicable {
		if p := c.quirkProg(q); p != nil && p.Match(s) == got {
			return q.classifier
		}
	}
	// several classified constructs in one pattern: the verdict is attributed to
	// the first of them iff all the models together reproduce it
	if len(cc.applicable) > 1 && cc.combined != nil && cc.combined.Match(s) == got {
		return cc.applicable[0].classifier
	}
	if cc.repaired != nil {
		// counterfactual: with the '[' members escaped (\[), which is all a
		// converter would have to do, is the verdict the expected one (or the one
		// the other models predict)?
		if g2, err := cc.repaired.MatchString(s); err == nil && (g2 == want || cc.combined != nil && g2 == cc.combined.Match(s)) {
			return "class-posix-lookalike-unescaped"
		}
	}
	if cc.repairedLeavesRE2 {
		return "class-posix-lookalike-unescaped"
	}
	return ""
}

// classify names the root-cause shape of a disagreement.
func (c *compiled) classify(s string, got, want bool) string {
	if k := c.explain(s, got, want); k != "" {
		return k
	}
	if len(c.constructs) == 0 {
		return "re2-verdict-differs-plain"
	}
	return "re2-verdict-differs-" + strings.Join(c.constructs, "+")
}

// escapeClassBrackets spells every raw '[' class member as \[.
func escapeClassBrackets(ast *Node) *Node {
	return mapAST(ast, func(n *Node) *Node {
		if n.K != KClass {
			return n
		}
		c := *n
		c.Items = nil
		for _, it := range n.Items {
			if it.Hi == nil && it.Lo.K == KLit && it.Lo.R == '[' {
				it = Single(Esc(FId, '[', 0))
			}
			c.Items = append(c.Items, it)
		}
		return &c
	})
}

// ---- judging one (pattern, subject) pair ----------------------------------------------------

type outcome int

const (
	oAgree          outcome = iota // ogen == reference (whatever regexp2 says)
	oAlarm                         // two independent oracles agree against ogen
	oUndecided                     // reference and regexp2 disagree, no third verdict
	oOracleConflict                // frozen V8 verdict contradicts the reference matcher: oracle bug
	oNotCompared                   // pattern runs on regexp2: matching is not part of the property
	oError                         // MatchString returned an error
)

type pairResult struct {
	out       outcome
	want, got bool
	r2OK      bool // regexp2 produced a verdict
	r2        bool
	via       string // which oracle pair decided an alarm
}

// judge compares ogen with the oracles on one subject. v8 is the frozen V8
// verdict for this exact (pattern, subject) when there is one.
func (c *compiled) judge(s string, v8 *bool) pairResult {
	if c.engine != engineRE2 || c.ref == nil {
		return pairResult{out: oNotCompared}
	}
	got, err := c.og.MatchString(s)
	if err != nil {
		return pairResult{out: oError}
	}
	want := c.ref.Match(s)
	r := pairResult{want: want, got: got}
	if c.r2 != nil {
		if m, err := c.r2.MatchString(s); err == nil {
			r.r2OK, r.r2 = true, m
		} else {
			// match timeout: regexp2 loops on a few shapes, e.g. (()+?)? on any
			// subject. One timeout per pattern is enough: oracle (i) is dropped
			// for the remaining subjects of this pattern.
			c.r2 = nil
			c.r2TimedOut = true
		}
	}
	if v8 != nil && *v8 != want {
		r.out = oOracleConflict
		return r
	}
	if got == want {
		r.out = oAgree
		return r
	}
	switch {
	case r.r2OK && r.r2 == want:
		r.out, r.via = oAlarm, "reference matcher and regexp2"
	case v8 != nil:
		r.out, r.via = oAlarm, "reference matcher and the frozen V8 verdict (regexp2 deviates from ECMA-262 here)"
	default:
		r.out = oUndecided
	}
	return r
}

func (c *compiled) alarm(s string, r pairResult) *vk.Finding {
	conv, _ := ogenregex.Convert(c.pat)
	return vk.F(c.classify(s, r.got, r.want), "pattern %q (converted to %q, engine RE2) on subject %q: ogen says match=%v, ECMA-262 says %v (%s agree)",
		c.pat, conv, s, r.got, r.want, r.via)
}

// ---- case type ----------------------------------------------------------------------------

// patCase is one pattern with its subjects. Pattern is informational (the AST
// is authoritative and re-printed).
type patCase struct {
	Ast      *Node    `json:"ast"`
	Pattern  string   `json:"pattern,omitempty"`
	Subjects []string `json:"subjects"`
	Family   string   `json:"family,omitempty"`
}

type caseStats struct {
	pairs, agree, undecided, undecidedExplained, notCompared, r2Deviates, errors int
	undecidedSamples                                                             []string
	sawMatch, sawNonMatch                                                        bool
	conflicts                                                                    []string
}

// checkCase is the oracle: first finding of the case, plus statistics.
func checkCase(c patCase, tab *v8Table) (*vk.Finding, *compiled, string, caseStats) {
	var st caseStats
	if c.Ast == nil {
		return nil, nil, "skip:no-ast", st
	}
	var cp *compiled
	var skip string
	f := vk.Guard("compile-panic", func() *vk.Finding {
		var f *vk.Finding
		cp, skip, f = compileAll(c.Ast)
		return f
	})
	if f != nil || skip != "" {
		return f, cp, skip, st
	}
	var first *vk.Finding
	for _, s := range c.Subjects {
		if len([]rune(s)) > maxSubject {
			continue
		}
		r := cp.judge(s, tab.lookup(cp.pat, s))
		st.pairs++
		switch r.out {
		case oNotCompared:
			st.notCompared++
			continue
		case oError:
			st.errors++
			continue
		case oOracleConflict:
			st.conflicts = append(st.conflicts, fmt.Sprintf("pattern %q subject %q: reference=%v frozen V8=%v", cp.pat, s, r.want, !r.want))
			continue
		case oAgree:
			st.agree++
		case oUndecided:
			st.undecided++
			if k := cp.explain(s, r.got, r.want); k != "" {
				st.undecidedExplained++
			} else if len(st.undecidedSamples) < 3 {
				st.undecidedSamples = append(st.undecidedSamples, fmt.Sprintf("pattern %q subject %q: ogen=%v reference=%v", cp.pat, s, r.got, r.want))
			}
		case oAlarm:
			if first == nil {
				first = cp.alarm(s, r)
			}
		}
		if r.r2OK && r.r2 != r.want {
			st.r2Deviates++
		}
		if r.want {
			st.sawMatch = true
		} else {
			st.sawNonMatch = true
		}
	}
	return first, cp, "", st
}

func nonTrivial(cp *compiled, st caseStats) bool {
	return cp != nil && cp.engine == engineRE2 && len(cp.constructs) > 0 && st.sawMatch && st.sawNonMatch
}

// ---- frozen V8 table ---------------------------------------------------------------------------

type tableRow struct {
	Ast     *Node    `json:"a"`
	Pattern string   `json:"p"`
	L       int      `json:"l,omitempty"` // base subjects up to this length …
	X       []rune   `json:"x,omitempty"` // … plus extraSubjects(X)
	S       []string `json:"s,omitempty"` // … or explicit subjects
	V       string   `json:"v"`           // hex bitset of V8 verdicts over the subject list
	Stratum string   `json:"k,omitempty"`
}

func (r *tableRow) subjects() []string {
	if r.S != nil {
		return r.S
	}
	return append(append([]string{}, baseSubjects(r.L)...), extraSubjects(r.X)...)
}

type v8Table struct {
	rows  []tableRow
	byPat map[string][]int
	bits  [][]byte
	mu    sync.Mutex
	extra map[int][]string       // lazily: extraSubjects of a row
	base  map[int]map[string]int // L → subject → index in baseSubjects(L)
}

func tablePath() string {
	root := os.Getenv("VERIF_ROOT")
	if root == "" {
		root = filepath.Join("..", "..")
	}
	return filepath.Join(root, "corpus", "c08", "v8_table.jsonl.gz")
}

var (
	tableOnce sync.Once
	tableVal  *v8Table
	tableErr  error
)

func loadTable() (*v8Table, error) {
	tableOnce.Do(func() {
		f, err := os.Open(tablePath())
		if err != nil {
			tableErr = err
			return
		}
		defer f.Close()
		gz, err := gzip.NewReader(f)
		if err != nil {
			tableErr = err
			return
		}
		t := &v8Table{byPat: map[string][]int{}, extra: map[int][]string{}, base: map[int]map[string]int{}}
		sc := bufio.NewScanner(gz)
		sc.Buffer(make([]byte, 1<<20), 1<<26)
		for sc.Scan() {
			var r tableRow
			if err := json.Unmarshal(sc.Bytes(), &r); err != nil {
				tableErr = fmt.Errorf("row %d: %v", len(t.rows), err)
				return
			}
			b, err := hex.DecodeString(r.V)
			if err != nil {
				tableErr = fmt.Errorf("row %d: %v", len(t.rows), err)
				return
			}
			t.byPat[r.Pattern] = append(t.byPat[r.Pattern], len(t.rows))
			t.rows = append(t.rows, r)
			t.bits = append(t.bits, b)
		}
		if err := sc.Err(); err != nil {
			tableErr = err
			return
		}
		tableVal = t
	})
	return tableVal, tableErr
}

// lookup returns the frozen V8 verdict for (pattern, subject), if any.
func (t *v8Table) lookup(pat, s string) *bool {
	if t == nil {
		return nil
	}
	for _, ri := range t.byPat[pat] {
		r := &t.rows[ri]
		i := -1
		if r.S != nil {
			for j, sub := range r.S {
				if sub == s {
					i = j
					break
				}
			}
		} else {
			t.mu.Lock()
			bi := t.base[r.L]
			if bi == nil {
				bi = map[string]int{}
				for j, sub := range baseSubjects(r.L) {
					bi[sub] = j
				}
				t.base[r.L] = bi
			}
			var xs []string
			if len(r.X) > 0 {
				var ok bool
				if xs, ok = t.extra[ri]; !ok {
					xs = extraSubjects(r.X)
					t.extra[ri] = xs
				}
			}
			t.mu.Unlock()
			if j, ok := bi[s]; ok {
				i = j
			} else {
				for j, sub := range xs {
					if sub == s {
						i = len(bi) + j
						break
					}
				}
			}
		}
		if i >= 0 && i/8 < len(t.bits[ri]) {
			v := t.bits[ri][i/8]>>(uint(i)%8)&1 == 1
			return &v
		}
	}
	return nil
}

// TestOracleSelfTest replays the frozen (pattern, subject, V8 verdict) table
// against the reference matcher: a regression test of the oracle itself that
// needs no JavaScript engine. A mismatch is an oracle bug (infrastructure), not
// a property violation.
func TestOracleSelfTest(t *testing.T) {
	u := vk.New(t, "C08", "oracle-selftest")
	defer u.Close()
	if vk.InReplay() {
		return
	}
	tab, err := loadTable()
	if err != nil {
		t.Fatalf("frozen V8 table: %v", err)
	}
	shard, shards := vk.Shard()
	rows, pairs, bad := 0, 0, 0
	strata := map[string]int{}
	for i := range tab.rows {
		if i%shards != shard {
			continue
		}
		r := &tab.rows[i]
		pat, err := Print(r.Ast)
		if err != nil || pat != r.Pattern {
			t.Errorf("table row %d: AST prints as %q (%v), table says %q", i, pat, err, r.Pattern)
			bad++
			continue
		}
		p, err := CompileRef(r.Ast)
		if err != nil {
			t.Errorf("table row %d: reference matcher does not model %q: %v", i, pat, err)
			bad++
			continue
		}
		subs := r.subjects()
		if (len(subs)+7)/8 != len(tab.bits[i]) {
			t.Errorf("table row %d (%q): %d subjects but %d verdict bytes", i, pat, len(subs), len(tab.bits[i]))
			bad++
			continue
		}
		rows++
		strata[r.Stratum]++
		for j, s := range subs {
			want := tab.bits[i][j/8]>>(uint(j)%8)&1 == 1
			pairs++
			if got := p.Match(s); got != want {
				bad++
				if bad < 20 {
					t.Errorf("reference matcher disagrees with the frozen V8 verdict: pattern %q subject %q: reference=%v V8=%v", pat, s, got, want)
				}
			}
		}
	}
	u.Eval(pairs)
	u.LabelN("rows", rows)
	for k, n := range strata {
		u.LabelN("stratum:"+k, n)
	}
	u.Set("table_rows_total", len(tab.rows))
	if bad > 0 {
		t.Fatalf("%d oracle self-test failures", bad)
	}
}

// ---- unit: bounded-exhaustive -------------------------------------------------------------------

type tally struct {
	labels map[string]int
}

func (t *tally) add(k string, n int) {
	if n != 0 {
		t.labels[k] += n
	}
}

func (t *tally) flush(u *vk.Unit) {
	for k, n := range t.labels {
		u.LabelN(k, n)
	}
}

// runPattern evaluates one enumerated pattern against its whole subject list
// and reports at most one finding per classifier.
func runPattern(u *vk.Unit, ast *Node, subjects []string, tab *v8Table, tl *tally, t *testing.T) {
	var cp *compiled
	var skip string
	f := vk.Guard("compile-panic", func() *vk.Finding {
		var f *vk.Finding
		cp, skip, f = compileAll(ast)
		return f
	})
	if skip != "" {
		tl.add(skip, 1)
		return
	}
	u.Eval(1)
	if f != nil {
		pat, _ := Print(ast)
		u.Report(f, patCase{Ast: ast, Pattern: pat, Subjects: nil, Family: "exhaustive"})
		return
	}
	tl.add("engine:"+cp.engine, 1)
	if cp.engine != engineRE2 {
		return
	}
	for _, k := range cp.constructs {
		tl.add("construct:"+k, 1)
	}
	if len(cp.constructs) == 0 {
		tl.add("construct:(none rewritten)", 1)
	}
	if HasPosixLookalike(cp.ast) {
		tl.add("shape:posix-lookalike", 1)
	}
	var sawMatch, sawNon bool
	seen := map[string]bool{}
	pairs, undecided, explained, dev, byTable := 0, 0, 0, 0, 0
	for _, s := range subjects {
		v8 := tab.lookup(cp.pat, s)
		r := cp.judge(s, v8)
		pairs++
		switch r.out {
		case oOracleConflict:
			t.Errorf("ORACLE CONFLICT pattern %q subject %q: reference=%v, frozen V8 verdict=%v", cp.pat, s, r.want, !r.want)
			continue
		case oError:
			tl.add("match-error", 1)
			continue
		case oUndecided:
			undecided++
			if k := cp.explain(s, r.got, r.want); k != "" {
				explained++
			} else {
				noteUndecided(u, fmt.Sprintf("pattern %q subject %q: ogen=%v reference=%v", cp.pat, s, r.got, r.want))
			}
		case oAlarm:
			f := cp.alarm(s, r)
			if !seen[f.Classifier] {
				seen[f.Classifier] = true
				u.Report(f, patCase{Ast: ast, Pattern: cp.pat, Subjects: []string{s}, Family: "exhaustive"})
			} else if u.Known(f.Classifier) {
				u.Report(f, nil) // count every reproduction of a known finding
			}
		}
		if r.r2OK && r.r2 != r.want {
			dev++
			if v8 != nil {
				byTable++
			}
		}
		if r.want {
			sawMatch = true
		} else {
			sawNon = true
		}
	}
	u.Eval(pairs - 1)
	if cp.r2TimedOut {
		tl.add("patterns:regexp2-oracle-dropped-after-match-timeout", 1)
	}
	tl.add("pairs", pairs)
	tl.add("pairs:undecided(ogen differs from the reference; regexp2 sides with ogen or rejects the pattern; no V8 verdict)", undecided)
	tl.add("pairs:undecided,of-which-reproduced-by-a-known-defect-model", explained)
	tl.add("pairs:undecided,UNEXPLAINED", undecided-explained)
	tl.add("pairs:regexp2-deviates-from-reference", dev)
	tl.add("pairs:regexp2-deviates,covered-by-V8-table", byTable)
	if len(cp.constructs) > 0 && sawMatch && sawNon {
		u.NonTrivialCount(pairs)
		tl.add("nontrivial-patterns", 1)
		if hashStr(cp.pat)%97 == 0 {
			u.Sample(map[string]any{"pattern": cp.pat, "constructs": cp.constructs, "subjects": len(subjects)})
		}
	}
}

var (
	undecidedMu    sync.Mutex
	undecidedNoted = map[*vk.Unit]int{}
)

// noteUndecided keeps a few examples of pairs on which ogen differs from the
// reference matcher but no second oracle confirms it (evidence notes).
func noteUndecided(u *vk.Unit, what string) {
	undecidedMu.Lock()
	n := undecidedNoted[u]
	undecidedNoted[u] = n + 1
	undecidedMu.Unlock()
	if n < 5 {
		u.Note("undecided, not reproduced by any known-defect model: %s", what)
	}
}

func hashStr(s string) uint32 {
	h := uint32(2166136261)
	for i := 0; i < len(s); i++ {
		h = (h ^ uint32(s[i])) * 16777619
	}
	return h
}

// exhaustive bounds by tier. quick: every AST of size <= 3 against every subject
// of length <= 2. thorough: size <= 3 against length <= 3, size 4 against
// length <= 2, and additionally one eighth of the size-4 ASTs (which eighth
// depends on the seed) against length <= 3.
func exhaustivePlan() (maxSize int, subjLen func(size, idx int) int) {
	if vk.Tier() == "thorough" {
		slice := int(vk.Seed() % 8)
		return 4, func(size, idx int) int {
			if size <= 3 || (idx/16)%8 == slice {
				return 3
			}
			return 2
		}
	}
	return 3, func(int, int) int { return 2 }
}

func TestExhaustive(t *testing.T) {
	u := vk.New(t, "C08", "exhaustive")
	defer u.Close()
	tab, err := loadTable()
	if err != nil {
		t.Fatalf("frozen V8 table: %v", err)
	}
	if c, ok := vk.ReplayOnly[patCase](u); ok {
		u.Eval(1)
		f, _, _, _ := checkCase(c, tab)
		if f != nil {
			u.Report(f, c)
		}
		return
	}
	if vk.InReplay() {
		return
	}
	maxSize, subjLen := exhaustivePlan()
	shard, shards := vk.Shard()
	u.SetExhaustive(true)
	u.Set("max_ast_size", maxSize)
	u.Set("alphabet", string(baseAlphabet))
	tl := &tally{labels: map[string]int{}}
	e := NewEnum()
	idx := 0
	for size := 0; size <= maxSize; size++ {
		e.Each(size, func(ast *Node) {
			idx++
			if idx%shards != shard {
				return
			}
			L := subjLen(size, idx)
			base := baseSubjects(L)
			tl.add(fmt.Sprintf("size:%d,subjects<=%d", size, L), 1)
			subjects := base
			if x := extraSubjects(Extras(ast)); len(x) > 0 {
				subjects = append(append(make([]string, 0, len(base)+len(x)), base...), x...)
			}
			runPattern(u, ast, subjects, tab, tl, t)
		})
	}
	tl.flush(u)
}

// ---- unit: random ASTs ----------------------------------------------------------------------------

// knownShapeFlags decides, per drawn case, whether the generator may emit the
// constructs of already classified defects. When the classifier is listed as
// known the shape is kept out of 7 cases in 8, so that the search is not
// dominated by reproductions; the exclusions are counted.
func allowKnownShape(t *rapid.T, u *vk.Unit, classifier, name string) bool {
	if !u.Known(classifier) {
		return true
	}
	return rapid.IntRange(0, 7).Draw(t, "allow-"+name) == 0
}

var regressRandom = []patCase{
	// [^] and [] against a code point above U+1FFFF (probed)
	{Ast: Cat(Leaf(KBol), Class(true), Leaf(KEol)), Subjects: []string{"a", "\U00020000", "\U0001FFFF", "\U0010FFFF", ""}},
	{Ast: Cat(Leaf(KBol), Class(false), Leaf(KEol)), Subjects: []string{"a", "\U00020000", "\U0001FFFF", "\U0010FFFF", ""}},
	{Ast: Rep(Class(true), Q("+", 0, 0, false)), Subjects: []string{"\U00020000", "\U00020000a"}},
	// dot and the four line terminators
	{Ast: Cat(Leaf(KBol), Leaf(KDot), Leaf(KEol)), Subjects: []string{"a", "\n", "\r", "\u2028", "\u2029", "\u0085", "\v", "\U00020000"}},
	// \s \S membership
	{Ast: Cat(Leaf(KBol), Cesc("s"), Leaf(KEol)), Subjects: []string{" ", "\t", "\v", "\f", "\u00A0", "\uFEFF", "\u1680", "\u180E", "\u2000", "\u200A", "\u200B", "\u2028", "\u2029", "\u202F", "\u205F", "\u3000", "\u0085", "a"}},
	{Ast: Cat(Leaf(KBol), Cesc("S"), Leaf(KEol)), Subjects: []string{" ", "\v", "\u00A0", "\uFEFF", "\u180E", "\u200B", "\u2028", "\u0085", "a", "\U00020000"}},
	{Ast: Cat(Leaf(KBol), Class(true, Single(Cesc("s"))), Leaf(KEol)), Subjects: []string{" ", "\v", "\uFEFF", "\u180E", "\u2028", "a"}},
	{Ast: Cat(Leaf(KBol), Class(false, Single(Cesc("S"))), Leaf(KEol)), Subjects: []string{" ", "\v", "\uFEFF", "\u180E", "\u2028", "a"}},
	// \w \b \d are ASCII-only in ECMA-262 without the i flag
	{Ast: Cat(Leaf(KBol), Cesc("w"), Leaf(KEol)), Subjects: []string{"a", "\u00E9", "\u0663", "_", "\u017F", "\u212A"}},
	{Ast: Cat(Leaf(KWb), Lit(0xE9)), Subjects: []string{"\u00E9", "a\u00E9", " \u00E9"}},
	{Ast: Cat(Leaf(KBol), Cesc("d"), Leaf(KEol)), Subjects: []string{"0", "\u0663"}},
	// $ does not match before a trailing line terminator
	{Ast: Cat(Lit('a'), Leaf(KEol)), Subjects: []string{"a", "a\n", "a\r", "a\u2028", "\na"}},
	{Ast: Cat(Leaf(KBol), Lit('a')), Subjects: []string{"a", "\na", "\u2028a"}},
	// control escapes
	{Ast: Cat(Leaf(KBol), Esc(FCx, 10, 0), Esc(FCx, 10, 1), Esc(FCtl, 11, 0), Esc(FNul, 0, 0), Leaf(KEol)), Subjects: []string{"\n\n\v\x00", "\n\n\v", "JJ"}},
	{Ast: Class(false, Single(Esc(FBksp, 8, 0))), Subjects: []string{"\b", "b", "\\"}},
	{Ast: Class(false, Single(Esc(FCx, 1, 0)), Single(Esc(FNul, 0, 0))), Subjects: []string{"\x01", "\x00", "c", "A", "0"}},
	// \u forms
	{Ast: Cat(Leaf(KBol), Esc(FUb, 0x20000, 0), Esc(FU4, 0xFEFF, 1), Esc(FUb, 'a', 3<<1), Leaf(KEol)), Subjects: []string{"\U00020000\uFEFFa", "\U00020000\uFEFF", "u"}},
	{Ast: Cat(Leaf(KBol), Esc(FSp, 0x1F600, 0), Leaf(KEol)), Subjects: []string{"\U0001F600", "\uFFFD\uFFFD", "a"}},
	{Ast: Cat(Leaf(KBol), Class(false, Single(Esc(FSp, 0x1F600, 0))), Leaf(KEol)), Subjects: []string{"\U0001F600", "\uFFFD", "a"}},
	// escapes in classes, '-' and '^' placement
	{Ast: Class(false, Single(Lit('a')), Single(Esc(FId, '-', 0)), Single(Lit('c'))), Subjects: []string{"a", "b", "-", "c"}},
	{Ast: Class(false, Single(Lit('-')), Single(Lit('a'))), Subjects: []string{"a", "-", "b"}},
	{Ast: Class(false, Single(Lit('a')), Single(Lit('^'))), Subjects: []string{"a", "^", "b"}},
	{Ast: Class(false, Single(Lit('[')), Single(Lit(':')), Single(Lit('a'))), Subjects: []string{"[", ":", "a", "b"}},
	{Ast: Cat(Class(false, Single(Lit('(')), Single(Lit('?')), Single(Lit('='))), Lit('a')), Subjects: []string{"(a", "?a", "a", "=a"}},
	{Ast: Cat(Esc(FId, '(', 0), Esc(FId, '?', 0), Lit('='), Lit('a'), Esc(FId, ')', 0)), Subjects: []string{"(?=a)", "a"}},
	{Ast: Cat(Esc(FId, '/', 0), Esc(FId, '{', 0), Esc(FId, '}', 0), Esc(FId, '|', 0)), Subjects: []string{"/{}|", "/{}", "|"}},
	// a class that spells a POSIX bracket expression, followed by another class
	{Ast: Cat(posixLookalikes()[0], Class(false, Single(Lit('a')))), Subjects: []string{"b", "la", ":a", "a", "[a"}},
	{Ast: Cat(posixLookalikes()[2], Class(false, Single(Lit('.')))), Subjects: []string{"7", "d.", "7."}},
	// quantified empty-width groups, nested quantifiers, big bounds
	{Ast: Cat(Rep(Grp(KNcg, Leaf(KBol)), Q("*", 0, 0, false)), Lit('a')), Subjects: []string{"a", "ba", "b"}},
	{Ast: Cat(Rep(Grp(KNcg, Leaf(KWb)), Q("+", 0, 0, false)), Lit('a')), Subjects: []string{"a", "ba", " a"}},
	{Ast: Cat(Leaf(KBol), Rep(Grp(KGrp, Alt(Leaf(KEmpty), Lit('a'))), Q("{n}", 2, 0, false)), Leaf(KEol)), Subjects: []string{"", "a", "aa", "aaa"}},
	{Ast: Cat(Leaf(KBol), Rep(Lit('a'), Q("{n,m}", 999, 1000, false)), Leaf(KEol)), Subjects: []string{"a", strings.Repeat("a", 40)}},
	{Ast: Cat(Leaf(KBol), Rep(Grp(KNcg, Rep(Lit('a'), Q("{n}", 2, 0, true))), Q("{n,}", 2, 0, true)), Leaf(KEol)), Subjects: []string{"aa", "aaaa", "aaaaa", "aaaaaa"}},
	// the empty pattern and empty alternatives
	{Ast: Leaf(KEmpty), Subjects: []string{"", "a"}},
	{Ast: Alt(Lit('a'), Leaf(KEmpty)), Subjects: []string{"", "b"}},
}

func init() {
	// every \cX, both letter cases, outside and inside a class
	for i := rune(1); i <= 26; i++ {
		for v := 0; v <= 1; v++ {
			subj := []string{string(i), string(i) + "0", string(i + 1), string(i - 1), "c", string('A' + i - 1), string('a' + i - 1), "\\"}
			regressRandom = append(regressRandom,
				patCase{Ast: Cat(Leaf(KBol), Esc(FCx, i, v), Leaf(KEol)), Subjects: subj},
				patCase{Ast: Cat(Leaf(KBol), Class(false, Single(Esc(FCx, i, v))), Leaf(KEol)), Subjects: subj})
		}
	}
	// \s and \S against every WhiteSpace/LineTerminator code point and its neighbours
	var ws []string
	for _, r := range []rune{9, 10, 11, 12, 13, 0x20, 0xA0, 0x1680, 0x2000, 0x2001, 0x2002, 0x2003, 0x2004, 0x2005, 0x2006,
		0x2007, 0x2008, 0x2009, 0x200A, 0x2028, 0x2029, 0x202F, 0x205F, 0x3000, 0xFEFF} {
		ws = append(ws, string(r))
	}
	for _, r := range []rune{8, 14, 0x1C, 0x1F, 0x21, 0x85, 0x9F, 0xA1, 0x167F, 0x1681, 0x180E, 0x1FFF, 0x200B, 0x200C, 0x2027, 0x202A, 0x202E,
		0x2030, 0x205E, 0x2060, 0x2FFF, 0x3001, 0xFEFE, 0xFFFE, 0xFF00} {
		ws = append(ws, string(r))
	}
	regressRandom = append(regressRandom,
		patCase{Ast: Cat(Leaf(KBol), Cesc("s"), Leaf(KEol)), Subjects: ws},
		patCase{Ast: Cat(Leaf(KBol), Cesc("S"), Leaf(KEol)), Subjects: ws},
		patCase{Ast: Cat(Leaf(KBol), Class(false, Single(Cesc("s")), Single(Lit('x'))), Leaf(KEol)), Subjects: ws},
		patCase{Ast: Cat(Leaf(KBol), Class(true, Single(Lit('x')), Single(Cesc("s"))), Leaf(KEol)), Subjects: ws},
		patCase{Ast: Cat(Leaf(KBol), Leaf(KDot), Leaf(KEol)), Subjects: ws},
		patCase{Ast: Cat(Leaf(KBol), Grp(KGrp, Leaf(KDot)), Leaf(KEol)), Subjects: ws})
}

func TestRandom(t *testing.T) {
	u := vk.New(t, "C08", "random")
	defer u.Close()
	tab, err := loadTable()
	if err != nil {
		t.Fatalf("frozen V8 table: %v", err)
	}
	draw := func(rt *rapid.T) patCase {
		o := GenOpts{
			AnyClass:  allowKnownShape(rt, u, "empty-class-bound-1ffff", "any-class"),
			Surrogate: allowKnownShape(rt, u, "surrogate-pair-escape-split", "surrogate-pair"),
			Posix:     allowKnownShape(rt, u, "class-posix-lookalike-unescaped", "posix-lookalike"),
		}
		if !o.AnyClass {
			u.Label("known-shape-excluded:empty-class")
		}
		if !o.Surrogate {
			u.Label("known-shape-excluded:surrogate-pair")
		}
		if !o.Posix {
			u.Label("known-shape-excluded:posix-lookalike")
		}
		ast := DrawAST(rt, 12, o)
		pat, _ := Print(ast)
		return patCase{Ast: ast, Pattern: pat, Subjects: DrawSubjects(rt, ast, nil, rapid.IntRange(8, 24).Draw(rt, "subjects")), Family: "random"}
	}
	vk.Rapid(u, vk.N(40_000, 2_000_000), regressRandom, draw, func(c patCase) *vk.Finding {
		return evalCase(u, t, c, tab)
	})
}

// evalCase runs the oracle on a case and does the bookkeeping shared by the
// rapid units.
func evalCase(u *vk.Unit, t *testing.T, c patCase, tab *v8Table) *vk.Finding {
	f, cp, skip, st := checkCase(c, tab)
	for _, s := range st.conflicts {
		t.Errorf("ORACLE CONFLICT %s", s)
	}
	if skip != "" {
		u.Label(skip)
		return nil
	}
	if cp != nil {
		u.Label("engine:" + cp.engine)
		if cp.engine == engineRE2 {
			u.Label(fmt.Sprintf("size:%02d", min(Size(cp.ast), 16)))
			for _, k := range cp.constructs {
				u.Label("construct:" + k)
			}
			if len(cp.constructs) == 0 {
				u.Label("construct:(none rewritten)")
			}
			if HasPosixLookalike(cp.ast) {
				u.Label("shape:posix-lookalike")
			}
		}
		for _, k := range cp.fallback {
			u.Label("fallback:" + k)
		}
	}
	if st.pairs > 1 {
		u.Eval(st.pairs - 1)
	}
	if cp != nil && cp.r2TimedOut {
		u.Label("patterns:regexp2-oracle-dropped-after-match-timeout")
	}
	u.LabelN("pairs", st.pairs)
	u.LabelN("pairs:undecided(ogen differs from the reference; regexp2 sides with ogen or rejects the pattern; no V8 verdict)", st.undecided)
	u.LabelN("pairs:undecided,of-which-reproduced-by-a-known-defect-model", st.undecidedExplained)
	u.LabelN("pairs:undecided,UNEXPLAINED", st.undecided-st.undecidedExplained)
	for _, smp := range st.undecidedSamples {
		noteUndecided(u, smp)
	}
	u.LabelN("pairs:regexp2-deviates-from-reference", st.r2Deviates)
	u.LabelN("pairs:match-error", st.errors)
	if nonTrivial(cp, st) {
		for _, s := range c.Subjects {
			u.NonTrivial(cp.pat + "\x00" + s)
		}
		u.Label("nontrivial-patterns")
		u.Sample(map[string]any{"pattern": cp.pat, "constructs": cp.constructs, "subjects": c.Subjects})
	} else if cp != nil && cp.engine == engineRE2 {
		switch {
		case len(cp.constructs) == 0:
			u.Label("trivial:nothing-rewritten")
		case !st.sawMatch:
			u.Label("trivial:no-subject-matches")
		default:
			u.Label("trivial:every-subject-matches")
		}
	}
	return f
}

// ---- unit: \p{…} family --------------------------------------------------------------------------

var regressProp = []patCase{
	{Ast: Prop("L", false), Subjects: []string{"a", "p{L}", "0", ""}},
	{Ast: Prop("L", true), Subjects: []string{"a", "P{L}", "0", ""}},
	{Ast: Cat(Leaf(KBol), Rep(Prop("Lu", false), Q("+", 0, 0, false)), Leaf(KEol)), Subjects: []string{"A", "AB", "p{Lu}", "p{Lu}}", "a"}},
	{Ast: Cat(Leaf(KBol), Class(false, Single(Prop("Nd", false)), Single(Lit('_'))), Leaf(KEol)), Subjects: []string{"0", "\u0663", "_", "p", "{", "N", "a"}},
	{Ast: Cat(Leaf(KBol), Class(true, Single(Prop("L", true))), Leaf(KEol)), Subjects: []string{"a", "P", "0", "}"}},
	{Ast: Prop("Script=Greek", false), Subjects: []string{"\u03B1", "a", "p{Script=Greek}"}},
}

func TestUnicodeProperty(t *testing.T) {
	u := vk.New(t, "C08", "unicode-property")
	defer u.Close()
	tab, err := loadTable()
	if err != nil {
		t.Fatalf("frozen V8 table: %v", err)
	}
	draw := func(rt *rapid.T) patCase {
		o := GenOpts{Prop: true}
		// a property escape is planted in a small random context; the rest of the
		// pattern may hold more of them
		p := Prop(rapid.SampledFrom(propNames).Draw(rt, "prop"), rapid.Bool().Draw(rt, "neg"))
		var core *Node
		switch rapid.IntRange(0, 4).Draw(rt, "propPlace") {
		case 0:
			core = p
		case 1:
			core = Rep(p, Q(rapid.SampledFrom([]string{"*", "+", "?", "{n}", "{n,m}"}).Draw(rt, "q"), rapid.IntRange(0, 2).Draw(rt, "n"), 2, rapid.Bool().Draw(rt, "lazy")))
		case 2:
			core = Class(rapid.Bool().Draw(rt, "cneg"), Single(p))
		case 3:
			core = Class(rapid.Bool().Draw(rt, "cneg"), Single(Lit('a')), Single(p), Single(Cesc("d")))
		default:
			core = Grp(KGrp, p)
		}
		var ast *Node
		switch rapid.IntRange(0, 3).Draw(rt, "propContext") {
		case 0:
			ast = core
		case 1:
			ast = Cat(Leaf(KBol), core, Leaf(KEol))
		case 2:
			l := DrawAST(rt, 4, o)
			if l.K == KAlt {
				l = Grp(KNcg, l)
			}
			ast = Cat(l, core)
		default:
			r := DrawAST(rt, 4, o)
			if r.K == KAlt {
				r = Grp(KNcg, r)
			}
			ast = Cat(core, r)
		}
		pat, _ := Print(ast)
		return patCase{Ast: ast, Pattern: pat, Subjects: DrawSubjects(rt, ast, propAlphabet, rapid.IntRange(8, 20).Draw(rt, "subjects")), Family: "unicode-property"}
	}
	vk.Rapid(u, vk.N(10_000, 400_000), regressProp, draw, func(c patCase) *vk.Finding {
		return evalCase(u, t, c, tab)
	})
}

// ---- unit: fall-back family -------------------------------------------------------------------------

var regressFallback = []patCase{
	{Ast: Grp(KLa, Lit('a')), Family: "lookahead"},
	{Ast: Cat(Grp(KNla, Lit('a')), Leaf(KDot)), Family: "neg-lookahead"},
	{Ast: Cat(Grp(KLb, Lit('a')), Lit('b')), Family: "lookbehind"},
	{Ast: Cat(Grp(KNlb, Lit('a')), Lit('b')), Family: "neg-lookbehind"},
	{Ast: Cat(Grp(KGrp, Lit('a')), &Node{K: KBref, Min: 1}), Family: "backreference"},
	{Ast: Cat(&Node{K: KBref, Min: 1}, Grp(KGrp, Lit('a'))), Family: "forward-backreference"},
	{Ast: Cat(Named("n", Lit('a')), &Node{K: KNref, F: "n"}), Family: "named-backreference"},
	{Ast: Cat(&Node{K: KNref, F: "n"}, Named("n", Lit('a'))), Family: "named-backreference"},
	{Ast: Named("n", Leaf(KDot)), Family: "named-group", Subjects: []string{"a", "\n", " ", ""}},
	{Ast: Cat(Leaf(KDot), Cesc("s"), Grp(KLa, Lit('a'))), Family: "lookahead"},
	{Ast: Cat(Class(false, Single(Lit('('))), Grp(KLa, Lit('a'))), Family: "lookahead"},
	{Ast: Grp(KGrp, Grp(KNcg, Grp(KLb, Class(true)))), Family: "lookbehind"},
	{Ast: Cat(Esc(FCx, 10, 0), Grp(KGrp, Lit('a')), &Node{K: KBref, Min: 1}), Family: "backreference"},
	{Ast: Cat(Grp(KGrp, Lit('a')), Grp(KGrp, Lit('b')), Grp(KGrp, Lit('c')), Grp(KGrp, Lit('d')), Grp(KGrp, Lit('e')), Grp(KGrp, Lit('f')), Grp(KGrp, Lit('g')),
		Grp(KGrp, Lit('h')), Grp(KGrp, Lit('i')), Grp(KGrp, Lit('j')), &Node{K: KBref, Min: 10}), Family: "backreference-two-digits"},
}

func TestFallback(t *testing.T) {
	u := vk.New(t, "C08", "fallback-family")
	defer u.Close()
	tab, err := loadTable()
	if err != nil {
		t.Fatalf("frozen V8 table: %v", err)
	}
	draw := func(rt *rapid.T) patCase {
		ast, kind := DrawFallback(rt)
		pat, _ := Print(ast)
		c := patCase{Ast: ast, Pattern: pat, Family: kind}
		if kind == "named-group" {
			// expressible on RE2 (no reference to the group): either engine is
			// admissible, and on RE2 the verdicts are compared
			c.Subjects = DrawSubjects(rt, ast, nil, 12)
		}
		return c
	}
	vk.Rapid(u, vk.N(20_000, 600_000), regressFallback, draw, func(c patCase) *vk.Finding {
		u.Label("planted:" + c.Family)
		f, cp, skip, st := checkCase(c, tab)
		for _, s := range st.conflicts {
			t.Errorf("ORACLE CONFLICT %s", s)
		}
		if skip != "" {
			u.Label(skip + ":" + c.Family)
			return nil
		}
		if cp != nil {
			u.Label("engine:" + cp.engine + ":" + c.Family)
			if mustFallBack(cp.fallback) {
				// non-trivial: a construct that must force the ECMAScript engine,
				// distinct by pattern
				u.NonTrivial(cp.pat)
				u.Sample(map[string]any{"pattern": cp.pat, "planted": c.Family, "engine": cp.engine})
			} else if nonTrivial(cp, st) {
				u.NonTrivial(cp.pat)
			}
		}
		if st.pairs > 1 {
			u.Eval(st.pairs - 1)
		}
		return f
	})
}
