package c08

// dev_test.go: development-time tooling that builds the frozen V8 table. None
// of it runs unless C08_DEV_DUMP / C08_DEV_FREEZE is set, and no registered
// command sets them. Procedure (needs node, which the image happens to have):
//
//	C08_DEV_DUMP=/tmp/v8-c08 go test -run TestDevDump ./checks/c08
//	node checks/c08/tools/v8eval.js /tmp/v8-c08/dump.jsonl /tmp/v8-c08/v8.jsonl
//	C08_DEV_FREEZE=/tmp/v8-c08 go test -run TestDevFreeze ./checks/c08
//
// TestDevFreeze lists every disagreement between the reference matcher and V8
// (each must be resolved by correcting the matcher or, for a V8 bug, documented)
// and writes corpus/c08/v8_table.jsonl.gz.

import (
	"bufio"
	"compress/gzip"
	"encoding/json"
	"fmt"
	"os"
	"path/filepath"
	"testing"

	"pgregory.net/rapid"
)

type dumpRow struct {
	I       int      `json:"i"`
	Ast     *Node    `json:"a,omitempty"`
	Pattern string   `json:"p"`
	L       int      `json:"l,omitempty"`
	X       []rune   `json:"x,omitempty"`
	XS      []string `json:"xs,omitempty"`
	S       []string `json:"s,omitempty"`
	Stratum string   `json:"k"`
}

func devRows() []dumpRow {
	var rows []dumpRow
	add := func(ast *Node, l int, explicit []string, stratum string) {
		pat, err := Print(ast)
		if err != nil {
			return
		}
		if _, err := CompileRef(ast); err != nil {
			return
		}
		r := dumpRow{I: len(rows), Ast: ast, Pattern: pat, Stratum: stratum}
		if explicit != nil {
			r.S = explicit
		} else {
			r.L = l
			r.X = Extras(ast)
			r.XS = extraSubjects(r.X)
		}
		rows = append(rows, r)
	}
	e := NewEnum()
	for size := 0; size <= 3; size++ {
		e.Each(size, func(ast *Node) { add(ast, 2, nil, fmt.Sprintf("exhaustive-size%d", size)) })
	}
	n := 0
	e.Each(4, func(ast *Node) {
		n++
		if n%40 == 0 {
			add(ast, 2, nil, "exhaustive-size4-sample")
		}
	})
	n = 0
	for size := 0; size <= 2; size++ {
		e.Each(size, func(ast *Node) {
			n++
			if size < 2 || n%4 == 0 {
				add(ast, 3, nil, "exhaustive-len3")
			}
		})
	}
	type drawn struct {
		ast  *Node
		subj []string
	}
	random := rapid.Custom(func(t *rapid.T) drawn {
		ast := DrawAST(t, 12, GenOpts{AnyClass: true, Surrogate: true, Posix: true})
		return drawn{ast, DrawSubjects(t, ast, nil, 20)}
	})
	for i := 0; i < 4000; i++ {
		d := random.Example(i + 1)
		add(d.ast, 0, d.subj, "random")
	}
	prop := rapid.Custom(func(t *rapid.T) drawn {
		p := Prop(rapid.SampledFrom(propNames).Draw(t, "prop"), rapid.Bool().Draw(t, "neg"))
		var ast *Node
		switch rapid.IntRange(0, 3).Draw(t, "place") {
		case 0:
			ast = Cat(Leaf(KBol), p, Leaf(KEol))
		case 1:
			ast = Cat(Leaf(KBol), Class(rapid.Bool().Draw(t, "cneg"), Single(p), Single(Lit('_'))), Leaf(KEol))
		case 2:
			ast = Rep(p, Q("{n}", 2, 0, false))
		default:
			r := DrawAST(t, 4, GenOpts{Prop: true})
			if r.K == KAlt {
				r = Grp(KNcg, r)
			}
			ast = Cat(p, r)
		}
		return drawn{ast, DrawSubjects(t, ast, propAlphabet, 24)}
	})
	for i := 0; i < 2500; i++ {
		d := prop.Example(i + 1)
		add(d.ast, 0, d.subj, "unicode-property")
	}
	// every property name against the whole property alphabet, one code point each
	var singles []string
	for _, r := range propAlphabet {
		singles = append(singles, string(r))
	}
	for _, name := range propNames {
		add(Cat(Leaf(KBol), Prop(name, false), Leaf(KEol)), 0, singles, "unicode-property")
		add(Cat(Leaf(KBol), Class(true, Single(Prop(name, true))), Leaf(KEol)), 0, singles, "unicode-property")
	}
	for _, c := range regressRandom {
		add(c.Ast, 0, c.Subjects, "regression")
	}
	return rows
}

func TestDevDump(t *testing.T) {
	dir := os.Getenv("C08_DEV_DUMP")
	if dir == "" {
		t.Skip("development-time only")
	}
	_ = os.MkdirAll(dir, 0o755)
	f, err := os.Create(filepath.Join(dir, "dump.jsonl"))
	if err != nil {
		t.Fatal(err)
	}
	defer f.Close()
	w := bufio.NewWriter(f)
	defer w.Flush()
	enc := json.NewEncoder(w)
	enc.SetEscapeHTML(false)
	_ = enc.Encode(map[string]any{"base": map[string][]string{"1": baseSubjects(1), "2": baseSubjects(2), "3": baseSubjects(3)}})
	rows := devRows()
	for _, r := range rows {
		r.Ast = nil
		if err := enc.Encode(r); err != nil {
			t.Fatal(err)
		}
	}
	t.Logf("%d rows", len(rows))
}

func TestDevFreeze(t *testing.T) {
	dir := os.Getenv("C08_DEV_FREEZE")
	if dir == "" {
		t.Skip("development-time only")
	}
	rows := devRows()
	f, err := os.Open(filepath.Join(dir, "v8.jsonl"))
	if err != nil {
		t.Fatal(err)
	}
	defer f.Close()
	sc := bufio.NewScanner(f)
	sc.Buffer(make([]byte, 1<<20), 1<<26)
	verdicts := map[int]string{}
	for sc.Scan() {
		var r struct {
			I   int    `json:"i"`
			V   string `json:"v"`
			Err string `json:"err"`
		}
		if err := json.Unmarshal(sc.Bytes(), &r); err != nil {
			t.Fatal(err)
		}
		if r.Err != "" {
			t.Errorf("V8 rejects generated pattern %q: %s", rows[r.I].Pattern, r.Err)
			continue
		}
		verdicts[r.I] = r.V
	}
	out := os.Getenv("C08_DEV_OUT")
	if out == "" {
		out = tablePath()
	}
	_ = os.MkdirAll(filepath.Dir(out), 0o755)
	of, err := os.Create(out)
	if err != nil {
		t.Fatal(err)
	}
	defer of.Close()
	gz, _ := gzip.NewWriterLevel(of, gzip.BestCompression)
	defer gz.Close()
	enc := json.NewEncoder(gz)
	enc.SetEscapeHTML(false)
	seen := map[string]bool{}
	kept := 0
	for _, r := range rows {
		v, ok := verdicts[r.I]
		if !ok {
			continue
		}
		// the run-time lookup is by pattern: keep the first row per (pattern, stratum class)
		key := r.Pattern
		if r.S != nil || r.L == 3 {
			key = fmt.Sprintf("%s\x00%d", r.Pattern, r.I)
		}
		if seen[key] {
			continue
		}
		seen[key] = true
		row := tableRow{Ast: r.Ast, Pattern: r.Pattern, L: r.L, X: r.X, S: r.S, V: v, Stratum: r.Stratum}
		if err := enc.Encode(row); err != nil {
			t.Fatal(err)
		}
		kept++
	}
	t.Logf("%d rows frozen into %s", kept, out)
}
