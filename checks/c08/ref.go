package c08

// ref.go: the reference matcher, written from ECMA-262 (2023) §22.2.2 "Pattern
// Semantics" for the `u` flag without `i`, `m`, `s`:
//
//   * the subject is a sequence of code points;
//   * only "is there a match somewhere" is decided. For the regular part of the
//     grammar (no back-references, no look-around) that Boolean does not depend
//     on greedy/lazy choice, alternative priority, captures or the "empty
//     iteration" rule of RepeatMatcher (an iteration that consumes nothing can
//     always be dropped from a successful path), so the matcher computes, for
//     every (node, start position), the SET of end positions, memoised;
//   * CharacterClassEscape d/w are ASCII, s = WhiteSpace ∪ LineTerminator,
//     `.` excludes LineTerminator, `\b` is relative to \w, `^`/`$` only at the
//     ends of the input, `[]` matches nothing, `[^]` any code point.

import (
	"fmt"
	"strings"
	"unicode"
)

func isLineTerminator(r rune) bool { return r == '\n' || r == '\r' || r == 0x2028 || r == 0x2029 }

// WhiteSpace (ECMA-262 table 35): TAB VT FF ZWNBSP + general category Zs
// (Unicode 15: SP NBSP 1680 2000-200A 202F 205F 3000), plus LineTerminator.
func isECMASpace(r rune) bool {
	switch r {
	case 9, 11, 12, 0xFEFF, 0x20, 0xA0, 0x1680, 0x202F, 0x205F, 0x3000:
		return true
	}
	return r >= 0x2000 && r <= 0x200A || isLineTerminator(r)
}

func isECMADigit(r rune) bool { return r >= '0' && r <= '9' }
func isECMAWord(r rune) bool {
	return r >= 'a' && r <= 'z' || r >= 'A' && r <= 'Z' || r >= '0' && r <= '9' || r == '_'
}

func cescMatch(letter string, r rune) bool {
	switch letter {
	case "d":
		return isECMADigit(r)
	case "D":
		return !isECMADigit(r)
	case "w":
		return isECMAWord(r)
	case "W":
		return !isECMAWord(r)
	case "s":
		return isECMASpace(r)
	case "S":
		return !isECMASpace(r)
	}
	panic("bad class escape " + letter)
}

// ---- \p{…} ------------------------------------------------------------------

// General_Category long names (PropertyValueAliases.txt) for the short names
// that Go's unicode.Categories carries with the same extension as Unicode's.
// "C"/"Other" and "Cn" are left out: Go's C table has no unassigned code
// points, Unicode's has.
var gcLong = map[string]string{
	"Letter": "L", "Uppercase_Letter": "Lu", "Lowercase_Letter": "Ll", "Titlecase_Letter": "Lt",
	"Modifier_Letter": "Lm", "Other_Letter": "Lo", "Mark": "M", "Combining_Mark": "M",
	"Nonspacing_Mark": "Mn", "Spacing_Mark": "Mc", "Enclosing_Mark": "Me", "Number": "N",
	"Decimal_Number": "Nd", "digit": "Nd", "Letter_Number": "Nl", "Other_Number": "No",
	"Punctuation": "P", "punct": "P", "Connector_Punctuation": "Pc", "Dash_Punctuation": "Pd",
	"Open_Punctuation": "Ps", "Close_Punctuation": "Pe", "Initial_Punctuation": "Pi",
	"Final_Punctuation": "Pf", "Other_Punctuation": "Po", "Symbol": "S", "Math_Symbol": "Sm",
	"Currency_Symbol": "Sc", "Modifier_Symbol": "Sk", "Other_Symbol": "So", "Separator": "Z",
	"Space_Separator": "Zs", "Line_Separator": "Zl", "Paragraph_Separator": "Zp",
	"Control": "Cc", "cntrl": "Cc", "Format": "Cf", "Private_Use": "Co",
}

var gcShort = []string{"L", "Lu", "Ll", "Lt", "Lm", "Lo", "M", "Mn", "Mc", "Me", "N", "Nd", "Nl", "No",
	"P", "Pc", "Pd", "Ps", "Pe", "Pi", "Pf", "Po", "S", "Sm", "Sc", "Sk", "So", "Z", "Zs", "Zl", "Zp",
	"Cc", "Cf", "Co"}

// script long name -> ISO 15924 alias, for the scripts the generator uses
var scriptAlias = map[string]string{"Latin": "Latn", "Greek": "Grek", "Cyrillic": "Cyrl", "Arabic": "Arab",
	"Han": "Hani", "Common": "Zyyy", "Inherited": "Zinh"}

// binary properties with the same extension in Go's tables and in ECMA-262 table 67
var binaryProps = []string{"ASCII_Hex_Digit", "White_Space", "Hex_Digit", "Dash", "Diacritic",
	"Ideographic", "Quotation_Mark", "Noncharacter_Code_Point", "Pattern_Syntax", "Pattern_White_Space"}

// propPredicate resolves the body of \p{…} (UnicodePropertyValueExpression).
func propPredicate(name string) (func(rune) bool, error) {
	tab := func(t *unicode.RangeTable) (func(rune) bool, error) {
		return func(r rune) bool { return unicode.Is(t, r) }, nil
	}
	gc := func(v string) (func(rune) bool, error) {
		if s, ok := gcLong[v]; ok {
			v = s
		}
		for _, s := range gcShort {
			if s == v {
				return tab(unicode.Categories[v])
			}
		}
		return nil, fmt.Errorf("general category %q not modelled", v)
	}
	script := func(v string) (func(rune) bool, error) {
		for long, short := range scriptAlias {
			if v == long || v == short {
				return tab(unicode.Scripts[long])
			}
		}
		return nil, fmt.Errorf("script %q not modelled", v)
	}
	if i := strings.IndexByte(name, '='); i >= 0 {
		switch name[:i] {
		case "General_Category", "gc":
			return gc(name[i+1:])
		case "Script", "sc":
			return script(name[i+1:])
		}
		return nil, fmt.Errorf("property %q not modelled", name[:i])
	}
	switch name {
	case "Any":
		return func(rune) bool { return true }, nil
	case "ASCII":
		return func(r rune) bool { return r < 0x80 }, nil
	}
	for _, b := range binaryProps {
		if b == name {
			return tab(unicode.Properties[name])
		}
	}
	return gc(name)
}

// ---- compiled form ------------------------------------------------------------

type cnode struct {
	k        string
	sub      []int
	min, max int
	pred     func(rune) bool // one-code-point atoms
}

// Prog is an AST prepared for matching.
type Prog struct {
	nodes []cnode
	root  int
	// scratch, reused between subjects
	memo []uint64
	done []bool
	in   []rune
}

func atomPredicate(n *Node) (func(rune) bool, error) {
	switch n.K {
	case KLit, KEsc:
		c := rune(n.R)
		return func(r rune) bool { return r == c }, nil
	case KCesc:
		l := n.F
		return func(r rune) bool { return cescMatch(l, r) }, nil
	case KProp:
		p, err := propPredicate(n.F)
		if err != nil {
			return nil, err
		}
		if n.Neg {
			return func(r rune) bool { return !p(r) }, nil
		}
		return p, nil
	}
	return nil, fmt.Errorf("node %q is not a character atom", n.K)
}

func classPredicate(n *Node) (func(rune) bool, error) {
	type member struct {
		lo, hi rune
		pred   func(rune) bool
	}
	var ms []member
	for i := range n.Items {
		it := &n.Items[i]
		if it.Hi != nil {
			if it.Lo.K != KLit && it.Lo.K != KEsc || it.Hi.K != KLit && it.Hi.K != KEsc {
				return nil, fmt.Errorf("class escape as a range end")
			}
			if it.Lo.R > it.Hi.R {
				return nil, fmt.Errorf("range out of order")
			}
			ms = append(ms, member{lo: rune(it.Lo.R), hi: rune(it.Hi.R)})
			continue
		}
		p, err := atomPredicate(&it.Lo)
		if err != nil {
			return nil, err
		}
		ms = append(ms, member{pred: p})
	}
	neg := n.Neg
	return func(r rune) bool {
		in := false
		for _, m := range ms {
			if m.pred != nil {
				if m.pred(r) {
					in = true
					break
				}
			} else if r >= m.lo && r <= m.hi {
				in = true
				break
			}
		}
		return in != neg
	}, nil
}

// CompileRef prepares the reference matcher; an error means the tree is outside
// the modelled grammar (back-references, look-around, unknown property).
func CompileRef(ast *Node) (*Prog, error) {
	p := &Prog{}
	var build func(n *Node) (int, error)
	build = func(n *Node) (int, error) {
		c := cnode{k: n.K}
		switch n.K {
		case KLit, KEsc, KCesc, KProp:
			pr, err := atomPredicate(n)
			if err != nil {
				return 0, err
			}
			if n.K == KEsc && n.F == FBksp {
				return 0, fmt.Errorf("\\b outside a class is an assertion")
			}
			c.pred = pr
		case KDot:
			c.pred = func(r rune) bool { return !isLineTerminator(r) }
		case KClass:
			pr, err := classPredicate(n)
			if err != nil {
				return 0, err
			}
			c.pred = pr
		case KBol, KEol, KWb, KNwb, KEmpty:
		case KGrp, KNcg, KNgrp, KRep:
			if len(n.Sub) != 1 {
				return 0, fmt.Errorf("%s needs one child", n.K)
			}
			id, err := build(n.Sub[0])
			if err != nil {
				return 0, err
			}
			c.sub = []int{id}
			c.min, c.max = n.Min, n.Max
			if n.K == KRep && (n.Min < 0 || n.Max >= 0 && n.Max < n.Min) {
				return 0, fmt.Errorf("bad quantifier bounds")
			}
		case KAlt, KCat:
			for _, s := range n.Sub {
				id, err := build(s)
				if err != nil {
					return 0, err
				}
				c.sub = append(c.sub, id)
			}
		default:
			return 0, fmt.Errorf("construct %q has no regular semantics", n.K)
		}
		p.nodes = append(p.nodes, c)
		return len(p.nodes) - 1, nil
	}
	root, err := build(ast)
	if err != nil {
		return nil, err
	}
	p.root = root
	return p, nil
}

const maxSubject = 62 // end-position sets are 64-bit masks

// ends returns the set of end positions of node id started at position i.
func (p *Prog) ends(id, i int) uint64 {
	n := len(p.in)
	slot := id*(n+1) + i
	if p.done[slot] {
		return p.memo[slot]
	}
	c := &p.nodes[id]
	var out uint64
	switch c.k {
	case KLit, KEsc, KCesc, KProp, KDot, KClass:
		if i < n && c.pred(p.in[i]) {
			out = 1 << uint(i+1)
		}
	case KEmpty:
		out = 1 << uint(i)
	case KBol:
		if i == 0 {
			out = 1 << uint(i)
		}
	case KEol:
		if i == n {
			out = 1 << uint(i)
		}
	case KWb, KNwb:
		a := i > 0 && isECMAWord(p.in[i-1])
		b := i < n && isECMAWord(p.in[i])
		if (a != b) == (c.k == KWb) {
			out = 1 << uint(i)
		}
	case KGrp, KNcg, KNgrp:
		out = p.ends(c.sub[0], i)
	case KAlt:
		for _, s := range c.sub {
			out |= p.ends(s, i)
		}
	case KCat:
		cur := uint64(1) << uint(i)
		for _, s := range c.sub {
			cur = p.step(s, cur)
			if cur == 0 {
				break
			}
		}
		out = cur
	case KRep:
		cur := uint64(1) << uint(i)
		// the mandatory iterations
		for k := 0; k < c.min && cur != 0; k++ {
			next := p.step(c.sub[0], cur)
			if next == cur {
				break // fixed point: further iterations cannot change the set
			}
			cur = next
		}
		out = cur
		// the optional ones: closure, at most max-min more
		for k := c.min; (c.max < 0 || k < c.max) && cur != 0; k++ {
			cur = p.step(c.sub[0], cur)
			if cur|out == out {
				break
			}
			out |= cur
		}
	default:
		panic("unreachable node kind " + c.k)
	}
	p.memo[slot] = out
	p.done[slot] = true
	return out
}

// step maps a set of positions through node id.
func (p *Prog) step(id int, from uint64) uint64 {
	var out uint64
	for i := 0; from != 0; i, from = i+1, from>>1 {
		if from&1 != 0 {
			out |= p.ends(id, i)
		}
	}
	return out
}

// Match reports whether the pattern matches somewhere in s.
func (p *Prog) Match(s string) bool {
	p.in = append(p.in[:0], []rune(s)...)
	n := len(p.in)
	if n > maxSubject {
		panic("subject too long for the reference matcher")
	}
	need := len(p.nodes) * (n + 1)
	if cap(p.memo) < need {
		p.memo = make([]uint64, need)
		p.done = make([]bool, need)
	}
	p.memo = p.memo[:need]
	p.done = p.done[:need]
	for i := range p.done {
		p.done[i] = false
	}
	for i := 0; i <= n; i++ {
		if p.ends(p.root, i) != 0 {
			return true
		}
	}
	return false
}
