// Development-time helper (NOT used by any registered command): evaluates the
// rows dumped by `C08_DEV_DUMP=<dir> go test -run TestDevDump` with V8's
// `new RegExp(p, "u").test(s)` and writes one verdict bitset per row.
//
//   node v8eval.js <dir>/dump.jsonl <dir>/v8.jsonl
//
// Row in:  {"i":n,"p":pattern,"l":L,"xs":[extra subjects]} or {"i":n,"p":pattern,"s":[subjects]}
//          first line: {"base":{"1":[...],"2":[...],"3":[...]}}
// Row out: {"i":n,"v":"hex bitset"} or {"i":n,"err":"SyntaxError…"}
const fs = require('fs');
const readline = require('readline');
const [, , inPath, outPath] = process.argv;
const out = fs.createWriteStream(outPath);
let base = null;
let deviations = 0;
const rl = readline.createInterface({ input: fs.createReadStream(inPath), crlfDelay: Infinity });
rl.on('line', (line) => {
  if (!line) return;
  const row = JSON.parse(line);
  if (row.base) { base = row.base; return; }
  let re, plain;
  try {
    re = new RegExp(row.p, 'uy');
    plain = new RegExp(row.p, 'u');
  } catch (e) {
    out.write(JSON.stringify({ i: row.i, err: String(e) }) + '\n');
    return;
  }
  const subjects = row.s ? row.s : base[String(row.l)].concat(row.xs || []);
  const bytes = Buffer.alloc((subjects.length + 7) >> 3);
  for (let j = 0; j < subjects.length; j++) {
    const s = subjects[j];
    // ECMA-262 RegExpBuiltinExec with the u flag tries the start indices
    // 0, AdvanceStringIndex(…): code-point aligned ones only. V8's plain
    // .test() also finds zero-width matches strictly inside a surrogate pair
    // (/\B/u.test("a\u{20000}a") is true), which the specification excludes,
    // so the loop is done here with a sticky expression.
    let m = false;
    for (let i = 0; i <= s.length && !m; i++) {
      if (i > 0 && i < s.length) {
        const hi = s.charCodeAt(i - 1), lo = s.charCodeAt(i);
        if (hi >= 0xD800 && hi <= 0xDBFF && lo >= 0xDC00 && lo <= 0xDFFF) continue;
      }
      re.lastIndex = i;
      m = re.test(s);
    }
    if (m !== plain.test(s)) deviations++;
    if (m) bytes[j >> 3] |= 1 << (j & 7);
  }
  out.write(JSON.stringify({ i: row.i, v: bytes.toString('hex') }) + '\n');
});
rl.on('close', () => { out.end(); console.error('pairs where plain .test() differs from the aligned-start loop: ' + deviations); });
