package c08

import (
	"testing"

	"verif/internal/vk"
)

// native fuzz targets: generators and oracles of the random units, driven by coverage
func FuzzRandom(f *testing.F)          { vk.FuzzUnit(f, TestRandom, 0) }
func FuzzUnicodeProperty(f *testing.F) { vk.FuzzUnit(f, TestUnicodeProperty, 0) }
func FuzzFallback(f *testing.F)        { vk.FuzzUnit(f, TestFallback, 0) }
