package c02

import "encoding/json"

func jsonUnmarshal(b []byte, v any) error { return json.Unmarshal(b, v) }
