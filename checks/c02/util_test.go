package c02

import "encoding/json"

func jsonUnmarshal(b []byte, v any) error { return json.Unmarshal(b, v) }

func jsonMarshal(v any) ([]byte, error) { return json.Marshal(v) }
