// Package c02 decides property C02: whenever generation succeeds, the files
// written form one Go package that type-checks and builds (incl. its generated
// tests) in every feature configuration; and generation never fails because
// the templates emitted unparsable Go (ErrGoFormat), a template failed to
// execute, or the generator panicked.
package c02

import (
	"fmt"
	"os"
	"os/exec"
	"path/filepath"
	"regexp"
	"sort"
	"strings"
	"testing"

	"pgregory.net/rapid"

	"verif/internal/regen"
	"verif/internal/specgen"
	"verif/internal/vk"
)

// Case is the replay unit: one document with one generator configuration.
type Case struct {
	Name   string       `json:"name"`
	Spec   string       `json:"spec"`
	Config regen.Config `json:"config"`
	// Tame, if set, is the same document with every author-chosen name replaced by a fresh tame one.
	Tame string `json:"tame,omitempty"`
}

var allFeatures = []string{"paths/client", "paths/server", "webhooks/client", "webhooks/server", "client/security/reentrant",
	"client/request/options", "client/request/validation", "server/response/validation", "ogen/otel", "ogen/unimplemented", "debug/example_tests"}

func namedConfigs() []regen.Config {
	base := func(c regen.Config) regen.Config {
		c.InferTypes = true
		c.IgnoreNotImplemented = []string{"all"}
		return c
	}
	var out []regen.Config
	out = append(out, base(regen.Config{}))                                                   // defaults
	out = append(out, base(regen.Config{Enable: allFeatures}))                                // everything
	out = append(out, base(regen.Config{DisableAll: true}))                                   // nothing
	out = append(out, base(regen.Config{DisableAll: true, Enable: []string{"paths/client"}})) // client only
	out = append(out, base(regen.Config{DisableAll: true, Enable: []string{"paths/server"}})) // server only
	out = append(out, base(regen.Config{DisableAll: true, Enable: []string{"webhooks/client", "webhooks/server"}}))
	out = append(out, base(regen.Config{DisableAll: true, Enable: []string{"paths/client", "paths/server", "debug/example_tests"}}))
	out = append(out, base(regen.Config{Disable: []string{"ogen/otel"}, Enable: []string{"client/request/validation", "server/response/validation"}}))
	out = append(out, base(regen.Config{Enable: []string{"client/request/options", "client/security/reentrant"}}))
	out = append(out, base(regen.Config{Disable: []string{"ogen/unimplemented", "paths/client"}}))
	out = append(out, base(regen.Config{ConvenientErrors: "off", Enable: []string{"debug/example_tests"}}))
	for _, f := range allFeatures {
		out = append(out, base(regen.Config{DisableAll: true, Enable: []string{f}}))
	}
	return out
}

var identRe = regexp.MustCompile(`\b[A-Za-z_][A-Za-z0-9_]*\b`)
var keepWords = map[string]bool{"redeclared": true, "in": true, "this": true, "block": true, "undefined": true, "duplicate": true, "field": true, "method": true,
	"declared": true, "and": true, "not": true, "used": true, "cannot": true, "use": true, "as": true, "value": true, "type": true, "missing": true, "return": true,
	"has": true, "no": true, "or": true, "case": true, "switch": true, "already": true, "other": true, "declaration": true, "of": true, "invalid": true,
	"operation": true, "mismatched": true, "types": true, "variable": true, "assignment": true, "argument": true, "to": true, "imported": true, "is": true, "expected": true, "found": true, "syntax": true, "error": true}

// classifyCompile turns the first compiler error into a root-cause class.
func classifyCompile(output string) (string, string) {
	first := ""
	for _, l := range strings.Split(output, "\n") {
		if i := strings.Index(l, ".go:"); i >= 0 {
			parts := strings.SplitN(l[i:], ": ", 2)
			if len(parts) == 2 {
				first = strings.TrimSpace(parts[1])
				break
			}
		}
	}
	if first == "" {
		return "compile:unattributed", head(output, 300)
	}
	if m := regexp.MustCompile(`^(\w+) redeclared in this block`).FindStringSubmatch(first); m != nil {
		for _, f := range specgen.FixedIdentifiers {
			if m[1] == f {
				return "name-collides-with-fixed-identifier", first
			}
		}
		if strings.HasSuffix(m[1], "Operation") {
			return "operation-names-collide-after-normalisation", first
		}
	}
	if strings.HasPrefix(first, "field and method with the same name") {
		return "field-name-collides-with-generated-method", first
	}
	// the two known "undefined member" findings are named by what is SPECIFIC to them (the generated
	// variable `wrapper`, the status/headers wrapper type, the header field Type): the shape of the
	// message alone ("X.X undefined (type X has no field or method X)") is shared by unrelated failures
	if m := regexp.MustCompile(`^wrapper\.(\w+)(\.\w+)? undefined \(type (\w+) has no field or method (\w+)\)`).FindStringSubmatch(first); m != nil {
		switch {
		case m[1] == "Type" && m[2] != "":
			return "header-field-named-type-on-sum-or-alias-wrapper", first
		case m[2] == "" && (strings.HasSuffix(m[3], "StatusCode") || strings.HasSuffix(m[3], "Headers")):
			return "response-wrapper-without-the-header-field", first
		}
	}
	norm := identRe.ReplaceAllStringFunc(first, func(w string) string {
		if keepWords[w] {
			return w
		}
		switch {
		case strings.HasPrefix(w, "OptNil"), strings.HasPrefix(w, "Opt"), strings.HasPrefix(w, "Nil"):
			return "<Generic>"
		}
		return "X"
	})
	norm = regexp.MustCompile(`[0-9]+`).ReplaceAllString(norm, "N")
	if len(norm) > 90 {
		norm = norm[:90]
	}
	return "compile:" + norm, first
}

// operationIDsCollide: two operationIds are equal after dropping everything but letters and digits
// and ignoring case (ogen's name normalisation maps them to one Go name).
func operationIDsCollide(spec string) bool {
	var doc struct {
		Paths map[string]map[string]struct {
			OperationID string `json:"operationId"`
		} `json:"paths"`
	}
	if jsonUnmarshal([]byte(spec), &doc) != nil {
		return false
	}
	seen := map[string]bool{}
	for _, item := range doc.Paths {
		for _, op := range item {
			var b strings.Builder
			for _, r := range strings.ToLower(op.OperationID) {
				if r >= 'a' && r <= 'z' || r >= '0' && r <= '9' || r > 0x7f {
					b.WriteRune(r)
				}
			}
			if b.Len() == 0 {
				continue
			}
			if seen[b.String()] {
				return true
			}
			seen[b.String()] = true
		}
	}
	return false
}

// tameCopyBuilds generates and builds the tame copy of a case on its own.
func tameCopyBuilds(c Case) bool { return specBuilds(c.Tame, c.Config) }

func specBuilds(spec string, cfg regen.Config) bool {
	b, err := regen.NewBatch("tame")
	if err != nil {
		return false
	}
	defer b.Remove()
	if out := b.Add("t0", []byte(spec), cfg, nil); out.Class != regen.OK {
		return false
	}
	res := b.Build()
	return len(res.OK) == 1
}

// unshareResponseBodies is the counterfactual for one root cause: ogen names the wrapper type of a
// response that declares headers after the component its body refers to (<Component>Headers,
// <Component>StatusCodeWithHeaders), so two responses over one body component with different header
// sets share one Go type. The copy gives every such response a private clone of its body component;
// nothing else changes. ok reports whether anything was rewritten.
func unshareResponseBodies(spec string) (string, bool) {
	var doc map[string]any
	if jsonUnmarshal([]byte(spec), &doc) != nil {
		return "", false
	}
	comps, _ := doc["components"].(map[string]any)
	schemas, _ := comps["schemas"].(map[string]any)
	if schemas == nil {
		return "", false
	}
	n := 0
	changed := false
	response := func(r map[string]any) {
		if h, _ := r["headers"].(map[string]any); len(h) == 0 {
			return
		}
		content, _ := r["content"].(map[string]any)
		for _, ct := range sortedKeys(content) {
			media, _ := content[ct].(map[string]any)
			sch, _ := media["schema"].(map[string]any)
			ref, _ := sch["$ref"].(string)
			const pfx = "#/components/schemas/"
			if !strings.HasPrefix(ref, pfx) {
				continue
			}
			target, ok := schemas[ref[len(pfx):]]
			if !ok {
				continue
			}
			n++
			name := fmt.Sprintf("UnsharedBody%d", n)
			raw, _ := jsonMarshal(target)
			var clone any
			_ = jsonUnmarshal(raw, &clone)
			schemas[name] = clone
			sch["$ref"] = pfx + name
			changed = true
		}
	}
	responses := func(rs map[string]any) {
		for _, code := range sortedKeys(rs) {
			if r, ok := rs[code].(map[string]any); ok {
				response(r)
			}
		}
	}
	if rs, ok := comps["responses"].(map[string]any); ok {
		responses(rs)
	}
	for _, section := range []string{"paths", "webhooks"} {
		items, _ := doc[section].(map[string]any)
		for _, p := range sortedKeys(items) {
			item, _ := items[p].(map[string]any)
			for _, m := range sortedKeys(item) {
				op, _ := item[m].(map[string]any)
				if rs, ok := op["responses"].(map[string]any); ok {
					responses(rs)
				}
			}
		}
	}
	if !changed {
		return "", false
	}
	out, err := jsonMarshal(doc)
	if err != nil {
		return "", false
	}
	return string(out), true
}

func sortedKeys(m map[string]any) []string {
	out := make([]string, 0, len(m))
	for k := range m {
		out = append(out, k)
	}
	sort.Strings(out)
	return out
}

func hasControl(s string) bool {
	for _, r := range s {
		// characters the Go scanner rejects even inside a comment (NUL, a byte order mark) or that end it
		if r < 0x20 || r == 0x7f || r == 0xfeff {
			return true
		}
	}
	return false
}

// nameHasLineBreak: some name a spec author writes (operationId, parameter name, property name,
// component key) contains CR or LF; the templates copy names into // comments.
func nameHasLineBreak(spec string) bool {
	var doc any
	if jsonUnmarshal([]byte(spec), &doc) != nil {
		return false
	}
	found := false
	var walk func(v any, key string)
	walk = func(v any, key string) {
		switch x := v.(type) {
		case map[string]any:
			for k, e := range x {
				if (key == "properties" || key == "schemas" || key == "headers") && hasControl(k) {
					found = true
				}
				if s, ok := e.(string); ok && (k == "operationId" || k == "name") && hasControl(s) {
					found = true
				}
				walk(e, k)
			}
		case []any:
			for _, e := range x {
				walk(e, key)
			}
		}
	}
	walk(doc, "")
	return found
}

type item struct {
	c    Case
	name string // package dir
}

// runItems generates every (spec, config), compiles what was generated and reports.
func runItems(u *vk.Unit, tag string, items []Case, label func(Case) string) {
	b, err := regen.NewBatch(tag)
	if err != nil {
		u.T.Fatalf("batch: %v", err)
	}
	defer b.Remove()
	byPkg := map[string]Case{}
	var withTests []string
	for i, c := range items {
		pkg := fmt.Sprintf("s%d", i)
		out := b.Add(pkg, []byte(c.Spec), c.Config, nil)
		u.Eval(1)
		u.Label("outcome:" + out.Class)
		if label != nil {
			u.Label(label(c) + ":" + out.Class)
		}
		switch out.Class {
		case regen.OK:
			byPkg[pkg] = c
			if len(out.Files) == 0 {
				u.Report(vk.F("generated-nothing", "%s: generation succeeded but wrote no files", c.Name), c)
			}
			for _, f := range out.Files {
				if strings.HasSuffix(f, "_test.go") {
					withTests = append(withTests, pkg)
					break
				}
			}
			g := out.Gen
			if g != nil && len(g.Operations())+len(g.Webhooks()) > 0 && len(g.Types()) > 0 {
				u.NonTrivial(c.Spec + fmt.Sprint(c.Config))
			}
		case regen.ParseError, regen.SpecDiagnostic, regen.NotImplemented:
			// acceptable rejections
		case "glue-error":
			u.T.Errorf("HARNESS: glue for %s: %s", c.Name, out.Err)
		default:
			cl := "generator-" + out.Class
			if out.Class == regen.GoFormat && nameHasLineBreak(c.Spec) {
				cl = "go-format-control-character-in-name"
			}
			if out.Class == regen.TemplateExec && strings.Contains(out.Err, `template "faker"`) && strings.Contains(out.Err, "error calling FakeFields") && strings.Contains(out.Err, "maximumProperties") {
				cl = "faker-refuses-object-with-property-count-bound"
			}
			u.Report(vk.F(cl, "%s: generation ends with %s: %s", c.Name, out.Class, tail(out.Err, 700)), c)
		}
	}
	if len(b.Pkgs) == 0 {
		return
	}
	res := b.Build()
	for p, e := range res.Failed {
		c := byPkg[p]
		// glue is ours: a failure that only mentions verif_glue.go is a harness problem
		onlyGlue := true
		for _, l := range strings.Split(e, "\n") {
			if strings.Contains(l, ".go:") && !strings.Contains(l, "verif_glue.go") {
				onlyGlue = false
			}
		}
		if onlyGlue {
			u.T.Errorf("HARNESS: glue of %s does not compile:\n%s", c.Name, head(e, 1500))
			continue
		}
		cl, first := classifyCompile(e)
		if strings.HasSuffix(cl, "redeclared in this block") && operationIDsCollide(c.Spec) {
			cl = "operation-names-collide-after-normalisation"
		}
		if strings.HasPrefix(cl, "compile:") && c.Tame != "" && tameCopyBuilds(c) {
			// counterfactual: the same document with tame, unique names generates and compiles, so the
			// failure comes from the names alone (spec-derived identifiers are not conflict-checked
			// against each other and against what the templates emit)
			cl = "spec-names-not-conflict-checked"
		}
		if strings.HasPrefix(cl, "compile:") {
			base := c.Tame
			if base == "" {
				base = c.Spec
			}
			if un, ok := unshareResponseBodies(base); ok && specBuilds(un, c.Config) {
				// counterfactual: with a private copy of the body component per header-carrying
				// response (and tame names) the package compiles
				cl = "response-wrapper-type-shared-through-body-component"
			}
		}
		u.Label("compile-failed")
		u.Report(vk.F(cl, "%s (config %+v): generated package does not compile: %s", c.Name, c.Config, first), c)
	}
	u.LabelN("compiled", len(res.OK))
	// generated tests (debug/example_tests) must type-check too
	var testPkgs []string
	okSet := map[string]bool{}
	for _, p := range res.OK {
		okSet[p] = true
	}
	for _, p := range withTests {
		if okSet[p] {
			testPkgs = append(testPkgs, "./pkgs/"+p)
		}
	}
	if len(testPkgs) > 0 {
		args := append([]string{"test", "-vet=off", "-count=1", "-run", "^$"}, testPkgs...)
		cmd := exec.Command("go", args...)
		cmd.Dir = b.Dir
		cmd.Env = append(os.Environ(), "GOFLAGS=-mod=mod", "GOPROXY=off", "GOSUMDB=off", "GOTOOLCHAIN=local")
		var outb []byte
		var err error
		regen.WithCacheLock(func() { outb, err = cmd.CombinedOutput() })
		u.LabelN("test-binaries-built", len(testPkgs))
		if err != nil {
			// attribute per package
			cur := ""
			fails := map[string]string{}
			for _, l := range strings.Split(string(outb), "\n") {
				if strings.HasPrefix(l, "# ") {
					cur = ""
					if i := strings.Index(l, "/pkgs/"); i >= 0 {
						cur = strings.Fields(l[i+6:])[0]
						cur = strings.TrimSuffix(strings.Split(cur, " ")[0], "]")
						cur = strings.Split(cur, ".")[0]
					}
					continue
				}
				if cur != "" && strings.Contains(l, ".go:") {
					fails[cur] += l + "\n"
				}
			}
			if len(fails) == 0 {
				u.T.Errorf("go test -run ^$ failed without attributable errors:\n%s", head(string(outb), 2000))
			}
			for p, e := range fails {
				c := byPkg[p]
				cl, first := classifyCompile(e)
				u.Report(vk.F("tests-"+cl, "%s (config %+v): generated tests do not compile: %s", c.Name, c.Config, first), c)
			}
		}
	}
}

func corpusFiles() []string {
	var files []string
	for _, g := range []string{"_testdata/positive/*.*", "_testdata/examples/*.*"} {
		m, _ := filepath.Glob(filepath.Join(regen.Repo(), g))
		files = append(files, m...)
	}
	sort.Strings(files)
	return files
}

func TestCorpusFeatures(t *testing.T) {
	u := vk.New(t, "C02", "corpus-features")
	defer u.Close()
	if vk.InReplay() {
		return
	}
	cfgs := namedConfigs()
	shard, shards := vk.Shard()
	seed := int(vk.Seed())
	perSpec := vk.N(3, len(cfgs))
	var items []Case
	n := 0
	for fi, f := range corpusFiles() {
		data, err := os.ReadFile(f)
		if err != nil || len(data) == 0 {
			continue
		}
		if len(data) > 700_000 && vk.Tier() == "quick" {
			continue // the largest documents only in the thorough tier
		}
		if len(data) > 3_000_000 {
			continue
		}
		for k := 0; k < perSpec; k++ {
			cfg := cfgs[(fi*7+k*5+seed)%len(cfgs)]
			if perSpec == len(cfgs) {
				cfg = cfgs[k]
			}
			if strings.Contains(f, "convenient_errors") {
				cfg.ConvenientErrors = "on"
			}
			n++
			if n%shards != shard {
				continue
			}
			items = append(items, Case{Name: filepath.Base(f), Spec: string(data), Config: cfg})
		}
	}
	u.Set("configs", len(cfgs))
	const batch = 12
	for i := 0; i < len(items); i += batch {
		runItems(u, fmt.Sprintf("corpus%d", i), items[i:min(i+batch, len(items))], func(c Case) string { return "cfg" })
	}
}

type hostileBatch struct {
	Items []Case `json:"items"`
}

func drawHostile(avoidFixed func() bool) func(t *rapid.T) hostileBatch {
	return func(t *rapid.T) hostileBatch {
		var hb hostileBatch
		for i := 0; i < 24; i++ {
			avoid := avoidFixed() && rapid.IntRange(0, 3).Draw(t, "steer") != 0
			doc := specgen.GenHostileDoc(t, avoid)
			var cfg regen.Config
			switch rapid.IntRange(0, 4).Draw(t, "cfg") {
			case 0:
				cfg = regen.Config{}
			case 1:
				cfg = regen.ClientServer()
			case 2:
				cfg = regen.Config{DisableAll: true, Enable: []string{"paths/client", "paths/server", "debug/example_tests", "ogen/unimplemented"}}
			case 3:
				cfg = regen.Config{Enable: []string{"client/request/validation", "server/response/validation", "client/request/options"}}
			default:
				n := rapid.IntRange(0, len(allFeatures)).Draw(t, "nfeat")
				cfg = regen.Config{DisableAll: true, Enable: rapid.Permutation(allFeatures).Draw(t, "feats")[:n]}
			}
			name := "hostile"
			if avoid {
				name = "hostile-steered"
			}
			hb.Items = append(hb.Items, Case{Name: name, Spec: string(doc.Render()), Config: cfg, Tame: string(specgen.TameCopy(doc).Render())})
		}
		return hb
	}
}

func TestHostileNames(t *testing.T) {
	u := vk.New(t, "C02", "hostile-names")
	defer u.Close()
	if c, ok := vk.ReplayOnly[Case](u); ok {
		runItems(u, "replay", []Case{c}, nil)
		return
	}
	if vk.InReplay() {
		return
	}
	n := 0
	steer := func() bool { return u.Known("name-collides-with-fixed-identifier") }
	vk.Rapid(u, vk.N(6, 160), nil, drawHostile(steer), func(hb hostileBatch) *vk.Finding {
		n++
		runItems(u, fmt.Sprintf("h%d", n), hb.Items, func(c Case) string { return c.Name })
		return nil
	})
}

// ---- unit: exchange-docs ---------------------------------------------------------------------
// Documents of the exchange profile (parameters of every admitted style cell and shape, JSON
// bodies, response codes / patterns / default with headers, formats, validators, defaults,
// descriptions), decorated at random with a bearer security requirement on every operation and with
// ONE operation that the generator has to skip (a sum-typed parameter, not implemented), under the
// named feature configurations: whatever is generated must compile.

type exchangeBatch struct {
	Items []Case `json:"items"`
}

func drawExchange(t *rapid.T) exchangeBatch {
	var b exchangeBatch
	cfgs := namedConfigs()
	for i := 0; i < 10; i++ {
		d := specgen.GenExchangeDoc(t, specgen.ExchangeOptions{Formats: rapid.Bool().Draw(t, "formats"), TimeFormat: "date-time",
			Validators: rapid.Bool().Draw(t, "validators"), Defaults: rapid.Bool().Draw(t, "defaults"), Docs: rapid.Bool().Draw(t, "docs"), SharedParamObjects: true, PropDefaults: true})
		m := d.RenderMap()
		paths, _ := m["paths"].(map[string]any)
		var keys []string
		for k := range paths {
			keys = append(keys, k)
		}
		sort.Strings(keys)
		if rapid.Bool().Draw(t, "security") {
			comps, _ := m["components"].(map[string]any)
			if comps == nil {
				comps = map[string]any{}
				m["components"] = comps
			}
			comps["securitySchemes"] = map[string]any{"bearerAuth": map[string]any{"type": "http", "scheme": "bearer"}, "key": map[string]any{"type": "apiKey", "in": "header", "name": "X-Key"}}
			if rapid.IntRange(0, 3).Draw(t, "globalsec") > 0 {
				m["security"] = []any{map[string]any{"bearerAuth": []any{}}, map[string]any{"key": []any{}}}
			}
			// operations WITHOUT parameters and body whose own requirement list takes every shape: empty list,
			// only the anonymous alternative, anonymous next to a real one, a conjunction, a single scheme
			for k, sec := range [][]any{{}, {map[string]any{}}, {map[string]any{}, map[string]any{"key": []any{}}},
				{map[string]any{"bearerAuth": []any{}, "key": []any{}}}, {map[string]any{"key": []any{}}}, {map[string]any{}, map[string]any{}}} {
				op := map[string]any{"operationId": fmt.Sprintf("zbare%d", k), "security": sec,
					"responses": map[string]any{"200": map[string]any{"description": "r"}}}
				method := []string{"get", "post", "delete"}[k%3]
				paths[fmt.Sprintf("/zbare%d", k)] = map[string]any{method: op}
			}
		}
		if rapid.IntRange(0, 2).Draw(t, "samename") == 0 {
			// parameters of ONE operation whose names give the same Go identifier: spread over locations
			// and, for two of them, within one location (spelled differently)
			sp := func(name, in string) map[string]any {
				return map[string]any{"name": name, "in": in, "schema": map[string]any{"type": "string"}}
			}
			sets := [][]any{
				{sp("page-size", "query"), sp("page_size", "query"), sp("page_size", "cookie")},
				{sp("page-size", "query"), sp("page_size", "cookie"), sp("Page-Size", "header")},
				{sp("page_size", "cookie"), sp("page-size", "cookie"), sp("page_size", "query"), sp("Page-Size", "header")},
				{sp("pageSize", "query"), sp("page_size", "header")},
			}
			k := rapid.IntRange(0, len(sets)-1).Draw(t, "samenameset")
			for _, ps := range sets[k : k+1] {
				paths[fmt.Sprintf("/zsame%d", k)] = map[string]any{"get": map[string]any{"operationId": fmt.Sprintf("zsame%d", k), "parameters": ps,
					"responses": map[string]any{"200": map[string]any{"description": "r"}}}}
			}
		}
		if len(keys) > 0 && rapid.Bool().Draw(t, "skipone") {
			// the operation that comes first in the document cannot be generated
			which := keys[0]
			if rapid.IntRange(0, 2).Draw(t, "skipwhich") == 0 {
				which = keys[rapid.IntRange(0, len(keys)-1).Draw(t, "skipidx")]
			}
			// (an optional parameter of a sum type is dropped alone; a PATH parameter takes the operation with it)
			item, _ := paths[which].(map[string]any)
			delete(paths, which)
			paths[which+"/{zsum}"] = item
			for _, mth := range []string{"get", "post", "put", "delete", "patch"} {
				if op, ok := item[mth].(map[string]any); ok {
					ps, _ := op["parameters"].([]any)
					op["parameters"] = append(ps, map[string]any{"name": "zsum", "in": "path", "required": true, "schema": map[string]any{"oneOf": []any{map[string]any{"type": "string"}, map[string]any{"type": "integer"}}}})
				}
			}
		}
		if rapid.IntRange(0, 2).Draw(t, "nonascii") == 0 {
			// sibling path segments that start with different characters of ONE UTF-8 lead byte
			// (к/п: D0, ä/ö: C3, 日/本: E6) below a common non-ASCII prefix
			words := []string{"книги", "полки", "ä", "ö", "日", "本"}
			renamed := map[string]any{}
			j := 0
			var ks []string
			for k := range paths {
				ks = append(ks, k)
			}
			sort.Strings(ks)
			for _, k := range ks {
				renamed["/каталог/"+words[j%len(words)]+k] = paths[k]
				j++
			}
			m["paths"] = renamed
			paths = renamed
		}
		if rapid.IntRange(0, 2).Draw(t, "sumnames") == 0 {
			// a component whose name is the Go name of a primitive variant, next to that primitive in a sum
			comps, _ := m["components"].(map[string]any)
			if comps == nil {
				comps = map[string]any{}
				m["components"] = comps
			}
			schemas, _ := comps["schemas"].(map[string]any)
			if schemas == nil {
				schemas = map[string]any{}
				comps["schemas"] = schemas
			}
			pick := rapid.SampledFrom([][2]string{{"String", "string"}, {"Int", "integer"}, {"Bool", "boolean"}, {"Float64", "number"}}).Draw(t, "sumname")
			if _, taken := schemas[pick[0]]; !taken {
				schemas[pick[0]] = map[string]any{"type": "object", "properties": map[string]any{"a": map[string]any{"type": "string"}}}
				paths["/zsumnames"] = map[string]any{"get": map[string]any{"operationId": "zsumnames", "responses": map[string]any{"200": map[string]any{"description": "r",
					"content": map[string]any{"application/json": map[string]any{"schema": map[string]any{"oneOf": []any{map[string]any{"type": pick[1]}, map[string]any{"$ref": "#/components/schemas/" + pick[0]}}}}}}}}}
			}
		}
		text, _ := jsonMarshal(m)
		b.Items = append(b.Items, Case{Name: fmt.Sprintf("exchange%d", i), Spec: string(text), Config: cfgs[rapid.IntRange(0, len(cfgs)-1).Draw(t, "config")]})
	}
	return b
}

func TestExchangeDocs(t *testing.T) {
	u := vk.New(t, "C02", "exchange-docs")
	defer u.Close()
	if c, ok := vk.ReplayOnly[Case](u); ok {
		runItems(u, "replay", []Case{c}, nil)
		return
	}
	if vk.InReplay() {
		return
	}
	n := 0
	vk.Rapid(u, vk.N(8, 200), nil, drawExchange, func(eb exchangeBatch) *vk.Finding {
		n++
		runItems(u, fmt.Sprintf("x%d", n), eb.Items, func(c Case) string { return c.Name })
		return nil
	})
}

func TestReplayCorpus(t *testing.T) {
	u := vk.New(t, "C02", "corpus-features-replay")
	defer u.Close()
	if os.Getenv("VERIF_REPLAY") == "" {
		return
	}
	data, _ := os.ReadFile(os.Getenv("VERIF_REPLAY"))
	if !strings.Contains(string(data), `"unit": "corpus-features"`) {
		return
	}
	// same case type
	type doc struct {
		Case Case `json:"case"`
	}
	var d doc
	if err := jsonUnmarshal(data, &d); err != nil {
		t.Fatal(err)
	}
	runItems(u, "replay", []Case{d.Case}, nil)
}

func head(s string, n int) string {
	if len(s) > n {
		return s[:n] + "…"
	}
	return s
}

func tail(s string, n int) string {
	if len(s) > n {
		return "…" + s[len(s)-n:]
	}
	return s
}
