// Package c03 decides property C03 (the server accepts a body or parameter
// exactly when it satisfies the schema) on servers regenerated from /repo:
// schemas of the typed keyword fragment (internal/specgen) with schema-directed
// valid instances, single-keyword boundary mutants and random JSON; validity is
// decided by two independent oracles (reference validator in Go written from the
// specification + python jsonschema Draft 4 with the nullable rewrite) and only
// used where they agree.
package c03

import (
	"bufio"
	"bytes"
	"encoding/json"
	"fmt"
	"os"
	"os/exec"
	"path/filepath"
	"strings"
	"testing"

	"pgregory.net/rapid"

	"verif/internal/c03x"
	"verif/internal/regen"
	"verif/internal/specgen"
	"verif/internal/vk"
)

var c03opts = specgen.Options{MaxDepth: 3, Validators: true, Sums: true, Discs: true, AllOf: true, Refs: true, Nullable: true, Maps: true}

type specCase struct {
	Doc   specgen.Doc `json:"doc"`
	Cases []c03x.Case `json:"cases"`
}

type batchCase struct {
	Specs []specCase `json:"specs"`
}

func drawSpec(t *rapid.T) specCase {
	comps := specgen.GenComponents(t, c03opts, rapid.IntRange(1, 5).Draw(t, "ncomp"))
	var sc specCase
	sc.Doc.Components = comps
	vd := specgen.Validator{C: comps}
	ig := specgen.InstGen{C: comps}
	for i, n := range comps.Names() {
		op := specgen.Operation{ID: fmt.Sprintf("op%d", i), Method: "POST", Path: fmt.Sprintf("/b%d", i),
			Body:      &specgen.Body{Required: true, Media: []specgen.Media{{ContentType: "application/json", Schema: &specgen.Schema{Ref: n}}}},
			Responses: []specgen.Response{{Code: "200"}}}
		sc.Doc.Ops = append(sc.Doc.Ops, op)
		s := comps[n]
		add := func(desc string, v any) {
			ok, why := vd.Valid(s, v)
			sc.Cases = append(sc.Cases, c03x.Case{Op: op.ID, Method: "POST", Path: op.Path, Body: string(specgen.MustJSON(v)), Desc: desc, Valid: ok, Why: why, Schema: n})
		}
		for k := 0; k < 3; k++ {
			v := ig.Gen(t, s, 0)
			add("valid", v)
			if ok, _ := vd.Valid(s, v); ok {
				for _, m := range ig.Mutants(s, v) {
					add(m.Desc, m.Value)
				}
			}
		}
		for k := 0; k < 2; k++ {
			sc.Cases = append(sc.Cases, func() c03x.Case {
				v := ig.Gen(t, &specgen.Schema{}, 0)
				ok, why := vd.Valid(s, v)
				return c03x.Case{Op: op.ID, Method: "POST", Path: op.Path, Body: string(specgen.MustJSON(v)), Desc: "random", Valid: ok, Why: why, Schema: n}
			}())
		}
	}
	return sc
}

func drawBatch(t *rapid.T) batchCase {
	var b batchCase
	for i := 0; i < 16; i++ {
		b.Specs = append(b.Specs, drawSpec(t))
	}
	return b
}

// crossCheck asks the python oracle; cases on which the two oracles disagree
// (or python abstains) are removed and counted.
func crossCheck(u *vk.Unit, specs []specCase) {
	py, err := exec.LookPath("python3-vt")
	if err != nil {
		u.Note("python3-vt not found: second oracle skipped, reference validator alone decides")
		u.Label("xcheck-skipped")
		return
	}
	var in bytes.Buffer
	type key struct{ s, c int }
	ids := map[int]key{}
	id := 0
	for si, sc := range specs {
		root := map[string]any{"components": map[string]any{"schemas": renderComps(sc.Doc.Components)}}
		for ci, c := range sc.Cases {
			id++
			ids[id] = key{si, ci}
			line, _ := json.Marshal(map[string]any{"id": id, "root": root, "schema": map[string]any{"$ref": "#/components/schemas/" + c.Schema}, "instance_text": c.Body})
			in.Write(line)
			in.WriteByte('\n')
		}
	}
	cmd := exec.Command(py, "-W", "ignore", filepath.Join(regen.Root(), "oracles", "jsonschema_xcheck.py"))
	cmd.Stdin = &in
	var out bytes.Buffer
	cmd.Stdout = &out
	cmd.Stderr = os.Stderr
	if err := cmd.Run(); err != nil {
		u.T.Errorf("python oracle failed: %v", err)
		return
	}
	drop := map[key]bool{}
	sc := bufio.NewScanner(&out)
	sc.Buffer(make([]byte, 1<<20), 1<<24)
	seen := 0
	for sc.Scan() {
		var r struct {
			ID    int    `json:"id"`
			Valid *bool  `json:"valid"`
			Error string `json:"error"`
		}
		if json.Unmarshal(sc.Bytes(), &r) != nil {
			continue
		}
		seen++
		k := ids[r.ID]
		c := specs[k.s].Cases[k.c]
		switch {
		case r.Valid == nil:
			drop[k] = true
			u.Label("xcheck-abstains")
		case *r.Valid != c.Valid:
			drop[k] = true
			u.Label("oracle-disagreement")
			u.Note("oracle disagreement: schema %s instance %s: reference says valid=%v (%s), python says %v (%s)",
				specgen.MustJSON(specs[k.s].Doc.Components[c.Schema]), c.Body, c.Valid, c.Why, *r.Valid, r.Error)
		default:
			u.Label("oracles-agree")
		}
	}
	if seen != id {
		u.T.Errorf("python oracle answered %d of %d cases", seen, id)
	}
	for si := range specs {
		var kept []c03x.Case
		for ci, c := range specs[si].Cases {
			if !drop[key{si, ci}] {
				kept = append(kept, c)
			}
		}
		specs[si].Cases = kept
	}
}

func renderComps(c specgen.Components) map[string]any {
	out := map[string]any{}
	for k, s := range c {
		out[k] = s.Render()
	}
	return out
}

func runBatch(u *vk.Unit, tag string, specs []specCase) {
	crossCheck(u, specs)
	b, err := regen.NewBatch(tag)
	if err != nil {
		u.T.Fatalf("batch: %v", err)
	}
	defer b.Remove()
	for i, sc := range specs {
		out := b.Add(fmt.Sprintf("s%d", i), sc.Doc.Render(), regen.ServerOnly(), c03x.Meta{Doc: sc.Doc, Cases: sc.Cases})
		u.Eval(1)
		u.Label("generate:" + out.Class)
		switch out.Class {
		case regen.OK, regen.NotImplemented, regen.SpecDiagnostic:
			if out.Class != regen.OK {
				u.Note("not generated (%s): %s", out.Class, tail(out.Err, 200))
			}
		default:
			u.Report(vk.F("generator-"+out.Class, "generation ends with %s: %s", out.Class, tail(out.Err, 600)), sc.Doc)
		}
	}
	if len(b.Pkgs) == 0 {
		return
	}
	res := b.Build()
	for p, e := range res.Failed {
		var idx int
		fmt.Sscanf(p, "s%d", &idx)
		u.Label("compile-failed")
		u.Note("compile failure (C02's business, counted only): "+"generated server does not compile: %s", tail(e, 800))
	}
	if len(res.OK) == 0 {
		return
	}
	u.LabelN("compiled", len(res.OK))
	out, err := b.RunAggregator(res.OK, "verif/internal/c03x", "Run", false, []string{"VERIF_PART=" + tag})
	if err != nil && !strings.Contains(out, "VIOLATION") {
		u.T.Errorf("aggregator failed (harness trouble): %v\n%s", err, tail(out, 3000))
	}
}

func tail(s string, n int) string {
	if len(s) > n {
		return "…" + s[len(s)-n:]
	}
	return s
}

func TestSchemas(t *testing.T) {
	u := vk.New(t, "C03", "schemas")
	defer u.Close()
	if p := os.Getenv("VERIF_REPLAY"); p != "" {
		data, err := os.ReadFile(p)
		if err != nil {
			t.Fatal(err)
		}
		var doc struct {
			Unit string      `json:"unit"`
			Case c03x.Replay `json:"case"`
		}
		if err := json.Unmarshal(data, &doc); err != nil || doc.Unit != "validate" {
			return
		}
		runBatch(u, "replay", []specCase{{Doc: doc.Case.Doc, Cases: []c03x.Case{doc.Case.Case}}})
		return
	}
	n := 0
	vk.Rapid(u, vk.N(6, 200), nil, drawBatch, func(b batchCase) *vk.Finding {
		n++
		runBatch(u, fmt.Sprintf("b%d", n), b.Specs)
		return nil
	})
}
