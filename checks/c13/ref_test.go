package c13

// Independent recognisers / evaluators for the text syntaxes the formats
// prescribe. None of them calls into ogen, and none uses the standard-library
// parser that the code under test itself uses for that format: every one is a
// small hand-written scanner over the grammar quoted in its comment and
// returns the *meaning* of the text, so that the caller can compare the
// meaning with the value the case was built from.

import (
	"math/big"
	"strings"
)

func isDigit(c byte) bool { return c >= '0' && c <= '9' }

func isHexDigit(c byte) bool {
	return c >= '0' && c <= '9' || c >= 'a' && c <= 'f' || c >= 'A' && c <= 'F'
}

func hexNibble(c byte) byte {
	switch {
	case c >= '0' && c <= '9':
		return c - '0'
	case c >= 'a' && c <= 'f':
		return c - 'a' + 10
	default:
		return c - 'A' + 10
	}
}

func isAlpha(c byte) bool { return c >= 'a' && c <= 'z' || c >= 'A' && c <= 'Z' }

// refDecimal recognises a plain decimal integer  -?(0|[1-9][0-9]*)  and returns
// its sign and magnitude. ok is false on any other text (sign noise such as
// "+1", "-0"-style forms are accepted by the grammar but "-0" is reported as
// neg=true, mag=0 so that callers reject it by value), on leading zeros and on
// magnitudes that do not fit 64 bits.
func refDecimal(s string) (neg bool, mag uint64, ok bool) {
	if len(s) > 0 && s[0] == '-' {
		neg = true
		s = s[1:]
	}
	if s == "" {
		return false, 0, false
	}
	if s[0] == '0' && len(s) > 1 {
		return false, 0, false
	}
	for i := 0; i < len(s); i++ {
		if !isDigit(s[i]) {
			return false, 0, false
		}
		d := uint64(s[i] - '0')
		if mag > (^uint64(0)-d)/10 {
			return false, 0, false
		}
		mag = mag*10 + d
	}
	return neg, mag, true
}

// refJSONNumber recognises the RFC 8259 number grammar
//
//	number = [ "-" ] int [ frac ] [ exp ];  int = "0" / ( digit1-9 *DIGIT )
//	frac = "." 1*DIGIT;  exp = ("e"/"E") [ "-" / "+" ] 1*DIGIT
func refJSONNumber(s string) bool {
	i := 0
	if i < len(s) && s[i] == '-' {
		i++
	}
	if i >= len(s) {
		return false
	}
	if s[i] == '0' {
		i++
	} else if s[i] >= '1' && s[i] <= '9' {
		for i < len(s) && isDigit(s[i]) {
			i++
		}
	} else {
		return false
	}
	if i < len(s) && s[i] == '.' {
		i++
		n := 0
		for i < len(s) && isDigit(s[i]) {
			i++
			n++
		}
		if n == 0 {
			return false
		}
	}
	if i < len(s) && (s[i] == 'e' || s[i] == 'E') {
		i++
		if i < len(s) && (s[i] == '+' || s[i] == '-') {
			i++
		}
		n := 0
		for i < len(s) && isDigit(s[i]) {
			i++
			n++
		}
		if n == 0 {
			return false
		}
	}
	return i == len(s)
}

// ---- RFC 3339 ---------------------------------------------------------------

func num2(s string) (int, bool) {
	if len(s) != 2 || !isDigit(s[0]) || !isDigit(s[1]) {
		return 0, false
	}
	return int(s[0]-'0')*10 + int(s[1]-'0'), true
}

func isLeap(y int) bool { return y%4 == 0 && (y%100 != 0 || y%400 == 0) }

// daysIn is RFC 3339 §5.7's table.
func daysIn(y, m int) int {
	switch m {
	case 1, 3, 5, 7, 8, 10, 12:
		return 31
	case 4, 6, 9, 11:
		return 30
	case 2:
		if isLeap(y) {
			return 29
		}
		return 28
	}
	return 0
}

// refFullDate: full-date = date-fullyear "-" date-month "-" date-mday
// (4DIGIT, 2DIGIT 01-12, 2DIGIT 01-28..31 by month/year).
func refFullDate(s string) (y, m, d int, ok bool) {
	if len(s) != 10 || s[4] != '-' || s[7] != '-' {
		return 0, 0, 0, false
	}
	for _, i := range []int{0, 1, 2, 3} {
		if !isDigit(s[i]) {
			return 0, 0, 0, false
		}
		y = y*10 + int(s[i]-'0')
	}
	var ok1, ok2 bool
	m, ok1 = num2(s[5:7])
	d, ok2 = num2(s[8:10])
	if !ok1 || !ok2 || m < 1 || m > 12 || d < 1 || d > daysIn(y, m) {
		return 0, 0, 0, false
	}
	return y, m, d, true
}

// refPartialTime: partial-time = time-hour ":" time-minute ":" time-second
// [time-secfrac]; hour 00-23, minute 00-59, second 00-59 (a leap second 60 is
// syntactically possible in RFC 3339 but no time.Time value has one, so a text
// with :60 can never be the form of a value of the domain). frac is the
// fraction digits ("" when absent).
func refPartialTime(s string) (h, mi, sec int, frac string, ok bool) {
	if len(s) < 8 || s[2] != ':' || s[5] != ':' {
		return
	}
	var o1, o2, o3 bool
	h, o1 = num2(s[0:2])
	mi, o2 = num2(s[3:5])
	sec, o3 = num2(s[6:8])
	if !o1 || !o2 || !o3 || h > 23 || mi > 59 || sec > 59 {
		return 0, 0, 0, "", false
	}
	rest := s[8:]
	if rest != "" {
		if rest[0] != '.' || len(rest) < 2 {
			return 0, 0, 0, "", false
		}
		for i := 1; i < len(rest); i++ {
			if !isDigit(rest[i]) {
				return 0, 0, 0, "", false
			}
		}
		frac = rest[1:]
	}
	return h, mi, sec, frac, true
}

type refDT struct {
	Y, Mo, D, H, Mi, S int
	Frac               string
	OffMin             int // east of UTC, minutes
}

// refDateTime: date-time = full-date "T" full-time; full-time = partial-time
// time-offset; time-offset = "Z" / ("+" / "-") time-hour ":" time-minute.
// "-00:00" (RFC 3339 §4.3: offset unknown) is rejected: no value of the domain
// means that. Lower-case t/z are allowed by RFC 3339 §5.6 NOTE.
func refDateTime(s string) (r refDT, ok bool) {
	if len(s) < 20 {
		return r, false
	}
	var o bool
	r.Y, r.Mo, r.D, o = refFullDate(s[:10])
	if !o || (s[10] != 'T' && s[10] != 't') {
		return r, false
	}
	rest := s[11:]
	var tpart, off string
	if last := rest[len(rest)-1]; last == 'Z' || last == 'z' {
		tpart, off = rest[:len(rest)-1], "Z"
	} else {
		if len(rest) < 6 {
			return r, false
		}
		tpart, off = rest[:len(rest)-6], rest[len(rest)-6:]
	}
	r.H, r.Mi, r.S, r.Frac, o = refPartialTime(tpart)
	if !o {
		return r, false
	}
	if off != "Z" {
		if (off[0] != '+' && off[0] != '-') || off[3] != ':' {
			return r, false
		}
		oh, o1 := num2(off[1:3])
		om, o2 := num2(off[4:6])
		if !o1 || !o2 || oh > 23 || om > 59 {
			return r, false
		}
		r.OffMin = oh*60 + om
		if off[0] == '-' {
			if r.OffMin == 0 {
				return r, false
			}
			r.OffMin = -r.OffMin
		}
	}
	return r, true
}

// ---- UUID, MAC --------------------------------------------------------------

// refUUID: RFC 4122 §3 text form, 8-4-4-4-12 hex digits (either case on
// input per the RFC; callers may additionally demand lower case).
func refUUID(s string) (b [16]byte, ok bool) {
	if len(s) != 36 {
		return b, false
	}
	j := 0
	for i := 0; i < 36; {
		if i == 8 || i == 13 || i == 18 || i == 23 {
			if s[i] != '-' {
				return b, false
			}
			i++
			continue
		}
		if !isHexDigit(s[i]) || !isHexDigit(s[i+1]) {
			return b, false
		}
		b[j] = hexNibble(s[i])<<4 | hexNibble(s[i+1])
		j++
		i += 2
	}
	return b, j == 16
}

// refMAC: IEEE 802 colon form, two hex digits per octet, ":" between octets.
func refMAC(s string) ([]byte, bool) {
	if (len(s)+1)%3 != 0 || s == "" {
		return nil, false
	}
	n := (len(s) + 1) / 3
	out := make([]byte, 0, n)
	for i := 0; i < n; i++ {
		p := s[3*i:]
		if !isHexDigit(p[0]) || !isHexDigit(p[1]) {
			return nil, false
		}
		if i < n-1 && p[2] != ':' {
			return nil, false
		}
		out = append(out, hexNibble(p[0])<<4|hexNibble(p[1]))
	}
	return out, true
}

// ---- IP ---------------------------------------------------------------------

// refIPv4: dotted quad, four decimal octets 0-255 without leading zeros
// (RFC 3986 dec-octet, the strict reading of RFC 2673 §3.2 dotted-quad).
func refIPv4(s string) (b [4]byte, ok bool) {
	parts := strings.Split(s, ".")
	if len(parts) != 4 {
		return b, false
	}
	for i, p := range parts {
		neg, v, o := refDecimal(p)
		if !o || neg || v > 255 || len(p) > 3 {
			return b, false
		}
		b[i] = byte(v)
	}
	return b, true
}

// refIPv6: RFC 4291 §2.2 text forms 1-3 (x:x:x:x:x:x:x:x, "::" once for one
// or more zero groups, optional dotted-quad tail), with an optional RFC 4007
// §11 "%zone" suffix (non-empty).
func refIPv6(s string) (b [16]byte, zone string, ok bool) {
	if i := strings.IndexByte(s, '%'); i >= 0 {
		zone = s[i+1:]
		s = s[:i]
		if zone == "" {
			return b, "", false
		}
	}
	var left, right []string
	hasGap := false
	if i := strings.Index(s, "::"); i >= 0 {
		hasGap = true
		if strings.Contains(s[i+1:], "::") {
			return b, "", false
		}
		if l := s[:i]; l != "" {
			left = strings.Split(l, ":")
		}
		if r := s[i+2:]; r != "" {
			right = strings.Split(r, ":")
		}
	} else {
		left = strings.Split(s, ":")
	}
	groups := func(parts []string, tailAllowed bool) ([]uint16, bool) {
		var out []uint16
		for i, p := range parts {
			if tailAllowed && i == len(parts)-1 && strings.IndexByte(p, '.') >= 0 {
				q, o := refIPv4(p)
				if !o {
					return nil, false
				}
				out = append(out, uint16(q[0])<<8|uint16(q[1]), uint16(q[2])<<8|uint16(q[3]))
				continue
			}
			if len(p) < 1 || len(p) > 4 {
				return nil, false
			}
			var v uint16
			for j := 0; j < len(p); j++ {
				if !isHexDigit(p[j]) {
					return nil, false
				}
				v = v<<4 | uint16(hexNibble(p[j]))
			}
			out = append(out, v)
		}
		return out, true
	}
	lg, o1 := groups(left, !hasGap)
	rg, o2 := groups(right, true)
	if !o1 || !o2 {
		return b, "", false
	}
	if hasGap {
		if len(lg)+len(rg) > 7 {
			return b, "", false
		}
	} else if len(lg) != 8 {
		return b, "", false
	}
	for i, g := range lg {
		b[2*i], b[2*i+1] = byte(g>>8), byte(g)
	}
	for i, g := range rg {
		k := 8 - len(rg) + i
		b[2*k], b[2*k+1] = byte(g>>8), byte(g)
	}
	return b, zone, true
}

// ---- Go duration --------------------------------------------------------------

var durUnits = []struct {
	s  string
	ns int64
}{
	// longest spelling first
	{"ns", 1}, {"us", 1e3}, {"µs", 1e3}, {"μs", 1e3}, {"ms", 1e6}, {"s", 1e9}, {"m", 60e9}, {"h", 3600e9},
}

// refGoDuration recognises the syntax documented for time.ParseDuration: "a
// possibly signed sequence of decimal numbers, each with optional fraction
// and a unit suffix" (units ns, us/µs/μs, ms, s, m, h; "0" alone is allowed)
// and returns the exact value in nanoseconds as a rational.
func refGoDuration(s string) (*big.Rat, bool) {
	neg := false
	if s != "" && (s[0] == '-' || s[0] == '+') {
		neg = s[0] == '-'
		s = s[1:]
	}
	if s == "0" {
		return new(big.Rat), true
	}
	if s == "" {
		return nil, false
	}
	total := new(big.Rat)
	for s != "" {
		i := 0
		for i < len(s) && isDigit(s[i]) {
			i++
		}
		intPart := s[:i]
		fracPart := ""
		if i < len(s) && s[i] == '.' {
			j := i + 1
			for j < len(s) && isDigit(s[j]) {
				j++
			}
			fracPart = s[i+1 : j]
			i = j
		}
		if intPart == "" && fracPart == "" {
			return nil, false
		}
		s = s[i:]
		var unit int64
		for _, u := range durUnits {
			if strings.HasPrefix(s, u.s) {
				// "m" must not swallow the m of "ms"
				if u.s == "m" && strings.HasPrefix(s, "ms") {
					continue
				}
				unit = u.ns
				s = s[len(u.s):]
				break
			}
		}
		if unit == 0 {
			return nil, false
		}
		num := new(big.Int)
		if intPart+fracPart != "" {
			num.SetString(intPart+fracPart, 10)
		}
		den := new(big.Int).Exp(big.NewInt(10), big.NewInt(int64(len(fracPart))), nil)
		term := new(big.Rat).SetFrac(num, den)
		term.Mul(term, new(big.Rat).SetInt64(unit))
		total.Add(total, term)
	}
	if neg {
		total.Neg(total)
	}
	return total, true
}

// ---- RFC 3986 URI ---------------------------------------------------------------

func isUnreserved(c byte) bool {
	return isAlpha(c) || isDigit(c) || c == '-' || c == '.' || c == '_' || c == '~'
}

func isSubDelim(c byte) bool { return strings.IndexByte("!$&'()*+,;=", c) >= 0 }

// charsOK: every byte is allowed by extra/unreserved/sub-delims, or is a
// well-formed pct-encoded triplet.
func charsOK(s string, extra string) bool {
	for i := 0; i < len(s); i++ {
		c := s[i]
		switch {
		case isUnreserved(c) || isSubDelim(c) || strings.IndexByte(extra, c) >= 0:
		case c == '%':
			if i+2 >= len(s) || !isHexDigit(s[i+1]) || !isHexDigit(s[i+2]) {
				return false
			}
			i += 2
		default:
			return false
		}
	}
	return true
}

// refURI recognises RFC 3986 §3  URI = scheme ":" hier-part [ "?" query ]
// [ "#" fragment ]  (an absolute URI with optional fragment; relative
// references are not "uri"). The IPv6 zone form of RFC 6874 ("%25" zone) is
// accepted inside IP-literals.
func refURI(s string) bool {
	i := strings.IndexByte(s, ':')
	if i < 1 || !isAlpha(s[0]) {
		return false
	}
	for j := 1; j < i; j++ {
		c := s[j]
		if !(isAlpha(c) || isDigit(c) || c == '+' || c == '-' || c == '.') {
			return false
		}
	}
	rest := s[i+1:]
	if k := strings.IndexByte(rest, '#'); k >= 0 {
		if !charsOK(rest[k+1:], ":@/?") {
			return false
		}
		rest = rest[:k]
	}
	if k := strings.IndexByte(rest, '?'); k >= 0 {
		if !charsOK(rest[k+1:], ":@/?") {
			return false
		}
		rest = rest[:k]
	}
	if strings.HasPrefix(rest, "//") {
		auth := rest[2:]
		path := ""
		if k := strings.IndexByte(auth, '/'); k >= 0 {
			auth, path = auth[:k], auth[k:]
		}
		if k := strings.IndexByte(auth, '@'); k >= 0 {
			if !charsOK(auth[:k], ":") {
				return false
			}
			auth = auth[k+1:]
		}
		host := auth
		if strings.HasPrefix(host, "[") {
			k := strings.IndexByte(host, ']')
			if k < 0 {
				return false
			}
			lit := host[1:k]
			host = host[k+1:]
			if z := strings.Index(lit, "%25"); z >= 0 {
				if !charsOK(lit[z+3:], "") || len(lit[z+3:]) == 0 {
					return false
				}
				lit = lit[:z]
			}
			if _, zone, ok := refIPv6(lit); !ok || zone != "" {
				return false
			}
			if host != "" && host[0] != ':' {
				return false
			}
			if host != "" {
				host = host[1:]
				for j := 0; j < len(host); j++ {
					if !isDigit(host[j]) {
						return false
					}
				}
			}
		} else {
			if k := strings.LastIndexByte(host, ':'); k >= 0 {
				port := host[k+1:]
				for j := 0; j < len(port); j++ {
					if !isDigit(port[j]) {
						return false
					}
				}
				host = host[:k]
			}
			if !charsOK(host, "") { // reg-name (IPv4address is a subset)
				return false
			}
		}
		return charsOK(path, ":@/") // path-abempty
	}
	// path-absolute / path-rootless / path-empty
	if strings.HasPrefix(rest, "//") {
		return false
	}
	return charsOK(rest, ":@/")
}
