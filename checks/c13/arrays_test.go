package c13

import (
	"bytes"
	"encoding/hex"
	"fmt"
	"go/ast"
	"go/parser"
	"go/token"
	"io/fs"
	"math"
	"net"
	"path/filepath"
	"reflect"
	"runtime"
	"sort"
	"strings"
	"testing"
	"time"

	"github.com/google/uuid"
	"pgregory.net/rapid"

	"github.com/ogen-go/ogen/conv"
	"github.com/ogen-go/ogen/gen"
	"github.com/ogen-go/ogen/gen/ir"
	"github.com/ogen-go/ogen/jsonschema"

	"verif/internal/vk"
)

// ---- conv array helpers and the identity helpers -----------------------------------

// arrCase: U and S are the raw material of the elements, interpreted per
// helper (see arrHelpers).
type arrCase struct {
	Helper string   `json:"helper"`
	U      []uint64 `json:"u,omitempty"`
	S      []string `json:"s,omitempty"`
}

// arrRun checks XArrayToString/ToXArray element-wise with the scalar oracle
// pieces: same length, every text in the format's syntax, every element back.
// classify may narrow a value mismatch of one element (known float defect).
func arrRun[T any](name string, vs []T, enc func([]T) []string, dec func([]string) ([]T, error),
	eq func(got, want T) string, syntax func(text string, v T) string, classify func(text string, v T) string) *vk.Finding {
	p := pfx(name)
	return vk.Guard(p+"-panic", func() *vk.Finding {
		texts := enc(vs)
		if len(texts) != len(vs) {
			return vk.F(p+"-roundtrip", "%s: %d values became %d texts", name, len(vs), len(texts))
		}
		for i, s := range texts {
			if msg := syntax(s, vs[i]); msg != "" {
				return vk.F(p+"-syntax", "%s: element %d text %q for %s: %s", name, i, s, show(vs[i]), msg)
			}
		}
		back, err := dec(texts)
		if err != nil {
			return vk.F(p+"-decode-error", "%s: texts %q are rejected by the paired decoder: %v", name, texts, err)
		}
		if len(back) != len(vs) {
			return vk.F(p+"-roundtrip", "%s: %d values came back as %d", name, len(vs), len(back))
		}
		var known *vk.Finding
		for i := range vs {
			if msg := eq(back[i], vs[i]); msg != "" {
				cl := ""
				if classify != nil {
					cl = classify(texts[i], vs[i])
				}
				f := vk.F(p+"-roundtrip", "%s: element %d: %s -> %q -> %s: %s", name, i, show(vs[i]), texts[i], show(back[i]), msg)
				if cl == "" {
					return f // an unclassified mismatch wins over classified ones
				}
				if known == nil {
					f.Classifier = cl
					known = f
				}
			}
		}
		return known
	})
}

func noSyntax[T any](string, T) string { return "" }

func intSyntax[T int32 | int64](text string, v T) string {
	neg, mag, ok := refDecimal(text)
	want := int64(v)
	wantMag := uint64(want)
	if want < 0 {
		wantMag = -uint64(want)
	}
	if !ok || neg != (want < 0) || mag != wantMag {
		return "not the plain decimal form of the integer"
	}
	return ""
}

var arrHelpers = map[string]func(c arrCase) *vk.Finding{
	"conv.Int32Array": func(c arrCase) *vk.Finding {
		vs := make([]int32, len(c.U))
		for i, x := range c.U {
			vs[i] = int32(x)
		}
		return arrRun("conv.Int32Array", vs, conv.Int32ArrayToString, conv.ToInt32Array, eqPlain[int32], intSyntax[int32], nil)
	},
	"conv.Int64Array": func(c arrCase) *vk.Finding {
		vs := make([]int64, len(c.U))
		for i, x := range c.U {
			vs[i] = int64(x)
		}
		return arrRun("conv.Int64Array", vs, conv.Int64ArrayToString, conv.ToInt64Array, eqPlain[int64], intSyntax[int64], nil)
	},
	"conv.Float32Array": func(c arrCase) *vk.Finding {
		vs := make([]float32, len(c.U))
		for i, x := range c.U {
			vs[i] = math.Float32frombits(finite32(uint32(x)))
		}
		h := floatHelpers["conv.Float32"] // the array helper maps Float32ToString: same root cause, same classifier
		return arrRun("conv.Float32Array", vs, conv.Float32ArrayToString, conv.ToFloat32Array, eqF32, floatSyntax[float32],
			func(text string, v float32) string { return classifyFloatMismatch(h, math.Abs(float64(v)), text) })
	},
	"conv.Float64Array": func(c arrCase) *vk.Finding {
		vs := make([]float64, len(c.U))
		for i, x := range c.U {
			vs[i] = math.Float64frombits(finite64(x))
		}
		h := floatHelpers["conv.Float64"]
		return arrRun("conv.Float64Array", vs, conv.Float64ArrayToString, conv.ToFloat64Array, eqF64, floatSyntax[float64],
			func(text string, v float64) string { return classifyFloatMismatch(h, math.Abs(v), text) })
	},
	"conv.BoolArray": func(c arrCase) *vk.Finding {
		vs := make([]bool, len(c.U))
		for i, x := range c.U {
			vs[i] = x&1 == 1
		}
		return arrRun("conv.BoolArray", vs, conv.BoolArrayToString, conv.ToBoolArray, eqPlain[bool], func(text string, v bool) string {
			if (v && text != "true") || (!v && text != "false") {
				return "a boolean is written true / false"
			}
			return ""
		}, nil)
	},
	"conv.TimeArray": func(c arrCase) *vk.Finding {
		vs := make([]time.Time, len(c.U))
		for i, x := range c.U {
			sec := int(x % 86400)
			vs[i] = time.Date(0, 1, 1, sec/3600, sec/60%60, sec%60, 0, time.UTC)
		}
		return arrRun("conv.TimeArray", vs, conv.TimeArrayToString, conv.ToTimeArray, func(got, want time.Time) string {
			h1, m1, s1 := got.Clock()
			h2, m2, s2 := want.Clock()
			if h1 != h2 || m1 != m2 || s1 != s2 || got.Nanosecond() != 0 {
				return "decoded time of day differs"
			}
			return ""
		}, func(text string, v time.Time) string {
			h, m, s, frac, ok := refPartialTime(text)
			h2, m2, s2 := v.Clock()
			if !ok || h != h2 || m != m2 || s != s2 || !allZero(frac) {
				return "not the RFC 3339 partial-time of the value"
			}
			return ""
		}, nil)
	},
	"conv.UUIDArray": func(c arrCase) *vk.Finding {
		vs := make([]uuid.UUID, len(c.U)/2)
		for i := range vs {
			vs[i] = mkUUID(c.U[2*i], c.U[2*i+1])
		}
		return arrRun("conv.UUIDArray", vs, conv.UUIDArrayToString, conv.ToUUIDArray, eqPlain[uuid.UUID], func(text string, v uuid.UUID) string {
			if b, ok := refUUID(text); !ok || b != [16]byte(v) {
				return "not the RFC 4122 form of the value"
			}
			return ""
		}, nil)
	},
	"conv.MACArray": func(c arrCase) *vk.Finding {
		var vs []net.HardwareAddr
		for _, s := range c.S {
			raw, err := hex.DecodeString(s)
			if err != nil || (len(raw) != 6 && len(raw) != 8 && len(raw) != 20) {
				return nil
			}
			vs = append(vs, raw)
		}
		return arrRun("conv.MACArray", vs, conv.MACArrayToString, conv.ToMACArray, func(got, want net.HardwareAddr) string {
			if !bytes.Equal(got, want) {
				return "decoded octets differ"
			}
			return ""
		}, func(text string, v net.HardwareAddr) string {
			if b, ok := refMAC(text); !ok || !bytes.Equal(b, v) {
				return "not the colon-hexadecimal form of the value"
			}
			return ""
		}, nil)
	},
	// identity helpers: a string / octet-string parameter is its own text
	"conv.StringArray": func(c arrCase) *vk.Finding {
		return arrRun("conv.StringArray", c.S, conv.StringArrayToString, conv.ToStringArray, eqPlain[string], func(text, v string) string {
			if text != v {
				return "the text of a string is the string"
			}
			return ""
		}, nil)
	},
	"conv.BytesArray": func(c arrCase) *vk.Finding {
		vs := make([][]byte, len(c.S))
		for i, s := range c.S {
			vs[i] = []byte(s)
		}
		return arrRun("conv.BytesArray", vs, conv.BytesArrayToString, conv.ToBytesArray, func(got, want []byte) string {
			if !bytes.Equal(got, want) {
				return "decoded octets differ"
			}
			return ""
		}, noSyntax[[]byte], nil)
	},
	"conv.String": func(c arrCase) *vk.Finding {
		one := func(vs []string) []string { return []string{conv.StringToString(vs[0])} }
		back := func(ss []string) ([]string, error) { v, err := conv.ToString(ss[0]); return []string{v}, err }
		if len(c.S) == 0 {
			return nil
		}
		return arrRun("conv.String", c.S[:1], one, back, eqPlain[string], noSyntax[string], nil)
	},
	"conv.Bytes": func(c arrCase) *vk.Finding {
		one := func(vs [][]byte) []string { return []string{conv.BytesToString(vs[0])} }
		back := func(ss []string) ([][]byte, error) { v, err := conv.ToBytes(ss[0]); return [][]byte{v}, err }
		if len(c.S) == 0 {
			return nil
		}
		return arrRun("conv.Bytes", [][]byte{[]byte(c.S[0])}, one, back, func(got, want []byte) string {
			if !bytes.Equal(got, want) {
				return "decoded octets differ"
			}
			return ""
		}, noSyntax[[]byte], nil)
	},
}

func checkArr(c arrCase) *vk.Finding {
	h, ok := arrHelpers[c.Helper]
	if !ok {
		return vk.F("harness-unknown-helper", "no array helper %q", c.Helper)
	}
	return h(c)
}

func drawArr(t *rapid.T, names []string) arrCase {
	c := arrCase{Helper: rapid.SampledFrom(names).Draw(t, "helper")}
	n := rapid.IntRange(0, 6).Draw(t, "n")
	switch c.Helper {
	case "conv.MACArray":
		for i := 0; i < n; i++ {
			l := rapid.SampledFrom([]int{6, 8, 20}).Draw(t, "len")
			c.S = append(c.S, hex.EncodeToString(rapid.SliceOfN(rapid.Byte(), l, l).Draw(t, "mac")))
		}
	case "conv.StringArray", "conv.BytesArray", "conv.String", "conv.Bytes":
		if c.Helper == "conv.String" || c.Helper == "conv.Bytes" {
			n = 1 // scalar identity helpers: one value
		}
		for i := 0; i < n; i++ {
			if c.Helper == "conv.StringArray" || c.Helper == "conv.String" || rapid.Bool().Draw(t, "text") {
				c.S = append(c.S, rapid.String().Draw(t, "s"))
			} else {
				c.S = append(c.S, string(rapid.SliceOfN(rapid.Byte(), 0, 8).Draw(t, "bytes")))
			}
		}
	case "conv.Float32Array":
		for i := 0; i < n; i++ {
			c.U = append(c.U, drawFloat(t, []string{"conv.Float32"}).Bits)
		}
	case "conv.Float64Array":
		for i := 0; i < n; i++ {
			c.U = append(c.U, drawFloat(t, []string{"conv.Float64"}).Bits)
		}
	case "conv.Int32Array", "conv.Int64Array":
		for i := 0; i < n; i++ {
			c.U = append(c.U, drawWideInt(t, []string{"conv.Int64"}).Bits)
		}
	case "conv.UUIDArray":
		for i := 0; i < 2*n; i++ {
			c.U = append(c.U, rapid.Uint64().Draw(t, "u"))
		}
	default:
		for i := 0; i < n; i++ {
			c.U = append(c.U, rapid.Uint64().Draw(t, "u"))
		}
	}
	return c
}

func TestArrays(t *testing.T) {
	u := vk.New(t, "C13", "arrays")
	defer u.Close()
	random := false // set by the generator: samples are taken from generated cases only
	names := sortedKeys(arrHelpers)
	regress := []arrCase{
		{Helper: "conv.Float64Array", U: []uint64{math.Float64bits(1.5), math.Float64bits(1e-11), math.Float64bits(0.1)}},
		{Helper: "conv.Float32Array", U: []uint64{uint64(math.Float32bits(1.5)), uint64(math.Float32bits(1e-11))}},
		{Helper: "conv.Int32Array", U: []uint64{0, 1, 1 << 31, 1<<31 - 1, ^uint64(0)}},
		{Helper: "conv.Int64Array", U: []uint64{0, 1, 1 << 63, 1<<63 - 1, ^uint64(0)}},
		{Helper: "conv.TimeArray", U: []uint64{0, 86399, 43200, 3599, 3600}},
		{Helper: "conv.StringArray", S: []string{"", "a,b", " ", "é", "\x00"}},
		{Helper: "conv.BytesArray", S: []string{"", "\xff\xfe", "a"}},
		{Helper: "conv.String", S: []string{""}}, {Helper: "conv.Bytes", S: []string{"\xff"}},
	}
	for _, n := range names {
		regress = append(regress, arrCase{Helper: n}) // empty array
	}
	vk.Rapid(u, vk.N(200_000, 2_500_000), regress, func(t *rapid.T) arrCase { random = true; return drawArr(t, names) }, func(c arrCase) *vk.Finding {
		if len(c.U)+len(c.S) > 0 {
			u.NonTrivial(fmt.Sprintf("%s/%v/%q", c.Helper, c.U, c.S))
		}
		u.Label(c.Helper)
		n := max(len(c.U), len(c.S))
		if c.Helper == "conv.UUIDArray" {
			n /= 2
		}
		u.Label(fmt.Sprintf("len:%d", n))
		if random {
			u.Sample(c)
		}
		return checkArr(c)
	})
}

// ---- helper coverage -------------------------------------------------------------------
//
// Not a property oracle: makes sure that the units above really cover "every
// helper pair". (a) every exported XToString function of package conv and
// every exported EncodeX function of package json (found by parsing the
// sources the check was compiled against) must be covered by a unit or be in
// the explicit exclusion list; (b) every (schema type, format) of
// gen.TypeFormatMapping is turned into the helper names the templates would
// call (ir.Type.ToString / JSON().Format()) and those must be covered too. An
// uncovered helper fails the unit without a violation (vcheck: inconclusive).

var excludedHelpers = map[string]string{
	"json.TimeFormat": "custom layout (x-ogen-time-format): resolution is chosen by the spec author, no declared format",
	"json.":           "json.Encode(Marshaler): not a primitive helper",
}

func coveredHelpers() map[string]bool {
	m := map[string]bool{"conv.Bool": true}
	for _, ks := range [][]string{sortedKeys(intHelpers), sortedKeys(floatHelpers), sortedKeys(timeHelpers), sortedKeys(unixHelpers),
		sortedKeys(durHelpers), sortedKeys(uuidHelpers), sortedKeys(ipHelpers), sortedKeys(macHelpers), sortedKeys(urlHelpers), sortedKeys(arrHelpers)} {
		for _, k := range ks {
			m[k] = true
		}
	}
	return m
}

func exportedFuncs(dir string) ([]string, error) {
	fset := token.NewFileSet()
	pkgs, err := parser.ParseDir(fset, dir, func(fi fs.FileInfo) bool {
		return !strings.HasSuffix(fi.Name(), "_test.go")
	}, 0)
	if err != nil {
		return nil, err
	}
	var out []string
	for _, p := range pkgs {
		for _, f := range p.Files {
			for _, d := range f.Decls {
				if fd, ok := d.(*ast.FuncDecl); ok && fd.Recv == nil && fd.Name.IsExported() {
					out = append(out, fd.Name.Name)
				}
			}
		}
	}
	sort.Strings(out)
	return out, nil
}

func TestHelperCoverage(t *testing.T) {
	u := vk.New(t, "C13", "helper-coverage")
	defer u.Close()
	if shard, _ := vk.Shard(); vk.InReplay() || shard != 0 {
		return // enumerated once, by shard 0
	}
	u.SetExhaustive(true)
	covered := coveredHelpers()
	var missing []string
	need := func(name, why string) {
		u.Eval(1)
		if covered[name] {
			u.Label("covered")
			return
		}
		if _, ok := excludedHelpers[name]; ok {
			u.Label("excluded")
			return
		}
		missing = append(missing, name+" ("+why+")")
	}

	// (a) sources
	file, _ := runtime.FuncForPC(reflect.ValueOf(conv.IntToString).Pointer()).FileLine(reflect.ValueOf(conv.IntToString).Pointer())
	convDir := filepath.Dir(file)
	u.Set("conv_dir", convDir)
	names, err := exportedFuncs(convDir)
	if err != nil {
		t.Fatalf("cannot parse %s: %v", convDir, err)
	}
	nconv := 0
	for _, n := range names {
		if strings.HasSuffix(n, "ToString") && n != "ToString" { // conv.ToString is the decoder of the String pair
			nconv++
			need("conv."+strings.TrimSuffix(n, "ToString"), "conv."+n)
		}
	}
	names, err = exportedFuncs(filepath.Join(filepath.Dir(convDir), "json"))
	if err != nil {
		t.Fatalf("cannot parse json dir: %v", err)
	}
	njson := 0
	for _, n := range names {
		if strings.HasPrefix(n, "Encode") {
			njson++
			need("json."+strings.TrimPrefix(n, "Encode"), "json."+n)
		}
	}
	if nconv < 40 || njson < 30 {
		t.Fatalf("source scan found only %d conv and %d json helpers", nconv, njson)
	}

	// (b) generator mapping
	mapping := gen.TypeFormatMapping()
	var types []string
	for typ := range mapping {
		types = append(types, string(typ))
	}
	sort.Strings(types)
	for _, typ := range types {
		formats := mapping[jsonschema.SchemaType(typ)]
		for _, f := range sortedKeys(formats) {
			prim := formats[f]
			ty := ir.Primitive(prim, &jsonschema.Schema{Type: jsonschema.SchemaType(typ), Format: f})
			func() {
				defer func() { _ = recover() }() // Null / File have no text form: ToString panics by design
				name := strings.TrimSuffix(ty.ToString(), "ToString")
				need("conv."+name, fmt.Sprintf("parameter %s/%s", typ, f))
			}()
			if jf := ty.JSON().Format(); jf != "" {
				need("json."+jf, fmt.Sprintf("JSON %s/%s", typ, f))
			}
		}
	}
	u.NonTrivialCount(len(covered))
	u.Set("covered_helpers", len(covered))
	if len(missing) > 0 {
		sort.Strings(missing)
		u.Note("helpers without a unit: %s", strings.Join(missing, ", "))
		t.Errorf("helper pairs not covered by any unit of this check (add them): %s", strings.Join(missing, ", "))
	}
}
