// Package c13 decides property C13: text forms of primitive values parse back
// to the same value, and the text is in the syntax the declared format
// prescribes. Code under test: every conv.XToString/ToX pair and every
// json.EncodeX/DecodeX helper pair of ogen.
package c13

import (
	stdjson "encoding/json"
	"strings"

	"github.com/go-faster/jx"

	"verif/internal/vk"
)

// codec is one helper pair. rt formats v and parses the text back. For JSON
// helpers it also checks that the bytes are valid JSON of the right token
// kind (with encoding/json, not jx), extracts the text (string contents or the
// number literal) and repeats the round trip inside a two-element array (the
// helpers are always called in the middle of a larger document by generated
// code; jx.Encoder.Raw and friends take part in comma bookkeeping).
// gots holds every decoded value; each of them must equal v.
type codec[T any] struct {
	name string
	rt   func(v T) (text string, gots []T, f *vk.Finding)
}

// pfx turns "conv.StringInt8" into the classifier prefix "conv-stringint8".
func pfx(name string) string {
	return strings.ToLower(strings.ReplaceAll(name, ".", "-"))
}

func convCodec[T any](name string, format func(T) string, parse func(string) (T, error)) codec[T] {
	p := pfx(name)
	return codec[T]{name: name, rt: func(v T) (text string, gots []T, f *vk.Finding) {
		f = vk.Guard(p+"-panic", func() *vk.Finding {
			text = format(v)
			got, err := parse(text)
			if err != nil {
				return vk.F(p+"-decode-error", "%s: text %q produced from %s is rejected by the paired decoder: %v", name, text, show(v), err)
			}
			gots = []T{got}
			return nil
		})
		return text, gots, f
	}}
}

// kind: 's' = JSON string, 'n' = JSON number.
func jsonCodec[T any](name string, kind byte, enc func(*jx.Encoder, T), dec func(*jx.Decoder) (T, error)) codec[T] {
	p := pfx(name)
	return codec[T]{name: name, rt: func(v T) (text string, gots []T, f *vk.Finding) {
		f = vk.Guard(p+"-panic", func() *vk.Finding {
			var e jx.Encoder
			enc(&e, v)
			raw := append([]byte(nil), e.Bytes()...)
			if !stdjson.Valid(raw) {
				return vk.F(p+"-json-invalid", "%s: Encode(%s) wrote %q, which is not valid JSON", name, show(v), raw)
			}
			switch kind {
			case 's':
				if raw[0] != '"' {
					return vk.F(p+"-json-kind", "%s: Encode(%s) wrote %q, expected a JSON string", name, show(v), raw)
				}
				if err := stdjson.Unmarshal(raw, &text); err != nil {
					return vk.F(p+"-json-invalid", "%s: Encode(%s) wrote %q: %v", name, show(v), raw, err)
				}
			case 'n':
				if !(raw[0] == '-' || raw[0] >= '0' && raw[0] <= '9') {
					return vk.F(p+"-json-kind", "%s: Encode(%s) wrote %q, expected a JSON number", name, show(v), raw)
				}
				text = string(raw)
			}
			got, err := dec(jx.DecodeBytes(raw))
			if err != nil {
				return vk.F(p+"-decode-error", "%s: JSON %s produced from %s is rejected by the paired decoder: %v", name, raw, show(v), err)
			}
			gots = append(gots, got)

			// the same value twice inside an array
			var e2 jx.Encoder
			e2.ArrStart()
			enc(&e2, v)
			enc(&e2, v)
			e2.ArrEnd()
			doc := append([]byte(nil), e2.Bytes()...)
			var elems []stdjson.RawMessage
			if err := stdjson.Unmarshal(doc, &elems); err != nil || len(elems) != 2 ||
				string(elems[0]) != string(raw) || string(elems[1]) != string(raw) {
				return vk.F(p+"-json-array-context", "%s: encoding %s twice inside an array wrote %q, expected two elements %s (%v)", name, show(v), doc, raw, err)
			}
			d := jx.DecodeBytes(doc)
			n := 0
			err = d.Arr(func(d *jx.Decoder) error {
				g, err := dec(d)
				if err != nil {
					return err
				}
				n++
				gots = append(gots, g)
				return nil
			})
			if err != nil || n != 2 {
				return vk.F(p+"-json-array-context", "%s: decoding %q element-wise gave %d elements, err=%v", name, doc, n, err)
			}
			return nil
		})
		return text, gots, f
	}}
}

// runCodec is the common oracle: round trip without error, every decoded
// value equal to v (eq returns "" or a description of the difference), text in
// the prescribed syntax and meaning v (syntax returns "" or a complaint).
// onMismatch lets a unit classify a value mismatch more narrowly (known
// precision defects); it may return "" to keep the generic classifier.
func runCodec[T any](c codec[T], v T, eq func(got, want T) string, syntax func(text string, v T) string,
	onMismatch func(text string, v, got T) string) *vk.Finding {
	return runCodecE(c, v, eq, syntax, onMismatch, nil)
}

// runCodecE additionally lets the unit re-classify a decode error (the text is
// rejected by the paired decoder) when that is another face of a known defect.
func runCodecE[T any](c codec[T], v T, eq func(got, want T) string, syntax func(text string, v T) string,
	onMismatch func(text string, v, got T) string, onDecodeError func(text string, v T) string) *vk.Finding {
	p := pfx(c.name)
	text, gots, f := c.rt(v)
	if f != nil {
		if onDecodeError != nil && f.Classifier == p+"-decode-error" {
			if cl := onDecodeError(text, v); cl != "" {
				f.Classifier = cl
			}
		}
		return f
	}
	if msg := syntax(text, v); msg != "" {
		return vk.F(p+"-syntax", "%s: text %q for %s: %s", c.name, text, show(v), msg)
	}
	for i, g := range gots {
		if msg := eq(g, v); msg != "" {
			cl := ""
			if onMismatch != nil {
				cl = onMismatch(text, v, g)
			}
			if cl == "" {
				cl = p + "-roundtrip"
			}
			where := ""
			if i > 0 {
				where = " (array element)"
			}
			return vk.F(cl, "%s: %s -> %q -> %s%s: %s", c.name, show(v), text, show(g), where, msg)
		}
	}
	return nil
}
