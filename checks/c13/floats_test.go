package c13

import (
	"fmt"
	"math"
	"math/big"
	"strconv"
	"strings"
	"testing"

	"pgregory.net/rapid"

	"github.com/ogen-go/ogen/conv"
	ojson "github.com/ogen-go/ogen/json"

	"verif/internal/vk"
)

// floatCase: Bits is the IEEE-754 pattern (low 32 bits for 32-bit helpers).
// NaN and infinities are outside the property's domain ("finite").
type floatCase struct {
	Helper string `json:"helper"`
	Bits   uint64 `json:"bits"`
	Class  string `json:"class,omitempty"` // generator class, informational
}

// limit describes a formatter that keeps only 10 digits: 'f' = 10 digits after
// the decimal point, 'g' = 10 significant digits, 0 = no limit known.
type floatHelper struct {
	name  string
	width int
	limit byte
	known string // classifier of the known precision defect of this helper ("" if none)
	run32 func(v float32, onMismatch func(string, float32, float32) string) *vk.Finding
	run64 func(v float64, onMismatch func(string, float64, float64) string) *vk.Finding
}

func eqF32(got, want float32) string {
	if math.Float32bits(got) == math.Float32bits(want) || (got == 0 && want == 0) {
		return ""
	}
	return fmt.Sprintf("decoded bits 0x%08x differ from 0x%08x", math.Float32bits(got), math.Float32bits(want))
}

func eqF64(got, want float64) string {
	if math.Float64bits(got) == math.Float64bits(want) || (got == 0 && want == 0) {
		return ""
	}
	return fmt.Sprintf("decoded bits 0x%016x differ from 0x%016x", math.Float64bits(got), math.Float64bits(want))
}

func floatSyntax[T any](text string, _ T) string {
	if !refJSONNumber(text) {
		return "not a decimal number in the JSON/RFC 8259 number grammar"
	}
	return ""
}

func fh32(c codec[float32], limit byte, known string) floatHelper {
	return floatHelper{name: c.name, width: 32, limit: limit, known: known,
		run32: func(v float32, om func(string, float32, float32) string) *vk.Finding {
			return runCodecE(c, v, eqF32, floatSyntax[float32], om, func(text string, v float32) string { return om(text, v, 0) })
		}}
}

func fh64(c codec[float64], limit byte, known string) floatHelper {
	return floatHelper{name: c.name, width: 64, limit: limit, known: known,
		run64: func(v float64, om func(string, float64, float64) string) *vk.Finding {
			return runCodecE(c, v, eqF64, floatSyntax[float64], om, func(text string, v float64) string { return om(text, v, 0) })
		}}
}

var floatHelpers = func() map[string]floatHelper {
	hs := []floatHelper{
		fh32(convCodec("conv.Float32", conv.Float32ToString, conv.ToFloat32), 'f', "conv-float32-precision10"),
		fh64(convCodec("conv.Float64", conv.Float64ToString, conv.ToFloat64), 'f', "conv-float64-precision10"),
		fh32(convCodec("conv.StringFloat32", conv.StringFloat32ToString, conv.ToStringFloat32), 'g', "conv-stringfloat32-precision10"),
		fh64(convCodec("conv.StringFloat64", conv.StringFloat64ToString, conv.ToStringFloat64), 'g', "conv-stringfloat64-precision10"),
		fh32(jsonCodec("json.StringFloat32", 's', ojson.EncodeStringFloat32, ojson.DecodeStringFloat32), 0, ""),
		fh64(jsonCodec("json.StringFloat64", 's', ojson.EncodeStringFloat64, ojson.DecodeStringFloat64), 0, ""),
	}
	m := map[string]floatHelper{}
	for _, h := range hs {
		m[h.name] = h
	}
	return m
}()

var ten = big.NewInt(10)

func pow10(n int) *big.Int { return new(big.Int).Exp(ten, big.NewInt(int64(n)), nil) }

// nearestInts returns the integer(s) nearest to the non-negative rational x
// (two of them on an exact tie).
func nearestInts(x *big.Rat) []*big.Int {
	fl := new(big.Int).Quo(x.Num(), x.Denom()) // x >= 0: floor
	frac := new(big.Rat).Sub(x, new(big.Rat).SetInt(fl))
	half := big.NewRat(1, 2)
	up := new(big.Int).Add(fl, big.NewInt(1))
	switch frac.Cmp(half) {
	case -1:
		return []*big.Int{fl}
	case 1:
		return []*big.Int{up}
	default:
		return []*big.Int{fl, up}
	}
}

// decExp10 returns e with 10^e <= x < 10^(e+1) for a positive rational x.
func decExp10(x *big.Rat) int {
	f, _ := x.Float64()
	e := 0
	if f > 0 && !math.IsInf(f, 0) {
		e = int(math.Floor(math.Log10(f)))
	}
	p := func(e int) *big.Rat {
		if e >= 0 {
			return new(big.Rat).SetInt(pow10(e))
		}
		return new(big.Rat).SetFrac(big.NewInt(1), pow10(-e))
	}
	for x.Cmp(p(e)) < 0 {
		e--
	}
	for x.Cmp(p(e+1)) >= 0 {
		e++
	}
	return e
}

// tenDigitShape decides, independently of ogen and of strconv, whether the
// finite value v (exact rational |v| = a, of the given width) is NOT
// recoverable from its correctly rounded 10-digit decimal ('f': 10 digits
// after the point, 'g': 10 significant digits), and whether text is such a
// correctly rounded decimal (|text - v| <= half a unit of the last kept
// digit). Only when both hold is a mismatch the known "precision 10" defect.
func tenDigitShape(limit byte, width int, a *big.Rat, text string) (unrecoverable, textIsRounded bool) {
	if a.Sign() == 0 {
		return false, false
	}
	var scale *big.Rat // number of last-digit units per 1
	switch limit {
	case 'f':
		scale = new(big.Rat).SetInt(pow10(10))
	case 'g':
		e := decExp10(a)
		if 9-e >= 0 {
			scale = new(big.Rat).SetInt(pow10(9 - e))
		} else {
			scale = new(big.Rat).SetFrac(big.NewInt(1), pow10(e-9))
		}
	default:
		return false, false
	}
	scaled := new(big.Rat).Mul(a, scale)
	unrecoverable = true
	for _, n := range nearestInts(scaled) {
		dec := new(big.Rat).Quo(new(big.Rat).SetInt(n), scale)
		if width == 32 {
			f, _ := dec.Float32()
			if new(big.Rat).SetFloat64(float64(f)).Cmp(a) == 0 {
				unrecoverable = false
			}
		} else {
			f, _ := dec.Float64()
			if !math.IsInf(f, 0) && new(big.Rat).SetFloat64(f).Cmp(a) == 0 {
				unrecoverable = false
			}
		}
	}
	tr, ok := new(big.Rat).SetString(strings.TrimPrefix(text, "-"))
	if ok {
		diff := new(big.Rat).Sub(tr, a)
		diff.Abs(diff)
		diff.Mul(diff, scale)
		textIsRounded = diff.Cmp(big.NewRat(1, 2)) <= 0
	}
	return unrecoverable, textIsRounded
}

func classifyFloatMismatch(h floatHelper, abs float64, text string) string {
	if h.limit == 0 || h.known == "" {
		return ""
	}
	a := new(big.Rat).SetFloat64(abs)
	unrec, rounded := tenDigitShape(h.limit, h.width, a, text)
	if unrec && rounded {
		return h.known
	}
	return ""
}

func finite32(b uint32) uint32 {
	if b>>23&0xff == 0xff {
		b &^= 1 << 23 // largest exponent -> finite
	}
	return b
}

func finite64(b uint64) uint64 {
	if b>>52&0x7ff == 0x7ff {
		b &^= 1 << 52
	}
	return b
}

func checkFloat(c floatCase) *vk.Finding {
	h, ok := floatHelpers[c.Helper]
	if !ok {
		return vk.F("harness-unknown-helper", "no float helper %q", c.Helper)
	}
	if h.width == 32 {
		v := math.Float32frombits(finite32(uint32(c.Bits)))
		return h.run32(v, func(text string, v, _ float32) string {
			return classifyFloatMismatch(h, math.Abs(float64(v)), text)
		})
	}
	v := math.Float64frombits(finite64(c.Bits))
	return h.run64(v, func(text string, v, _ float64) string {
		return classifyFloatMismatch(h, math.Abs(v), text)
	})
}

// hard constants: shortest-decimal edge cases, subnormal and binade
// boundaries, halfway cases of the literature, and the shapes reading
// conv/encode.go points at.
var floatConsts = []string{
	"0", "-0", "1", "-1", "0.1", "0.2", "0.3", "0.30000000000000004", "0.5", "1.5", "2.5", "1e-11", "-1e-11", "5e-11",
	"4.9999999999e-11", "5.0000000001e-11", "0.00000000005", "0.00000000015", "1e-10", "1.00000000001", "123456.12345678901",
	"0.33333333333333331", "0.1000000000000000055511151231257827", "3.141592653589793", "2.718281828459045",
	"5e-324", "1e-323", "2.2250738585072009e-308", "2.2250738585072014e-308", "2.225073858507201e-308", "1.7976931348623157e308",
	"8.98846567431158e307", "9007199254740991", "9007199254740992", "9007199254740993", "9007199254740994", "18014398509481984",
	"1e15", "1e16", "1e17", "1e20", "1e21", "1e22", "1e23", "8.41e21", "9.5367431640625e-07", "2.98023223876953125e-8",
	"5.960464477539063e-08", "1.1920928955078125e-07", "3.4028234663852886e38", "1.401298464324817e-45", "1.1754943508222875e-38",
	"1.1754942106924411e-38", "16777216", "16777217", "33554432", "0.000001", "0.0000001", "100000", "1000000", "1e9", "1e10",
	"9999999999", "99999999999", "12345678901", "1234567890.1", "0.12345678901", "0.1234567890", "4.35", "0.000244140625",
	"0.00048828125", "65504", "7.038531e-26", "1.00000017881393432617187499", "1.00000017881393432617187501",
	"4.4501477170144023e-308", "2.4703282292062327e-324", "7.4109846876186981e-324", "1.7976931348623158e308",
}

func drawFloat(t *rapid.T, names []string) floatCase {
	name := rapid.SampledFrom(names).Draw(t, "helper")
	h := floatHelpers[name]
	class := rapid.SampledFrom([]string{
		"bits", "bits", "decimal", "decimal", "subnormal", "pow10", "pow2", "integer", "frac10", "sig10", "f32-widened", "const",
	}).Draw(t, "class")
	var f float64
	switch class {
	case "bits":
		if h.width == 32 {
			return floatCase{name, uint64(finite32(rapid.Uint32().Draw(t, "b"))), class}
		}
		return floatCase{name, finite64(rapid.Uint64().Draw(t, "b")), class}
	case "decimal":
		// a short decimal literal: 1..17 digits, decimal exponent over the whole range
		nd := rapid.IntRange(1, 17).Draw(t, "digits")
		m := rapid.Uint64Range(1, 99999999999999999).Draw(t, "m") % pow10u(nd)
		lo, hi := -345, 310
		if h.width == 32 {
			lo, hi = -65, 40
		}
		e := rapid.IntRange(lo, hi).Draw(t, "e")
		f, _ = strconv.ParseFloat(fmt.Sprintf("%de%d", m, e), h.width)
	case "subnormal":
		if h.width == 32 {
			b := rapid.Uint32Range(0, 1<<23+2).Draw(t, "b")
			if rapid.Bool().Draw(t, "top") {
				b = 1<<23 + 2 - b%4096
			}
			return floatCase{name, uint64(b) | uint64(rapid.IntRange(0, 1).Draw(t, "s"))<<31, class}
		}
		b := rapid.Uint64Range(0, 1<<52+2).Draw(t, "b")
		if rapid.Bool().Draw(t, "top") {
			b = 1<<52 + 2 - b%4096
		}
		return floatCase{name, b | uint64(rapid.IntRange(0, 1).Draw(t, "s"))<<63, class}
	case "pow10":
		lo, hi := -323, 308
		if h.width == 32 {
			lo, hi = -45, 38
		}
		e := rapid.IntRange(lo, hi).Draw(t, "e")
		if rapid.Bool().Draw(t, "small") {
			e = rapid.IntRange(-30, 30).Draw(t, "e30")
		}
		f, _ = strconv.ParseFloat(fmt.Sprintf("1e%d", e), h.width)
		f = nudge(f, h.width, rapid.IntRange(-2, 2).Draw(t, "ulp"))
	case "pow2":
		lo, hi := -1074, 1023
		if h.width == 32 {
			lo, hi = -149, 127
		}
		f = math.Ldexp(1, rapid.IntRange(lo, hi).Draw(t, "e"))
		f = nudge(f, h.width, rapid.IntRange(-2, 2).Draw(t, "ulp"))
	case "integer":
		n := rapid.IntRange(0, 64).Draw(t, "bitlen")
		m := rapid.Uint64().Draw(t, "m")
		if n < 64 {
			m &= 1<<uint(n) - 1
		}
		f = float64(m)
	case "frac10":
		// N / 10^k with k <= 10: the sub-domain that 10 fractional digits can express
		k := rapid.IntRange(0, 10).Draw(t, "k")
		nd := rapid.IntRange(1, 15).Draw(t, "digits")
		m := rapid.Uint64Range(1, 999999999999999).Draw(t, "m") % pow10u(nd)
		f, _ = strconv.ParseFloat(fmt.Sprintf("%de-%d", m, k), h.width)
	case "sig10":
		// at most 10 significant digits, any exponent
		nd := rapid.IntRange(1, 10).Draw(t, "digits")
		m := rapid.Uint64Range(1, 9999999999).Draw(t, "m") % pow10u(nd)
		lo, hi := -320, 298
		if h.width == 32 {
			lo, hi = -50, 28
		}
		f, _ = strconv.ParseFloat(fmt.Sprintf("%de%d", m, rapid.IntRange(lo, hi).Draw(t, "e")), h.width)
	case "f32-widened":
		f = float64(math.Float32frombits(finite32(rapid.Uint32().Draw(t, "b"))))
	case "const":
		f, _ = strconv.ParseFloat(rapid.SampledFrom(floatConsts).Draw(t, "c"), h.width)
	}
	if class != "const" && rapid.Bool().Draw(t, "neg") {
		f = -f
	}
	return mkFloatCase(name, h.width, f, class)
}

func pow10u(n int) uint64 {
	p := uint64(1)
	for i := 0; i < n; i++ {
		p *= 10
	}
	return p
}

func mkFloatCase(name string, width int, f float64, class string) floatCase {
	if width == 32 {
		f32 := float32(f)
		if math.IsInf(float64(f32), 0) || f32 != f32 {
			f32 = math.MaxFloat32
		}
		return floatCase{name, uint64(math.Float32bits(f32)), class}
	}
	if math.IsInf(f, 0) || f != f {
		f = math.MaxFloat64
	}
	return floatCase{name, math.Float64bits(f), class}
}

// nudge moves f by k units in the last place of the given width.
func nudge(f float64, width, k int) float64 {
	for ; k > 0; k-- {
		if width == 32 {
			f = float64(math.Nextafter32(float32(f), float32(math.Inf(1))))
		} else {
			f = math.Nextafter(f, math.Inf(1))
		}
	}
	for ; k < 0; k++ {
		if width == 32 {
			f = float64(math.Nextafter32(float32(f), float32(math.Inf(-1))))
		} else {
			f = math.Nextafter(f, math.Inf(-1))
		}
	}
	return f
}

func TestFloat(t *testing.T) {
	u := vk.New(t, "C13", "float")
	defer u.Close()
	random := false // set by the generator: samples are taken from generated cases only
	names := sortedKeys(floatHelpers)
	var regress []floatCase
	for _, n := range names {
		for _, s := range floatConsts {
			f, _ := strconv.ParseFloat(s, floatHelpers[n].width)
			regress = append(regress, mkFloatCase(n, floatHelpers[n].width, f, "const"))
		}
	}
	vk.Rapid(u, vk.N(2_000_000, 30_000_000), regress, func(t *rapid.T) floatCase { random = true; return drawFloat(t, names) }, func(c floatCase) *vk.Finding {
		if c.Bits<<1 != 0 && !(floatHelpers[c.Helper].width == 32 && uint32(c.Bits)<<1 == 0) {
			u.NonTrivial(fmt.Sprintf("%s/%d", c.Helper, c.Bits))
		}
		u.Label(c.Helper)
		if c.Class != "" {
			u.Label("class:" + c.Class)
		}
		f := checkFloat(c)
		if f == nil {
			// "held" is only informative together with the helper: how much of the
			// domain of the defective helpers still round-trips
			u.Label("held:" + c.Helper)
		}
		if random {
			u.Sample(c)
		}
		return f
	})
}
