package c13

import (
	"fmt"
	"math"
	"math/bits"
	"net"
	"net/netip"
	"net/url"
	"sort"
	"testing"
	"time"

	"github.com/go-faster/jx"
	"github.com/google/uuid"
	"golang.org/x/exp/constraints"
	"pgregory.net/rapid"

	"github.com/ogen-go/ogen/conv"
	ojson "github.com/ogen-go/ogen/json"

	"verif/internal/vk"
)

// show renders a value for messages.
func show(v any) string {
	switch x := v.(type) {
	case float32:
		return fmt.Sprintf("float32(%v = %x, bits 0x%08x)", x, x, math.Float32bits(x))
	case float64:
		return fmt.Sprintf("float64(%v = %x, bits 0x%016x)", x, x, math.Float64bits(x))
	case time.Time:
		return x.Format("2006-01-02T15:04:05.999999999 -07:00:00") + fmt.Sprintf(" (unix %d)", x.Unix())
	case time.Duration:
		return fmt.Sprintf("Duration(%d)", int64(x))
	case net.HardwareAddr:
		return fmt.Sprintf("MAC(%x)", []byte(x))
	case uuid.UUID:
		return fmt.Sprintf("UUID(%x)", x[:])
	case netip.Addr:
		return fmt.Sprintf("Addr(%x zone=%q is4=%v)", x.AsSlice(), x.Zone(), x.Is4())
	case url.URL:
		return fmt.Sprintf("URL(%q)", x.String())
	case string:
		return fmt.Sprintf("%q", x)
	case []byte:
		return fmt.Sprintf("%q", x)
	default:
		return fmt.Sprintf("%T(%v)", v, v)
	}
}

// intCase: Bits is the value as a 64-bit two's complement pattern (signed
// helpers) or zero-extended (unsigned helpers); only the low bits of the
// helper's width are used.
type intCase struct {
	Helper string `json:"helper"`
	Bits   uint64 `json:"bits"`
}

type intHelper struct {
	name   string
	width  int
	signed bool
	run    func(bits uint64) *vk.Finding
}

func eqPlain[T comparable](got, want T) string {
	if got != want {
		return "decoded value differs"
	}
	return ""
}

func signedHelper[T constraints.Signed](c codec[T], width int) intHelper {
	return intHelper{name: c.name, width: width, signed: true, run: func(b uint64) *vk.Finding {
		v := T(int64(b)) // truncates to the width
		return runCodec(c, v, eqPlain[T], func(text string, v T) string {
			neg, mag, ok := refDecimal(text)
			if !ok {
				return "not a plain decimal integer -?(0|[1-9][0-9]*)"
			}
			want := int64(v)
			wantMag := uint64(want)
			if want < 0 {
				wantMag = -uint64(want)
			}
			if neg != (want < 0) || mag != wantMag {
				return fmt.Sprintf("the text denotes a different integer than %d", want)
			}
			return ""
		}, nil)
	}}
}

func unsignedHelper[T constraints.Unsigned](c codec[T], width int) intHelper {
	return intHelper{name: c.name, width: width, run: func(b uint64) *vk.Finding {
		v := T(b)
		return runCodec(c, v, eqPlain[T], func(text string, v T) string {
			neg, mag, ok := refDecimal(text)
			if !ok || neg {
				return "not a plain unsigned decimal integer (0|[1-9][0-9]*)"
			}
			if mag != uint64(v) {
				return fmt.Sprintf("the text denotes a different integer than %d", uint64(v))
			}
			return ""
		}, nil)
	}}
}

var intHelpers = func() map[string]intHelper {
	w := bits.UintSize
	hs := []intHelper{
		signedHelper(convCodec("conv.Int", conv.IntToString, conv.ToInt), w),
		signedHelper(convCodec("conv.Int8", conv.Int8ToString, conv.ToInt8), 8),
		signedHelper(convCodec("conv.Int16", conv.Int16ToString, conv.ToInt16), 16),
		signedHelper(convCodec("conv.Int32", conv.Int32ToString, conv.ToInt32), 32),
		signedHelper(convCodec("conv.Int64", conv.Int64ToString, conv.ToInt64), 64),
		unsignedHelper(convCodec("conv.Uint", conv.UintToString, conv.ToUint), w),
		unsignedHelper(convCodec("conv.Uint8", conv.Uint8ToString, conv.ToUint8), 8),
		unsignedHelper(convCodec("conv.Uint16", conv.Uint16ToString, conv.ToUint16), 16),
		unsignedHelper(convCodec("conv.Uint32", conv.Uint32ToString, conv.ToUint32), 32),
		unsignedHelper(convCodec("conv.Uint64", conv.Uint64ToString, conv.ToUint64), 64),

		signedHelper(convCodec("conv.StringInt", conv.StringIntToString, conv.ToStringInt), w),
		signedHelper(convCodec("conv.StringInt8", conv.StringInt8ToString, conv.ToStringInt8), 8),
		signedHelper(convCodec("conv.StringInt16", conv.StringInt16ToString, conv.ToStringInt16), 16),
		signedHelper(convCodec("conv.StringInt32", conv.StringInt32ToString, conv.ToStringInt32), 32),
		signedHelper(convCodec("conv.StringInt64", conv.StringInt64ToString, conv.ToStringInt64), 64),
		unsignedHelper(convCodec("conv.StringUint", conv.StringUintToString, conv.ToStringUint), w),
		unsignedHelper(convCodec("conv.StringUint8", conv.StringUint8ToString, conv.ToStringUint8), 8),
		unsignedHelper(convCodec("conv.StringUint16", conv.StringUint16ToString, conv.ToStringUint16), 16),
		unsignedHelper(convCodec("conv.StringUint32", conv.StringUint32ToString, conv.ToStringUint32), 32),
		unsignedHelper(convCodec("conv.StringUint64", conv.StringUint64ToString, conv.ToStringUint64), 64),

		signedHelper(jsonCodec("json.StringInt", 's', ojson.EncodeStringInt, ojson.DecodeStringInt), w),
		signedHelper(jsonCodec("json.StringInt8", 's', ojson.EncodeStringInt8, ojson.DecodeStringInt8), 8),
		signedHelper(jsonCodec("json.StringInt16", 's', ojson.EncodeStringInt16, ojson.DecodeStringInt16), 16),
		signedHelper(jsonCodec("json.StringInt32", 's', ojson.EncodeStringInt32, ojson.DecodeStringInt32), 32),
		signedHelper(jsonCodec("json.StringInt64", 's', ojson.EncodeStringInt64, ojson.DecodeStringInt64), 64),
		unsignedHelper(jsonCodec("json.StringUint", 's', ojson.EncodeStringUint, ojson.DecodeStringUint), w),
		unsignedHelper(jsonCodec("json.StringUint8", 's', ojson.EncodeStringUint8, ojson.DecodeStringUint8), 8),
		unsignedHelper(jsonCodec("json.StringUint16", 's', ojson.EncodeStringUint16, ojson.DecodeStringUint16), 16),
		unsignedHelper(jsonCodec("json.StringUint32", 's', ojson.EncodeStringUint32, ojson.DecodeStringUint32), 32),
		unsignedHelper(jsonCodec("json.StringUint64", 's', ojson.EncodeStringUint64, ojson.DecodeStringUint64), 64),
	}
	m := map[string]intHelper{}
	for _, h := range hs {
		m[h.name] = h
	}
	return m
}()

var boolCodec = convCodec("conv.Bool", conv.BoolToString, conv.ToBool)

func sortedKeys[V any](m map[string]V) []string {
	ks := make([]string, 0, len(m))
	for k := range m {
		ks = append(ks, k)
	}
	sort.Strings(ks)
	return ks
}

// canon reduces bits to the helper's width (sign- or zero-extended), so that
// equal values have equal cases.
func (h intHelper) canon(b uint64) uint64 {
	if h.width == 64 {
		return b
	}
	b &= 1<<uint(h.width) - 1
	if h.signed && b>>(uint(h.width)-1) == 1 {
		b |= ^uint64(0) << uint(h.width)
	}
	return b
}

func checkInt(c intCase) *vk.Finding {
	if c.Helper == "conv.Bool" {
		v := c.Bits&1 == 1
		return runCodec(boolCodec, v, eqPlain[bool], func(text string, v bool) string {
			if (v && text != "true") || (!v && text != "false") {
				return "a boolean is written true / false"
			}
			return ""
		}, nil)
	}
	h, ok := intHelpers[c.Helper]
	if !ok {
		return vk.F("harness-unknown-helper", "no integer helper %q", c.Helper)
	}
	return h.run(h.canon(c.Bits))
}

// TestIntExhaustive: every value of bool, int8, uint8, int16, uint16 through
// every helper of that type.
func TestIntExhaustive(t *testing.T) {
	u := vk.New(t, "C13", "int-exhaustive")
	defer u.Close()
	if c, ok := vk.ReplayOnly[intCase](u); ok {
		u.Eval(1)
		if f := checkInt(c); f != nil {
			u.Report(f, c)
		}
		return
	}
	if vk.InReplay() {
		return
	}
	u.SetExhaustive(true)
	shard, shards := vk.Shard()
	var idx int64
	evals, nontrivial := 0, 0
	one := func(c intCase, label string) {
		idx++
		if idx%int64(shards) != int64(shard) {
			return
		}
		evals++
		if c.Bits != 0 {
			nontrivial++
		}
		if f := checkInt(c); f != nil {
			u.Report(f, c)
		}
		if evals%40000 == 1 {
			u.Sample(c)
		}
		u.LabelN(label, 1)
	}
	one(intCase{"conv.Bool", 0}, "conv.Bool")
	one(intCase{"conv.Bool", 1}, "conv.Bool")
	for _, name := range sortedKeys(intHelpers) {
		h := intHelpers[name]
		if h.width > 16 {
			continue
		}
		for x := uint64(0); x < 1<<uint(h.width); x++ {
			one(intCase{name, h.canon(x)}, name)
		}
	}
	u.Eval(evals)
	u.NonTrivialCount(nontrivial)
}

var intBoundaries = func() []uint64 {
	var out []uint64
	add := func(v uint64) { out = append(out, v-1, v, v+1) }
	add(0)
	for _, k := range []uint{7, 8, 15, 16, 24, 31, 32, 33, 52, 53, 54, 62, 63} {
		add(1 << k)
		add(-(uint64(1) << k))
	}
	p := uint64(1)
	for i := 0; i < 19; i++ {
		p *= 10
		add(p)
		add(-p)
	}
	return out
}()

func drawWideInt(t *rapid.T, names []string) intCase {
	name := rapid.SampledFrom(names).Draw(t, "helper")
	h := intHelpers[name]
	var b uint64
	switch rapid.IntRange(0, 3).Draw(t, "class") {
	case 0:
		b = rapid.SampledFrom(intBoundaries).Draw(t, "boundary")
	case 1:
		b = rapid.Uint64().Draw(t, "uniform")
	case 2:
		// random magnitude: every bit length (hence every digit count) is likely
		n := rapid.IntRange(0, 64).Draw(t, "bitlen")
		b = rapid.Uint64().Draw(t, "m")
		if n < 64 {
			b &= 1<<uint(n) - 1
		}
		if h.signed && rapid.Bool().Draw(t, "neg") {
			b = -b
		}
	case 3:
		// near the ends of the helper's own range
		d := uint64(rapid.IntRange(0, 1000).Draw(t, "delta"))
		switch rapid.IntRange(0, 2).Draw(t, "end") {
		case 0: // max
			if h.signed {
				b = 1<<uint(h.width-1) - 1 - d
			} else {
				b = ^uint64(0)>>(64-uint(h.width)) - d
			}
		case 1: // min
			if h.signed {
				b = -(uint64(1) << uint(h.width-1)) + d
			} else {
				b = d
			}
		default:
			b = d
			if h.signed {
				b = -d
			}
		}
	}
	return intCase{name, h.canon(b)}
}

// TestIntWide: int, int32, int64, uint, uint32, uint64 helpers.
func TestIntWide(t *testing.T) {
	u := vk.New(t, "C13", "int-wide")
	defer u.Close()
	random := false // set by the generator: samples are taken from generated cases only
	var names []string
	for _, n := range sortedKeys(intHelpers) {
		if intHelpers[n].width > 16 {
			names = append(names, n)
		}
	}
	var regress []intCase
	for _, n := range names {
		h := intHelpers[n]
		seen := map[uint64]bool{}
		for _, b := range intBoundaries {
			if c := h.canon(b); !seen[c] {
				seen[c] = true
				regress = append(regress, intCase{n, c})
			}
		}
	}
	vk.Rapid(u, vk.N(700_000, 12_000_000), regress, func(t *rapid.T) intCase { random = true; return drawWideInt(t, names) }, func(c intCase) *vk.Finding {
		if c.Bits != 0 {
			u.NonTrivial(fmt.Sprintf("%s/%d", c.Helper, c.Bits))
		}
		u.Label(c.Helper)
		if random {
			u.Sample(c)
		}
		return checkInt(c)
	})
}

var _ = jx.Null // keep the import if helpers move
