package c13

import (
	"fmt"
	"math"
	"math/big"
	"testing"
	"time"

	"github.com/go-faster/jx"
	"pgregory.net/rapid"

	"github.com/ogen-go/ogen/conv"
	ojson "github.com/ogen-go/ogen/json"

	"verif/internal/vk"
)

// ---- date, time, date-time ---------------------------------------------------
//
// Resolution (conv/time.go, json/time.go): date = "2006-01-02" (a civil date,
// no offset), time = "15:04:05" (whole seconds, no offset), date-time =
// time.RFC3339 (whole seconds, numeric offset in whole minutes). The domain is
// therefore: civil years 0001-9999 (RFC 3339 §1: four-digit years), no
// fractional seconds, offsets that are a whole number of minutes within
// +-23:59, no leap seconds (time.Time has none).

// timeCase is a civil date and time of day in a zone OffMin minutes east of
// UTC. Zone selects how the location is built: "utc" (time.UTC, OffMin must be
// 0), "fixed" (time.FixedZone with an empty name) or "named"
// (time.FixedZone("TZ", ...)).
type timeCase struct {
	Helper string `json:"helper"`
	Y      int    `json:"y"`
	Mo     int    `json:"mo"`
	D      int    `json:"d"`
	H      int    `json:"h"`
	Mi     int    `json:"mi"`
	S      int    `json:"s"`
	OffMin int    `json:"off_min"`
	Zone   string `json:"zone"`
}

func (c timeCase) loc() *time.Location {
	switch c.Zone {
	case "utc":
		return time.UTC
	case "named":
		return time.FixedZone("TZ", c.OffMin*60)
	default:
		return time.FixedZone("", c.OffMin*60)
	}
}

type timeHelper struct {
	name string
	kind string // "date", "time", "date-time"
	c    codec[time.Time]
}

var timeHelpers = func() map[string]timeHelper {
	hs := []timeHelper{
		{"conv.Date", "date", convCodec("conv.Date", conv.DateToString, conv.ToDate)},
		{"conv.Time", "time", convCodec("conv.Time", conv.TimeToString, conv.ToTime)},
		{"conv.DateTime", "date-time", convCodec("conv.DateTime", conv.DateTimeToString, conv.ToDateTime)},
		{"json.Date", "date", jsonCodec("json.Date", 's', ojson.EncodeDate, ojson.DecodeDate)},
		{"json.Time", "time", jsonCodec("json.Time", 's', ojson.EncodeTime, ojson.DecodeTime)},
		{"json.DateTime", "date-time", jsonCodec("json.DateTime", 's', ojson.EncodeDateTime, ojson.DecodeDateTime)},
	}
	m := map[string]timeHelper{}
	for _, h := range hs {
		m[h.name] = h
	}
	return m
}()

func (c timeCase) inDomain() bool {
	return c.Y >= 1 && c.Y <= 9999 && c.Mo >= 1 && c.Mo <= 12 && c.D >= 1 && c.D <= daysIn(c.Y, c.Mo) &&
		c.H >= 0 && c.H <= 23 && c.Mi >= 0 && c.Mi <= 59 && c.S >= 0 && c.S <= 59 &&
		c.OffMin > -24*60 && c.OffMin < 24*60 && (c.Zone != "utc" || c.OffMin == 0)
}

func checkTime(c timeCase) *vk.Finding {
	h, ok := timeHelpers[c.Helper]
	if !ok {
		return vk.F("harness-unknown-helper", "no time helper %q", c.Helper)
	}
	if !c.inDomain() {
		return nil
	}
	loc := c.loc()
	switch h.kind {
	case "date":
		// a date value: midnight of the civil date in its location
		v := time.Date(c.Y, time.Month(c.Mo), c.D, 0, 0, 0, 0, loc)
		return runCodec(h.c, v, func(got, _ time.Time) string {
			y, m, d := got.Date()
			if y != c.Y || int(m) != c.Mo || d != c.D {
				return fmt.Sprintf("decoded date %04d-%02d-%02d differs from %04d-%02d-%02d", y, m, d, c.Y, c.Mo, c.D)
			}
			return ""
		}, func(text string, _ time.Time) string {
			y, m, d, ok := refFullDate(text)
			if !ok {
				return "not an RFC 3339 full-date"
			}
			if y != c.Y || m != c.Mo || d != c.D {
				return "the full-date denotes a different day"
			}
			return ""
		}, nil)
	case "time":
		// a time-of-day value; the date part is whatever the case carries
		v := time.Date(c.Y, time.Month(c.Mo), c.D, c.H, c.Mi, c.S, 0, loc)
		return runCodec(h.c, v, func(got, _ time.Time) string {
			hh, mm, ss := got.Clock()
			if hh != c.H || mm != c.Mi || ss != c.S || got.Nanosecond() != 0 {
				return fmt.Sprintf("decoded time of day %02d:%02d:%02d.%09d differs from %02d:%02d:%02d", hh, mm, ss, got.Nanosecond(), c.H, c.Mi, c.S)
			}
			return ""
		}, func(text string, _ time.Time) string {
			hh, mm, ss, frac, ok := refPartialTime(text)
			if !ok {
				return "not an RFC 3339 partial-time"
			}
			if hh != c.H || mm != c.Mi || ss != c.S || !allZero(frac) {
				return "the partial-time denotes a different time of day"
			}
			return ""
		}, nil)
	default:
		v := time.Date(c.Y, time.Month(c.Mo), c.D, c.H, c.Mi, c.S, 0, loc)
		return runCodec(h.c, v, func(got, want time.Time) string {
			if !got.Equal(want) {
				return fmt.Sprintf("decoded instant differs by %v", got.Sub(want))
			}
			if _, off := got.Zone(); off != c.OffMin*60 {
				return fmt.Sprintf("decoded zone offset %ds differs from %ds", off, c.OffMin*60)
			}
			return ""
		}, func(text string, _ time.Time) string {
			r, ok := refDateTime(text)
			if !ok {
				return "not an RFC 3339 date-time"
			}
			if r.Y != c.Y || r.Mo != c.Mo || r.D != c.D || r.H != c.H || r.Mi != c.Mi || r.S != c.S || !allZero(r.Frac) || r.OffMin != c.OffMin {
				return "the date-time denotes a different local time or offset"
			}
			return ""
		}, nil)
	}
}

func allZero(s string) bool {
	for i := 0; i < len(s); i++ {
		if s[i] != '0' {
			return false
		}
	}
	return true
}

var yearEdges = []int{1, 2, 4, 9, 10, 99, 100, 400, 999, 1000, 1582, 1583, 1600, 1700, 1752, 1899, 1900, 1901, 1969, 1970, 1971,
	1999, 2000, 2001, 2004, 2037, 2038, 2039, 2100, 2106, 2261, 2262, 2263, 2400, 5000, 9996, 9998, 9999}

// real-world offsets in minutes (all current and several historical civil offsets)
var realOffsets = []int{-720, -660, -600, -570, -540, -480, -420, -360, -300, -270, -240, -210, -180, -150, -120, -60, 0,
	60, 120, 180, 210, 240, 270, 300, 330, 345, 360, 390, 420, 480, 525, 540, 570, 600, 630, 660, 690, 720, 765, 780, 825, 840}

func drawTime(t *rapid.T, names []string) timeCase {
	c := timeCase{Helper: rapid.SampledFrom(names).Draw(t, "helper")}
	if rapid.IntRange(0, 3).Draw(t, "yclass") == 0 {
		c.Y = rapid.SampledFrom(yearEdges).Draw(t, "yedge")
	} else {
		c.Y = rapid.IntRange(1, 9999).Draw(t, "y")
	}
	c.Mo = rapid.IntRange(1, 12).Draw(t, "mo")
	dim := daysIn(c.Y, c.Mo)
	switch rapid.IntRange(0, 3).Draw(t, "dclass") {
	case 0:
		c.D = 1
	case 1:
		c.D = dim
	default:
		c.D = rapid.IntRange(1, dim).Draw(t, "d")
	}
	edge := func(name string, max int) int {
		switch rapid.IntRange(0, 4).Draw(t, name+"class") {
		case 0:
			return 0
		case 1:
			return max
		default:
			return rapid.IntRange(0, max).Draw(t, name)
		}
	}
	c.H, c.Mi, c.S = edge("h", 23), edge("mi", 59), edge("s", 59)
	switch rapid.IntRange(0, 5).Draw(t, "zclass") {
	case 0:
		c.Zone = "utc"
	case 1:
		c.Zone = "fixed" // offset 0 but not time.UTC
	case 2, 3:
		c.Zone = rapid.SampledFrom([]string{"fixed", "named"}).Draw(t, "zone")
		c.OffMin = rapid.SampledFrom(realOffsets).Draw(t, "real")
	default:
		c.Zone = rapid.SampledFrom([]string{"fixed", "named"}).Draw(t, "zone")
		c.OffMin = rapid.IntRange(-(23*60+59), 23*60+59).Draw(t, "off")
	}
	return c
}

func timeRegress() []timeCase {
	var out []timeCase
	for _, n := range sortedKeys(timeHelpers) {
		for _, c := range []timeCase{
			{n, 1, 1, 1, 0, 0, 0, 0, "utc"},
			{n, 1, 1, 1, 0, 0, 0, 23*60 + 59, "fixed"}, // instant before year 1 in UTC
			{n, 1, 1, 1, 0, 0, 0, -(23*60 + 59), "fixed"},
			{n, 9999, 12, 31, 23, 59, 59, 0, "utc"},
			{n, 9999, 12, 31, 23, 59, 59, -(23*60 + 59), "named"}, // instant in year 10000 in UTC
			{n, 9999, 12, 31, 23, 59, 59, 14 * 60, "named"},
			{n, 2000, 2, 29, 12, 0, 0, 330, "fixed"},
			{n, 1900, 2, 28, 23, 59, 59, -210, "fixed"},
			{n, 2400, 2, 29, 0, 0, 0, 0, "fixed"},
			{n, 1970, 1, 1, 0, 0, 0, 0, "utc"},
			{n, 1969, 12, 31, 23, 59, 59, 1, "fixed"},
			{n, 2038, 1, 19, 3, 14, 8, -1, "fixed"},
			{n, 2016, 12, 31, 23, 59, 59, 0, "utc"},
			{n, 99, 9, 9, 9, 9, 9, 9, "named"},
			{n, 2024, 3, 10, 2, 30, 0, -480, "named"},
		} {
			out = append(out, c)
		}
	}
	return out
}

func TestTime(t *testing.T) {
	u := vk.New(t, "C13", "time")
	defer u.Close()
	random := false // set by the generator: samples are taken from generated cases only
	names := sortedKeys(timeHelpers)
	vk.Rapid(u, vk.N(1_000_000, 14_000_000), timeRegress(), func(t *rapid.T) timeCase { random = true; return drawTime(t, names) }, func(c timeCase) *vk.Finding {
		if !c.inDomain() {
			u.Label("outside-domain")
			return nil
		}
		kind := timeHelpers[c.Helper].kind
		var key string
		switch kind {
		case "date":
			key = fmt.Sprintf("%s/%d-%d-%d", c.Helper, c.Y, c.Mo, c.D)
		case "time":
			key = fmt.Sprintf("%s/%d:%d:%d", c.Helper, c.H, c.Mi, c.S)
		default:
			key = fmt.Sprintf("%s/%d-%d-%d %d:%d:%d %d", c.Helper, c.Y, c.Mo, c.D, c.H, c.Mi, c.S, c.OffMin)
		}
		u.NonTrivial(key)
		u.Label(c.Helper)
		switch {
		case c.Zone == "utc":
			u.Label("zone:utc")
		case c.OffMin == 0:
			u.Label("zone:fixed-0")
		case c.OffMin%15 == 0 && c.OffMin >= -720 && c.OffMin <= 840:
			u.Label("zone:real-offset")
		default:
			u.Label("zone:odd-minute-offset")
		}
		if random {
			u.Sample(c)
		}
		return checkTime(c)
	})
}

// ---- Unix timestamps -----------------------------------------------------------

// unixCase: N is the timestamp in the helper's unit; the time.Time value is
// built from it with the standard library and moved to a zone OffMin minutes
// east of UTC (a Unix time carries no offset: only the instant must survive).
type unixCase struct {
	Helper string `json:"helper"`
	N      int64  `json:"n"`
	OffMin int    `json:"off_min"`
}

type unixHelper struct {
	name string
	unit string // s, ms, us, ns
	c    codec[time.Time]
}

var unixHelpers = func() map[string]unixHelper {
	type tc = codec[time.Time]
	jn := func(name string, enc func(*jx.Encoder, time.Time), dec func(*jx.Decoder) (time.Time, error)) tc {
		return jsonCodec(name, 'n', enc, dec)
	}
	js := func(name string, enc func(*jx.Encoder, time.Time), dec func(*jx.Decoder) (time.Time, error)) tc {
		return jsonCodec(name, 's', enc, dec)
	}
	hs := []unixHelper{
		{"conv.UnixSeconds", "s", convCodec("conv.UnixSeconds", conv.UnixSecondsToString, conv.ToUnixSeconds)},
		{"conv.UnixMilli", "ms", convCodec("conv.UnixMilli", conv.UnixMilliToString, conv.ToUnixMilli)},
		{"conv.UnixMicro", "us", convCodec("conv.UnixMicro", conv.UnixMicroToString, conv.ToUnixMicro)},
		{"conv.UnixNano", "ns", convCodec("conv.UnixNano", conv.UnixNanoToString, conv.ToUnixNano)},
		{"json.UnixSeconds", "s", jn("json.UnixSeconds", ojson.EncodeUnixSeconds, ojson.DecodeUnixSeconds)},
		{"json.UnixMilli", "ms", jn("json.UnixMilli", ojson.EncodeUnixMilli, ojson.DecodeUnixMilli)},
		{"json.UnixMicro", "us", jn("json.UnixMicro", ojson.EncodeUnixMicro, ojson.DecodeUnixMicro)},
		{"json.UnixNano", "ns", jn("json.UnixNano", ojson.EncodeUnixNano, ojson.DecodeUnixNano)},
		{"json.StringUnixSeconds", "s", js("json.StringUnixSeconds", ojson.EncodeStringUnixSeconds, ojson.DecodeStringUnixSeconds)},
		{"json.StringUnixMilli", "ms", js("json.StringUnixMilli", ojson.EncodeStringUnixMilli, ojson.DecodeStringUnixMilli)},
		{"json.StringUnixMicro", "us", js("json.StringUnixMicro", ojson.EncodeStringUnixMicro, ojson.DecodeStringUnixMicro)},
		{"json.StringUnixNano", "ns", js("json.StringUnixNano", ojson.EncodeStringUnixNano, ojson.DecodeStringUnixNano)},
	}
	m := map[string]unixHelper{}
	for _, h := range hs {
		m[h.name] = h
	}
	return m
}()

// Representable range. time.Time counts seconds from year 1 in an int64, so a
// Unix-seconds value is representable iff N + 62135596800 does not overflow;
// ms/us/ns counts of every int64 denote representable instants.
const unixToYear1 = 62135596800
const maxUnixSeconds = math.MaxInt64 - unixToYear1

func mkUnix(unit string, n int64) time.Time {
	switch unit {
	case "s":
		return time.Unix(n, 0)
	case "ms":
		return time.UnixMilli(n)
	case "us":
		return time.UnixMicro(n)
	default:
		return time.Unix(0, n)
	}
}

// refUnixCount recomputes, with big integers from the parts of the instant
// (seconds and nanoseconds since the epoch), how many whole units the instant
// is from the epoch: independent of Time.UnixMilli/UnixMicro/UnixNano.
func refUnixCount(unit string, v time.Time) *big.Int {
	per := map[string]int64{"s": 1, "ms": 1e3, "us": 1e6, "ns": 1e9}[unit]
	x := new(big.Int).Mul(big.NewInt(v.Unix()), big.NewInt(per))
	return x.Add(x, big.NewInt(int64(v.Nanosecond())/(1e9/per)))
}

func checkUnix(c unixCase) *vk.Finding {
	h, ok := unixHelpers[c.Helper]
	if !ok {
		return vk.F("harness-unknown-helper", "no unix helper %q", c.Helper)
	}
	if h.unit == "s" && c.N > maxUnixSeconds {
		return nil
	}
	if c.OffMin <= -24*60 || c.OffMin >= 24*60 {
		return nil
	}
	v := mkUnix(h.unit, c.N)
	if c.OffMin != 0 {
		v = v.In(time.FixedZone("", c.OffMin*60))
	}
	return runCodec(h.c, v, func(got, want time.Time) string {
		if !got.Equal(want) {
			return "decoded instant differs"
		}
		return ""
	}, func(text string, v time.Time) string {
		neg, mag, ok := refDecimal(text)
		if !ok {
			return "not a plain decimal integer -?(0|[1-9][0-9]*)"
		}
		x := new(big.Int).SetUint64(mag)
		if neg {
			x.Neg(x)
		}
		if (neg && mag == 0) || x.Cmp(big.NewInt(c.N)) != 0 || x.Cmp(refUnixCount(h.unit, v)) != 0 {
			return fmt.Sprintf("the number is not the count of %s since the epoch (%d)", h.unit, c.N)
		}
		return ""
	}, nil)
}

var unixEdges = func() []int64 {
	out := []int64{0, 1, -1, 59, 60, 999, 1000, 1001, -999, -1000, -1001, 999999, 1000000, -1000000, 999999999, 1000000000, -1000000000,
		math.MaxInt32, math.MaxInt32 + 1, math.MinInt32, math.MinInt32 - 1, 1 << 32, 1<<53 - 1, 1 << 53, 1<<53 + 1, -(1 << 53), -(1<<53 + 1),
		math.MaxInt64, math.MaxInt64 - 1, math.MinInt64, math.MinInt64 + 1, maxUnixSeconds, maxUnixSeconds - 1,
		-unixToYear1, -unixToYear1 - 1, -unixToYear1 + 1, 253402300799, 253402300800, // year 1, year 9999/10000 in seconds
	}
	for _, per := range []int64{1e3, 1e6, 1e9} {
		out = append(out, -unixToYear1*per, 253402300799*per+per-1, 253402300800*per)
	}
	return out
}()

func drawUnix(t *rapid.T, names []string) unixCase {
	c := unixCase{Helper: rapid.SampledFrom(names).Draw(t, "helper")}
	h := unixHelpers[c.Helper]
	per := map[string]int64{"s": 1, "ms": 1e3, "us": 1e6, "ns": 1e9}[h.unit]
	switch rapid.IntRange(0, 4).Draw(t, "class") {
	case 0:
		c.N = rapid.SampledFrom(unixEdges).Draw(t, "edge")
	case 1:
		c.N = rapid.Int64().Draw(t, "uniform")
	case 2:
		// civil years 1..9999 at the unit's resolution (when the unit can reach them)
		sec := rapid.Int64Range(-unixToYear1, 253402300799).Draw(t, "sec")
		sub := rapid.Int64Range(0, per-1).Draw(t, "sub")
		if per == 1e9 && (sec > math.MaxInt64/per-1 || sec < math.MinInt64/per+1) {
			sec %= math.MaxInt64 / per
		}
		c.N = sec*per + sub
	case 3:
		n := rapid.IntRange(0, 63).Draw(t, "bitlen")
		c.N = int64(rapid.Uint64().Draw(t, "m") & (1<<uint(n) - 1))
		if rapid.Bool().Draw(t, "neg") {
			c.N = -c.N
		}
	default:
		// around now
		c.N = (1_700_000_000+rapid.Int64Range(-400_000_000, 400_000_000).Draw(t, "now"))*per + rapid.Int64Range(0, per-1).Draw(t, "sub")
	}
	if h.unit == "s" && c.N > maxUnixSeconds {
		c.N = maxUnixSeconds - (math.MaxInt64 - c.N)
	}
	switch rapid.IntRange(0, 2).Draw(t, "zclass") {
	case 0:
	case 1:
		c.OffMin = rapid.SampledFrom(realOffsets).Draw(t, "real")
	default:
		c.OffMin = rapid.IntRange(-(23*60+59), 23*60+59).Draw(t, "off")
	}
	return c
}

func TestUnix(t *testing.T) {
	u := vk.New(t, "C13", "unix")
	defer u.Close()
	random := false // set by the generator: samples are taken from generated cases only
	names := sortedKeys(unixHelpers)
	var regress []unixCase
	for _, n := range names {
		for _, e := range unixEdges {
			if unixHelpers[n].unit == "s" && e > maxUnixSeconds {
				continue
			}
			regress = append(regress, unixCase{n, e, 0}, unixCase{n, e, 330})
		}
	}
	vk.Rapid(u, vk.N(700_000, 12_000_000), regress, func(t *rapid.T) unixCase { random = true; return drawUnix(t, names) }, func(c unixCase) *vk.Finding {
		if unixHelpers[c.Helper].unit == "s" && c.N > maxUnixSeconds {
			u.Label("outside-domain")
			return nil
		}
		if c.N != 0 {
			u.NonTrivial(fmt.Sprintf("%s/%d", c.Helper, c.N))
		}
		u.Label(c.Helper)
		if random {
			u.Sample(c)
		}
		return checkUnix(c)
	})
}

// ---- durations -----------------------------------------------------------------

type durCase struct {
	Helper string `json:"helper"`
	N      int64  `json:"n"` // nanoseconds
}

var durHelpers = map[string]codec[time.Duration]{
	"conv.Duration": convCodec("conv.Duration", conv.DurationToString, conv.ToDuration),
	"json.Duration": jsonCodec("json.Duration", 's', ojson.EncodeDuration, ojson.DecodeDuration),
}

func checkDuration(c durCase) *vk.Finding {
	h, ok := durHelpers[c.Helper]
	if !ok {
		return vk.F("harness-unknown-helper", "no duration helper %q", c.Helper)
	}
	return runCodec(h, time.Duration(c.N), eqPlain[time.Duration], func(text string, v time.Duration) string {
		r, ok := refGoDuration(text)
		if !ok {
			return "not in Go duration syntax ([-+]?([0-9]*(\\.[0-9]*)?(ns|us|µs|ms|s|m|h))+ or 0)"
		}
		if r.Cmp(new(big.Rat).SetInt64(int64(v))) != 0 {
			return fmt.Sprintf("the text denotes %s ns, not %d ns", r.RatString(), int64(v))
		}
		return ""
	}, nil)
}

var durEdges = func() []int64 {
	out := []int64{0, math.MaxInt64, math.MinInt64, math.MaxInt64 - 1, math.MinInt64 + 1}
	for _, u := range []int64{1, 1e3, 1e6, 1e9, 60e9, 3600e9, 24 * 3600e9, 100 * 3600e9, 2540400 * 3600e9} {
		for _, d := range []int64{-1, 0, 1} {
			out = append(out, u+d, -(u + d))
		}
	}
	out = append(out, 1500, 1500000, 1500000000, 90e9, 5400e9, 1001001001, 3600e9+1, 3661e9+1e6, 10*3600e9+10*60e9+10e9,
		59e9+999999999, 59*60e9+59e9+999999999, 100, 120e9, 7200e9, 1e9+1, 1e9+10, 1e9+100000000)
	return out
}()

func drawDuration(t *rapid.T) durCase {
	c := durCase{Helper: rapid.SampledFrom([]string{"conv.Duration", "json.Duration"}).Draw(t, "helper")}
	switch rapid.IntRange(0, 4).Draw(t, "class") {
	case 0:
		c.N = rapid.SampledFrom(durEdges).Draw(t, "edge")
	case 1:
		c.N = rapid.Int64().Draw(t, "uniform")
	case 2:
		n := rapid.IntRange(0, 63).Draw(t, "bitlen")
		c.N = int64(rapid.Uint64().Draw(t, "m") & (1<<uint(n) - 1))
	case 3:
		// round values: k units, possibly with a short fraction
		unit := rapid.SampledFrom([]int64{1, 1e3, 1e6, 1e9, 60e9, 3600e9}).Draw(t, "unit")
		k := rapid.Int64Range(0, 100000).Draw(t, "k")
		c.N = k * unit
		if unit > 1 && rapid.Bool().Draw(t, "frac") {
			c.N += unit / rapid.SampledFrom([]int64{2, 4, 5, 8, 10, 100, 1000}).Draw(t, "div")
		}
	default:
		// h m s components
		c.N = rapid.Int64Range(0, 2562047).Draw(t, "h")*3600e9 + rapid.Int64Range(0, 59).Draw(t, "m")*60e9 +
			rapid.Int64Range(0, 59).Draw(t, "s")*1e9
		if rapid.Bool().Draw(t, "ns") {
			c.N += rapid.Int64Range(0, 999999999).Draw(t, "nanos")
		}
	}
	if rapid.Bool().Draw(t, "neg") {
		c.N = -c.N
	}
	return c
}

func TestDuration(t *testing.T) {
	u := vk.New(t, "C13", "duration")
	defer u.Close()
	random := false // set by the generator: samples are taken from generated cases only
	var regress []durCase
	for _, n := range sortedKeys(durHelpers) {
		for _, e := range durEdges {
			regress = append(regress, durCase{n, e})
		}
	}
	vk.Rapid(u, vk.N(700_000, 10_000_000), regress, func(t *rapid.T) durCase { random = true; return drawDuration(t) }, func(c durCase) *vk.Finding {
		if c.N != 0 {
			u.NonTrivial(fmt.Sprintf("%s/%d", c.Helper, c.N))
		}
		u.Label(c.Helper)
		a := c.N
		if a < 0 {
			a = -a
		}
		switch {
		case c.N == math.MinInt64 || a >= 3600e9:
			u.Label("magnitude:hours")
		case a >= 1e9:
			u.Label("magnitude:seconds-minutes")
		default:
			u.Label("magnitude:sub-second")
		}
		if random {
			u.Sample(c)
		}
		return checkDuration(c)
	})
}
