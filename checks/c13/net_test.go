package c13

import (
	"bytes"
	"encoding/binary"
	"encoding/hex"
	"fmt"
	"net"
	"net/netip"
	"net/url"
	"strings"
	"testing"
	"unicode/utf8"

	"github.com/google/uuid"
	"pgregory.net/rapid"

	"github.com/ogen-go/ogen/conv"
	ojson "github.com/ogen-go/ogen/json"

	"verif/internal/vk"
)

// ---- UUID ------------------------------------------------------------------------

type uuidCase struct {
	Helper string `json:"helper"`
	Hi     uint64 `json:"hi"`
	Lo     uint64 `json:"lo"`
}

var uuidHelpers = map[string]codec[uuid.UUID]{
	"conv.UUID": convCodec("conv.UUID", conv.UUIDToString, conv.ToUUID),
	"json.UUID": jsonCodec("json.UUID", 's', ojson.EncodeUUID, ojson.DecodeUUID),
}

func mkUUID(hi, lo uint64) (v uuid.UUID) {
	binary.BigEndian.PutUint64(v[:8], hi)
	binary.BigEndian.PutUint64(v[8:], lo)
	return v
}

func checkUUID(c uuidCase) *vk.Finding {
	h, ok := uuidHelpers[c.Helper]
	if !ok {
		return vk.F("harness-unknown-helper", "no uuid helper %q", c.Helper)
	}
	return runCodec(h, mkUUID(c.Hi, c.Lo), eqPlain[uuid.UUID], func(text string, v uuid.UUID) string {
		b, ok := refUUID(text)
		if !ok {
			return "not the RFC 4122 8-4-4-4-12 hexadecimal form"
		}
		if b != [16]byte(v) {
			return "the hexadecimal digits denote different octets"
		}
		return ""
	}, nil)
}

func drawUUID(t *rapid.T) uuidCase {
	c := uuidCase{Helper: rapid.SampledFrom([]string{"conv.UUID", "json.UUID"}).Draw(t, "helper")}
	switch rapid.IntRange(0, 5).Draw(t, "class") {
	case 0: // sparse: few non-zero octets
		var b [16]byte
		for i := rapid.IntRange(0, 3).Draw(t, "n"); i > 0; i-- {
			b[rapid.IntRange(0, 15).Draw(t, "pos")] = rapid.Byte().Draw(t, "octet")
		}
		c.Hi, c.Lo = binary.BigEndian.Uint64(b[:8]), binary.BigEndian.Uint64(b[8:])
	case 1: // one repeated nibble pattern
		x := uint64(rapid.Byte().Draw(t, "rep")) * 0x0101010101010101
		c.Hi, c.Lo = x, x
	default:
		c.Hi, c.Lo = rapid.Uint64().Draw(t, "hi"), rapid.Uint64().Draw(t, "lo")
	}
	return c
}

func TestUUID(t *testing.T) {
	u := vk.New(t, "C13", "uuid")
	defer u.Close()
	random := false // set by the generator: samples are taken from generated cases only
	var regress []uuidCase
	for _, n := range sortedKeys(uuidHelpers) {
		regress = append(regress, uuidCase{n, 0, 0}, uuidCase{n, ^uint64(0), ^uint64(0)}, uuidCase{n, 0x0123456789abcdef, 0xfedcba9876543210},
			uuidCase{n, 0xa0a0a0a0a0a04a0a, 0x8a0a0a0a0a0a0a0a}, uuidCase{n, 0x0f0f0f0f0f0f0f0f, 0xf0f0f0f0f0f0f0f0}, uuidCase{n, 1, 0}, uuidCase{n, 0, 1})
	}
	vk.Rapid(u, vk.N(300_000, 4_000_000), regress, func(t *rapid.T) uuidCase { random = true; return drawUUID(t) }, func(c uuidCase) *vk.Finding {
		if c.Hi != 0 || c.Lo != 0 {
			u.NonTrivial(fmt.Sprintf("%s/%x/%x", c.Helper, c.Hi, c.Lo))
		}
		u.Label(c.Helper)
		if random {
			u.Sample(c)
		}
		return checkUUID(c)
	})
}

// ---- IP ----------------------------------------------------------------------------

// ipCase: Kind "v4" uses the low 32 bits of Lo; "v6" uses Hi:Lo; "4in6" is
// ::ffff:a.b.c.d with a.b.c.d the low 32 bits of Lo. Zone (v6/4in6 only) is an
// RFC 4007 zone identifier; netip.Addr can carry one and both text functions
// handle it, so zoned addresses are values of the type.
type ipCase struct {
	Helper string `json:"helper"`
	Kind   string `json:"kind"`
	Hi     uint64 `json:"hi"`
	Lo     uint64 `json:"lo"`
	Zone   string `json:"zone,omitempty"`
}

type ipHelper struct {
	c     codec[netip.Addr]
	kinds []string
}

var ipHelpers = map[string]ipHelper{
	"conv.Addr": {convCodec("conv.Addr", conv.AddrToString, conv.ToAddr), []string{"v4", "v6", "4in6"}},
	"json.IP":   {jsonCodec("json.IP", 's', ojson.EncodeIP, ojson.DecodeIP), []string{"v4", "v6", "4in6"}},
	"json.IPv4": {jsonCodec("json.IPv4", 's', ojson.EncodeIPv4, ojson.DecodeIPv4), []string{"v4"}},
	"json.IPv6": {jsonCodec("json.IPv6", 's', ojson.EncodeIPv6, ojson.DecodeIPv6), []string{"v6", "4in6"}},
}

func (c ipCase) addr() (netip.Addr, [16]byte) {
	var b [16]byte
	switch c.Kind {
	case "v4":
		var q [4]byte
		binary.BigEndian.PutUint32(q[:], uint32(c.Lo))
		copy(b[12:], q[:])
		return netip.AddrFrom4(q), b
	case "4in6":
		b[10], b[11] = 0xff, 0xff
		binary.BigEndian.PutUint32(b[12:], uint32(c.Lo))
	default:
		binary.BigEndian.PutUint64(b[:8], c.Hi)
		binary.BigEndian.PutUint64(b[8:], c.Lo)
	}
	a := netip.AddrFrom16(b)
	if c.Zone != "" {
		a = a.WithZone(c.Zone)
	}
	return a, b
}

func checkIP(c ipCase) *vk.Finding {
	h, ok := ipHelpers[c.Helper]
	if !ok {
		return vk.F("harness-unknown-helper", "no ip helper %q", c.Helper)
	}
	okKind := false
	for _, k := range h.kinds {
		okKind = okKind || k == c.Kind
	}
	if !okKind || (c.Kind == "v4" && c.Zone != "") || !utf8.ValidString(c.Zone) || strings.ContainsAny(c.Zone, "%\x00") {
		return nil // outside the helper's domain
	}
	v, raw := c.addr()
	return runCodec(h.c, v, func(got, want netip.Addr) string {
		if got != want {
			return "decoded address differs (netip.Addr ==)"
		}
		return ""
	}, func(text string, _ netip.Addr) string {
		if c.Kind == "v4" {
			q, ok := refIPv4(text)
			if !ok {
				return "not a dotted-quad IPv4 address"
			}
			if !bytes.Equal(q[:], raw[12:]) {
				return "the dotted quad denotes a different address"
			}
			return ""
		}
		b, zone, ok := refIPv6(text)
		if !ok {
			return "not an RFC 4291 section 2.2 IPv6 text form (with optional RFC 4007 %zone)"
		}
		if b != raw || zone != c.Zone {
			return "the IPv6 text denotes a different address or zone"
		}
		return ""
	}, nil)
}

var zones = []string{"eth0", "1", "en0", "lo", "wlan0.1", "Ethernet 2", "br-0a1b", "eth0:1", "z", "ünï", "a\"b", "a\\b", "vlan/7"}

func drawIP(t *rapid.T, names []string) ipCase {
	c := ipCase{Helper: rapid.SampledFrom(names).Draw(t, "helper")}
	c.Kind = rapid.SampledFrom(ipHelpers[c.Helper].kinds).Draw(t, "kind")
	switch c.Kind {
	case "v4", "4in6":
		switch rapid.IntRange(0, 2).Draw(t, "class") {
		case 0:
			c.Lo = uint64(rapid.SampledFrom([]uint32{0, 1, 0xffffffff, 0x7f000001, 0x0a000001, 0xc0a80101, 0x01020304, 0x64646464, 0xff000000, 0x000000ff, 0x0a0a0a0a, 0xe0000001}).Draw(t, "known"))
		case 1:
			// octets from the decimal-length boundaries
			for i := 0; i < 4; i++ {
				c.Lo = c.Lo<<8 | uint64(rapid.SampledFrom([]byte{0, 1, 9, 10, 99, 100, 199, 200, 249, 250, 255}).Draw(t, "oct"))
			}
		default:
			c.Lo = uint64(rapid.Uint32().Draw(t, "v4"))
		}
	default:
		switch rapid.IntRange(0, 3).Draw(t, "class") {
		case 0:
			c.Hi, c.Lo = rapid.Uint64().Draw(t, "hi"), rapid.Uint64().Draw(t, "lo")
		case 1, 2:
			// groups chosen one by one, mostly zero: runs of zero groups of every shape
			// (leading, trailing, several runs, a single zero group, all zero)
			var g [8]uint16
			for i := range g {
				switch rapid.IntRange(0, 4).Draw(t, "g") {
				case 0:
					g[i] = rapid.Uint16().Draw(t, "gv")
				case 1:
					g[i] = rapid.SampledFrom([]uint16{1, 0xf, 0x10, 0xff, 0x100, 0xfff, 0x1000, 0xffff, 0xabcd}).Draw(t, "ge")
				}
			}
			for i := 0; i < 4; i++ {
				c.Hi = c.Hi<<16 | uint64(g[i])
				c.Lo = c.Lo<<16 | uint64(g[4+i])
			}
		default:
			// well-known prefixes: v4-compatible ::a.b.c.d, 64:ff9b::/96, fe80::/64, 2001:db8::
			pre := rapid.SampledFrom([][2]uint64{{0, 0}, {0x0064ff9b00000000, 0}, {0xfe80000000000000, 0}, {0x20010db800000000, 0}, {0, 0x0000fffe00000000}, {0xff02000000000000, 0}}).Draw(t, "prefix")
			c.Hi = pre[0]
			c.Lo = pre[1] | uint64(rapid.Uint32().Draw(t, "tail"))
		}
	}
	if c.Kind != "v4" && rapid.IntRange(0, 3).Draw(t, "zoned") == 0 {
		if rapid.IntRange(0, 3).Draw(t, "zclass") == 0 {
			c.Zone = rapid.StringMatching(`[a-zA-Z0-9._-]{1,12}`).Draw(t, "zone")
		} else {
			c.Zone = rapid.SampledFrom(zones).Draw(t, "zone")
		}
	}
	return c
}

func ipRegress() []ipCase {
	var out []ipCase
	for _, n := range sortedKeys(ipHelpers) {
		for _, c := range []ipCase{
			{n, "v4", 0, 0, ""}, {n, "v4", 0, 0xffffffff, ""}, {n, "v4", 0, 0x7f000001, ""}, {n, "v4", 0, 0x01020304, ""},
			{n, "v6", 0, 0, ""}, {n, "v6", 0, 1, ""}, {n, "v6", ^uint64(0), ^uint64(0), ""}, {n, "v6", 0x20010db800000000, 1, ""},
			{n, "v6", 0x2001000000000001, 0x0000000000000001, ""}, // two zero runs of equal length
			{n, "v6", 0x2001000000010001, 0x0001000100010001, ""}, // a single zero group
			{n, "v6", 0x0001000000000000, 0, ""},                  // trailing run
			{n, "v6", 0, 0x0000000000010000, ""},                  // run at both ends
			{n, "v6", 0, 0x01020304, ""},                          // v4-compatible
			{n, "v6", 0, 0x0000fffe01020304, ""},                  // looks almost mapped
			{n, "4in6", 0, 0x01020304, ""}, {n, "4in6", 0, 0, ""}, {n, "4in6", 0, 0xffffffff, ""},
			{n, "v6", 0xfe80000000000000, 1, "eth0"}, {n, "v6", 0xfe80000000000000, 1, "1"}, {n, "4in6", 0, 0x01020304, "eth0"},
			{n, "v6", 0xfe80000000000000, 1, "a\"b"}, {n, "v6", 0xfe80000000000000, 1, "ünï"},
		} {
			ok := false
			for _, k := range ipHelpers[n].kinds {
				ok = ok || k == c.Kind
			}
			if ok {
				out = append(out, c)
			}
		}
	}
	return out
}

func TestIP(t *testing.T) {
	u := vk.New(t, "C13", "ip")
	defer u.Close()
	random := false // set by the generator: samples are taken from generated cases only
	names := sortedKeys(ipHelpers)
	vk.Rapid(u, vk.N(600_000, 6_000_000), ipRegress(), func(t *rapid.T) ipCase { random = true; return drawIP(t, names) }, func(c ipCase) *vk.Finding {
		if c.Hi != 0 || c.Lo != 0 || c.Zone != "" {
			u.NonTrivial(fmt.Sprintf("%s/%s/%x/%x/%s", c.Helper, c.Kind, c.Hi, c.Lo, c.Zone))
		}
		u.Label(c.Helper)
		k := "kind:" + c.Kind
		if c.Zone != "" {
			k += "+zone"
		}
		u.Label(k)
		if random {
			u.Sample(c)
		}
		return checkIP(c)
	})
}

// ---- MAC ---------------------------------------------------------------------------

type macCase struct {
	Helper string `json:"helper"`
	Hex    string `json:"hex"` // 6, 8 or 20 octets
}

var macHelpers = map[string]codec[net.HardwareAddr]{
	"conv.MAC": convCodec("conv.MAC", conv.MACToString, conv.ToMAC),
	"json.MAC": jsonCodec("json.MAC", 's', ojson.EncodeMAC, ojson.DecodeMAC),
}

func checkMAC(c macCase) *vk.Finding {
	h, ok := macHelpers[c.Helper]
	if !ok {
		return vk.F("harness-unknown-helper", "no mac helper %q", c.Helper)
	}
	raw, err := hex.DecodeString(c.Hex)
	if err != nil || (len(raw) != 6 && len(raw) != 8 && len(raw) != 20) {
		return nil // EUI-48, EUI-64 and 20-octet IPoIB addresses are the MAC address domain
	}
	return runCodec(h, net.HardwareAddr(raw), func(got, want net.HardwareAddr) string {
		if !bytes.Equal(got, want) {
			return "decoded octets differ"
		}
		return ""
	}, func(text string, v net.HardwareAddr) string {
		b, ok := refMAC(text)
		if !ok {
			return "not colon-separated pairs of hexadecimal digits"
		}
		if !bytes.Equal(b, v) {
			return "the hexadecimal digits denote different octets"
		}
		return ""
	}, nil)
}

func drawMAC(t *rapid.T) macCase {
	c := macCase{Helper: rapid.SampledFrom([]string{"conv.MAC", "json.MAC"}).Draw(t, "helper")}
	n := rapid.SampledFrom([]int{6, 6, 8, 20}).Draw(t, "len")
	b := make([]byte, n)
	switch rapid.IntRange(0, 3).Draw(t, "class") {
	case 0:
		x := rapid.Byte().Draw(t, "rep")
		for i := range b {
			b[i] = x
		}
	case 1:
		for i := rapid.IntRange(0, 3).Draw(t, "n"); i > 0; i-- {
			b[rapid.IntRange(0, n-1).Draw(t, "pos")] = rapid.Byte().Draw(t, "octet")
		}
	default:
		for i := range b {
			b[i] = rapid.Byte().Draw(t, "b")
		}
	}
	c.Hex = hex.EncodeToString(b)
	return c
}

func TestMAC(t *testing.T) {
	u := vk.New(t, "C13", "mac")
	defer u.Close()
	random := false // set by the generator: samples are taken from generated cases only
	var regress []macCase
	for _, n := range sortedKeys(macHelpers) {
		for _, l := range []int{6, 8, 20} {
			regress = append(regress, macCase{n, strings.Repeat("00", l)}, macCase{n, strings.Repeat("ff", l)},
				macCase{n, strings.Repeat("0123456789abcdeffedcba9876543210a5a55a5a", 1)[:2*l]}, macCase{n, strings.Repeat("0a", l)}, macCase{n, strings.Repeat("a0", l)})
		}
	}
	vk.Rapid(u, vk.N(300_000, 4_000_000), regress, func(t *rapid.T) macCase { random = true; return drawMAC(t) }, func(c macCase) *vk.Finding {
		if strings.Trim(c.Hex, "0") != "" {
			u.NonTrivial(c.Helper + "/" + c.Hex)
		}
		u.Label(c.Helper)
		u.Label(fmt.Sprintf("octets:%d", len(c.Hex)/2))
		if random {
			u.Sample(c)
		}
		return checkMAC(c)
	})
}

// ---- URL ---------------------------------------------------------------------------
//
// Generation grammar (a subset of RFC 3986 on which net/url's Parse and
// String are inverse, so that the text the case is built from IS the value):
//
//	URI        = scheme ":" ( "//" authority path-abempty / path-absolute / opaque ) [ "?" query ] [ "#" fragment ]
//	scheme     = lower-case ALPHA *( lower ALPHA / DIGIT / "+" / "-" / "." )      (Parse lower-cases schemes)
//	authority  = [ userinfo "@" ] host [ ":" port ]
//	userinfo   = 1*uchar [ ":" *uchar ]
//	uchar      = unreserved / "%" HEXDIG-upper HEXDIG-upper of an octet that net/url escapes in userinfo
//	host       = reg-name / IPv4address / "[" IPv6address "]"            (reg-name: letters, digits, "-", ".", "_", "~")
//	port       = 1*5DIGIT
//	path-abempty  = *( "/" segment );  path-absolute = "/" [ segment-nz *( "/" segment ) ]
//	segment    = *( unreserved / "$&+,;=:@" / "!'()*" / pct-encoded-upper of an octet outside those sets )
//	opaque     = segment-nz-without-leading-slash *( "/" segment )       (mailto:, urn:, tel: style)
//	query      = *( qchar );  qchar = unreserved / "!$&'()*+,;=:@/?" / pct-encoded (either case)
//	fragment   = 1*( unreserved / "$&+,;=:@/?" / "!()*" / pct-encoded-upper of an octet outside those sets )
//
// Excluded by construction, because there String(Parse(s)) != s is net/url's
// own normalisation and not ogen's doing: upper-case scheme letters,
// percent-escapes of octets that net/url writes unescaped (it re-encodes paths
// and fragments whose given spelling is not its default one only when the
// spelling is invalid, but userinfo always), the empty fragment "#", empty
// userinfo. A case whose text does not survive url.Parse + String is counted
// under "outside-domain" and not judged.

type urlCase struct {
	Helper string `json:"helper"`
	S      string `json:"s"`
}

func eqURL(got, want url.URL) string {
	var diffs []string
	cmp := func(name, a, b string) {
		if a != b {
			diffs = append(diffs, fmt.Sprintf("%s %q != %q", name, a, b))
		}
	}
	cmp("String()", got.String(), want.String())
	cmp("Scheme", got.Scheme, want.Scheme)
	cmp("Opaque", got.Opaque, want.Opaque)
	cmp("User", got.User.String(), want.User.String())
	cmp("Host", got.Host, want.Host)
	cmp("EscapedPath()", got.EscapedPath(), want.EscapedPath())
	cmp("RawQuery", got.RawQuery, want.RawQuery)
	cmp("EscapedFragment()", got.EscapedFragment(), want.EscapedFragment())
	return strings.Join(diffs, "; ")
}

var urlHelpers = map[string]codec[url.URL]{
	"conv.URL": convCodec("conv.URL", conv.URLToString, conv.ToURL),
	"json.URI": jsonCodec("json.URI", 's', ojson.EncodeURI, ojson.DecodeURI),
}

// parseDomainURL builds the value from the case text; ok=false when the text
// is outside the domain described above.
func parseDomainURL(s string) (url.URL, bool) {
	u, err := url.Parse(s)
	if err != nil || u.String() != s || u.Scheme == "" {
		return url.URL{}, false
	}
	return *u, true
}

func checkURL(c urlCase) *vk.Finding {
	h, ok := urlHelpers[c.Helper]
	if !ok {
		return vk.F("harness-unknown-helper", "no url helper %q", c.Helper)
	}
	v, ok := parseDomainURL(c.S)
	if !ok {
		return nil
	}
	return runCodecE(h, v, eqURL, func(text string, _ url.URL) string {
		if !refURI(text) {
			return "not an RFC 3986 URI"
		}
		if text != c.S {
			return "the text differs from the URI the value was built from"
		}
		return ""
	}, func(text string, v, got url.URL) string {
		return classifyURLMismatch(c.Helper, text, v, got)
	}, func(text string, v url.URL) string {
		// same defect, other face: with neither path nor query the unsplit "#fragment"
		// lands in the authority and the host is rejected
		if c.Helper == "json.URI" && v.Fragment != "" && v.Opaque == "" && v.Path == "" && v.RawQuery == "" && !v.ForceQuery &&
			(v.Host != "" || v.User != nil) && strings.Contains(text, "#") {
			return "json-uri-fragment"
		}
		return ""
	})
}

// classifyURLMismatch recognises the one known defect shape: json.DecodeURI
// parses with url.ParseRequestURI, which by contract does not split off a
// fragment, so the value has a fragment, the decoded URL has none, and
// "#fragment" ends up inside the path, the opaque part or the query (wherever
// the first "?" of the whole text, possibly one inside the fragment, puts it):
// scheme and authority are intact and the other components only grew.
// Anything else keeps the generic classifier.
func classifyURLMismatch(helper, text string, v, got url.URL) string {
	if helper != "json.URI" || !strings.Contains(text, "#") || v.Fragment == "" {
		return ""
	}
	if got.Fragment != "" || got.RawFragment != "" || got.Scheme != v.Scheme || got.User.String() != v.User.String() || got.Host != v.Host {
		return ""
	}
	if strings.HasPrefix(got.Opaque, v.Opaque) && strings.HasPrefix(got.Path, v.Path) && strings.HasPrefix(got.RawQuery, v.RawQuery) &&
		len(got.Opaque)+len(got.Path)+len(got.RawQuery) > len(v.Opaque)+len(v.Path)+len(v.RawQuery) {
		return "json-uri-fragment"
	}
	return ""
}

const unreservedChars = "abcdefghijklmnopqrstuvwxyzABCDEFGHIJKLMNOPQRSTUVWXYZ0123456789-._~"

func drawChars(t *rapid.T, label string, min, max int, plain string, escaped []byte, lowerHexOK bool) string {
	n := rapid.IntRange(min, max).Draw(t, label+"-len")
	var b strings.Builder
	for i := 0; i < n; i++ {
		if len(escaped) > 0 && rapid.IntRange(0, 5).Draw(t, label+"-esc") == 0 {
			x := rapid.SampledFrom(escaped).Draw(t, label+"-octet")
			s := fmt.Sprintf("%%%02X", x)
			if lowerHexOK && rapid.Bool().Draw(t, label+"-lower") {
				s = strings.ToLower(s)
			}
			b.WriteString(s)
			continue
		}
		b.WriteByte(plain[rapid.IntRange(0, len(plain)-1).Draw(t, label+"-c")])
	}
	return b.String()
}

var (
	escAlways = []byte{' ', '"', '<', '>', '%', '\\', '^', '`', '{', '|', '}', 0x00, 0x0a, 0x7f, 0x80, 0xc3, 0xa9, 0xff}
	escPath   = append([]byte{'/', '?', '#', '[', ']'}, escAlways...)
	escUser   = append([]byte{'/', '?', '#', '[', ']', '@', ':', '!', '\'', '(', ')', '*'}, escAlways...)
	escFrag   = append([]byte{'#', '[', ']', '\''}, escAlways...)
	escQuery  = append([]byte{'#', '[', ']', 'A', 'z', '~'}, escAlways...)
)

func drawURL(t *rapid.T) urlCase {
	c := urlCase{Helper: rapid.SampledFrom([]string{"conv.URL", "json.URI"}).Draw(t, "helper")}
	var b strings.Builder
	form := rapid.SampledFrom([]string{"authority", "authority", "authority", "path-absolute", "opaque"}).Draw(t, "form")
	switch form {
	case "opaque":
		b.WriteString(rapid.SampledFrom([]string{"mailto", "urn", "tel", "news", "x-app"}).Draw(t, "scheme"))
	default:
		if rapid.IntRange(0, 3).Draw(t, "sclass") == 0 {
			b.WriteString(rapid.StringMatching(`[a-z][a-z0-9+.-]{0,6}`).Draw(t, "scheme"))
		} else {
			b.WriteString(rapid.SampledFrom([]string{"http", "https", "ftp", "ws", "wss", "file", "git+ssh", "s3"}).Draw(t, "scheme"))
		}
	}
	b.WriteByte(':')
	segment := func(min int) string {
		return drawChars(t, "seg", min, 6, unreservedChars+"$&+,;=:@!'()*", escPath, false)
	}
	switch form {
	case "authority":
		b.WriteString("//")
		if rapid.IntRange(0, 3).Draw(t, "user") == 0 {
			b.WriteString(drawChars(t, "user", 1, 6, unreservedChars+"$&+,;=", escUser, false))
			if rapid.Bool().Draw(t, "pass") {
				b.WriteByte(':')
				b.WriteString(drawChars(t, "pass", 0, 6, unreservedChars+"$&+,;=", escUser, false))
			}
			b.WriteByte('@')
		}
		switch rapid.IntRange(0, 5).Draw(t, "host") {
		case 0:
			b.WriteString(netip.AddrFrom4([4]byte{rapid.Byte().Draw(t, "a"), rapid.Byte().Draw(t, "b"), rapid.Byte().Draw(t, "c"), rapid.Byte().Draw(t, "d")}).String())
		case 1:
			b.WriteString(rapid.SampledFrom([]string{"[::1]", "[2001:db8::1]", "[fe80::1%25eth0]", "[::ffff:1.2.3.4]", "[1:2:3:4:5:6:7:8]"}).Draw(t, "v6"))
		case 2:
			if rapid.Bool().Draw(t, "emptyhost") {
				break // file:///path
			}
			fallthrough
		default:
			nl := rapid.IntRange(1, 3).Draw(t, "labels")
			for i := 0; i < nl; i++ {
				if i > 0 {
					b.WriteByte('.')
				}
				b.WriteString(rapid.StringMatching(`[a-zA-Z0-9]([a-zA-Z0-9_~-]{0,5}[a-zA-Z0-9])?`).Draw(t, "label"))
			}
		}
		if rapid.IntRange(0, 2).Draw(t, "port") == 0 {
			fmt.Fprintf(&b, ":%d", rapid.IntRange(0, 65535).Draw(t, "portnum"))
		}
		for i := rapid.IntRange(0, 3).Draw(t, "nseg"); i > 0; i-- {
			b.WriteByte('/')
			b.WriteString(segment(0))
		}
	case "path-absolute":
		b.WriteByte('/')
		if rapid.Bool().Draw(t, "more") {
			b.WriteString(segment(1))
			for i := rapid.IntRange(0, 2).Draw(t, "nseg"); i > 0; i-- {
				b.WriteByte('/')
				b.WriteString(segment(0))
			}
		}
	case "opaque":
		b.WriteString(drawChars(t, "opq", 1, 10, unreservedChars+"$&+,;=:@!'()*", escPath, false))
		for i := rapid.IntRange(0, 2).Draw(t, "nseg"); i > 0; i-- {
			b.WriteByte('/')
			b.WriteString(segment(0))
		}
	}
	if rapid.IntRange(0, 1).Draw(t, "q") == 0 {
		b.WriteByte('?')
		b.WriteString(drawChars(t, "query", 0, 10, unreservedChars+"!$&'()*+,;=:@/?", escQuery, true))
	}
	if rapid.IntRange(0, 2).Draw(t, "f") == 0 {
		b.WriteByte('#')
		b.WriteString(drawChars(t, "frag", 1, 8, unreservedChars+"$&+,;=:@/?!()*", escFrag, false))
	}
	c.S = b.String()
	return c
}

func urlRegress() []urlCase {
	var out []urlCase
	for _, n := range sortedKeys(urlHelpers) {
		for _, s := range []string{
			"http://example.com", "http://example.com/", "https://example.com/a/b?x=1&y=2", "http://h/p#f", "http://h/p?q=1#f", "http://h#f",
			"http://u:p@h:80/a%2Fb?x=y", "http://u@h/", "http://u:@h/", "mailto:a@b.c", "urn:isbn:0451450523", "urn:uuid:6e8bc430-9c3a-11d9-9669-0800200c9a66#x",
			"file:///etc/passwd", "x:/a/b", "x:/", "http://[::1]:80/", "http://[fe80::1%25eth0]/", "http://1.2.3.4:0/", "http://h/?", "http://h/??",
			"http://h/a%20b/%E2%82%AC?k=%e2%82%ac#%20", "http://h//a//b/", "http://h/a;b=c/d,e", "ftp://h/%2Fetc", "tel:+1-816-555-1212", "http://h/p?#f",
			"http://h/:@!$&'()*+,;=", "s3://bucket/key/with/slashes", "git+ssh://git@host:22/repo.git", "http://h/%00", "news:comp.lang.go",
		} {
			out = append(out, urlCase{n, s})
		}
	}
	return out
}

func TestURL(t *testing.T) {
	u := vk.New(t, "C13", "url")
	defer u.Close()
	random := false // set by the generator: samples are taken from generated cases only
	vk.Rapid(u, vk.N(400_000, 5_000_000), urlRegress(), func(t *rapid.T) urlCase { random = true; return drawURL(t) }, func(c urlCase) *vk.Finding {
		v, ok := parseDomainURL(c.S)
		if !ok {
			u.Label("outside-domain")
			return nil
		}
		u.NonTrivial(c.Helper + "/" + c.S)
		u.Label(c.Helper)
		switch {
		case v.Opaque != "":
			u.Label("form:opaque")
		case v.Host != "" || v.User != nil:
			u.Label("form:authority")
		default:
			u.Label("form:no-authority")
		}
		if v.User != nil {
			u.Label("has:userinfo")
		}
		if v.RawQuery != "" || v.ForceQuery {
			u.Label("has:query")
		}
		if v.Fragment != "" {
			u.Label("has:fragment")
		}
		if strings.Contains(c.S, "%") {
			u.Label("has:pct-encoded")
		}
		if random {
			u.Sample(c)
		}
		return checkURL(c)
	})
}
