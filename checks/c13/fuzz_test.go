package c13

import (
	"testing"

	"verif/internal/vk"
)

// native fuzz targets: generators and oracles of the random units, driven by coverage
func FuzzArrays(f *testing.F)   { vk.FuzzUnit(f, TestArrays, 0) }
func FuzzFloat(f *testing.F)    { vk.FuzzUnit(f, TestFloat, 0) }
func FuzzIntWide(f *testing.F)  { vk.FuzzUnit(f, TestIntWide, 0) }
func FuzzUUID(f *testing.F)     { vk.FuzzUnit(f, TestUUID, 0) }
func FuzzIP(f *testing.F)       { vk.FuzzUnit(f, TestIP, 0) }
func FuzzMAC(f *testing.F)      { vk.FuzzUnit(f, TestMAC, 0) }
func FuzzURL(f *testing.F)      { vk.FuzzUnit(f, TestURL, 0) }
func FuzzTime(f *testing.F)     { vk.FuzzUnit(f, TestTime, 0) }
func FuzzUnix(f *testing.F)     { vk.FuzzUnit(f, TestUnix, 0) }
func FuzzDuration(f *testing.F) { vk.FuzzUnit(f, TestDuration, 0) }
