package c07

import (
	"os"
	"testing"

	"pgregory.net/rapid"
)

func TestProf(t *testing.T) {
	if os.Getenv("C07_PROF") == "" {
		return
	}
	os.Setenv("C07_INPROC", "1")
	os.Setenv("C07_DEBUG", "1")
	labels := map[string]int{}
	rapid.Check(t, func(rt *rapid.T) {
		c := drawCase(rt, "")
		r := checkTransparency(c)
		for _, l := range r.Labels {
			labels[l]++
		}
	})
	for _, k := range []string{"known-shapes-allowed", "parse:both-ok", "gen:both-ok", "gen:inline-all", "gen:inline-one", "gen:inline-subset"} {
		t.Logf("%s %d", k, labels[k])
	}
}
