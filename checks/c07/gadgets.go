package c07

import "fmt"

// Two structured shapes that the free-form generator produces too rarely; both
// are added to a random spec as extra paths, so the usual inlining choices
// (all / subset / one) apply to them.

func (b *builder) ensureExt(n int) {
	for len(b.ext) < n && len(b.ext) < len(extFiles) {
		f := extFiles[len(b.ext)]
		b.ext = append(b.ext, f)
		b.docs[f] = O()
	}
}

func (b *builder) put(file string, path []string, body *Node) {
	b.docs[file].Obj(path[0]).Obj(path[1]).Set(path[2], body)
}

// excursion: the SAME relative reference string R ("#/<bag>/<container>/IDn")
// occurs in two or three documents and designates a different target in each
// (visibly different: string / integer / boolean). Document A uses R, follows
// a reference into B where R occurs and must resolve to B's own target
// (optionally B goes on into C), returns, and uses R again.
func (b *builder) excursion(paths *Node) {
	kind := []Kind{KSchema, KSchema, KParam, KResponse}[b.n(0, 3, "excursion-kind")]
	three := b.pct(35, "excursion-three")
	fromExt := b.pct(40, "excursion-from-ext")
	need := 1
	if three {
		need++
	}
	if fromExt {
		need++
	}
	b.ensureExt(need)
	files := append([]string(nil), b.ext...)
	if len(files) < need {
		three = false
		if len(files) < 2 {
			fromExt = false
		}
	}
	A := rootFile
	if fromExt {
		A, files = files[0], files[1:]
	}
	B := files[0]
	C := ""
	if three && len(files) > 1 {
		C = files[1]
	}
	id := b.next()
	bag := b.pickS("excursion-bag", "components", "x-c07")
	cont := containerOf[kind]
	name := fmt.Sprintf("ID%d", id)
	idPath := []string{bag, cont, name}
	via := []string{bag, cont, fmt.Sprintf("Via%d", id)}
	// R is textually identical in every document
	R := func(file string) *Node { return O("$ref", makeRef(file, file, idPath, 0)) }
	to := func(from, file string, p []string) *Node { return O("$ref", makeRef(from, file, p, 0)) }
	types := []string{"string", "integer", "boolean"}
	docsUsed := []string{A, B}
	if C != "" {
		docsUsed = append(docsUsed, C)
	}
	b.tag("excursion:" + string(kind))
	if C != "" {
		b.tag("excursion:three-documents")
	}
	if fromExt {
		b.tag("excursion:starts-in-definition-file")
	}
	x := fmt.Sprintf("/x%d", id)
	switch kind {
	case KSchema:
		for i, f := range docsUsed {
			n := O("type", types[i])
			if i > 0 && !b.allow {
				// (known finding same-named-components-in-two-documents-collide:
				// give the equally named schemas of B and C their own Go names so
				// that the generator level is exercised too)
				n.Set("x-ogen-name", S(fmt.Sprintf("ID%d%c", id, 'A'+i)))
				b.excluded["same-name-schemas-without-x-ogen-name"]++
			}
			b.put(f, idPath, n)
		}
		if C != "" {
			b.put(C, via, O("type", "object", "properties", O("inner", R(C), "again", R(C))))
		}
		vb := O("inner", R(B))
		if C != "" {
			vb.Set("deep", to(B, C, via))
		}
		vb.Set("again", R(B))
		b.put(B, via, O("type", "object", "properties", vb))
		holder := []string{bag, cont, fmt.Sprintf("Holder%d", id)}
		b.put(A, holder, O("type", "object", "properties", O("before", R(A), "via", to(A, B, via), "after", R(A))))
		paths.Set(x, O("get", O("responses", O("200", O("description", "excursion",
			"content", O("application/json", O("schema", O("type", "object", "properties", O("h", to(rootFile, A, holder))))))))))
	case KParam:
		for i, f := range docsUsed {
			b.put(f, idPath, O("name", fmt.Sprintf("q%c%d", 'a'+i, id), "in", "query", "schema", O("type", types[i])))
		}
		ps := A2(R(A), to(A, B, via))
		b.put(B, via, R(B))
		if C != "" {
			b.put(C, via, R(C))
			ps.Items = append(ps.Items, to(A, C, via))
		}
		ok := func() *Node { return O("200", O("description", "ok")) }
		item := O("get", O("parameters", ps, "responses", ok()), "post", O("parameters", A2(R(A)), "responses", ok()))
		b.usePathItem(paths, x, A, bag, id, item)
	case KResponse:
		for i, f := range docsUsed {
			b.put(f, idPath, O("description", fmt.Sprintf("doc %c", 'a'+i), "content", O("application/json", O("schema", O("type", types[i])))))
		}
		b.put(B, via, R(B))
		rs := O("200", R(A), "201", to(A, B, via))
		if C != "" {
			b.put(C, via, R(C))
			rs.Set("202", to(A, C, via))
		}
		rs.Set("203", R(A))
		item := O("get", O("responses", rs), "post", O("responses", O("200", R(A))))
		b.usePathItem(paths, x, A, bag, id, item)
	}
}

// A2 builds an array of nodes.
func A2(items ...*Node) *Node { return &Node{K: 'a', Items: items} }

// usePathItem makes item the path item of template x. When the first document
// A is a definition file the item lives there (its references are relative to
// A) and the root only points to it.
func (b *builder) usePathItem(paths *Node, x, A, bag string, id int, item *Node) {
	if A == rootFile {
		paths.Set(x, item)
		return
	}
	p := []string{bag, containerOf[KPathItem], fmt.Sprintf("PI%d", id)}
	b.put(A, p, item)
	paths.Set(x, O("$ref", makeRef(rootFile, A, p, 0)))
}

// sumTree: an acyclic reference DAG inside a nested sum tree. A plain object
// Base is reachable from two branches of a two- or three-level
// oneOf/anyOf/allOf tree: Pet = oneOf(Cat, Dog), Cat = allOf(Base, {...}),
// Dog = allOf(Base, {...}); deeper: Cat = allOf(MidC, {...}), MidC = allOf(Base,
// {...}); nested sum: Zoo = oneOf|anyOf(Pet, Bird), Bird = allOf(Base, {...}).
func (b *builder) sumTree(paths *Node) {
	id := b.next()
	type sch struct {
		file string
		path []string
	}
	mk := func(prefix string) sch {
		f, p := b.home(KSchema)
		// readable, collision-free Go names: keep the drawn home, replace a plain name
		if p[0] == "components" {
			p = []string{p[0], p[1], fmt.Sprintf("%s%d", prefix, id)}
			if b.docs[f].At(p) != nil {
				p[2] += "x"
			}
		}
		return sch{f, p}
	}
	ref := func(from sch, to sch) *Node { return O("$ref", makeRef(from.file, to.file, to.path, 0)) }
	own := func(field, typ string) *Node {
		n := fmt.Sprintf("%s%d", field, id)
		return O("type", "object", "required", A(n), "properties", O(n, O("type", typ)))
	}
	base := mk("Base")
	b.put(base.file, base.path, O("type", "object", "required", A(fmt.Sprintf("id%d", id)),
		"properties", O(fmt.Sprintf("id%d", id), O("type", "integer"), fmt.Sprintf("tag%d", id), O("type", "string"))))
	deep := b.pct(35, "sumtree-deep")
	branch := func(prefix, field, typ string) sch {
		s := mk(prefix)
		parent := base
		if deep {
			mid := mk("Mid" + prefix)
			b.put(mid.file, mid.path, O("allOf", A(ref(mid, base), own("m"+field, "string"))))
			parent = mid
		}
		b.put(s.file, s.path, O("allOf", A(ref(s, parent), own(field, typ))))
		return s
	}
	cat, dog := branch("Cat", "meow", "string"), branch("Dog", "bark", "integer")
	// ogen implements oneOf over objects; anyOf over objects and a sum directly
	// inside a sum are "not implemented" (both forms must then fail alike), so
	// these get a small share
	topKw := "oneOf"
	if b.pct(12, "sumtree-anyof") {
		topKw = "anyOf"
	}
	pet := mk("Pet")
	b.put(pet.file, pet.path, O(topKw, A(ref(pet, cat), ref(pet, dog))))
	top := pet
	b.tag("sumtree:" + topKw + "-over-allOf")
	if deep {
		b.tag("sumtree:three-levels-allOf")
	}
	switch v := b.u100("sumtree-nesting"); {
	case v < 12:
		bird := branch("Bird", "tweet", "boolean")
		zoo := mk("Zoo")
		kw2 := b.pickS("sumtree-top2", "oneOf", "anyOf")
		b.put(zoo.file, zoo.path, O(kw2, A(ref(zoo, pet), ref(zoo, bird))))
		top = zoo
		b.tag("sumtree:nested-" + kw2 + "-over-" + topKw)
	case v < 45:
		// a third sum level through members: Shelter = oneOf(Owner, Kennel),
		// Owner = {pet: Pet, ...}, Kennel = {pets: [Pet], lead: Cat|Dog branch, ...}
		owner, kennel, shelter := mk("Owner"), mk("Kennel"), mk("Shelter")
		on, kn := fmt.Sprintf("owner%d", id), fmt.Sprintf("kennel%d", id)
		b.put(owner.file, owner.path, O("type", "object", "required", A(on),
			"properties", O(on, O("type", "string"), "pet", ref(owner, pet))))
		b.put(kennel.file, kennel.path, O("type", "object", "required", A(kn),
			"properties", O(kn, O("type", "integer"), "pets", O("type", "array", "items", ref(kennel, pet)), "lead", ref(kennel, dog), "plain", ref(kennel, base))))
		b.put(shelter.file, shelter.path, O("oneOf", A(ref(shelter, owner), ref(shelter, kennel))))
		top = shelter
		b.tag("sumtree:nested-oneOf-through-members")
	}
	root := sch{file: rootFile}
	x := fmt.Sprintf("/t%d", id)
	op := O("requestBody", O("content", O("application/json", O("schema", ref(root, top)))),
		"responses", O("200", O("description", "sum tree", "content", O("application/json",
			O("schema", O("type", "object", "properties", O("pet", ref(root, top), "base", ref(root, base))))))))
	paths.Set(x, O("post", op))
}

// override: a path-item-level parameter overridden by an operation-level
// parameter with the same (name, in). Four spellings: $ref/$ref to different
// components, $ref/inline, inline/$ref, $ref/$ref to the same component. The
// two parameters differ visibly (schema type, required, description); a second
// operation of the path item does not override and inherits the item's one.
func (b *builder) override(paths *Node) {
	id := b.next()
	in := b.pickS("override-in", "query", "query", "header", "cookie")
	name := fmt.Sprintf("ov%d", id)
	opName := name
	if in == "header" {
		name = fmt.Sprintf("X-Ov%d", id)
		opName = name
		if b.pct(40, "override-header-case") {
			// header names are compared case-insensitively
			opName = fmt.Sprintf("x-ov%d", id)
			b.tag("override:header-name-differs-in-case")
		}
	}
	itemParam := func() *Node {
		return O("name", name, "in", in, "description", "item level", "schema", O("type", "string"))
	}
	opParam := func() *Node {
		return O("name", opName, "in", in, "required", true, "description", "operation level", "schema", O("type", "integer"))
	}
	type comp struct {
		file string
		path []string
	}
	mk := func(prefix string, body *Node) comp {
		f, p := b.home(KParam)
		if p[0] == "components" {
			p = []string{p[0], p[1], fmt.Sprintf("%s%d", prefix, id)}
			if b.docs[f].At(p) != nil {
				p[2] += "x"
			}
		}
		b.put(f, p, body)
		return comp{f, p}
	}
	// the path item lives in the root or, as a component, in another document
	itemFile := rootFile
	if len(b.ext) > 0 && b.pct(35, "override-item-in-file") {
		itemFile = b.ext[b.n(0, len(b.ext)-1, "override-item-file")]
		b.tag("override:path-item-in-definition-file")
	}
	ref := func(c comp) *Node {
		style := b.safeStyle([]int{0, 0, 0, 1, 2, 3}[b.n(0, 5, "override-refstyle")], c.file, KParam)
		return O("$ref", makeRef(itemFile, c.file, c.path, style))
	}
	var itemP, opP *Node
	spelling := b.pickS("override-spelling", "ref-ref-different", "ref-ref-different", "ref-inline", "inline-ref", "ref-ref-same")
	switch spelling {
	case "ref-ref-different":
		a, bb := mk("OvItem", itemParam()), mk("OvOp", opParam())
		itemP, opP = ref(a), ref(bb)
	case "ref-inline":
		itemP, opP = ref(mk("OvItem", itemParam())), opParam()
	case "inline-ref":
		itemP, opP = itemParam(), ref(mk("OvOp", opParam()))
	default:
		a := mk("OvItem", itemParam())
		itemP, opP = ref(a), ref(a)
	}
	b.tag("override:" + spelling)
	b.tag("override:in-" + in)
	ok := func() *Node { return O("200", O("description", "ok")) }
	other := O("name", fmt.Sprintf("ox%d", id), "in", "query", "schema", O("type", "boolean"))
	item := O("parameters", A2(itemP, other),
		"get", O("parameters", A2(opP), "responses", ok()),
		"put", O("responses", ok()))
	x := fmt.Sprintf("/o%d", id)
	if itemFile == rootFile {
		paths.Set(x, item)
		return
	}
	p := []string{b.pickS("override-bag", "components", "defs"), containerOf[KPathItem], fmt.Sprintf("OvPI%d", id)}
	b.put(itemFile, p, item)
	paths.Set(x, O("$ref", makeRef(rootFile, itemFile, p, 0)))
}
