package c07

import (
	"bytes"
	"compress/gzip"
	"encoding/base64"
	"encoding/json"
	"io"
	"net/url"
	"fmt"
	"strings"

	"pgregory.net/rapid"
)

// Case is one generated input: a set of documents (root + definition files),
// the sequence of references to replace by copies of their targets, and what
// the generator knows about the case.
type Case struct {
	Files  map[string]json.RawMessage `json:"files"`
	Inline []Site                     `json:"inline,omitempty"`
	// AllowKnown tells that the generator did not steer away from the shapes
	// with known findings (shared header component, shared path item component, ...).
	AllowKnown bool `json:"allow_known,omitempty"`
	// Profile "expand": only features that parser.Expand carries over.
	Profile string `json:"profile,omitempty"`
	// DepthLimit for parser.Settings (0 = default).
	DepthLimit int `json:"depth_limit,omitempty"`
	// Expect describes the expected outcome for the cycle and depth units.
	Expect *Expect `json:"expect,omitempty"`
	// Excluded counts how often the generator avoided a known shape.
	Excluded map[string]int `json:"excluded,omitempty"`
	Tags     []string       `json:"tags,omitempty"`
	// Recipe regenerates a large deterministic case (1000-deep chains) instead of storing it.
	Recipe string `json:"recipe,omitempty"`
}

// Expect is the generator's statement of what a cycle/depth case must yield.
type Expect struct {
	// "error-recursion": located error containing "infinite recursion" (parser level)
	// "gen-recursion":   parser succeeds, generator reports "infinite recursion"
	// "ok":              parser and generator succeed
	// "terminates":      any outcome but a crash/hang; an error must mention recursion
	// "error-depth":     error mentioning the depth limit
	Outcome string `json:"outcome"`
	// Members are the entities on the cycle (file + pointer tokens): the reported
	// position must lie inside one of them.
	Members []Site `json:"members,omitempty"`
	Kind    Kind   `json:"kind,omitempty"`
	Len     int    `json:"len,omitempty"`
}

// caseJSON is the plain wire form of Case.
type caseJSON Case

type packedCase struct {
	Z string `json:"z"` // base64(gzip(plain JSON)): keeps replay files of large specs small
}

// MarshalJSON packs large cases (the framework truncates cases above 4000
// bytes when it stores them, which would make them unreplayable).
func (c Case) MarshalJSON() ([]byte, error) {
	plain, err := json.Marshal(caseJSON(c))
	if err != nil || len(plain) <= 3500 {
		return plain, err
	}
	var buf bytes.Buffer
	zw, _ := gzip.NewWriterLevel(&buf, gzip.BestCompression)
	zw.Write(plain)
	zw.Close()
	return json.Marshal(packedCase{Z: base64.StdEncoding.EncodeToString(buf.Bytes())})
}

func (c *Case) UnmarshalJSON(data []byte) error {
	var p packedCase
	if err := json.Unmarshal(data, &p); err == nil && p.Z != "" {
		raw, err := base64.StdEncoding.DecodeString(p.Z)
		if err != nil {
			return err
		}
		zr, err := gzip.NewReader(bytes.NewReader(raw))
		if err != nil {
			return err
		}
		plain, err := io.ReadAll(zr)
		if err != nil {
			return err
		}
		data = plain
	}
	var cj caseJSON
	if err := json.Unmarshal(data, &cj); err != nil {
		return err
	}
	*c = Case(cj)
	return nil
}

func (c Case) docs() (Docs, error) {
	if c.Recipe != "" {
		return recipeDocs(c.Recipe)
	}
	d := Docs{}
	for f, raw := range c.Files {
		n, err := ParseTree(raw)
		if err != nil {
			return nil, fmt.Errorf("%s: %w", f, err)
		}
		d[f] = n
	}
	if d[rootFile] == nil {
		return nil, fmt.Errorf("no root document")
	}
	return d, nil
}

func caseFromDocs(d Docs) Case {
	c := Case{Files: map[string]json.RawMessage{}}
	for f, n := range d {
		c.Files[f] = Compact(n)
	}
	return c
}

// ---- entities

type ent struct {
	kind  Kind
	file  string
	path  []string
	alias *ent // non-nil: the entity is only a reference to another one
	depth int  // chain length to the concrete entity (1 = concrete)
	body  *Node

	class string // schema: prim | arr | obj | sum
	ptype string // schema prim: JSON type

	pname, pin string   // parameter
	pathParams []string // path item: path parameter names the template must contain

	useNames map[string]bool // names under which the final entity is used (header, pathItem)
	uses     int
	// tainted: a schema that is recursive or contains a recursive schema
	tainted bool
}

func (e *ent) final() *ent {
	for e.alias != nil {
		e = e.alias
	}
	return e
}

type builder struct {
	t        *rapid.T
	docs     Docs
	ext      []string // definition files
	v31      bool
	ents     map[Kind][]*ent
	last     map[Kind]*ent
	ctr      int
	allow    bool
	expand   bool // profile "expand"
	excluded map[string]int
	tags     map[string]bool
	lcg      uint64
	cur      *ent // schema entity under construction
	// taintSeen counts picks of recursive (or recursion-containing) schemas
	taintSeen int
	// safeNames: only names that need no percent-encoding in a URI fragment
	safeNames bool
}

func (b *builder) n(lo, hi int, label string) int {
	if b.t == nil {
		// deterministic stream for hand-made regression cases
		b.lcg = b.lcg*6364136223846793005 + 1442695040888963407
		return lo + int((b.lcg>>33)%uint64(hi-lo+1))
	}
	return rapid.IntRange(lo, hi).Draw(b.t, label)
}
// pct is true with probability of about p percent. rapid's integers are biased
// towards small values, so the draw is scrambled first; the all-zero (fully
// shrunk) draw gives false.
func (b *builder) pct(p int, label string) bool { return b.u100(label) >= 100-p }

// u100 is a roughly uniform number in 0..99 (0 for the fully shrunk draw).
func (b *builder) u100(label string) int {
	var x uint32
	if b.t == nil {
		x = uint32(b.n(0, 1<<30, label))
	} else {
		x = rapid.Uint32().Draw(b.t, label)
	}
	return int((uint64(x) * 2654435761 >> 9) % 100)
}
func (b *builder) next() int                       { b.ctr++; return b.ctr }
func (b *builder) tag(s string)                    { b.tags[s] = true }
func (b *builder) pickS(label string, xs ...string) string {
	return xs[b.n(0, len(xs)-1, label)]
}

var extFiles = []string{"/c07/f1.json", "/c07/sub/f2.json", "/c07/sub/deep/f3.json", "/c07/other dir/f4.json"}

var weirdNames = []string{"a/b", "m~n", "sp ace", "q?x", "h#t", "~01", "x~1y", "c%41d", "50%", "ü", "a.b/c~d e", "{t}", "p|q"}

var namePrefix = map[Kind]string{
	KSchema: "Sch", KParam: "Par", KHeader: "Hdr", KResponse: "Rsp", KReqBody: "Req", KExample: "Exa", KSec: "Sec", KPathItem: "Pit",
}

// home draws where a new entity lives.
func (b *builder) home(k Kind) (string, []string) {
	id := b.next()
	plain := fmt.Sprintf("%s%d", namePrefix[k], id)
	weird := func() string {
		w := weirdNames[b.n(0, len(weirdNames)-1, "weird")]
		// (names with a literal % or that need percent-encoding were excluded
		// while percent-in-name-unescaped-twice / refkey-percent-spelling-not-
		// normalised were open; both are fixed by 9e7ce7cd and generated freely)
		if strings.Contains(w, "%") {
			b.tag("weird-name-percent")
		} else if strings.Contains((&url.URL{Fragment: w}).EscapedFragment(), "%") {
			b.tag("weird-name-needs-percent-encoding")
		}
		if b.expand && !b.allow {
			// known finding: Expand derives component names from the escaped pointer
			b.excluded["expand-escaped-name"]++
			return plain
		}
		b.tag("weird-name")
		return fmt.Sprintf("%s%d", w, id)
	}
	rootComponentsOK := !(k == KPathItem && !b.v31)
	// the same pointer in two different documents: the location part of a
	// reference key matters
	if (k == KSchema || k == KResponse || k == KReqBody) && !b.allow {
		// known finding: two schemas/responses/request bodies with one name in
		// different documents get the same Go type name
	} else if len(b.ext) > 0 && len(b.ents[k]) > 0 && b.pct(15, "same-pointer") {
		o := b.ents[k][b.n(0, len(b.ents[k])-1, "same-pointer-of")]
		if o.path[0] == "components" || o.path[0] == "defs" {
			files := append([]string(nil), b.ext...)
			if o.path[0] == "components" && rootComponentsOK && k != KSec {
				files = append(files, rootFile)
			}
			f := files[b.n(0, len(files)-1, "same-pointer-file")]
			if f != o.file && b.docs[f].At(o.path) == nil {
				b.tag("same-pointer-in-two-files")
				return f, append([]string(nil), o.path...)
			}
		}
	}
	choice := b.u100("home")
	if len(b.ext) == 0 && choice >= 65 {
		choice = choice % 65
	}
	switch {
	case choice < 45 && rootComponentsOK:
		return rootFile, []string{"components", containerOf[k], plain}
	case choice < 65:
		return rootFile, []string{"x-c07", containerOf[k], weird()}
	case choice < 85 && len(b.ext) > 0:
		return b.ext[b.n(0, len(b.ext)-1, "extfile")], []string{"components", containerOf[k], plain}
	case len(b.ext) > 0:
		return b.ext[b.n(0, len(b.ext)-1, "extfile")], []string{"defs", containerOf[k], weird()}
	}
	return rootFile, []string{"x-c07", containerOf[k], weird()}
}

func (b *builder) place(e *ent) {
	doc := b.docs[e.file]
	doc.Obj(e.path[0]).Obj(e.path[1]).Set(e.path[2], e.body)
}

func (b *builder) refTo(fromFile string, e *ent) *Node {
	style := 0
	switch s := b.u100("refstyle"); {
	case s < 72:
	case s < 86:
		style = 1
	case s < 93:
		style = 2
	default:
		style = 3
	}
	style = b.safeStyle(style, e.file, e.kind)
	if style != 0 {
		b.tag(fmt.Sprintf("refstyle-%d", style))
	}
	return O("$ref", makeRef(fromFile, e.file, e.path, style))
}

// safeStyle steers away from a known finding: an absolute-path reference
// ("/c07/root.json#/…") to a non-schema target in the root document is taken
// for a JSON pointer.
func (b *builder) safeStyle(style int, toFile string, k Kind) int {
	if style == 2 && toFile == rootFile && k != KSchema && !b.allow {
		b.excluded["absolute-path-ref-to-root"]++
		return 3
	}
	return style
}

// pick chooses an existing entity of kind k accepted by ok, favouring the one
// used last (this is what makes targets shared between sites).
func (b *builder) pick(k Kind, ok func(*ent) bool) *ent {
	var cands []*ent
	for _, e := range b.ents[k] {
		if ok == nil || ok(e) {
			cands = append(cands, e)
		}
	}
	if len(cands) == 0 {
		return nil
	}
	if l := b.last[k]; l != nil && (ok == nil || ok(l)) && b.pct(45, "reuse-last") {
		return l
	}
	e := cands[b.n(0, len(cands)-1, "pick")]
	b.last[k] = e
	return e
}

// newEnt creates entities of kind k: either an alias of an earlier one (a
// chain) or a concrete body.
func (b *builder) newEnt(k Kind, concrete func(e *ent)) *ent {
	e := &ent{kind: k, depth: 1}
	e.file, e.path = b.home(k)
	if prev := b.ents[k]; len(prev) > 0 && b.pct(36, "alias") {
		t := prev[b.n(0, len(prev)-1, "alias-of")]
		if t.depth < 4 {
			e.alias = t
			e.depth = t.depth + 1
			f := t.final()
			e.class, e.ptype, e.pname, e.pin, e.pathParams = f.class, f.ptype, f.pname, f.pin, f.pathParams
			e.body = b.refTo(e.file, t)
			b.place(e)
			b.ents[k] = append(b.ents[k], e)
			return e
		}
	}
	concrete(e)
	b.place(e)
	b.ents[k] = append(b.ents[k], e)
	return e
}

// ---- schemas

func (b *builder) primSchema(e *ent) *Node {
	typ := b.pickS("ptype", "string", "integer", "number", "boolean", "string")
	n := O("type", typ)
	if e != nil {
		e.class, e.ptype = "prim", typ
	}
	switch typ {
	case "string":
		switch b.n(0, 6, "strflavour") {
		case 0:
			n.Set("format", S(b.pickS("fmt", "uuid", "date-time", "date", "byte")))
		case 1:
			n.Set("enum", A("a", "b", fmt.Sprintf("v%d", b.next())))
		case 2:
			n.Set("minLength", I(1)).Set("maxLength", I(b.n(1, 40, "maxLen")))
		case 3:
			n.Set("pattern", S("^[a-z]+$"))
		}
	case "integer":
		switch b.n(0, 4, "intflavour") {
		case 0:
			n.Set("format", S(b.pickS("ifmt", "int32", "int64")))
		case 1:
			n.Set("minimum", I(b.n(0, 5, "min"))).Set("maximum", I(b.n(5, 100, "max")))
		}
	}
	if b.pct(20, "sdesc") {
		if e != nil && !b.allow {
			// known finding: a property that is a plain $ref does not get the
			// description of the referenced schema
			b.excluded["description-on-referenced-schema"]++
		} else {
			n.Set("description", S(fmt.Sprintf("schema %d", b.next())))
			b.tag("schema-description")
		}
	}
	if !b.expand || b.allow {
		if b.pct(12, "sdefault") {
			b.tag("schema-default")
			switch typ {
			case "string":
				if !n.Has("format") && !n.Has("enum") && !n.Has("pattern") {
					n.Set("default", S("dflt"))
				}
			case "integer":
				if !n.Has("minimum") {
					n.Set("default", I(7))
				}
			case "boolean":
				n.Set("default", Bo(true))
			}
		}
	}
	if b.pct(10, "nullable") {
		n.Set("nullable", Bo(true))
	}
	return n
}

// schemaUse yields a schema for a use site in file: a reference to an entity
// or an inline schema. want: any | prim | primarr | obj.
func (b *builder) schemaUse(file string, depth int, want string) *Node {
	okFor := func(e *ent) bool {
		switch want {
		case "prim":
			return e.class == "prim"
		case "primarr":
			return e.class == "prim" || e.class == "arr"
		case "obj":
			return e.class == "obj"
		}
		return true
	}
	if b.pct(62, "schema-ref") {
		if e := b.pick(KSchema, okFor); e != nil {
			if e.final().tainted {
				b.taintSeen++
				if b.cur != nil {
					b.cur.tainted = true
				}
			}
			return b.refTo(file, e)
		}
	}
	return b.schemaBody(nil, file, depth, want)
}

func (b *builder) schemaBody(e *ent, file string, depth int, want string) *Node {
	kind := "prim"
	switch want {
	case "any":
		kind = b.pickS("sclass", "prim", "obj", "obj", "arr", "sum", "allof", "map")
		if depth >= 2 {
			kind = b.pickS("sclass-deep", "prim", "prim", "arr")
		}
	case "primarr":
		kind = b.pickS("sclass-pa", "prim", "prim", "arr")
	case "obj":
		kind = "obj"
	}
	switch kind {
	case "arr":
		var items *Node
		if want == "primarr" {
			// arrays used by parameters/headers: items are primitive
			items = b.schemaUse(file, depth+1, "prim")
			if e != nil {
				e.class = "arr"
			}
		} else {
			items = b.schemaUse(file, depth+1, "any")
			if e != nil {
				e.class = "arr-any"
			}
		}
		n := O("type", "array", "items", items)
		if b.pct(15, "minItems") {
			n.Set("minItems", I(1))
		}
		return n
	case "obj":
		if e != nil {
			e.class = "obj"
		}
		n := O("type", "object")
		props := O()
		var req []string
		np := b.n(1, 3, "nprops")
		for i := 0; i < np; i++ {
			name := fmt.Sprintf("f%d", b.next())
			before := b.taintSeen
			props.Set(name, b.schemaUse(file, depth+1, "any"))
			if b.pct(50, "required") {
				if b.taintSeen != before && !b.allow {
					// known finding: a required member whose type reaches a recursive
					// schema is reported as infinite recursion when its struct is
					// checked before the cycle has been broken (name order)
					b.excluded["required-member-reaching-recursive-schema"]++
				} else {
					req = append(req, name)
				}
			}
		}
		// the same schema entity once as required and once as optional member
		if t := b.pick(KSchema, func(x *ent) bool { return b.allow || !x.final().tainted }); t != nil && b.pct(25, "req+opt") {
			if t.final().tainted {
				b.taintSeen++
				if b.cur != nil {
					b.cur.tainted = true
				}
			}
			a, o := fmt.Sprintf("f%d", b.next()), fmt.Sprintf("f%d", b.next())
			props.Set(a, b.refTo(file, t)).Set(o, b.refTo(file, t))
			req = append(req, a)
			b.tag("schema-required-and-optional")
		}
		// safe self reference (optional member / array) makes the type recursive
		if e != nil && b.pct(18, "selfref") {
			self := O("$ref", makeRef(file, e.file, e.path, 0))
			name := fmt.Sprintf("f%d", b.next())
			switch b.n(0, 2, "selfedge") {
			case 0:
				props.Set(name, self)
			case 1:
				props.Set(name, O("type", "array", "items", self))
			default:
				props.Set(name, O("type", "object", "additionalProperties", self))
			}
			b.tag("recursive-schema")
			e.tainted = true
		}
		n.Set("properties", props)
		if len(req) > 0 {
			n.Set("required", toNode(req))
		}
		if b.pct(15, "odesc") {
			if e != nil && !b.allow {
				b.excluded["description-on-referenced-schema"]++
			} else {
				n.Set("description", S(fmt.Sprintf("object %d", b.next())))
				b.tag("schema-description")
			}
		}
		return n
	case "map":
		if e != nil {
			e.class = "map"
		}
		return O("type", "object", "additionalProperties", b.schemaUse(file, depth+1, "prim"))
	case "sum":
		if e != nil {
			e.class = "sum"
		}
		// variants of pairwise different JSON types so that the generator can tell them apart
		types := []string{"string", "integer", "boolean"}
		nv := b.n(2, 3, "nvariants")
		var vs []any
		for i := 0; i < nv; i++ {
			typ := types[i]
			if t := b.pick(KSchema, func(x *ent) bool { return x.class == "prim" && x.ptype == typ }); t != nil && b.pct(55, "variant-ref") {
				vs = append(vs, b.refTo(file, t))
			} else {
				vs = append(vs, O("type", typ))
			}
		}
		return O(b.pickS("sumkw", "oneOf", "oneOf", "anyOf"), A(vs...))
	case "allof":
		if e != nil {
			e.class = "obj"
		}
		var parts []any
		used := map[*ent]bool{}
		for i := 0; i < 2; i++ {
			if t := b.pick(KSchema, func(x *ent) bool {
				if x.final().tainted && !b.allow {
					// known finding: merging two allOf members that contain the same
					// recursive schema never terminates (fatal stack overflow)
					b.excluded["allof-over-recursive-schema"]++
					return false
				}
				return x.class == "obj" && !used[x.final()]
			}); t != nil && b.pct(60, "allof-ref") {
				used[t.final()] = true
				if b.cur != nil && t.final().tainted {
					b.cur.tainted = true
				}
				parts = append(parts, b.refTo(file, t))
			} else {
				parts = append(parts, O("type", "object", "properties", O(fmt.Sprintf("f%d", b.next()), b.primSchema(nil))))
			}
		}
		b.tag("allOf")
		return O("allOf", A(parts...))
	}
	return b.primSchema(e)
}

// ---- examples, media types

func (b *builder) exampleValue() *Node {
	switch b.n(0, 2, "exval") {
	case 0:
		return S(fmt.Sprintf("ex%d", b.next()))
	case 1:
		return I(b.next())
	}
	return O("k", I(b.next()))
}

func (b *builder) exampleUse(file string) *Node {
	if e := b.pick(KExample, nil); e != nil && b.pct(70, "example-ref") {
		return b.refTo(file, e)
	}
	return O("summary", fmt.Sprintf("s%d", b.next()), "value", b.exampleValue())
}

func (b *builder) media(file string, want string) *Node {
	m := O("schema", b.schemaUse(file, 0, want))
	if b.expand && !b.allow {
		return m
	}
	if _, isRef := refOf(m.Get("schema")); isRef && !b.allow {
		// known finding: media type examples are appended to the referenced
		// (shared) schema object
		if b.pct(37, "examples") {
			b.excluded["media-example-on-referenced-schema"]++
		}
		return m
	}
	if b.pct(30, "examples") {
		exs := O()
		for i, n := 0, b.n(1, 2, "nexamples"); i < n; i++ {
			exs.Set(fmt.Sprintf("e%d", b.next()), b.exampleUse(file))
		}
		m.Set("examples", exs)
		b.tag("media-examples")
	} else if b.pct(10, "example") {
		m.Set("example", b.exampleValue())
		b.tag("media-examples")
	}
	return m
}

// ---- headers, parameters

func (b *builder) paramLike(file string, n *Node) *Node {
	if b.pct(10, "param-content") {
		n.Set("content", O("application/json", b.media(file, "any")))
		b.tag("param-content")
	} else {
		n.Set("schema", b.schemaUse(file, 1, "primarr"))
	}
	if b.pct(25, "pdesc") {
		n.Set("description", S(fmt.Sprintf("d%d", b.next())))
	}
	if b.pct(10, "deprecated") {
		n.Set("deprecated", Bo(true))
	}
	return n
}

func (b *builder) headerBody(file string) *Node {
	n := O()
	if b.pct(40, "hrequired") {
		n.Set("required", Bo(true))
	}
	return b.paramLike(file, n)
}

// headerUse returns the header object for a site with the given header name.
func (b *builder) headerUse(file, name string) *Node {
	if !b.pct(70, "header-ref") {
		return b.headerBody(file)
	}
	e := b.pick(KHeader, nil)
	if e == nil {
		return b.headerBody(file)
	}
	f := e.final()
	// (one header component under several names was excluded while
	// header-ref-cached-name was open; fixed by c40238d7, generated freely)
	f.useNames[strings.ToLower(name)] = true
	return b.refTo(file, e)
}

func (b *builder) paramBody(e *ent, file string, in string) *Node {
	name := fmt.Sprintf("p%d", b.next())
	if in == "header" {
		name = fmt.Sprintf("X-P%d", b.ctr)
	}
	if e != nil {
		e.pname, e.pin = name, in
	}
	n := O("name", name, "in", in)
	if in == "path" {
		n.Set("required", Bo(true))
		n.Set("schema", b.schemaUse(file, 1, "prim"))
		return n
	}
	if in == "cookie" {
		// form/explode cookies carry primitives only
		if b.pct(40, "prequired") {
			n.Set("required", Bo(true))
		}
		n.Set("schema", b.schemaUse(file, 1, "prim"))
		return n
	}
	if b.pct(40, "prequired") {
		n.Set("required", Bo(true))
	}
	return b.paramLike(file, n)
}

type opScope struct {
	params map[*ent]bool
}

// paramUse yields a non-path parameter for an operation or path item.
func (b *builder) paramUse(file string, sc *opScope) *Node {
	if b.pct(65, "param-ref") {
		if e := b.pick(KParam, func(e *ent) bool { return e.pin != "path" && !sc.params[e.final()] }); e != nil {
			sc.params[e.final()] = true
			return b.refTo(file, e)
		}
	}
	return b.paramBody(nil, file, b.pickS("pin", "query", "query", "header", "cookie"))
}

// ---- request bodies, responses

func (b *builder) reqBodyBody(file string) *Node {
	n := O()
	if b.pct(50, "rbrequired") {
		n.Set("required", Bo(true))
	}
	if b.pct(30, "rbdesc") {
		n.Set("description", S(fmt.Sprintf("body %d", b.next())))
	}
	n.Set("content", O("application/json", b.media(file, "any")))
	return n
}

func (b *builder) reqBodyUse(file string) *Node {
	if e := b.pick(KReqBody, nil); e != nil && b.pct(65, "reqbody-ref") {
		return b.refTo(file, e)
	}
	return b.reqBodyBody(file)
}

func (b *builder) responseBody(file string) *Node {
	n := O("description", fmt.Sprintf("resp %d", b.next()))
	if b.pct(55, "rheaders") {
		hs := O()
		for i, k := 0, b.n(1, 3, "nheaders"); i < k; i++ {
			name := fmt.Sprintf("X-H%d", b.next())
			if b.pct(20, "lowercase-header") {
				name = strings.ToLower(name)
			}
			hs.Set(name, b.headerUse(file, name))
		}
		n.Set("headers", hs)
	}
	if b.pct(65, "rcontent") {
		m := b.media(file, "any")
		if !b.allow {
			// known finding: the wrapper type of a response with headers/status code
			// is named after the content type, so two responses whose top-level
			// schema is the same component (or the same generic type) collide
			sc := m.Get("schema")
			if _, isRef := refOf(sc); isRef || sc.Has("nullable") {
				b.excluded["response-top-level-schema-ref"]++
				m.Set("schema", O("type", "object", "properties", O(fmt.Sprintf("f%d", b.next()), sc)))
			}
		}
		n.Set("content", O("application/json", m))
	}
	return n
}

func (b *builder) responseUse(file, code string) *Node {
	if e := b.pick(KResponse, nil); e != nil && b.pct(65, "response-ref") {
		f := e.final()
		cls := "code"
		if isPatternCode(code) {
			cls = "pattern"
		}
		if !b.allow && len(f.useNames) > 0 && !f.useNames[cls] {
			// known finding: the generator builds the response type of a component
			// once, with or without the StatusCode field
			b.excluded["response-under-code-and-pattern"]++
			return b.responseBody(file)
		}
		f.useNames[cls] = true
		return b.refTo(file, e)
	}
	return b.responseBody(file)
}

// ---- security

func (b *builder) secBody() *Node {
	switch b.n(0, 2, "sectype") {
	case 0:
		return O("type", "apiKey", "name", fmt.Sprintf("k%d", b.next()), "in", b.pickS("secin", "header", "query", "cookie"))
	case 1:
		return O("type", "http", "scheme", "basic")
	}
	return O("type", "http", "scheme", "bearer")
}

func (b *builder) securityReq(names []string) *Node {
	if len(names) == 0 {
		return nil
	}
	switch b.n(0, 3, "secreq") {
	case 0:
		return A()
	case 1:
		return A(O(names[b.n(0, len(names)-1, "secname")], A()))
	case 2:
		o := O()
		for _, n := range names {
			if b.pct(60, "secand") || len(o.Keys) == 0 {
				o.Set(n, A())
			}
		}
		return A(o)
	}
	var alts []any
	for _, n := range names {
		alts = append(alts, O(n, A()))
	}
	return A(alts...)
}

// ---- operations, path items

var codes = []string{"200", "201", "404", "default", "4XX"}

func (b *builder) operation(file, method string, sc *opScope, secNames []string, opID bool) *Node {
	op := O()
	if opID && b.pct(50, "opid") {
		op.Set("operationId", S(fmt.Sprintf("op%d", b.next())))
	}
	if b.pct(20, "opdesc") {
		op.Set("description", S(fmt.Sprintf("operation %d", b.next())))
	}
	if k := b.n(0, 3, "nparams"); k > 0 {
		ps := A()
		for i := 0; i < k; i++ {
			ps.Items = append(ps.Items, b.paramUse(file, sc))
		}
		op.Set("parameters", ps)
	}
	if method != "get" && method != "delete" && b.pct(75, "has-body") {
		op.Set("requestBody", b.reqBodyUse(file))
	}
	rs := O()
	start := b.n(0, len(codes)-1, "code0")
	for i, k := 0, b.n(1, 3, "nresponses"); i < k; i++ {
		code := codes[(start+i)%len(codes)]
		rs.Set(code, b.responseUse(file, code))
	}
	op.Set("responses", rs)
	if file == rootFile || true {
		if sec := b.securityReq(secNames); sec != nil && b.pct(35, "op-security") {
			op.Set("security", sec)
		}
	}
	return op
}

func (b *builder) pathItemBody(e *ent, file string, secNames []string, opID, allowPathParams bool) (*Node, []string) {
	item := O()
	sc := &opScope{params: map[*ent]bool{}}
	var pathParams []string
	ps := A()
	if allowPathParams {
		for i, k := 0, b.n(0, 2, "npathparams"); i < k; i++ {
			if t := b.pick(KParam, func(x *ent) bool { return x.pin == "path" && !sc.params[x.final()] }); t != nil && b.pct(65, "pathparam-ref") {
				sc.params[t.final()] = true
				ps.Items = append(ps.Items, b.refTo(file, t))
				pathParams = append(pathParams, t.pname)
			} else {
				p := b.paramBody(nil, file, "path")
				ps.Items = append(ps.Items, p)
				pathParams = append(pathParams, p.Str("name"))
			}
		}
	}
	if b.pct(30, "item-params") {
		ps.Items = append(ps.Items, b.paramUse(file, sc))
	}
	if len(ps.Items) > 0 {
		item.Set("parameters", ps)
	}
	methods := []string{"get", "post", "put", "delete"}
	start := b.n(0, 3, "method0")
	for i, k := 0, b.n(1, 2, "nmethods"); i < k; i++ {
		m := methods[(start+i)%4]
		item.Set(m, b.operation(file, m, sc, secNames, opID))
	}
	if e != nil {
		e.pathParams = pathParams
	}
	return item, pathParams
}

func template(idx int, pathParams []string) string {
	var sb strings.Builder
	fmt.Fprintf(&sb, "/r%d", idx)
	for i, p := range pathParams {
		if i%2 == 1 {
			sb.WriteString("/s")
		}
		sb.WriteString("/{" + p + "}")
	}
	return sb.String()
}

// drawCase generates one spec with a random reference graph and draws which
// references to inline.
func drawCase(t *rapid.T, profile string) Case {
	b := &builder{
		t: t, docs: Docs{}, ents: map[Kind][]*ent{}, last: map[Kind]*ent{},
		excluded: map[string]int{}, tags: map[string]bool{}, expand: profile == "expand",
	}
	b.v31 = b.pct(55, "v31")
	b.allow = b.pct(25, "allow-known")
	version := "3.0.3"
	if b.v31 {
		version = "3.1.0"
	}
	root := O("openapi", version, "info", O("title", "c07", "version", "1.0.0"))
	b.docs[rootFile] = root
	for i, k := 0, b.n(0, 3, "nfiles"); i < k; i++ {
		f := extFiles[i]
		b.ext = append(b.ext, f)
		b.docs[f] = O()
	}
	paths := O()
	root.Set("paths", paths)

	// entities, in dependency order
	for i, k := 0, b.n(0, 2, "nexamples-ent"); i < k && (!b.expand || b.allow); i++ {
		b.newEnt(KExample, func(e *ent) { e.body = O("summary", fmt.Sprintf("s%d", b.next()), "value", b.exampleValue()) })
	}
	for i, k := 0, b.n(1, 5, "nschemas"); i < k; i++ {
		b.newEnt(KSchema, func(e *ent) {
			want := "any"
			if i == 0 || b.pct(35, "force-prim") {
				want = "primarr"
			}
			b.cur = e
			e.body = b.schemaBody(e, e.file, 0, want)
			b.cur = nil
		})
	}
	for i, k := 0, b.n(0, 3, "nheaders-ent"); i < k; i++ {
		b.newEnt(KHeader, func(e *ent) { e.useNames = map[string]bool{}; e.body = b.headerBody(e.file) })
	}
	for i, k := 0, b.n(0, 4, "nparams-ent"); i < k; i++ {
		b.newEnt(KParam, func(e *ent) {
			e.body = b.paramBody(e, e.file, b.pickS("pin-ent", "query", "query", "header", "cookie", "path"))
		})
	}
	for i, k := 0, b.n(0, 2, "nreqbodies-ent"); i < k; i++ {
		b.newEnt(KReqBody, func(e *ent) { e.body = b.reqBodyBody(e.file) })
	}
	for i, k := 0, b.n(0, 3, "nresponses-ent"); i < k; i++ {
		b.newEnt(KResponse, func(e *ent) { e.useNames = map[string]bool{}; e.body = b.responseBody(e.file) })
	}
	// security: names live in the root components; each is concrete or a
	// reference to a scheme defined elsewhere (or to another name)
	var secNames []string
	for i, k := 0, b.n(0, 3, "nsec"); i < k; i++ {
		name := fmt.Sprintf("sec%d", b.next())
		var body *Node
		if b.pct(60, "sec-ref") {
			var target *ent
			if prev := b.ents[KSec]; len(prev) > 0 && b.pct(55, "sec-shared") {
				target = prev[b.n(0, len(prev)-1, "sec-target")]
			} else {
				target = b.newEnt(KSec, func(e *ent) { e.body = b.secBody() })
			}
			body = b.refTo(rootFile, target)
		} else {
			body = b.secBody()
		}
		root.Obj("components").Obj("securitySchemes").Set(name, body)
		// the named entry can itself be the target of a later entry
		b.ents[KSec] = append(b.ents[KSec], &ent{kind: KSec, file: rootFile, path: []string{"components", "securitySchemes", name}, depth: 2, body: body})
		secNames = append(secNames, name)
	}
	if len(secNames) > 0 && b.pct(40, "root-security") {
		root.Set("security", b.securityReq(secNames))
	}
	for i, k := 0, b.n(0, 2, "npathitems-ent"); i < k; i++ {
		b.newEnt(KPathItem, func(e *ent) {
			e.body, _ = b.pathItemBody(e, e.file, secNames, false, b.pct(60, "pi-pathparams"))
		})
	}

	// paths
	np := b.n(1, 3, "npaths")
	for i := 0; i < np; i++ {
		if b.pct(55, "pathitem-ref") {
			if e := b.pick(KPathItem, nil); e != nil {
				f := e.final()
				if !b.allow && f.uses > 0 {
					b.excluded["shared-path-item"]++
				} else {
					f.uses++
					paths.Set(template(i, f.pathParams), b.refTo(rootFile, e))
					continue
				}
			}
		}
		item, pp := b.pathItemBody(nil, rootFile, secNames, true, true)
		paths.Set(template(i, pp), item)
	}
	// structured shapes (gadgets.go)
	if b.pct(30, "excursion") {
		b.excursion(paths)
	}
	if b.pct(25, "sumtree") {
		b.sumTree(paths)
	}
	if b.pct(30, "override") {
		b.override(paths)
	}
	if b.v31 && b.pct(25, "webhook") {
		name := fmt.Sprintf("hook%d", b.next())
		done := false
		if e := b.pick(KPathItem, func(e *ent) bool { return len(e.pathParams) == 0 }); e != nil && b.pct(50, "webhook-ref") {
			f := e.final()
			if !b.allow && f.uses > 0 {
				b.excluded["shared-path-item"]++
			} else {
				f.uses++
				root.Obj("webhooks").Set(name, b.refTo(rootFile, e))
				done = true
			}
		}
		if !done {
			item, _ := b.pathItemBody(nil, rootFile, secNames, true, false)
			root.Obj("webhooks").Set(name, item)
		}
		b.tag("webhook")
	}
	// keep "components" and the extension bag after "paths" or before it: order
	// of members must not matter
	if b.pct(50, "components-first") {
		reorderFirst(root, "openapi", "info", "components", "x-c07")
	}

	c := caseFromDocs(b.docs)
	c.AllowKnown = b.allow
	c.Profile = profile
	if len(b.excluded) > 0 {
		c.Excluded = b.excluded
	}
	for tg := range b.tags {
		c.Tags = append(c.Tags, tg)
	}
	sortStrings(c.Tags)

	if profile == "expand" {
		return c
	}
	// inlining choice
	work := b.docs.Clone()
	mode := b.u100("inline-mode")
	limit := 1
	switch {
	case mode < 35:
		limit = 120 // everything
		c.Tags = append(c.Tags, "inline-all")
	case mode < 80:
		limit = b.n(1, 8, "inline-steps")
		c.Tags = append(c.Tags, "inline-subset")
	default:
		c.Tags = append(c.Tags, "inline-one")
	}
	if limit == 120 {
		gr := buildGraph(work)
		for _, i := range gr.inlineAllOrder() {
			s := gr.Sites[i]
			site := Site{File: s.File, Path: s.Path, Kind: s.Kind}
			if err := inlineSite(work, site); err != nil {
				panic("generator: " + err.Error())
			}
			c.Inline = append(c.Inline, site)
		}
		return c
	}
	for step := 0; step < limit; step++ {
		gr := buildGraph(work)
		inl := gr.Inlinable()
		if len(inl) == 0 {
			break
		}
		s := gr.Sites[inl[b.n(0, len(inl)-1, "inline-pick")]]
		site := Site{File: s.File, Path: s.Path, Kind: s.Kind}
		if err := inlineSite(work, site); err != nil {
			panic("generator: " + err.Error())
		}
		c.Inline = append(c.Inline, site)
	}
	return c
}

func reorderFirst(n *Node, keys ...string) {
	var ks []string
	var vs []*Node
	for _, k := range keys {
		if v := n.Get(k); v != nil {
			ks = append(ks, k)
			vs = append(vs, v)
		}
	}
	for i, k := range n.Keys {
		found := false
		for _, k2 := range ks {
			if k2 == k {
				found = true
			}
		}
		if !found {
			ks = append(ks, k)
			vs = append(vs, n.Vals[i])
		}
	}
	n.Keys, n.Vals = ks, vs
}

func sortStrings(s []string) {
	for i := 1; i < len(s); i++ {
		for j := i; j > 0 && s[j] < s[j-1]; j-- {
			s[j], s[j-1] = s[j-1], s[j]
		}
	}
}
