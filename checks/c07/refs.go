package c07

import (
	"fmt"
	"net/url"
	"path"
	"sort"
	"strings"
)

// Kind is a component kind of the OpenAPI document.
type Kind string

const (
	KSchema   Kind = "schema"
	KParam    Kind = "parameter"
	KHeader   Kind = "header"
	KResponse Kind = "response"
	KReqBody  Kind = "requestBody"
	KExample  Kind = "example"
	KSec      Kind = "securityScheme"
	KPathItem Kind = "pathItem"
)

var allKinds = []Kind{KSchema, KParam, KHeader, KResponse, KReqBody, KExample, KSec, KPathItem}

var containerOf = map[Kind]string{
	KSchema: "schemas", KParam: "parameters", KHeader: "headers", KResponse: "responses",
	KReqBody: "requestBodies", KExample: "examples", KSec: "securitySchemes", KPathItem: "pathItems",
}

var kindOfContainer = func() map[string]Kind {
	m := map[string]Kind{}
	for k, c := range containerOf {
		m[c] = k
	}
	return m
}()

// bags are the top-level members of a document that hold named entities as
// <bag>/<container>/<name>: the standard "components", an extension member of
// the root ("x-c07", names there are not restricted by the components key
// pattern) and "defs" in definition files.
var bags = []string{"components", "x-c07", "defs"}

const rootFile = "/c07/root.json"

// Docs maps an absolute file path to its document.
type Docs map[string]*Node

func (d Docs) Clone() Docs {
	c := Docs{}
	for k, v := range d {
		c[k] = v.Clone()
	}
	return c
}

func (d Docs) files() []string {
	var fs []string
	for f := range d {
		fs = append(fs, f)
	}
	sort.Strings(fs)
	return fs
}

// RefSite is one reference object in a document.
type RefSite struct {
	File string
	Path []string
	Kind Kind
	Ref  string
	Node *Node
}

func (s RefSite) key() string { return s.File + "#" + ptrString(s.Path) }

// Name is the name under which the site uses its target (header name, status
// code, path template, property name, ...): the last token of its location.
func (s RefSite) Name() string {
	if len(s.Path) == 0 {
		return ""
	}
	return s.Path[len(s.Path)-1]
}

// isAlias reports whether the site is a named entity that is itself only a
// reference (<bag>/<container>/<name>), as opposed to a use inside a path
// item, operation, response, schema, ...
func (s RefSite) isAlias() bool {
	if len(s.Path) != 3 {
		return false
	}
	for _, b := range bags {
		if s.Path[0] == b {
			return true
		}
	}
	return false
}

func refOf(n *Node) (string, bool) {
	if n == nil || n.K != 'o' {
		return "", false
	}
	r := n.Get("$ref")
	if r == nil || r.K != 's' {
		return "", false
	}
	return r.S, true
}

// ---- RFC 6901 / RFC 3986 helpers (written from the RFCs, net/url for URI work)

func escapeToken(t string) string {
	t = strings.ReplaceAll(t, "~", "~0")
	return strings.ReplaceAll(t, "/", "~1")
}

func unescapeToken(t string) string {
	t = strings.ReplaceAll(t, "~1", "/")
	return strings.ReplaceAll(t, "~0", "~")
}

func ptrString(tokens []string) string {
	var b strings.Builder
	for _, t := range tokens {
		b.WriteByte('/')
		b.WriteString(escapeToken(t))
	}
	return b.String()
}

func fileURL(file string) *url.URL { return &url.URL{Scheme: "file", Path: file} }

// resolveRef resolves a reference string found in file against that file.
func resolveRef(file, ref string) (string, []string, error) {
	u, err := fileURL(file).Parse(ref)
	if err != nil {
		return "", nil, err
	}
	frag := u.Fragment // percent-decoded once (RFC 6901 §6)
	var tokens []string
	if frag != "" {
		if frag[0] != '/' {
			return "", nil, fmt.Errorf("pointer %q does not start with /", frag)
		}
		for _, t := range strings.Split(frag[1:], "/") {
			tokens = append(tokens, unescapeToken(t))
		}
	}
	return u.Path, tokens, nil
}

func relPath(from, to string) string {
	fd := strings.Split(strings.Trim(path.Dir(from), "/"), "/")
	tp := strings.Split(strings.Trim(to, "/"), "/")
	i := 0
	for i < len(fd) && i < len(tp)-1 && fd[i] == tp[i] {
		i++
	}
	return strings.Repeat("../", len(fd)-i) + strings.Join(tp[i:], "/")
}

// makeRef builds a reference string usable inside fromFile that designates
// tokens in toFile. style: 0 shortest relative form, 1 relative with "./" (or
// the own file name for a same-document reference), 2 absolute path, 3 file URL.
func makeRef(fromFile, toFile string, tokens []string, style int) string {
	frag := (&url.URL{Fragment: ptrString(tokens)}).EscapedFragment()
	var loc string
	switch {
	case style == 2:
		loc = (&url.URL{Path: toFile}).EscapedPath()
	case style == 3:
		loc = fileURL(toFile).String()
	case fromFile == toFile && style == 0:
		loc = ""
	case fromFile == toFile:
		loc = path.Base(toFile)
	case style == 1:
		loc = "./" + relPath(fromFile, toFile)
		if strings.HasPrefix(loc, "./../") {
			loc = loc[2:]
		}
	default:
		loc = relPath(fromFile, toFile)
	}
	return loc + "#" + frag
}

// ---- structure-guided walk: visits every reference object that OpenAPI
// defines (it never looks inside example values, defaults or enums).

type walker struct {
	file  string
	visit func(RefSite)
}

func (w *walker) ref(n *Node, p []string, k Kind) bool {
	r, ok := refOf(n)
	if !ok {
		return false
	}
	w.visit(RefSite{File: w.file, Path: append([]string(nil), p...), Kind: k, Ref: r, Node: n})
	return true
}

func (w *walker) node(k Kind, n *Node, p []string) {
	if n == nil || n.K != 'o' {
		return
	}
	if w.ref(n, p, k) {
		return
	}
	each := func(member string, f func(c *Node, p []string)) {
		c := n.Get(member)
		if c == nil {
			return
		}
		switch c.K {
		case 'o':
			for i, key := range c.Keys {
				f(c.Vals[i], append(append([]string(nil), p...), member, key))
			}
		case 'a':
			for i, it := range c.Items {
				f(it, append(append([]string(nil), p...), member, fmt.Sprint(i)))
			}
		}
	}
	one := func(member string, k2 Kind) {
		if c := n.Get(member); c != nil {
			w.node(k2, c, append(append([]string(nil), p...), member))
		}
	}
	sub := func(k2 Kind) func(*Node, []string) {
		return func(c *Node, p []string) { w.node(k2, c, p) }
	}
	switch k {
	case KPathItem:
		each("parameters", sub(KParam))
		for _, m := range []string{"get", "put", "post", "delete", "options", "head", "patch", "trace"} {
			if o := n.Get(m); o != nil {
				w.operation(o, append(append([]string(nil), p...), m))
			}
		}
	case KParam, KHeader:
		one("schema", KSchema)
		each("content", w.media)
	case KResponse:
		each("headers", sub(KHeader))
		each("content", w.media)
	case KReqBody:
		each("content", w.media)
	case KExample, KSec:
	case KSchema:
		each("properties", sub(KSchema))
		each("oneOf", sub(KSchema))
		each("anyOf", sub(KSchema))
		each("allOf", sub(KSchema))
		one("items", KSchema)
		one("additionalProperties", KSchema)
	}
}

func (w *walker) operation(n *Node, p []string) {
	if n == nil || n.K != 'o' {
		return
	}
	if ps := n.Get("parameters"); ps != nil {
		for i, it := range ps.Items {
			w.node(KParam, it, append(append([]string(nil), p...), "parameters", fmt.Sprint(i)))
		}
	}
	if rb := n.Get("requestBody"); rb != nil {
		w.node(KReqBody, rb, append(append([]string(nil), p...), "requestBody"))
	}
	if rs := n.Get("responses"); rs != nil && rs.K == 'o' {
		for i, code := range rs.Keys {
			w.node(KResponse, rs.Vals[i], append(append([]string(nil), p...), "responses", code))
		}
	}
}

func (w *walker) media(n *Node, p []string) {
	if n == nil || n.K != 'o' {
		return
	}
	if s := n.Get("schema"); s != nil {
		w.node(KSchema, s, append(append([]string(nil), p...), "schema"))
	}
	if ex := n.Get("examples"); ex != nil && ex.K == 'o' {
		for i, name := range ex.Keys {
			w.node(KExample, ex.Vals[i], append(append([]string(nil), p...), "examples", name))
		}
	}
	if enc := n.Get("encoding"); enc != nil && enc.K == 'o' {
		for i, prop := range enc.Keys {
			if hs := enc.Vals[i].Get("headers"); hs != nil && hs.K == 'o' {
				for j, hn := range hs.Keys {
					w.node(KHeader, hs.Vals[j], append(append([]string(nil), p...), "encoding", prop, "headers", hn))
				}
			}
		}
	}
}

// walkDoc visits every reference site of one document.
func walkDoc(file string, doc *Node, visit func(RefSite)) {
	w := &walker{file: file, visit: visit}
	if doc == nil || doc.K != 'o' {
		return
	}
	for _, m := range []string{"paths", "webhooks"} {
		if c := doc.Get(m); c != nil && c.K == 'o' {
			for i, key := range c.Keys {
				w.node(KPathItem, c.Vals[i], []string{m, key})
			}
		}
	}
	for _, bag := range bags {
		b := doc.Get(bag)
		if b == nil || b.K != 'o' {
			continue
		}
		for i, cname := range b.Keys {
			k, ok := kindOfContainer[cname]
			if !ok || b.Vals[i].K != 'o' {
				continue
			}
			for j, name := range b.Vals[i].Keys {
				w.node(k, b.Vals[i].Vals[j], []string{bag, cname, name})
			}
		}
	}
}

func allSites(docs Docs) []RefSite {
	var out []RefSite
	for _, f := range docs.files() {
		walkDoc(f, docs[f], func(s RefSite) { out = append(out, s) })
	}
	return out
}

func hasPrefix(p, prefix []string) bool {
	if len(prefix) > len(p) {
		return false
	}
	for i := range prefix {
		if p[i] != prefix[i] {
			return false
		}
	}
	return true
}

// Graph is the reference graph of a document set.
type Graph struct {
	Docs  Docs
	Sites []RefSite
	// target of each site (index-aligned with Sites)
	TFile   []string
	TTokens [][]string
	TNode   []*Node
	adj     [][]int // site -> sites inside its target
}

func buildGraph(docs Docs) *Graph {
	g := &Graph{Docs: docs, Sites: allSites(docs)}
	for _, s := range g.Sites {
		f, t, err := resolveRef(s.File, s.Ref)
		var n *Node
		if err == nil {
			if d := docs[f]; d != nil {
				n = d.At(t)
			}
		}
		g.TFile = append(g.TFile, f)
		g.TTokens = append(g.TTokens, t)
		g.TNode = append(g.TNode, n)
	}
	return g
}

// within returns the indices of the sites located inside the subtree (file, tokens).
func (g *Graph) within(file string, tokens []string) []int {
	var out []int
	for i, s := range g.Sites {
		if s.File == file && hasPrefix(s.Path, tokens) {
			out = append(out, i)
		}
	}
	return out
}

// Recursive reports whether site i lies on a reference cycle: following
// references from its target leads back to the site itself.
func (g *Graph) Recursive(i int) bool {
	if g.adj == nil {
		g.adj = make([][]int, len(g.Sites))
		for j := range g.Sites {
			if g.TNode[j] != nil {
				g.adj[j] = g.within(g.TFile[j], g.TTokens[j])
			}
		}
	}
	seen := make([]bool, len(g.Sites))
	stack := append([]int(nil), g.adj[i]...)
	for len(stack) > 0 {
		j := stack[len(stack)-1]
		stack = stack[:len(stack)-1]
		if j == i {
			return true
		}
		if seen[j] {
			continue
		}
		seen[j] = true
		stack = append(stack, g.adj[j]...)
	}
	return false
}

// Final follows a chain of reference objects from site i to the first target
// that is not itself a reference. It returns the key of that target, the
// number of hops and whether the chain crossed a file boundary; ok is false
// for a dangling or cyclic chain.
func (g *Graph) Final(i int) (key string, hops int, crossFile bool, ok bool) {
	file, tokens, node := g.TFile[i], g.TTokens[i], g.TNode[i]
	cur := g.Sites[i].File
	for hops = 1; hops <= 64; hops++ {
		if node == nil {
			return "", hops, crossFile, false
		}
		if file != cur {
			crossFile = true
		}
		r, isRef := refOf(node)
		if !isRef {
			return file + "#" + ptrString(tokens), hops, crossFile, true
		}
		f2, t2, err := resolveRef(file, r)
		if err != nil {
			return "", hops, crossFile, false
		}
		cur = file
		file, tokens = f2, t2
		node = nil
		if d := g.Docs[f2]; d != nil {
			node = d.At(t2)
		}
	}
	return "", hops, crossFile, false
}

// Inlinable lists the sites that may be replaced by a copy of their target:
// resolvable and not on a cycle.
func (g *Graph) Inlinable() []int {
	var out []int
	for i := range g.Sites {
		if g.TNode[i] != nil && !g.Recursive(i) {
			out = append(out, i)
		}
	}
	return out
}

// Site identifies a reference object inside a case.
type Site struct {
	File string   `json:"file"`
	Path []string `json:"path"`
	Kind Kind     `json:"kind,omitempty"`
}

// inlineSite replaces the reference object at site by a deep copy of its
// target; references inside the copy are re-expressed relative to the file the
// copy now lives in, so they designate the same targets as before.
func inlineSite(docs Docs, site Site) error {
	doc := docs[site.File]
	if doc == nil {
		return fmt.Errorf("no document %s", site.File)
	}
	node := doc.At(site.Path)
	ref, ok := refOf(node)
	if !ok {
		return fmt.Errorf("no reference object at %s#%s", site.File, ptrString(site.Path))
	}
	kind := site.Kind
	if kind == "" {
		// hand-made cases: find the kind by walking the document
		walkDoc(site.File, doc, func(s RefSite) {
			if s.Node == node {
				kind = s.Kind
			}
		})
		if kind == "" {
			return fmt.Errorf("%s#%s is not a reference position", site.File, ptrString(site.Path))
		}
	}
	from, tokens, err := resolveRef(site.File, ref)
	if err != nil {
		return err
	}
	var target *Node
	if d := docs[from]; d != nil {
		target = d.At(tokens)
	}
	if target == nil {
		return fmt.Errorf("dangling reference %q", ref)
	}
	if target == node {
		return fmt.Errorf("self reference %q", ref)
	}
	cp := target.Clone()
	var rewriteErr error
	w := &walker{file: from, visit: func(s RefSite) {
		f, t, err := resolveRef(from, s.Ref)
		if err != nil {
			rewriteErr = err
			return
		}
		s.Node.Set("$ref", S(makeRef(site.File, f, t, 0)))
	}}
	w.node(kind, cp, nil)
	if rewriteErr != nil {
		return rewriteErr
	}
	node.Replace(cp)
	return nil
}

// inlineAllOrder lists the inlinable sites of g so that the references inside
// a target come before the references to it: applied in this order every site
// is replaced by a copy that contains only recursive references.
func (g *Graph) inlineAllOrder() []int {
	inl := map[int]bool{}
	for _, i := range g.Inlinable() {
		inl[i] = true
	}
	var order []int
	state := make([]int, len(g.Sites))
	var visit func(i int)
	visit = func(i int) {
		if state[i] != 0 {
			return
		}
		state[i] = 1
		for _, j := range g.adj[i] {
			visit(j)
		}
		state[i] = 2
		if inl[i] {
			order = append(order, i)
		}
	}
	for i := range g.Sites {
		visit(i)
	}
	return order
}

// Shape summarises the reference graph for labels, the non-triviality rule,
// the distinctness key and the known-shape predicates.
type Shape struct {
	Sites        int
	SharedKinds  map[Kind]int // kind -> number of targets used from >= 2 sites
	SharedNames  map[Kind]int // ... of which under >= 2 different names
	CrossFile    int          // sites whose chain crosses a file boundary
	MaxChain     int
	Cyclic       int // recursive sites
	Weird        int // sites whose pointer needs ~0 ~1 or percent escapes
	Key          string
	HeaderShared bool // one header target used under >= 2 different header names
	PathItemShar bool // one path item target used from >= 2 paths/webhooks
	AbsRootRef   bool // a non-schema reference to the root document spelled as absolute path
	PercentName  bool // a referenced name contains a literal percent sign
	// one response target used under a concrete status code and under a pattern/default
	ResponseCodeAndPattern bool
	// two response objects written in operations (not components) whose content
	// schema is a reference to one schema
	LiteralResponsesShareSchema bool
	// two different targets of one kind whose pointers end in the same name
	SameNameTargets bool
}

func analyse(docs Docs) Shape {
	g := buildGraph(docs)
	sh := Shape{Sites: len(g.Sites), SharedKinds: map[Kind]int{}, SharedNames: map[Kind]int{}}
	type use struct {
		names    map[string]bool
		useNames map[string]bool
		n, uses  int
		kind     Kind
	}
	uses := map[string]*use{}
	var keyParts []string
	for i, s := range g.Sites {
		rec := g.Recursive(i)
		if rec {
			sh.Cyclic++
		}
		if strings.ContainsAny(s.Ref, "~%") {
			sh.Weird++
		}
		if strings.HasPrefix(s.Ref, "/") && g.TFile[i] == rootFile && s.Kind != KSchema {
			sh.AbsRootRef = true
		}
		if strings.Contains(ptrString(g.TTokens[i]), "%") {
			sh.PercentName = true
		}
		fk, hops, cross, ok := g.Final(i)
		if !ok {
			keyParts = append(keyParts, fmt.Sprintf("%s:%s>?%v", s.Kind, s.key(), rec))
			continue
		}
		if cross {
			sh.CrossFile++
		}
		if hops > sh.MaxChain {
			sh.MaxChain = hops
		}
		u := uses[string(s.Kind)+" "+fk]
		if u == nil {
			u = &use{names: map[string]bool{}, useNames: map[string]bool{}, kind: s.Kind}
			uses[string(s.Kind)+" "+fk] = u
		}
		u.n++
		name := s.Name()
		if s.Kind == KHeader {
			name = strings.ToLower(name)
		}
		u.names[name] = true
		if !s.isAlias() {
			// a use site: the target is parsed in the context of this name
			u.useNames[name] = true
			u.uses++
		}
		keyParts = append(keyParts, fmt.Sprintf("%s:%s>%s/%d", s.Kind, s.key(), fk, hops))
	}
	for _, u := range uses {
		if u.n >= 2 {
			sh.SharedKinds[u.kind]++
			if len(u.names) >= 2 {
				sh.SharedNames[u.kind]++
			}
		}
		if u.kind == KHeader && len(u.useNames) >= 2 {
			sh.HeaderShared = true
		}
		if u.kind == KPathItem && u.uses >= 2 {
			sh.PathItemShar = true
		}
		if u.kind == KResponse {
			num, pat := false, false
			for n := range u.useNames {
				if isPatternCode(n) {
					pat = true
				} else {
					num = true
				}
			}
			if num && pat {
				sh.ResponseCodeAndPattern = true
			}
		}
	}
	lastName := map[string]string{}
	for i, s := range g.Sites {
		if len(g.TTokens[i]) == 0 || g.TNode[i] == nil {
			continue
		}
		name := string(s.Kind) + " " + g.TTokens[i][len(g.TTokens[i])-1]
		full := g.TFile[i] + "#" + ptrString(g.TTokens[i])
		if prev, ok := lastName[name]; ok && prev != full {
			sh.SameNameTargets = true
		}
		lastName[name] = full
	}
	litResp := map[string]int{}
	for i, s := range g.Sites {
		n := len(s.Path)
		if s.Kind == KSchema && n >= 6 && s.Path[n-1] == "schema" && s.Path[n-3] == "content" && s.Path[n-5] == "responses" && (s.Path[0] == "paths" || s.Path[0] == "webhooks" || s.Path[1] == "pathItems") {
			if fk, _, _, ok := g.Final(i); ok {
				litResp[fk]++
				if litResp[fk] >= 2 {
					sh.LiteralResponsesShareSchema = true
				}
			}
		}
	}
	sort.Strings(keyParts)
	sh.Key = strings.Join(keyParts, "|")
	return sh
}

func (sh Shape) nonTrivial() bool {
	return len(sh.SharedKinds) > 0 || sh.CrossFile > 0 || sh.Cyclic > 0
}

func isPatternCode(code string) bool {
	return code == "default" || strings.HasSuffix(code, "XX")
}
