package c07

import (
	"os"
	"testing"
)

func TestRegressList(t *testing.T) {
	if os.Getenv("C07_PROBE") == "" {
		return
	}
	os.Setenv("VERIF_KNOWN", "")
	show := func(unit string, cs []Case) {
		for i, c := range cs {
			r := runCase(unit, c)
			cl, what := "-", ""
			if r.Finding != nil {
				cl, what = r.Finding.Classifier, r.Finding.What
				if len(what) > 230 {
					what = what[:230]
				}
			}
			t.Logf("%s[%d]: %s  %s", unit, i, cl, what)
		}
	}
	show("transparency", regressTransparency)
	show("transparency", regressKnownTransparency)
	show("cycle", regressCycles)
	show("cycle", regressKnownCycles)
	show("expand", regressKnownExpand)
	stopWorker()
}
