package c07

import (
	"bufio"
	"encoding/json"
	"fmt"
	"io"
	"os"
	"os/exec"
	"regexp"
	"runtime/debug"
	"strings"
	"sync"
	"time"

	"verif/internal/vk"
)

// Every case is evaluated in a worker subprocess (the same test binary started
// with C07_WORKER=1): a stack overflow or another fatal runtime error of the
// code under test kills only the worker and is reported as a violation for the
// case that caused it; a watchdog turns a hang into a violation as well.

type wreq struct {
	Unit string `json:"unit"`
	Case Case   `json:"case"`
}

func evaluate(unit string, c Case) Result {
	switch unit {
	case "transparency":
		return checkTransparency(c)
	case "expand":
		return checkExpand(c)
	case "cycle":
		return checkCycle(c)
	}
	return harness("unknown unit %q", unit)
}

// workerLoop serves cases until stdin is closed.
func workerLoop() {
	debug.SetMaxStack(192 << 20)
	out := os.NewFile(3, "results")
	in := bufio.NewReaderSize(os.Stdin, 1<<20)
	w := bufio.NewWriter(out)
	for {
		line, err := in.ReadBytes('\n')
		if len(line) > 0 {
			var rq wreq
			var res Result
			if jerr := json.Unmarshal(line, &rq); jerr != nil {
				res = harness("worker: bad request: %v", jerr)
			} else {
				res = evaluate(rq.Unit, rq.Case)
			}
			b, _ := json.Marshal(res)
			w.Write(b)
			w.WriteByte('\n')
			w.Flush()
		}
		if err != nil {
			os.Exit(0)
		}
	}
}

type tailBuf struct {
	mu  sync.Mutex
	buf []byte
}

func (t *tailBuf) Write(p []byte) (int, error) {
	t.mu.Lock()
	if len(t.buf) < 256<<10 {
		t.buf = append(t.buf, p...)
	}
	t.mu.Unlock()
	return len(p), nil
}

func (t *tailBuf) String() string {
	t.mu.Lock()
	defer t.mu.Unlock()
	return string(t.buf)
}

type workerProc struct {
	cmd    *exec.Cmd
	stdin  io.WriteCloser
	out    *bufio.Reader
	outF   *os.File
	stderr *tailBuf
	done   chan struct{}
}

var (
	workerMu  sync.Mutex
	theWorker *workerProc
	// watchdog: a case normally takes milliseconds (the longest, 1000-deep
	// chains, well under a second); this only detects hangs.
	watchdog = 120 * time.Second
)

func startWorker() (*workerProc, error) {
	r, w, err := os.Pipe()
	if err != nil {
		return nil, err
	}
	cmd := exec.Command(os.Args[0], "-test.run=^TestC07Worker$", "-test.timeout=0")
	cmd.Env = append(os.Environ(), "C07_WORKER=1", "VERIF_OUT=", "VERIF_REPLAY=")
	cmd.ExtraFiles = []*os.File{w}
	stdin, err := cmd.StdinPipe()
	if err != nil {
		return nil, err
	}
	tb := &tailBuf{}
	cmd.Stderr = tb
	cmd.Stdout = tb
	if err := cmd.Start(); err != nil {
		return nil, err
	}
	w.Close()
	wp := &workerProc{cmd: cmd, stdin: stdin, out: bufio.NewReaderSize(r, 1<<20), outF: r, stderr: tb, done: make(chan struct{})}
	go func() { cmd.Wait(); close(wp.done) }()
	return wp, nil
}

func (w *workerProc) kill() {
	w.cmd.Process.Kill()
	<-w.done
	w.stdin.Close()
	w.outF.Close()
}

var ogenFrameRe = regexp.MustCompile(`github\.com/ogen-go/ogen/([^\s(]+(?:\(\*?\w+\))?[^\s(]*)\(`)

// crashFinding turns the death of the worker into a finding named after the
// fatal error and the innermost function of the code under test on the stack.
func crashFinding(stderr string, c Case) *vk.Finding {
	kind := "fatal-error"
	switch {
	case strings.Contains(stderr, "stack overflow"):
		kind = "stack-overflow"
	case strings.Contains(stderr, "out of memory"):
		kind = "out-of-memory"
	}
	// Name the finding after the code under test on top of the stack. A runaway
	// recursion usually alternates between a few functions and which of them is
	// innermost when the stack limit is hit is arbitrary: take the alphabetically
	// first function name among the top frames.
	fn := ""
	if i := strings.Index(stderr, "\ngoroutine "); i >= 0 {
		ms := ogenFrameRe.FindAllStringSubmatch(stderr[i:], 40)
		for _, m := range ms {
			f := m[1]
			if j := strings.Index(f, ".func"); j >= 0 {
				f = f[:j]
			}
			if k := strings.LastIndex(f, "."); k >= 0 {
				f = f[k+1:]
			}
			if fn == "" || f < fn {
				fn = f
			}
		}
	}
	cl := kind
	if fn != "" {
		cl += "-" + kebab(fn)
	}
	head := stderr
	if len(head) > 1500 {
		head = head[:1500]
	}
	return vk.F(cl, "the process dies with a fatal runtime error (%s) while handling the spec; stderr: %s", kind, head)
}

// runCase evaluates one case in the worker.
func runCase(unit string, c Case) Result {
	if os.Getenv("C07_INPROC") == "1" {
		return evaluate(unit, c)
	}
	workerMu.Lock()
	defer workerMu.Unlock()
	if theWorker == nil {
		w, err := startWorker()
		if err != nil {
			panic(fmt.Sprintf("c07: cannot start worker: %v", err))
		}
		theWorker = w
	}
	w := theWorker
	b, err := json.Marshal(wreq{Unit: unit, Case: c})
	if err != nil {
		panic(err)
	}
	b = append(b, '\n')
	type rd struct {
		line []byte
		err  error
	}
	ch := make(chan rd, 1)
	go func() {
		if _, err := w.stdin.Write(b); err != nil {
			ch <- rd{nil, err}
			return
		}
		line, err := w.out.ReadBytes('\n')
		ch <- rd{line, err}
	}()
	select {
	case r := <-ch:
		if r.err != nil || len(r.line) == 0 {
			// worker died
			select {
			case <-w.done:
			case <-time.After(10 * time.Second):
			}
			w.kill()
			theWorker = nil
			return Result{Finding: crashFinding(w.stderr.String(), c), Labels: []string{"worker-died"}}
		}
		var res Result
		if err := json.Unmarshal(r.line, &res); err != nil {
			return harness("bad worker reply: %v", err)
		}
		return res
	case <-time.After(watchdog):
		w.kill()
		theWorker = nil
		return Result{Finding: vk.F("hang", "no result after %s: parsing/generation does not terminate", watchdog), Labels: []string{"worker-hung"}}
	}
}

func stopWorker() {
	workerMu.Lock()
	defer workerMu.Unlock()
	if theWorker != nil {
		theWorker.stdin.Close()
		select {
		case <-theWorker.done:
		case <-time.After(5 * time.Second):
			theWorker.cmd.Process.Kill()
		}
		theWorker = nil
	}
}
