package c07

// Hand-made regression cases: one minimal spec per known finding (so each is
// reproduced on every run, independent of the random search) plus shapes that
// must be transparent.

func op200(extra string) string {
	return `{"responses":{"200":{"description":"d"` + extra + `}}}`
}

var regressKnownTransparency = []Case{
	// media type example is appended to the shared schema object
	mkCase(map[string]string{rootFile: hdr31 + `"paths":{"/a":{"get":{"responses":{"200":{"description":"d","content":{"application/json":{"schema":{"$ref":"#/components/schemas/S"},"example":"e"}}},"404":{"description":"d","content":{"application/json":{"schema":{"$ref":"#/components/schemas/S"}}}}}}}},"components":{"schemas":{"S":{"type":"string"}}}}`},
		Site{File: rootFile, Path: []string{"paths", "/a", "get", "responses", "200", "content", "application/json", "schema"}}),
	// property description is taken from the raw property schema only
	mkCase(map[string]string{rootFile: hdr31 + `"paths":{"/a":{"get":{"responses":{"200":{"description":"d","content":{"application/json":{"schema":{"type":"object","properties":{"p":{"$ref":"#/components/schemas/S"}}}}}}}}}},"components":{"schemas":{"S":{"type":"string","description":"text"}}}}`},
		Site{File: rootFile, Path: []string{"paths", "/a", "get", "responses", "200", "content", "application/json", "schema", "properties", "p"}}),
	// absolute-path reference to a header of the root document
	mkCase(map[string]string{rootFile: hdr31 + `"paths":{"/a":{"get":{"responses":{"200":{"description":"d","headers":{"X-A":{"$ref":"/c07/root.json#/components/headers/H"}}}}}}},"components":{"headers":{"H":{"schema":{"type":"string"}}}}}`},
		Site{File: rootFile, Path: []string{"paths", "/a", "get", "responses", "200", "headers", "X-A"}}),
	// a name with a literal percent sign in a definition file
	mkCase(map[string]string{rootFile: hdr31 + `"paths":{"/a":{"get":{"parameters":[{"$ref":"f1.json#/defs/parameters/c%2541d"}],"responses":{"200":{"description":"d"}}}}}}`,
		"/c07/f1.json": `{"defs":{"parameters":{"c%41d":{"name":"q","in":"query","schema":{"type":"string"}}}}}`},
		Site{File: rootFile, Path: []string{"paths", "/a", "get", "parameters", "0"}}),
	// two inline responses with different headers and the same top-level schema component
	mkCase(map[string]string{rootFile: hdr31 + `"paths":{"/a":{"get":{"responses":{"200":{"description":"d","headers":{"X-A":{"schema":{"type":"string"}}},"content":{"application/json":{"schema":{"$ref":"#/components/schemas/S"}}}}}}},"/b":{"get":{"responses":{"200":{"description":"d","headers":{"X-B":{"schema":{"type":"integer"}}},"content":{"application/json":{"schema":{"$ref":"#/components/schemas/S"}}}}}}}},"components":{"schemas":{"S":{"type":"object","properties":{"x":{"type":"string"}}}}}}`},
		Site{File: rootFile, Path: []string{"paths", "/a", "get", "responses", "200", "content", "application/json", "schema"}},
		Site{File: rootFile, Path: []string{"paths", "/b", "get", "responses", "200", "content", "application/json", "schema"}}),
	// one response component under a concrete code and under a pattern
	mkCase(map[string]string{rootFile: hdr31 + `"paths":{"/a":{"get":{"responses":{"200":{"$ref":"#/components/responses/R"}}}},"/b":{"get":{"responses":{"4XX":{"$ref":"#/components/responses/R"},"200":{"description":"ok"}}}}},"components":{"responses":{"R":{"description":"r","content":{"application/json":{"schema":{"type":"object","properties":{"x":{"type":"string"}}}}}}}}}`},
		Site{File: rootFile, Path: []string{"paths", "/a", "get", "responses", "200"}},
		Site{File: rootFile, Path: []string{"paths", "/b", "get", "responses", "4XX"}}),
	// auto convenient errors: default responses with a header that has "content"
	mkCase(map[string]string{rootFile: hdr31 + `"paths":{"/a":{"get":{"responses":{"default":{"$ref":"#/components/responses/E"}}}},"/b":{"get":{"responses":{"default":{"$ref":"#/components/responses/E"}}}}},"components":{"responses":{"E":{"description":"e","headers":{"X-E":{"content":{"application/json":{"schema":{"type":"number"}}}}},"content":{"application/json":{"schema":{"type":"object","properties":{"m":{"type":"string"}}}}}}}}}`},
		Site{File: rootFile, Path: []string{"paths", "/a", "get", "responses", "default"}},
		Site{File: rootFile, Path: []string{"paths", "/b", "get", "responses", "default"}}),
	// schemas with one name in two documents
	mkCase(map[string]string{rootFile: hdr31 + `"paths":{"/a":{"post":{"requestBody":{"content":{"application/json":{"schema":{"$ref":"#/components/schemas/S"}}}},"responses":{"200":{"description":"d","content":{"application/json":{"schema":{"$ref":"f1.json#/components/schemas/S"}}}}}}}},"components":{"schemas":{"S":{"type":"object","properties":{"x":{"type":"string"}}}}}}`,
		"/c07/f1.json": `{"components":{"schemas":{"S":{"type":"object","properties":{"y":{"type":"integer"}}}}}}`},
		Site{File: rootFile, Path: []string{"paths", "/a", "post", "responses", "200", "content", "application/json", "schema"}}),
	// allOf over twice the same recursive schema (fatal stack overflow in the generator)
	mkCase(map[string]string{rootFile: hdr31 + `"paths":{"/a":{"post":{"requestBody":{"content":{"application/json":{"schema":{"allOf":[{"$ref":"#/components/schemas/N"},{"$ref":"#/components/schemas/M"}]}}}},"responses":{"200":{"description":"d"}}}}},"components":{"schemas":{"N":{"type":"object","properties":{"kids":{"type":"array","items":{"$ref":"#/components/schemas/N"}}}},"M":{"allOf":[{"$ref":"#/components/schemas/N"},{"type":"object","properties":{"z":{"type":"string"}}}]}}}}`},
		Site{File: rootFile, Path: []string{"components", "schemas", "M", "allOf", "0"}}),
}

var regressKnownCycles = []Case{
	// recursive schema entered at a member that is only a $ref
	cycleCase(map[string]string{rootFile: hdr31 + `"paths":{"/a":{"get":{"responses":{"200":{"description":"d","content":{"application/json":{"schema":{"$ref":"#/x-c07/schemas/A"}}}}}}}},"x-c07":{"schemas":{"A":{"$ref":"#/x-c07/schemas/B"},"B":{"type":"object","properties":{"a":{"$ref":"#/x-c07/schemas/A"},"n":{"type":"integer"}}}}}}`},
		Expect{Outcome: "ok", Kind: KSchema, Len: 2}, "schema-cycle:entered-at-alias"),
	// the same, entered at the object: accepted
	cycleCase(map[string]string{rootFile: hdr31 + `"paths":{"/a":{"get":{"responses":{"200":{"description":"d","content":{"application/json":{"schema":{"$ref":"#/x-c07/schemas/B"}}}}}}}},"x-c07":{"schemas":{"A":{"$ref":"#/x-c07/schemas/B"},"B":{"type":"object","properties":{"a":{"$ref":"#/x-c07/schemas/A"},"n":{"type":"integer"}}}}}}`},
		Expect{Outcome: "ok", Kind: KSchema, Len: 2}),
	// names that need percent-encoding: escaped and unescaped spelling of one key
	cycleCase(map[string]string{rootFile: hdr31 + `"paths":{"/a":{"get":{"responses":{"200":{"description":"d","content":{"application/json":{"schema":{"$ref":"#/x-c07/schemas/p%7Cq"}}}}}}}},"x-c07":{"schemas":{"p|q":{"type":"object","properties":{"m":{"type":"object","additionalProperties":{"$ref":"#/x-c07/schemas/al"}}}},"al":{"$ref":"#/x-c07/schemas/p%7Cq"}}}}`},
		Expect{Outcome: "ok", Kind: KSchema, Len: 2, Members: []Site{{File: rootFile, Path: []string{"x-c07", "schemas", "p|q"}}, {File: rootFile, Path: []string{"x-c07", "schemas", "al"}}}}),
	// cycle with one required and one optional member, entered at the optional side
	cycleCase(map[string]string{rootFile: hdr31 + `"paths":{"/a":{"get":{"responses":{"200":{"description":"d","content":{"application/json":{"schema":{"$ref":"#/components/schemas/Sch1"}}}}}}}},"components":{"schemas":{"Sch1":{"type":"object","properties":{"f3":{"$ref":"#/components/schemas/A1b2"},"other":{"type":"integer"}}},"A1b2":{"type":"object","required":["f4"],"properties":{"f4":{"$ref":"#/components/schemas/Sch1"}}}}}}`},
		Expect{Outcome: "ok", Kind: KSchema, Len: 2}, "schema-cycle:required-and-optional-members"),
}

func init() {
	// a required member whose type is a self-recursive schema: the struct of the
	// request ("APostReq") is checked before "N" has been made finite
	regressKnownCycles = append(regressKnownCycles, cycleCase(map[string]string{rootFile: hdr31 + `"paths":{"/a":{"post":{"requestBody":{"content":{"application/json":{"schema":{"type":"object","required":["x"],"properties":{"x":{"$ref":"#/components/schemas/N"}}}}}},"responses":{"200":{"description":"d"}}}}},"components":{"schemas":{"N":{"type":"object","properties":{"v":{"type":"string"},"next":{"$ref":"#/components/schemas/N"}}}}}}`},
		Expect{Outcome: "ok", Kind: KSchema, Len: 1}, "schema-cycle:required-and-optional-members"))
}

var regressKnownExpand = []Case{
	// component name taken from an escaped pointer token
	expandCase(map[string]string{rootFile: hdr31 + `"paths":{"/a":{"get":{"parameters":[{"$ref":"#/x-c07/parameters/a~1b"}],"responses":{"200":{"description":"d"}}}}},"x-c07":{"parameters":{"a/b":{"name":"q","in":"query","schema":{"type":"string"}}}}}`}),
	// default values and examples are not carried
	expandCase(map[string]string{rootFile: hdr31 + `"paths":{"/a":{"get":{"parameters":[{"name":"q","in":"query","schema":{"type":"integer","default":7}}],"responses":{"200":{"description":"d"}}}}}}`}),
	expandCase(map[string]string{rootFile: hdr31 + `"paths":{"/a":{"get":{"responses":{"200":{"description":"d","content":{"application/json":{"schema":{"type":"string"},"example":"x"}}}}}}}}`}),
	// references into two files, chains and a recursive schema: must round-trip
	expandCase(map[string]string{rootFile: hdr31 + `"paths":{"/a/{id}":{"$ref":"f1.json#/defs/pathItems/P"}}}`,
		"/c07/f1.json":     `{"defs":{"pathItems":{"P":{"parameters":[{"$ref":"sub/f2.json#/components/parameters/Id"}],"get":{"responses":{"200":{"$ref":"sub/f2.json#/components/responses/R"}}}}}}}`,
		"/c07/sub/f2.json": `{"components":{"parameters":{"Id":{"$ref":"#/components/parameters/Id2"},"Id2":{"name":"id","in":"path","required":true,"schema":{"type":"string"}}},"responses":{"R":{"description":"r","headers":{"X-A":{"$ref":"#/components/headers/H"}},"content":{"application/json":{"schema":{"$ref":"#/components/schemas/Node"}}}}},"headers":{"H":{"schema":{"type":"integer"}}},"schemas":{"Node":{"type":"object","properties":{"next":{"$ref":"#/components/schemas/Node"},"v":{"type":"string"}}}}}}`}),
}

func expandCase(files map[string]string) Case {
	c := mkCase(files)
	c.Profile = "expand"
	return c
}
