package c07

import (
	"encoding/json"
	"fmt"
	"os"
	"regexp"
	"testing"
)

// TestMinimize is a triage tool (it does nothing unless C07_MIN is set): greedy
// deletion of members/items of the documents of a replay file while the
// outcome of the form with references still matches C07_MIN_PATTERN (matched
// against "parse: <err> gen: <err>"). Prints the minimised documents.
func TestMinimize(t *testing.T) {
	p := os.Getenv("C07_MIN")
	if p == "" {
		return
	}
	re := regexp.MustCompile(os.Getenv("C07_MIN_PATTERN"))
	data, _ := os.ReadFile(p)
	var r struct {
		Case Case `json:"case"`
	}
	if err := json.Unmarshal(data, &r); err != nil {
		t.Fatal(err)
	}
	docs, err := r.Case.docs()
	if err != nil {
		t.Fatal(err)
	}
	holds := func() bool {
		e := emitAll(docs)
		o := runParse(e, r.Case.DepthLimit)
		g := runGen(e, 0)
		return re.MatchString(fmt.Sprintf("parse: %v gen: %v", o.err, g.err))
	}
	if !holds() {
		t.Fatal("pattern does not match the initial case")
	}
	for changed := true; changed; {
		changed = false
		for _, f := range docs.files() {
			var rec func(n *Node)
			rec = func(n *Node) {
				switch n.K {
				case 'o':
					for i := 0; i < len(n.Keys); {
						k, v := n.Keys[i], n.Vals[i]
						n.Del(k)
						if holds() {
							changed = true
							continue
						}
						n.Keys = append(n.Keys[:i:i], append([]string{k}, n.Keys[i:]...)...)
						n.Vals = append(n.Vals[:i:i], append([]*Node{v}, n.Vals[i:]...)...)
						rec(v)
						i++
					}
				case 'a':
					for i := 0; i < len(n.Items); {
						v := n.Items[i]
						n.Items = append(n.Items[:i:i], n.Items[i+1:]...)
						if holds() {
							changed = true
							continue
						}
						n.Items = append(n.Items[:i:i], append([]*Node{v}, n.Items[i:]...)...)
						rec(v)
						i++
					}
				}
			}
			rec(docs[f])
		}
	}
	for _, f := range docs.files() {
		fmt.Printf("==== %s\n%s\n", f, Compact(docs[f]))
	}
	e := emitAll(docs)
	fmt.Printf("parse: %v\ngen: %v\n", runParse(e, r.Case.DepthLimit).err, runGen(e, 0).err)
}
