// Package c07 decides property C07 ("$ref is transparent (referencing equals
// inlining) and reference cycles terminate") at the parser level and at the
// generator level (gen.NewGenerator). The clause about the behaviour of the
// compiled server is decided on regenerated servers elsewhere.
//
// Inputs are OpenAPI 3.0/3.1 documents built as ordered trees (tree.go) with a
// random reference graph over every component kind (gen.go, cycles.go); the
// inliner (refs.go) is independent of ogen: it resolves references with
// net/url and RFC 6901 only.
package c07

import (
	"encoding/json"
	"fmt"
	"os"
	"testing"

	"pgregory.net/rapid"

	"verif/internal/vk"
)

func mkCase(files map[string]string, inline ...Site) Case {
	c := Case{Files: map[string]json.RawMessage{}}
	for f, s := range files {
		n, err := ParseTree([]byte(s))
		if err != nil {
			panic(fmt.Sprintf("%s: %v", f, err))
		}
		c.Files[f] = Compact(n)
	}
	c.Inline = inline
	c.AllowKnown = true
	c.Tags = []string{"hand-made"}
	return c
}

func wrap(u *vk.Unit, unit string) func(Case) *vk.Finding {
	return func(c Case) *vk.Finding {
		res := runCase(unit, c)
		for _, l := range res.Labels {
			u.Label(l)
		}
		if res.NTKey != "" {
			u.NonTrivial(res.NTKey)
			u.Sample(res.Digest)
		}
		return res.Finding
	}
}

const hdr31 = `{"openapi":"3.1.0","info":{"title":"t","version":"1"},`

var regressTransparency = []Case{
	// (a) one header component used under two header names
	mkCase(map[string]string{rootFile: hdr31 + `"paths":{"/a":{"get":{"responses":{"200":{"description":"d","headers":{"X-First":{"$ref":"#/components/headers/H"},"X-Second":{"$ref":"#/components/headers/H"}}}}}}},"components":{"headers":{"H":{"schema":{"type":"string"}}}}}`},
		Site{File: rootFile, Path: []string{"paths", "/a", "get", "responses", "200", "headers", "X-First"}}),
	// same through two alias components and a definition file
	mkCase(map[string]string{rootFile: hdr31 + `"paths":{"/a":{"get":{"responses":{"200":{"description":"d","headers":{"X-First":{"$ref":"#/components/headers/A"}}},"404":{"description":"d","headers":{"X-Second":{"$ref":"#/components/headers/B"}}}}}}},"components":{"headers":{"A":{"$ref":"f1.json#/defs/headers/H"},"B":{"$ref":"f1.json#/defs/headers/H"}}}}`,
		"/c07/f1.json": `{"defs":{"headers":{"H":{"schema":{"type":"integer"}}}}}`},
		Site{File: rootFile, Path: []string{"components", "headers", "B"}}, Site{File: rootFile, Path: []string{"paths", "/a", "get", "responses", "404", "headers", "X-Second"}}),
	// (b) one path item component used by two paths, no operationId
	mkCase(map[string]string{rootFile: hdr31 + `"paths":{"/a":{"$ref":"#/components/pathItems/P"},"/b":{"$ref":"#/components/pathItems/P"}},"components":{"pathItems":{"P":{"get":{"responses":{"200":{"description":"d"}}}}}}}`},
		Site{File: rootFile, Path: []string{"paths", "/b"}}),
	// path item in a definition file used by a path and a webhook
	mkCase(map[string]string{rootFile: hdr31 + `"paths":{"/a":{"$ref":"f1.json#/defs/pathItems/P"}},"webhooks":{"h":{"$ref":"f1.json#/defs/pathItems/P"}}}`,
		"/c07/f1.json": `{"defs":{"pathItems":{"P":{"post":{"responses":{"200":{"description":"d"}}}}}}}`},
		Site{File: rootFile, Path: []string{"webhooks", "h"}}),
	// a response used under two status codes, a parameter used by two operations,
	// a schema used as required and as optional member: must be transparent
	mkCase(map[string]string{rootFile: hdr31 + `"paths":{"/a":{"get":{"parameters":[{"$ref":"#/components/parameters/Q"}],"responses":{"200":{"$ref":"#/components/responses/R"},"404":{"$ref":"#/components/responses/R"}}},"post":{"parameters":[{"$ref":"#/components/parameters/Q"}],"responses":{"default":{"$ref":"#/components/responses/R"}}}}},"components":{"parameters":{"Q":{"name":"q","in":"query","schema":{"$ref":"#/components/schemas/S"}}},"responses":{"R":{"description":"r","content":{"application/json":{"schema":{"type":"object","required":["a"],"properties":{"a":{"$ref":"#/components/schemas/S"},"b":{"$ref":"#/components/schemas/S"}}}}}}},"schemas":{"S":{"type":"string"}}}}`},
		Site{File: rootFile, Path: []string{"paths", "/a", "get", "responses", "404"}}, Site{File: rootFile, Path: []string{"paths", "/a", "post", "parameters", "0"}}),
	// escaped pointers into an extension member and a definition file in a sub directory
	mkCase(map[string]string{rootFile: hdr31 + `"paths":{"/a":{"get":{"parameters":[{"$ref":"#/x-c07/parameters/a~1b~0c%20d"}],"responses":{"200":{"$ref":"sub/f2.json#/defs/responses/r~1s"}}}}},"x-c07":{"parameters":{"a/b~c d":{"name":"q","in":"query","schema":{"$ref":"sub/f2.json#/defs/schemas/t%7Cu"}}}}}`,
		"/c07/sub/f2.json": `{"defs":{"responses":{"r/s":{"description":"d","content":{"application/json":{"schema":{"$ref":"#/defs/schemas/t%7Cu"}}}}},"schemas":{"t|u":{"type":"integer"}}}}`},
		Site{File: rootFile, Path: []string{"paths", "/a", "get", "responses", "200"}}, Site{File: rootFile, Path: []string{"paths", "/a", "get", "parameters", "0"}}),
}

func TestTransparency(t *testing.T) {
	u := vk.New(t, "C07", "transparency")
	defer u.Close()
	defer stopWorker()
	vk.Rapid(u, vk.N(2400, 100_000), append(append([]Case(nil), regressTransparency...), regressKnownTransparency...), func(t *rapid.T) Case { return drawCase(t, "") }, wrap(u, "transparency"))
}

func TestExpand(t *testing.T) {
	u := vk.New(t, "C07", "expand-roundtrip")
	defer u.Close()
	defer stopWorker()
	vk.Rapid(u, vk.N(800, 30_000), regressKnownExpand, func(t *rapid.T) Case { return drawCase(t, "expand") }, wrap(u, "expand"))
}

func cycleCase(files map[string]string, ex Expect, tags ...string) Case {
	c := mkCase(files)
	c.AllowKnown = false
	c.Expect = &ex
	c.Tags = append(c.Tags, tags...)
	return c
}

var regressCycles = []Case{
	// recursive oneOf used as parameter schema (style validation walks the sum)
	cycleCase(map[string]string{rootFile: hdr31 + `"paths":{"/a":{"get":{"parameters":[{"name":"q","in":"query","schema":{"$ref":"#/components/schemas/A"}}],"responses":{"200":{"description":"d"}}}}},"components":{"schemas":{"A":{"oneOf":[{"$ref":"#/components/schemas/A"},{"type":"string"}]}}}}`},
		Expect{Outcome: "terminates", Kind: KSchema, Len: 1}, "schema-cycle:through-sum", "entry:parameter-schema"),
	cycleCase(map[string]string{rootFile: hdr31 + `"paths":{"/a":{"get":{"responses":{"200":{"description":"d","headers":{"X-A":{"$ref":"#/components/headers/A"}}}}}}},"components":{"headers":{"A":{"$ref":"#/components/headers/B"},"B":{"$ref":"#/components/headers/A"}}}}`},
		Expect{Outcome: "error-recursion", Kind: KHeader, Len: 2, Members: []Site{{File: rootFile, Path: []string{"components", "headers", "A"}}, {File: rootFile, Path: []string{"components", "headers", "B"}}}}),
	cycleCase(map[string]string{rootFile: hdr31 + `"paths":{"/a":{"get":{"responses":{"200":{"description":"d","content":{"application/json":{"schema":{"$ref":"#/components/schemas/A"}}}}}}}},"components":{"schemas":{"A":{"type":"object","required":["b"],"properties":{"b":{"$ref":"#/components/schemas/B"}}},"B":{"type":"object","required":["a"],"properties":{"a":{"$ref":"#/components/schemas/A"}}}}}}`},
		Expect{Outcome: "gen-recursion", Kind: KSchema, Len: 2}),
	cycleCase(map[string]string{rootFile: hdr31 + `"paths":{"/a":{"get":{"responses":{"200":{"description":"d","content":{"application/json":{"schema":{"$ref":"#/components/schemas/A"}}}}}}}},"components":{"schemas":{"A":{"type":"object","required":["b"],"properties":{"b":{"$ref":"#/components/schemas/B"}}},"B":{"type":"object","properties":{"a":{"$ref":"#/components/schemas/A"}}}}}}`},
		Expect{Outcome: "ok", Kind: KSchema, Len: 2}),
}

func TestCycles(t *testing.T) {
	u := vk.New(t, "C07", "cycles")
	defer u.Close()
	defer stopWorker()
	vk.Rapid(u, vk.N(800, 30_000), append(append([]Case(nil), regressCycles...), regressKnownCycles...), drawCycle, wrap(u, "cycle"))
}

// deepChains: chains around the default limit of 1000 nested references, which
// is the only limit the generator entry point uses. The documents are rebuilt
// from the recipe (they are too large to be stored in a replay file).
func deepChains() []Case {
	var out []Case
	for i, k := range []Kind{KParam, KSchema, KHeader, KResponse} {
		for _, n := range []int{999, 1000, 1001, 1003} {
			if vk.Tier() == "quick" && (i > 1 || n == 999 || n == 1003) {
				continue
			}
			out = append(out, deepChain(k, n))
		}
	}
	return out
}

func TestDepthLimit(t *testing.T) {
	u := vk.New(t, "C07", "depth-limit")
	defer u.Close()
	defer stopWorker()
	vk.Rapid(u, vk.N(400, 10_000), deepChains(), drawDepth, wrap(u, "cycle"))
}

// TestC07Worker is the worker process entry; it does nothing unless started by runCase.
func TestC07Worker(t *testing.T) {
	if os.Getenv("C07_WORKER") != "1" {
		return
	}
	workerLoop()
}

// TestDump prints the documents of a replay file (C07_DUMP=path), as given and inlined.
func TestDump(t *testing.T) {
	p := os.Getenv("C07_DUMP")
	if p == "" {
		return
	}
	data, err := os.ReadFile(p)
	if err != nil {
		t.Fatal(err)
	}
	var r struct {
		Case Case `json:"case"`
	}
	if err := json.Unmarshal(data, &r); err != nil {
		t.Fatal(err)
	}
	docs, err := r.Case.docs()
	if err != nil {
		t.Fatal(err)
	}
	inl := docs.Clone()
	for _, s := range r.Case.Inline {
		fmt.Printf("inline %s#%s\n", s.File, ptrString(s.Path))
		if err := inlineSite(inl, s); err != nil {
			t.Fatal(err)
		}
	}
	for _, f := range docs.files() {
		fmt.Printf("==== %s\n%s", f, emitAll(docs).texts[f])
	}
	if len(r.Case.Inline) > 0 && os.Getenv("C07_DUMP_INLINED") != "" {
		for _, f := range inl.files() {
			fmt.Printf("==== inlined %s\n%s", f, emitAll(inl).texts[f])
		}
	}
	fmt.Printf("tags %v allow=%v expect=%+v\n", r.Case.Tags, r.Case.AllowKnown, r.Case.Expect)
	for i, d := range []Docs{docs, inl} {
		e := emitAll(d)
		o := runParse(e, r.Case.DepthLimit)
		fmt.Printf("form %d: parse err=%v\n", i, o.err)
		if o.api != nil {
			for _, op := range o.api.Operations {
				fmt.Printf("   %s %s\n", op.HTTPMethod, op.Path)
			}
		}
		g := runGen(e, 0)
		fmt.Printf("form %d: gen err=%v\n", i, g.err)
	}
}
